/-
  C18 — CLI exit codes and the argument-to-context contract.

  Property theorems only (helper lemmas: Props/Lemmas/C18_Parsers.lean, C18_Argv.lean, C18_Main.lean).
  `Generated/CliMain.lean` is rewritten from the source under test on every run
  (harness/extract_c18.py).
-/
import PypyrModel.Cli
import Generated.CliMain
import Props.Lemmas.C18_Parsers
import Props.Lemmas.C18_Argv
import Props.Lemmas.C18_Main

namespace Pypyr.C18
open Pypyr.Cli

/-! ## Exit status -/

/-- 0 exactly when nothing escaped the run or a Stop-family instruction ended it; 130 exactly on
    KeyboardInterrupt; 255 exactly when another error escaped - and then stderr carries
    `type: message`. There is no fourth status. -/
theorem exit_code_spec (r : Raised) :
    (exitStatus r = 0 ↔ r = .nothing ∨ r = .stop ∨ r = .stopPipeline ∨ r = .stopStepGroup) ∧
    (exitStatus r = 130 ↔ r = .keyboardInterrupt) ∧
    (exitStatus r = 255 ↔ ∃ ty msg, r = .error ty msg) ∧
    (∀ ty msg, r = .error ty msg →
        (cliMain (pipelineRun r)).stderr = "\n" ++ "\x1b[91m" ++ ty ++ ": " ++ msg ++ "\x1b[0;0m" ++ "\n") ∧
    (r = .keyboardInterrupt → (cliMain (pipelineRun r)).stdout = "\n") := by
  cases r <;> simp [exitStatus, pipelineRun, cliMain, sysExit]

example : exitStatus .stopPipeline = 0 ∧ exitStatus (.error "ValueError" "boom") = 255 ∧
    exitStatus .keyboardInterrupt = 130 ∧
    (cliMain (pipelineRun (.error "ValueError" "boom"))).stderr = "\n\x1b[91mValueError: boom\x1b[0;0m\n" := by
  decide +kernel

/-! ## Exit status: a fault in any phase of `main` -/

/-- Tie to the source (extracted from `pypyr/cli.py` and `pypyr/__main__.py` on every run):
    after `get_args`, `main` makes exactly the calls of `mainShape`, each where `mainShape` puts it -
    none before the `try`, all three in its body, none in an `else`/`finally` or after it; the
    handler ladder is `KeyboardInterrupt → 128 + SIGINT`, `Exception → 255`, in this order; the
    `Exception` handler starts by writing the pieces `mainStderrWrites` to stderr, the interrupt
    handler a newline to stdout; `main` has no other `return`; the entry point is
    `sys.exit(pypyr.cli.main())`. Moving a call out of the `try`, narrowing or reordering a handler,
    or changing what is written breaks this obligation. -/
theorem main_shape_agrees :
    Generated.CliMain.callsOfMain =
      ("before-try", "get_args") ::
        (mainShape.beforeTry.map (fun p => ("before-try", p.callName)) ++
         mainShape.inTry.map (fun p => ("try", p.callName))) ∧
    Generated.CliMain.handlers = mainHandlers ∧
    Generated.CliMain.errorName = some "e" ∧
    Generated.CliMain.errorWrites = mainStderrWrites ∧
    Generated.CliMain.interruptWrites = [[(false, "\n")]] ∧
    Generated.CliMain.plainReturns = [] ∧
    Generated.CliMain.entryPoint = ["main: return pypyr.cli.main()", "sys.exit(main())"] := by
  decide +kernel

/-- The model's ladder `cliMain` is the extracted ladder: for whatever is raised in the `try` body,
    the first extracted handler that catches it returns what `cliMain` returns, and what the
    `Exception` handler writes first is the extracted pieces evaluated at `type(e).__name__ = ty`,
    `str(e) = msg`. -/
theorem ladder_is_extracted (x : Raised) (hx : x ≠ .nothing) :
    ladderRet Generated.CliMain.handlers x = some (cliMain x).ret ∧
    (∀ ty msg, x = .error ty msg →
        renderWrites ty msg Generated.CliMain.errorWrites = some (cliMain x).stderr) := by
  have hh : Generated.CliMain.handlers = mainHandlers := main_shape_agrees.2.1
  have hw : Generated.CliMain.errorWrites = mainStderrWrites := main_shape_agrees.2.2.2.1
  rw [hh, hw]
  refine ⟨ladderRet_mainHandlers x hx, ?_⟩
  intro ty msg h
  subst h
  exact renderWrites_main ty msg

example : ladderRet mainHandlers .keyboardInterrupt = some (some 130) ∧
    ladderRet mainHandlers (.error "ConfigError" "x") = some (some 255) ∧
    ladderRet mainHandlers .nothing = none ∧
    renderWrites "ConfigError" "boom" mainStderrWrites = some "\n\x1b[91mConfigError: boom\x1b[0;0m\n" := by
  decide +kernel

/-- Nothing escapes `main`: whatever each of `config.init()`, `set_root_logger(…)` and
    `pipelinerunner.run(…)` raises, `main` returns, and what goes down the handler ladder is what
    the first raising call raised. -/
theorem main_never_escapes (f : Faults) :
    mainPhases f = .returned (cliMain (seqRaises f [.configInit, .setRootLogger, .runPipeline])) := rfl

/-- **Exit-code clause, for a fault in any phase.** Let `p` be the first call of `main` that raises
    (all calls before it in source order return) and `x` what it raises. Then, whichever phase `p`
    is - configuration look-up, logging set-up, or loading/running the pipeline:
    * `KeyboardInterrupt` → status 130, a newline on stdout, nothing on stderr;
    * an `Exception` of type name `ty` with `str(e) = msg` → status 255 and stderr is
      `"\n" ++ "\x1b[91m" ++ ty ++ ": " ++ msg ++ "\x1b[0;0m" ++ "\n"`;
    * a Stop-family signal can only be what `config.init`/`set_root_logger` raised (`Pipeline.run`
      absorbs it below `main`, see `exit_zero_iff`); it is an `Exception` like any other: 255. -/
theorem exit_code_spec_any_phase (f : Faults) (p : Phase) (x : Raised)
    (hbefore : ∀ q : Phase, q.idx < p.idx → callRaises f q = .nothing)
    (hx : callRaises f p = x) (hne : x ≠ .nothing) :
    mainPhases f = .returned (cliMain x) ∧
    (x = .keyboardInterrupt →
      (mainPhases f).status = some 130 ∧ (cliMain x).stdout = "\n" ∧ (cliMain x).stderr = "") ∧
    (∀ ty msg, x = .error ty msg →
      (mainPhases f).status = some 255 ∧
      (cliMain x).stderr = "\n" ++ "\x1b[91m" ++ ty ++ ": " ++ msg ++ "\x1b[0;0m" ++ "\n") ∧
    ((x = .stop ∨ x = .stopPipeline ∨ x = .stopStepGroup) →
      p ≠ .runPipeline ∧ (mainPhases f).status = some 255) := by
  obtain ⟨pre, post, hsplit, hpre⟩ := inTry_split p
  have hseq : seqRaises f mainShape.inTry = x := by
    rw [hsplit, seqRaises_first f pre post p (fun q hq => hbefore q ((hpre q).1 hq)) (hx ▸ hne), hx]
  have hmain : mainPhases f = .returned (cliMain x) := by
    simp only [mainPhases, mainOf, mainShape, seqRaises] at hseq ⊢
    rw [hseq]
  have hs := cliMain_status x
  refine ⟨hmain, ?_, ?_, ?_⟩
  · intro h
    rw [hmain]
    exact ⟨by simp [Outcome.status, (hs.2.1 h).1], (hs.2.1 h).2⟩
  · intro ty msg h
    rw [hmain]
    exact ⟨by simp [Outcome.status, (hs.2.2.1 ty msg h).1], (hs.2.2.1 ty msg h).2⟩
  · intro h
    have hnr := run_call_never_stop f
    refine ⟨?_, ?_⟩
    · intro hp
      subst hp
      rcases h with h | h | h <;> subst h
      · exact hnr.1 hx
      · exact hnr.2.1 hx
      · exact hnr.2.2 hx
    · rw [hmain]
      rcases h with h | h | h
      · simp [Outcome.status, (hs.2.2.2.1 h).1]
      · simp [Outcome.status, (hs.2.2.2.2.1 h).1]
      · simp [Outcome.status, (hs.2.2.2.2.2 h).1]

/-- A missing `$PYPYR_CONFIG_GLOBAL` file (raised by `config.init()`), an unwritable `--logpath`
    (raised by `set_root_logger`) and a missing pipeline all end the same way; an interrupt during
    config look-up is 130; a later phase's fault is not reached when an earlier phase raised. -/
example :
    mainPhases (faultAt .configInit (.error "ConfigError" "gone")) =
      .returned ⟨some 255, "", "\n\x1b[91mConfigError: gone\x1b[0;0m\n"⟩ ∧
    (mainPhases (faultAt .setRootLogger (.error "FileNotFoundError" "x"))).status = some 255 ∧
    (mainPhases (faultAt .runPipeline (.error "PipelineNotFoundError" "p"))).status = some 255 ∧
    (mainPhases (faultAt .configInit .keyboardInterrupt)).status = some 130 ∧
    (mainPhases (faultAt .runPipeline .stopPipeline)).status = some 0 ∧
    (mainPhases (faultAt .configInit .stop)).status = some 255 ∧
    (mainPhases (fun | .configInit => .keyboardInterrupt | _ => .error "E" "later")).status = some 130 := by
  decide +kernel

/-- Status 0 **exactly** when every phase returned, the runner counting as returned when the run
    completed or a Stop-family instruction ended it. -/
theorem exit_zero_iff (f : Faults) :
    (mainPhases f).status = some 0 ↔
      f .configInit = .nothing ∧ f .setRootLogger = .nothing ∧
      (f .runPipeline = .nothing ∨ f .runPipeline = .stop ∨ f .runPipeline = .stopPipeline ∨
       f .runPipeline = .stopStepGroup) := by
  rw [← run_call_returns_iff]
  have hiff : (mainPhases f).status = some 0 ↔ seqRaises f mainShape.inTry = .nothing := by
    show some (sysExit (cliMain (seqRaises f mainShape.inTry)).ret) = some 0 ↔ _
    rcases cliMain_status_cases (seqRaises f mainShape.inTry) with ⟨h1, h2⟩ | ⟨h1, h2⟩ | ⟨h1, h2, _⟩
    · rw [h1]; simp [h2]
    · rw [h1]; simp [h2]
    · rw [h1]; simp [h2]
  rw [hiff, seqRaises_nothing_iff]
  simp [mainShape, callRaises]

/-- 130 exactly when the first raising call raised `KeyboardInterrupt`, 255 exactly when it raised
    anything else; there is no fourth status and no uncaught exception. -/
theorem exit_status_trichotomy (f : Faults) :
    ((mainPhases f).status = some 0 ∧ seqRaises f mainShape.inTry = .nothing) ∨
    ((mainPhases f).status = some 130 ∧ seqRaises f mainShape.inTry = .keyboardInterrupt) ∨
    ((mainPhases f).status = some 255 ∧ seqRaises f mainShape.inTry ≠ .nothing ∧
      seqRaises f mainShape.inTry ≠ .keyboardInterrupt) := by
  show (some (sysExit (cliMain (seqRaises f mainShape.inTry)).ret) = some 0 ∧ _) ∨
    (some (sysExit (cliMain (seqRaises f mainShape.inTry)).ret) = some 130 ∧ _) ∨
    (some (sysExit (cliMain (seqRaises f mainShape.inTry)).ret) = some 255 ∧ _)
  rcases cliMain_status_cases (seqRaises f mainShape.inTry) with h | h | h
  · exact .inl ⟨by rw [h.1], h.2⟩
  · exact .inr (.inl ⟨by rw [h.1], h.2⟩)
  · exact .inr (.inr ⟨by rw [h.1], h.2⟩)

/-- The placement matters, for every conceivable placement of the calls: `main` is free of uncaught
    exceptions for **all** behaviours of its calls exactly when no call sits before the `try`.
    (So a variant of `main` with any of the three calls hoisted out of the `try` violates the
    exit-code clause on some fault of that call.) -/
theorem no_escape_iff_all_calls_in_try (s : MainShape) :
    (∀ f : Faults, ∃ m, mainOf s f = .returned m) ↔ s.beforeTry = [] := by
  constructor
  · intro h
    cases hb : s.beforeTry with
    | nil => rfl
    | cons p ps =>
      exfalso
      obtain ⟨m, hm⟩ := h (fun _ => .error "E" "m")
      have hp : callRaises (fun _ => Raised.error "E" "m") p = .error "E" "m" := by
        cases p <;> simp [callRaises, pipelineRun]
      have : seqRaises (fun _ => Raised.error "E" "m") (p :: ps) = .error "E" "m" := by
        rw [seqRaises_cons_raises _ _ _ (by rw [hp]; simp), hp]
      simp [mainOf, hb, this] at hm
  · intro h f
    exact ⟨cliMain (seqRaises f s.inTry), by simp [mainOf, h, seqRaises]⟩

/-- The seeded shape: `config.init()` above the `try`. A config fault then leaves `main` uncaught. -/
example : mainOf ⟨[.configInit], [.setRootLogger, .runPipeline]⟩ (faultAt .configInit (.error "ConfigError" "gone")) =
    .escaped (.error "ConfigError" "gone") := by decide +kernel

/-- The one-phase statement `exit_code_spec` is the run-phase instance. -/
theorem exit_status_run_phase (r : Raised) :
    (mainPhases (faultAt .runPipeline r)).status = some (exitStatus r) := by
  cases r <;> rfl

/-- A usage error of the argument parser is status 2; otherwise the status is that of the run
    invoked with the parsed arguments passed through field by field. -/
theorem cli_process_spec (argv : List String) (runs : RunCall → Raised) (a : Args)
    (h : parseArgv argv = .ok a) :
    cliProcess argv runs = some (exitStatus (runs
      { pipelineName := a.name, argsIn := a.ctx, parseArgs := some true, groups := a.groups,
        successGroup := a.success, failureGroup := a.failure, pyDir := a.dir })) := by
  simp [cliProcess, h, runCallOf]

/-- The same with a fault possible in every phase: for a parsed command line the outcome is that of
    `main` with the logger set up from `--log`/`--logpath` as given and the runner called with the
    parsed arguments field by field; `main` returns in every case (no uncaught exception) and the
    status is 0, 130 or 255. -/
theorem cli_process_phases_spec (argv : List String) (cfg : Raised)
    (log : Option Nat → Option String → Raised) (runs : RunCall → Raised) (a : Args)
    (h : parseArgv argv = .ok a) :
    ∃ m, cliProcessPhases argv cfg log runs = some (.returned m) ∧
      m = cliMain (seqRaises (fun
        | .configInit => cfg
        | .setRootLogger => log a.log a.logpath
        | .runPipeline => runs
            { pipelineName := a.name, argsIn := a.ctx, parseArgs := some true, groups := a.groups,
              successGroup := a.success, failureGroup := a.failure, pyDir := a.dir })
        [.configInit, .setRootLogger, .runPipeline]) ∧
      (sysExit m.ret = 0 ∨ sysExit m.ret = 130 ∨ sysExit m.ret = 255) := by
  refine ⟨_, by simp only [cliProcessPhases, h]; rfl, rfl, ?_⟩
  rcases cliMain_status_cases (seqRaises _ [.configInit, .setRootLogger, .runPipeline]) with h' | h' | h'
  · exact .inl h'.1
  · exact .inr (.inl h'.1)
  · exact .inr (.inr h'.1)

/-! ## argv pass-through -/

/-- Layout `options* name ctx* options*`: every option (with its values) and the positionals come
    back exactly as written, later duplicates of an option winning. The options before the name must
    not end with `--groups` (its `nargs='*'` would take the name). -/
theorem argv_passthrough (pre post : List Opt) (name : String) (ctx : List String)
    (hpre : ∀ o ∈ pre, o.Ok) (hpost : ∀ o ∈ post, o.Ok) (hng : NotEndingInGroups pre)
    (hn : Plain name) (hc : ∀ s ∈ ctx, Plain s) :
    parseArgv (renderOpts pre ++ (name :: ctx ++ renderOpts post)) =
      .ok { applyOpts {} (pre ++ post) with name := name, ctx := ctx } := by
  have htok : tokenize false (renderOpts pre ++ (name :: ctx ++ renderOpts post)) =
      some (optsToks pre ++ (Tok.pos name :: (ctx.map Tok.pos ++ optsToks post))) := by
    rw [tokenize_opts _ _ hpre, List.cons_append, tokenize_pos _ _ hn, tokenize_plain_list _ _ hc]
    have := tokenize_opts post [] hpost
    simp only [List.append_nil] at this
    rw [this]
    simp [tokenize]
  have h1 := run_opts {} (.inl rfl) pre hpre
  have h2 : step { ({} : PSt) with mode := modeAfter Mode.idle pre, args := applyOpts {} pre } (.pos name) =
      some { mode := .afterName, hasName := true, args := { applyOpts {} pre with name := name } } := by
    simp [modeAfter_idle pre hng, step, stepIdle]
  have h3 := run_ctx { mode := .afterName, hasName := true, args := { applyOpts {} pre with name := name } }
    (.inl rfl) ctx
  have hb : Boundary (if ctx = [] then Mode.afterName else Mode.inCtx) := by
    split <;> simp [Boundary]
  have h4 := run_opts
    { mode := (if ctx = [] then Mode.afterName else Mode.inCtx), hasName := true,
      args := { applyOpts {} pre with name := name, ctx := (applyOpts {} pre).ctx ++ ctx } } hb post hpost
  simp only [parseArgv, htok, run_append, h1, Option.bind_some, run, h2, h3, h4]
  rw [finish_boundary _ (boundary_modeAfter _ hb post) rfl]
  simp only [applyOpts_ctx, List.nil_append, applyOpts_name_ctx]
  rw [erase_dd_of_plain _ hc]
  simp [applyOpts, List.foldl_append]

example : parseArgv ["--log", "20", "pipe", "k=v", "a b", "--groups", "g1", "g2", "--success", "s"] =
    .ok { name := "pipe", ctx := ["k=v", "a b"], groups := some ["g1", "g2"], success := some "s", log := some 20 } := by
  decide +kernel

/-- Layout `options* -- name anything*`: after `--` nothing is interpreted; the options may end with
    `--groups`; the only string that does not come back is the first literal `--` among the
    context arguments (argparse removes it). -/
theorem argv_passthrough_dd_first (pre : List Opt) (name : String) (ctx : List String)
    (hpre : ∀ o ∈ pre, o.Ok) :
    parseArgv (renderOpts pre ++ ("--" :: name :: ctx)) =
      .ok { applyOpts {} pre with name := name, ctx := ctx.erase "--" } := by
  have htok : tokenize false (renderOpts pre ++ ("--" :: name :: ctx)) =
      some (optsToks pre ++ (Tok.dd :: Tok.pos name :: ctx.map Tok.pos)) := by
    rw [tokenize_opts _ _ hpre, tokenize_dd]
    simp
  have h1 := run_opts {} (.inl rfl) pre hpre
  have h2 : step { ({} : PSt) with mode := modeAfter Mode.idle pre, args := applyOpts {} pre } .dd =
      some { mode := .afterDD, hasName := false, args := applyOpts {} pre } := by
    rcases modeAfter_idle_or_groups pre with h | h <;> simp [h, step, stepIdle]
  have h3 : step { mode := .afterDD, hasName := false, args := applyOpts {} pre } (.pos name) =
      some { mode := .afterName, hasName := true, args := { applyOpts {} pre with name := name } } := by
    simp [step]
  have h4 := run_ctx { mode := .afterName, hasName := true, args := { applyOpts {} pre with name := name } }
    (.inl rfl) ctx
  have hb : Boundary (if ctx = [] then Mode.afterName else Mode.inCtx) := by
    split <;> simp [Boundary]
  simp only [parseArgv, htok, run_append, h1, Option.bind_some, run, h2, h3, h4]
  rw [finish_boundary _ hb rfl]
  simp [applyOpts_ctx]

example : parseArgv ["--groups", "g1", "g2", "--", "pipe", "-x", "--success", "k=v"] =
    .ok { name := "pipe", ctx := ["-x", "--success", "k=v"], groups := some ["g1", "g2"] } := by
  decide +kernel

/-- Layout `options* name ctx* -- anything*`: a `--` after the name or among the context arguments
    opens an uninterpreted tail which is appended to the context arguments. -/
theorem argv_passthrough_dd_tail (pre : List Opt) (name : String) (ctx tail : List String)
    (hpre : ∀ o ∈ pre, o.Ok) (hng : NotEndingInGroups pre)
    (hn : Plain name) (hc : ∀ s ∈ ctx, Plain s) (ht : "--" ∉ tail) :
    parseArgv (renderOpts pre ++ (name :: ctx ++ ("--" :: tail))) =
      .ok { applyOpts {} pre with name := name, ctx := ctx ++ tail } := by
  have htok : tokenize false (renderOpts pre ++ (name :: ctx ++ ("--" :: tail))) =
      some (optsToks pre ++ (Tok.pos name :: (ctx.map Tok.pos ++ (Tok.dd :: tail.map Tok.pos)))) := by
    rw [tokenize_opts _ _ hpre, List.cons_append, tokenize_pos _ _ hn, tokenize_plain_list _ _ hc, tokenize_dd]
    simp
  have h1 := run_opts {} (.inl rfl) pre hpre
  have h2 : step { ({} : PSt) with mode := modeAfter Mode.idle pre, args := applyOpts {} pre } (.pos name) =
      some { mode := .afterName, hasName := true, args := { applyOpts {} pre with name := name } } := by
    simp [modeAfter_idle pre hng, step, stepIdle]
  have h3 := run_ctx { mode := .afterName, hasName := true, args := { applyOpts {} pre with name := name } }
    (.inl rfl) ctx
  simp only [parseArgv, htok, run_append, h1, Option.bind_some, run, h2, h3]
  cases ctx with
  | nil =>
    have h4 : step (⟨.afterName, true, { applyOpts {} pre with name := name, ctx := (applyOpts {} pre).ctx ++ [] }⟩ : PSt) .dd =
        some ⟨.inCtx, true, { applyOpts {} pre with name := name, ctx := (applyOpts {} pre).ctx ++ [] }⟩ := by
      simp [step]
    have h5 := run_ctx ⟨.inCtx, true, { applyOpts {} pre with name := name, ctx := (applyOpts {} pre).ctx ++ [] }⟩
      (.inr rfl) tail
    simp only [if_true, h4, h5]
    rw [finish_boundary _ (by split <;> simp [Boundary]) rfl]
    simp [applyOpts_ctx, List.erase_of_not_mem ht]
  | cons c cs =>
    have h4 : step (⟨.inCtx, true, { applyOpts {} pre with name := name, ctx := (applyOpts {} pre).ctx ++ (c :: cs) }⟩ : PSt) .dd =
        some ⟨.inCtx, true, { applyOpts {} pre with name := name, ctx := (applyOpts {} pre).ctx ++ (c :: cs) ++ ["--"] }⟩ := by
      simp [step]
    have h5 := run_ctx ⟨.inCtx, true, { applyOpts {} pre with name := name, ctx := (applyOpts {} pre).ctx ++ (c :: cs) ++ ["--"] }⟩
      (.inr rfl) tail
    simp only [reduceCtorEq, if_false, h4, h5]
    rw [finish_boundary _ (by split <;> simp [Boundary]) rfl]
    simp only [applyOpts_ctx, List.nil_append]
    have hne : "--" ∉ (c :: cs) := fun hm => plain_ne_dd (hc _ hm) rfl
    have : ((c :: cs) ++ ["--"] ++ tail).erase "--" = (c :: cs) ++ tail := by
      rw [List.append_assoc, List.erase_append_right _ hne]
      simp
    rw [this]

example : parseArgv ["pipe", "a", "--", "-b", "--groups"] = .ok { name := "pipe", ctx := ["a", "-b", "--groups"] } ∧
    parseArgv ["pipe", "--", "-b"] = .ok { name := "pipe", ctx := ["-b"] } := by
  decide +kernel

/-- What argparse refuses (status 2), by example: context arguments after an option, a `--groups`
    list directly before the name, a one-argument option without value, no pipeline name. -/
example : parseArgv ["pipe", "--success", "s", "a"] = .usage ∧ parseArgv ["--groups", "g", "pipe"] = .usage ∧
    parseArgv ["pipe", "--success"] = .usage ∧ parseArgv [] = .usage ∧
    parseArgv ["pipe", "--version"] = .outside := by
  decide +kernel

/-! ## Context parsers -/

/-- `key=value` is split at the **first** `=`: the key has no `=`; with a separator the argument is
    `key ++ "=" ++ value`, without one the key is the whole argument and the value is empty. -/
theorem split_on_first_eq (cs : List Char) :
    '=' ∉ (partitionEq cs).1 ∧
    ((partitionEq cs).2.1 = true → cs = (partitionEq cs).1 ++ '=' :: (partitionEq cs).2.2) ∧
    ((partitionEq cs).2.1 = false → cs = (partitionEq cs).1 ∧ (partitionEq cs).2.2 = [] ∧ '=' ∉ cs) :=
  partitionEq_spec cs

example : keyOf "a=b=c" = "a" ∧ valOf "a=b=c" = "b=c" ∧ keyOf "bare" = "bare" ∧ valOf "bare" = "" ∧
    keyOf "=x" = "" ∧ valOf "k=" = "" := by decide +kernel

/-- keyvaluepairs: for every non-empty argument list the result is a dict in which looking up `k`
    gives the value of the **last** argument whose key is `k` (later duplicates win), nothing for a
    key no argument has; the keys appear in order of first occurrence. -/
theorem kvpairs_spec (loads : String → Except Exc Val) (args : List String) (hne : args ≠ []) :
    ∃ d, parse loads .keyvaluepairs args = .ok (some (.dict d)) ∧
      (∀ k, dictGet? d (.str k) = (args.reverse.find? (fun a => keyOf a = k)).map (fun a => Val.str (valOf a))) ∧
      d.map (·.1) = setOfList (args.map (fun a => Val.str (keyOf a))) := by
  refine ⟨kvDict args, ?_, ?_, ?_⟩
  · cases args with
    | nil => exact absurd rfl hne
    | cons a as => simp [parse]
  · intro k
    rw [kvDict_eq, foldl_kvStep_get]
    cases args.reverse.find? (fun a => keyOf a = k) <;> simp [dictGet?]
  · rw [kvDict_eq, foldl_kvStep_keys]
    rfl

example : parse (fun _ => .ok .none) .keyvaluepairs ["a=1", "b=x=y", "a=2", "c"] =
    .ok (some (.dict [(.str "a", .str "2"), (.str "b", .str "x=y"), (.str "c", .str "")])) := by
  rfl

/-- dict: the same mapping under `argDict` (for the empty list too: `{}`). -/
theorem dict_spec (loads : String → Except Exc Val) (args : List String) :
    parse loads .dict args = .ok (some (.dict [(.str "argDict", .dict (kvDict args))])) := by
  cases args <;> simp [parse, kvDict]

/-- argskwargs: `argList` holds the arguments without `=` in order; any other key `k` holds the
    value of the last `k=…` argument; an `argList=…` argument is overwritten by the list. -/
theorem argskwargs_spec (loads : String → Except Exc Val) (args : List String) :
    ∃ d, parse loads .argskwargs args = .ok (some (.dict d)) ∧
      dictGet? d (.str "argList") = some (strList (args.filter (fun a => !hasSep a))) ∧
      ∀ k, k ≠ "argList" → dictGet? d (.str k) =
        ((args.filter hasSep).reverse.find? (fun a => keyOf a = k)).map (fun a => Val.str (valOf a)) := by
  cases args with
  | nil =>
    refine ⟨[(.str "argList", .list [])], by simp [parse], by simp [dictGet?, strList], ?_⟩
    intro k hk
    have : ¬ (Val.str "argList" = Val.str k) := by intro e; injection e with e; exact hk e.symm
    simp [dictGet?, this]
  | cons a as =>
    refine ⟨_, by simp only [parse, List.isEmpty_cons]; rfl, ?_, ?_⟩
    · rw [argsKwargsLoop_closed]
      simp [dictGet_dictSet_same]
    · intro k hk
      have hne : Val.str k ≠ Val.str "argList" := by intro e; injection e with e; exact hk e
      rw [argsKwargsLoop_closed, dictGet_dictSet_other _ _ _ _ hne]
      simp only []
      rw [foldl_kvStep_get]
      cases ((a :: as).filter hasSep).reverse.find? (fun a => keyOf a = k) <;> simp [dictGet?]

example : parse (fun _ => .ok .none) .argskwargs ["x", "k=1", "y z", "k=2=3"] =
    .ok (some (.dict [(.str "k", .str "2=3"), (.str "argList", .list [.str "x", .str "y z"])])) := by
  rfl

/-- list: all arguments, in order, under `argList`. -/
theorem list_spec (loads : String → Except Exc Val) (args : List String) :
    parse loads .list args = .ok (some (.dict [(.str "argList", .list (args.map Val.str))])) := by
  cases args <;> simp [parse, strList]

/-- string: the arguments joined by single spaces under `argString`; joining is associative with
    exactly one space at every seam. -/
theorem string_spec (loads : String → Except Exc Val) (args : List String) :
    parse loads .string args = .ok (some (.dict [(.str "argString", .str (joinSp args))])) ∧
    (∀ xs ys : List String, xs ≠ [] → ys ≠ [] → joinSp (xs ++ ys) = joinSp xs ++ " " ++ joinSp ys) ∧
    (∀ a : String, joinSp [a] = a) ∧ joinSp [] = "" := by
  refine ⟨?_, joinSp_append, fun _ => rfl, rfl⟩
  cases args <;> simp [parse, joinSp]

example : joinSp ["a", "b c", "", "d"] = "a b c  d" := by decide +kernel

/-- keys: for a non-empty list every argument is a key, every value is `true`, nothing else is a key. -/
theorem keys_spec (loads : String → Except Exc Val) (args : List String) (hne : args ≠ []) :
    ∃ d, parse loads .keys args = .ok (some (.dict d)) ∧
      (∀ k, dictGet? d (.str k) = if k ∈ args then some (.bool true) else none) ∧
      ∀ kv ∈ d, kv.2 = .bool true := by
  refine ⟨args.foldl keyStep [], ?_, ?_, ?_⟩
  · cases args with
    | nil => exact absurd rfl hne
    | cons a as => simp only [parse, List.isEmpty_cons]; rfl
  · intro k
    rw [foldl_keyStep_get]
    simp [dictGet?]
  · exact foldl_keyStep_values args [] (by simp)

/-- json: the arguments are joined by single spaces and loaded; an object is returned as loaded,
    anything else at the top level is a `TypeError`, a decoding error propagates. -/
theorem json_spec (loads : String → Except Exc Val) (args : List String) (hne : args ≠ []) :
    parse loads .json args = match loads (joinSp args) with
      | .error e => .error e
      | .ok (.dict d) => .ok (some (.dict d))
      | .ok _ => .error typeErrorJson := by
  cases args with
  | nil => exact absurd rfl hne
  | cons a as => simp only [parse, List.isEmpty_cons]; rfl

/-- Without arguments: keyvaluepairs, keys and json give `None`; the others their empty shape. -/
theorem empty_input_table (loads : String → Except Exc Val) :
    parse loads .keyvaluepairs [] = .ok none ∧
    parse loads .keys [] = .ok none ∧
    parse loads .json [] = .ok none ∧
    parse loads .argskwargs [] = .ok (some (.dict [(.str "argList", .list [])])) ∧
    parse loads .dict [] = .ok (some (.dict [(.str "argDict", .dict [])])) ∧
    parse loads .list [] = .ok (some (.dict [(.str "argList", .list [])])) ∧
    parse loads .string [] = .ok (some (.dict [(.str "argString", .str "")])) := by
  simp [parse]

/-- Totality: every parser but json always returns (never raises); json raises only what `loads`
    raises or the top-level `TypeError`. (Determinism: `parse` is a function.) -/
theorem parsers_total (loads : String → Except Exc Val) (p : Parser) (args : List String) :
    (p ≠ .json → ∃ v, parse loads p args = .ok v) ∧
    (∀ e, parse loads p args = .error e → p = .json ∧ (loads (joinSp args) = .error e ∨ e = typeErrorJson)) := by
  cases p <;> cases args <;> simp [parse]
  rename_i a as
  intro e
  cases h : loads (joinSp (a :: as)) with
  | error e' => simp; exact fun h' => .inl h'
  | ok v =>
    cases v <;> simp
    all_goals (intro h'; exact h'.symm)

/-! ## Does the API run the parser? -/

/-- `_get_parse_input`: an explicit `parse_args` is honoured; left unset, the parser runs unless a
    dict was supplied (even an empty one) and there are no arguments (`None` or `[]`). -/
theorem parse_input_table (argsIn : Option (List String)) (dictGiven : Bool) :
    getParseInput (some true) argsIn dictGiven = true ∧
    getParseInput (some false) argsIn dictGiven = false ∧
    (getParseInput none argsIn dictGiven = false ↔
      dictGiven = true ∧ (argsIn = none ∨ argsIn = some [])) := by
  refine ⟨rfl, rfl, ?_⟩
  cases dictGiven <;> cases argsIn with
  | none => simp [getParseInput, argsTruthy]
  | some l => cases l <;> simp [getParseInput, argsTruthy]

/-- The table itself, row by row (args_in: None / [] / non-empty; dict_in: None / given). -/
example :
    getParseInput none none false = true ∧ getParseInput none (some []) false = true ∧
    getParseInput none (some ["a"]) false = true ∧ getParseInput none none true = false ∧
    getParseInput none (some []) true = false ∧ getParseInput none (some ["a"]) true = true ∧
    getParseInput (some true) none true = true ∧ getParseInput (some false) (some ["a"]) false = false := by
  decide

/-- The initial context: the supplied dict; and, exactly when `parse_input` holds and the pipeline
    declares a parser, updated with the parser's result (nothing to update for `None`). -/
theorem api_runs_parser_iff (loads : String → Except Exc Val) (p : Parser)
    (parseArgs : Option Bool) (argsIn : Option (List String)) (dictIn : Option Ctx) :
    initialContext loads (some p) parseArgs argsIn dictIn =
      if getParseInput parseArgs argsIn dictIn.isSome then
        match parse loads p (argsIn.getD []) with
        | .error e => some (.error e)
        | .ok none => some (.ok (dictIn.getD []))
        | .ok (some (.dict d)) => (updateFrom (dictIn.getD []) d).map .ok
        | .ok (some _) => none
      else some (.ok (dictIn.getD [])) := by
  simp only [initialContext]
  split <;> rfl

example : initialContext (fun _ => .ok .none) (some .keyvaluepairs) none (some ["a=1"]) (some [("x", .int 1)]) =
      some (.ok [("x", .int 1), ("a", .str "1")]) ∧
    initialContext (fun _ => .ok .none) (some .keyvaluepairs) none none (some [("x", .int 1)]) =
      some (.ok [("x", .int 1)]) ∧
    initialContext (fun _ => .ok .none) (some .list) none none (some []) = some (.ok []) ∧
    initialContext (fun _ => .ok .none) (some .list) (some true) none (some []) =
      some (.ok [("argList", .list [])]) := by
  refine ⟨rfl, rfl, rfl, rfl⟩

end Pypyr.C18
