/-
  C18 — CLI exit codes and the argument-to-context contract.

  Property theorems only (helper lemmas: Props/Lemmas/C18_Parsers.lean, C18_Argv.lean, C18_Classify.lean,
  C18_Main.lean, C18_Shortcut.lean). `Generated/CliMain.lean` and `Generated/CliOptions.lean` are
  rewritten from the source under test on every run (harness/extract_c18.py).
-/
import PypyrModel.Cli
import Generated.CliMain
import Generated.CliOptions
import Generated.Ladders
import Props.Lemmas.C18_Parsers
import Props.Lemmas.C18_Argv
import Props.Lemmas.C18_Classify
import Props.Lemmas.C18_Main
import Props.Lemmas.C18_Shortcut
import Props.Lemmas.C18_Handler

namespace Pypyr.C18
open Pypyr.Cli

/-! ## Exit status -/

/-- The unconditional half of the exit-code clause: nothing escaped or a Stop-family instruction
    ended the run → 0; `KeyboardInterrupt` → 130 with a newline on stdout; another `Exception` →
    255 with `type: message` on stderr. -/
theorem exit_code_spec_forward (r : Raised) :
    ((r = .nothing ∨ r = .stop ∨ r = .stopPipeline ∨ r = .stopStepGroup) → exitStatus r = some 0) ∧
    (r = .keyboardInterrupt → exitStatus r = some 130 ∧
        tryMain (pipelineRun r) = .returned ⟨some 130, "\n", ""⟩) ∧
    (∀ ty msg, r = .error ty msg → exitStatus r = some 255 ∧
        (tryMain (pipelineRun r)).stderr = "\n" ++ "\x1b[91m" ++ ty ++ ": " ++ msg ++ "\x1b[0;0m" ++ "\n") := by
  refine ⟨?_, ?_, ?_⟩
  · rintro (h | h | h | h) <;> subst h <;> rfl
  · intro h; subst h; exact ⟨rfl, rfl⟩
  · intro ty msg h; subst h; exact ⟨rfl, rfl⟩

/-- **Exit-code clause, under the hypothesis that no `BaseException` other than
    `KeyboardInterrupt` escaped the run**: 0 exactly when nothing escaped or a Stop-family
    instruction ended the run; 130 exactly on `KeyboardInterrupt`; 255 exactly when another error
    escaped; there is no fourth status and `main` returns (nothing is left to the interpreter). -/
theorem exit_code_spec (r : Raised) (hb : r.isBase = false) :
    (exitStatus r = some 0 ↔ r = .nothing ∨ r = .stop ∨ r = .stopPipeline ∨ r = .stopStepGroup) ∧
    (exitStatus r = some 130 ↔ r = .keyboardInterrupt) ∧
    (exitStatus r = some 255 ↔ ∃ ty msg, r = .error ty msg) ∧
    (exitStatus r = some 0 ∨ exitStatus r = some 130 ∨ exitStatus r = some 255) ∧
    (∃ m, tryMain (pipelineRun r) = .returned m) := by
  cases r <;> simp_all [exitStatus, pipelineRun, tryMain, cliMain, sysExit, Outcome.status, Raised.isBase]

example : exitStatus .stopPipeline = some 0 ∧ exitStatus (.error "ValueError" "boom") = some 255 ∧
    exitStatus .keyboardInterrupt = some 130 ∧
    (tryMain (pipelineRun (.error "ValueError" "boom"))).stderr = "\n\x1b[91mValueError: boom\x1b[0;0m\n" := by
  decide +kernel

/-- **What the hypothesis excludes.** `SystemExit(code)` raised inside a step (`sys.exit(…)`) or any
    other `BaseException` that is not an `Exception` passes `Pipeline.run` and every handler of
    `main`; the interpreter ends the process: with the status `code` asks for (0 for `None`,
    `n & 0xFF` for an int, 1 and `str(code)` on stderr otherwise) and no traceback for `SystemExit`,
    with status 1 and a traceback for the others. -/
theorem exit_code_base (r : Raised) (hb : r.isBase = true) :
    tryMain (pipelineRun r) = .escaped r ∧
    (∀ c, r = .systemExit c → exitStatus r = some c.status ∧ (tryMain (pipelineRun r)).stderr = c.stderr ∧
        (tryMain (pipelineRun r)).interpreterTraceback = false) ∧
    (∀ ty msg, r = .baseOther ty msg → exitStatus r = some 1 ∧
        (tryMain (pipelineRun r)).interpreterTraceback = true) := by
  cases r <;> simp_all [exitStatus, pipelineRun, tryMain, cliMain, Outcome.status, Outcome.stderr,
    Outcome.interpreterTraceback, Raised.isBase]

/-- **Witness.** Without the hypothesis the "exactly when" of the exit-code clause is false:
    `sys.exit(0)` (or `sys.exit()`, `sys.exit(256)`) inside a step gives status 0 although the run
    neither completed nor was ended by a Stop instruction; `sys.exit(3)` gives a fourth status;
    `sys.exit(130)` / `sys.exit(255)` give 130 / 255 without an interrupt / an error. -/
theorem exit_zero_iff_fails_for_system_exit :
    ¬ (∀ r : Raised, exitStatus r = some 0 ↔ r = .nothing ∨ r = .stop ∨ r = .stopPipeline ∨ r = .stopStepGroup) := by
  intro h
  have := (h (.systemExit (.int 0))).mp (by decide +kernel)
  simp at this

example : exitStatus (.systemExit (.int 0)) = some 0 ∧ exitStatus (.systemExit .absent) = some 0 ∧
    exitStatus (.systemExit (.int 256)) = some 0 ∧ exitStatus (.systemExit (.int 3)) = some 3 ∧
    exitStatus (.systemExit (.int (-1))) = some 255 ∧ exitStatus (.systemExit (.int 130)) = some 130 ∧
    exitStatus (.systemExit (.other "bye")) = some 1 ∧
    (tryMain (pipelineRun (.systemExit (.other "bye")))).stderr = "bye\n" ∧
    exitStatus (.baseOther "GeneratorExit" "x") = some 1 ∧
    tryMain (pipelineRun (.systemExit (.int 0))) = .escaped (.systemExit (.int 0)) := by
  decide +kernel

/-- The complete case analysis, no hypothesis: status 0, 130, 255, or one of the two ways a
    `BaseException` ends the process. -/
theorem exit_status_cases (r : Raised) :
    (exitStatus r = some 0 ∧ (r = .nothing ∨ r = .stop ∨ r = .stopPipeline ∨ r = .stopStepGroup)) ∨
    (exitStatus r = some 130 ∧ r = .keyboardInterrupt) ∨
    (exitStatus r = some 255 ∧ ∃ ty msg, r = .error ty msg) ∨
    (∃ c, r = .systemExit c ∧ exitStatus r = some c.status) ∨
    (∃ ty msg, r = .baseOther ty msg ∧ exitStatus r = some 1) := by
  cases r <;> simp [exitStatus, pipelineRun, tryMain, cliMain, sysExit, Outcome.status]

/-- When `main` prints a traceback after the `type: message` line: for an `Exception`, when the
    log level is given, not 0 and below 10 (negative levels too). -/
theorem traceback_iff (log : Option Int) (r : Raised) :
    mainTraceback log r = true ↔ r.isException = true ∧ ∃ n, log = some n ∧ n ≠ 0 ∧ n < 10 := by
  cases log with
  | none => simp [mainTraceback, showsTraceback]
  | some n => simp [mainTraceback, showsTraceback]

example : mainTraceback (some 5) (.error "E" "m") = true ∧ mainTraceback (some (-5)) (.error "E" "m") = true ∧
    mainTraceback (some 0) (.error "E" "m") = false ∧ mainTraceback (some 10) (.error "E" "m") = false ∧
    mainTraceback none (.error "E" "m") = false ∧ mainTraceback (some 5) .keyboardInterrupt = false := by
  decide +kernel

/-! ## Exit status: a fault in any phase of `main` -/

/-- Tie to the source (extracted from `pypyr/cli.py` and `pypyr/__main__.py` on every run):
    after `get_args`, `main` makes exactly the calls of `mainShape`, each where `mainShape` puts it -
    none before the `try`, all three in its body, none in an `else`/`finally` or after it; the
    handler ladder is `KeyboardInterrupt → 128 + SIGINT`, `Exception → 255`, in this order (no
    `BaseException` / bare handler: `SystemExit` passes); the `Exception` handler starts by writing
    the pieces `mainStderrWrites` to stderr and goes on with the traceback guard
    `mainTracebackGuard`, the interrupt handler writes a newline to stdout; `main` has no other
    `return`; the entry point is `sys.exit(pypyr.cli.main())`. Moving a call out of the `try`,
    narrowing, widening or reordering a handler, or changing what is written breaks this obligation. -/
theorem main_shape_agrees :
    Generated.CliMain.callsOfMain =
      ("before-try", "get_args") ::
        (mainShape.beforeTry.map (fun p => ("before-try", p.callName)) ++
         mainShape.inTry.map (fun p => ("try", p.callName))) ∧
    Generated.CliMain.handlers = mainHandlers ∧
    Generated.CliMain.errorName = some "e" ∧
    Generated.CliMain.errorWrites = mainStderrWrites ∧
    Generated.CliMain.errorTail = mainTracebackGuard ∧
    Generated.CliMain.interruptWrites = [[(false, "\n")]] ∧
    Generated.CliMain.plainReturns = [] ∧
    Generated.CliMain.entryPoint = ["main: return pypyr.cli.main()", "sys.exit(main())"] := by
  decide +kernel

/-- The model's ladder `cliMain` is the extracted ladder: for whatever is raised in the `try` body,
    the first extracted handler that catches it returns what `cliMain` returns - and no extracted
    handler catches it exactly when `cliMain` lets it go; what the `Exception` handler writes first
    is the extracted pieces evaluated at `type(e).__name__ = ty`, `str(e) = msg`. -/
theorem ladder_is_extracted (x : Raised) (hx : x ≠ .nothing) :
    ladderRet Generated.CliMain.handlers x = (cliMain x).map (·.ret) ∧
    (∀ ty msg, x = .error ty msg →
        renderWrites ty msg Generated.CliMain.errorWrites = (cliMain x).map (·.stderr)) := by
  have hh : Generated.CliMain.handlers = mainHandlers := main_shape_agrees.2.1
  have hw : Generated.CliMain.errorWrites = mainStderrWrites := main_shape_agrees.2.2.2.1
  rw [hh, hw]
  refine ⟨ladderRet_mainHandlers x hx, ?_⟩
  intro ty msg h
  subst h
  exact renderWrites_main ty msg

example : ladderRet mainHandlers .keyboardInterrupt = some (some 130) ∧
    ladderRet mainHandlers (.error "ConfigError" "x") = some (some 255) ∧
    ladderRet mainHandlers .nothing = none ∧
    ladderRet mainHandlers (.systemExit (.int 0)) = none ∧
    ladderRet mainHandlers (.baseOther "GeneratorExit" "") = none ∧
    renderWrites "ConfigError" "boom" mainStderrWrites = some "\n\x1b[91mConfigError: boom\x1b[0;0m\n" := by
  decide +kernel

/-- What goes down the handler ladder is what the first raising call raised: whatever each of
    `config.init()`, `set_root_logger(…)` and `pipelinerunner.run(…)` raises, `main` ends as its
    `try` statement does with that. -/
theorem main_is_try_of_first_raise (f : Faults) :
    mainPhases f = tryMain (seqRaises f [.configInit, .setRootLogger, .runPipeline]) := rfl

/-- Nothing but a `BaseException` outside `Exception`/`KeyboardInterrupt` escapes `main`: `main`
    returns iff what the first raising call raised is not one. -/
theorem main_returns_iff (f : Faults) :
    (∃ m, mainPhases f = .returned m) ↔ (seqRaises f mainShape.inTry).isBase = false := by
  show (∃ m, tryMain (seqRaises f mainShape.inTry) = .returned m) ↔ _
  cases seqRaises f mainShape.inTry <;> simp [tryMain, cliMain, Raised.isBase]

/-- **Exit-code clause, for a fault in any phase.** Let `p` be the first call of `main` that raises
    (all calls before it in source order return) and `x` what it raises. Then, whichever phase `p`
    is - configuration look-up, logging set-up, or loading/running the pipeline:
    * `KeyboardInterrupt` → status 130, a newline on stdout, nothing on stderr;
    * an `Exception` of type name `ty` with `str(e) = msg` → status 255 and stderr is
      `"\n" ++ "\x1b[91m" ++ ty ++ ": " ++ msg ++ "\x1b[0;0m" ++ "\n"`;
    * a Stop-family signal can only be what `config.init`/`set_root_logger` raised (`Pipeline.run`
      absorbs it below `main`, see `exit_zero_iff`); it is an `Exception` like any other: 255;
    * `SystemExit(c)` / another `BaseException` leave `main`: status `c.status` / 1. -/
theorem exit_code_spec_any_phase (f : Faults) (p : Phase) (x : Raised)
    (hbefore : ∀ q : Phase, q.idx < p.idx → callRaises f q = .nothing)
    (hx : callRaises f p = x) (hne : x ≠ .nothing) :
    mainPhases f = tryMain x ∧
    (x = .keyboardInterrupt → mainPhases f = .returned ⟨some 130, "\n", ""⟩ ∧ (mainPhases f).status = some 130) ∧
    (∀ ty msg, x = .error ty msg →
      (mainPhases f).status = some 255 ∧
      (mainPhases f).stderr = "\n" ++ "\x1b[91m" ++ ty ++ ": " ++ msg ++ "\x1b[0;0m" ++ "\n") ∧
    ((x = .stop ∨ x = .stopPipeline ∨ x = .stopStepGroup) →
      p ≠ .runPipeline ∧ (mainPhases f).status = some 255) ∧
    (∀ c, x = .systemExit c → mainPhases f = .escaped x ∧ (mainPhases f).status = some c.status) ∧
    (∀ ty msg, x = .baseOther ty msg → mainPhases f = .escaped x ∧ (mainPhases f).status = some 1) := by
  obtain ⟨pre, post, hsplit, hpre⟩ := inTry_split p
  have hseq : seqRaises f mainShape.inTry = x := by
    rw [hsplit, seqRaises_first f pre post p (fun q hq => hbefore q ((hpre q).1 hq)) (hx ▸ hne), hx]
  have hmain : mainPhases f = tryMain x := by
    show tryMain (seqRaises f mainShape.inTry) = _
    rw [hseq]
  have hs := tryMain_spec x
  refine ⟨hmain, ?_, ?_, ?_, ?_, ?_⟩
  · intro h
    rw [hmain, hs.2.1 h]
    exact ⟨rfl, rfl⟩
  · intro ty msg h
    rw [hmain, hs.2.2.1 ty msg h]
    exact ⟨rfl, rfl⟩
  · intro h
    have hnr := run_call_never_stop f
    refine ⟨?_, ?_⟩
    · intro hp
      subst hp
      rcases h with h | h | h <;> subst h
      · exact hnr.1 hx
      · exact hnr.2.1 hx
      · exact hnr.2.2 hx
    · rw [hmain]
      rcases h with h | h | h
      · rw [hs.2.2.2.1 h]; rfl
      · rw [hs.2.2.2.2.1 h]; rfl
      · rw [hs.2.2.2.2.2.1 h]; rfl
  · intro c h
    rw [hmain, hs.2.2.2.2.2.2 (by rw [h]; rfl)]
    subst h
    exact ⟨rfl, rfl⟩
  · intro ty msg h
    rw [hmain, hs.2.2.2.2.2.2 (by rw [h]; rfl)]
    subst h
    exact ⟨rfl, rfl⟩

/-- A missing `$PYPYR_CONFIG_GLOBAL` file (raised by `config.init()`), an unwritable `--logpath`
    (raised by `set_root_logger`) and a missing pipeline all end the same way; an interrupt during
    config look-up is 130; a later phase's fault is not reached when an earlier phase raised; a
    `sys.exit(3)` in a step ends the process with 3. -/
example :
    mainPhases (faultAt .configInit (.error "ConfigError" "gone")) =
      .returned ⟨some 255, "", "\n\x1b[91mConfigError: gone\x1b[0;0m\n"⟩ ∧
    (mainPhases (faultAt .setRootLogger (.error "FileNotFoundError" "x"))).status = some 255 ∧
    (mainPhases (faultAt .runPipeline (.error "PipelineNotFoundError" "p"))).status = some 255 ∧
    (mainPhases (faultAt .configInit .keyboardInterrupt)).status = some 130 ∧
    (mainPhases (faultAt .runPipeline .stopPipeline)).status = some 0 ∧
    (mainPhases (faultAt .configInit .stop)).status = some 255 ∧
    (mainPhases (fun | .configInit => .keyboardInterrupt | _ => .error "E" "later")).status = some 130 ∧
    (mainPhases (faultAt .runPipeline (.systemExit (.int 3)))).status = some 3 := by
  decide +kernel

/-- Status 0 **exactly** when every phase returned, the runner counting as returned when the run
    completed or a Stop-family instruction ended it - provided no phase raises a `BaseException`
    other than `KeyboardInterrupt` (`exit_zero_iff_full` is the statement without the proviso). -/
theorem exit_zero_iff (f : Faults) (hb : ∀ p, (f p).isBase = false) :
    (mainPhases f).status = some 0 ↔
      f .configInit = .nothing ∧ f .setRootLogger = .nothing ∧
      (f .runPipeline = .nothing ∨ f .runPipeline = .stop ∨ f .runPipeline = .stopPipeline ∨
       f .runPipeline = .stopStepGroup) := by
  rw [← run_call_returns_iff]
  have hnb := seqRaises_not_base f mainShape.inTry hb
  have hiff : (mainPhases f).status = some 0 ↔ seqRaises f mainShape.inTry = .nothing := by
    show (tryMain (seqRaises f mainShape.inTry)).status = some 0 ↔ _
    rcases (tryMain_cases_of_not_base _ hnb).2 with ⟨h1, h2⟩ | ⟨h1, h2⟩ | ⟨h1, h2, _⟩
    · rw [h1]; simp [h2]
    · rw [h1]; simp [h2]
    · rw [h1]; simp [h2]
  rw [hiff, seqRaises_nothing_iff]
  simp [mainShape, callRaises]

example : ∀ p, (faultAt .runPipeline .stop p).isBase = false := by intro p; cases p <;> rfl

/-- Status 0 exactly when every phase returned **or** the first raising call raised a
    `SystemExit` whose code means 0 (`None`, 0, a multiple of 256). -/
theorem exit_zero_iff_full (f : Faults) :
    (mainPhases f).status = some 0 ↔
      seqRaises f mainShape.inTry = .nothing ∨
      ∃ c, seqRaises f mainShape.inTry = .systemExit c ∧ c.status = 0 := by
  show (tryMain (seqRaises f mainShape.inTry)).status = some 0 ↔ _
  rcases tryMain_cases (seqRaises f mainShape.inTry) with ⟨h1, h2⟩ | ⟨h1, h2⟩ | ⟨h1, h2⟩ | ⟨c, h2, _, h1⟩ |
      ⟨ty, msg, h2, _, h1⟩
  · rw [h1]; simp [h2]
  · rw [h1]; simp [h2]
  · rw [h1]
    cases hx : seqRaises f mainShape.inTry <;> simp_all [Raised.isException]
  · rw [h1, h2]; simp
  · rw [h1, h2]; simp

/-- 130 exactly when the first raising call raised `KeyboardInterrupt`, 255 exactly when it raised
    anything else; there is no fourth status and no uncaught exception - provided no phase raises a
    `BaseException` other than `KeyboardInterrupt`. -/
theorem exit_status_trichotomy (f : Faults) (hb : ∀ p, (f p).isBase = false) :
    (∃ m, mainPhases f = .returned m) ∧
    (((mainPhases f).status = some 0 ∧ seqRaises f mainShape.inTry = .nothing) ∨
     ((mainPhases f).status = some 130 ∧ seqRaises f mainShape.inTry = .keyboardInterrupt) ∨
     ((mainPhases f).status = some 255 ∧ seqRaises f mainShape.inTry ≠ .nothing ∧
       seqRaises f mainShape.inTry ≠ .keyboardInterrupt)) :=
  tryMain_cases_of_not_base _ (seqRaises_not_base f mainShape.inTry hb)

/-- Without the proviso there are five ways: the three above, `SystemExit` (the status its code
    asks for, no traceback), another `BaseException` (status 1, interpreter traceback). -/
theorem exit_status_five_ways (f : Faults) :
    ((mainPhases f).status = some 0 ∧ seqRaises f mainShape.inTry = .nothing) ∨
    ((mainPhases f).status = some 130 ∧ seqRaises f mainShape.inTry = .keyboardInterrupt) ∨
    ((mainPhases f).status = some 255 ∧ (seqRaises f mainShape.inTry).isException = true) ∨
    (∃ c, seqRaises f mainShape.inTry = .systemExit c ∧ mainPhases f = .escaped (.systemExit c) ∧
      (mainPhases f).status = some c.status) ∨
    (∃ ty msg, seqRaises f mainShape.inTry = .baseOther ty msg ∧ mainPhases f = .escaped (.baseOther ty msg) ∧
      (mainPhases f).status = some 1) := by
  show ((tryMain (seqRaises f mainShape.inTry)).status = some 0 ∧ _) ∨ _
  rcases tryMain_cases (seqRaises f mainShape.inTry) with h | h | h | ⟨c, h1, h2, h3⟩ | ⟨ty, msg, h1, h2, h3⟩
  · exact .inl h
  · exact .inr (.inl h)
  · exact .inr (.inr (.inl h))
  · exact .inr (.inr (.inr (.inl ⟨c, h1, by show tryMain _ = _; rw [h2, h1], h3⟩)))
  · exact .inr (.inr (.inr (.inr ⟨ty, msg, h1, by show tryMain _ = _; rw [h2, h1], h3⟩)))

/-- The placement matters, for every conceivable placement of the calls: `main` is free of uncaught
    exceptions for **all** behaviours of its calls that raise no `BaseException` other than
    `KeyboardInterrupt` exactly when no call sits before the `try`. (So a variant of `main` with any
    of the three calls hoisted out of the `try` violates the exit-code clause on some fault of that
    call.) -/
theorem no_escape_iff_all_calls_in_try (s : MainShape) :
    (∀ f : Faults, (∀ p, (f p).isBase = false) → ∃ m, mainOf s f = .returned m) ↔ s.beforeTry = [] := by
  constructor
  · intro h
    cases hb : s.beforeTry with
    | nil => rfl
    | cons p ps =>
      exfalso
      obtain ⟨m, hm⟩ := h (fun _ => .error "E" "m") (fun _ => rfl)
      have hp : callRaises (fun _ => Raised.error "E" "m") p = .error "E" "m" := by
        cases p <;> simp [callRaises, pipelineRun]
      have : seqRaises (fun _ => Raised.error "E" "m") (p :: ps) = .error "E" "m" := by
        rw [seqRaises_cons_raises _ _ _ (by rw [hp]; simp), hp]
      simp [mainOf, hb, this] at hm
  · intro h f hf
    have := (tryMain_cases_of_not_base _ (seqRaises_not_base f s.inTry hf)).1
    simpa [mainOf, h, seqRaises] using this

/-- The seeded shape: `config.init()` above the `try`. A config fault then leaves `main` uncaught. -/
example : mainOf ⟨[.configInit], [.setRootLogger, .runPipeline]⟩ (faultAt .configInit (.error "ConfigError" "gone")) =
    .escaped (.error "ConfigError" "gone") := by decide +kernel

/-- The one-phase statement `exit_code_spec` is the run-phase instance. -/
theorem exit_status_run_phase (r : Raised) :
    (mainPhases (faultAt .runPipeline r)).status = exitStatus r := by
  cases r <;> rfl

/-- A usage error of the argument parser is status 2; `-h` / `--help` / `--version` is status 0 and
    nothing runs; otherwise the status is that of the run invoked with the parsed arguments passed
    through field by field. -/
theorem cli_process_spec (argv : List String) (runs : RunCall → Raised) :
    (parseArgv argv = .usage → cliProcess argv runs = some (some 2, none)) ∧
    (parseArgv argv = .exit0 → cliProcess argv runs = some (some 0, none)) ∧
    (∀ a, parseArgv argv = .ok a →
      cliProcess argv runs = some (exitStatus (runs (runCallOf a)), some (runCallOf a)) ∧
      runCallOf a =
        { pipelineName := a.name, argsIn := a.ctx, parseArgs := some true, groups := a.groups,
          successGroup := a.success, failureGroup := a.failure, pyDir := a.dir }) := by
  refine ⟨?_, ?_, ?_⟩
  · intro h; simp [cliProcess, h]
  · intro h; simp [cliProcess, h]
  · intro a h; simp [cliProcess, h, runCallOf]

/-- **`--version` / `-h` / `--help`: status 0, no run.** Wherever the option stands among options
    that parse (`pre`), whatever follows it (`rest`, as long as no string before a `--` in it is an
    ambiguous abbreviation - that is found first, in argparse's pattern pass - or outside the
    domain): the process exits 0 and `pipelinerunner.run` is not called. -/
theorem version_help_exit0 (pre : List WOpt) (flag : String) (o : OptName) (rest : List String) (toks : List Tok)
    (runs : RunCall → Raised)
    (hpre : ∀ w ∈ pre, w.Ok) (ho : o = .help ∨ o = .version) (hflag : classify flag = .opt o none)
    (hrest : tokenize false rest = .toks toks) :
    parseArgv (renderOpts pre ++ flag :: rest) = .exit0 ∧
    cliProcess (renderOpts pre ++ flag :: rest) runs = some (some 0, none) := by
  have htok : tokenize false (renderOpts pre ++ flag :: rest) = .toks (optsToks pre ++ (Tok.opt o none :: toks)) := by
    rw [tokenize_opts _ _ hpre, tokenize_optstr _ _ _ _ hflag, hrest]
    rfl
  have h1 := run_opts {} (.inl rfl) pre hpre
  have hb := boundary_modeAfter Mode.idle (.inl rfl) pre
  have h2 : step { ({} : PSt) with mode := modeAfter Mode.idle pre, args := applyOpts {} (pre.map (·.opt)) } (.opt o none) =
      .stop .exit0 := by
    rw [step_opt_of_boundary _ hb]
    rcases ho with h | h <;> subst h <;> rfl
  have hp : parseArgv (renderOpts pre ++ flag :: rest) = .exit0 := by
    simp only [parseArgv, htok, run_append, h1, StepR.bind_next, run, h2]
  exact ⟨hp, by simp [cliProcess, hp]⟩

example : parseArgv ["--version"] = .exit0 ∧ parseArgv ["-h"] = .exit0 ∧ parseArgv ["--ver"] = .exit0 ∧
    parseArgv ["--log", "20", "--help", "pipe", "--success"] = .exit0 ∧
    parseArgv ["pipe", "extra", "--success", "s", "surplus", "--version"] = .exit0 ∧
    parseArgv ["--success", "--version"] = .usage ∧ parseArgv ["--version", "--lo"] = .usage ∧
    parseArgv ["--version=1"] = .usage ∧ parseArgv ["-hh"] = .exit0 ∧ parseArgv ["-hx"] = .usage := by
  decide +kernel

/-- The same with a fault possible in every phase: for a parsed command line the outcome is that of
    `main` with the logger set up from `--log`/`--logpath` as given and the runner called with the
    parsed arguments field by field; if no phase raises a `BaseException` other than
    `KeyboardInterrupt`, `main` returns and the status is 0, 130 or 255. -/
theorem cli_process_phases_spec (argv : List String) (cfg : Raised)
    (log : Option Int → Option String → Raised) (runs : RunCall → Raised) (a : Args)
    (h : parseArgv argv = .ok a) :
    ∃ o, cliProcessPhases argv cfg log runs = some o ∧
      o = tryMain (seqRaises (fun
        | .configInit => cfg
        | .setRootLogger => log a.log a.logpath
        | .runPipeline => runs
            { pipelineName := a.name, argsIn := a.ctx, parseArgs := some true, groups := a.groups,
              successGroup := a.success, failureGroup := a.failure, pyDir := a.dir })
        [.configInit, .setRootLogger, .runPipeline]) ∧
      ((cfg.isBase = false ∧ (∀ l p, (log l p).isBase = false) ∧ (∀ c, (runs c).isBase = false)) →
        (∃ m, o = .returned m) ∧ (o.status = some 0 ∨ o.status = some 130 ∨ o.status = some 255)) := by
  refine ⟨_, by simp only [cliProcessPhases, h]; rfl, rfl, ?_⟩
  intro ⟨h1, h2, h3⟩
  have hb : ∀ p : Phase, ((fun
        | .configInit => cfg
        | .setRootLogger => log a.log a.logpath
        | .runPipeline => runs
            { pipelineName := a.name, argsIn := a.ctx, parseArgs := some true, groups := a.groups,
              successGroup := a.success, failureGroup := a.failure, pyDir := a.dir } : Faults) p).isBase = false := by
    intro p
    cases p
    · exact h1
    · exact h2 _ _
    · exact h3 _
  have := tryMain_cases_of_not_base _ (seqRaises_not_base _ [.configInit, .setRootLogger, .runPipeline] hb)
  refine ⟨this.1, ?_⟩
  rcases this.2 with h' | h' | h'
  · exact .inl h'.1
  · exact .inr (.inl h'.1)
  · exact .inr (.inr h'.1)

/-! ## The option table -/

/-- Tie to the source (extracted from `get_parser` / `get_args` on every run): the parser is built
    with `allow_abbrev=True` and no other parsing-relevant keyword (so `add_help`, `prefix_chars`,
    `exit_on_error` have their defaults); its `add_argument` calls are, row by row, those of
    `parserRows` - option strings, dest, nargs, type, default, action, no further keyword; there is
    nothing else in `get_parser`; `get_args` is `get_parser().parse_args(args)`. -/
theorem option_table_agrees :
    Generated.CliOptions.parserKwargs = [("allow_abbrev", "True")] ∧
    Generated.CliOptions.arguments.map ArgRow.ofTuple = parserRows ∧
    Generated.CliOptions.otherStatements = [] ∧
    Generated.CliOptions.getArgs = ["get_parser().parse_args(args)"] := by
  refine ⟨by decide +kernel, by decide +kernel, by decide +kernel, by decide +kernel⟩

/-- The option-string table `classify` uses is the one those rows give rise to (`-h`, `--help`
    first), and `classify` on every option string of every row returns that row's option. -/
theorem option_table_is_rows :
    optionTable = tableOfRows parserRows ∧
    ∀ r ∈ parserRows, ∀ o, r.optName = some o → ∀ s ∈ r.optionStrings, classify s = .opt o none := by
  decide +kernel

/-- `classify` on an exact option string returns the option whose table row contains it. -/
theorem classify_exact_option (s : String) (o : OptName) (h : (s, o) ∈ optionTable) :
    classify s = .opt o none :=
  classify_exact (s, o) h

example : classify "--loglevel" = .opt .log none ∧ classify "--log" = .opt .log none ∧
    classify "--logpath" = .opt .logpath none ∧ classify "-h" = .opt .help none := by decide +kernel

/-- **Abbreviations** (`allow_abbrev=True`): every prefix of three or more characters of a long
    option string is that option, except `--l` / `--lo` (ambiguous between `--log`, `--loglevel`,
    `--logpath`: a usage error) and `--log` itself, which is an exact match (also read as a prefix
    of `--logpath`). -/
theorem abbreviations :
    ∀ p ∈ optionTableChars, p.1 ≠ ['-', 'h'] → ∀ k ∈ List.range (p.1.length + 1), 3 ≤ k →
      classifyChars (p.1.take k) =
        if p.1.take k = ['-', '-', 'l'] ∨ p.1.take k = ['-', '-', 'l', 'o'] then .ambiguous
        else if p.1.take k = ['-', '-', 'l', 'o', 'g'] then .opt .log none
        else .opt p.2 none :=
  abbrev_complete

example : classify "--gro" = .opt .groups none ∧ classify "--suc" = .opt .success none ∧
    classify "--lo" = .ambiguous ∧ classify "--logl" = .opt .log none ∧ classify "--logp" = .opt .logpath none ∧
    classify "--d" = .opt .dir none ∧ classify "--x" = .unknown ∧ classify "--=x" = .ambiguous := by decide +kernel

/-- **`flag=value`**: a long flag - exact or abbreviated - that is read as option `o`, joined to any
    text with `=`, is `o` with that text as its explicit argument (split at the *first* `=`). -/
theorem joined_option (flag v : String) (o : OptName) (r : List Char)
    (hflag : flag.toList = '-' :: '-' :: r) (hne : '=' ∉ r) (hf : classify flag = .opt o none) :
    classify (flag ++ "=" ++ v) = .opt o (some v) :=
  classify_joined flag v o r hflag hne hf

example : classify "--log=10" = .opt .log (some "10") ∧ classify "--dir=x=y" = .opt .dir (some "x=y") ∧
    classify "--succ=a b" = .opt .success (some "a b") ∧ classify "--groups=" = .opt .groups (some "") := by
  decide +kernel

/-- **Strings that start with `-` without being options**: `-c…` with `c` neither `-` nor `h` (ASCII)
    is an argument exactly when it looks like a negative number (`-1`, `-1.5`, `-.5`) or contains a
    blank; otherwise it is an unknown option (→ "unrecognized arguments", status 2). -/
theorem dash_leading (c : Char) (rest : List Char) (hc : c ≠ '-') (hh : c ≠ 'h')
    (hascii : hasNonAscii ('-' :: c :: rest) = false) :
    classify (String.ofList ('-' :: c :: rest)) =
      if negNumber ('-' :: c :: rest) then .pos
      else if ('-' :: c :: rest).contains ' ' then .pos else .unknown := by
  simp only [classify, String.toList_ofList]
  exact classifyChars_dash_other c rest hc hh hascii

example : classify "-1" = .pos ∧ classify "-1.5" = .pos ∧ classify "-.5" = .pos ∧ classify "-x y" = .pos ∧
    classify "-" = .pos ∧ classify "-x" = .unknown ∧ classify "-1x" = .unknown ∧ classify "-1." = .unknown ∧
    classify "" = .pos ∧ classify "--x y" = .pos := by decide +kernel

/-- `--log` takes what `int()` takes. -/
example : parseInt "10" = .ok 10 ∧ parseInt "+5" = .ok 5 ∧ parseInt " 5 " = .ok 5 ∧ parseInt "5_0" = .ok 50 ∧
    parseInt "-5" = .ok (-5) ∧ parseInt "007" = .ok 7 ∧ parseInt "5__0" = .invalid ∧ parseInt "_5" = .invalid ∧
    parseInt "" = .invalid ∧ parseInt "0x10" = .invalid ∧ parseInt "+ 5" = .invalid ∧ parseInt "\t7\n" = .ok 7 := by
  decide +kernel

/-! ## argv pass-through -/

/-- Layout `options* name ctx* options*`: every option (with its values) and the positionals come
    back exactly as written, later duplicates of an option winning - whether an option is written
    with its exact option string or an abbreviation, its value separately or joined with `=`
    (`WOpt`), and whether or not a context argument starts with `-` (as long as argparse takes it
    as an argument: `Plain`, see `dash_leading`). The options before the name must not end with an
    unjoined `--groups` (its `nargs='*'` would take the name). -/
theorem argv_passthrough (pre post : List WOpt) (name : String) (ctx : List String)
    (hpre : ∀ w ∈ pre, w.Ok) (hpost : ∀ w ∈ post, w.Ok) (hng : NotEndingInGroups pre)
    (hn : Plain name) (hc : ∀ s ∈ ctx, Plain s) :
    parseArgv (renderOpts pre ++ (name :: ctx ++ renderOpts post)) =
      .ok { applyOpts {} ((pre ++ post).map (·.opt)) with name := name, ctx := ctx } := by
  have htok : tokenize false (renderOpts pre ++ (name :: ctx ++ renderOpts post)) =
      .toks (optsToks pre ++ (Tok.pos name :: (ctx.map Tok.pos ++ optsToks post))) := by
    rw [tokenize_opts _ _ hpre, List.cons_append, tokenize_pos _ _ hn, tokenize_plain_list _ _ hc]
    have := tokenize_opts post [] hpost
    simp only [List.append_nil] at this
    rw [this]
    simp [tokenize, TokR.map]
  have h1 := run_opts {} (.inl rfl) pre hpre
  have h2 : step { ({} : PSt) with mode := modeAfter Mode.idle pre, args := applyOpts {} (pre.map (·.opt)) } (.pos name) =
      .next { mode := .afterName, hasName := true, args := { applyOpts {} (pre.map (·.opt)) with name := name } } := by
    simp [modeAfter_idle pre hng, step, stepIdle]
  have h3 := run_ctx { mode := .afterName, hasName := true, args := { applyOpts {} (pre.map (·.opt)) with name := name } }
    (.inl rfl) ctx
  have hb : Boundary (if ctx = [] then Mode.afterName else Mode.inCtx) := by
    split <;> simp [Boundary]
  have h4 := run_opts
    { mode := (if ctx = [] then Mode.afterName else Mode.inCtx), hasName := true,
      args := { applyOpts {} (pre.map (·.opt)) with name := name, ctx := (applyOpts {} (pre.map (·.opt))).ctx ++ ctx } }
    hb post hpost
  simp only [parseArgv, htok, run_append, h1, StepR.bind_next, run, h2, h3, h4]
  rw [finish_boundary _ (boundary_modeAfter _ hb post) rfl rfl]
  simp only [applyOpts_ctx, List.nil_append, applyOpts_name_ctx]
  rw [erase_dd_of_plain _ hc]
  simp [applyOpts, List.foldl_append]

example : parseArgv ["--log", "20", "pipe", "k=v", "a b", "--groups", "g1", "g2", "--success", "s"] =
    .ok { name := "pipe", ctx := ["k=v", "a b"], groups := some ["g1", "g2"], success := some "s", log := some 20 } := by
  decide +kernel

/-- The hypotheses are satisfiable with abbreviations, `=`-joined values and dash-leading arguments. -/
example : (⟨.log "+2_0", "--logl", true⟩ : WOpt).Ok ∧ (⟨.groups ["g1", "-1"], "--gro", false⟩ : WOpt).Ok ∧
    (⟨.success "a b", "--suc", true⟩ : WOpt).Ok ∧ NotEndingInGroups [⟨.groups ["g"], "--groups", true⟩] ∧
    Plain "-1" ∧ Plain "-x y" ∧ Plain "-.5" := by
  refine ⟨⟨⟨"+2_0", rfl, by decide +kernel, by decide +kernel⟩, fun s h => ?_⟩,
          ⟨⟨by decide +kernel, fun v hv => ?_⟩, fun s h => by cases h⟩,
          ⟨⟨"a b", rfl, by decide +kernel, by decide +kernel⟩, fun s h => by cases h⟩,
          by simp [NotEndingInGroups, WOpt.opensGroups], by decide +kernel, by decide +kernel, by decide +kernel⟩
  · cases h; exact ⟨20, by decide +kernel⟩
  · simp only [Opt.values, List.mem_cons, List.mem_nil_iff, or_false] at hv
    rcases hv with hv | hv <;> subst hv <;> decide +kernel

example : parseArgv ["--logl=+2_0", "pipe", "-1", "k=v", "-x y", "--gro", "g1", "-1", "--suc=a b"] =
    .ok { name := "pipe", ctx := ["-1", "k=v", "-x y"], groups := some ["g1", "-1"], success := some "a b",
          log := some 20 } := by
  decide +kernel

/-- Layout `options* -- name anything*`: after `--` nothing is interpreted; the options may end with
    `--groups`; the only string that does not come back is the first literal `--` among the
    context arguments (argparse removes it). -/
theorem argv_passthrough_dd_first (pre : List WOpt) (name : String) (ctx : List String)
    (hpre : ∀ w ∈ pre, w.Ok) :
    parseArgv (renderOpts pre ++ ("--" :: name :: ctx)) =
      .ok { applyOpts {} (pre.map (·.opt)) with name := name, ctx := ctx.erase "--" } := by
  have htok : tokenize false (renderOpts pre ++ ("--" :: name :: ctx)) =
      .toks (optsToks pre ++ (Tok.dd :: Tok.pos name :: ctx.map Tok.pos)) := by
    rw [tokenize_opts _ _ hpre, tokenize_dd]
    simp [TokR.map]
  have h1 := run_opts {} (.inl rfl) pre hpre
  have h2 : step { ({} : PSt) with mode := modeAfter Mode.idle pre, args := applyOpts {} (pre.map (·.opt)) } .dd =
      .next { mode := .afterDD, hasName := false, args := applyOpts {} (pre.map (·.opt)) } := by
    rcases modeAfter_idle_or_groups pre with h | h <;> simp [h, step, stepIdle]
  have h3 : step { mode := .afterDD, hasName := false, args := applyOpts {} (pre.map (·.opt)) } (.pos name) =
      .next { mode := .afterName, hasName := true, args := { applyOpts {} (pre.map (·.opt)) with name := name } } := by
    simp [step]
  have h4 := run_ctx { mode := .afterName, hasName := true, args := { applyOpts {} (pre.map (·.opt)) with name := name } }
    (.inl rfl) ctx
  have hb : Boundary (if ctx = [] then Mode.afterName else Mode.inCtx) := by
    split <;> simp [Boundary]
  simp only [parseArgv, htok, run_append, h1, StepR.bind_next, run, h2, h3, h4]
  rw [finish_boundary _ hb rfl rfl]
  simp [applyOpts_ctx]

example : parseArgv ["--groups", "g1", "g2", "--", "pipe", "-x", "--success", "k=v"] =
    .ok { name := "pipe", ctx := ["-x", "--success", "k=v"], groups := some ["g1", "g2"] } := by
  decide +kernel

/-- Layout `options* name ctx* -- anything*`: a `--` after the name or among the context arguments
    opens an uninterpreted tail which is appended to the context arguments. -/
theorem argv_passthrough_dd_tail (pre : List WOpt) (name : String) (ctx tail : List String)
    (hpre : ∀ w ∈ pre, w.Ok) (hng : NotEndingInGroups pre)
    (hn : Plain name) (hc : ∀ s ∈ ctx, Plain s) (ht : "--" ∉ tail) :
    parseArgv (renderOpts pre ++ (name :: ctx ++ ("--" :: tail))) =
      .ok { applyOpts {} (pre.map (·.opt)) with name := name, ctx := ctx ++ tail } := by
  have htok : tokenize false (renderOpts pre ++ (name :: ctx ++ ("--" :: tail))) =
      .toks (optsToks pre ++ (Tok.pos name :: (ctx.map Tok.pos ++ (Tok.dd :: tail.map Tok.pos)))) := by
    rw [tokenize_opts _ _ hpre, List.cons_append, tokenize_pos _ _ hn, tokenize_plain_list _ _ hc, tokenize_dd]
    simp [TokR.map]
  have h1 := run_opts {} (.inl rfl) pre hpre
  have h2 : step { ({} : PSt) with mode := modeAfter Mode.idle pre, args := applyOpts {} (pre.map (·.opt)) } (.pos name) =
      .next { mode := .afterName, hasName := true, args := { applyOpts {} (pre.map (·.opt)) with name := name } } := by
    simp [modeAfter_idle pre hng, step, stepIdle]
  have h3 := run_ctx { mode := .afterName, hasName := true, args := { applyOpts {} (pre.map (·.opt)) with name := name } }
    (.inl rfl) ctx
  simp only [parseArgv, htok, run_append, h1, StepR.bind_next, run, h2, h3]
  cases ctx with
  | nil =>
    have h4 : step (⟨.afterName, true, false, { applyOpts {} (pre.map (·.opt)) with name := name, ctx := (applyOpts {} (pre.map (·.opt))).ctx ++ [] }⟩ : PSt) .dd =
        .next ⟨.inCtx, true, false, { applyOpts {} (pre.map (·.opt)) with name := name, ctx := (applyOpts {} (pre.map (·.opt))).ctx ++ [] }⟩ := by
      simp [step]
    have h5 := run_ctx ⟨.inCtx, true, false, { applyOpts {} (pre.map (·.opt)) with name := name, ctx := (applyOpts {} (pre.map (·.opt))).ctx ++ [] }⟩
      (.inr rfl) tail
    simp only [if_true, h4, h5]
    rw [finish_boundary _ (by split <;> simp [Boundary]) rfl rfl]
    simp [applyOpts_ctx, List.erase_of_not_mem ht]
  | cons c cs =>
    have h4 : step (⟨.inCtx, true, false, { applyOpts {} (pre.map (·.opt)) with name := name, ctx := (applyOpts {} (pre.map (·.opt))).ctx ++ (c :: cs) }⟩ : PSt) .dd =
        .next ⟨.inCtx, true, false, { applyOpts {} (pre.map (·.opt)) with name := name, ctx := (applyOpts {} (pre.map (·.opt))).ctx ++ (c :: cs) ++ ["--"] }⟩ := by
      simp [step]
    have h5 := run_ctx ⟨.inCtx, true, false, { applyOpts {} (pre.map (·.opt)) with name := name, ctx := (applyOpts {} (pre.map (·.opt))).ctx ++ (c :: cs) ++ ["--"] }⟩
      (.inr rfl) tail
    simp only [reduceCtorEq, if_false, h4, h5]
    rw [finish_boundary _ (by split <;> simp [Boundary]) rfl rfl]
    simp only [applyOpts_ctx, List.nil_append]
    have hne : "--" ∉ (c :: cs) := fun hm => plain_ne_dd (hc _ hm) rfl
    have : ((c :: cs) ++ ["--"] ++ tail).erase "--" = (c :: cs) ++ tail := by
      rw [List.append_assoc, List.erase_append_right _ hne]
      simp
    rw [this]

example : parseArgv ["pipe", "a", "--", "-b", "--groups"] = .ok { name := "pipe", ctx := ["a", "-b", "--groups"] } ∧
    parseArgv ["pipe", "--", "-b"] = .ok { name := "pipe", ctx := ["-b"] } := by
  decide +kernel

/-- What argparse refuses (status 2), by example: context arguments after an option, a `--groups`
    list directly before the name, a one-argument option without value, no pipeline name, an
    ambiguous abbreviation, an unknown option, a `--log` value that is no int, a joined `--groups`
    followed by a second group (it becomes a surplus positional). -/
example : parseArgv ["pipe", "--success", "s", "a"] = .usage ∧ parseArgv ["--groups", "g", "pipe"] = .usage ∧
    parseArgv ["pipe", "--success"] = .usage ∧ parseArgv [] = .usage ∧
    parseArgv ["pipe", "--lo", "5"] = .usage ∧ parseArgv ["pipe", "-x"] = .usage ∧
    parseArgv ["pipe", "--log=x"] = .usage ∧ parseArgv ["pipe", "--groups=a", "b"] = .usage ∧
    parseArgv ["--groups=a", "pipe", "b"] = .ok { name := "pipe", ctx := ["b"], groups := some ["a"] } := by
  decide +kernel

/-! ## Context parsers -/

/-- `key=value` is split at the **first** `=`: the key has no `=`; with a separator the argument is
    `key ++ "=" ++ value`, without one the key is the whole argument and the value is empty. -/
theorem split_on_first_eq (cs : List Char) :
    '=' ∉ (partitionEq cs).1 ∧
    ((partitionEq cs).2.1 = true → cs = (partitionEq cs).1 ++ '=' :: (partitionEq cs).2.2) ∧
    ((partitionEq cs).2.1 = false → cs = (partitionEq cs).1 ∧ (partitionEq cs).2.2 = [] ∧ '=' ∉ cs) :=
  partitionEq_spec cs

example : keyOf "a=b=c" = "a" ∧ valOf "a=b=c" = "b=c" ∧ keyOf "bare" = "bare" ∧ valOf "bare" = "" ∧
    keyOf "=x" = "" ∧ valOf "k=" = "" := by decide +kernel

/-- keyvaluepairs: for every non-empty argument list the result is a dict in which looking up `k`
    gives the value of the **last** argument whose key is `k` (later duplicates win), nothing for a
    key no argument has; the keys appear in order of first occurrence. -/
theorem kvpairs_spec (loads : String → Except Exc Val) (args : List String) (hne : args ≠ []) :
    ∃ d, parse loads .keyvaluepairs args = .ok (some (.dict d)) ∧
      (∀ k, dictGet? d (.str k) = (args.reverse.find? (fun a => keyOf a = k)).map (fun a => Val.str (valOf a))) ∧
      d.map (·.1) = setOfList (args.map (fun a => Val.str (keyOf a))) := by
  refine ⟨kvDict args, ?_, ?_, ?_⟩
  · cases args with
    | nil => exact absurd rfl hne
    | cons a as => simp [parse]
  · intro k
    rw [kvDict_eq, foldl_kvStep_get]
    cases args.reverse.find? (fun a => keyOf a = k) <;> simp [dictGet?]
  · rw [kvDict_eq, foldl_kvStep_keys]
    rfl

example : parse (fun _ => .ok .none) .keyvaluepairs ["a=1", "b=x=y", "a=2", "c"] =
    .ok (some (.dict [(.str "a", .str "2"), (.str "b", .str "x=y"), (.str "c", .str "")])) := by
  rfl

/-- dict: the same mapping under `argDict` (for the empty list too: `{}`). -/
theorem dict_spec (loads : String → Except Exc Val) (args : List String) :
    parse loads .dict args = .ok (some (.dict [(.str "argDict", .dict (kvDict args))])) := by
  cases args <;> simp [parse, kvDict]

/-- argskwargs: `argList` holds the arguments without `=` in order; any other key `k` holds the
    value of the last `k=…` argument; an `argList=…` argument is overwritten by the list. -/
theorem argskwargs_spec (loads : String → Except Exc Val) (args : List String) :
    ∃ d, parse loads .argskwargs args = .ok (some (.dict d)) ∧
      dictGet? d (.str "argList") = some (strList (args.filter (fun a => !hasSep a))) ∧
      ∀ k, k ≠ "argList" → dictGet? d (.str k) =
        ((args.filter hasSep).reverse.find? (fun a => keyOf a = k)).map (fun a => Val.str (valOf a)) := by
  cases args with
  | nil =>
    refine ⟨[(.str "argList", .list [])], by simp [parse], by simp [dictGet?, strList], ?_⟩
    intro k hk
    have : ¬ (Val.str "argList" = Val.str k) := by intro e; injection e with e; exact hk e.symm
    simp [dictGet?, this]
  | cons a as =>
    refine ⟨_, by simp only [parse, List.isEmpty_cons]; rfl, ?_, ?_⟩
    · rw [argsKwargsLoop_closed]
      simp [dictGet_dictSet_same]
    · intro k hk
      have hne : Val.str k ≠ Val.str "argList" := by intro e; injection e with e; exact hk e
      rw [argsKwargsLoop_closed, dictGet_dictSet_other _ _ _ _ hne]
      simp only []
      rw [foldl_kvStep_get]
      cases ((a :: as).filter hasSep).reverse.find? (fun a => keyOf a = k) <;> simp [dictGet?]

example : parse (fun _ => .ok .none) .argskwargs ["x", "k=1", "y z", "k=2=3"] =
    .ok (some (.dict [(.str "k", .str "2=3"), (.str "argList", .list [.str "x", .str "y z"])])) := by
  rfl

/-- list: all arguments, in order, under `argList`. -/
theorem list_spec (loads : String → Except Exc Val) (args : List String) :
    parse loads .list args = .ok (some (.dict [(.str "argList", .list (args.map Val.str))])) := by
  cases args <;> simp [parse, strList]

/-- string: the arguments joined by single spaces under `argString`; joining is associative with
    exactly one space at every seam. -/
theorem string_spec (loads : String → Except Exc Val) (args : List String) :
    parse loads .string args = .ok (some (.dict [(.str "argString", .str (joinSp args))])) ∧
    (∀ xs ys : List String, xs ≠ [] → ys ≠ [] → joinSp (xs ++ ys) = joinSp xs ++ " " ++ joinSp ys) ∧
    (∀ a : String, joinSp [a] = a) ∧ joinSp [] = "" := by
  refine ⟨?_, joinSp_append, fun _ => rfl, rfl⟩
  cases args <;> simp [parse, joinSp]

example : joinSp ["a", "b c", "", "d"] = "a b c  d" := by decide +kernel

/-- keys: for a non-empty list every argument is a key, every value is `true`, nothing else is a key. -/
theorem keys_spec (loads : String → Except Exc Val) (args : List String) (hne : args ≠ []) :
    ∃ d, parse loads .keys args = .ok (some (.dict d)) ∧
      (∀ k, dictGet? d (.str k) = if k ∈ args then some (.bool true) else none) ∧
      ∀ kv ∈ d, kv.2 = .bool true := by
  refine ⟨args.foldl keyStep [], ?_, ?_, ?_⟩
  · cases args with
    | nil => exact absurd rfl hne
    | cons a as => simp only [parse, List.isEmpty_cons]; rfl
  · intro k
    rw [foldl_keyStep_get]
    simp [dictGet?]
  · exact foldl_keyStep_values args [] (by simp)

/-- json: the arguments are joined by single spaces and loaded; an object is returned as loaded,
    anything else at the top level is a `TypeError`, a decoding error propagates. -/
theorem json_spec (loads : String → Except Exc Val) (args : List String) (hne : args ≠ []) :
    parse loads .json args = match loads (joinSp args) with
      | .error e => .error e
      | .ok (.dict d) => .ok (some (.dict d))
      | .ok _ => .error typeErrorJson := by
  cases args with
  | nil => exact absurd rfl hne
  | cons a as => simp only [parse, List.isEmpty_cons]; rfl

/-- Without arguments: keyvaluepairs, keys and json give `None`; the others their empty shape. -/
theorem empty_input_table (loads : String → Except Exc Val) :
    parse loads .keyvaluepairs [] = .ok none ∧
    parse loads .keys [] = .ok none ∧
    parse loads .json [] = .ok none ∧
    parse loads .argskwargs [] = .ok (some (.dict [(.str "argList", .list [])])) ∧
    parse loads .dict [] = .ok (some (.dict [(.str "argDict", .dict [])])) ∧
    parse loads .list [] = .ok (some (.dict [(.str "argList", .list [])])) ∧
    parse loads .string [] = .ok (some (.dict [(.str "argString", .str "")])) := by
  simp [parse]

/-- Totality: every parser but json always returns (never raises); json raises only what `loads`
    raises or the top-level `TypeError`. (Determinism: `parse` is a function.) -/
theorem parsers_total (loads : String → Except Exc Val) (p : Parser) (args : List String) :
    (p ≠ .json → ∃ v, parse loads p args = .ok v) ∧
    (∀ e, parse loads p args = .error e → p = .json ∧ (loads (joinSp args) = .error e ∨ e = typeErrorJson)) := by
  cases p <;> cases args <;> simp [parse]
  rename_i a as
  intro e
  cases h : loads (joinSp (a :: as)) with
  | error e' => simp; exact fun h' => .inl h'
  | ok v =>
    cases v <;> simp
    all_goals (intro h'; exact h'.symm)

/-! ## Does the API run the parser? -/

/-- `_get_parse_input`: an explicit `parse_args` is honoured; left unset, the parser runs unless a
    dict was supplied (even an empty one) and there are no arguments (`None` or `[]`). -/
theorem parse_input_table (argsIn : Option (List String)) (dictGiven : Bool) :
    getParseInput (some true) argsIn dictGiven = true ∧
    getParseInput (some false) argsIn dictGiven = false ∧
    (getParseInput none argsIn dictGiven = false ↔
      dictGiven = true ∧ (argsIn = none ∨ argsIn = some [])) := by
  refine ⟨rfl, rfl, ?_⟩
  cases dictGiven <;> cases argsIn with
  | none => simp [getParseInput, argsTruthy]
  | some l => cases l <;> simp [getParseInput, argsTruthy]

/-- The table itself, row by row (args_in: None / [] / non-empty; dict_in: None / given). -/
example :
    getParseInput none none false = true ∧ getParseInput none (some []) false = true ∧
    getParseInput none (some ["a"]) false = true ∧ getParseInput none none true = false ∧
    getParseInput none (some []) true = false ∧ getParseInput none (some ["a"]) true = true ∧
    getParseInput (some true) none true = true ∧ getParseInput (some false) (some ["a"]) false = false := by
  decide

/-- The initial context: the supplied dict; and, exactly when `parse_input` holds and the pipeline
    declares a parser, updated with the parser's result (nothing to update for `None`). -/
theorem api_runs_parser_iff (loads : String → Except Exc Val) (p : Parser)
    (parseArgs : Option Bool) (argsIn : Option (List String)) (dictIn : Option Ctx) :
    initialContext loads (some p) parseArgs argsIn dictIn =
      if getParseInput parseArgs argsIn dictIn.isSome then
        match parse loads p (argsIn.getD []) with
        | .error e => some (.error e)
        | .ok none => some (.ok (dictIn.getD []))
        | .ok (some (.dict d)) => (updateFrom (dictIn.getD []) d).map .ok
        | .ok (some _) => none
      else some (.ok (dictIn.getD [])) := by
  simp only [initialContext]
  split <;> rfl

example : initialContext (fun _ => .ok .none) (some .keyvaluepairs) none (some ["a=1"]) (some [("x", .int 1)]) =
      some (.ok [("x", .int 1), ("a", .str "1")]) ∧
    initialContext (fun _ => .ok .none) (some .keyvaluepairs) none none (some [("x", .int 1)]) =
      some (.ok [("x", .int 1)]) ∧
    initialContext (fun _ => .ok .none) (some .list) none none (some []) = some (.ok []) ∧
    initialContext (fun _ => .ok .none) (some .list) (some true) none (some []) =
      some (.ok [("argList", .list [])]) := by
  refine ⟨rfl, rfl, rfl, rfl⟩

/-! ## Shortcuts (`config.shortcuts`, `Pipeline.new_pipe_and_args`) -/

/-- **Without a shortcut of that name the arguments pass through unchanged**: no entry under the
    name, a null entry or an empty one - the new `Pipeline` gets the caller's name, arguments,
    groups, success/failure groups, loader and `py_dir`, the caller's dict initialises the context,
    and `_get_parse_input` decides on the caller's `parse_args`. -/
theorem shortcut_none_identity (shortcuts : Ctx) (c : ApiCall)
    (h : shortcuts.get? c.name = none ∨ shortcuts.get? c.name = some .none ∨ shortcuts.get? c.name = some (.dict [])) :
    applyShortcut shortcuts c = some (.ok
      { name := c.name, contextArgs := c.contextArgs,
        parseInput := getParseInput c.parseInput c.contextArgs c.dictIn.isSome,
        dictIn := c.dictIn, loader := c.loader, groups := c.groups, success := c.success, failure := c.failure,
        pyDir := .caller c.pyDir }) := by
  rcases h with h | h | h <;> simp [applyShortcut, h, resolveDirect]

/-- In particular an empty `config.shortcuts` (the default) never changes anything. -/
theorem shortcut_empty_table (c : ApiCall) : applyShortcut [] c = some (.ok (resolveDirect c)) := rfl

example : applyShortcut [("other", .dict [(.str "pipeline_name", .str "x")])]
      { name := "pipe", contextArgs := some ["a=b"], parseInput := some true, groups := some ["g"], pyDir := some "/d" } =
    some (.ok { name := "pipe", contextArgs := some ["a=b"], parseInput := true, dictIn := none, loader := none,
                groups := some ["g"], success := none, failure := none, pyDir := .caller (some "/d") }) := by
  decide +kernel

/-- **How `parse_input` is decided with a shortcut**: the caller's `parse_args` is dropped (the CLI's
    `True` as much as an API caller's `False`); `skip_parse: b` in the shortcut decides (`not b`);
    without it the default table of `_get_parse_input` is applied to the *rewritten* arguments and
    dict - so a shortcut with `args` and without `parser_args`, called without context arguments,
    does not run the parser, CLI or not. -/
theorem parse_input_with_shortcut (shortcuts : Ctx) (c : ApiCall) (sc : List (Val × Val)) (r : Resolved)
    (hfound : shortcuts.get? c.name = some (.dict sc)) (hne : sc ≠ [])
    (hr : applyShortcut shortcuts c = some (.ok r)) :
    (∀ pi, applyShortcut shortcuts { c with parseInput := pi } = some (.ok r)) ∧
    (∀ b, dictGet? sc (.str "skip_parse") = some (.bool b) → r.parseInput = !b) ∧
    ((dictGet? sc (.str "skip_parse") = none ∨ dictGet? sc (.str "skip_parse") = some .none) →
      r.parseInput = !(!argsTruthy r.contextArgs && r.dictIn.isSome)) := by
  have hres : resolveWith c.name sc c = some (.ok r) := by
    cases sc with
    | nil => exact absurd rfl hne
    | cons x xs => simpa [applyShortcut, hfound] using hr
  refine ⟨?_, ?_, ?_⟩
  · intro pi
    cases sc with
    | nil => exact absurd rfl hne
    | cons x xs =>
      simp only [applyShortcut, hfound]
      exact hres
  · intro b hb
    obtain ⟨name, ca, pi, di, g, s, f, l, d, _, _, _, hpi, _, _, _, _, _, _, hr'⟩ := resolveWith_ok _ _ _ _ hres
    simp only [scParseIn, hb, Option.some.injEq] at hpi
    subst hpi; subst hr'
    rfl
  · intro hb
    obtain ⟨name, ca, pi, di, g, s, f, l, d, _, _, _, hpi, _, _, _, _, _, _, hr'⟩ := resolveWith_ok _ _ _ _ hres
    have : pi = none := by
      rcases hb with hb | hb <;> simp only [scParseIn, hb, Option.some.injEq] at hpi <;> exact hpi.symm
    subst this; subst hr'
    rfl

/-- The CLI always says `parse_args=True`; with this shortcut (`args`, no `parser_args`) and no
    context arguments on the command line the parser does not run; with an argument it does; with
    `skip_parse: false` it does in any case. -/
example :
    (applyShortcut [("sc", .dict [(.str "pipeline_name", .str "real"), (.str "args", .dict [(.str "k", .str "v")])])]
      (runCallOf { name := "sc" }).toApi).map (·.map (·.parseInput)) = some (.ok false) ∧
    (applyShortcut [("sc", .dict [(.str "pipeline_name", .str "real"), (.str "args", .dict [(.str "k", .str "v")])])]
      (runCallOf { name := "sc", ctx := ["a=b"] }).toApi).map (·.map (·.parseInput)) = some (.ok true) ∧
    (applyShortcut [("sc", .dict [(.str "pipeline_name", .str "real"), (.str "args", .dict [(.str "k", .str "v")]),
                                  (.str "skip_parse", .bool false)])]
      (runCallOf { name := "sc" }).toApi).map (·.map (·.parseInput)) = some (.ok true) := by
  decide +kernel

/-- **What a shortcut rewrites and which of the caller's values win.** For a shortcut that applies
    and resolves to `r`:
    * the pipeline that runs is the shortcut's `pipeline_name`, not the name given;
    * `groups`, `success`, `failure`, `loader` are the caller's exactly when the shortcut has no such
      key; `py_dir` is the caller's when the shortcut has none;
    * a non-empty `parser_args` list is put before the caller's context arguments; without
      `parser_args` the caller's arguments are unchanged;
    * a non-empty `args` dict is the base over which the caller's `dict_in` is `update`d (top-level
      keys of the caller win, nothing is merged below the top level); without `args` the caller's
      dict is unchanged. -/
theorem shortcut_rewrite (shortcuts : Ctx) (c : ApiCall) (sc : List (Val × Val)) (r : Resolved)
    (hfound : shortcuts.get? c.name = some (.dict sc)) (hne : sc ≠ [])
    (hr : applyShortcut shortcuts c = some (.ok r)) :
    dictGet? sc (.str "pipeline_name") = some (.str r.name) ∧ r.name ≠ "" ∧
    (dictGet? sc (.str "groups") = none → r.groups = c.groups) ∧
    (dictGet? sc (.str "success") = none → r.success = c.success) ∧
    (dictGet? sc (.str "failure") = none → r.failure = c.failure) ∧
    (dictGet? sc (.str "loader") = none → r.loader = c.loader) ∧
    (dictGet? sc (.str "py_dir") = none → r.pyDir = .caller c.pyDir) ∧
    (dictGet? sc (.str "parser_args") = none → r.contextArgs = c.contextArgs) ∧
    (∀ xs pa, dictGet? sc (.str "parser_args") = some (.list xs) → strsOfVals xs = some pa → pa ≠ [] →
      r.contextArgs = some (pa ++ c.contextArgs.getD [])) ∧
    (dictGet? sc (.str "args") = none → r.dictIn = c.dictIn) ∧
    (∀ kvs scd, dictGet? sc (.str "args") = some (.dict kvs) → ctxOfDict kvs = some scd → scd ≠ [] →
      r.dictIn = some (Ctx.update scd (c.dictIn.getD [])) ∧
      ∀ k, (Ctx.update scd (c.dictIn.getD [])).get? k =
        match (c.dictIn.getD []).reverse.find? (fun kv => kv.1 = k) with
        | some kv => some kv.2
        | none => scd.get? k) := by
  have hres : resolveWith c.name sc c = some (.ok r) := by
    cases sc with
    | nil => exact absurd rfl hne
    | cons x xs => simpa [applyShortcut, hfound] using hr
  obtain ⟨name, ca, pi, di, g, s, f, l, d, hname, hnn, hca, _, hdi, hg, hs, hf, hl, hd, hr'⟩ := resolveWith_ok _ _ _ _ hres
  subst hr'
  refine ⟨?_, hnn, ?_, ?_, ?_, ?_, ?_, ?_, ?_, ?_, ?_⟩
  · simp only [getStrOr] at hname
    split at hname <;> simp_all
  · intro h; rw [scGroups_absent _ _ h] at hg; simpa using hg.symm
  · intro h; rw [getStrOr_absent _ _ _ h] at hs; simpa using hs.symm
  · intro h; rw [getStrOr_absent _ _ _ h] at hf; simpa using hf.symm
  · intro h; rw [getStrOr_absent _ _ _ h] at hl; simpa using hl.symm
  · intro h; rw [scPyDir_absent _ _ h] at hd; simpa using hd.symm
  · intro h; rw [scContextArgs_absent _ _ _ h] at hca; simpa using hca.symm
  · intro xs pa h1 h2 h3
    rw [scContextArgs_list _ _ _ xs pa h1 h2 h3] at hca
    simpa using hca.symm
  · intro h; rw [scDictIn_absent _ _ h] at hdi; simpa using hdi.symm
  · intro kvs scd h1 h2 h3
    rw [scDictIn_dict _ _ kvs scd h1 h2 h3] at hdi
    exact ⟨by simpa using hdi.symm, fun k => get_update _ _ k⟩

example : applyShortcut
      [("sc", .dict [(.str "pipeline_name", .str "real/pipe"), (.str "parser_args", .list [.str "a=1", .str "b=2"]),
                     (.str "args", .dict [(.str "k", .str "sc"), (.str "only", .int 1)]), (.str "groups", .str "g0"),
                     (.str "success", .none), (.str "py_dir", .str "/sc/dir")])]
      { name := "sc", contextArgs := some ["b=3"], parseInput := some false, dictIn := some [("k", .str "mine")],
        groups := some ["g1", "g2"], success := some "s", failure := some "f", pyDir := some "/mine" } =
    some (.ok { name := "real/pipe", contextArgs := some ["a=1", "b=2", "b=3"], parseInput := true,
                dictIn := some [("k", .str "mine"), ("only", .int 1)], loader := none, groups := some ["g0"],
                success := none, failure := some "f", pyDir := .path "/sc/dir" }) := by
  decide +kernel

/-- A shortcut without (or with an empty) `pipeline_name`, and a `parser_args` that is a string, are
    `ConfigError`s - whatever else the shortcut says. -/
theorem shortcut_config_errors (n : String) (sc : List (Val × Val)) (c : ApiCall) :
    ((dictGet? sc (.str "pipeline_name") = none ∨ dictGet? sc (.str "pipeline_name") = some .none ∨
      dictGet? sc (.str "pipeline_name") = some (.str "")) →
        resolveWith n sc c = some (.error (configErrorNoName n))) ∧
    (∀ name s, dictGet? sc (.str "pipeline_name") = some (.str name) → name ≠ "" →
      dictGet? sc (.str "parser_args") = some (.str s) → s ≠ "" →
        resolveWith n sc c = some (.error (configErrorParserArgs n))) := by
  refine ⟨?_, ?_⟩
  · rintro (h | h | h) <;> simp [resolveWith, getStrOr, h]
  · intro name s h1 h2 h3 h4
    simp [resolveWith, getStrOr, h1, h2, scContextArgs, h3, h4]

example : applyShortcut [("sc", .dict [(.str "groups", .str "g")])] { name := "sc" } =
      some (.error ⟨"pypyr.errors.ConfigError", "shortcut 'sc' has no pipeline_name set. You must set pipeline_name for this shortcut in config so that pypyr knows which pipeline to run."⟩) := by
  decide +kernel

/-! ## The context parser raises: `--groups`, `--success`, `--failure` decide the handler, unchanged -/

/-- **Which failure handler runs when the context parser raises** (all argument combinations, all
    pipelines): the `--failure` group as passed whenever any of `--groups` / `--success` /
    `--failure` was given (so NONE when `--groups` and/or `--success` came without `--failure`),
    `on_failure` only for a run that gave none of the three; the rule is the flow model's
    (`Flow.effectiveGroups`, C01), and at most that one group runs. -/
theorem parser_failure_handler_spec (g : GroupArgs) (body : String → Option HandlerEnd) :
    failureHandler g =
      (if groupsTruthy g.groups || strTruthy g.success || strTruthy g.failure then g.failure else some "on_failure") ∧
    (∀ name, failureHandler g = (Pypyr.Flow.effectiveGroups (g.toInst name)).2.2) ∧
    (ranOnParserFailure body g = [] ∨ ∃ n, failureHandler g = some n ∧ ranOnParserFailure body g = [n]) := by
  refine ⟨failureHandler_closed g, fun name => by rw [failureHandler, effectiveArgs_eq_flow g name], ?_⟩
  unfold ranOnParserFailure
  cases h : failureHandler g with
  | none => left; rfl
  | some n => by_cases hb : (body n).isSome = true
              · right; exact ⟨n, rfl, by simp [hb]⟩
              · left; simp [hb]

/-- **`--groups` and/or `--success` without `--failure`, context parser raises → exit 255 with the
    parser's error, no group runs** - whatever groups the pipeline has (an `on_failure` with a Stop
    in it included) and however they would end. -/
theorem parser_error_without_failure_group (g : GroupArgs) (body : String → Option HandlerEnd) (ty msg : String)
    (hgiven : groupsTruthy g.groups = true ∨ strTruthy g.success = true) (hf : g.failure = none) :
    failureHandler g = none ∧ ranOnParserFailure body g = [] ∧
    parserFailure body g (.error ty msg) = .error ty msg ∧
    exitStatus (parserFailure body g (.error ty msg)) = some 255 ∧
    (tryMain (pipelineRun (parserFailure body g (.error ty msg)))).stderr =
      "\n" ++ "\x1b[91m" ++ ty ++ ": " ++ msg ++ "\x1b[0;0m" ++ "\n" := by
  have h : failureHandler g = none := by
    rw [failureHandler_closed]
    rcases hgiven with h | h <;> simp [h, hf]
  refine ⟨h, by simp [ranOnParserFailure, h], ?_⟩
  have hp : parserFailure body g (.error ty msg) = .error ty msg := by
    simp [parserFailure, h, runHandler, parserFailed]
  rw [hp]
  exact ⟨rfl, rfl, rfl⟩

example : failureHandler { groups := some ["build"] } = none ∧
    failureHandler { success := some "done" } = none ∧
    failureHandler { groups := some ["build"], failure := some "on_failure" } = some "on_failure" ∧
    failureHandler {} = some "on_failure" ∧ failureHandler { groups := some [] } = some "on_failure" ∧
    parserFailure (fun n => if n = "on_failure" then some .stop else none) { groups := some ["build"] }
      (.error "JSONDecodeError" "m") = .error "JSONDecodeError" "m" ∧
    parserFailure (fun n => if n = "on_failure" then some .stop else none) {} (.error "JSONDecodeError" "m") = .stop := by
  decide

/-- **Exit status when the context parser raised**, every case: 0 exactly when the handler that ran
    ended with `Stop` or `StopPipeline` (the run was ended by a Stop instruction), 255 otherwise -
    in particular whenever no handler ran. -/
theorem parser_error_exit_status (g : GroupArgs) (body : String → Option HandlerEnd) (ty msg : String) :
    exitStatus (parserFailure body g (.error ty msg)) =
      (if runHandler body (failureHandler g) = .stop ∨ runHandler body (failureHandler g) = .stopPipeline
       then some 0 else some 255) :=
  parserFailed_status ty msg _

/-! ## Parsers are functions of the argument list: results are new objects -/

/-- **A sequence of parser calls and in-place mutations of earlier results in one process**: when
    every `return` builds its result anew, the k-th call yields `parse p args` whatever was called
    and whatever was written into earlier results before. -/
theorem parser_calls_independent_of_history (loads : String → Except Exc Val) (ops : List POp) (st : ParserProc) :
    runPOps loads parserSrc st ops =
      ops.filterMap (fun o => match o with
        | .call p args => some (parse loads p args)
        | .mutate _ _ => none) :=
  runPOps_fresh loads parserSrc (fun _ _ => rfl) ops st

/-- the hypothesis is needed: with the no-argument result of the dict parser kept at module level,
    a step that fills `argDict` in place changes what the next no-argument parse returns -/
theorem shared_result_witness :
    runPOps (fun _ => .error ⟨"x", ""⟩) (fun p a => if p = .dict ∧ a = [] then .cell 0 else .fresh) {}
      [.call .dict [], .mutate 0 (.dict [(.str "argDict", .dict [(.str "env", .str "dev")])]), .call .dict []] =
    [.ok (some (.dict [(.str "argDict", .dict [])])),
     .ok (some (.dict [(.str "argDict", .dict [(.str "env", .str "dev")])]))] := by
  decide +kernel

/-- **Extractor agreement**: every `return` of every built-in parser's `get_parsed_context` returns
    `None` or an object built by that call - none returns an object living at module level. -/
theorem parser_returns_agree :
    Generated.CliMain.parserReturns =
      [("keyvaluepairs", ["none", "new"]), ("argskwargs", ["new", "new"]), ("dict", ["new", "new"]),
       ("list", ["new", "new"]), ("string", ["new", "new"]), ("keys", ["none", "new"]), ("json", ["none", "new"])] := by
  decide +kernel

/-! ## The run phase × the failure handler: an interrupt is 130 whatever the handler contains -/

/-- **Static tie.** The `except` clauses of `StepsRunner.run_step_groups` / `run_failure_step_group` as
    extracted from the source under test are the ones the model `runStepGroups` runs on (`codeLadders`):
    the handler clause names `Exception` - not `BaseException`, no bare `except` - and the class hierarchy of
    pypyr/errors.py puts the Stop family under `Exception`. -/
theorem run_ladders_agree :
    Generated.ladders.lookup "StepsRunner.run_step_groups#0" =
      some ([(codeLadders.reraise, .reraise), (codeLadders.toHandler, .conditional)], false) ∧
    Generated.ladders.lookup "StepsRunner.run_step_groups#1" = some ([(codeLadders.dropOriginal, .swallow)], false) ∧
    Generated.ladders.lookup "StepsRunner.run_failure_step_group#0" =
      some ([(codeLadders.handlerReraise, .reraise), (codeLadders.handlerSwallow, .swallow)], false) ∧
    Generated.ladders.lookup "StepsRunner.run_step_group#0" = some ([(["Jump"], .swallow), (["StopStepGroup"], .conditional)], false) ∧
    Generated.hierarchy.lookup "Stop" = some ["Error"] ∧ Generated.hierarchy.lookup "Error" = some ["Exception"] ∧
    Generated.hierarchy.lookup "StopPipeline" = some ["Stop"] ∧ Generated.hierarchy.lookup "StopStepGroup" = some ["Stop"] := by
  refine ⟨?_, ?_, ?_, ?_, ?_, ?_, ?_, ?_⟩ <;> rfl

/-- **No `except` clause between a step and `cli.main` can match an interrupt**: in every extracted `try`
    statement of the functions that route exceptions during a run (`Step.invoke_step`,
    `run_conditional_decorators`, `RetryDecorator.exec_iteration`, `run_step_group`, `run_failure_step_group`,
    `run_step_groups`, `pype.run_step`, `Pipeline._run_pipeline`, `Pipeline.run`) no clause names
    `BaseException` (a bare `except:` is extracted as `BaseException`), `KeyboardInterrupt` or `SystemExit`. -/
theorem no_run_ladder_catches_interrupt :
    ∀ site ∈ Generated.ladders, ∀ clause ∈ site.2.1,
      clauseCatches clause.1 .keyboardInterrupt = false ∧ clauseCatches clause.1 (.systemExit .absent) = false ∧
      clauseCatches clause.1 (.baseOther "" "") = false := by
  decide +kernel

example : Generated.ladders.length = 13 ∧ clauseCatches ["BaseException"] .keyboardInterrupt = true ∧
    clauseCatches ["Exception"] .keyboardInterrupt = false ∧ clauseCatches ["Stop"] .stopPipeline = true := by decide +kernel

/-- the `try` body of `run_step_groups` never lets a `StopStepGroup` out (`run_step_group` ends the group) -/
theorem tryBody_ne_stopStepGroup (mains : List Raised) (success : Option Raised) :
    tryBody mains success ≠ .stopStepGroup := by
  have hg : ∀ e, runStepGroup false e ≠ .stopStepGroup := by
    intro e; cases e <;> simp [runStepGroup]
  have hm : ∀ ms, runMainGroups ms ≠ .stopStepGroup := by
    intro ms
    induction ms with
    | nil => simp [runMainGroups]
    | cons e rest ih =>
      unfold runMainGroups
      have := hg e
      split <;> simp_all
  unfold tryBody
  split
  · split
    · exact hg _
    · simp
  · rename_i r hr; intro h; exact hm mains h

/-- **`run_step_groups`, all cases** (`b` = what leaves the main groups / the success group, `failure` = what
    leaves the steps of the failure group, `none` when there is none): only an `Exception` outside the Stop
    family reaches the failure handler; a handler that completes or fails too leaves the original error; a
    `StopStepGroup` from the handler drops it; anything else leaving the handler (Stop, StopPipeline,
    KeyboardInterrupt, SystemExit, another BaseException) replaces it. Everything that is no such `Exception` -
    nothing, Stop family, `KeyboardInterrupt`, `SystemExit`, other `BaseException`s - leaves `run_step_groups`
    as it is, whatever the failure group contains. -/
theorem run_step_groups_spec (mains : List Raised) (success failure : Option Raised) :
    runStepGroups mains success failure =
      match tryBody mains success with
      | .error ty msg =>
        (match failure with
         | none => .error ty msg
         | some .nothing => .error ty msg
         | some (.error _ _) => .error ty msg
         | some .stopStepGroup => .nothing
         | some h => h)
      | b => b := by
  unfold runStepGroups runStepGroupsL
  generalize tryBody mains success = b
  cases b <;> try (simp [clauseCatches, Raised.classes, codeLadders])
  rename_i ty msg
  cases failure with
  | none => rfl
  | some h => cases h <;> simp [runFailureStepGroup, runStepGroup, clauseCatches, Raised.classes]

/-- **Only `Exception`s reach the failure handler.** -/
theorem handler_runs_iff_exception (mains : List Raised) (success failure : Option Raised) :
    handlerRuns codeLadders mains success failure = true ↔
      (∃ ty msg, tryBody mains success = .error ty msg) ∧ failure.isSome = true := by
  unfold handlerRuns
  generalize tryBody mains success = b
  cases b <;> simp [clauseCatches, Raised.classes, codeLadders]

/-- **An interrupt gives 130 whatever the failure handler contains**: a `KeyboardInterrupt` leaving a step of
    a main group or of the success group - every group list, every handler ending (absent, completes, fails
    too, stop, stoppipeline, stopstepgroup, raises anything). The handler does not even start. -/
theorem interrupt_gives_130 (mains : List Raised) (success failure : Option Raised)
    (h : tryBody mains success = .keyboardInterrupt) :
    runPhaseStatus mains success failure = some 130 ∧ handlerRuns codeLadders mains success failure = false ∧
    tryMain (pipelineRun (runStepGroups mains success failure)) = .returned ⟨some 130, "\n", ""⟩ := by
  have hs := run_step_groups_spec mains success failure
  rw [h] at hs
  refine ⟨by simp [runPhaseStatus, hs]; rfl, ?_, by rw [hs]; rfl⟩
  cases hh : handlerRuns codeLadders mains success failure
  · rfl
  · obtain ⟨⟨ty, msg, e⟩, _⟩ := (handler_runs_iff_exception mains success failure).1 hh
    rw [h] at e; cases e

/-- an interrupt while the failure handler runs (after an error in the steps) is 130 too -/
theorem interrupt_in_handler_gives_130 (mains : List Raised) (success : Option Raised) (ty msg : String)
    (h : tryBody mains success = .error ty msg) :
    runPhaseStatus mains success (some .keyboardInterrupt) = some 130 := by
  have hs := run_step_groups_spec mains success (some .keyboardInterrupt)
  rw [h] at hs
  simp [runPhaseStatus, hs]; rfl

example : tryBody [.nothing, .stopStepGroup, .keyboardInterrupt, .error "ValueError" "never"] (some .nothing) = .keyboardInterrupt ∧
    runPhaseStatus [.nothing, .stopStepGroup, .keyboardInterrupt] (some .nothing) (some .stop) = some 130 ∧
    runPhaseStatus [.nothing] (some .keyboardInterrupt) (some .stopStepGroup) = some 130 ∧
    runPhaseStatus [.error "ValueError" "x"] none (some .keyboardInterrupt) = some 130 ∧
    runPhaseStatus [.error "ValueError" "x"] none (some .stop) = some 0 := by decide +kernel

/-- **The exit-code theorem over what the run phase raises × what the handler does.** With `b` what leaves the
    main groups / success group and `failure` what leaves the failure group's steps:
    * 130 exactly when `b` is an interrupt, or `b` is an error and the handler is interrupted;
    * 255 exactly when `b` is an error and the handler is absent, completes or fails with an `Exception`;
    * 0 exactly when `b` is nothing / Stop / StopPipeline, or `b` is an error and the handler ends in
      stop / stoppipeline / stopstepgroup - or a `SystemExit` whose code means 0 leaves (the open finding);
    * otherwise a `SystemExit` / other `BaseException` left: the interpreter's status. -/
theorem run_phase_exit_spec (mains : List Raised) (success failure : Option Raised) :
    let b := tryBody mains success
    let isErr := ∃ ty msg, b = .error ty msg
    let exits := fun c => b = .systemExit c ∨ (isErr ∧ failure = some (.systemExit c))
    (runPhaseStatus mains success failure = some 130 ↔
      b = .keyboardInterrupt ∨ (isErr ∧ failure = some .keyboardInterrupt) ∨ ∃ c, exits c ∧ c.status = 130) ∧
    (runPhaseStatus mains success failure = some 255 ↔
      (isErr ∧ (failure = none ∨ failure = some .nothing ∨ ∃ t m, failure = some (.error t m))) ∨
      ∃ c, exits c ∧ c.status = 255) ∧
    (runPhaseStatus mains success failure = some 0 ↔
      b = .nothing ∨ b = .stop ∨ b = .stopPipeline ∨
      (isErr ∧ (failure = some .stop ∨ failure = some .stopPipeline ∨ failure = some .stopStepGroup)) ∨
      ∃ c, exits c ∧ c.status = 0) := by
  intro b isErr exits
  have hs := run_step_groups_spec mains success failure
  have hne := tryBody_ne_stopStepGroup mains success
  simp only [runPhaseStatus, isErr, exits, b]
  generalize tryBody mains success = b at hs hne
  rw [hs]
  cases b with
  | error ty msg =>
    cases failure with
    | none => simp [exitStatus, pipelineRun, tryMain, cliMain, sysExit, Outcome.status]
    | some h => cases h <;> simp [exitStatus, pipelineRun, tryMain, cliMain, sysExit, Outcome.status]
  | _ => simp_all [exitStatus, pipelineRun, tryMain, cliMain, sysExit, Outcome.status]

/-- with no `SystemExit` in play: 0 iff completed or ended by a Stop instruction (in the steps, or in the
    failure handler of an error) -/
theorem run_phase_exit_zero_iff (mains : List Raised) (success failure : Option Raised)
    (hb : ∀ c, tryBody mains success ≠ .systemExit c) (hf : ∀ c, failure ≠ some (.systemExit c)) :
    runPhaseStatus mains success failure = some 0 ↔
      tryBody mains success = .nothing ∨ tryBody mains success = .stop ∨ tryBody mains success = .stopPipeline ∨
      ((∃ ty msg, tryBody mains success = .error ty msg) ∧
        (failure = some .stop ∨ failure = some .stopPipeline ∨ failure = some .stopStepGroup)) := by
  rw [(run_phase_exit_spec mains success failure).2.2]
  constructor
  · rintro (h | h | h | h | ⟨c, (h | ⟨_, h⟩), _⟩)
    · exact .inl h
    · exact .inr (.inl h)
    · exact .inr (.inr (.inl h))
    · exact .inr (.inr (.inr h))
    · exact absurd h (hb c)
    · exact absurd h (hf c)
  · rintro (h | h | h | h)
    · exact .inl h
    · exact .inr (.inl h)
    · exact .inr (.inr (.inl h))
    · exact .inr (.inr (.inr (.inl h)))

/-- **Why the static tie matters**: for ANY ladders whose handler clause does not match a `KeyboardInterrupt`
    (and whose re-raise clause is anything) the interrupt leaves `run_step_groups` untouched ... -/
theorem interrupt_untouched_of_ladders (L : RunLadders) (mains : List Raised) (success failure : Option Raised)
    (hL : clauseCatches L.toHandler .keyboardInterrupt = false) (h : tryBody mains success = .keyboardInterrupt) :
    runStepGroupsL L mains success failure = .keyboardInterrupt := by
  unfold runStepGroupsL
  simp only [h, hL]
  simp

/-- ... and with the clause widened to `except BaseException` a handler ending in stop / stoppipeline /
    stopstepgroup turns an interrupted run into exit status 0. -/
theorem wide_handler_clause_witness :
    exitStatus (runStepGroupsL wideLadders [.keyboardInterrupt] none (some .stop)) = some 0 ∧
    exitStatus (runStepGroupsL wideLadders [.keyboardInterrupt] none (some .stopStepGroup)) = some 0 ∧
    exitStatus (runStepGroupsL wideLadders [.nothing] (some .keyboardInterrupt) (some .stopPipeline)) = some 0 ∧
    exitStatus (runStepGroupsL wideLadders [.keyboardInterrupt] none (some .nothing)) = some 130 := by
  decide +kernel


end Pypyr.C18
