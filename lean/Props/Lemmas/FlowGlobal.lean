/-
  Global invariants of the flow interpreter, layer by layer.

  A *global relation* `R : St → St → Prop` (input state ↦ output state) is one that is
  reflexive, transitive, holds whenever `stack` and `trace` are untouched (so: whatever happens
  to the context, the sleeps, the exception counter, the random script), holds when an event is
  appended to the trace, and is compatible with the two places in which the interpreter changes
  the pipeline stack: `with context.pipeline_scope(...)` (push, run, pop) and the child context
  of `pype` (a fresh stack for the child, the parent's own stack afterwards).

  This file proves, for every such `R`, that every decorator layer of `Layers.lean` relates its
  input state to its output state provided the inner bodies do, and that every primitive step
  body of `Steps.lean` does. `FlowGlobalRun.lean` closes the knot over the fuel-indexed mutual
  recursion of `Runner.lean`.
-/
import Props.Lemmas.FlowRunner

namespace Pypyr.Flow

/-- The closure conditions a relation between "state before" and "state after" must have to be
    provable for the whole interpreter from its layers. -/
structure GlobalRel (R : St → St → Prop) : Prop where
  refl : ∀ s, R s s
  trans : ∀ {a b c}, R a b → R b c → R a c
  /-- anything that leaves `stack` and `trace` alone and only grows the virtual clock's record, the
      exception counter and the ghost log of escapes (whatever it does to the context, the random
      script, the out-of-domain flag) -/
  frame : ∀ (a b : St), b.stack = a.stack → b.trace = a.trace → a.sleeps <+: b.sleeps →
    a.nextExc ≤ b.nextExc → a.escapes <+: b.escapes → R a b
  /-- the probe appends one event -/
  emit : ∀ (a : St) (ev : Event), R a { a with trace := a.trace ++ [ev] }
  /-- `with context.pipeline_scope(pipeline)`: push on entry, pop in `finally` -/
  scope : ∀ (a b : St) (n : String),
    R { a with stack := n :: a.stack } b → R a { b with stack := b.stack.drop 1 }
  /-- `pype` with its own context: the child runs on a fresh `Context` (own data, empty stack);
      afterwards the parent's context object is the current one again -/
  own : ∀ (a b : St) (cx : Ctx),
    R { a with ctx := cx, stack := [] } b → R a { b with ctx := a.ctx, stack := a.stack }

/-- a body relates every input state to its output state -/
def Pres (R : St → St → Prop) (b : Body) : Prop := ∀ s, R s (b s).1

/-- discharges the growth side conditions of `GlobalRel.frame` on concrete record updates -/
macro "grows" : tactic =>
  `(tactic| first
    | exact List.prefix_refl _
    | exact List.prefix_append _ _
    | exact Nat.le_refl _
    | exact Nat.le_succ _
    | (simp only []; first | exact List.prefix_refl _ | exact List.prefix_append _ _ | omega))

/-- `G.frame` with the growth conditions discharged by `grows` -/
macro "frame_tac " G:ident : tactic =>
  `(tactic| exact GlobalRel.frame $G _ _ rfl rfl (by grows) (by grows) (by grows))

variable {R : St → St → Prop}

/-! ### raising, recording -/

theorem rel_raiseNew (G : GlobalRel R) (s : St) (n m : String) : R s (raiseNew s n m).1 := by
  frame_tac G

theorem rel_raiseExc (G : GlobalRel R) (s : St) (e : Exc) : R s (raiseExc s e).1 := by
  frame_tac G

theorem rel_ctx (G : GlobalRel R) (s : St) (cx : Ctx) : R s { s with ctx := cx } := by
  frame_tac G

theorem rel_saveError (G : GlobalRel R) (d : StepDef) (s : St) (e : ExcV) (sw : Bool) :
    R s (saveError d s e sw).1 := by
  unfold saveError
  simp only []
  split
  · exact rel_raiseExc G _ _
  · split
    · exact rel_ctx G _ _
    · exact rel_ctx G _ _
    · exact rel_raiseNew G _ _ _

theorem rel_resetCounters (G : GlobalRel R) (fr : Frame) (c : CofCfg) (s : St) :
    R s (resetCounters fr c s) := by frame_tac G

theorem rel_setIn (G : GlobalRel R) (d : StepDef) (s : St) : R s (setIn d s) := by
  unfold setIn; split
  · exact rel_ctx G _ _
  · exact G.refl _

theorem rel_unsetIn (G : GlobalRel R) (d : StepDef) (s : St) : R s (unsetIn d s) := by
  unfold unsetIn; split
  · exact rel_ctx G _ _
  · exact G.refl _

theorem rel_unsetIn_tail (G : GlobalRel R) (d : StepDef) (a : St) (p : St × Res) (h : R a p.1) :
    R a (match p with | (s1, .ok) => (unsetIn d s1, Res.ok) | other => other).1 := by
  obtain ⟨s1, r⟩ := p
  cases r <;> first | exact h | exact G.trans h (rel_unsetIn G d s1)

/-! ### invoke_step -/

theorem invokeStep_rel (G : GlobalRel R) (fr : Frame) (body : Body) (callee : CofCfg → Body)
    (hb : Pres R body) (hc : ∀ c, Pres R (callee c)) : Pres R (invokeStep fr body callee) := by
  intro s
  unfold invokeStep
  generalize hbs : body s = p
  obtain ⟨s1, r⟩ := p
  have h1 : R s s1 := by have := hb s; rw [hbs] at this; exact this
  cases r with
  | call c =>
    simp only []
    generalize hcs : callee c s1 = q
    obtain ⟨s2, r2⟩ := q
    have h2 : R s1 s2 := by have := hc c s1; rw [hcs] at this; exact this
    have h3 : R s2 (resetCounters fr c s2) := rel_resetCounters G fr c s2
    have h4 : R s2 (raiseNew (resetLoopCounters fr s2) "AssertionError" "").1 := by frame_tac G
    split
    · cases r2 <;> exact G.trans h1 (G.trans h2 h3)
    · cases r2 <;> first | exact G.trans h1 (G.trans h2 h4) | exact G.trans h1 h2
  | _ => exact h1

/-! ### retry -/

theorem retryIter_rel (G : GlobalRel R) (cfg : RetryCfg) (fr : Frame) (inner : Frame → Body)
    (max : Option Int) (hi : ∀ fr, Pres R (inner fr)) :
    ∀ (fuel k : Nat) (bo : BackoffState), Pres R (retryIter cfg fr inner max fuel k bo) := by
  intro fuel
  induction fuel with
  | zero => intro k bo s; exact G.refl _
  | succ n ih =>
    intro k bo s
    unfold retryIter
    simp only []
    generalize hin : inner { fr with retryC := some k } { s with ctx := Ctx.set s.ctx "retryCounter" (.int k) } = p
    obtain ⟨s1, r⟩ := p
    have h1 : R s s1 := by
      have := hi { fr with retryC := some k } { s with ctx := Ctx.set s.ctx "retryCounter" (.int k) }
      rw [hin] at this
      exact G.trans (rel_ctx G _ _) this
    cases r with
    | err e handled =>
      simp only []
      repeat' split
      all_goals first
        | exact h1
        | exact G.trans h1 (rel_raiseExc G _ _)
        | (refine G.trans h1 ?_; frame_tac G)
        | (refine G.trans h1 (G.trans ?_ (ih _ _ _)); frame_tac G)
    | _ => exact h1

theorem retryFaulty_rel (G : GlobalRel R) (cfg : RetryCfg) (fr : Frame) (inner : Frame → Body)
    (max : Option Int) (y : Bool) (hi : ∀ fr, Pres R (inner fr)) : Pres R (retryFaulty cfg fr inner max y) := by
  intro s
  unfold retryFaulty
  simp only []
  generalize hin : inner { fr with retryC := some 1 } { s with ctx := Ctx.set s.ctx "retryCounter" (.int 1) } = p
  obtain ⟨s1, r⟩ := p
  have h1 : R s s1 := by
    have := hi { fr with retryC := some 1 } { s with ctx := Ctx.set s.ctx "retryCounter" (.int 1) }
    rw [hin] at this
    exact G.trans (rel_ctx G _ _) this
  cases r with
  | err e handled =>
    simp only []
    repeat' split
    all_goals first
      | exact h1
      | exact G.trans h1 (rel_raiseExc G _ _)
      | exact G.trans h1 (rel_raiseNew G _ _ _)
  | _ => exact h1

theorem retryLoop_rel (G : GlobalRel R) (cfg : RetryCfg) (fr : Frame) (inner : Frame → Body) (fuel : Nat)
    (hi : ∀ fr, Pres R (inner fr)) : Pres R (retryLoop cfg fr inner fuel) := by
  intro s
  unfold retryLoop
  simp only []
  have h0 : R s { s with ctx := Ctx.set s.ctx "retryCounter" (.int 0) } := rel_ctx G _ _
  repeat' split
  all_goals first
    | exact G.trans h0 (rel_raiseExc G _ _)
    | exact G.trans h0 (rel_raiseNew G _ _ _)
    | exact G.trans h0 (retryIter_rel G cfg fr inner _ hi _ _ _ _)
    | exact G.trans h0 (retryFaulty_rel G cfg fr inner _ _ hi _)
    | exact h0

/-! ### run / skip / swallow -/

theorem runConditional_rel (G : GlobalRel R) (d : StepDef) (inner : Body) (hi : Pres R inner) :
    Pres R (runConditional d inner) := by
  intro s
  unfold runConditional
  split
  · exact rel_raiseExc G _ _
  · exact G.refl _
  · split
    · exact rel_raiseExc G _ _
    · exact G.refl _
    · simp only []
      generalize hin : inner s = p
      obtain ⟨s1, r⟩ := p
      have h1 : R s s1 := by have := hi s; rw [hin] at this; exact this
      cases r with
      | err e handled =>
        simp only []
        generalize hs1' : logEscape d s1 e handled = s1'
        have h1' : R s s1' := by
          rw [← hs1']; unfold logEscape; split
          · exact h1
          · refine G.trans h1 ?_; frame_tac G
        split
        · exact G.trans h1' (rel_raiseExc G _ _)
        · rename_i sw _
          generalize hsv : (if handled = true then (s1', Res.ok) else saveError d s1' e sw) = q
          obtain ⟨s2, r2⟩ := q
          have h2 : R s1' s2 := by
            by_cases hh : handled = true
            · simp [hh] at hsv; rw [← hsv.1]; exact G.refl _
            · simp [hh] at hsv
              have := rel_saveError G d s1' e sw
              rw [hsv] at this; exact this
          cases r2 <;> simp only [] <;> first
            | (split <;> exact G.trans h1' h2)
            | exact G.trans h1' h2
      | _ => exact h1

/-! ### foreach -/

theorem foreachItems_rel (G : GlobalRel R) (fr : Frame) (inner : Frame → Body) (hi : ∀ fr, Pres R (inner fr)) :
    ∀ items : List Val, Pres R (foreachItems fr inner items) := by
  intro items
  induction items with
  | nil => intro s; exact G.refl _
  | cons x rest ih =>
    intro s
    unfold foreachItems
    simp only []
    generalize hin : inner { fr with forI := some x } { s with ctx := Ctx.set s.ctx "i" x } = p
    obtain ⟨s1, r⟩ := p
    have h1 : R s s1 := by
      have := hi { fr with forI := some x } { s with ctx := Ctx.set s.ctx "i" x }
      rw [hin] at this
      exact G.trans (rel_ctx G _ _) this
    cases r with
    | ok => exact G.trans h1 (ih s1)
    | _ => exact h1

theorem foreachLoop_rel (G : GlobalRel R) (raw : Val) (fr : Frame) (inner : Frame → Body)
    (hi : ∀ fr, Pres R (inner fr)) : Pres R (foreachLoop raw fr inner) := by
  intro s
  unfold foreachLoop
  repeat' split
  all_goals first
    | exact rel_raiseExc G _ _
    | exact foreachItems_rel G fr inner hi _ _

theorem foreachOrConditional_rel (G : GlobalRel R) (d : StepDef) (fr : Frame) (inner : Frame → Body)
    (hi : ∀ fr, Pres R (inner fr)) : Pres R (foreachOrConditional d fr inner) := by
  unfold foreachOrConditional
  split
  · split
    · exact foreachLoop_rel G _ fr inner hi
    · exact hi fr
  · exact hi fr

/-! ### while -/

theorem whileIter_rel (G : GlobalRel R) (cfg : WhileCfg) (fr : Frame) (inner : Frame → Body) (max : Option Nat)
    (sleep : Num) (eom : Bool) (hi : ∀ fr, Pres R (inner fr)) :
    ∀ (fuel k : Nat), Pres R (whileIter cfg fr inner max sleep eom fuel k) := by
  intro fuel
  induction fuel with
  | zero => intro k s; exact G.refl _
  | succ n ih =>
    intro k s
    unfold whileIter
    simp only []
    generalize hin : inner { fr with whileC := some k } { s with ctx := Ctx.set s.ctx "whileCounter" (.int k) } = p
    obtain ⟨s1, r⟩ := p
    have h1 : R s s1 := by
      have := hi { fr with whileC := some k } { s with ctx := Ctx.set s.ctx "whileCounter" (.int k) }
      rw [hin] at this
      exact G.trans (rel_ctx G _ _) this
    cases r with
    | ok =>
      simp only []
      repeat' split
      all_goals first
        | exact h1
        | exact G.trans h1 (rel_raiseExc G _ _)
        | exact G.trans h1 (rel_raiseNew G _ _ _)
        | (refine G.trans h1 (G.trans ?_ (ih _ _)); frame_tac G)
    | _ => exact h1

theorem whileLoop_rel (G : GlobalRel R) (cfg : WhileCfg) (fr : Frame) (inner : Frame → Body) (fuel : Nat)
    (hi : ∀ fr, Pres R (inner fr)) : Pres R (whileLoop cfg fr inner fuel) := by
  intro s
  unfold whileLoop
  simp only []
  have h0 : R s { s with ctx := Ctx.set s.ctx "whileCounter" (.int 0) } := rel_ctx G _ _
  repeat' split
  all_goals first
    | exact h0
    | exact G.trans h0 (rel_raiseExc G _ _)
    | exact G.trans h0 (rel_raiseNew G _ _ _)
    | exact G.trans h0 (whileIter_rel G cfg fr inner _ _ _ hi _ _ _)

/-! ### the whole decorated step -/

theorem runStepWith_rel (G : GlobalRel R) (d : StepDef) (body : Body) (callee : CofCfg → Body) (fuel : Nat)
    (hb : Pres R body) (hc : ∀ c, Pres R (callee c)) : Pres R (runStepWith d body callee fuel) := by
  intro s
  have hinv : ∀ fr, Pres R (fun s => invokeStep fr body callee s) := fun fr => invokeStep_rel G fr body callee hb hc
  have hret : ∀ fr, Pres R (match d.retry with
      | some rc => retryLoop rc { fr with retryC := some 0 } (fun fr => invokeStep fr body callee) fuel
      | none => invokeStep fr body callee) := by
    intro fr
    split
    · exact retryLoop_rel G _ _ _ _ hinv
    · exact hinv fr
  have hcond : ∀ fr, Pres R (runConditional d (match d.retry with
      | some rc => retryLoop rc { fr with retryC := some 0 } (fun fr => invokeStep fr body callee) fuel
      | none => invokeStep fr body callee)) := fun fr => runConditional_rel G d _ (hret fr)
  have hloop : ∀ fr, Pres R (foreachOrConditional d fr (fun fr => runConditional d (match d.retry with
      | some rc => retryLoop rc { fr with retryC := some 0 } (fun fr => invokeStep fr body callee) fuel
      | none => invokeStep fr body callee))) := fun fr => foreachOrConditional_rel G d fr _ hcond
  unfold runStepWith
  simp only []
  have h0 : R s (setIn d s) := rel_setIn G d s
  apply rel_unsetIn_tail G
  split
  · exact G.trans h0 (whileLoop_rel G _ _ _ fuel hloop (setIn d s))
  · exact G.trans h0 (hloop {} (setIn d s))

/-- the whole of `Step.run_step` (the `description` notification included) -/
theorem runStepDescribed_rel (G : GlobalRel R) (d : StepDef) (body : Body) (callee : CofCfg → Body) (fuel : Nat)
    (hb : Pres R body) (hc : ∀ c, Pres R (callee c)) : Pres R (runStepDescribed d body callee fuel) := by
  intro s
  unfold runStepDescribed
  split
  · exact rel_raiseExc G _ _
  · split
    · exact G.trans (rel_setIn G d s) (rel_raiseExc G _ _)
    · exact runStepWith_rel G d body callee fuel hb hc s

/-! ### primitive step bodies -/

theorem cofStep_rel (G : GlobalRel R) (key : String) (isCall : Bool) : Pres R (cofStep key isCall) := by
  intro s
  unfold cofStep
  repeat' split
  all_goals first
    | exact G.refl _
    | exact rel_raiseExc G _ _
    | exact rel_raiseNew G _ _ _

theorem switchScan_rel (G : GlobalRel R) (s : St) (original : Val) :
    ∀ (cases : List Val) (idx : Nat), R s (switchScan s original cases idx).1 := by
  intro cases
  induction cases with
  | nil => intro idx; exact G.refl _
  | cons c rest ih =>
    intro idx
    unfold switchScan
    repeat' split
    all_goals first
      | exact G.refl _
      | exact ih _
      | exact rel_raiseExc G _ _
      | exact rel_raiseNew G _ _ _

theorem switchStep_rel (G : GlobalRel R) : Pres R switchStep := by
  intro s
  unfold switchStep
  repeat' split
  all_goals first
    | exact switchScan_rel G _ _ _ _
    | exact rel_raiseNew G _ _ _

theorem setFold_rel (G : GlobalRel R) : ∀ (kvs : List (Val × Val)) (s : St), R s (setFold s kvs).1 := by
  intro kvs
  induction kvs with
  | nil => intro s; exact G.refl _
  | cons kv rest ih =>
    intro s
    obtain ⟨k, v⟩ := kv
    unfold setFold
    repeat' split
    all_goals first
      | exact rel_raiseExc G _ _
      | exact rel_raiseNew G _ _ _
      | exact G.trans (rel_ctx G _ _) (ih _)

theorem setStep_rel (G : GlobalRel R) : Pres R setStep := by
  intro s
  unfold setStep
  repeat' split
  all_goals first
    | exact rel_raiseNew G _ _ _
    | exact G.trans (rel_ctx G _ _) (setFold_rel G _ _)
    | exact G.trans (rel_ctx G s (Ctx.erase s.ctx "set")) (rel_raiseNew G _ _ _)

theorem contextClearStep_rel (G : GlobalRel R) : Pres R contextClearStep := by
  intro s
  unfold contextClearStep
  repeat' split
  all_goals first
    | exact rel_raiseNew G _ _ _
    | exact rel_ctx G _ _

theorem contextClearAllStep_rel (G : GlobalRel R) : Pres R contextClearAllStep :=
  fun s => rel_ctx G s []

theorem rel_emit_ctx (G : GlobalRel R) (s : St) (ev : Event) (cx : Ctx) :
    R s { s with ctx := cx, trace := s.trace ++ [ev] } :=
  G.trans (G.emit s ev) (by frame_tac G)

theorem probeStep_rel (G : GlobalRel R) : Pres R probeStep := by
  intro s
  unfold probeStep
  split
  · simp only []
    generalize hS : St.mk _ s.stack (s.trace ++ [_]) s.sleeps s.nextExc s.rnd s.ood s.escapes s.defaultBackoff = S1
    have h1 : R s S1 := by rw [← hS]; exact rel_emit_ctx G s _ _
    clear hS
    repeat' split
    all_goals first
      | exact h1
      | (refine G.trans h1 ?_; frame_tac G)
  · exact rel_raiseNew G _ _ _

/-! ### pipeline preparation, `out` -/

theorem prepareContext_rel (G : GlobalRel R) (pd : PipeDef) (pi : PipeInst) (s : St) :
    R s (prepareContext pd pi s).1 := by
  unfold prepareContext
  repeat' split
  all_goals first
    | exact G.refl _
    | exact rel_raiseNew G _ _ _
    | exact rel_ctx G _ _

theorem writeOut_fold_rel (G : GlobalRel R) (child : St) :
    ∀ (ps : List (String × String)) (acc : St × Res) (a : St), R a acc.1 →
      R a (ps.foldl (fun (acc : St × Res) (x : String × String) =>
        match acc with
        | (p, .ok) =>
          match Ctx.get? child.ctx x.2 with
          | none => raiseNew p "pypyr.errors.KeyNotInContextError" (x.2 ++ " not found in the pypyr context.")
          | some v =>
            match fmtAtKey child v with
            | .error e => raiseExc p e
            | .ok fv => ({ p with ctx := Ctx.set p.ctx x.1 fv }, .ok)
        | other => other) acc).1 := by
  intro ps
  induction ps with
  | nil => intro acc a h; exact h
  | cons x rest ih =>
    intro acc a h
    simp only [List.foldl_cons]
    apply ih
    obtain ⟨p, r⟩ := acc
    cases r <;> simp only [] <;> try exact h
    repeat' split
    all_goals first
      | exact G.trans h (rel_raiseNew G _ _ _)
      | exact G.trans h (rel_raiseExc G _ _)
      | exact G.trans h (rel_ctx G _ _)

theorem writeOut_rel (G : GlobalRel R) (out : Val) (parent child : St) :
    R parent (writeOut out parent child).1 := by
  unfold writeOut
  simp only []
  split
  · exact rel_raiseNew G _ _ _
  · exact writeOut_fold_rel G child _ _ _ (G.refl _)

end Pypyr.Flow
