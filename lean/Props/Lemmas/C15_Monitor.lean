/-
  C15 helper lemmas: the model's final directory satisfies the monitor `judge` (the property
  statement as a decidable predicate).
-/
import Props.Lemmas.C15_Multi

namespace Pypyr.FsRewrite

theorem eq_of_src_eq {J : List Job} (hnd : (J.map (·.src)).Nodup) {a b : Job} (ha : a ∈ J) (hb : b ∈ J)
    (h : a.src = b.src) : a = b := by
  induction J with
  | nil => simp at ha
  | cons x xs ih =>
    simp only [List.map_cons, List.nodup_cons] at hnd
    rcases List.mem_cons.mp ha with rfl | ha' <;> rcases List.mem_cons.mp hb with rfl | hb'
    · rfl
    · exact absurd (List.mem_map.mpr ⟨b, hb', h.symm⟩) hnd.1
    · exact absurd (List.mem_map.mpr ⟨a, ha', h⟩) hnd.1
    · exact ih hnd.2 ha' hb'

theorem contains_of_mem_names {fs : Fs} {p : String} (h : p ∈ fs.names) : fs.contains p = true := by
  cases hx : fs.get? p with
  | none => exact absurd h (Fs.get?_eq_none_iff_not_mem.mp hx)
  | some c => simp [Fs.contains, hx]

theorem mem_names_of_isSome {fs : Fs} {p : String} (h : (fs.get? p).isSome) : p ∈ fs.names := by
  cases hx : fs.get? p with
  | none => simp [hx] at h
  | some c =>
    have : ¬ (fs.get? p = none) := by simp [hx]
    exact Classical.not_not.mp (fun hn => this (Fs.get?_eq_none_iff_not_mem.mpr hn))

theorem lastNew_map (J : List Job) (p : String) :
    lastNew (J.map fun j => (j.src, newContent j.body)) p = (lastJob J p).map fun j => newContent j.body := by
  simp only [lastNew, lastJob, ← List.map_reverse, List.find?_map, Option.map_map]
  rfl

/-- What the model's final directory satisfies under EVERY fault plan (a failing clean-up included), every
    `except` arrangement `cfg`, and for every list of in-place jobs (sources may repeat): all
    clauses of the monitor except `noExtra`, and `onlyTempExtra` in its place. -/
structure JudgeFacts (fs0 : Fs) (J : List Job) (r : Outcome × Trace) : Prop where
  srcWhole : (judge fs0 (final fs0 r.2) (J.map fun j => (j.src, newContent j.body)) r.1.toEnd).srcWhole = true
  okAllNew : (judge fs0 (final fs0 r.2) (J.map fun j => (j.src, newContent j.body)) r.1.toEnd).okAllNew = true
  noneMissing : (judge fs0 (final fs0 r.2) (J.map fun j => (j.src, newContent j.body)) r.1.toEnd).noneMissing = true
  unmatchedSame : (judge fs0 (final fs0 r.2) (J.map fun j => (j.src, newContent j.body)) r.1.toEnd).unmatchedSame = true
  onlyTempExtra : (judge fs0 (final fs0 r.2) (J.map fun j => (j.src, newContent j.body)) r.1.toEnd).onlyTempExtra = true
  namesOk : NamesOk fs0 J (final fs0 r.2)

theorem judge_facts {fs0 : Fs} {J : List Job} (wf : JobsWF fs0 J)
    (hnames : fs0.names.Nodup) (htmp : ∀ j ∈ J, isTempName j.tmp = true)
    (cfg : Cfg) (plan : Plan) (i : Nat) : JudgeFacts fs0 J (runJobs cfg plan i fs0 J) := by
  have M := runJobs_post cfg plan wf J (fun _ h => h) i fs0 (fun p _ => Or.inl rfl) rfl
  generalize hr : runJobs cfg plan i fs0 J = r at M
  -- facts about the final directory
  have hfin := final_mem_or fs0 r.2
  have hW : Whole fs0 J (final fs0 r.2) := by
    rcases hfin with h | ⟨ev, hm, he⟩
    · rw [h]; exact fun p _ => Or.inl rfl
    · rw [← he]; exact M.whole ev hm
  have hN : NamesOk fs0 J (final fs0 r.2) := by
    rcases hfin with h | ⟨ev, hm, he⟩
    · rw [h]; exact Or.inl rfl
    · rw [← he]; exact M.names ev hm
  have hF : ∀ p, (∀ j ∈ J, p ≠ j.src) → (∀ j ∈ J, p ≠ j.tmp) → (final fs0 r.2).get? p = fs0.get? p := by
    intro p h1 h2
    rcases hfin with h | ⟨ev, hm, he⟩
    · rw [h]
    · rw [← he]; exact M.frame p h1 h2 ev hm
  have hsrc_ne_tmp : ∀ j ∈ J, ∀ j' ∈ J, j.src ≠ j'.tmp := by
    intro j hj j' hj' he
    have h1 := wf.srcExists j hj
    rw [he, wf.tmpFresh j' hj'] at h1
    cases h1
  refine ⟨?_, ?_, ?_, ?_, ?_, hN⟩
  · -- srcWhole
    simp only [judge]
    rw [List.all_eq_true]
    intro x hx
    obtain ⟨j, hj, rfl⟩ := List.mem_map.mp hx
    simp only []
    rcases hW j.src (fun j' hj' => hsrc_ne_tmp j hj j' hj') with h | ⟨j', hj', hs, h⟩
    · have hs := wf.srcExists j hj
      cases hc : fs0.get? j.src with
      | none => simp [hc] at hs
      | some c => simp [h, hc]
    · rw [h]
      simp only [Bool.or_eq_true, List.any_eq_true]
      right
      exact ⟨(j'.src, newContent j'.body), List.mem_map.mpr ⟨j', hj', rfl⟩, by simp [hs]⟩
  · -- okAllNew
    simp only [judge]
    cases ho : r.1 with
    | ok =>
      have := (M.ok ho).2
      simp only [Outcome.toEnd, bne_self_eq_false, Bool.false_or]
      rw [List.all_eq_true]
      intro x hx
      obtain ⟨j, hj, rfl⟩ := List.mem_map.mp hx
      obtain ⟨j', hl⟩ := lastJob_isSome hj
      simp only [lastNew_map, hl, Option.map_some]
      simp [this j.src j' hl]
    | raised k => simp [Outcome.toEnd]
    | killed k => simp [Outcome.toEnd]
  · -- noneMissing
    simp only [judge]
    rw [List.all_eq_true]
    intro p hp
    apply contains_of_mem_names
    rcases hN with h | ⟨j, _, h⟩
    · rw [h]; exact hp
    · rw [h]; exact List.mem_append_left _ hp
  · -- unmatchedSame
    simp only [judge]
    rw [List.all_eq_true]
    intro x hx
    obtain ⟨p, c⟩ := x
    have hg : fs0.get? p = some c := Fs.get?_of_mem_nodup hnames hx
    simp only [Bool.or_eq_true, List.any_eq_true]
    by_cases hps : ∃ j ∈ J, j.src = p
    · obtain ⟨j, hj, hjp⟩ := hps
      left
      exact ⟨(j.src, newContent j.body), List.mem_map.mpr ⟨j, hj, rfl⟩, by simp [hjp]⟩
    · right
      have h1 : ∀ j ∈ J, p ≠ j.src := fun j hj he => hps ⟨j, hj, he.symm⟩
      have h2 : ∀ j ∈ J, p ≠ j.tmp := by
        intro j hj he
        rw [he, wf.tmpFresh j hj] at hg
        cases hg
      simp [hF p h1 h2, hg]
  · -- onlyTempExtra
    simp only [judge]
    rw [List.all_eq_true]
    intro p hp
    rcases hN with h | ⟨j, hj, h⟩
    · rw [h] at hp
      simp [contains_of_mem_names hp]
    · rw [h] at hp
      rcases List.mem_append.mp hp with hp | hp
      · simp [contains_of_mem_names hp]
      · simp only [List.mem_singleton] at hp
        subst hp
        simp [htmp j hj]

/-- Under every plan: everything but "no temporary file left behind". -/
theorem judge_model_dirty {fs0 : Fs} {J : List Job} (wf : JobsWF fs0 J)
    (hnames : fs0.names.Nodup) (htmp : ∀ j ∈ J, isTempName j.tmp = true)
    (cfg : Cfg) (plan : Plan) (i : Nat) :
    (judge fs0 (final fs0 (runJobs cfg plan i fs0 J).2)
      (J.map fun j => (j.src, newContent j.body)) (runJobs cfg plan i fs0 J).1.toEnd).holdsDirty = true := by
  have F := judge_facts wf hnames htmp cfg plan i
  simp only [Verdict.holdsDirty, Bool.and_eq_true]
  exact ⟨⟨⟨⟨F.srcWhole, F.okAllNew⟩, F.onlyTempExtra⟩, F.noneMissing⟩, F.unmatchedSame⟩

/-- The full statement, for the code as it is now, whenever the clean-up itself did not fail (no
    `removeTemp!` event) — Exceptions, BaseExceptions, kills and failing closes of either file, in any number. -/
theorem judge_model {fs0 : Fs} {J : List Job} (wf : JobsWF fs0 J)
    (hnames : fs0.names.Nodup) (htmp : ∀ j ∈ J, isTempName j.tmp = true)
    (plan : Plan) (i : Nat) (hrm : ∀ ev ∈ (runJobs {} plan i fs0 J).2, ev.1 ≠ "removeTemp!") :
    (judge fs0 (final fs0 (runJobs {} plan i fs0 J).2)
      (J.map fun j => (j.src, newContent j.body)) (runJobs {} plan i fs0 J).1.toEnd).holds = true := by
  have F := judge_facts wf hnames htmp {} plan i
  have M := runJobs_post {} plan wf J (fun _ h => h) i fs0 (fun p _ => Or.inl rfl) rfl
  generalize hr : runJobs {} plan i fs0 J = r at M F hrm
  simp only [Verdict.holds, Bool.and_eq_true]
  refine ⟨⟨⟨⟨F.srcWhole, F.okAllNew⟩, ?_⟩, F.noneMissing⟩, F.unmatchedSame⟩
  -- noExtra
  simp only [judge]
  rw [List.all_eq_true]
  intro p hp
  have hcase : (final fs0 r.2).names = fs0.names ∨
      (∃ k, r.1 = .killed k) ∧ ∃ j ∈ J, (final fs0 r.2).names = fs0.names ++ [j.tmp] := by
    cases ho : r.1 with
    | ok => exact Or.inl (M.ok ho).1
    | raised k => exact Or.inl (M.raised k ho rfl rfl rfl hrm)
    | killed k =>
      rcases M.killed k ho with h | h
      · exact Or.inl h
      · exact Or.inr ⟨⟨k, rfl⟩, h⟩
  rcases hcase with h | ⟨⟨k, hk⟩, j, hj, h⟩
  · rw [h] at hp
    simp [contains_of_mem_names hp]
  · rw [h] at hp
    rcases List.mem_append.mp hp with hp | hp
    · simp [contains_of_mem_names hp]
    · simp only [List.mem_singleton] at hp
      subst hp
      simp [hk, Outcome.toEnd, htmp j hj]

end Pypyr.FsRewrite
