/-
  C07 helper lemmas: relations between "state before" and "state after" that only look at a set
  `W` of watched context keys (for C07: `runErrors`), carried through every decorator layer of
  `Layers.lean` for arbitrary inner bodies.

  Instances: `sameRE` (the `runErrors` value is unchanged — "records nothing") and `prefixRE`
  (the old `runErrors` list is a prefix of the new one — "append only").
-/
import Props.Lemmas.C07_Save

namespace Pypyr.C07
open Pypyr Pypyr.Flow Pypyr.C04

/-- A relation between the state before and the state after a piece of execution that is
    transitive and holds whenever the watched keys `W` have the same values in both and the ghost log
    of escapes is the same; the three loop counters are not watched. -/
structure CtxRel (W : List String) (R : St → St → Prop) : Prop where
  trans : ∀ {a b c}, R a b → R b c → R a c
  same : ∀ (a b : St), (∀ k, k ∈ W → Ctx.get? b.ctx k = Ctx.get? a.ctx k) → b.escapes = a.escapes → R a b
  noRetry : "retryCounter" ∉ W
  noI : "i" ∉ W
  noWhile : "whileCounter" ∉ W

/-- the body relates every input state to its output state. -/
def Keeps (R : St → St → Prop) (b : Body) : Prop := ∀ s, R s (b s).1

variable {W : List String} {R : St → St → Prop}

theorem CtxRel.refl (G : CtxRel W R) (s : St) : R s s := G.same s s (fun _ _ => rfl) rfl

theorem rel_sameCtx (G : CtxRel W R) (a b : St) (h : b.ctx = a.ctx) (he : b.escapes = a.escapes) : R a b :=
  G.same a b (fun _ _ => by rw [h]) he

theorem rel_set (G : CtxRel W R) (s : St) (k : String) (v : Val) (hk : k ∉ W) :
    R s { s with ctx := Ctx.set s.ctx k v } :=
  G.same _ _ (fun _ hk' => ctx_get_set_ne _ _ _ _ (fun e => hk (e ▸ hk'))) rfl

theorem rel_raiseNew (G : CtxRel W R) (s : St) (n m : String) : R s (raiseNew s n m).1 :=
  rel_sameCtx G _ _ rfl rfl

theorem rel_raiseExc (G : CtxRel W R) (s : St) (e : Exc) : R s (raiseExc s e).1 :=
  rel_sameCtx G _ _ rfl rfl

theorem rel_resetCounters (G : CtxRel W R) (fr : Frame) (c : CofCfg) (s : St) (hkey : c.key ∉ W) :
    R s (resetCounters fr c s) := by
  refine G.same _ _ ?_ rfl
  intro k hk
  have hset : ∀ (cx : Ctx) (k' : String) (v : Val), k' ∉ W →
      Ctx.get? (Ctx.set cx k' v) k = Ctx.get? cx k :=
    fun cx k' v hn => ctx_get_set_ne cx k k' v (fun e => hn (e ▸ hk))
  unfold resetCounters
  simp only []
  cases fr.whileC <;> cases fr.forI <;> cases fr.retryC <;> simp only [] <;>
    split <;> simp [hset, hkey, G.noRetry, G.noI, G.noWhile]

theorem rel_resetLoopCounters (G : CtxRel W R) (fr : Frame) (s : St) : R s (resetLoopCounters fr s) := by
  refine G.same _ _ ?_ rfl
  intro k hk
  have hset : ∀ (cx : Ctx) (k' : String) (v : Val), k' ∉ W →
      Ctx.get? (Ctx.set cx k' v) k = Ctx.get? cx k :=
    fun cx k' v hn => ctx_get_set_ne cx k k' v (fun e => hn (e ▸ hk))
  unfold resetLoopCounters
  simp only []
  cases fr.whileC <;> cases fr.forI <;> cases fr.retryC <;> simp [hset, G.noRetry, G.noI, G.noWhile]

/-- an error that is already handled is not logged: the ghost log is untouched. -/
theorem logEscape_handled (d : StepDef) (s1 : St) (e : ExcV) : logEscape d s1 e true = s1 := by
  simp [logEscape]

/-! ### invoke_step -/

theorem invokeStep_keeps (G : CtxRel W R) (fr : Frame) (body : Body) (callee : CofCfg → Body)
    (hb : Keeps R body) (hc : ∀ c, Keeps R (callee c))
    (hkey : ∀ s s1 c, body s = (s1, .call c) → c.key ∉ W) :
    Keeps R (invokeStep fr body callee) := by
  intro s
  unfold invokeStep
  generalize hbs : body s = p
  obtain ⟨s1, r⟩ := p
  have h1 : R s s1 := by have := hb s; rw [hbs] at this; exact this
  cases r with
  | call c =>
    simp only []
    generalize hcs : callee c s1 = q
    obtain ⟨s2, r2⟩ := q
    have h2 : R s1 s2 := by have := hc c s1; rw [hcs] at this; exact this
    have h3 : R s2 (resetCounters fr c s2) := rel_resetCounters G fr c s2 (hkey s s1 c hbs)
    have h4 : R s2 (raiseNew (resetLoopCounters fr s2) "AssertionError" "").1 :=
      G.trans (rel_resetLoopCounters G fr s2) (rel_raiseNew G _ _ _)
    split
    · cases r2 <;> exact G.trans h1 (G.trans h2 h3)
    · cases r2 <;> first | exact G.trans h1 (G.trans h2 h4) | exact G.trans h1 h2
  | _ => exact h1

/-! ### retry -/

theorem retryIter_keeps (G : CtxRel W R) (cfg : RetryCfg) (fr : Frame) (inner : Frame → Body)
    (max : Option Int) (hi : ∀ fr, Keeps R (inner fr)) :
    ∀ (fuel k : Nat) (bo : BackoffState), Keeps R (retryIter cfg fr inner max fuel k bo) := by
  intro fuel
  induction fuel with
  | zero => intro k bo s; exact G.refl _
  | succ n ih =>
    intro k bo s
    unfold retryIter
    simp only []
    generalize hin : inner { fr with retryC := some k } { s with ctx := Ctx.set s.ctx "retryCounter" (.int k) } = p
    obtain ⟨s1, r⟩ := p
    have h1 : R s s1 := by
      have := hi { fr with retryC := some k } { s with ctx := Ctx.set s.ctx "retryCounter" (.int k) }
      rw [hin] at this
      exact G.trans (rel_set G _ _ _ G.noRetry) this
    cases r with
    | err e handled =>
      simp only []
      repeat' split
      all_goals first
        | exact h1
        | exact G.trans h1 (rel_raiseExc G _ _)
        | exact G.trans h1 (rel_sameCtx G _ _ rfl rfl)
        | (refine G.trans h1 (G.trans ?_ (ih _ _ _)); exact rel_sameCtx G _ _ rfl rfl)
    | _ => exact h1

theorem retryFaulty_keeps (G : CtxRel W R) (cfg : RetryCfg) (fr : Frame) (inner : Frame → Body)
    (max : Option Int) (y : Bool) (hi : ∀ fr, Keeps R (inner fr)) : Keeps R (retryFaulty cfg fr inner max y) := by
  intro s
  unfold retryFaulty
  simp only []
  generalize hin : inner { fr with retryC := some 1 } { s with ctx := Ctx.set s.ctx "retryCounter" (.int 1) } = p
  obtain ⟨s1, r⟩ := p
  have h1 : R s s1 := by
    have := hi { fr with retryC := some 1 } { s with ctx := Ctx.set s.ctx "retryCounter" (.int 1) }
    rw [hin] at this
    exact G.trans (rel_set G _ _ _ G.noRetry) this
  cases r with
  | err e handled =>
    simp only []
    repeat' split
    all_goals first
      | exact h1
      | exact G.trans h1 (rel_raiseExc G _ _)
      | exact G.trans h1 (rel_raiseNew G _ _ _)
  | _ => exact h1

theorem retryLoop_keeps (G : CtxRel W R) (cfg : RetryCfg) (fr : Frame) (inner : Frame → Body) (fuel : Nat)
    (hi : ∀ fr, Keeps R (inner fr)) : Keeps R (retryLoop cfg fr inner fuel) := by
  intro s
  unfold retryLoop
  simp only []
  have h0 : R s { s with ctx := Ctx.set s.ctx "retryCounter" (.int 0) } := rel_set G _ _ _ G.noRetry
  repeat' split
  all_goals first
    | exact G.trans h0 (rel_raiseExc G _ _)
    | exact G.trans h0 (rel_raiseNew G _ _ _)
    | exact G.trans h0 (retryIter_keeps G cfg fr inner _ hi _ _ _ _)
    | exact G.trans h0 (retryFaulty_keeps G cfg fr inner _ _ hi _)
    | exact h0

/-! ### run / skip / swallow -/

/-- `hrec`: recording an escaped error (ghost log entry + `save_error`) when `swallow` formats;
    `hlogfail`: the escape is logged but `swallow` fails to format (nothing is saved, that error propagates). -/
theorem runConditional_keeps (G : CtxRel W R) (d : StepDef) (inner : Body)
    (hrec : ∀ s e sw, fmtB s d.swallow = .ok sw → R s (saveError d (logEscape d s e false) e sw).1)
    (hlogfail : ∀ s e x, fmtB s d.swallow = .error x → R s (logEscape d s e false))
    (hi : Keeps R inner) :
    Keeps R (runConditional d inner) := by
  intro s
  unfold runConditional
  split
  · exact rel_raiseExc G _ _
  · exact G.refl _
  · split
    · exact rel_raiseExc G _ _
    · exact G.refl _
    · simp only []
      generalize hin : inner s = p
      obtain ⟨s1, r⟩ := p
      have h1 : R s s1 := by have := hi s; rw [hin] at this; exact this
      cases r with
      | err e handled =>
        simp only []
        cases handled with
        | true =>
          rw [logEscape_handled]
          split
          · exact G.trans h1 (rel_raiseExc G _ _)
          · simp only [if_true]; split <;> exact h1
        | false =>
          simp only [Bool.false_eq_true, if_false]
          split
          · rename_i x hx
            rw [fmtB_logEscape] at hx
            exact G.trans h1 (G.trans (hlogfail s1 e x hx) (rel_raiseExc G _ _))
          · rename_i sw hsw
            rw [fmtB_logEscape] at hsw
            have h2 := hrec s1 e sw hsw
            generalize saveError d (logEscape d s1 e false) e sw = q at h2
            obtain ⟨s2, r2⟩ := q
            cases r2 <;> simp only [] <;> first
              | (split <;> exact G.trans h1 h2)
              | exact G.trans h1 h2
      | _ => exact h1

/-! ### foreach -/

theorem foreachItems_keeps (G : CtxRel W R) (fr : Frame) (inner : Frame → Body) (hi : ∀ fr, Keeps R (inner fr)) :
    ∀ items : List Val, Keeps R (foreachItems fr inner items) := by
  intro items
  induction items with
  | nil => intro s; exact G.refl _
  | cons x rest ih =>
    intro s
    unfold foreachItems
    simp only []
    generalize hin : inner { fr with forI := some x } { s with ctx := Ctx.set s.ctx "i" x } = p
    obtain ⟨s1, r⟩ := p
    have h1 : R s s1 := by
      have := hi { fr with forI := some x } { s with ctx := Ctx.set s.ctx "i" x }
      rw [hin] at this
      exact G.trans (rel_set G _ _ _ G.noI) this
    cases r with
    | ok => exact G.trans h1 (ih s1)
    | _ => exact h1

theorem foreachLoop_keeps (G : CtxRel W R) (raw : Val) (fr : Frame) (inner : Frame → Body)
    (hi : ∀ fr, Keeps R (inner fr)) : Keeps R (foreachLoop raw fr inner) := by
  intro s
  unfold foreachLoop
  repeat' split
  all_goals first
    | exact rel_raiseExc G _ _
    | exact foreachItems_keeps G fr inner hi _ _

theorem foreachOrConditional_keeps (G : CtxRel W R) (d : StepDef) (fr : Frame) (inner : Frame → Body)
    (hi : ∀ fr, Keeps R (inner fr)) : Keeps R (foreachOrConditional d fr inner) := by
  unfold foreachOrConditional
  split
  · split
    · exact foreachLoop_keeps G _ fr inner hi
    · exact hi fr
  · exact hi fr

/-! ### while -/

theorem whileIter_keeps (G : CtxRel W R) (cfg : WhileCfg) (fr : Frame) (inner : Frame → Body) (max : Option Nat)
    (sleep : Num) (eom : Bool) (hi : ∀ fr, Keeps R (inner fr)) :
    ∀ (fuel k : Nat), Keeps R (whileIter cfg fr inner max sleep eom fuel k) := by
  intro fuel
  induction fuel with
  | zero => intro k s; exact G.refl _
  | succ n ih =>
    intro k s
    unfold whileIter
    simp only []
    generalize hin : inner { fr with whileC := some k } { s with ctx := Ctx.set s.ctx "whileCounter" (.int k) } = p
    obtain ⟨s1, r⟩ := p
    have h1 : R s s1 := by
      have := hi { fr with whileC := some k } { s with ctx := Ctx.set s.ctx "whileCounter" (.int k) }
      rw [hin] at this
      exact G.trans (rel_set G _ _ _ G.noWhile) this
    cases r with
    | ok =>
      simp only []
      repeat' split
      all_goals first
        | exact h1
        | exact G.trans h1 (rel_raiseExc G _ _)
        | exact G.trans h1 (rel_raiseNew G _ _ _)
        | (refine G.trans h1 (G.trans ?_ (ih _ _)); exact rel_sameCtx G _ _ rfl rfl)
    | _ => exact h1

theorem whileLoop_keeps (G : CtxRel W R) (cfg : WhileCfg) (fr : Frame) (inner : Frame → Body) (fuel : Nat)
    (hi : ∀ fr, Keeps R (inner fr)) : Keeps R (whileLoop cfg fr inner fuel) := by
  intro s
  unfold whileLoop
  simp only []
  have h0 : R s { s with ctx := Ctx.set s.ctx "whileCounter" (.int 0) } := rel_set G _ _ _ G.noWhile
  repeat' split
  all_goals first
    | exact h0
    | exact G.trans h0 (rel_raiseExc G _ _)
    | exact G.trans h0 (rel_raiseNew G _ _ _)
    | exact G.trans h0 (whileIter_keeps G cfg fr inner _ _ _ hi _ _ _)

/-! ### the whole decorated step -/

theorem stepCore_keeps (G : CtxRel W R) (d : StepDef) (body : Body) (callee : CofCfg → Body) (fuel : Nat)
    (hrec : ∀ s e sw, fmtB s d.swallow = .ok sw → R s (saveError d (logEscape d s e false) e sw).1)
    (hlogfail : ∀ s e x, fmtB s d.swallow = .error x → R s (logEscape d s e false))
    (hb : Keeps R body) (hc : ∀ c, Keeps R (callee c))
    (hkey : ∀ s s1 c, body s = (s1, .call c) → c.key ∉ W) :
    Keeps R (stepCore d body callee fuel) := by
  have hinv : ∀ fr, Keeps R (fun s => invokeStep fr body callee s) :=
    fun fr => invokeStep_keeps G fr body callee hb hc hkey
  have hret : ∀ fr, Keeps R (retriedLayer d body callee fuel fr) := by
    intro fr
    unfold retriedLayer
    split
    · exact retryLoop_keeps G _ _ _ _ hinv
    · exact hinv fr
  have hcond : ∀ fr, Keeps R (conditionalLayer d body callee fuel fr) :=
    fun fr => runConditional_keeps G d _ hrec hlogfail (hret fr)
  have hloop : ∀ fr, Keeps R (foreachLayer d body callee fuel fr) :=
    fun fr => foreachOrConditional_keeps G d fr _ hcond
  unfold stepCore
  split
  · exact whileLoop_keeps G _ _ _ _ hloop
  · exact hloop {}

theorem runStepWith_keeps (G : CtxRel W R) (d : StepDef) (body : Body) (callee : CofCfg → Body) (fuel : Nat)
    (hrec : ∀ s e sw, fmtB s d.swallow = .ok sw → R s (saveError d (logEscape d s e false) e sw).1)
    (hlogfail : ∀ s e x, fmtB s d.swallow = .error x → R s (logEscape d s e false))
    (hb : Keeps R body) (hc : ∀ c, Keeps R (callee c))
    (hkey : ∀ s s1 c, body s = (s1, .call c) → c.key ∉ W)
    (hin : ∀ s, R s (setIn d s)) (hout : ∀ s, R s (unsetIn d s)) :
    Keeps R (runStepWith d body callee fuel) := by
  intro s
  rw [runStepWith_eq]
  have h1 := stepCore_keeps G d body callee fuel hrec hlogfail hb hc hkey (setIn d s)
  generalize stepCore d body callee fuel (setIn d s) = p at h1
  obtain ⟨s1, r⟩ := p
  cases r with
  | ok => exact G.trans (hin s) (G.trans h1 (hout s1))
  | _ => exact G.trans (hin s) h1

/-- the whole of `Step.run_step`, the `description` notification included: an error formatting the
    description is raised from the state with the `in` arguments set, nothing else touched. -/
theorem runStepDescribed_keeps (G : CtxRel W R) (d : StepDef) (body : Body) (callee : CofCfg → Body) (fuel : Nat)
    (hrec : ∀ s e sw, fmtB s d.swallow = .ok sw → R s (saveError d (logEscape d s e false) e sw).1)
    (hlogfail : ∀ s e x, fmtB s d.swallow = .error x → R s (logEscape d s e false))
    (hb : Keeps R body) (hc : ∀ c, Keeps R (callee c))
    (hkey : ∀ s s1 c, body s = (s1, .call c) → c.key ∉ W)
    (hin : ∀ s, R s (setIn d s)) (hout : ∀ s, R s (unsetIn d s)) :
    Keeps R (runStepDescribed d body callee fuel) := by
  intro s
  unfold runStepDescribed
  split
  · exact rel_raiseExc G _ _
  · split
    · exact G.trans (hin s) (rel_raiseExc G _ _)
    · exact runStepWith_keeps G d body callee fuel hrec hlogfail hb hc hkey hin hout s

/-! ### the two instances for `runErrors` -/

/-- "the `runErrors` value is untouched". -/
def SameRE (a b : St) : Prop := Ctx.get? b.ctx "runErrors" = Ctx.get? a.ctx "runErrors"

theorem sameRE : CtxRel ["runErrors"] SameRE where
  trans := fun h1 h2 => h2.trans h1
  same := fun _ _ h _ => h "runErrors" (by simp)
  noRetry := by decide
  noI := by decide
  noWhile := by decide

/-- "the old `runErrors` list is a prefix of the new one" (entries are only ever appended). -/
def PrefixRE (a b : St) : Prop := runErrorsOf a <+: runErrorsOf b

theorem prefixRE : CtxRel ["runErrors"] PrefixRE where
  trans := fun h1 h2 => List.IsPrefix.trans h1 h2
  same := fun a b h _ => by
    unfold PrefixRE
    rw [runErrorsOf_congr a b (h "runErrors" (by simp))]
    exact List.prefix_refl _
  noRetry := by decide
  noI := by decide
  noWhile := by decide

theorem saveError_prefix (d : StepDef) (s : St) (e : ExcV) (sw : Bool) :
    PrefixRE s (saveError d s e sw).1 := by
  unfold PrefixRE
  rcases saveError_ctx d s e sw with h | ⟨ent, h⟩
  · have e1 := runErrorsOf_congr s (saveError d s e sw).1 (by rw [h])
    rw [e1]; exact List.prefix_refl _
  · have : runErrorsOf (saveError d s e sw).1 = runErrorsOf s ++ [ent] := by
      unfold runErrorsOf; rw [h, ctx_get_set_self]; rfl
    rw [this]
    exact List.prefix_append _ _

/-- recording (ghost log entry + `save_error`) only appends to `runErrors`; logging alone leaves it. -/
theorem record_prefix (d : StepDef) (s : St) (e : ExcV) (sw : Bool) :
    PrefixRE s (saveError d (logEscape d s e false) e sw).1 := by
  have h := saveError_prefix d (logEscape d s e false) e sw
  unfold PrefixRE at h ⊢
  rw [runErrorsOf_logEscape] at h
  exact h

theorem log_prefix (d : StepDef) (s : St) (e : ExcV) : PrefixRE s (logEscape d s e false) := by
  unfold PrefixRE; rw [runErrorsOf_logEscape]; exact List.prefix_refl _

end Pypyr.C07
