/-
  C16: the JSON printer/parser round trip for the model in `PypyrModel/Codec.lean` (`Codec.Json`).

    parse_print : isJson false d = true → parse (print d) = .ok d []
    isJson_mono : isJson false d = true → isJson true d = true

  `isJson flt`: objects with pairwise distinct string keys, arrays, strings, ints, bools, null, and
  floats iff `flt`. The round trip is proved on the float-free domain (`flt = false`); the codec's
  encoder accepts the float-allowed one (`flt = true`), hence `isJson_mono`.

  Shape of the proof: the generalised statement
    `pValue fuel (pr lvl d ++ rest) = .ok d rest`
  for every nesting level, every continuation `rest` that does not continue a number (`okTail`), and
  every fuel larger than the length of the printed text (which is what `parse` supplies), by mutual
  structural recursion mirroring the printer's `pr / prArr / prElems / prObj / prMembers`.
  Lexical level (strings, integers, indentation): `Props/Lemmas/C16_JsonLex.lean`.
-/
import Props.Lemmas.C16_JsonLex
import Props.Lemmas.C16_Doc

namespace Pypyr.Codec.Json

/-! ### The float-free domain is inside the float-allowed one -/

mutual
theorem isJson_mono : ∀ (d : Val), isJson false d = true → isJson true d = true
  | .none, _ => by simp [isJson]
  | .bool _, _ => by simp [isJson]
  | .int _, _ => by simp [isJson]
  | .flt _ _, _ => by simp [isJson]
  | .str _, _ => by simp [isJson]
  | .list xs, h => by
    simp only [isJson] at h ⊢
    exact isJsonList_mono xs h
  | .dict kvs, h => by
    simp only [isJson] at h ⊢
    exact isJsonPairs_mono kvs h
  | .bytes _, h => by simp [isJson] at h
  | .tuple _, h => by simp [isJson] at h
  | .set _, h => by simp [isJson] at h
  | .sic _, h => by simp [isJson] at h
  | .py _, h => by simp [isJson] at h
  | .jsonify _, h => by simp [isJson] at h
  | .obj _, h => by simp [isJson] at h
theorem isJsonList_mono : ∀ (xs : List Val), isJsonList false xs = true → isJsonList true xs = true
  | [], _ => by simp [isJsonList]
  | x :: xs, h => by
    simp only [isJsonList, Bool.and_eq_true] at h ⊢
    exact ⟨isJson_mono x h.1, isJsonList_mono xs h.2⟩
theorem isJsonPairs_mono : ∀ (kvs : List (Val × Val)), isJsonPairs false kvs = true → isJsonPairs true kvs = true
  | [], _ => by simp [isJsonPairs]
  | (k, v) :: rest, h => by
    simp only [isJsonPairs, Bool.and_eq_true] at h ⊢
    exact ⟨⟨h.1.1, isJson_mono v h.1.2⟩, isJsonPairs_mono rest h.2⟩
end

/-! ### Distinct keys: `rebuildDict` (Python's `dict(pairs)`) gives the pairs back -/

theorem keyIn_false (k : Val) : ∀ (kvs : List (Val × Val)), keyIn k kvs = false → k ∉ keysOf kvs
  | [], _ => by simp [keysOf]
  | (k', v) :: rest, h => by
    simp only [keyIn, Bool.or_eq_false_iff, beq_eq_false_iff_ne, ne_eq] at h
    simp only [keysOf, List.map_cons, List.mem_cons, not_or]
    exact ⟨fun e => h.1 e.symm, keyIn_false k rest h.2⟩

theorem isJsonPairs_nodup (flt : Bool) : ∀ (kvs : List (Val × Val)), isJsonPairs flt kvs = true →
    (keysOf kvs).Nodup
  | [], _ => by simp [keysOf]
  | (k, v) :: rest, h => by
    simp only [isJsonPairs, Bool.and_eq_true, Bool.not_eq_true'] at h
    simp only [keysOf, List.map_cons, List.nodup_cons]
    exact ⟨keyIn_false k rest h.1.1.2, isJsonPairs_nodup flt rest h.2⟩

/-! ### First characters -/

theorem isDigit_not_ws (c : Char) (h : c.isDigit = true) : isWs c = false := by
  cases hw : isWs c with
  | false => rfl
  | true =>
    simp only [isWs, Bool.or_eq_true, decide_eq_true_eq] at hw
    rcases hw with ((hw | hw) | hw) | hw <;> subst hw <;> simp at h

theorem isDigit_ne (c d : Char) (h : c.isDigit = true) (hd : d.isDigit = false) : c ≠ d := by
  intro e; subst e; simp [h] at hd

theorem prInt_head (i : Int) : ∃ c r, prInt i = c :: r ∧ isWs c = false ∧ c ≠ ']' := by
  obtain ⟨c, ds, he, hc⟩ := natDigits_head i.natAbs
  unfold prInt
  split
  · exact ⟨'-', _, rfl, by decide, by decide⟩
  · exact ⟨c, ds, he, isDigit_not_ws c hc, isDigit_ne c ']' hc (by decide)⟩

/-- A printed value starts with a character that is neither whitespace nor `]`. -/
theorem pr_head (lvl : Nat) (d : Val) (h : isJson false d = true) :
    ∃ c r, pr lvl d = c :: r ∧ isWs c = false ∧ c ≠ ']' := by
  cases d with
  | none => exact ⟨_, _, rfl, by decide, by decide⟩
  | bool b => cases b <;> exact ⟨_, _, rfl, by decide, by decide⟩
  | int i => simpa [pr] using prInt_head i
  | flt n k => simp [isJson] at h
  | str s => exact ⟨'"', _, rfl, by decide, by decide⟩
  | list xs => cases xs <;> exact ⟨'[', _, rfl, by decide, by decide⟩
  | dict kvs =>
    cases kvs with
    | nil => exact ⟨'{', _, rfl, by decide, by decide⟩
    | cons kv rest => obtain ⟨k, v⟩ := kv; exact ⟨'{', _, rfl, by decide, by decide⟩
  | bytes _ => simp [isJson] at h
  | tuple _ => simp [isJson] at h
  | set _ => simp [isJson] at h
  | sic _ => simp [isJson] at h
  | py _ => simp [isJson] at h
  | jsonify _ => simp [isJson] at h
  | obj _ => simp [isJson] at h

theorem okTail_prElems (lvl : Nat) (xs : List Val) (rest : List Char) : okTail (prElems lvl xs ++ rest) := by
  cases xs <;> simp [prElems, indentOf, okTail]

theorem okTail_prMembers (lvl : Nat) (kvs : List (Val × Val)) (rest : List Char) :
    okTail (prMembers lvl kvs ++ rest) := by
  cases kvs with
  | nil => simp [prMembers, indentOf, okTail]
  | cons kv r => obtain ⟨k, v⟩ := kv; simp [prMembers, okTail]

/-! ### One step of the parser on printed text (non-recursive; the recursive results are hypotheses) -/

theorem pValue_null (f : Nat) (rest : List Char) :
    pValue (f + 1) (['n', 'u', 'l', 'l'] ++ rest) = .ok .none rest := by
  simp [pValue, pLit, List.isPrefixOf]

theorem pValue_true (f : Nat) (rest : List Char) :
    pValue (f + 1) (['t', 'r', 'u', 'e'] ++ rest) = .ok (.bool true) rest := by
  simp [pValue, pLit, List.isPrefixOf]

theorem pValue_false (f : Nat) (rest : List Char) :
    pValue (f + 1) (['f', 'a', 'l', 's', 'e'] ++ rest) = .ok (.bool false) rest := by
  simp [pValue, pLit, List.isPrefixOf]

theorem pValue_str (f : Nat) (s : String) (rest : List Char) :
    pValue (f + 1) (prStr s ++ rest) = .ok (.str s) rest := by
  simp [pValue, prStr, pStr_escStr, String.ofList_toList]

theorem pValue_int (f : Nat) (i : Int) (rest : List Char) (ht : okTail rest) :
    pValue (f + 1) (prInt i ++ rest) = .ok (.int i) rest := by
  obtain ⟨c, ds, he, hc⟩ := natDigits_head i.natAbs
  have hnum := fun neg => pNumber_natDigits neg i.natAbs rest ht
  unfold prInt
  split
  · next hneg =>
    have hI : c ≠ 'I' := isDigit_ne c 'I' hc (by decide)
    have h1 := hnum true
    rw [he] at h1
    simp only [List.cons_append] at h1
    have hv : -(i.natAbs : Int) = i := by omega
    simp [pValue, he, List.isPrefixOf, hI.symm, h1, hv]
  · next hpos =>
    have h1 := hnum false
    rw [he] at h1 ⊢
    simp only [List.cons_append] at h1 ⊢
    have hv : (i.natAbs : Int) = i := by omega
    simp [pValue, hc, h1, hv]

theorem pValue_arr_nil (f lvl : Nat) (rest : List Char) :
    pValue (f + 1) (prArr lvl [] ++ rest) = .ok (.list []) rest := by
  simp [pValue, prArr, skipWs, isWs]

theorem pValue_arr_cons (f lvl : Nat) (x : Val) (xs : List Val) (rest : List Char)
    (hx : ∃ c r, pr (lvl + 1) x = c :: r ∧ isWs c = false ∧ c ≠ ']')
    (h1 : pValue f (pr (lvl + 1) x ++ (prElems lvl xs ++ rest)) = .ok x (prElems lvl xs ++ rest))
    (h2 : pElems f (prElems lvl xs ++ rest) = .ok xs rest) :
    pValue (f + 1) (prArr lvl (x :: xs) ++ rest) = .ok (.list (x :: xs)) rest := by
  obtain ⟨c, r, he, hw, hb⟩ := hx
  have hs : skipWs (indentOf (lvl + 1) ++ (pr (lvl + 1) x ++ (prElems lvl xs ++ rest)))
      = c :: (r ++ (prElems lvl xs ++ rest)) := by
    rw [skipWs_indentOf, he]
    simp [skipWs, hw]
  have h1' : pValue f (c :: (r ++ (prElems lvl xs ++ rest))) = .ok x (prElems lvl xs ++ rest) := by
    rw [← h1, he]; rfl
  simp only [prArr, List.cons_append]
  simp [pValue, hs, hb, h1', h2]

theorem pElems_nil (f lvl : Nat) (rest : List Char) :
    pElems (f + 1) (prElems lvl [] ++ rest) = .ok [] rest := by
  simp only [prElems, List.append_assoc, pElems, skipWs_indentOf]
  simp [skipWs, isWs]

theorem pElems_cons (f lvl : Nat) (x : Val) (xs : List Val) (rest : List Char)
    (hx : ∃ c r, pr (lvl + 1) x = c :: r ∧ isWs c = false ∧ c ≠ ']')
    (h1 : pValue f (pr (lvl + 1) x ++ (prElems lvl xs ++ rest)) = .ok x (prElems lvl xs ++ rest))
    (h2 : pElems f (prElems lvl xs ++ rest) = .ok xs rest) :
    pElems (f + 1) (prElems lvl (x :: xs) ++ rest) = .ok (x :: xs) rest := by
  obtain ⟨c, r, he, hw, _⟩ := hx
  have hs : skipWs (indentOf (lvl + 1) ++ (pr (lvl + 1) x ++ (prElems lvl xs ++ rest)))
      = pr (lvl + 1) x ++ (prElems lvl xs ++ rest) := by
    rw [skipWs_indentOf, he]
    simp [skipWs, hw]
  simp only [prElems, List.cons_append, pElems]
  simp [skipWs, isWs, hs, h1, h2]

theorem pValue_obj_nil (f lvl : Nat) (rest : List Char) :
    pValue (f + 1) (prObj lvl [] ++ rest) = .ok (.dict []) rest := by
  simp [pValue, prObj, skipWs, isWs]

/-- The text of one member after the opening quote of its key, followed by the remaining members. -/
def memberText (lvl : Nat) (s : String) (v : Val) (kvs : List (Val × Val)) (rest : List Char) : List Char :=
  escStr s.toList ++ '"' :: ':' :: ' ' :: (pr (lvl + 1) v ++ (prMembers lvl kvs ++ rest))

theorem pMember_step (f lvl : Nat) (s : String) (v : Val) (kvs : List (Val × Val)) (rest : List Char)
    (hv : ∃ c r, pr (lvl + 1) v = c :: r ∧ isWs c = false ∧ c ≠ ']')
    (h1 : pValue f (pr (lvl + 1) v ++ (prMembers lvl kvs ++ rest)) = .ok v (prMembers lvl kvs ++ rest))
    (h2 : pMembers f (prMembers lvl kvs ++ rest) = .ok kvs rest) :
    pMember (f + 1) (memberText lvl s v kvs rest) = .ok ((.str s, v) :: kvs) rest := by
  obtain ⟨c, r, he, hw, _⟩ := hv
  have hs : skipWs (pr (lvl + 1) v ++ (prMembers lvl kvs ++ rest))
      = pr (lvl + 1) v ++ (prMembers lvl kvs ++ rest) := by
    rw [he]; simp [skipWs, hw]
  simp only [memberText, pMember, pStr_escStr]
  simp [skipWs, isWs, hs, h1, h2, String.ofList_toList]

theorem pValue_obj_cons (f lvl : Nat) (s : String) (v : Val) (kvs : List (Val × Val)) (rest : List Char)
    (hm : pMember f (memberText lvl s v kvs rest) = .ok ((.str s, v) :: kvs) rest)
    (hnd : (keysOf ((.str s, v) :: kvs)).Nodup) :
    pValue (f + 1) (prObj lvl ((.str s, v) :: kvs) ++ rest) = .ok (.dict ((.str s, v) :: kvs)) rest := by
  have hs : skipWs (indentOf (lvl + 1) ++ (prKey (.str s) ++ ':' :: ' ' :: (pr (lvl + 1) v ++
      (prMembers lvl kvs ++ rest)))) = '"' :: memberText lvl s v kvs rest := by
    rw [skipWs_indentOf]
    simp [prKey, prStr, memberText, skipWs, isWs]
  simp only [prObj, List.cons_append]
  simp [pValue, hs, hm, rebuildDict_distinct _ hnd]

theorem pMembers_nil (f lvl : Nat) (rest : List Char) :
    pMembers (f + 1) (prMembers lvl [] ++ rest) = .ok [] rest := by
  simp only [prMembers, List.append_assoc, pMembers, skipWs_indentOf]
  simp [skipWs, isWs]

theorem pMembers_cons (f lvl : Nat) (s : String) (v : Val) (kvs : List (Val × Val)) (rest : List Char)
    (hm : pMember f (memberText lvl s v kvs rest) = .ok ((.str s, v) :: kvs) rest) :
    pMembers (f + 1) (prMembers lvl ((.str s, v) :: kvs) ++ rest) = .ok ((.str s, v) :: kvs) rest := by
  have hs : skipWs (indentOf (lvl + 1) ++ (prKey (.str s) ++ ':' :: ' ' :: (pr (lvl + 1) v ++
      (prMembers lvl kvs ++ rest)))) = '"' :: memberText lvl s v kvs rest := by
    rw [skipWs_indentOf]
    simp [prKey, prStr, memberText, skipWs, isWs]
  simp only [prMembers, List.cons_append, pMembers]
  simp [skipWs, isWs, hs, hm]

/-! ### The generalised round trip, by mutual structural recursion over the document -/

theorem isStr_eq (k : Val) (h : isStr k = true) : ∃ s, k = .str s := by
  cases k <;> simp [isStr] at h
  exact ⟨_, rfl⟩

mutual
theorem pValue_pr : ∀ (d : Val) (lvl fuel : Nat) (rest : List Char), isJson false d = true →
    (pr lvl d).length < fuel → okTail rest → pValue fuel (pr lvl d ++ rest) = .ok d rest
  | .none, lvl, fuel, rest, _, hf, _ => by
    obtain ⟨f, rfl⟩ : ∃ f, fuel = f + 1 := ⟨fuel - 1, by omega⟩
    exact pValue_null f rest
  | .bool true, lvl, fuel, rest, _, hf, _ => by
    obtain ⟨f, rfl⟩ : ∃ f, fuel = f + 1 := ⟨fuel - 1, by omega⟩
    exact pValue_true f rest
  | .bool false, lvl, fuel, rest, _, hf, _ => by
    obtain ⟨f, rfl⟩ : ∃ f, fuel = f + 1 := ⟨fuel - 1, by omega⟩
    exact pValue_false f rest
  | .int i, lvl, fuel, rest, _, hf, ht => by
    obtain ⟨f, rfl⟩ : ∃ f, fuel = f + 1 := ⟨fuel - 1, by omega⟩
    exact pValue_int f i rest ht
  | .str s, lvl, fuel, rest, _, hf, _ => by
    obtain ⟨f, rfl⟩ : ∃ f, fuel = f + 1 := ⟨fuel - 1, by omega⟩
    exact pValue_str f s rest
  | .list xs, lvl, fuel, rest, h, hf, _ => by
    simp only [isJson] at h
    simp only [pr] at hf ⊢
    exact pArr_pr xs lvl fuel rest h hf
  | .dict kvs, lvl, fuel, rest, h, hf, _ => by
    simp only [isJson] at h
    simp only [pr] at hf ⊢
    exact pObj_pr kvs lvl fuel rest h hf
  | .flt _ _, _, _, _, h, _, _ => by simp [isJson] at h
  | .bytes _, _, _, _, h, _, _ => by simp [isJson] at h
  | .tuple _, _, _, _, h, _, _ => by simp [isJson] at h
  | .set _, _, _, _, h, _, _ => by simp [isJson] at h
  | .sic _, _, _, _, h, _, _ => by simp [isJson] at h
  | .py _, _, _, _, h, _, _ => by simp [isJson] at h
  | .jsonify _, _, _, _, h, _, _ => by simp [isJson] at h
  | .obj _, _, _, _, h, _, _ => by simp [isJson] at h
theorem pArr_pr : ∀ (xs : List Val) (lvl fuel : Nat) (rest : List Char), isJsonList false xs = true →
    (prArr lvl xs).length < fuel → pValue fuel (prArr lvl xs ++ rest) = .ok (.list xs) rest
  | [], lvl, fuel, rest, _, hf => by
    obtain ⟨f, rfl⟩ : ∃ f, fuel = f + 1 := ⟨fuel - 1, by omega⟩
    exact pValue_arr_nil f lvl rest
  | x :: xs, lvl, fuel, rest, h, hf => by
    obtain ⟨f, rfl⟩ : ∃ f, fuel = f + 1 := ⟨fuel - 1, by omega⟩
    simp only [isJsonList, Bool.and_eq_true] at h
    simp only [prArr, List.length_cons, List.length_append] at hf
    exact pValue_arr_cons f lvl x xs rest (pr_head (lvl + 1) x h.1)
      (pValue_pr x (lvl + 1) f _ h.1 (by omega) (okTail_prElems lvl xs rest))
      (pElems_pr xs lvl f rest h.2 (by omega))
theorem pElems_pr : ∀ (xs : List Val) (lvl fuel : Nat) (rest : List Char), isJsonList false xs = true →
    (prElems lvl xs).length < fuel → pElems fuel (prElems lvl xs ++ rest) = .ok xs rest
  | [], lvl, fuel, rest, _, hf => by
    obtain ⟨f, rfl⟩ : ∃ f, fuel = f + 1 := ⟨fuel - 1, by omega⟩
    exact pElems_nil f lvl rest
  | x :: xs, lvl, fuel, rest, h, hf => by
    obtain ⟨f, rfl⟩ : ∃ f, fuel = f + 1 := ⟨fuel - 1, by omega⟩
    simp only [isJsonList, Bool.and_eq_true] at h
    simp only [prElems, List.length_cons, List.length_append] at hf
    exact pElems_cons f lvl x xs rest (pr_head (lvl + 1) x h.1)
      (pValue_pr x (lvl + 1) f _ h.1 (by omega) (okTail_prElems lvl xs rest))
      (pElems_pr xs lvl f rest h.2 (by omega))
theorem pObj_pr : ∀ (kvs : List (Val × Val)) (lvl fuel : Nat) (rest : List Char),
    isJsonPairs false kvs = true → (prObj lvl kvs).length < fuel →
    pValue fuel (prObj lvl kvs ++ rest) = .ok (.dict kvs) rest
  | [], lvl, fuel, rest, _, hf => by
    obtain ⟨f, rfl⟩ : ∃ f, fuel = f + 1 := ⟨fuel - 1, by omega⟩
    exact pValue_obj_nil f lvl rest
  | (k, v) :: kvs, lvl, fuel, rest, h, hf => by
    have hnd := isJsonPairs_nodup false _ h
    simp only [isJsonPairs, Bool.and_eq_true] at h
    obtain ⟨s, rfl⟩ := isStr_eq k h.1.1.1
    simp only [prObj, prKey, prStr, List.length_cons, List.length_append] at hf
    obtain ⟨f, rfl⟩ : ∃ f, fuel = f + 2 := ⟨fuel - 2, by omega⟩
    exact pValue_obj_cons (f + 1) lvl s v kvs rest
      (pMember_step f lvl s v kvs rest (pr_head (lvl + 1) v h.1.2)
        (pValue_pr v (lvl + 1) f _ h.1.2 (by omega) (okTail_prMembers lvl kvs rest))
        (pMembers_pr kvs lvl f rest h.2 (by omega)))
      hnd
theorem pMembers_pr : ∀ (kvs : List (Val × Val)) (lvl fuel : Nat) (rest : List Char),
    isJsonPairs false kvs = true → (prMembers lvl kvs).length < fuel →
    pMembers fuel (prMembers lvl kvs ++ rest) = .ok kvs rest
  | [], lvl, fuel, rest, _, hf => by
    obtain ⟨f, rfl⟩ : ∃ f, fuel = f + 1 := ⟨fuel - 1, by omega⟩
    exact pMembers_nil f lvl rest
  | (k, v) :: kvs, lvl, fuel, rest, h, hf => by
    simp only [isJsonPairs, Bool.and_eq_true] at h
    obtain ⟨s, rfl⟩ := isStr_eq k h.1.1.1
    simp only [prMembers, prKey, prStr, List.length_cons, List.length_append] at hf
    obtain ⟨f, rfl⟩ : ∃ f, fuel = f + 2 := ⟨fuel - 2, by omega⟩
    exact pMembers_cons (f + 1) lvl s v kvs rest
      (pMember_step f lvl s v kvs rest (pr_head (lvl + 1) v h.1.2)
        (pValue_pr v (lvl + 1) f _ h.1.2 (by omega) (okTail_prMembers lvl kvs rest))
        (pMembers_pr kvs lvl f rest h.2 (by omega)))
end

/-! ### The round trip -/

/-- **parse_print.** On the float-free JSON domain, parsing the printed text gives the document back
    and consumes all of the text. -/
theorem parse_print (d : Val) (h : isJson false d = true) : parse (print d) = .ok d [] := by
  obtain ⟨c, r, he, hw, _⟩ := pr_head 0 d h
  have hs : skipWs (pr 0 d) = pr 0 d := by rw [he]; simp [skipWs, hw]
  have hv := pValue_pr d 0 ((pr 0 d).length + 1) [] h (by omega) (by simp [okTail])
  rw [List.append_nil] at hv
  simp [parse, print, hs, hv, skipWs]

end Pypyr.Codec.Json
