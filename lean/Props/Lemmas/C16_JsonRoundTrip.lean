/-
  C16: the JSON printer/parser round trip for the model in `PypyrModel/Codec.lean` (`Codec.Json`),
  for every setting `o : Opts` of `indent` (`some n`, `none`) and `ensure_ascii`.

    parse_print_coerce : isJsonK true d = true → parse (print o d) = .ok (coerceKeys d) []
    coerceKeys_id      : strKeys d = true → coerceKeys d = d
    parse_print        : isJsonK true d = true → strKeys d = true → parse (print o d) = .ok d []
    isJsonK_mono       : isJsonK true d = true → isJsonK false d = true

  `isJsonK strict`: objects with keys str/int/float/bool/None (duplicates allowed), arrays, strings,
  ints, floats, bools, null; `strict`: every float in `fltOk` (canonical, ≤ 15 digits, no exponent form).
  `coerceKeys`: keys as `json.dump` writes them, mappings rebuilt by `rebuildDict` (= `dict(pairs)`).
  `strKeys`: all keys strings, pairwise distinct.

  Shape of the proof: the generalised statement
    `pValue fuel (pr o lvl d ++ rest) = .ok (coerceKeys d) rest`
  for every nesting level, every continuation `rest` that does not continue a number (`okTail`), and
  every fuel larger than the length of the printed text (which is what `parse` supplies), by mutual
  structural recursion mirroring the printer's `pr / prArr / prElems / prObj / prMembers`.
  Lexical level: `C16_JsonLex.lean` (strings, integers, indentation), `C16_JsonFloat.lean` (floats).
-/
import Props.Lemmas.C16_JsonFloat
import Props.Lemmas.C16_Doc

namespace Pypyr.Codec.Json

/-! ### The strict domain is inside the lenient one -/

theorem isKey_mono (k : Val) (h : isKey true k = true) : isKey false k = true := by
  cases k <;> simp_all [isKey]

mutual
theorem isJsonK_mono : ∀ (d : Val), isJsonK true d = true → isJsonK false d = true
  | .none, _ => by simp [isJsonK]
  | .bool _, _ => by simp [isJsonK]
  | .int _, _ => by simp [isJsonK]
  | .flt _ _, _ => by simp [isJsonK]
  | .str _, _ => by simp [isJsonK]
  | .list xs, h => by
    simp only [isJsonK] at h ⊢
    exact isJsonKList_mono xs h
  | .dict kvs, h => by
    simp only [isJsonK] at h ⊢
    exact isJsonKPairs_mono kvs h
  | .bytes _, h => by simp [isJsonK] at h
  | .tuple _, h => by simp [isJsonK] at h
  | .set _, h => by simp [isJsonK] at h
  | .sic _, h => by simp [isJsonK] at h
  | .py _, h => by simp [isJsonK] at h
  | .jsonify _, h => by simp [isJsonK] at h
  | .obj _, h => by simp [isJsonK] at h
theorem isJsonKList_mono : ∀ (xs : List Val), isJsonKList true xs = true → isJsonKList false xs = true
  | [], _ => by simp [isJsonKList]
  | x :: xs, h => by
    simp only [isJsonKList, Bool.and_eq_true] at h ⊢
    exact ⟨isJsonK_mono x h.1, isJsonKList_mono xs h.2⟩
theorem isJsonKPairs_mono : ∀ (kvs : List (Val × Val)), isJsonKPairs true kvs = true → isJsonKPairs false kvs = true
  | [], _ => by simp [isJsonKPairs]
  | (k, v) :: rest, h => by
    simp only [isJsonKPairs, Bool.and_eq_true] at h ⊢
    exact ⟨⟨isKey_mono k h.1.1, isJsonK_mono v h.1.2⟩, isJsonKPairs_mono rest h.2⟩
end

/-! ### String keys, pairwise distinct: `coerceKeys` is the identity -/

theorem keyIn_false (k : Val) : ∀ (kvs : List (Val × Val)), keyIn k kvs = false → k ∉ keysOf kvs
  | [], _ => by simp [keysOf]
  | (k', v) :: rest, h => by
    simp only [keyIn, Bool.or_eq_false_iff, beq_eq_false_iff_ne, ne_eq] at h
    simp only [keysOf, List.map_cons, List.mem_cons, not_or]
    exact ⟨fun e => h.1 e.symm, keyIn_false k rest h.2⟩

theorem strKeysPairs_nodup : ∀ (kvs : List (Val × Val)), strKeysPairs kvs = true → (keysOf kvs).Nodup
  | [], _ => by simp [keysOf]
  | (k, v) :: rest, h => by
    simp only [strKeysPairs, Bool.and_eq_true, Bool.not_eq_true'] at h
    simp only [keysOf, List.map_cons, List.nodup_cons]
    exact ⟨keyIn_false k rest h.1.1.2, strKeysPairs_nodup rest h.2⟩

theorem isStr_eq (k : Val) (h : isStr k = true) : ∃ s, k = .str s := by
  cases k <;> simp [isStr] at h
  exact ⟨_, rfl⟩

mutual
theorem coerceKeys_id : ∀ (d : Val), strKeys d = true → coerceKeys d = d
  | .list xs, h => by
    simp only [strKeys] at h
    simp only [coerceKeys, coerceList_id xs h]
  | .dict kvs, h => by
    simp only [strKeys] at h
    simp only [coerceKeys, coercePairs_id kvs h, rebuildDict_distinct kvs (strKeysPairs_nodup kvs h)]
  | .none, _ => rfl
  | .bool _, _ => rfl
  | .int _, _ => rfl
  | .flt _ _, _ => rfl
  | .str _, _ => rfl
  | .bytes _, _ => rfl
  | .tuple _, _ => rfl
  | .set _, _ => rfl
  | .sic _, _ => rfl
  | .py _, _ => rfl
  | .jsonify _, _ => rfl
  | .obj _, _ => rfl
theorem coerceList_id : ∀ (xs : List Val), strKeysList xs = true → coerceList xs = xs
  | [], _ => rfl
  | x :: xs, h => by
    simp only [strKeysList, Bool.and_eq_true] at h
    simp only [coerceList, coerceKeys_id x h.1, coerceList_id xs h.2]
theorem coercePairs_id : ∀ (kvs : List (Val × Val)), strKeysPairs kvs = true → coercePairs kvs = kvs
  | [], _ => rfl
  | (k, v) :: rest, h => by
    simp only [strKeysPairs, Bool.and_eq_true] at h
    obtain ⟨s, rfl⟩ := isStr_eq k h.1.1.1
    simp only [coercePairs, keyStr, Option.getD_some, coerceKeys_id v h.1.2, coercePairs_id rest h.2]
end

/-! ### First characters -/

theorem isDigit_not_ws (c : Char) (h : c.isDigit = true) : isWs c = false := by
  cases hw : isWs c with
  | false => rfl
  | true =>
    simp only [isWs, Bool.or_eq_true, decide_eq_true_eq] at hw
    rcases hw with ((hw | hw) | hw) | hw <;> subst hw <;> simp at h

theorem isDigit_ne (c d : Char) (h : c.isDigit = true) (hd : d.isDigit = false) : c ≠ d := by
  intro e; subst e; simp [h] at hd

theorem prInt_head (i : Int) : ∃ c r, prInt i = c :: r ∧ isWs c = false ∧ c ≠ ']' := by
  obtain ⟨c, ds, he, hc⟩ := natDigits_head i.natAbs
  unfold prInt
  split
  · exact ⟨'-', _, rfl, by decide, by decide⟩
  · exact ⟨c, ds, he, isDigit_not_ws c hc, isDigit_ne c ']' hc (by decide)⟩

theorem prFlt_head (n : Int) (k : Nat) : ∃ c r, prFlt n k = c :: r ∧ isWs c = false ∧ c ≠ ']' := by
  obtain ⟨c, ds, he, hc⟩ := natDigits_head (n.natAbs / 2 ^ k)
  unfold prFlt
  simp only []
  split
  · exact ⟨'-', _, rfl, by decide, by decide⟩
  · rw [he]
    exact ⟨c, _, rfl, isDigit_not_ws c hc, isDigit_ne c ']' hc (by decide)⟩

/-- A printed value starts with a character that is neither whitespace nor `]`. -/
theorem pr_head (o : Opts) (lvl : Nat) (d : Val) (h : isJsonK true d = true) :
    ∃ c r, pr o lvl d = c :: r ∧ isWs c = false ∧ c ≠ ']' := by
  cases d with
  | none => exact ⟨_, _, rfl, by decide, by decide⟩
  | bool b => cases b <;> exact ⟨_, _, rfl, by decide, by decide⟩
  | int i => simpa [pr] using prInt_head i
  | flt n k => simpa [pr] using prFlt_head n k
  | str s => exact ⟨'"', _, rfl, by decide, by decide⟩
  | list xs => cases xs <;> exact ⟨'[', _, rfl, by decide, by decide⟩
  | dict kvs =>
    cases kvs with
    | nil => exact ⟨'{', _, rfl, by decide, by decide⟩
    | cons kv rest => obtain ⟨k, v⟩ := kv; exact ⟨'{', _, rfl, by decide, by decide⟩
  | bytes _ => simp [isJsonK] at h
  | tuple _ => simp [isJsonK] at h
  | set _ => simp [isJsonK] at h
  | sic _ => simp [isJsonK] at h
  | py _ => simp [isJsonK] at h
  | jsonify _ => simp [isJsonK] at h
  | obj _ => simp [isJsonK] at h

theorem okTail_nl (o : Opts) (lvl : Nat) (c : Char) (rest : List Char)
    (hc : c.isDigit = false ∧ c ≠ '.' ∧ c ≠ 'e' ∧ c ≠ 'E') : okTail (nl o lvl ++ c :: rest) := by
  unfold nl
  split
  · simpa [okTail] using hc
  · simp [okTail]

theorem okTail_prElems (o : Opts) (lvl : Nat) (xs : List Val) (rest : List Char) :
    okTail (prElems o lvl xs ++ rest) := by
  cases xs with
  | nil =>
    simp only [prElems, List.append_assoc, List.cons_append, List.nil_append]
    exact okTail_nl o lvl ']' rest (by decide)
  | cons x xs => simp [prElems, okTail]

theorem okTail_prMembers (o : Opts) (lvl : Nat) (kvs : List (Val × Val)) (rest : List Char) :
    okTail (prMembers o lvl kvs ++ rest) := by
  cases kvs with
  | nil =>
    simp only [prMembers, List.append_assoc, List.cons_append, List.nil_append]
    exact okTail_nl o lvl '}' rest (by decide)
  | cons kv r => obtain ⟨k, v⟩ := kv; simp [prMembers, okTail]

/-! ### One step of the parser on printed text (non-recursive; the recursive results are hypotheses) -/

theorem pValue_null (f : Nat) (rest : List Char) :
    pValue (f + 1) (['n', 'u', 'l', 'l'] ++ rest) = .ok .none rest := by
  simp [pValue, pLit, List.isPrefixOf]

theorem pValue_true (f : Nat) (rest : List Char) :
    pValue (f + 1) (['t', 'r', 'u', 'e'] ++ rest) = .ok (.bool true) rest := by
  simp [pValue, pLit, List.isPrefixOf]

theorem pValue_false (f : Nat) (rest : List Char) :
    pValue (f + 1) (['f', 'a', 'l', 's', 'e'] ++ rest) = .ok (.bool false) rest := by
  simp [pValue, pLit, List.isPrefixOf]

theorem pValue_str (f : Nat) (a : Bool) (s : String) (rest : List Char) :
    pValue (f + 1) (prStr a s ++ rest) = .ok (.str s) rest := by
  simp [pValue, prStr, pStr_escStr, String.ofList_toList]

theorem pValue_int (f : Nat) (i : Int) (rest : List Char) (ht : okTail rest) :
    pValue (f + 1) (prInt i ++ rest) = .ok (.int i) rest := by
  obtain ⟨c, ds, he, hc⟩ := natDigits_head i.natAbs
  have hnum := fun neg => pNumber_natDigits neg i.natAbs rest ht
  unfold prInt
  split
  · next hneg =>
    have hI : c ≠ 'I' := isDigit_ne c 'I' hc (by decide)
    have h1 := hnum true
    rw [he] at h1
    simp only [List.cons_append] at h1
    have hv : -(i.natAbs : Int) = i := by omega
    simp [pValue, he, List.isPrefixOf, hI.symm, h1, sgn, hv]
  · next hpos =>
    have h1 := hnum false
    rw [he] at h1 ⊢
    simp only [List.cons_append] at h1 ⊢
    have hv : (i.natAbs : Int) = i := by omega
    simp [pValue, hc, h1, sgn, hv]

theorem pValue_flt (f : Nat) (n : Int) (k : Nat) (rest : List Char) (h : fltOk n k = true)
    (ht : okTail rest) : pValue (f + 1) (prFlt n k ++ rest) = .ok (.flt n k) rest := by
  obtain ⟨c, r, hc, hshape, hnum⟩ := pNumber_prFlt n k rest h ht
  rw [hshape]
  by_cases hn : n < 0
  · have hI : c ≠ 'I' := isDigit_ne c 'I' hc (by decide)
    simp only [hn, decide_true] at hnum
    simp only [List.cons_append] at hnum
    simp [pValue, hn, List.isPrefixOf, hI.symm, hnum]
  · simp only [hn, decide_false] at hnum
    simp only [List.cons_append] at hnum
    simp [pValue, hn, hc, hnum]

theorem pValue_arr_nil (f : Nat) (o : Opts) (lvl : Nat) (rest : List Char) :
    pValue (f + 1) (prArr o lvl [] ++ rest) = .ok (.list []) rest := by
  simp [pValue, prArr, skipWs, isWs]

theorem pValue_arr_cons (f : Nat) (o : Opts) (lvl : Nat) (x x' : Val) (xs : List Val) (xs' : List Val)
    (rest : List Char)
    (hx : ∃ c r, pr o (lvl + 1) x = c :: r ∧ isWs c = false ∧ c ≠ ']')
    (h1 : pValue f (pr o (lvl + 1) x ++ (prElems o lvl xs ++ rest)) = .ok x' (prElems o lvl xs ++ rest))
    (h2 : pElems f (prElems o lvl xs ++ rest) = .ok xs' rest) :
    pValue (f + 1) (prArr o lvl (x :: xs) ++ rest) = .ok (.list (x' :: xs')) rest := by
  obtain ⟨c, r, he, hw, hb⟩ := hx
  have hs : skipWs (nl o (lvl + 1) ++ (pr o (lvl + 1) x ++ (prElems o lvl xs ++ rest)))
      = c :: (r ++ (prElems o lvl xs ++ rest)) := by
    rw [skipWs_nl, he]
    simp [skipWs, hw]
  have h1' : pValue f (c :: (r ++ (prElems o lvl xs ++ rest))) = .ok x' (prElems o lvl xs ++ rest) := by
    rw [← h1, he]; rfl
  simp only [prArr, List.cons_append]
  simp [pValue, hs, hb, h1', h2]

theorem pElems_nil (f : Nat) (o : Opts) (lvl : Nat) (rest : List Char) :
    pElems (f + 1) (prElems o lvl [] ++ rest) = .ok [] rest := by
  simp only [prElems, List.append_assoc, pElems, skipWs_nl]
  simp [skipWs, isWs]

theorem pElems_cons (f : Nat) (o : Opts) (lvl : Nat) (x x' : Val) (xs xs' : List Val) (rest : List Char)
    (hx : ∃ c r, pr o (lvl + 1) x = c :: r ∧ isWs c = false ∧ c ≠ ']')
    (h1 : pValue f (pr o (lvl + 1) x ++ (prElems o lvl xs ++ rest)) = .ok x' (prElems o lvl xs ++ rest))
    (h2 : pElems f (prElems o lvl xs ++ rest) = .ok xs' rest) :
    pElems (f + 1) (prElems o lvl (x :: xs) ++ rest) = .ok (x' :: xs') rest := by
  obtain ⟨c, r, he, hw, _⟩ := hx
  have hs : skipWs (sep o (lvl + 1) ++ (pr o (lvl + 1) x ++ (prElems o lvl xs ++ rest)))
      = pr o (lvl + 1) x ++ (prElems o lvl xs ++ rest) := by
    rw [skipWs_sep, he]
    simp [skipWs, hw]
  simp only [prElems, List.cons_append, pElems]
  simp [skipWs, isWs, hs, h1, h2]

theorem pValue_obj_nil (f : Nat) (o : Opts) (lvl : Nat) (rest : List Char) :
    pValue (f + 1) (prObj o lvl [] ++ rest) = .ok (.dict []) rest := by
  simp [pValue, prObj, skipWs, isWs]

/-- The text of one member after the opening quote of its key, followed by the remaining members. -/
def memberText (o : Opts) (lvl : Nat) (s : String) (v : Val) (kvs : List (Val × Val)) (rest : List Char) :
    List Char :=
  escStr o.ascii s.toList ++ '"' :: ':' :: ' ' :: (pr o (lvl + 1) v ++ (prMembers o lvl kvs ++ rest))

theorem pMember_step (f : Nat) (o : Opts) (lvl : Nat) (s : String) (v v' : Val) (kvs kvs' : List (Val × Val))
    (rest : List Char)
    (hv : ∃ c r, pr o (lvl + 1) v = c :: r ∧ isWs c = false ∧ c ≠ ']')
    (h1 : pValue f (pr o (lvl + 1) v ++ (prMembers o lvl kvs ++ rest)) = .ok v' (prMembers o lvl kvs ++ rest))
    (h2 : pMembers f (prMembers o lvl kvs ++ rest) = .ok kvs' rest) :
    pMember (f + 1) (memberText o lvl s v kvs rest) = .ok ((.str s, v') :: kvs') rest := by
  obtain ⟨c, r, he, hw, _⟩ := hv
  have hs : skipWs (pr o (lvl + 1) v ++ (prMembers o lvl kvs ++ rest))
      = pr o (lvl + 1) v ++ (prMembers o lvl kvs ++ rest) := by
    rw [he]; simp [skipWs, hw]
  simp only [memberText, pMember, pStr_escStr]
  simp [skipWs, isWs, hs, h1, h2, String.ofList_toList]

/-- A key `json.dump` accepts is written as the string literal of `keyStr`. -/
theorem isKey_keyStr (strict : Bool) (k : Val) (h : isKey strict k = true) : ∃ s, keyStr k = some s := by
  cases k with
  | bool b => cases b <;> exact ⟨_, rfl⟩
  | none => exact ⟨_, rfl⟩
  | int i => exact ⟨_, rfl⟩
  | flt n j => exact ⟨_, rfl⟩
  | str s => exact ⟨_, rfl⟩
  | bytes _ => simp [isKey] at h
  | tuple _ => simp [isKey] at h
  | set _ => simp [isKey] at h
  | list _ => simp [isKey] at h
  | dict _ => simp [isKey] at h
  | sic _ => simp [isKey] at h
  | py _ => simp [isKey] at h
  | jsonify _ => simp [isKey] at h
  | obj _ => simp [isKey] at h

theorem pValue_obj_cons (f : Nat) (o : Opts) (lvl : Nat) (k : Val) (s : String) (v : Val)
    (kvs pairs : List (Val × Val)) (rest : List Char) (hk : keyStr k = some s)
    (hm : pMember f (memberText o lvl s v kvs rest) = .ok pairs rest) :
    pValue (f + 1) (prObj o lvl ((k, v) :: kvs) ++ rest) = .ok (.dict (rebuildDict pairs)) rest := by
  have hs : skipWs (nl o (lvl + 1) ++ (prKey o k ++ ':' :: ' ' :: (pr o (lvl + 1) v ++
      (prMembers o lvl kvs ++ rest)))) = '"' :: memberText o lvl s v kvs rest := by
    rw [skipWs_nl]
    simp [prKey, hk, prStr, memberText, skipWs, isWs]
  simp only [prObj, List.cons_append]
  simp [pValue, hs, hm]

theorem pMembers_nil (f : Nat) (o : Opts) (lvl : Nat) (rest : List Char) :
    pMembers (f + 1) (prMembers o lvl [] ++ rest) = .ok [] rest := by
  simp only [prMembers, List.append_assoc, pMembers, skipWs_nl]
  simp [skipWs, isWs]

theorem pMembers_cons (f : Nat) (o : Opts) (lvl : Nat) (k : Val) (s : String) (v : Val)
    (kvs pairs : List (Val × Val)) (rest : List Char) (hk : keyStr k = some s)
    (hm : pMember f (memberText o lvl s v kvs rest) = .ok pairs rest) :
    pMembers (f + 1) (prMembers o lvl ((k, v) :: kvs) ++ rest) = .ok pairs rest := by
  have hs : skipWs (sep o (lvl + 1) ++ (prKey o k ++ ':' :: ' ' :: (pr o (lvl + 1) v ++
      (prMembers o lvl kvs ++ rest)))) = '"' :: memberText o lvl s v kvs rest := by
    rw [skipWs_sep]
    simp [prKey, hk, prStr, memberText, skipWs, isWs]
  simp only [prMembers, List.cons_append, pMembers]
  simp [skipWs, isWs, hs, hm]

/-! ### The generalised round trip, by mutual structural recursion over the document -/

mutual
theorem pValue_pr (o : Opts) : ∀ (d : Val) (lvl fuel : Nat) (rest : List Char), isJsonK true d = true →
    (pr o lvl d).length < fuel → okTail rest → pValue fuel (pr o lvl d ++ rest) = .ok (coerceKeys d) rest
  | .none, lvl, fuel, rest, _, hf, _ => by
    obtain ⟨f, rfl⟩ : ∃ f, fuel = f + 1 := ⟨fuel - 1, by omega⟩
    exact pValue_null f rest
  | .bool true, lvl, fuel, rest, _, hf, _ => by
    obtain ⟨f, rfl⟩ : ∃ f, fuel = f + 1 := ⟨fuel - 1, by omega⟩
    exact pValue_true f rest
  | .bool false, lvl, fuel, rest, _, hf, _ => by
    obtain ⟨f, rfl⟩ : ∃ f, fuel = f + 1 := ⟨fuel - 1, by omega⟩
    exact pValue_false f rest
  | .int i, lvl, fuel, rest, _, hf, ht => by
    obtain ⟨f, rfl⟩ : ∃ f, fuel = f + 1 := ⟨fuel - 1, by omega⟩
    exact pValue_int f i rest ht
  | .flt n k, lvl, fuel, rest, h, hf, ht => by
    obtain ⟨f, rfl⟩ : ∃ f, fuel = f + 1 := ⟨fuel - 1, by omega⟩
    simp only [isJsonK, Bool.not_true, Bool.false_or] at h
    exact pValue_flt f n k rest h ht
  | .str s, lvl, fuel, rest, _, hf, _ => by
    obtain ⟨f, rfl⟩ : ∃ f, fuel = f + 1 := ⟨fuel - 1, by omega⟩
    exact pValue_str f o.ascii s rest
  | .list xs, lvl, fuel, rest, h, hf, _ => by
    simp only [isJsonK] at h
    simp only [pr] at hf ⊢
    exact pArr_pr o xs lvl fuel rest h hf
  | .dict kvs, lvl, fuel, rest, h, hf, _ => by
    simp only [isJsonK] at h
    simp only [pr] at hf ⊢
    exact pObj_pr o kvs lvl fuel rest h hf
  | .bytes _, _, _, _, h, _, _ => by simp [isJsonK] at h
  | .tuple _, _, _, _, h, _, _ => by simp [isJsonK] at h
  | .set _, _, _, _, h, _, _ => by simp [isJsonK] at h
  | .sic _, _, _, _, h, _, _ => by simp [isJsonK] at h
  | .py _, _, _, _, h, _, _ => by simp [isJsonK] at h
  | .jsonify _, _, _, _, h, _, _ => by simp [isJsonK] at h
  | .obj _, _, _, _, h, _, _ => by simp [isJsonK] at h
theorem pArr_pr (o : Opts) : ∀ (xs : List Val) (lvl fuel : Nat) (rest : List Char), isJsonKList true xs = true →
    (prArr o lvl xs).length < fuel →
    pValue fuel (prArr o lvl xs ++ rest) = .ok (coerceKeys (.list xs)) rest
  | [], lvl, fuel, rest, _, hf => by
    obtain ⟨f, rfl⟩ : ∃ f, fuel = f + 1 := ⟨fuel - 1, by omega⟩
    exact pValue_arr_nil f o lvl rest
  | x :: xs, lvl, fuel, rest, h, hf => by
    obtain ⟨f, rfl⟩ : ∃ f, fuel = f + 1 := ⟨fuel - 1, by omega⟩
    simp only [isJsonKList, Bool.and_eq_true] at h
    simp only [prArr, List.length_cons, List.length_append] at hf
    exact pValue_arr_cons f o lvl x _ xs _ rest (pr_head o (lvl + 1) x h.1)
      (pValue_pr o x (lvl + 1) f _ h.1 (by omega) (okTail_prElems o lvl xs rest))
      (pElems_pr o xs lvl f rest h.2 (by omega))
theorem pElems_pr (o : Opts) : ∀ (xs : List Val) (lvl fuel : Nat) (rest : List Char), isJsonKList true xs = true →
    (prElems o lvl xs).length < fuel → pElems fuel (prElems o lvl xs ++ rest) = .ok (coerceList xs) rest
  | [], lvl, fuel, rest, _, hf => by
    obtain ⟨f, rfl⟩ : ∃ f, fuel = f + 1 := ⟨fuel - 1, by omega⟩
    exact pElems_nil f o lvl rest
  | x :: xs, lvl, fuel, rest, h, hf => by
    obtain ⟨f, rfl⟩ : ∃ f, fuel = f + 1 := ⟨fuel - 1, by omega⟩
    simp only [isJsonKList, Bool.and_eq_true] at h
    simp only [prElems, List.length_cons, List.length_append] at hf
    exact pElems_cons f o lvl x _ xs _ rest (pr_head o (lvl + 1) x h.1)
      (pValue_pr o x (lvl + 1) f _ h.1 (by omega) (okTail_prElems o lvl xs rest))
      (pElems_pr o xs lvl f rest h.2 (by omega))
theorem pObj_pr (o : Opts) : ∀ (kvs : List (Val × Val)) (lvl fuel : Nat) (rest : List Char),
    isJsonKPairs true kvs = true → (prObj o lvl kvs).length < fuel →
    pValue fuel (prObj o lvl kvs ++ rest) = .ok (coerceKeys (.dict kvs)) rest
  | [], lvl, fuel, rest, _, hf => by
    obtain ⟨f, rfl⟩ : ∃ f, fuel = f + 1 := ⟨fuel - 1, by omega⟩
    exact pValue_obj_nil f o lvl rest
  | (k, v) :: kvs, lvl, fuel, rest, h, hf => by
    simp only [isJsonKPairs, Bool.and_eq_true] at h
    obtain ⟨s, hk⟩ := isKey_keyStr true k h.1.1
    simp only [prObj, prKey, hk, prStr, List.length_cons, List.length_append] at hf
    obtain ⟨f, rfl⟩ : ∃ f, fuel = f + 2 := ⟨fuel - 2, by omega⟩
    have hm := pMember_step f o lvl s v _ kvs _ rest (pr_head o (lvl + 1) v h.1.2)
        (pValue_pr o v (lvl + 1) f _ h.1.2 (by omega) (okTail_prMembers o lvl kvs rest))
        (pMembers_pr o kvs lvl f rest h.2 (by omega))
    have := pValue_obj_cons (f + 1) o lvl k s v kvs _ rest hk hm
    simpa [coerceKeys, coercePairs, hk] using this
theorem pMembers_pr (o : Opts) : ∀ (kvs : List (Val × Val)) (lvl fuel : Nat) (rest : List Char),
    isJsonKPairs true kvs = true → (prMembers o lvl kvs).length < fuel →
    pMembers fuel (prMembers o lvl kvs ++ rest) = .ok (coercePairs kvs) rest
  | [], lvl, fuel, rest, _, hf => by
    obtain ⟨f, rfl⟩ : ∃ f, fuel = f + 1 := ⟨fuel - 1, by omega⟩
    exact pMembers_nil f o lvl rest
  | (k, v) :: kvs, lvl, fuel, rest, h, hf => by
    simp only [isJsonKPairs, Bool.and_eq_true] at h
    obtain ⟨s, hk⟩ := isKey_keyStr true k h.1.1
    simp only [prMembers, prKey, hk, prStr, List.length_cons, List.length_append] at hf
    obtain ⟨f, rfl⟩ : ∃ f, fuel = f + 2 := ⟨fuel - 2, by omega⟩
    have hm := pMember_step f o lvl s v _ kvs _ rest (pr_head o (lvl + 1) v h.1.2)
        (pValue_pr o v (lvl + 1) f _ h.1.2 (by omega) (okTail_prMembers o lvl kvs rest))
        (pMembers_pr o kvs lvl f rest h.2 (by omega))
    have := pMembers_cons (f + 1) o lvl k s v kvs _ rest hk hm
    simpa [coercePairs, hk] using this
end

/-! ### The round trip -/

/-- **parse_print_coerce.** For every document `json.dump` accepts (floats in `fltOk`) and every
    setting of indent / ensure_ascii: parsing the printed text consumes all of it and gives the
    document with its keys as `json.dump` wrote them. -/
theorem parse_print_coerce (o : Opts) (d : Val) (h : isJsonK true d = true) :
    parse (print o d) = .ok (coerceKeys d) [] := by
  obtain ⟨c, r, he, hw, _⟩ := pr_head o 0 d h
  have hs : skipWs (pr o 0 d) = pr o 0 d := by rw [he]; simp [skipWs, hw]
  have hv := pValue_pr o d 0 ((pr o 0 d).length + 1) [] h (by omega) (by simp [okTail])
  rw [List.append_nil] at hv
  simp [parse, print, hs, hv, skipWs]

/-- **parse_print.** With string keys, pairwise distinct, the document itself comes back. -/
theorem parse_print (o : Opts) (d : Val) (h : isJsonK true d = true) (hs : strKeys d = true) :
    parse (print o d) = .ok d [] := by
  rw [parse_print_coerce o d h, coerceKeys_id d hs]

end Pypyr.Codec.Json
