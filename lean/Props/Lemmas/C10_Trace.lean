/-
  C10, tree level: the trace is determined by the INCOMING TREE.

  `Merge.mergeRec` / `defaultsRec` return, besides the new content, a ghost trace; the frame theorems of
  `C10_Merge.lean` are stated relative to it (`Untouched t p`). This file ties the trace to the incoming
  mapping, so that those theorems cannot be vacuous:

  * `MergeRun fmt rebuild cur add cur' hs t` / `DefaultsRun …` — a big-step SPECIFICATION of the loop over
    the incoming items written without the model: item by item, the key is formatted against the context
    as merged so far, the item either descends (mapping into mapping) or is written (merge: the value of
    the type table `Written`; defaults: only when the key is missing, the formatted default) or — defaults
    only — is left alone and contributes NO entry. `hs` lists, per incoming item and in order, the
    formatted key and what was done; `t` is the list of named paths.
  * `mergeRec_run` / `defaultsRec_run` — every run of the model that returns satisfies the specification
    with the trace it returned (`trace_sound_complete` in `Props/C10.lean`).
  * consequences proved from the specification alone: one head per item (`length`), the depth-1 entries of
    the trace are exactly the heads, in order (`heads_eq`), frame over the formatted keys (`frame_key`) and
    over paths (`frame`).
  * per item (`foldItems_append`): the state "as merged so far" is the result of the run over the items
    before it; `defaultsItem_missing`: a missing key IS added with the formatted default.
  * fuel: `depthP add < fuel` and a formatter that never answers OutOfFuel ⇒ no OutOfFuel.
-/
import PypyrModel.Merge
import Props.Lemmas.C10_Merge

namespace Pypyr.C10
open Pypyr Pypyr.Merge

/-! ### vocabulary -/

/-- Both "same mergeable kind" tests of the code succeed for this pair (existing, incoming). -/
def mergeable : Val → Val → Bool
  | .dict _, .dict _ => true
  | .list _, .list _ => true
  | .tuple _, .tuple _ => true
  | .set _, .set _ => true
  | _, _ => false

/-- `merge_recurse` / `defaults_recurse` descend into this item: the destination holds a mapping under
    the formatted key AND the incoming value is a mapping. -/
def descends (cur : Pairs) (fk v : Val) : Bool :=
  match dictGet? cur fk, v with
  | some (.dict _), .dict _ => true
  | _, _ => false

theorem descends_of_value {cur : Pairs} {fk v : Val} (h : ∀ sub, v ≠ .dict sub) : descends cur fk v = false := by
  unfold descends
  split
  · rename_i sub _ ; exact absurd rfl (h sub)
  · rfl

theorem descends_of_absent {cur : Pairs} {fk v : Val} (h : dictGet? cur fk = none) : descends cur fk v = false := by
  unfold descends
  rw [h]

theorem descends_of_old {cur : Pairs} {fk v old : Val} (h : dictGet? cur fk = some old)
    (hn : ∀ csub sub, old = .dict csub → v = .dict sub → False) : descends cur fk v = false := by
  cases old with
  | dict csub =>
    cases v with
    | dict sub => exact (hn csub sub rfl rfl).elim
    | _ => simp [descends, h]
  | _ => simp [descends, h]

theorem descends_of_both {cur : Pairs} {fk : Val} {csub sub : Pairs} (h : dictGet? cur fk = some (.dict csub)) :
    descends cur fk (.dict sub) = true := by
  unfold descends
  rw [h]

theorem descends_true {cur : Pairs} {fk v : Val} (h : descends cur fk v = true) :
    ∃ csub sub, dictGet? cur fk = some (.dict csub) ∧ v = .dict sub := by
  unfold descends at h
  split at h
  · rename_i csub sub heq; exact ⟨csub, sub, heq, rfl⟩
  · cases h

/-- What the loop did with one incoming item. -/
inductive Did where
  | wrote        -- `current[k] = …` / `.extend(…)`: trace entry `([fk], true)`
  | descended    -- mapping into mapping: trace entry `([fk], false)` followed by the nested entries
  | kept         -- `set_defaults` only: the key exists (and the pair is not mapping × mapping): NO entry
  deriving DecidableEq, Repr

/-- Per incoming item, in order: the formatted key and what was done. -/
abbrev Heads := List (Val × Did)

/-- The depth-1 trace entry of an item. -/
def headEntry : Val × Did → Option (List Val × Bool)
  | (fk, .wrote) => some ([fk], true)
  | (fk, .descended) => some ([fk], false)
  | (_, .kept) => none

/-- **The type table as one relation**: `Written fmt ctx old v x` — an incoming item with value `v` that
    does not descend, arriving at a key whose existing value is `old` (`none`: absent), leaves `x` under
    that key; `ctx` is the context at that moment. -/
inductive Written (fmt : Fmt) (ctx : Ctx) : Option Val → Val → Val → Prop
  /-- string / special tag: overwrite with the formatted value, whatever is there -/
  | str {old v x} : isStrLike v = true → fmt ctx v = .ok x → Written fmt ctx old v x
  /-- bytes: overwrite with the bytes themselves -/
  | bytes {old b} : Written fmt ctx old (.bytes b) (.bytes b)
  /-- list into list: existing members, then the formatted incoming ones -/
  | list {xs ns ys} : fmt ctx (.list ns) = .ok (.list ys) →
      Written fmt ctx (some (.list xs)) (.list ns) (.list (xs ++ ys))
  /-- tuple into tuple -/
  | tuple {xs ns ys} : fmt ctx (.tuple ns) = .ok (.tuple ys) →
      Written fmt ctx (some (.tuple xs)) (.tuple ns) (.tuple (xs ++ ys))
  /-- set into set: union -/
  | set {xs ns ys} : fmt ctx (.set ns) = .ok (.set ys) →
      Written fmt ctx (some (.set xs)) (.set ns) (.set (ys.foldl setInsert xs))
  /-- anything else (absent, kinds differ, scalars, None, objects): the formatted value -/
  | other {old v x} : isStrLike v = false → (∀ b, v ≠ .bytes b) →
      (∀ o, old = some o → mergeable o v = false) → fmt ctx v = .ok x → Written fmt ctx old v x

/-! ### the specification of `merge_recurse` -/

/-- `MergeRun fmt rebuild cur add cur' hs t`: merging the incoming items `add` into a dict with content
    `cur` (sitting in the root context `rebuild cur`) ends with content `cur'`; `hs` are the formatted keys
    (one per item, in order) with what was done, `t` the named paths. -/
inductive MergeRun (fmt : Fmt) : (Pairs → Pairs) → Pairs → Pairs → Pairs → Heads → Trace → Prop
  | nil {rebuild cur} : MergeRun fmt rebuild cur [] cur [] []
  | write {rebuild cur k v rest fk x cur' hs t} :
      fmt (ctxOf (rebuild cur)) k = .ok fk → hashable fk = true →
      descends cur fk v = false →
      Written fmt (ctxOf (rebuild cur)) (dictGet? cur fk) v x →
      MergeRun fmt rebuild (dictSet cur fk x) rest cur' hs t →
      MergeRun fmt rebuild cur ((k, v) :: rest) cur' ((fk, .wrote) :: hs) (([fk], true) :: t)
  | descend {rebuild cur k sub rest fk csub csub' hsub tsub cur' hs t} :
      fmt (ctxOf (rebuild cur)) k = .ok fk → hashable fk = true →
      dictGet? cur fk = some (.dict csub) →
      MergeRun fmt (fun s => rebuild (dictSet cur fk (.dict s))) csub sub csub' hsub tsub →
      MergeRun fmt rebuild (dictSet cur fk (.dict csub')) rest cur' hs t →
      MergeRun fmt rebuild cur ((k, .dict sub) :: rest) cur'
        ((fk, .descended) :: hs) (([fk], false) :: (under fk tsub ++ t))

/-- The specification of `defaults_recurse`: an existing key whose pair is not mapping × mapping is left
    alone and contributes no entry (`keep`); a missing key is added with the formatted default (`add`). -/
inductive DefaultsRun (fmt : Fmt) : (Pairs → Pairs) → Pairs → Pairs → Pairs → Heads → Trace → Prop
  | nil {rebuild cur} : DefaultsRun fmt rebuild cur [] cur [] []
  | keep {rebuild cur k v rest fk old cur' hs t} :
      fmt (ctxOf (rebuild cur)) k = .ok fk → hashable fk = true →
      dictGet? cur fk = some old → descends cur fk v = false →
      DefaultsRun fmt rebuild cur rest cur' hs t →
      DefaultsRun fmt rebuild cur ((k, v) :: rest) cur' ((fk, .kept) :: hs) t
  | add {rebuild cur k v rest fk fv cur' hs t} :
      fmt (ctxOf (rebuild cur)) k = .ok fk → hashable fk = true →
      dictGet? cur fk = none → fmt (ctxOf (rebuild cur)) v = .ok fv →
      DefaultsRun fmt rebuild (dictSet cur fk fv) rest cur' hs t →
      DefaultsRun fmt rebuild cur ((k, v) :: rest) cur' ((fk, .wrote) :: hs) (([fk], true) :: t)
  | descend {rebuild cur k sub rest fk csub csub' hsub tsub cur' hs t} :
      fmt (ctxOf (rebuild cur)) k = .ok fk → hashable fk = true →
      dictGet? cur fk = some (.dict csub) →
      DefaultsRun fmt (fun s => rebuild (dictSet cur fk (.dict s))) csub sub csub' hsub tsub →
      DefaultsRun fmt rebuild (dictSet cur fk (.dict csub')) rest cur' hs t →
      DefaultsRun fmt rebuild cur ((k, .dict sub) :: rest) cur'
        ((fk, .descended) :: hs) (([fk], false) :: (under fk tsub ++ t))

/-! ### one item of the model, read as the specification -/

/-- What a successful `mergeItem` did: the key formatted (hashable), then EITHER a write of the table
    value with the single entry `([fk], true)`, OR — exactly when destination and incoming value are both
    mappings — the recursive call on them, entry `([fk], false)` followed by the nested entries. -/
theorem mergeItem_spec {fmt : Fmt}
    {recur : (Pairs → Pairs) → Pairs → Pairs → Except Exc (Pairs × Trace)}
    {rebuild : Pairs → Pairs} {cur : Pairs} {k v : Val} {cur1 : Pairs} {t1 : Trace}
    (h : mergeItem fmt recur rebuild cur k v = .ok (cur1, t1)) :
    ∃ fk, fmt (ctxOf (rebuild cur)) k = .ok fk ∧ hashable fk = true ∧
      ((descends cur fk v = false ∧ t1 = [([fk], true)] ∧
          ∃ x, Written fmt (ctxOf (rebuild cur)) (dictGet? cur fk) v x ∧ cur1 = dictSet cur fk x) ∨
       (∃ csub sub csub' ts, v = .dict sub ∧ dictGet? cur fk = some (.dict csub) ∧
          recur (fun s => rebuild (dictSet cur fk (.dict s))) csub sub = .ok (csub', ts) ∧
          cur1 = dictSet cur fk (.dict csub') ∧ t1 = ([fk], false) :: under fk ts)) := by
  unfold mergeItem at h
  simp only [] at h
  split at h
  · cases h
  · rename_i fk hk
    refine ⟨fk, hk, ?_⟩
    split at h
    · -- str-like
      rename_i hs
      split at h
      · cases h
      · rename_i fv hfv
        split at h
        · rename_i hh
          cases h
          refine ⟨hh, Or.inl ⟨descends_of_value (by intro sub e; subst e; simp [isStrLike] at hs), rfl,
            fv, Written.str hs hfv, rfl⟩⟩
        · cases h
    · rename_i hs
      have hs' : isStrLike v = false := by simpa using hs
      split at h
      · -- bytes
        rename_i b
        split at h
        · rename_i hh
          cases h
          exact ⟨hh, Or.inl ⟨descends_of_value (by intro sub e; cases e), rfl, _, Written.bytes, rfl⟩⟩
        · cases h
      · rename_i hnb
        split at h
        · cases h
        · rename_i hh
          have hh' : hashable fk = true := by simpa using hh
          refine ⟨hh', ?_⟩
          split at h
          · rename_i old hold
            split at h
            · -- dict × dict
              rename_i csub sub
              split at h
              · cases h
              · rename_i csub' ts hrec
                cases h
                exact Or.inr ⟨csub, sub, csub', ts, rfl, hold, hrec, rfl, rfl⟩
            · -- list × list
              rename_i xs ns
              split at h
              · cases h
              · rename_i ys hf
                cases h
                refine Or.inl ⟨descends_of_value (by intro sub e; cases e), rfl, _, ?_, rfl⟩
                rw [hold]; exact Written.list hf
              · cases h
            · -- tuple × tuple
              rename_i xs ns
              split at h
              · cases h
              · rename_i ys hf
                cases h
                refine Or.inl ⟨descends_of_value (by intro sub e; cases e), rfl, _, ?_, rfl⟩
                rw [hold]; exact Written.tuple hf
              · cases h
            · -- set × set
              rename_i xs ns
              split at h
              · cases h
              · rename_i ys hf
                cases h
                refine Or.inl ⟨descends_of_value (by intro sub e; cases e), rfl, _, ?_, rfl⟩
                rw [hold]; exact Written.set hf
              · cases h
            · -- any other pair: overwrite
              rename_i hnd hnl hnt hns
              split at h
              · cases h
              · rename_i fv hf
                cases h
                refine Or.inl ⟨descends_of_old hold (fun csub sub e1 e2 => hnd csub sub e1 e2), rfl, fv, ?_, rfl⟩
                refine Written.other hs' (fun b e => hnb b e) ?_ hf
                intro o ho
                rw [hold] at ho
                cases ho
                cases old <;> cases v <;> simp_all [mergeable]
          · -- absent
            rename_i hnone
            split at h
            · cases h
            · rename_i fv hf
              cases h
              refine Or.inl ⟨descends_of_absent hnone, rfl, fv, ?_, rfl⟩
              refine Written.other hs' (fun b e => hnb b e) ?_ hf
              intro o ho
              rw [hnone] at ho
              cases ho

/-- What a successful `defaultsItem` did. -/
theorem defaultsItem_spec {fmt : Fmt}
    {recur : (Pairs → Pairs) → Pairs → Pairs → Except Exc (Pairs × Trace)}
    {rebuild : Pairs → Pairs} {cur : Pairs} {k v : Val} {cur1 : Pairs} {t1 : Trace}
    (h : defaultsItem fmt recur rebuild cur k v = .ok (cur1, t1)) :
    ∃ fk, fmt (ctxOf (rebuild cur)) k = .ok fk ∧ hashable fk = true ∧
      ((∃ old, dictGet? cur fk = some old ∧ descends cur fk v = false ∧ cur1 = cur ∧ t1 = []) ∨
       (dictGet? cur fk = none ∧ ∃ fv, fmt (ctxOf (rebuild cur)) v = .ok fv ∧
          cur1 = dictSet cur fk fv ∧ t1 = [([fk], true)]) ∨
       (∃ csub sub csub' ts, v = .dict sub ∧ dictGet? cur fk = some (.dict csub) ∧
          recur (fun s => rebuild (dictSet cur fk (.dict s))) csub sub = .ok (csub', ts) ∧
          cur1 = dictSet cur fk (.dict csub') ∧ t1 = ([fk], false) :: under fk ts)) := by
  unfold defaultsItem at h
  simp only [] at h
  split at h
  · cases h
  · rename_i fk hk
    refine ⟨fk, hk, ?_⟩
    split at h
    · cases h
    · rename_i hh
      have hh' : hashable fk = true := by simpa using hh
      refine ⟨hh', ?_⟩
      split at h
      · rename_i old hold
        split at h
        · rename_i csub sub
          split at h
          · cases h
          · rename_i csub' ts hrec
            cases h
            exact Or.inr (Or.inr ⟨csub, sub, csub', ts, rfl, hold, hrec, rfl, rfl⟩)
        · rename_i hnd
          cases h
          exact Or.inl ⟨old, hold, descends_of_old hold (fun csub sub e1 e2 => hnd csub sub e1 e2), rfl, rfl⟩
      · rename_i hnone
        split at h
        · cases h
        · rename_i fv hf
          cases h
          exact Or.inr (Or.inl ⟨hnone, fv, hf, rfl, rfl⟩)

/-! ### every run of the model satisfies the specification, with the trace it returned -/

theorem mergeRec_run (fmt : Fmt) : ∀ (fuel : Nat) (rebuild : Pairs → Pairs) (cur add cur' : Pairs) (t : Trace),
    mergeRec fmt fuel rebuild cur add = .ok (cur', t) → ∃ hs, MergeRun fmt rebuild cur add cur' hs t := by
  intro fuel
  induction fuel with
  | zero => intro rebuild cur add cur' t h; simp [mergeRec] at h
  | succ n ih =>
    intro rebuild cur add
    induction add generalizing cur with
    | nil =>
      intro cur' t h
      simp only [mergeRec, foldItems] at h
      cases h
      exact ⟨[], MergeRun.nil⟩
    | cons kv rest ihr =>
      obtain ⟨k, v⟩ := kv
      intro cur' t h
      simp only [mergeRec, foldItems] at h
      split at h
      · cases h
      · rename_i cur1 t1 h1
        split at h
        · cases h
        · rename_i cur2 t2 h2
          obtain ⟨hs, hrun⟩ := ihr cur1 cur2 t2 (by simp only [mergeRec]; exact h2)
          cases h
          obtain ⟨fk, hk, hh, hcase⟩ := mergeItem_spec h1
          rcases hcase with ⟨hd, rfl, x, hw, rfl⟩ | ⟨csub, sub, csub', ts, rfl, hold, hrec, rfl, rfl⟩
          · exact ⟨_, MergeRun.write hk hh hd hw hrun⟩
          · obtain ⟨hsub, hsubrun⟩ := ih _ _ _ _ _ hrec
            exact ⟨_, MergeRun.descend hk hh hold hsubrun hrun⟩

theorem defaultsRec_run (fmt : Fmt) : ∀ (fuel : Nat) (rebuild : Pairs → Pairs) (cur add cur' : Pairs) (t : Trace),
    defaultsRec fmt fuel rebuild cur add = .ok (cur', t) → ∃ hs, DefaultsRun fmt rebuild cur add cur' hs t := by
  intro fuel
  induction fuel with
  | zero => intro rebuild cur add cur' t h; simp [defaultsRec] at h
  | succ n ih =>
    intro rebuild cur add
    induction add generalizing cur with
    | nil =>
      intro cur' t h
      simp only [defaultsRec, foldItems] at h
      cases h
      exact ⟨[], DefaultsRun.nil⟩
    | cons kv rest ihr =>
      obtain ⟨k, v⟩ := kv
      intro cur' t h
      simp only [defaultsRec, foldItems] at h
      split at h
      · cases h
      · rename_i cur1 t1 h1
        split at h
        · cases h
        · rename_i cur2 t2 h2
          obtain ⟨hs, hrun⟩ := ihr cur1 cur2 t2 (by simp only [defaultsRec]; exact h2)
          cases h
          obtain ⟨fk, hk, hh, hcase⟩ := defaultsItem_spec h1
          rcases hcase with ⟨old, hold, hd, rfl, rfl⟩ | ⟨hnone, fv, hf, rfl, rfl⟩ |
            ⟨csub, sub, csub', ts, rfl, hold, hrec, rfl, rfl⟩
          · exact ⟨_, DefaultsRun.keep hk hh hold hd hrun⟩
          · exact ⟨_, DefaultsRun.add hk hh hnone hf hrun⟩
          · obtain ⟨hsub, hsubrun⟩ := ih _ _ _ _ _ hrec
            exact ⟨_, DefaultsRun.descend hk hh hold hsubrun hrun⟩

/-! ### consequences of the specification alone -/

/-- the entries of length 1 -/
def depth1 (t : Trace) : Trace := t.filter fun w => w.1.length == 1

theorem depth1_under (fk : Val) (t : Trace) (hne : TraceNE t) : depth1 (under fk t) = [] := by
  unfold depth1 Merge.under
  rw [List.filter_eq_nil_iff]
  intro w hw
  obtain ⟨w', hw', rfl⟩ := List.mem_map.mp hw
  have := hne w' hw'
  cases h : w'.1 with
  | nil => exact absurd h this
  | cons a r => simp

theorem depth1_append (a b : Trace) : depth1 (a ++ b) = depth1 a ++ depth1 b := by
  simp [depth1]

theorem TraceNE.cons {fk : Val} {b : Bool} {t : Trace} (h : TraceNE t) : TraceNE (([fk], b) :: t) := by
  intro w hw
  rcases List.mem_cons.mp hw with e | hw
  · subst e; simp
  · exact h w hw

theorem TraceNE.under (fk : Val) (t : Trace) : TraceNE (Merge.under fk t) := by
  intro w hw
  simp only [Merge.under, List.mem_map] at hw
  obtain ⟨w', _, rfl⟩ := hw
  simp

theorem TraceNE.nil : TraceNE [] := by intro w hw; simp at hw

section consequences
variable {fmt : Fmt}

theorem MergeRun.traceNE {rebuild : Pairs → Pairs} {cur add cur' : Pairs} {hs : Heads} {t : Trace}
    (h : MergeRun fmt rebuild cur add cur' hs t) : TraceNE t := by
  induction h with
  | nil => exact TraceNE.nil
  | write _ _ _ _ _ ih => exact ih.cons
  | descend _ _ _ _ _ _ ih2 => exact (TraceNE.append (TraceNE.under _ _) ih2).cons

/-- one head per incoming item -/
theorem MergeRun.length {rebuild : Pairs → Pairs} {cur add cur' : Pairs} {hs : Heads} {t : Trace}
    (h : MergeRun fmt rebuild cur add cur' hs t) : hs.length = add.length := by
  induction h with
  | nil => rfl
  | write _ _ _ _ _ ih => simp [ih]
  | descend _ _ _ _ _ _ ih2 => simp [ih2]

/-- merge never leaves an item alone: every incoming item ends as a write or a descent -/
theorem MergeRun.no_kept {rebuild : Pairs → Pairs} {cur add cur' : Pairs} {hs : Heads} {t : Trace}
    (h : MergeRun fmt rebuild cur add cur' hs t) : ∀ hd ∈ hs, hd.2 ≠ Did.kept := by
  induction h with
  | nil => intro hd hm; simp at hm
  | write _ _ _ _ _ ih =>
    intro hd hm
    rcases List.mem_cons.mp hm with e | hm
    · subst e; simp
    · exact ih hd hm
  | descend _ _ _ _ _ _ ih2 =>
    intro hd hm
    rcases List.mem_cons.mp hm with e | hm
    · subst e; simp
    · exact ih2 hd hm

/-- **the depth-1 entries of the trace are exactly the heads, in order** -/
theorem MergeRun.heads_eq {rebuild : Pairs → Pairs} {cur add cur' : Pairs} {hs : Heads} {t : Trace}
    (h : MergeRun fmt rebuild cur add cur' hs t) : depth1 t = hs.filterMap headEntry := by
  induction h with
  | nil => rfl
  | write _ _ _ _ _ ih =>
    simp only [List.filterMap_cons, headEntry]
    rw [← ih]
    simp [depth1]
  | descend _ _ _ hsub _ _ ih2 =>
    simp only [List.filterMap_cons, headEntry]
    rw [← ih2]
    rw [show ∀ (a : List Val × Bool) (l : Trace), a :: l = [a] ++ l from fun _ _ => rfl, depth1_append,
      depth1_append, depth1_under _ _ hsub.traceNE]
    simp [depth1]

/-- the frame over paths, from the specification alone -/
theorem MergeRun.frame {rebuild : Pairs → Pairs} {cur add cur' : Pairs} {hs : Heads} {t : Trace}
    (h : MergeRun fmt rebuild cur add cur' hs t) : Frame cur cur' t := by
  induction h with
  | nil => exact Frame.refl _
  | write _ _ _ _ _ ih => exact Frame.trans (Frame.write _ _ _) ih
  | descend _ _ hold _ _ ih1 ih2 => exact Frame.trans (Frame.descend hold ih1) ih2

/-- **the frame over the formatted keys**: a key that no incoming key formats to keeps its value -/
theorem MergeRun.frame_key {rebuild : Pairs → Pairs} {cur add cur' : Pairs} {hs : Heads} {t : Trace}
    (h : MergeRun fmt rebuild cur add cur' hs t) (k : Val) (hk : ∀ hd ∈ hs, hd.1 ≠ k) :
    dictGet? cur' k = dictGet? cur k := by
  induction h with
  | nil => rfl
  | write _ _ _ _ _ ih =>
    rw [ih (fun hd hm => hk hd (List.mem_cons_of_mem _ hm))]
    exact dictGet?_dictSet_ne _ _ _ _ (fun e => hk _ (List.mem_cons_self ..) e.symm)
  | descend _ _ _ _ _ _ ih2 =>
    rw [ih2 (fun hd hm => hk hd (List.mem_cons_of_mem _ hm))]
    exact dictGet?_dictSet_ne _ _ _ _ (fun e => hk _ (List.mem_cons_self ..) e.symm)

theorem DefaultsRun.traceNE {rebuild : Pairs → Pairs} {cur add cur' : Pairs} {hs : Heads} {t : Trace}
    (h : DefaultsRun fmt rebuild cur add cur' hs t) : TraceNE t := by
  induction h with
  | nil => exact TraceNE.nil
  | keep _ _ _ _ _ ih => exact ih
  | add _ _ _ _ _ ih => exact ih.cons
  | descend _ _ _ _ _ _ ih2 => exact (TraceNE.append (TraceNE.under _ _) ih2).cons

theorem DefaultsRun.length {rebuild : Pairs → Pairs} {cur add cur' : Pairs} {hs : Heads} {t : Trace}
    (h : DefaultsRun fmt rebuild cur add cur' hs t) : hs.length = add.length := by
  induction h with
  | nil => rfl
  | keep _ _ _ _ _ ih => simp [ih]
  | add _ _ _ _ _ ih => simp [ih]
  | descend _ _ _ _ _ _ ih2 => simp [ih2]

/-- the depth-1 entries are the heads that wrote or descended, in order; a kept key has NO entry -/
theorem DefaultsRun.heads_eq {rebuild : Pairs → Pairs} {cur add cur' : Pairs} {hs : Heads} {t : Trace}
    (h : DefaultsRun fmt rebuild cur add cur' hs t) : depth1 t = hs.filterMap headEntry := by
  induction h with
  | nil => rfl
  | keep _ _ _ _ _ ih => simp only [List.filterMap_cons, headEntry]; exact ih
  | add _ _ _ _ _ ih =>
    simp only [List.filterMap_cons, headEntry]
    rw [← ih]
    simp [depth1]
  | descend _ _ _ hsub _ _ ih2 =>
    simp only [List.filterMap_cons, headEntry]
    rw [← ih2]
    rw [show ∀ (a : List Val × Bool) (l : Trace), a :: l = [a] ++ l from fun _ _ => rfl, depth1_append,
      depth1_append, depth1_under _ _ hsub.traceNE]
    simp [depth1]

theorem DefaultsRun.frame {rebuild : Pairs → Pairs} {cur add cur' : Pairs} {hs : Heads} {t : Trace}
    (h : DefaultsRun fmt rebuild cur add cur' hs t) : Frame cur cur' t := by
  induction h with
  | nil => exact Frame.refl _
  | keep _ _ _ _ _ ih => exact ih
  | add _ _ _ _ _ ih => exact Frame.trans (Frame.write _ _ _) ih
  | descend _ _ hold _ _ ih1 ih2 => exact Frame.trans (Frame.descend hold ih1) ih2

/-- from the specification alone: existing paths keep their value, exactly the missing named paths are
    added -/
theorem DefaultsRun.ok {rebuild : Pairs → Pairs} {cur add cur' : Pairs} {hs : Heads} {t : Trace}
    (h : DefaultsRun fmt rebuild cur add cur' hs t) : DefaultsOK cur cur' t := by
  induction h with
  | nil => exact DefaultsOK.refl _
  | keep _ _ _ _ _ ih => exact ih
  | add _ _ hnone _ _ ih => exact DefaultsOK.trans (DefaultsOK.add hnone) ih
  | descend _ _ hold _ _ ih1 ih2 => exact DefaultsOK.trans (DefaultsOK.descend hold ih1) ih2

/-- a top-level key the defaults do not name (no incoming key formats to it) keeps its value; so does a
    key they name that exists with a non-mapping pair (`kept`) -/
theorem DefaultsRun.frame_key {rebuild : Pairs → Pairs} {cur add cur' : Pairs} {hs : Heads} {t : Trace}
    (h : DefaultsRun fmt rebuild cur add cur' hs t) (k : Val)
    (hk : ∀ hd ∈ hs, hd.1 = k → hd.2 = Did.kept) : dictGet? cur' k = dictGet? cur k := by
  induction h with
  | nil => rfl
  | keep _ _ _ _ _ ih => exact ih (fun hd hm => hk hd (List.mem_cons_of_mem _ hm))
  | add _ _ _ _ _ ih =>
    rw [ih (fun hd hm => hk hd (List.mem_cons_of_mem _ hm))]
    refine dictGet?_dictSet_ne _ _ _ _ (fun e => ?_)
    have := hk _ (List.mem_cons_self ..) e.symm
    cases this
  | descend _ _ _ _ _ _ ih2 =>
    rw [ih2 (fun hd hm => hk hd (List.mem_cons_of_mem _ hm))]
    refine dictGet?_dictSet_ne _ _ _ _ (fun e => ?_)
    have := hk _ (List.mem_cons_self ..) e.symm
    cases this

end consequences

/-! ### per item: the context "as merged so far" is the run over the items before it -/

theorem foldItems_append {step : Pairs → Val → Val → Except Exc (Pairs × Trace)} :
    ∀ (a : Pairs) (cur : Pairs) (b : Pairs) (c2 : Pairs) (t : Trace),
      foldItems step cur (a ++ b) = .ok (c2, t) →
      ∃ c1 t1 t2, foldItems step cur a = .ok (c1, t1) ∧ foldItems step c1 b = .ok (c2, t2) ∧ t = t1 ++ t2
  | [], cur, b, c2, t, h => ⟨cur, [], t, by simp [foldItems], by simpa using h, rfl⟩
  | (k, v) :: rest, cur, b, c2, t, h => by
    simp only [List.cons_append, foldItems] at h
    split at h
    · cases h
    · rename_i cur1 t1 h1
      split at h
      · cases h
      · rename_i c3 t3 h3
        obtain ⟨c1, ta, tb, ha, hb, rfl⟩ := foldItems_append rest cur1 b c3 t3 h3
        cases h
        refine ⟨c1, t1 ++ ta, tb, ?_, hb, by simp⟩
        simp only [foldItems, h1, ha]

theorem foldItems_cons {step : Pairs → Val → Val → Except Exc (Pairs × Trace)} {k v : Val} {rest cur c2 : Pairs}
    {t : Trace} (h : foldItems step cur ((k, v) :: rest) = .ok (c2, t)) :
    ∃ c1 t1 t2, step cur k v = .ok (c1, t1) ∧ foldItems step c1 rest = .ok (c2, t2) ∧ t = t1 ++ t2 := by
  simp only [foldItems] at h
  split at h
  · cases h
  · rename_i c1 t1 h1
    split at h
    · cases h
    · rename_i c3 t3 h3
      cases h
      exact ⟨c1, t1, t3, h1, h3, rfl⟩

/-! ### enough fuel ⇒ no OutOfFuel -/

mutual
/-- nesting depth of an incoming value: 0 for a non-mapping, 1 + depth of its items for a mapping -/
def depthV : Val → Nat
  | .dict kvs => depthP kvs + 1
  | _ => 0
/-- nesting depth of the incoming items: the deepest mapping value (0: no value is a mapping) -/
def depthP : List (Val × Val) → Nat
  | [] => 0
  | (_, v) :: rest => max (depthV v) (depthP rest)
end

theorem foldItems_no_fuel_error {step : Pairs → Val → Val → Except Exc (Pairs × Trace)} :
    ∀ (add : Pairs) (cur : Pairs), (∀ kv ∈ add, ∀ c, step c kv.1 kv.2 ≠ .error outOfFuel) →
      foldItems step cur add ≠ .error outOfFuel
  | [], cur, _ => by simp [foldItems]
  | (k, v) :: rest, cur, hstep => by
    simp only [foldItems]
    split
    · rename_i e he
      intro h
      cases h
      exact hstep (k, v) (by simp) cur he
    · rename_i cur1 t1 h1
      have := foldItems_no_fuel_error rest cur1 (fun kv hm => hstep kv (by simp [hm]))
      split
      · rename_i e he
        intro h; cases h; exact this he
      · intro h; cases h

theorem outOfFuel_ne_unhashable : Merge.unhashable ≠ outOfFuel := by decide
theorem outOfFuel_ne_outOfDomain (s : String) : outOfDomain s ≠ outOfFuel := by
  intro h
  have := congrArg Exc.name h
  simp [outOfDomain, outOfFuel] at this

theorem mergeItem_no_fuel_error {fmt : Fmt}
    {recur : (Pairs → Pairs) → Pairs → Pairs → Except Exc (Pairs × Trace)}
    (hfmt : ∀ c v, fmt c v ≠ .error outOfFuel) (rebuild : Pairs → Pairs) (cur : Pairs) (k v : Val)
    (hrec : ∀ sub, v = .dict sub → ∀ rb c, recur rb c sub ≠ .error outOfFuel) :
    mergeItem fmt recur rebuild cur k v ≠ .error outOfFuel := by
  intro h
  unfold mergeItem at h
  simp only [] at h
  repeat' split at h
  all_goals first
    | (cases h; done)
    | (cases h; exact hfmt _ _ ‹_›)
    | (cases h; exact outOfFuel_ne_unhashable rfl)
    | (exact outOfFuel_ne_unhashable (Except.error.inj h))
    | (exact outOfFuel_ne_outOfDomain _ (Except.error.inj h))
    | (cases h; exact hrec _ rfl _ _ ‹_›)

theorem defaultsItem_no_fuel_error {fmt : Fmt}
    {recur : (Pairs → Pairs) → Pairs → Pairs → Except Exc (Pairs × Trace)}
    (hfmt : ∀ c v, fmt c v ≠ .error outOfFuel) (rebuild : Pairs → Pairs) (cur : Pairs) (k v : Val)
    (hrec : ∀ sub, v = .dict sub → ∀ rb c, recur rb c sub ≠ .error outOfFuel) :
    defaultsItem fmt recur rebuild cur k v ≠ .error outOfFuel := by
  intro h
  unfold defaultsItem at h
  simp only [] at h
  repeat' split at h
  all_goals first
    | (cases h; done)
    | (cases h; exact hfmt _ _ ‹_›)
    | (exact outOfFuel_ne_unhashable (Except.error.inj h))
    | (cases h; exact hrec _ rfl _ _ ‹_›)

theorem depthP_mem {add : Pairs} {kv : Val × Val} (h : kv ∈ add) : depthV kv.2 ≤ depthP add := by
  induction add with
  | nil => simp at h
  | cons a rest ih =>
    obtain ⟨k', v'⟩ := a
    simp only [depthP]
    rcases List.mem_cons.mp h with e | hm
    · subst e; exact Nat.le_max_left _ _
    · exact Nat.le_trans (ih hm) (Nat.le_max_right _ _)

/-- **enough fuel ⇒ no OutOfFuel** (merge): the recursion descends only into mapping values of the
    incoming tree, so `depthP add < fuel` is enough — provided the formatter itself never answers
    OutOfFuel. -/
theorem mergeRec_enough_fuel (fmt : Fmt) (hfmt : ∀ c v, fmt c v ≠ .error outOfFuel) :
    ∀ (fuel : Nat) (rebuild : Pairs → Pairs) (cur add : Pairs), depthP add < fuel →
      mergeRec fmt fuel rebuild cur add ≠ .error outOfFuel := by
  intro fuel
  induction fuel with
  | zero => intro _ _ add h; exact absurd h (Nat.not_lt_zero _)
  | succ n ih =>
    intro rebuild cur add hd
    simp only [mergeRec]
    apply foldItems_no_fuel_error
    intro kv hm c
    apply mergeItem_no_fuel_error hfmt
    intro sub hsub rb c'
    apply ih
    have := depthP_mem hm
    rw [hsub] at this
    simp only [depthV] at this
    omega

/-- **enough fuel ⇒ no OutOfFuel** (set_defaults). -/
theorem defaultsRec_enough_fuel (fmt : Fmt) (hfmt : ∀ c v, fmt c v ≠ .error outOfFuel) :
    ∀ (fuel : Nat) (rebuild : Pairs → Pairs) (cur add : Pairs), depthP add < fuel →
      defaultsRec fmt fuel rebuild cur add ≠ .error outOfFuel := by
  intro fuel
  induction fuel with
  | zero => intro _ _ add h; exact absurd h (Nat.not_lt_zero _)
  | succ n ih =>
    intro rebuild cur add hd
    simp only [defaultsRec]
    apply foldItems_no_fuel_error
    intro kv hm c
    apply defaultsItem_no_fuel_error hfmt
    intro sub hsub rb c'
    apply ih
    have := depthP_mem hm
    rw [hsub] at this
    simp only [depthV] at this
    omega

/-! ### the converse: whatever satisfies the specification IS what the model returns (enough fuel) -/

theorem depthP_cons_rest (k v : Val) (rest : Pairs) : depthP rest ≤ depthP ((k, v) :: rest) := by
  simp only [depthP]; exact Nat.le_max_right _ _

theorem depthP_cons_dict (k : Val) (sub rest : Pairs) : depthP sub + 1 ≤ depthP ((k, .dict sub) :: rest) := by
  simp only [depthP, depthV]; exact Nat.le_max_left _ _

/-- the table relation, read back as the model's item function -/
theorem Written.mergeItem {fmt : Fmt}
    {recur : (Pairs → Pairs) → Pairs → Pairs → Except Exc (Pairs × Trace)}
    {rebuild : Pairs → Pairs} {cur : Pairs} {k v fk x : Val}
    (hk : fmt (ctxOf (rebuild cur)) k = .ok fk) (hh : hashable fk = true)
    (hd : descends cur fk v = false) (hw : Written fmt (ctxOf (rebuild cur)) (dictGet? cur fk) v x) :
    Merge.mergeItem fmt recur rebuild cur k v = .ok (dictSet cur fk x, [([fk], true)]) := by
  generalize ho : dictGet? cur fk = old at hw
  cases hw with
  | str hs hf => unfold Merge.mergeItem; simp [hk, hs, hf, hh]
  | bytes => unfold Merge.mergeItem; simp [hk, isStrLike, hh]
  | list hf => unfold Merge.mergeItem; simp [hk, isStrLike, hh, ho, hf]
  | tuple hf => unfold Merge.mergeItem; simp [hk, isStrLike, hh, ho, hf]
  | set hf => unfold Merge.mergeItem; simp [hk, isStrLike, hh, ho, hf]
  | other hs hb hm hf =>
    unfold Merge.mergeItem
    cases old with
    | none => cases v <;> simp_all [isStrLike]
    | some o =>
      have hmo := hm o rfl
      cases v <;> simp_all [isStrLike] <;> cases o <;> simp_all [mergeable]

section converse
variable {fmt : Fmt}

/-- **the specification determines the model's answer**: with fuel above the nesting depth of the
    incoming tree, `mergeRec` returns exactly the content and the named paths of the specification. -/
theorem MergeRun.complete {rebuild : Pairs → Pairs} {cur add cur' : Pairs} {hs : Heads} {t : Trace}
    (h : MergeRun fmt rebuild cur add cur' hs t) :
    ∀ fuel, depthP add < fuel → mergeRec fmt fuel rebuild cur add = .ok (cur', t) := by
  induction h with
  | nil =>
    intro fuel hf
    cases fuel with
    | zero => exact absurd hf (Nat.not_lt_zero _)
    | succ n => simp [mergeRec, foldItems]
  | @write rebuild cur k v rest fk x cur' hs t hk hh hd hw _ ih =>
    intro fuel hf
    cases fuel with
    | zero => exact absurd hf (Nat.not_lt_zero _)
    | succ n =>
      have hrest := ih (n + 1) (Nat.lt_of_le_of_lt (depthP_cons_rest k v rest) hf)
      simp only [mergeRec] at hrest ⊢
      simp only [foldItems, hw.mergeItem hk hh hd, hrest]
      rfl
  | @descend rebuild cur k sub rest fk csub csub' hsub tsub cur' hs t hk hh hold _ _ ih1 ih2 =>
    intro fuel hf
    cases fuel with
    | zero => exact absurd hf (Nat.not_lt_zero _)
    | succ n =>
      have hrest := ih2 (n + 1) (Nat.lt_of_le_of_lt (depthP_cons_rest k _ rest) hf)
      have hsubr := ih1 n (by have := depthP_cons_dict k sub rest; omega)
      have hitem : Merge.mergeItem fmt (mergeRec fmt n) rebuild cur k (.dict sub) =
          .ok (dictSet cur fk (.dict csub'), ([fk], false) :: under fk tsub) := by
        unfold Merge.mergeItem; simp [hk, isStrLike, hh, hold, hsubr]
      simp only [mergeRec] at hrest ⊢
      simp only [foldItems, hitem, hrest]
      rfl

/-- the specification is deterministic: content and named paths are a FUNCTION of formatter, place,
    existing content and incoming tree -/
theorem MergeRun.deterministic {rebuild : Pairs → Pairs} {cur add c1 c2 : Pairs} {hs1 hs2 : Heads} {t1 t2 : Trace}
    (h1 : MergeRun fmt rebuild cur add c1 hs1 t1) (h2 : MergeRun fmt rebuild cur add c2 hs2 t2) :
    c1 = c2 ∧ t1 = t2 := by
  have e1 := h1.complete (depthP add + 1) (Nat.lt_succ_self _)
  have e2 := h2.complete (depthP add + 1) (Nat.lt_succ_self _)
  rw [e1] at e2
  cases e2
  exact ⟨rfl, rfl⟩

theorem DefaultsRun.complete {rebuild : Pairs → Pairs} {cur add cur' : Pairs} {hs : Heads} {t : Trace}
    (h : DefaultsRun fmt rebuild cur add cur' hs t) :
    ∀ fuel, depthP add < fuel → defaultsRec fmt fuel rebuild cur add = .ok (cur', t) := by
  induction h with
  | nil =>
    intro fuel hf
    cases fuel with
    | zero => exact absurd hf (Nat.not_lt_zero _)
    | succ n => simp [defaultsRec, foldItems]
  | @keep rebuild cur k v rest fk old cur' hs t hk hh hold hd _ ih =>
    intro fuel hf
    cases fuel with
    | zero => exact absurd hf (Nat.not_lt_zero _)
    | succ n =>
      have hrest := ih (n + 1) (Nat.lt_of_le_of_lt (depthP_cons_rest k v rest) hf)
      have hitem : Merge.defaultsItem fmt (defaultsRec fmt n) rebuild cur k v = .ok (cur, []) := by
        unfold Merge.defaultsItem
        cases old <;> cases v <;> simp_all [descends]
      simp only [defaultsRec] at hrest ⊢
      simp only [foldItems, hitem, hrest]
      rfl
  | @add rebuild cur k v rest fk fv cur' hs t hk hh hnone hf' _ ih =>
    intro fuel hf
    cases fuel with
    | zero => exact absurd hf (Nat.not_lt_zero _)
    | succ n =>
      have hrest := ih (n + 1) (Nat.lt_of_le_of_lt (depthP_cons_rest k v rest) hf)
      have hitem : Merge.defaultsItem fmt (defaultsRec fmt n) rebuild cur k v =
          .ok (dictSet cur fk fv, [([fk], true)]) := by
        unfold Merge.defaultsItem; simp [hk, hh, hnone, hf']
      simp only [defaultsRec] at hrest ⊢
      simp only [foldItems, hitem, hrest]
      rfl
  | @descend rebuild cur k sub rest fk csub csub' hsub tsub cur' hs t hk hh hold _ _ ih1 ih2 =>
    intro fuel hf
    cases fuel with
    | zero => exact absurd hf (Nat.not_lt_zero _)
    | succ n =>
      have hrest := ih2 (n + 1) (Nat.lt_of_le_of_lt (depthP_cons_rest k _ rest) hf)
      have hsubr := ih1 n (by have := depthP_cons_dict k sub rest; omega)
      have hitem : Merge.defaultsItem fmt (defaultsRec fmt n) rebuild cur k (.dict sub) =
          .ok (dictSet cur fk (.dict csub'), ([fk], false) :: under fk tsub) := by
        unfold Merge.defaultsItem; simp [hk, hh, hold, hsubr]
      simp only [defaultsRec] at hrest ⊢
      simp only [foldItems, hitem, hrest]
      rfl

theorem DefaultsRun.deterministic {rebuild : Pairs → Pairs} {cur add c1 c2 : Pairs} {hs1 hs2 : Heads} {t1 t2 : Trace}
    (h1 : DefaultsRun fmt rebuild cur add c1 hs1 t1) (h2 : DefaultsRun fmt rebuild cur add c2 hs2 t2) :
    c1 = c2 ∧ t1 = t2 := by
  have e1 := h1.complete (depthP add + 1) (Nat.lt_succ_self _)
  have e2 := h2.complete (depthP add + 1) (Nat.lt_succ_self _)
  rw [e1] at e2
  cases e2
  exact ⟨rfl, rfl⟩

end converse

/-- merge has no `kept` heads: the depth-1 entries are one per head -/
theorem filterMap_headEntry_no_kept : ∀ (hs : Heads), (∀ hd ∈ hs, hd.2 ≠ Did.kept) →
    hs.filterMap headEntry = hs.map (fun hd => ([hd.1], hd.2 == Did.wrote))
  | [], _ => rfl
  | (fk, d) :: rest, h => by
    have ih := filterMap_headEntry_no_kept rest (fun hd hm => h hd (List.mem_cons_of_mem _ hm))
    have hd := h (fk, d) (List.mem_cons_self ..)
    cases d with
    | wrote => simp only [List.filterMap_cons, headEntry, List.map_cons, ih]; rfl
    | descended => simp only [List.filterMap_cons, headEntry, List.map_cons, ih]; rfl
    | kept => exact absurd rfl hd

end Pypyr.C10
