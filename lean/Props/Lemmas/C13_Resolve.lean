/- `Stack.WorldOk` ("the world answers a request by its cache key") discharged for the file loader as modelled
   in `PypyrModel/Resolve.lean` (imported read-only), with the dependence on the process cwd made explicit. -/
import PypyrModel.Resolve
import Props.Lemmas.C13_Stack

namespace Pypyr.CacheTS.Stack

/-- How `pypyr.loaders.file.get_pipeline_path` reads the two strings of a request.
    `nameOf s` = `Path(f'{s}.yaml')` split into components (absolute or relative);
    `parentDir s` = `Path(s).resolve()`: for a RELATIVE `s` this depends on the PROCESS working directory
    (`os.getcwd()`) at the moment of the call — not on `config.cwd`, which is fixed at import — and on the
    symlinks of that moment. A `Reading` is therefore part of the world: `os.chdir` is a change of the world. -/
structure Reading where
  nameOf : String → Resolve.Name
  parentDir : String → Resolve.Path

def comps (s : String) : List String := (s.splitOn "/").filter (· ≠ "")

/-- the reading of a process whose working directory is `procCwd` (normalised, symlink-free paths) -/
def readingAt (procCwd : Resolve.Path) : Reading :=
  { nameOf := fun s => if s.startsWith "/" then .abs (comps s) else .rel (comps s)
    parentDir := fun s => if s.startsWith "/" then comps s else procCwd ++ comps s }

/-- the file the file loader finds for a request NOW: `get_pipeline_path(name, parent)`; a falsy parent
    (`None`, `''`, `0`) is no parent -/
def fileResolve (fs : Resolve.Fs) (rd : Reading) (r : Rq) : Option Resolve.Path :=
  match Resolve.getPipelinePathR fs (rd.nameOf r.name) (if r.pt then some (rd.parentDir r.ps) else none) with
  | .ok p => some p
  | .error _ => none

/-- the world of a layered session built from the Resolve model: the file loader resolves through
    `get_pipeline_path`; `enc` numbers the files (any function: unequal paths MAY share a number, equal paths
    cannot get two) -/
def fileWorld (fs : Resolve.Fs) (rd : Reading) (enc : Resolve.Path → Nat) (fileVer : Nat → Ver)
    (custom : Nat → Rq → Option Ver) : World :=
  { resolve := fun r => (fileResolve fs rd r).map enc, fileVer := fileVer, custom := custom }

theorem key_inj {r r' : Rq} (h : r.key = r'.key) : r.name = r'.name ∧ r.pt = r'.pt ∧ (r.pt = true → r.ps = r'.ps) := by
  cases r with | mk pt ps n => cases r' with | mk pt' ps' n' =>
  cases pt <;> cases pt' <;> simp_all [Rq.key, pipelineKey]

/-- `fileResolve_key`: for ONE file system and ONE reading (one process cwd), requests with equal cache key
    resolve to the same path (or both to none). -/
theorem fileResolve_key (fs : Resolve.Fs) (rd : Reading) {r r' : Rq} (hk : r.key = r'.key) :
    fileResolve fs rd r = fileResolve fs rd r' := by
  obtain ⟨hn, hpt, hps⟩ := key_inj hk
  unfold fileResolve
  cases hp : r.pt
  · have hp' : r'.pt = false := hpt ▸ hp
    simp [hn, hp']
  · have hp' : r'.pt = true := hpt ▸ hp
    simp [hn, hp', hps hp]

/-- `worldOk_fileWorld`: the Resolve model of the file loader satisfies `WorldOk`, provided the custom
    loaders do (they are arbitrary functions: hypothesis `hc`). -/
theorem worldOk_fileWorld (fs : Resolve.Fs) (rd : Reading) (enc : Resolve.Path → Nat) (fileVer : Nat → Ver)
    (custom : Nat → Rq → Option Ver)
    (hc : ∀ l r r', l ≠ 0 → Rq.key r = Rq.key r' → custom l r = custom l r') :
    WorldOk (fileWorld fs rd enc fileVer custom) := by
  intro l r r' hk
  unfold World.fresh World.raw
  by_cases hl : l = 0
  · simp only [hl, if_true, fileWorld, fileResolve_key fs rd hk]
  · simp only [hl, if_false, fileWorld]; rw [hc l r r' hl hk]

end Pypyr.CacheTS.Stack
