/-
  C15 helper lemmas: when the temp file STAYS. A run that ends by raising with a failed clean-up in its
  trace (event `removeTemp!`: `remove_temp_file`'s own `os.remove` raised — an Exception, logged and
  swallowed, or a BaseException, which propagates in place of the original error) leaves the temp entry in the
  directory. For every `except` arrangement `cfg`.
-/
import Props.Lemmas.C15_Exec

namespace Pypyr.FsRewrite

variable {fs0 : Fs} {src dst tmp : String} {cfg : Cfg} {plan : Plan}

/-- "If the run raised and the clean-up itself failed, the temp entry is still there at the end." -/
def StaysP (fs0 : Fs) (tmp : String) (cur : Fs) (r : Outcome × Trace) : Prop :=
  ∀ j, r.1 = .raised j → (∃ ev ∈ r.2, ev.1 = "removeTemp!") → ∃ c, final cur r.2 = fs0 ++ [(tmp, c)]

theorem StaysP.cons {cur cur' : Fs} {lbl : String} {r : Outcome × Trace} (hl : lbl ≠ "removeTemp!")
    (h : StaysP fs0 tmp cur' r) : StaysP fs0 tmp cur (r.1, (lbl, cur') :: r.2) := by
  intro j hj ⟨ev, hm, he⟩
  simp only [final_cons]
  simp only [List.mem_cons] at hm
  rcases hm with rfl | hm
  · exact absurd he hl
  · exact h j hj ⟨ev, hm, he⟩

/-- Traces without a failed clean-up satisfy the claim vacuously. -/
theorem StaysP.of_no_rm {cur : Fs} {r : Outcome × Trace} (h : ∀ ev ∈ r.2, ev.1 ≠ "removeTemp!") :
    StaysP fs0 tmp cur r := by
  intro j _ ⟨ev, hm, he⟩
  exact absurd he (h ev hm)

theorem handler_noTemp_stays (i : Nat) (op : Op) (st : St) (ht : st.temp = none) :
    StaysP fs0 tmp st.fs (handler cfg plan i op st) := by
  apply StaysP.of_no_rm
  intro ev hm
  simp only [handler, ht, List.mem_singleton] at hm
  subst hm
  exact op.labelBang_ne_rm

theorem handler_temp_stays (i : Nat) (op : Op) (st : St) (acc : String)
    (ht : st.temp = some tmp) (hfs : st.fs = fs0 ++ [(tmp, acc)]) :
    StaysP fs0 tmp st.fs (handler cfg plan i op st) := by
  intro j hj hrm
  simp only [handler, ht] at hj hrm ⊢
  by_cases hci : (op.isCloseIn && !cfg.closeInTry) = true
  · simp only [hci, if_true] at hj ⊢
    exact ⟨acc, by simp [final, hfs]⟩
  simp only [hci, Bool.false_eq_true, if_false] at hj hrm ⊢
  by_cases hcl : (op.isReplace || cfg.cleanupWrite) = true
  · simp only [hcl, if_true] at hj hrm ⊢
    cases hp : plan (i + 1) with
    | kill => simp [hp] at hj
    | raise => exact ⟨acc, by simp [final, hfs]⟩
    | raiseBase => exact ⟨acc, by simp [final, hfs]⟩
    | none =>
      simp only [hp] at hrm
      obtain ⟨ev, hm, he⟩ := hrm
      simp only [List.mem_cons, List.mem_nil_iff, or_false] at hm
      rcases hm with rfl | rfl
      · exact absurd he op.labelBang_ne_rm
      · exact absurd he (show "removeTemp" ≠ "removeTemp!" by decide)
  · simp only [hcl, Bool.false_eq_true, if_false] at hj ⊢
    exact ⟨acc, by simp [final, hfs]⟩

theorem base_temp_stays (i : Nat) (op : Op) (acc : String) :
    StaysP fs0 tmp (wst fs0 tmp acc).fs
      (if cfg.cleanupBase then handler cfg plan i op (wst fs0 tmp acc)
        else (.raised i, [(op.label ++ "!", (wst fs0 tmp acc).fs)])) := by
  cases cfg.cleanupBase with
  | true => simpa using handler_temp_stays (cfg := cfg) (plan := plan) i op (wst fs0 tmp acc) acc rfl rfl
  | false =>
    simp only [Bool.false_eq_true, if_false]
    intro j _ _
    exact ⟨acc, by simp [final, wst]⟩

theorem base_noTemp_stays (i : Nat) (op : Op) :
    StaysP fs0 tmp fs0
      (if cfg.cleanupBase then handler cfg plan i op { fs := fs0 }
        else (.raised i, [(op.label ++ "!", fs0)])) := by
  cases cfg.cleanupBase with
  | true => simpa using handler_noTemp_stays (fs0 := fs0) (tmp := tmp) (cfg := cfg) (plan := plan) i op { fs := fs0 } rfl
  | false =>
    simp only [Bool.false_eq_true, if_false]
    apply StaysP.of_no_rm
    intro ev hm
    simp only [List.mem_singleton] at hm
    subst hm
    exact op.labelBang_ne_rm

theorem stays_idop (op : Op) (rest : List Op) (i : Nat) (acc : String)
    (hid : apply op (wst fs0 tmp acc) = some (wst fs0 tmp acc))
    (hrest : StaysP fs0 tmp (wst fs0 tmp acc).fs (exec cfg plan (i + 1) (wst fs0 tmp acc) rest)) :
    StaysP fs0 tmp (wst fs0 tmp acc).fs (exec cfg plan i (wst fs0 tmp acc) (op :: rest)) := by
  rw [exec]
  cases hp : plan i with
  | kill => intro j hj; cases hj
  | raise => exact handler_temp_stays i _ _ acc rfl rfl
  | raiseBase => exact base_temp_stays i _ acc
  | none =>
    simp only [hid]
    exact StaysP.cons op.label_ne_rm hrest

theorem stays_pre (op : Op) (rest : List Op) (i : Nat)
    (hid : apply op { fs := fs0 } = some { fs := fs0 })
    (hrest : StaysP fs0 tmp fs0 (exec cfg plan (i + 1) { fs := fs0 } rest)) :
    StaysP fs0 tmp fs0 (exec cfg plan i { fs := fs0 } (op :: rest)) := by
  rw [exec]
  cases hp : plan i with
  | kill => intro j hj; cases hj
  | raise => exact handler_noTemp_stays i _ { fs := fs0 } rfl
  | raiseBase => exact base_noTemp_stays i _
  | none =>
    simp only [hid]
    exact StaysP.cons op.label_ne_rm hrest

theorem stays_replace (i : Nat) (acc : String) (h0 : fs0.get? tmp = none) :
    StaysP fs0 tmp (wst fs0 tmp acc).fs (exec cfg plan i (wst fs0 tmp acc) [.replace dst]) := by
  simp only [exec]
  cases hp : plan i with
  | kill => intro j hj; cases hj
  | raise => exact handler_temp_stays i _ _ acc rfl rfl
  | raiseBase => exact base_temp_stays i _ acc
  | none =>
    have hg : (fs0 ++ [(tmp, acc)]).get? tmp = some acc := Fs.get?_append_self h0
    simp only [apply, wst, hg]
    intro j hj
    cases hj

theorem stays_tail (early : Bool) (i : Nat) (acc : String) (h0 : fs0.get? tmp = none) :
    StaysP fs0 tmp (wst fs0 tmp acc).fs (exec cfg plan i (wst fs0 tmp acc) (tailOps early dst)) := by
  cases early with
  | true =>
    simp only [tailOps, if_true]
    exact stays_idop _ _ i acc rfl (stays_replace (i + 1) acc h0)
  | false =>
    simp only [tailOps, Bool.false_eq_true, if_false]
    exact stays_idop _ _ i acc rfl (stays_idop _ _ (i + 1) acc rfl (stays_replace (i + 1 + 1) acc h0))

theorem stays_body (early : Bool) (body : List Op) (hb : ∀ op ∈ body, op.isBody = true)
    (h0 : fs0.get? tmp = none) :
    ∀ (i : Nat) (acc : String),
      StaysP fs0 tmp (wst fs0 tmp acc).fs (exec cfg plan i (wst fs0 tmp acc) (body ++ tailOps early dst)) := by
  induction body with
  | nil => intro i acc; simpa using stays_tail (dst := dst) (cfg := cfg) (plan := plan) early i acc h0
  | cons op rest ih =>
    intro i acc
    have hrest : ∀ op ∈ rest, op.isBody = true := fun o ho => hb o (List.mem_cons_of_mem _ ho)
    have hop := hb op List.mem_cons_self
    rw [List.cons_append]
    cases op with
    | fmt n => exact stays_idop _ _ i acc rfl (ih hrest (i + 1) acc)
    | write n c =>
      rw [exec]
      cases hp : plan i with
      | kill => intro j hj; cases hj
      | raise => exact handler_temp_stays i _ _ acc rfl rfl
      | raiseBase => exact base_temp_stays i _ acc
      | none =>
        have hg : (fs0 ++ [(tmp, acc)]).get? tmp = some acc := Fs.get?_append_self h0
        have hs : (fs0 ++ [(tmp, acc)]).set tmp (acc ++ c) = fs0 ++ [(tmp, acc ++ c)] :=
          Fs.set_append_self h0
        simp only [apply, wst, hg, hs]
        exact StaysP.cons (Op.label_ne_rm (.write n c)) (ih hrest (i + 1) (acc ++ c))
    | sameFile => simp [Op.isBody] at hop
    | openRead _ => simp [Op.isBody] at hop
    | closeIn => simp [Op.isBody] at hop
    | mkTemp _ => simp [Op.isBody] at hop
    | openWrite _ _ => simp [Op.isBody] at hop
    | close => simp [Op.isBody] at hop
    | replace _ => simp [Op.isBody] at hop

theorem stays_mkTemp (early : Bool) (body : List Op) (hb : ∀ op ∈ body, op.isBody = true)
    (h0 : fs0.get? tmp = none) (i : Nat) :
    StaysP fs0 tmp fs0 (exec cfg plan i { fs := fs0 } (.mkTemp tmp :: (body ++ tailOps early dst))) := by
  rw [exec]
  cases hp : plan i with
  | kill => intro j hj; cases hj
  | raise => exact handler_noTemp_stays i _ { fs := fs0 } rfl
  | raiseBase => exact base_noTemp_stays i _
  | none =>
    simp only [apply, Fs.set_fresh h0]
    refine StaysP.cons (cur' := fs0 ++ [(tmp, "")]) (Op.label_ne_rm (.mkTemp tmp)) ?_
    have := stays_body (dst := dst) (cfg := cfg) (plan := plan) early body hb h0 (i + 1) ""
    simpa [wst] using this

/-- The whole in-place run, whatever the `except` arrangement: if it ended by raising and the clean-up
    itself failed (a `removeTemp!` event), the temp entry is still in the directory. -/
theorem exec_inplace_stays (early : Bool) (body : List Op) (hb : ∀ op ∈ body, op.isBody = true)
    (h0 : fs0.get? tmp = none) (hs : (fs0.get? src).isSome) (i : Nat) :
    StaysP fs0 tmp fs0 (exec cfg plan i { fs := fs0 } (inplaceOps early src dst tmp body)) := by
  have hc : Fs.contains fs0 src = true := by simpa [Fs.contains] using hs
  have hopen : apply (.openRead src) { fs := fs0 } = some { fs := fs0 } := by simp [apply, hc]
  cases early with
  | true =>
    simp only [inplaceOps, headOps, if_true, List.cons_append, List.nil_append]
    exact stays_pre _ _ i rfl (stays_pre _ _ (i + 1) hopen (stays_pre _ _ (i + 1 + 1) rfl
      (stays_mkTemp true body hb h0 (i + 1 + 1 + 1))))
  | false =>
    simp only [inplaceOps, headOps, Bool.false_eq_true, if_false, List.cons_append, List.nil_append]
    exact stays_pre _ _ i rfl (stays_pre _ _ (i + 1) hopen (stays_mkTemp false body hb h0 (i + 1 + 1)))

end Pypyr.FsRewrite
