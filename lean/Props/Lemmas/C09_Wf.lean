/-
  C09 — formatting preserves the representation invariant `wfVal` (dict keys pairwise distinct, set
  members pairwise distinct, at every node): whatever the tree-level formatter returns satisfies it,
  provided the CONTEXT values do (the formatter hands context objects back through `{k}`, `{k:ff}`,
  `!py`). Dicts and sets are rebuilt by `dictSet` / `setInsert`, which establish it; `evalPy` only selects,
  concatenates and computes scalars.
-/
import PypyrModel.Fmt
import PypyrModel.FmtHeap
import Props.Lemmas.C09_Tree

namespace Pypyr.C09
open Pypyr Pypyr.FmtHeap

/-- every value bound in the context satisfies the representation invariant -/
def CtxWf (ctx : Ctx) : Prop := ∀ k v, Ctx.get? ctx k = some v → wfVal v = true

theorem wfValL_append {xs ys : List Val} (hx : wfValL xs = true) (hy : wfValL ys = true) :
    wfValL (xs ++ ys) = true := by
  rw [wfValL_iff] at hx hy ⊢
  intro x hm
  rcases List.mem_append.mp hm with h | h
  · exact hx x h
  · exact hy x h

/-- A predicate on values that holds of every scalar and is inherited by what the `!py` sub-language can
    select from or concatenate out of values it holds of. -/
structure PyClosed (W : Val → Prop) : Prop where
  none : W .none
  bool : ∀ b, W (.bool b)
  int : ∀ i, W (.int i)
  flt : ∀ n k, W (.flt n k)
  str : ∀ s, W (.str s)
  list_mem : ∀ xs x, W (.list xs) → x ∈ xs → W x
  tuple_mem : ∀ xs x, W (.tuple xs) → x ∈ xs → W x
  dict_val : ∀ kvs k v, W (.dict kvs) → dictGet? kvs k = some v → W v
  list_app : ∀ a b, W (.list a) → W (.list b) → W (.list (a ++ b))
  tuple_app : ∀ a b, W (.tuple a) → W (.tuple b) → W (.tuple (a ++ b))

section closed
variable {W : Val → Prop} (cl : PyClosed W)
include cl

theorem cl_numToVal (x : Num) : W x.toVal := by
  unfold Num.toVal
  split
  · exact cl.flt _ _
  · exact cl.int _

omit cl in
theorem cl_listIdx {xs : List Val} {i : Int} {what : String} {v : Val}
    (h : listIdx xs i what = .ok v) : v ∈ xs := by
  unfold listIdx at h
  simp only [] at h
  generalize (if i < 0 then i + (xs.length : Int) else i) = j at h
  split at h
  · cases h
  · split at h
    · rename_i w hw
      cases h
      exact List.mem_of_getElem? hw
    · cases h

theorem cl_pyIdx {a i v : Val} (ha : W a) (h : pyIdx a i = .ok v) : W v := by
  unfold pyIdx at h
  split at h
  · split at h
    · exact cl.list_mem _ _ ha (cl_listIdx h)
    · exact cl.list_mem _ _ ha (cl_listIdx h)
    · cases h
  · split at h
    · exact cl.tuple_mem _ _ ha (cl_listIdx h)
    · exact cl.tuple_mem _ _ ha (cl_listIdx h)
    · cases h
  · split at h
    · rename_i w hw; cases h; exact cl.dict_val _ _ _ ha hw
    · cases h
  · cases h

theorem cl_pyAdd {a b v : Val} (ha : W a) (hb : W b) (h : pyAdd a b = .ok v) : W v := by
  unfold pyAdd at h
  split at h
  · cases h; exact cl_numToVal cl _
  · split at h
    · cases h; exact cl.str _
    · cases h; exact cl.list_app _ _ ha hb
    · cases h; exact cl.tuple_app _ _ ha hb
    · cases h

theorem cl_const (c : PyConst) : W c.toVal := by
  cases c
  · exact cl.none
  · exact cl.bool _
  · exact cl.int _
  · exact cl.str _

/-- `!py`: whatever the sub-language computes from context values satisfying `W` satisfies `W`. -/
theorem evalPy_closed {ctx : Ctx} (hc : ∀ k v, Ctx.get? ctx k = some v → W v) :
    ∀ (e : PyExpr) (v : Val), evalPy ctx e = .ok v → W v := by
  intro e
  induction e with
  | name n =>
    intro v h
    simp only [evalPy] at h
    split at h
    · rename_i w hw; cases h; exact hc n _ hw
    · cases h
  | const c => intro v h; simp only [evalPy] at h; cases h; exact cl_const cl c
  | not a _ =>
    intro v h
    simp only [evalPy, bind, Except.bind, pure, Except.pure] at h
    split at h
    · cases h
    · cases h; exact cl.bool _
  | len a _ =>
    intro v h
    simp only [evalPy, bind, Except.bind] at h
    split at h
    · cases h
    · rename_i w hw
      unfold pyLen at h
      split at h <;> first | (cases h; exact cl.int _) | cases h
  | idx a i iha ihi =>
    intro v h
    simp only [evalPy, bind, Except.bind] at h
    split at h
    · cases h
    · rename_i w hw
      split at h
      · cases h
      · rename_i j hj
        exact cl_pyIdx cl (iha w hw) h
  | binop op a b iha ihb =>
    intro v h
    cases op with
    | and =>
      simp only [evalPy, bind, Except.bind, pure, Except.pure] at h
      split at h
      · cases h
      · rename_i w hw
        split at h
        · exact ihb v h
        · cases h; exact iha _ hw
    | or =>
      simp only [evalPy, bind, Except.bind, pure, Except.pure] at h
      split at h
      · cases h
      · rename_i w hw
        split at h
        · cases h; exact iha _ hw
        · exact ihb v h
    | add =>
      simp only [evalPy, bind, Except.bind] at h
      split at h
      · cases h
      · rename_i w hw
        split at h
        · cases h
        · rename_i x hx
          exact cl_pyAdd cl (iha w hw) (ihb x hx) h
    | sub =>
      simp only [evalPy, bind, Except.bind, pure, Except.pure, throw, throwThe, MonadExceptOf.throw] at h
      split at h
      · cases h
      · split at h
        · cases h
        · split at h
          · cases h; exact cl_numToVal cl _
          · cases h
    | mul =>
      simp only [evalPy, bind, Except.bind, pure, Except.pure, throw, throwThe, MonadExceptOf.throw] at h
      split at h
      · cases h
      · split at h
        · cases h
        · split at h
          · cases h; exact cl_numToVal cl _
          · cases h
    | eq | ne =>
      simp only [evalPy, bind, Except.bind, pure, Except.pure] at h
      split at h
      · cases h
      · split at h
        · cases h
        · cases h; exact cl.bool _
    | lt | le | gt | ge =>
      simp only [evalPy, bind, Except.bind, pure, Except.pure] at h
      split at h
      · cases h
      · split at h
        · cases h
        · split at h
          · cases h
          · cases h; exact cl.bool _
    | isIn =>
      simp only [evalPy, bind, Except.bind, pure, Except.pure] at h
      split at h
      · cases h
      · split at h
        · cases h
        · split at h
          · cases h
          · cases h; exact cl.bool _

end closed

theorem wf_dictGet {kvs : List (Val × Val)} {k v : Val} (hx : wfValP kvs = true)
    (h : dictGet? kvs k = some v) : wfVal v = true := by
  induction kvs with
  | nil => simp [dictGet?] at h
  | cons p rest ih =>
    obtain ⟨k', v'⟩ := p
    simp only [wfValP, Bool.and_eq_true] at hx
    simp only [dictGet?] at h
    split at h
    · cases h; exact hx.1.2
    · exact ih hx.2 h

theorem wfVal_closed : PyClosed (fun v => wfVal v = true) where
  none := rfl
  bool := fun _ => rfl
  int := fun _ => rfl
  flt := fun _ _ => rfl
  str := fun _ => rfl
  list_mem := fun xs x h hx => (wfValL_iff xs).mp (by simpa [wfVal] using h) x hx
  tuple_mem := fun xs x h hx => (wfValL_iff xs).mp (by simpa [wfVal] using h) x hx
  dict_val := fun kvs k v h hg => by
    simp only [wfVal, Bool.and_eq_true] at h
    exact wf_dictGet h.2 hg
  list_app := fun a b ha hb => by
    simp only [wfVal] at ha hb ⊢; exact wfValL_append ha hb
  tuple_app := fun a b ha hb => by
    simp only [wfVal] at ha hb ⊢; exact wfValL_append ha hb

/-- `!py`: whatever the sub-language computes from well-formed context values is well-formed. -/
theorem evalPy_wf {ctx : Ctx} (hc : CtxWf ctx) (e : PyExpr) (v : Val) (h : evalPy ctx e = .ok v) :
    wfVal v = true :=
  evalPy_closed wfVal_closed hc e v h

/-! ### rebuilt dicts and sets -/

theorem dictSet_keys_nodup : ∀ (acc : List (Val × Val)) (k v : Val), (acc.map (·.1)).Nodup →
    ((dictSet acc k v).map (·.1)).Nodup
  | [], k, v, _ => by simp [dictSet]
  | (k', v') :: rest, k, v, hnd => by
    simp only [List.map_cons, List.nodup_cons] at hnd
    simp only [dictSet]
    split
    · simpa using hnd
    · rename_i hne
      simp only [List.map_cons, List.nodup_cons]
      refine ⟨?_, dictSet_keys_nodup rest k v hnd.2⟩
      intro hm
      have : ∀ (acc : List (Val × Val)), k' ∈ (dictSet acc k v).map (·.1) → k' ∈ acc.map (·.1) ∨ k' = k := by
        intro acc
        induction acc with
        | nil => intro h; simp [dictSet] at h; exact Or.inr h
        | cons p r ih =>
          obtain ⟨pk, pv⟩ := p
          intro h
          simp only [dictSet] at h
          split at h
          · simp at h ⊢; rcases h with h | h
            · exact Or.inl (Or.inl h)
            · exact Or.inl (Or.inr h)
          · simp only [List.map_cons, List.mem_cons] at h ⊢
            rcases h with h | h
            · exact Or.inl (Or.inl h)
            · rcases ih h with h' | h'
              · exact Or.inl (Or.inr h')
              · exact Or.inr h'
      rcases this rest hm with h | h
      · exact hnd.1 h
      · exact hne h

theorem dictSet_mem {acc : List (Val × Val)} {k v : Val} {p : Val × Val} (hp : p ∈ dictSet acc k v) :
    (p.1 = k ∧ p.2 = v) ∨ p ∈ acc ∨ (∃ q ∈ acc, p.1 = q.1 ∧ p.2 = v) := by
  induction acc with
  | nil => simp [dictSet] at hp; subst hp; exact Or.inl ⟨rfl, rfl⟩
  | cons q rest ih =>
    obtain ⟨qk, qv⟩ := q
    simp only [dictSet] at hp
    split at hp
    · rcases List.mem_cons.mp hp with rfl | h
      · exact Or.inr (Or.inr ⟨(qk, qv), List.mem_cons_self, rfl, rfl⟩)
      · exact Or.inr (Or.inl (List.mem_cons_of_mem _ h))
    · rcases List.mem_cons.mp hp with rfl | h
      · exact Or.inr (Or.inl List.mem_cons_self)
      · rcases ih h with h' | h' | ⟨q, hq, h'⟩
        · exact Or.inl h'
        · exact Or.inr (Or.inl (List.mem_cons_of_mem _ h'))
        · exact Or.inr (Or.inr ⟨q, List.mem_cons_of_mem _ hq, h'⟩)

theorem foldl_dictSet_wf (W : Val → Prop) : ∀ (kvs acc : List (Val × Val)),
    (∀ p ∈ kvs, W p.1 ∧ W p.2) → (∀ p ∈ acc, W p.1 ∧ W p.2) → (acc.map (·.1)).Nodup →
    (∀ p ∈ kvs.foldl (fun a kv => dictSet a kv.1 kv.2) acc, W p.1 ∧ W p.2) ∧
    ((kvs.foldl (fun a kv => dictSet a kv.1 kv.2) acc).map (·.1)).Nodup
  | [], acc, _, hacc, hnd => ⟨hacc, hnd⟩
  | kv :: rest, acc, hk, hacc, hnd => by
    simp only [List.foldl_cons]
    apply foldl_dictSet_wf W rest _ (fun p hp => hk p (List.mem_cons_of_mem _ hp))
    · intro p hp
      have hkv := hk kv List.mem_cons_self
      rcases dictSet_mem hp with ⟨h1, h2⟩ | h | ⟨q, hq, h1, h2⟩
      · rw [h1, h2]; exact hkv
      · exact hacc p h
      · rw [h1, h2]; exact ⟨(hacc q hq).1, hkv.2⟩
    · exact dictSet_keys_nodup acc kv.1 kv.2 hnd

theorem wfValP_of_forall {kvs : List (Val × Val)} (h : ∀ p ∈ kvs, wfVal p.1 = true ∧ wfVal p.2 = true) :
    wfValP kvs = true := (wfValP_iff kvs).mpr h

theorem wf_rebuildDict {qs : List (Val × Val)} (h : ∀ p ∈ qs, wfVal p.1 = true ∧ wfVal p.2 = true) :
    wfVal (.dict (rebuildDict qs)) = true := by
  have := foldl_dictSet_wf (fun v => wfVal v = true) qs [] h (by intro p hp; simp at hp) (by simp)
  simp only [wfVal, Bool.and_eq_true]
  refine ⟨?_, wfValP_of_forall this.1⟩
  rw [nodupB_iff, keysOf_eq_map]
  exact this.2

theorem foldl_setInsert_wf (W : Val → Prop) : ∀ (xs acc : List Val),
    (∀ x ∈ xs, W x) → (∀ x ∈ acc, W x) → acc.Nodup →
    (∀ x ∈ xs.foldl setInsert acc, W x) ∧ (xs.foldl setInsert acc).Nodup
  | [], acc, _, hacc, hnd => ⟨hacc, hnd⟩
  | x :: rest, acc, hx, hacc, hnd => by
    simp only [List.foldl_cons]
    apply foldl_setInsert_wf W rest _ (fun y hy => hx y (List.mem_cons_of_mem _ hy))
    · intro y hy
      simp only [setInsert] at hy
      split at hy
      · exact hacc y hy
      · rcases List.mem_append.mp hy with h | h
        · exact hacc y h
        · simp at h; subst h; exact hx y List.mem_cons_self
    · simp only [setInsert]
      split
      · exact hnd
      · rename_i hc
        rw [List.nodup_append]
        refine ⟨hnd, by simp, ?_⟩
        intro a ha b hb
        simp at hb
        subst hb
        intro e
        subst e
        exact hc (List.contains_iff_mem.mpr ha)

theorem wf_setOfList {ys : List Val} (h : ∀ y ∈ ys, wfVal y = true) : wfVal (.set (setOfList ys)) = true := by
  have := foldl_setInsert_wf (fun v => wfVal v = true) ys [] h (by intro x hx; simp at hx) (by simp)
  simp only [wfVal, Bool.and_eq_true]
  exact ⟨(nodupB_iff _).mpr this.2, (wfValL_iff _).mpr this.1⟩

theorem mapE_forall_out {α β} {f : α → Except Exc β} {Q : β → Prop} (hf : ∀ x y, f x = .ok y → Q y) :
    ∀ {xs : List α} {ys : List β}, mapE f xs = .ok ys → ∀ y ∈ ys, Q y
  | [], ys, h, y, hy => by simp only [mapE] at h; cases h; simp at hy
  | x :: xs, ys, h, y, hy => by
    simp only [mapE] at h
    split at h
    · cases h
    · rename_i y0 hy0
      split at h
      · cases h
      · rename_i ys' hys
        cases h
        rcases List.mem_cons.mp hy with rfl | hm
        · exact hf x _ hy0
        · exact mapE_forall_out hf hys y hm

/-- **`fmt_preserves_wf`, all three functions.** -/
theorem fmt_wf_all : ∀ n : Nat,
    (∀ ctx b v r, CtxWf ctx → fmtIter n ctx b v = .ok r → wfVal r = true) ∧
    (∀ ctx b name spec r, CtxWf ctx → fmtField n ctx b name spec = .ok r → wfVal r.1 = true) ∧
    (∀ ctx b s r, CtxWf ctx → fmtKeepType n ctx b s = .ok r → wfVal r = true) := by
  intro n
  induction n with
  | zero =>
    refine ⟨?_, ?_, ?_⟩
    · intro ctx b v r _ h; simp [fmtIter] at h
    · intro ctx b name spec r _ h; simp [fmtField] at h
    · intro ctx b s r _ h; simp [fmtKeepType] at h
  | succ n ih =>
    obtain ⟨ihI, ihF, ihK⟩ := ih
    refine ⟨?_, ?_, ?_⟩
    · intro ctx b v r hc h
      cases v with
      | sic s => simp only [fmtIter] at h; cases h; simp [wfVal]
      | py e => simp only [fmtIter] at h; exact evalPy_wf hc e r h
      | jsonify x =>
        rw [fmtIter] at h
        split at h
        · cases h
        · split at h
          · cases h; simp [wfVal]
          · cases h
      | str s => rw [fmtIter] at h; exact ihK ctx b s r hc h
      | dict kvs =>
        rw [fmtIter] at h
        split at h
        · cases h
        · rename_i kvs' hm
          cases h
          apply wf_rebuildDict
          refine mapE_forall_out (Q := fun p => wfVal p.1 = true ∧ wfVal p.2 = true) ?_ hm
          intro kv y hy
          split at hy
          · cases hy
          · rename_i k hk
            split at hy
            · cases hy
            · rename_i w hw
              cases hy
              exact ⟨ihI ctx b kv.1 k hc hk, ihI ctx b kv.2 w hc hw⟩
      | list xs =>
        rw [fmtIter] at h
        cases hm : mapE (fmtIter n ctx b) xs with
        | error e => rw [hm] at h; cases h
        | ok ys =>
          rw [hm] at h; cases h
          simp only [wfVal]
          exact (wfValL_iff ys).mpr (mapE_forall_out (fun x y hxy => ihI ctx b x y hc hxy) hm)
      | tuple xs =>
        rw [fmtIter] at h
        cases hm : mapE (fmtIter n ctx b) xs with
        | error e => rw [hm] at h; cases h
        | ok ys =>
          rw [hm] at h; cases h
          simp only [wfVal]
          exact (wfValL_iff ys).mpr (mapE_forall_out (fun x y hxy => ihI ctx b x y hc hxy) hm)
      | set xs =>
        rw [fmtIter] at h
        cases hm : mapE (fmtIter n ctx b) xs with
        | error e => rw [hm] at h; cases h
        | ok ys =>
          rw [hm] at h; cases h
          exact wf_setOfList (mapE_forall_out (fun x y hxy => ihI ctx b x y hc hxy) hm)
      | none => simp only [fmtIter] at h; cases h; simp [wfVal]
      | bool x => simp only [fmtIter] at h; cases h; simp [wfVal]
      | int x => simp only [fmtIter] at h; cases h; simp [wfVal]
      | flt x y => simp only [fmtIter] at h; cases h; simp [wfVal]
      | bytes x => simp only [fmtIter] at h; cases h; simp [wfVal]
      | obj x => simp only [fmtIter] at h; cases h; simp [wfVal]
    · intro ctx b name spec r hc h
      rw [fmtField] at h
      split at h
      · cases h
      · rename_i obj hobj
        split at h
        · split at h
          · cases h
          · rename_i o ho
            cases h
            exact ihI ctx true obj o hc ho
        · cases h
          exact hc name obj hobj
    · intro ctx b s r hc h
      rw [fmtKeepType] at h
      split at h
      · cases h
      · split at h
        · cases h; simp [wfVal]
        · cases h; simp [wfVal]
        · rename_i name spec _
          split at h
          · cases h
          · rename_i obj recursed hf
            have hw := ihF ctx b name spec (obj, recursed) hc hf
            split at h
            · cases h; exact hw
            · exact ihI ctx (spec == "rf") obj r hc h
        · split at h
          · cases h
          · cases h; simp [wfVal]

end Pypyr.C09
