/- Helper lemmas for C17: the configuration parser yields the instructions in the order of the short
   specification `flattenSpec`. -/
import PypyrModel.Cmd

set_option linter.unusedSimpArgs false

namespace Pypyr.Cmd

theorem strs?_spec : ∀ (xs : List Val) (ss : List String), strs? xs = some ss → xs.filterMap strOf? = ss
  | [], ss, h => by simp [strs?] at h; simp [h]
  | .str s :: xs, ss, h => by
    simp only [strs?, Option.map_eq_some_iff] at h
    obtain ⟨t, ht, rfl⟩ := h
    simp [List.filterMap_cons, strOf?, strs?_spec xs t ht]
  | .none :: _, _, h | .bool _ :: _, _, h | .int _ :: _, _, h | .flt _ _ :: _, _, h | .bytes _ :: _, _, h
  | .list _ :: _, _, h | .tuple _ :: _, _, h | .dict _ :: _, _, h | .set _ :: _, _, h | .sic _ :: _, _, h
  | .py _ :: _, _, h | .jsonify _ :: _, _, h | .obj _ :: _, _, h => by simp [strs?] at h

theorem seq?_specInner (v : Val) (ys : List Val) (ss : List String) (hv : seq? v = some ys)
    (hs : strs? ys = some ss) : specInner v = ss := by
  cases v <;> simp [seq?] at hv
  all_goals (subst hv; simpa [specInner] using strs?_spec _ _ hs)

theorem entries?_spec (async : Bool) : ∀ (xs : List Val) (es : List RawEntry),
    entries? async xs = some es → es.flatMap RawEntry.strings = xs.flatMap specInner
  | [], es, h => by simp [entries?] at h; simp [h]
  | .str s :: xs, es, h => by
    simp only [entries?, Option.map_eq_some_iff] at h
    obtain ⟨t, ht, rfl⟩ := h
    simp [RawEntry.strings, specInner, entries?_spec async xs t ht]
  | .list ys :: xs, es, h => by
    cases async <;> simp only [entries?, seq?, Bool.false_eq_true, if_false, if_true] at h
    · cases h
    · cases h1 : strs? ys <;> cases h2 : entries? true xs <;> simp [h1, h2] at h
      subst h
      simp [RawEntry.strings, specInner, strs?_spec _ _ h1, entries?_spec true xs _ h2]
  | .tuple ys :: xs, es, h => by
    cases async <;> simp only [entries?, seq?, Bool.false_eq_true, if_false, if_true] at h
    · cases h
    · cases h1 : strs? ys <;> cases h2 : entries? true xs <;> simp [h1, h2] at h
      subst h
      simp [RawEntry.strings, specInner, strs?_spec _ _ h1, entries?_spec true xs _ h2]
  | .none :: _, _, h | .bool _ :: _, _, h | .int _ :: _, _, h | .flt _ _ :: _, _, h | .bytes _ :: _, _, h
  | .dict _ :: _, _, h | .set _ :: _, _, h | .sic _ :: _, _, h
  | .py _ :: _, _, h | .jsonify _ :: _, _, h | .obj _ :: _, _, h => by
    cases async <;> simp [entries?, seq?] at h

theorem runOf?_spec (async : Bool) (r : Val) (run : RawRun) (h : runOf? async r = some run) :
    run.strings = specStrings r := by
  cases r <;> simp [runOf?] at h
  · subst h; simp [RawRun.strings, specStrings]
  · obtain ⟨es, he, rfl⟩ := h
    simpa [RawRun.strings, specStrings] using entries?_spec async _ _ he
  · obtain ⟨es, he, rfl⟩ := h
    simpa [RawRun.strings, specStrings] using entries?_spec async _ _ he

/-- The declarations of one command: its strings with its `save` / `text`. -/
def RawCommand.decls (c : RawCommand) : List (String × Bool × Bool) :=
  c.run.strings.map (fun s => (s, c.set.save, c.set.text))

theorem createCommand_spec (async dflt : Bool) (kvs : List (Val × Val)) (c : RawCommand)
    (h : createCommand async dflt kvs = some (.ok c)) : c.decls = specItem (.dict kvs) := by
  unfold createCommand at h
  cases hr : dget kvs "run" with
  | none => simp [hr] at h
  | some r =>
    simp only [hr] at h
    by_cases ht : r.truthy = true
    · simp only [ht, Bool.not_true, Bool.false_eq_true, if_false] at h
      split at h
      · simp at h
      · split at h
        · rename_i run o e cwd enc hrun _ _ _ _
          simp only [Option.some.injEq, Except.ok.injEq] at h
          subst h
          have := runOf?_spec async r run hrun
          cases hs : castToBool ((dget kvs "save").getD (.bool false)) <;>
            simp [RawCommand.decls, specItem, hr, this, hs]
        · simp at h
    · simp [ht] at h

theorem parseItem_spec (async dflt : Bool) (v : Val) (c : RawCommand)
    (h : parseItem async dflt v = some (.ok c)) : c.decls = specItem v := by
  cases v <;> simp only [parseItem] at h
  case str s =>
    simp only [Option.some.injEq, Except.ok.injEq] at h
    subst h
    simp [RawCommand.decls, RawRun.strings, specItem, simpleSettings]
  case dict kvs => exact createCommand_spec async dflt kvs c h
  case list xs =>
    cases async <;> simp at h
    obtain ⟨ss, hs, rfl⟩ := h
    simp [RawCommand.decls, RawRun.strings, RawEntry.strings, specItem, simpleSettings, strs?_spec _ _ hs]
  case tuple xs =>
    cases async <;> simp at h
    obtain ⟨ss, hs, rfl⟩ := h
    simp [RawCommand.decls, RawRun.strings, RawEntry.strings, specItem, simpleSettings, strs?_spec _ _ hs]
  all_goals simp [excBadItem] at h

theorem rawDecls_eq (cs : List RawCommand) : rawDecls cs = cs.flatMap RawCommand.decls := rfl

theorem parseItems_spec (async dflt : Bool) : ∀ (vs : List Val) (cs : List RawCommand),
    parseItems async dflt vs = some (.ok cs) → rawDecls cs = vs.flatMap specItem
  | [], cs, h => by simp [parseItems] at h; simp [h, rawDecls]
  | v :: vs, cs, h => by
    unfold parseItems at h
    cases hv : parseItem async dflt v with
    | none => simp [hv] at h
    | some r =>
      cases r with
      | error e => simp [hv] at h
      | ok c =>
        simp only [hv] at h
        cases hvs : parseItems async dflt vs with
        | none => simp [hvs] at h
        | some r' =>
          cases r' with
          | error e => simp [hvs] at h
          | ok cs' =>
            simp only [hvs, Option.some.injEq, Except.ok.injEq] at h
            subst h
            rw [rawDecls_eq, List.flatMap_cons, List.flatMap_cons, ← rawDecls_eq,
              parseItems_spec async dflt vs cs' hvs, parseItem_spec async dflt v c hv]

/-- The parser yields the instructions, with the `save` / `text` of their command, in the order
    `flattenSpec` reads off the configuration value. -/
theorem parse_decls (async dflt : Bool) (cfg : Val) (cs : List RawCommand)
    (h : parseCmdConfig async dflt (some cfg) = some (.ok cs)) : rawDecls cs = flattenSpec cfg := by
  cases cfg <;> simp only [parseCmdConfig] at h
  case str s =>
    simp only [Option.some.injEq, Except.ok.injEq] at h
    subst h
    simp [rawDecls, RawRun.strings, flattenSpec, specItems, specItem, simpleSettings]
  case dict kvs =>
    cases hc : createCommand async dflt kvs with
    | none => simp [hc] at h
    | some r =>
      cases r with
      | error e => simp [hc] at h
      | ok c =>
        simp only [hc, Option.some.injEq, Except.ok.injEq] at h
        subst h
        have := createCommand_spec async dflt kvs c hc
        simpa [rawDecls_eq, flattenSpec, specItems] using this
  case list xs => simpa [flattenSpec, specItems] using parseItems_spec async dflt xs cs h
  case tuple xs => simpa [flattenSpec, specItems] using parseItems_spec async dflt xs cs h
  all_goals simp [excBadConfig, excNoValue] at h

/-- … and so do the resolved serial commands. -/
theorem declsOf_toS (w : World) (cs : List RawCommand) :
    (declsOf (cs.map (RawCommand.toS w))).map (fun d => (d.proc, d.save, d.text)) =
      (rawDecls cs).map (fun x => (w.proc x.1, x.2.1, x.2.2)) := by
  induction cs with
  | nil => rfl
  | cons c cs ih =>
    simp only [List.map_cons, declsOf, List.map_append, ih, rawDecls_eq, List.flatMap_cons]
    simp [RawCommand.toS, RawCommand.decls, Function.comp_def]

end Pypyr.Cmd
