/-
  C15 helper lemmas: runs in which some jobs are in place and others write to another file
  (`in: ['d1/a', 'd2/a'], out: 'd1/'` makes the first job an in-place edit and the second a direct write).
  If no job's direct out is a source (or a temp name), every source of an in-place job is whole at every
  instant, whatever the direct writes do to their own targets.
-/
import Props.Lemmas.C15_Links

namespace Pypyr.FsRewrite

namespace Links

/-- No hard links: an inode id names at most one directory entry. -/
def InoInj (l : Links) : Prop := ∀ p q n, l.inoOf p = some n → l.inoOf q = some n → p = q

theorem sameIno_eq_of_inj {l : Links} (h : InoInj l) {p q : String} (hs : l.sameIno p q = true) : p = q := by
  simp only [sameIno, Bool.or_eq_true, beq_iff_eq] at hs
  rcases hs with h1 | h2
  · exact h1
  · cases hp : l.inoOf p <;> cases hq : l.inoOf q <;> simp [hp, hq] at h2
    subst h2
    exact h p q _ hp hq

theorem peers_nil_of_inj {l : Links} (h : InoInj l) (o : String) : l.peers o = [] := by
  unfold peers
  cases ho : l.inoOf o with
  | none => rfl
  | some n =>
    simp only
    rw [List.filter_eq_nil_iff]
    intro p _
    simp only [Bool.and_eq_true, bne_iff_ne, beq_iff_eq, not_and]
    intro hne hp
    exact hne (h p o n hp ho)

theorem lookup_filter_ne {α} (xs : List (String × α)) (p q : String) (h : q ≠ p) :
    (xs.filter (·.1 != p)).lookup q = xs.lookup q := by
  induction xs with
  | nil => rfl
  | cons x xs ih =>
    obtain ⟨k, v⟩ := x
    by_cases hk : k = p
    · subst hk
      have : (q == k) = false := by simpa using h
      simp [List.filter, List.lookup, this, ih]
    · have hk' : (k != p) = true := by simpa using hk
      simp only [List.filter, hk', List.lookup]
      cases (q == k) <;> simp [ih]

theorem inoOf_bind (l : Links) (p : String) (n : Nat) (q : String) :
    (l.bind p n).inoOf q = if q = p then some n else l.inoOf q := by
  simp only [inoOf, bind, List.lookup]
  by_cases h : q = p
  · subst h; simp
  · have : (q == p) = false := by simpa using h
    simp [this, h, lookup_filter_ne _ _ _ h]

theorem mem_of_lookup {α} (xs : List (String × α)) (q : String) (v : α) (h : xs.lookup q = some v) :
    (q, v) ∈ xs := by
  induction xs with
  | nil => simp [List.lookup] at h
  | cons x xs ih =>
    obtain ⟨k, w⟩ := x
    simp only [List.lookup] at h
    cases hk : (q == k) with
    | true =>
      simp only [hk, Option.some.injEq] at h
      have : q = k := by simpa using hk
      subst this; subst h
      exact List.mem_cons_self
    | false =>
      simp only [hk] at h
      exact List.mem_cons_of_mem _ (ih h)

theorem foldl_max_ge (xs : List (String × Nat)) : ∀ (a : Nat),
    a ≤ xs.foldl (fun m e => max m e.2) a ∧ ∀ e ∈ xs, e.2 ≤ xs.foldl (fun m e => max m e.2) a := by
  induction xs with
  | nil => intro a; simp
  | cons x xs ih =>
    intro a
    simp only [List.foldl_cons, List.mem_cons]
    have h := ih (max a x.2)
    refine ⟨by omega, ?_⟩
    intro e he
    rcases he with rfl | he
    · omega
    · exact h.2 e he

theorem lt_fresh {l : Links} {q : String} {m : Nat} (h : l.inoOf q = some m) : m < l.fresh := by
  have hm := mem_of_lookup _ _ _ h
  have := (foldl_max_ge l.ino 0).2 (q, m) hm
  simp only [fresh]
  omega

theorem InoInj.bind_fresh {l : Links} (h : InoInj l) (p : String) : InoInj (l.bind p l.fresh) := by
  intro q1 q2 n h1 h2
  rw [inoOf_bind] at h1 h2
  by_cases e1 : q1 = p <;> by_cases e2 : q2 = p
  · rw [e1, e2]
  · simp only [e1, if_true, Option.some.injEq] at h1
    simp only [e2, if_false] at h2
    subst h1
    exact absurd (lt_fresh h2) (Nat.lt_irrefl _)
  · simp only [e2, if_true, Option.some.injEq] at h2
    simp only [e1, if_false] at h1
    subst h2
    exact absurd (lt_fresh h1) (Nat.lt_irrefl _)
  · simp only [e1, e2, if_false] at h1 h2
    exact h q1 q2 n h1 h2

end Links

/-- Hypotheses of a mixed run against the directory `fs0` and the link table `l`. -/
structure MixedWF (l : Links) (fs0 : Fs) (J : List Job) : Prop where
  srcExists : ∀ j ∈ J, (fs0.get? j.src).isSome
  tmpFresh : ∀ j ∈ J, fs0.get? j.tmp = none
  bodyOps : ∀ j ∈ J, ∀ op ∈ j.body, op.isBody = true
  noLink : ∀ j ∈ J, j.dst = none
  srcCanon : ∀ j ∈ J, l.resolve j.src = j.src ∧ j.src ≠ ""
  /-- no hard links in the tree -/
  inj : l.InoInj
  /-- every job is in place (out absent or a spelling of its own source entry) or writes to an entry that
      is NO job's source and no temp name -/
  kind : ∀ j ∈ J, PathAlias l j ∨
    ∃ o, j.out = some o ∧ o ≠ "" ∧ (∀ j' ∈ J, l.resolve o ≠ j'.src) ∧ (∀ j' ∈ J, l.resolve o ≠ j'.tmp)

/-- `p` is the entry some job writes to directly. -/
def IsOut (l : Links) (J : List Job) (p : String) : Prop :=
  ∃ j ∈ J, ∃ o, j.out = some o ∧ l.resolve o = p ∧ p ≠ j.src

/-- Every path that is neither a temp name nor a direct-out entry holds what it held in `fs0`, or it is the
    source of an in-place job holding the complete new content of that job. -/
def WholeM (l : Links) (fs0 : Fs) (J : List Job) (s : Fs) : Prop :=
  ∀ p, (∀ j ∈ J, p ≠ j.tmp) → ¬ IsOut l J p →
    s.get? p = fs0.get? p ∨ ∃ j ∈ J, PathAlias l j ∧ p = j.src ∧ s.get? p = some (newContent j.body)

/-- What the loop keeps true of its link table and directory. -/
structure MInv (l : Links) (fs0 : Fs) (J : List Job) (l' : Links) (cur : Fs) : Prop where
  inj : l'.InoInj
  res : ∀ q, l'.resolve q = l.resolve q
  srcs : ∀ j ∈ J, (cur.get? j.src).isSome
  tmps : ∀ j ∈ J, cur.get? j.tmp = none
  whole : WholeM l fs0 J cur

theorem pathAlias_of_res {l l' : Links} {j : Job} (hres : ∀ q, l'.resolve q = l.resolve q) (h : PathAlias l j) :
    PathAlias l' j := by
  rcases h with h | ⟨o, ho, h1, h2, h3⟩
  · exact Or.inl h
  · exact Or.inr ⟨o, ho, by rw [hres, h1], by rw [hres, h2], h3⟩

theorem runJobsL_wholeM {l : Links} {fs0 : Fs} {J : List Job} (wf : MixedWF l fs0 J) (cfg : Cfg) (plan : Plan) :
    ∀ (js : List Job), (∀ j ∈ js, j ∈ J) → ∀ (i : Nat) (l' : Links) (cur : Fs), MInv l fs0 J l' cur →
      ∀ ev ∈ (runJobsL cfg plan i l' cur js).2, WholeM l fs0 J ev.2 := by
  intro js
  induction js with
  | nil => intro _ i l' cur _ ev hm; simp [runJobsL] at hm
  | cons j js ih =>
    intro hsub i l' cur inv ev hm
    have hjJ : j ∈ J := hsub j List.mem_cons_self
    have hsub' : ∀ j' ∈ js, j' ∈ J := fun j' h => hsub j' (List.mem_cons_of_mem _ h)
    have hd : j.dst = none := wf.noLink j hjJ
    have htgt : j.target = j.src := by simp [Job.target, hd]
    have hs := inv.srcs j hjJ
    have h0 := inv.tmps j hjJ
    have hne : j.src ≠ j.tmp := by
      intro he; rw [he, h0] at hs; cases hs
    rcases wf.kind j hjJ with hpa | ⟨o, ho, hone, hosrc, hotmp⟩
    · -- an in-place job
      have hpa' : PathAlias l' j := pathAlias_of_res inv.res hpa
      have hops : jobOpsL l' cur j = inplaceOps j.early j.src j.src j.tmp j.body := by
        rw [jobOpsL_of_route_none (route_of_pathAlias hpa' hs), htgt]
      have P := exec_inplace (fs0 := cur) (src := j.src) (dst := j.src) (tmp := j.tmp) (cfg := cfg) (plan := plan)
        j.early j.body (wf.bodyOps j hjJ) h0 hs i
      have hAB : ∀ s, AB cur j.tmp s → WholeM l fs0 J s := by
        intro s hab p hp hno
        rcases hab with rfl | ⟨c, rfl⟩
        · exact inv.whole p hp hno
        · rw [Fs.get?_append_other (hp j hjJ)]; exact inv.whole p hp hno
      have hC : WholeM l fs0 J (cur.set j.src (newContent j.body)) := by
        intro p hp hno
        by_cases hps : p = j.src
        · subst hps
          exact Or.inr ⟨j, hjJ, hpa, rfl, Fs.get?_set_self⟩
        · rw [Fs.get?_set_other hps]; exact inv.whole p hp hno
      have hshape : ∀ ev ∈ (exec cfg plan i { fs := cur } (inplaceOps j.early j.src j.src j.tmp j.body)).2,
          WholeM l fs0 J ev.2 := by
        intro ev hm
        rcases P.shape ev hm with hab | ⟨_, hc⟩
        · exact hAB _ hab
        · rw [hc]; exact hC
      simp only [runJobsL, runJobL, hops] at hm
      cases hout : (exec cfg plan i { fs := cur } (inplaceOps j.early j.src j.src j.tmp j.body)).1 with
      | ok =>
        simp only [hout] at hm
        rcases List.mem_append.mp hm with h | h
        · exact hshape ev h
        · have hfin := P.ok hout
          rw [hfin] at h
          have hla : linksAfter l' cur j = l'.bind j.src l'.fresh := by
            simp [linksAfter, route_of_pathAlias hpa' hs, hd]
          rw [hla] at h
          refine ih hsub' _ _ _ ?_ ev h
          exact {
            inj := inv.inj.bind_fresh j.src
            res := fun q => by rw [Links.resolve_bind]; exact inv.res q
            srcs := by
              intro j' hj'
              by_cases he : j'.src = j.src
              · rw [he, Fs.get?_set_self]; rfl
              · rw [Fs.get?_set_other he]; exact inv.srcs j' hj'
            tmps := by
              intro j' hj'
              have : j'.tmp ≠ j.src := by
                intro he
                have := inv.tmps j' hj'
                rw [he] at this
                rw [this] at hs; cases hs
              rw [Fs.get?_set_other this]; exact inv.tmps j' hj'
            whole := hC }
      | raised k => simp only [hout] at hm; exact hshape ev hm
      | killed k => simp only [hout] at hm; exact hshape ev hm
    · -- a direct write to the entry `e`, which is no source and no temp name
      have hres : l'.resolve o = l.resolve o := inv.res o
      have hcan := wf.srcCanon j hjJ
      have hns : isSameFileL l' cur j.src j.out = false := by
        rw [ho]
        cases hsf : isSameFileL l' cur j.src (some o) with
        | false => rfl
        | true =>
          exfalso
          simp only [isSameFileL, Bool.and_eq_true] at hsf
          have := Links.sameIno_eq_of_inj inv.inj hsf.2
          rw [inv.res, inv.res, hcan.1] at this
          exact hosrc j hjJ this.symm
      have hroute : route l' cur j = some (l.resolve o) := by
        rw [route_of_not_same ho hone hns, hres]
      have hops : jobOpsL l' cur j = directOps j.early j.src (l.resolve o) j.body [] := by
        rw [jobOpsL_of_route_some hroute, Links.peers_nil_of_inj inv.inj]
      have hframe : ∀ p, p ≠ l.resolve o →
          ∀ ev ∈ (exec cfg plan i { fs := cur } (directOps j.early j.src (l.resolve o) j.body [])).2,
            ev.2.get? p = cur.get? p := by
        intro p hp
        exact exec_direct_frame cfg plan hp (by simp) _
          (directOps_directTo j.early j.src _ j.body _ (wf.bodyOps j hjJ)) i { fs := cur } ⟨rfl, Or.inl rfl⟩
      have hisout : IsOut l J (l.resolve o) := ⟨j, hjJ, o, ho, rfl, hosrc j hjJ⟩
      have hW : ∀ s : Fs, (∀ p, p ≠ l.resolve o → s.get? p = cur.get? p) → WholeM l fs0 J s := by
        intro s hfr p hp hno
        have hpe : p ≠ l.resolve o := fun he => hno (he ▸ hisout)
        rw [hfr p hpe]
        exact inv.whole p hp hno
      simp only [runJobsL, runJobL, hops] at hm
      cases hout : (exec cfg plan i { fs := cur } (directOps j.early j.src (l.resolve o) j.body [])).1 with
      | ok =>
        simp only [hout] at hm
        rcases List.mem_append.mp hm with h | h
        · exact hW ev.2 (fun p hp => hframe p hp ev h)
        · have hfinfr : ∀ p, p ≠ l.resolve o →
              (final cur (exec cfg plan i { fs := cur } (directOps j.early j.src (l.resolve o) j.body [])).2).get? p
                = cur.get? p := by
            intro p hp
            rcases final_mem_or cur (exec cfg plan i { fs := cur } (directOps j.early j.src (l.resolve o) j.body [])).2
              with hf | ⟨ev', hm', he'⟩
            · rw [hf]
            · rw [← he']; exact hframe p hp ev' hm'
          refine ih hsub' _ _ _ ?_ ev h
          exact {
            inj := by
              simp only [linksAfter, hroute]
              split
              · exact inv.inj
              · exact inv.inj.bind_fresh _
            res := fun q => by rw [linksAfter_resolve _ _ _ hd]; exact inv.res q
            srcs := by
              intro j' hj'
              rw [hfinfr _ (fun he => hosrc j' hj' he.symm)]; exact inv.srcs j' hj'
            tmps := by
              intro j' hj'
              rw [hfinfr _ (fun he => hotmp j' hj' he.symm)]; exact inv.tmps j' hj'
            whole := hW _ hfinfr }
      | raised k => simp only [hout] at hm; exact hW ev.2 (fun p hp => hframe p hp ev hm)
      | killed k => simp only [hout] at hm; exact hW ev.2 (fun p hp => hframe p hp ev hm)

end Pypyr.FsRewrite
