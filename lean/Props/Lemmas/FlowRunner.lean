/-
  One-level facts about the runner functions of `PypyrModel/Flow/Runner.lean`
  (`run_step_group`, `run_step_groups`, `_run_pipeline`, `Pipeline.run`, pype):
  how each routes every kind of result. All for arbitrary programs, states, fuel.
-/
import Props.Lemmas.FlowOrigin

namespace Pypyr.Flow

/-- the steps a group name denotes in a pipeline (absent group / null sequence = no steps; a string
    body = its characters, a mapping body = its keys, each taken as a step; a body without a length
    denotes no steps - `get_pipeline_steps` raises for it, see `runStepGroup_unsized`). -/
def groupSteps (prog : Program) (pipe g : String) : List StepDef :=
  match getPipelineSteps prog pipe g with
  | .ok ss => ss
  | .error _ => []

/-- `assert step_group_name`: the empty string is no group name - `run_step_group('')` raises
    AssertionError before anything is looked up, whatever stands under `''` in the pipeline. -/
theorem runStepGroup_empty_name (fuel : Nat) (prog : Program) (pipe : String) (raiseStop : Bool) (s : St) :
    runStepGroup (fuel + 1) prog pipe "" raiseStop s = raiseNew s "AssertionError" "" := by
  unfold runStepGroup
  rfl

/-- `run_step_group` on a group whose body has a length (every sequence, null, absent, string, mapping). -/
theorem runStepGroup_eq' (fuel : Nat) (prog : Program) (pipe g : String) (raiseStop : Bool) (s : St)
    (ss : List StepDef) (hs : getPipelineSteps prog pipe g = .ok ss) (hg0 : g ≠ "") :
    runStepGroup (fuel + 1) prog pipe g raiseStop s =
      (match runSteps fuel prog pipe ss s with
       | (s1, .jump c) => runGroups fuel prog pipe c.groups c.success c.failure s1
       | (s1, .stopGroup) => if raiseStop then (s1, .stopGroup) else (s1, .ok)
       | other => other) := by
  unfold runStepGroup
  rw [hs]
  simp only [beq_iff_eq, hg0, if_false]
  rfl

/-- `run_step_group` on a group whose body has no `len()` (`on_failure: 42`): `get_pipeline_steps`
    raises before any step runs - the group's own error, raised where the group is run from. -/
theorem runStepGroup_unsized (fuel : Nat) (prog : Program) (pipe g : String) (raiseStop : Bool) (s : St)
    (n m : String) (hs : getPipelineSteps prog pipe g = .error (n, m)) (hg0 : g ≠ "") :
    runStepGroup (fuel + 1) prog pipe g raiseStop s = raiseNew s n m := by
  unfold runStepGroup
  rw [hs]
  simp only [beq_iff_eq, hg0, if_false]

/-- all cases at once, over `groupSteps`. -/
theorem runStepGroup_eq (fuel : Nat) (prog : Program) (pipe g : String) (raiseStop : Bool) (s : St) :
    runStepGroup (fuel + 1) prog pipe g raiseStop s =
      (if g == "" then raiseNew s "AssertionError" "" else
       match getPipelineSteps prog pipe g with
       | .error (n, m) => raiseNew s n m
       | .ok _ =>
         match runSteps fuel prog pipe (groupSteps prog pipe g) s with
         | (s1, .jump c) => runGroups fuel prog pipe c.groups c.success c.failure s1
         | (s1, .stopGroup) => if raiseStop then (s1, .stopGroup) else (s1, .ok)
         | other => other) := by
  unfold runStepGroup groupSteps
  cases getPipelineSteps prog pipe g with
  | error e => rfl
  | ok ss => rfl

/-- a group that denotes at least one step has a body with a length. -/
theorem getPipelineSteps_of_groupSteps (prog : Program) (pipe g : String) (ss : List StepDef)
    (hne : ss ≠ []) (hg : groupSteps prog pipe g = ss) : getPipelineSteps prog pipe g = .ok ss := by
  unfold groupSteps at hg
  cases h : getPipelineSteps prog pipe g with
  | error e => rw [h] at hg; exact absurd hg.symm hne
  | ok ss' => rw [h] at hg; simp only [] at hg; rw [hg]

/-- `runSteps` on no steps never ends in a signal or an error. -/
theorem runSteps_nil (fuel : Nat) (prog : Program) (pipe : String) (s : St) :
    runSteps fuel prog pipe [] s = (s, .ok) ∨ runSteps fuel prog pipe [] s = (s, .outOfFuel) := by
  cases fuel with
  | zero => right; unfold runSteps; rfl
  | succ n => left; unfold runSteps; rfl

/-- if running the steps a group denotes ends in anything but `ok` (or running out of fuel), the group
    denotes at least one step: its body has a length. -/
theorem getPipelineSteps_ok_of_run (fuel : Nat) (prog : Program) (pipe g : String) (s s1 : St) (r : Res)
    (h : runSteps fuel prog pipe (groupSteps prog pipe g) s = (s1, r)) (hok : r ≠ .ok) (hf : r ≠ .outOfFuel) :
    getPipelineSteps prog pipe g = .ok (groupSteps prog pipe g) := by
  unfold groupSteps at h ⊢
  cases hg : getPipelineSteps prog pipe g with
  | ok ss => rfl
  | error e =>
    rw [hg] at h
    simp only [] at h
    rcases runSteps_nil fuel prog pipe s with h2 | h2
    · rw [h2] at h; injection h with _ h; exact absurd h.symm hok
    · rw [h2] at h; injection h with _ h; exact absurd h.symm hf

/-- `run_step_group` when the steps the group denotes end in something other than `ok`. -/
theorem runStepGroup_of_run (fuel : Nat) (prog : Program) (pipe g : String) (raiseStop : Bool) (s s1 : St) (r : Res)
    (h : runSteps fuel prog pipe (groupSteps prog pipe g) s = (s1, r)) (hok : r ≠ .ok) (hf : r ≠ .outOfFuel)
    (hg0 : g ≠ "") :
    runStepGroup (fuel + 1) prog pipe g raiseStop s =
      (match (s1, r) with
       | (s1, .jump c) => runGroups fuel prog pipe c.groups c.success c.failure s1
       | (s1, .stopGroup) => if raiseStop then (s1, .stopGroup) else (s1, .ok)
       | other => other) := by
  rw [runStepGroup_eq' fuel prog pipe g raiseStop s _ (getPipelineSteps_ok_of_run fuel prog pipe g s s1 r h hok hf) hg0, h]

/-- the "main phase" of `run_step_groups`: the requested groups in order, then the success group. -/
def mainPhase (fuel : Nat) (prog : Program) (pipe : String) (groups : List String) (success : Option String) : Body :=
  fun s =>
    match runGroupList fuel prog pipe groups s with
    | (s1, .ok) =>
      match success with
      | some sg => if sg == "" then (s1, .ok) else runStepGroup fuel prog pipe sg false s1
      | none => (s1, .ok)
    | other => other

def hasFailureGroup (failure : Option String) : Bool :=
  match failure with | some f => f != "" | none => false

/-- `run_step_groups`, as the case split the property describes. -/
theorem runGroups_eq (fuel : Nat) (prog : Program) (pipe : String) (g : String) (gs : List String)
    (success failure : Option String) (s : St) :
    runGroups (fuel + 1) prog pipe (g :: gs) success failure s =
      (match mainPhase fuel prog pipe (g :: gs) success s with
       | (s1, .err e h) =>
         if hasFailureGroup failure then
           match runFailureGroup fuel prog pipe failure s1 with
           | (s2, .stopGroup) => (s2, .ok)
           | (s2, .ok) => (s2, .err e h)
           | other => other
         else (s1, .err e h)
       | other => other) := by
  conv => lhs; unfold runGroups
  simp only [List.isEmpty_cons, Bool.false_eq_true, if_false, mainPhase, hasFailureGroup]
  rfl

theorem runGroupList_cons (fuel : Nat) (prog : Program) (pipe g : String) (rest : List String) (s : St) :
    runGroupList (fuel + 1) prog pipe (g :: rest) s =
      (match runStepGroup fuel prog pipe g false s with
       | (s1, .ok) => runGroupList fuel prog pipe rest s1
       | other => other) := by
  conv => lhs; unfold runGroupList
  rfl

theorem runSteps_cons (fuel : Nat) (prog : Program) (pipe : String) (d : StepDef) (rest : List StepDef) (s : St) :
    runSteps (fuel + 1) prog pipe (d :: rest) s =
      (match runStep fuel prog pipe d s with
       | (s1, .ok) => runSteps fuel prog pipe rest s1
       | other => other) := by
  conv => lhs; unfold runSteps
  rfl

theorem runFailureGroup_eq (fuel : Nat) (prog : Program) (pipe name : String) (s : St) (hn : name ≠ "") :
    runFailureGroup (fuel + 1) prog pipe (some name) s =
      (match runStepGroup fuel prog pipe name true s with
       | (s1, .stop) => (s1, .stop)
       | (s1, .stopPipeline) => (s1, .stopPipeline)
       | (s1, .stopGroup) => (s1, .stopGroup)
       | (s1, .outOfFuel) => (s1, .outOfFuel)
       | (s1, _) => (s1, .ok)) := by
  conv => lhs; unfold runFailureGroup
  simp only [hn, beq_iff_eq, if_false]
  rfl

theorem runRoot_eq (fuel : Nat) (prog : Program) (pi : PipeInst) (s : St) :
    runRoot fuel prog pi s =
      (match runPipeline fuel prog pi s with
       | (s1, .stop) => (s1, .ok)
       | (s1, .stopPipeline) => (s1, .ok)
       | (s1, .stopGroup) => (s1, .ok)
       | other => other) := rfl

end Pypyr.Flow

namespace Pypyr.Flow

/-- `_run_pipeline` once the definition is loaded: prepare the context (parser), run the groups,
    a `StopPipeline` ends this pipeline quietly, and the stack entry is popped whatever happened.
    (`groupsBad = false`: `groups` is a list of names or absent; see `runPipeline_groupsBad`.) -/
theorem runPipeline_eq (fuel : Nat) (prog : Program) (pi : PipeInst) (pd : PipeDef) (s : St)
    (hp : prog.find? pi.name = some pd) (hgb : pi.groupsBad = false) :
    runPipeline (fuel + 1) prog pi s =
      (let s0 := { s with stack := pi.name :: s.stack }
       let inner : St × Res :=
         match prepareContext pd pi s0 with
         | (s1, .err e h) =>
           match runFailureGroup fuel prog pi.name (effectiveGroups pi).2.2 s1 with
           | (s2, .stopGroup) => (s2, .err e h)
           | (s2, .stopPipeline) => (s2, .ok)
           | (s2, .ok) => (s2, .err e h)
           | other => other
         | (s1, .ok) =>
           match runGroups fuel prog pi.name (effectiveGroups pi).1 (effectiveGroups pi).2.1
               (effectiveGroups pi).2.2 s1 with
           | (s2, .stopPipeline) => (s2, .ok)
           | other => other
         | other => other
       ({ inner.1 with stack := inner.1.stack.drop 1 }, inner.2)) := by
  conv => lhs; unfold runPipeline
  simp only [hp, hgb, Bool.false_eq_true, if_false]
  rfl

/-- `groups` given as a truthy value that cannot be iterated (`groups: 5`): the `for step_group in groups`
    of `run_step_groups` raises TypeError inside its `try` - no group runs; the failure group, if one was
    given (nothing is defaulted: `groups` is truthy), runs once and decides as for any other error. -/
theorem runPipeline_groupsBad (fuel : Nat) (prog : Program) (pi : PipeInst) (pd : PipeDef) (s : St)
    (hp : prog.find? pi.name = some pd) (hgb : pi.groupsBad = true) :
    runPipeline (fuel + 1) prog pi s =
      (let s0 := { s with stack := pi.name :: s.stack }
       let inner : St × Res :=
         match prepareContext pd pi s0 with
         | (s1, .err e h) =>
           match runFailureGroup fuel prog pi.name pi.failure s1 with
           | (s2, .stopGroup) => (s2, .err e h)
           | (s2, .stopPipeline) => (s2, .ok)
           | (s2, .ok) => (s2, .err e h)
           | other => other
         | (s1, .ok) =>
           let e : ExcV := ⟨s1.nextExc, "TypeError", "~object is not iterable"⟩
           let s1' := (raiseNew s1 "TypeError" "~object is not iterable").1
           let ran : St × Res :=
             if hasFailureGroup pi.failure then
               match runFailureGroup fuel prog pi.name pi.failure s1' with
               | (s2, .stopGroup) => (s2, .ok)
               | (s2, .ok) => (s2, .err e false)
               | other => other
             else (s1', .err e false)
           match ran with
           | (s2, .stopPipeline) => (s2, .ok)
           | other => other
         | other => other
       ({ inner.1 with stack := inner.1.stack.drop 1 }, inner.2)) := by
  conv => lhs; unfold runPipeline
  simp only [hp, hgb, if_true, effectiveGroups, raiseNew, hasFailureGroup]
  rfl

theorem runPipeline_notFound (fuel : Nat) (prog : Program) (pi : PipeInst) (s : St)
    (hp : prog.find? pi.name = none) :
    runPipeline (fuel + 1) prog pi s = raiseNew s "pypyr.errors.PipelineNotFoundError" "~pipeline not found" := by
  conv => lhs; unfold runPipeline
  simp only [hp]

end Pypyr.Flow
