/-
  C04 helper definitions and lemmas for the execution-set theorem: a step with `run` / `skip`
  expressions under a foreach, around a body that leaves one event in the trace and then applies an
  arbitrary context transformation. The specification side (`willRun`, `condItem`, `condFold`,
  `condStates`) is written without reference to `runConditional`: the state is threaded through
  the items by recursion on the list, and whether an item's execution happens is decided by
  evaluating `run` and `skip` on the state in which that item's iteration starts.
-/
import Props.Lemmas.C05_Loops

namespace Pypyr.C04
open Pypyr Pypyr.Flow Pypyr.C05

/-- the event the noting body leaves: the `i` it saw in the context and the `for_counter` it was given. -/
def noteEvent (i fc : Option Val) : Event :=
  { tag := "note", i := i, w := fc, r := none, nerr := 0, pipe := "", depth := 0, keys := [] }

/-- a body that notes that it executed (and for which item) and then does anything whatsoever (`g`)
    to the context — including to the keys `run` and `skip` refer to. -/
def noteThen (g : Ctx → Ctx) : Frame → Body := fun fr s =>
  ({ s with ctx := g s.ctx, trace := s.trace ++ [noteEvent (Ctx.get? s.ctx "i") fr.forI] }, .ok)

/-- **the filter predicate**: on state `s0`, `run` evaluates true and `skip` evaluates false. -/
def willRun (d : StepDef) (s0 : St) : Bool :=
  match fmtB s0 d.run, fmtB s0 d.skip with
  | .ok true, .ok false => true
  | _, _ => false

theorem willRun_iff (d : StepDef) (s0 : St) :
    willRun d s0 = true ↔ fmtB s0 d.run = .ok true ∧ fmtB s0 d.skip = .ok false := by
  unfold willRun
  cases fmtB s0 d.run with
  | error x => simp
  | ok r =>
    cases fmtB s0 d.skip with
    | error x => cases r <;> simp
    | ok k => cases r <;> cases k <;> simp

/-- on state `s0` the decision can be taken: `run` evaluates, and — if it is true — `skip` evaluates
    (`skip` is not looked at when `run` is false). -/
def decides (d : StepDef) (s0 : St) : Bool :=
  match fmtB s0 d.run with
  | .error _ => false
  | .ok false => true
  | .ok true =>
    match fmtB s0 d.skip with
    | .error _ => false
    | .ok _ => true

/-- the error the decision ends with when it cannot be taken. -/
def decisionError (d : StepDef) (s0 : St) : Option Exc :=
  match fmtB s0 d.run with
  | .error x => some x
  | .ok false => none
  | .ok true =>
    match fmtB s0 d.skip with
    | .error x => some x
    | .ok _ => none

/-- **one item, specified**: bind `i`; if `run ∧ ¬skip` on that state, the body's event is appended
    and the context transformed by `g`; otherwise nothing else happens. -/
def condItem (d : StepDef) (g : Ctx → Ctx) (x : Val) (s : St) : St :=
  if willRun d (setI x s) then
    { (setI x s) with ctx := g (setI x s).ctx, trace := (setI x s).trace ++ [noteEvent (some x) (some x)] }
  else setI x s

/-- the state after all the items, threaded left to right. -/
def condFold (d : StepDef) (g : Ctx → Ctx) : List Val → St → St
  | [], s => s
  | x :: rest, s => condFold d g rest (condItem d g x s)

/-- **the state sequence**: each item paired with the state in which its iteration starts (after
    the earlier items' iterations, `i` bound to it). -/
def condStates (d : StepDef) (g : Ctx → Ctx) : List Val → St → List (Val × St)
  | [], _ => []
  | x :: rest, s => (x, setI x s) :: condStates d g rest (condItem d g x s)

/-- the events of the executions that take place. -/
def execEvents (d : StepDef) (g : Ctx → Ctx) (xs : List Val) (s : St) : List Event :=
  (condStates d g xs s).filterMap fun p => if willRun d p.2 then some (noteEvent (some p.1) (some p.1)) else none

theorem condItem_trace (d : StepDef) (g : Ctx → Ctx) (x : Val) (s : St) :
    (condItem d g x s).trace =
      s.trace ++ (if willRun d (setI x s) then [noteEvent (some x) (some x)] else []) := by
  unfold condItem
  by_cases h : willRun d (setI x s) = true
  · simp only [h, if_true]; rfl
  · simp only [h]; simp [setI]

theorem condFold_trace (d : StepDef) (g : Ctx → Ctx) :
    ∀ (xs : List Val) (s : St), (condFold d g xs s).trace = s.trace ++ execEvents d g xs s := by
  intro xs
  induction xs with
  | nil => intro s; simp [condFold, execEvents, condStates]
  | cons x rest ih =>
    intro s
    show (condFold d g rest (condItem d g x s)).trace = _
    rw [ih, condItem_trace]
    unfold execEvents
    show _ = s.trace ++ List.filterMap _ ((x, setI x s) :: condStates d g rest (condItem d g x s))
    rw [List.filterMap_cons]
    by_cases h : willRun d (setI x s) = true
    · simp only [h, if_true, List.append_assoc, List.singleton_append]
    · have h' : willRun d (setI x s) = false := by simpa using h
      simp [h']

theorem condFold_append (d : StepDef) (g : Ctx → Ctx) (post : List Val) :
    ∀ (pre : List Val) (s : St), condFold d g (pre ++ post) s = condFold d g post (condFold d g pre s) := by
  intro pre
  induction pre with
  | nil => intro s; rfl
  | cons x rest ih => intro s; exact ih _

/-- one iteration of the model, against the specification: when the decision can be taken, the
    iteration completes normally in the state `condItem` describes. -/
theorem itemOut_cond (d : StepDef) (g : Ctx → Ctx) (fr : Frame) (x : Val) (s : St)
    (h : decides d (setI x s) = true) :
    itemOut fr (fun fr' => runConditional d (noteThen g fr')) x s = (condItem d g x s, .ok) := by
  show runConditional d (noteThen g { fr with forI := some x }) (setI x s) = _
  rw [runConditional_eq]
  unfold decides at h
  unfold condItem willRun
  cases hr : fmtB (setI x s) d.run with
  | error e => rw [hr] at h; cases h
  | ok r =>
    cases r with
    | false => rfl
    | true =>
      rw [hr] at h
      simp only [] at h ⊢
      cases hk : fmtB (setI x s) d.skip with
      | error e => rw [hk] at h; cases h
      | ok k =>
        cases k with
        | true => rfl
        | false =>
          simp only [if_true]
          unfold noteThen
          rw [setI_i]
          rfl

/-- an iteration at which the decision cannot be taken ends with that error, on the state in which
    the iteration started; the body does not execute. -/
theorem itemOut_cond_error (d : StepDef) (g : Ctx → Ctx) (fr : Frame) (x : Val) (s : St) (e : Exc)
    (h : decisionError d (setI x s) = some e) :
    itemOut fr (fun fr' => runConditional d (noteThen g fr')) x s = raiseExc (setI x s) e := by
  show runConditional d (noteThen g { fr with forI := some x }) (setI x s) = _
  rw [runConditional_eq]
  unfold decisionError at h
  cases hr : fmtB (setI x s) d.run with
  | error e' => rw [hr] at h; cases h; rfl
  | ok r =>
    cases r with
    | false => rw [hr] at h; cases h
    | true =>
      rw [hr] at h
      simp only [] at h ⊢
      cases hk : fmtB (setI x s) d.skip with
      | error e' => rw [hk] at h; cases h; rfl
      | ok k => rw [hk] at h; cases h

/-- all iterations complete normally and the model's state sequence is the specified one, when the
    decision can be taken at every visited state. -/
theorem cond_allOk (d : StepDef) (g : Ctx → Ctx) (fr : Frame) :
    ∀ (xs : List Val) (s : St), (∀ p, p ∈ condStates d g xs s → decides d p.2 = true) →
      ForeachAllOk fr (fun fr' => runConditional d (noteThen g fr')) xs s ∧
      foreachFold fr (fun fr' => runConditional d (noteThen g fr')) xs s = condFold d g xs s := by
  intro xs
  induction xs with
  | nil => intro s _; exact ⟨trivial, rfl⟩
  | cons x rest ih =>
    intro s h
    have h0 := itemOut_cond d g fr x s (h (x, setI x s) List.mem_cons_self)
    obtain ⟨a, b⟩ := ih (condItem d g x s) (fun p hp => h p (List.mem_cons_of_mem _ hp))
    refine ⟨⟨by rw [h0], by rw [h0]; exact a⟩, ?_⟩
    show foreachFold fr _ rest (itemOut fr _ x s).1 = condFold d g rest (condItem d g x s)
    rw [h0]; exact b

end Pypyr.C04
