/-
  C09 on the FAITHFUL tree-level model `Format.fmtIter` (`PypyrModel/Format.lean`: the full expression
  grammar of C08, `dict(...)` / `set(...)` by Python equality `pyEq` — `True == 1 == 1.0` —, the
  `TypeError: unhashable type` of an unhashable formatted key or member).

  The tree-level theorems of `Props/C09.lean` are about `Pypyr.fmtIter` (simple grammar, structural key
  equality, no hash check). Here the same claims are proved for the faithful model, so that they hold for the
  model whose correspondence with the code covers the whole grammar (C08) and every key kind:

    * `faithful_shaped`          — same constructor at every container node, children formatted pair by pair /
                                   member by member, dict / set built by insertion (`dictPut` / `setPut`)
    * `faithful_leaf_id`         — non-string leaves come through equal
    * `faithful_bracefree_id`    — brace-free in ⇒ equal out (whatever is returned)
    * `faithful_bracefree_total` — … and with enough fuel and hashable keys it IS returned
    * `faithful_wf`              — the output satisfies the representation invariant (`wfPy`: keys / members
                                   pairwise different by Python equality) when the context values do
    * `faithful_unhashable`      — the formatted key / member that is unhashable: TypeError, not a result
-/
import PypyrModel.Format
import PypyrModel.FmtHeap
import Props.Lemmas.C08_Parse
import Props.Lemmas.C09_Tree
import Props.Lemmas.C09_Wf

namespace Pypyr.C09F
open Pypyr Pypyr.Format Pypyr.FmtHeap Pypyr.C09

theorem All₂.imp_mem' {α β} {R S : α → β → Prop} : ∀ {xs : List α} {ys : List β},
    (∀ x ∈ xs, ∀ y, R x y → S x y) → All₂ R xs ys → All₂ S xs ys
  | _, _, _, .nil => .nil
  | _, _, hRS, .cons h t =>
    .cons (hRS _ List.mem_cons_self _ h) (All₂.imp_mem' (fun x hx y hxy => hRS x (List.mem_cons_of_mem _ hx) y hxy) t)

/-! ### brace-free strings -/

theorem parseTuples_noBrace (cs : List Char) (h : NoBrace cs) :
    parseTuples cs = (if cs = [] then [] else [⟨cs, none⟩], none) := by
  unfold parseTuples
  rw [run_lit_plain _ _ _ h]; simp [finish]

theorem noBrace_of_strBraceFree (s : String) (h : strBraceFree s = true) : NoBrace s.toList := by
  intro c hc
  have := List.all_eq_true.mp h c hc
  simpa using this

/-- `_format_keep_type` on a string without braces: the string (`Formatter.parse` yields it as its only
    literal; nothing is looked up). -/
theorem keepType_braceFree (fi : Bool → Val → Except Exc Val) (ctx : Ctx) (b : Bool) (s : String)
    (h : strBraceFree s = true) : keepType fi ctx b s.toList = .ok (.str s) := by
  unfold keepType
  rw [parseTuples_noBrace _ (noBrace_of_strBraceFree s h)]
  by_cases he : s.toList = []
  · have : s = "" := by
      have := congrArg String.ofList he
      simpa [String.ofList_toList] using this
    subst this
    simp [ktLoop, ktFinish, joinEntries]
  · simp only [he, if_false]
    simp [ktLoop, he, ktFinish, String.ofList_toList]

theorem fmtKeepType_braceFree (fuel : Nat) (ctx : Ctx) (b : Bool) (s : String) (h : strBraceFree s = true) :
    Format.fmtKeepType (fuel + 1) ctx b s.toList = .ok (.str s) := by
  unfold Format.fmtKeepType
  exact keepType_braceFree _ ctx b s h

/-! ### the container folds -/

/-- `foldPairs` that returns: the pairs were formatted one by one, every formatted key was hashable, and the
    result is the insertion of the formatted pairs, in order. -/
theorem foldPairs_ok {f : Val → Except Exc Val} : ∀ (kvs acc out : List (Val × Val)),
    foldPairs f kvs acc = .ok out →
    ∃ kvs', All₂ (fun (kv kv' : Val × Val) => f kv.1 = .ok kv'.1 ∧ f kv.2 = .ok kv'.2 ∧ unhashable kv'.1 = none) kvs kvs' ∧
      out = kvs'.foldl (fun a kv => dictPut a kv.1 kv.2) acc
  | [], acc, out, h => by simp only [foldPairs] at h; cases h; exact ⟨[], .nil, rfl⟩
  | (k, v) :: rest, acc, out, h => by
    simp only [foldPairs] at h
    split at h
    · cases h
    · rename_i k' hk
      split at h
      · cases h
      · rename_i v' hv
        split at h
        · cases h
        · rename_i hh
          obtain ⟨kvs', hall, hout⟩ := foldPairs_ok rest _ out h
          exact ⟨(k', v') :: kvs', .cons ⟨hk, hv, hh⟩ hall, by simpa using hout⟩

theorem foldSet_ok {f : Val → Except Exc Val} : ∀ (xs acc out : List Val),
    foldSet f xs acc = .ok out →
    ∃ ys, All₂ (fun x y => f x = .ok y ∧ unhashable y = none) xs ys ∧ out = ys.foldl setPut acc
  | [], acc, out, h => by simp only [foldSet] at h; cases h; exact ⟨[], .nil, rfl⟩
  | x :: rest, acc, out, h => by
    simp only [foldSet] at h
    split at h
    · cases h
    · rename_i y hy
      split at h
      · cases h
      · rename_i hh
        obtain ⟨ys, hall, hout⟩ := foldSet_ok rest _ out h
        exact ⟨y :: ys, .cons ⟨hy, hh⟩ hall, by simpa using hout⟩

theorem foldPairs_of_all {f : Val → Except Exc Val} : ∀ (kvs kvs' acc : List (Val × Val)),
    All₂ (fun (kv kv' : Val × Val) => f kv.1 = .ok kv'.1 ∧ f kv.2 = .ok kv'.2 ∧ unhashable kv'.1 = none) kvs kvs' →
    foldPairs f kvs acc = .ok (kvs'.foldl (fun a kv => dictPut a kv.1 kv.2) acc)
  | _, _, acc, .nil => rfl
  | _, _, acc, .cons (x := kv) (y := kv') h t => by
    obtain ⟨k, v⟩ := kv
    simp only [foldPairs, h.1, h.2.1, h.2.2, List.foldl_cons]
    exact foldPairs_of_all _ _ _ t

theorem foldSet_of_all {f : Val → Except Exc Val} : ∀ (xs ys acc : List Val),
    All₂ (fun x y => f x = .ok y ∧ unhashable y = none) xs ys →
    foldSet f xs acc = .ok (ys.foldl setPut acc)
  | _, _, acc, .nil => rfl
  | _, _, acc, .cons h t => by
    simp only [foldSet, h.1, h.2, List.foldl_cons]
    exact foldSet_of_all _ _ _ t

/-! ### the representation invariant by Python equality -/

/-- pairwise different by Python equality, earlier against later (the orientation `dictPut` / `setPut` test) -/
def DistinctPy (xs : List Val) : Prop := xs.Pairwise (fun a b => pyEq a b = false)

theorem dictPut_fresh : ∀ (acc : List (Val × Val)) (k v : Val), (∀ p ∈ acc, pyEq p.1 k = false) →
    dictPut acc k v = acc ++ [(k, v)]
  | [], k, v, _ => rfl
  | (k', v') :: rest, k, v, h => by
    have h1 := h (k', v') List.mem_cons_self
    simp only at h1
    simp only [dictPut, h1, Bool.false_eq_true, if_false, List.cons_append]
    rw [dictPut_fresh rest k v (fun p hp => h p (List.mem_cons_of_mem _ hp))]

theorem foldl_dictPut_distinct : ∀ (kvs acc : List (Val × Val)),
    DistinctPy (acc.map (·.1) ++ kvs.map (·.1)) →
    kvs.foldl (fun a kv => dictPut a kv.1 kv.2) acc = acc ++ kvs
  | [], acc, _ => by simp
  | (k, v) :: rest, acc, hd => by
    simp only [List.foldl_cons]
    have hk : ∀ p ∈ acc, pyEq p.1 k = false := by
      intro p hp
      have := List.pairwise_append.mp hd
      exact this.2.2 p.1 (List.mem_map_of_mem (f := fun (q : Val × Val) => q.1) hp) k (by simp)
    rw [dictPut_fresh acc k v hk]
    have : DistinctPy ((acc ++ [(k, v)]).map (·.1) ++ rest.map (·.1)) := by
      simpa [DistinctPy, List.append_assoc] using hd
    rw [foldl_dictPut_distinct rest _ this]
    simp

theorem setPut_fresh (acc : List Val) (v : Val) (h : ∀ x ∈ acc, pyEq x v = false) : setPut acc v = acc ++ [v] := by
  unfold setPut
  have : acc.any (fun x => pyEq x v) = false := by
    rw [List.any_eq_false]
    intro x hx
    simp [h x hx]
  simp [this]

theorem foldl_setPut_distinct : ∀ (xs acc : List Val), DistinctPy (acc ++ xs) → xs.foldl setPut acc = acc ++ xs
  | [], acc, _ => by simp
  | x :: rest, acc, hd => by
    simp only [List.foldl_cons]
    have hx : ∀ y ∈ acc, pyEq y x = false := by
      intro y hy
      have := List.pairwise_append.mp hd
      exact this.2.2 y hy x (by simp)
    rw [setPut_fresh acc x hx]
    have : DistinctPy ((acc ++ [x]) ++ rest) := by simpa [DistinctPy, List.append_assoc] using hd
    rw [foldl_setPut_distinct rest _ this]
    simp

/-- keys of a dict built by `dictPut` stay pairwise different -/
theorem dictPut_distinct : ∀ (acc : List (Val × Val)) (k v : Val), DistinctPy (acc.map (·.1)) →
    DistinctPy ((dictPut acc k v).map (·.1)) ∧ (dictPut acc k v).map (·.1) = acc.map (·.1) ∨
    (DistinctPy ((dictPut acc k v).map (·.1)) ∧ (∀ p ∈ acc, pyEq p.1 k = false) ∧
      dictPut acc k v = acc ++ [(k, v)])
  | [], k, v, _ => Or.inr ⟨by simp [dictPut, DistinctPy], by simp, rfl⟩
  | (k', v') :: rest, k, v, hd => by
    simp only [List.map_cons, DistinctPy, List.pairwise_cons] at hd
    by_cases h1 : pyEq k' k = true
    · left
      simp only [dictPut, h1, if_true, List.map_cons, DistinctPy, List.pairwise_cons]
      exact ⟨hd, trivial⟩
    · have h1' : pyEq k' k = false := by simpa using h1
      rcases dictPut_distinct rest k v hd.2 with ⟨hh, heq⟩ | ⟨hh, hfresh, heq⟩
      · left
        simp only [dictPut, h1', Bool.false_eq_true, if_false, List.map_cons, heq, DistinctPy, List.pairwise_cons]
        exact ⟨hd, trivial⟩
      · right
        refine ⟨?_, ?_, ?_⟩
        · simp only [dictPut, h1', Bool.false_eq_true, if_false, heq, List.map_cons, List.map_append,
            List.map_nil, DistinctPy, List.pairwise_cons]
          refine ⟨?_, ?_⟩
          · intro a ha
            rcases List.mem_append.mp ha with h' | h'
            · exact hd.1 a h'
            · simp at h'; subst h'; exact h1'
          · have := hh
            simp only [heq, List.map_append, List.map_cons, List.map_nil] at this
            exact this
        · intro p hp
          rcases List.mem_cons.mp hp with rfl | hp'
          · exact h1'
          · exact hfresh p hp'
        · simp only [dictPut, h1', Bool.false_eq_true, if_false, heq, List.cons_append]

theorem dictPut_keys_distinct (acc : List (Val × Val)) (k v : Val) (hd : DistinctPy (acc.map (·.1))) :
    DistinctPy ((dictPut acc k v).map (·.1)) := by
  rcases dictPut_distinct acc k v hd with ⟨h, _⟩ | ⟨h, _, _⟩ <;> exact h

theorem dictPut_mem {acc : List (Val × Val)} {k v : Val} {p : Val × Val} (hp : p ∈ dictPut acc k v) :
    (p.1 = k ∧ p.2 = v) ∨ p ∈ acc ∨ (∃ q ∈ acc, p.1 = q.1 ∧ p.2 = v) := by
  induction acc with
  | nil => simp [dictPut] at hp; subst hp; exact Or.inl ⟨rfl, rfl⟩
  | cons q rest ih =>
    obtain ⟨qk, qv⟩ := q
    simp only [dictPut] at hp
    split at hp
    · rcases List.mem_cons.mp hp with rfl | h
      · exact Or.inr (Or.inr ⟨(qk, qv), List.mem_cons_self, rfl, rfl⟩)
      · exact Or.inr (Or.inl (List.mem_cons_of_mem _ h))
    · rcases List.mem_cons.mp hp with rfl | h
      · exact Or.inr (Or.inl List.mem_cons_self)
      · rcases ih h with h' | h' | ⟨q, hq, h'⟩
        · exact Or.inl h'
        · exact Or.inr (Or.inl (List.mem_cons_of_mem _ h'))
        · exact Or.inr (Or.inr ⟨q, List.mem_cons_of_mem _ hq, h'⟩)

theorem foldl_dictPut_wf (W : Val → Prop) : ∀ (kvs acc : List (Val × Val)),
    (∀ p ∈ kvs, W p.1 ∧ W p.2) → (∀ p ∈ acc, W p.1 ∧ W p.2) → DistinctPy (acc.map (·.1)) →
    (∀ p ∈ kvs.foldl (fun a kv => dictPut a kv.1 kv.2) acc, W p.1 ∧ W p.2) ∧
    DistinctPy ((kvs.foldl (fun a kv => dictPut a kv.1 kv.2) acc).map (·.1))
  | [], acc, _, hacc, hd => ⟨hacc, hd⟩
  | kv :: rest, acc, hk, hacc, hd => by
    simp only [List.foldl_cons]
    apply foldl_dictPut_wf W rest _ (fun p hp => hk p (List.mem_cons_of_mem _ hp))
    · intro p hp
      have hkv := hk kv List.mem_cons_self
      rcases dictPut_mem hp with ⟨h1, h2⟩ | h | ⟨q, hq, h1, h2⟩
      · rw [h1, h2]; exact hkv
      · exact hacc p h
      · rw [h1, h2]; exact ⟨(hacc q hq).1, hkv.2⟩
    · exact dictPut_keys_distinct acc kv.1 kv.2 hd

theorem foldl_setPut_wf (W : Val → Prop) : ∀ (xs acc : List Val),
    (∀ x ∈ xs, W x) → (∀ x ∈ acc, W x) → DistinctPy acc →
    (∀ x ∈ xs.foldl setPut acc, W x) ∧ DistinctPy (xs.foldl setPut acc)
  | [], acc, _, hacc, hd => ⟨hacc, hd⟩
  | x :: rest, acc, hx, hacc, hd => by
    simp only [List.foldl_cons]
    apply foldl_setPut_wf W rest _ (fun y hy => hx y (List.mem_cons_of_mem _ hy))
    · intro y hy
      unfold setPut at hy
      split at hy
      · exact hacc y hy
      · rcases List.mem_append.mp hy with h | h
        · exact hacc y h
        · simp at h; subst h; exact hx y List.mem_cons_self
    · unfold setPut
      split
      · exact hd
      · rename_i hc
        have hc' : acc.any (fun y => pyEq y x) = false := by simpa using hc
        rw [List.any_eq_false] at hc'
        unfold DistinctPy
        rw [List.pairwise_append]
        refine ⟨hd, by simp, ?_⟩
        intro a ha b hb
        simp at hb; subst hb
        simpa using hc' a ha

mutual
/-- Representation invariant by Python equality: dict keys pairwise `!=`, set members pairwise `!=`, at
    every node (what a Python dict / set always satisfies). -/
def WfPy : Val → Prop
  | .list xs => WfPyL xs
  | .tuple xs => WfPyL xs
  | .set xs => DistinctPy xs ∧ WfPyL xs
  | .dict kvs => DistinctPy (keysOf kvs) ∧ WfPyP kvs
  | .jsonify v => WfPy v
  | _ => True
def WfPyL : List Val → Prop
  | [] => True
  | x :: xs => WfPy x ∧ WfPyL xs
def WfPyP : List (Val × Val) → Prop
  | [] => True
  | (k, v) :: rest => WfPy k ∧ WfPy v ∧ WfPyP rest
end

theorem WfPyL_iff : ∀ (xs : List Val), WfPyL xs ↔ ∀ x ∈ xs, WfPy x
  | [] => by simp [WfPyL]
  | x :: xs => by simp [WfPyL, WfPyL_iff xs]

theorem WfPyP_iff : ∀ (kvs : List (Val × Val)), WfPyP kvs ↔ ∀ kv ∈ kvs, WfPy kv.1 ∧ WfPy kv.2
  | [] => by simp [WfPyP]
  | (k, v) :: rest => by simp [WfPyP, WfPyP_iff rest, and_assoc]

theorem wfPy_dictGet {kvs : List (Val × Val)} {k v : Val} (hx : WfPyP kvs)
    (h : dictGet? kvs k = some v) : WfPy v := by
  induction kvs with
  | nil => simp [dictGet?] at h
  | cons p rest ih =>
    obtain ⟨k', v'⟩ := p
    simp only [WfPyP] at hx
    simp only [dictGet?] at h
    split at h
    · cases h; exact hx.2.1
    · exact ih hx.2.2 h

theorem wfPy_closed : PyClosed WfPy where
  none := by simp [WfPy]
  bool := fun _ => by simp [WfPy]
  int := fun _ => by simp [WfPy]
  flt := fun _ _ => by simp [WfPy]
  str := fun _ => by simp [WfPy]
  list_mem := fun xs x h hx => (WfPyL_iff xs).mp (by simpa [WfPy] using h) x hx
  tuple_mem := fun xs x h hx => (WfPyL_iff xs).mp (by simpa [WfPy] using h) x hx
  dict_val := fun kvs k v h hg => by
    simp only [WfPy] at h
    exact wfPy_dictGet h.2 hg
  list_app := fun a b ha hb => by
    simp only [WfPy] at ha hb ⊢
    rw [WfPyL_iff] at ha hb ⊢
    intro x hx
    rcases List.mem_append.mp hx with h | h
    · exact ha x h
    · exact hb x h
  tuple_app := fun a b ha hb => by
    simp only [WfPy] at ha hb ⊢
    rw [WfPyL_iff] at ha hb ⊢
    intro x hx
    rcases List.mem_append.mp hx with h | h
    · exact ha x h
    · exact hb x h

def CtxWfPy (ctx : Ctx) : Prop := ∀ k v, Ctx.get? ctx k = some v → WfPy v

/-! ### the shape relation for the faithful model -/

mutual
/-- `ShapedF v r`: `r` has the container skeleton of `v`; dicts and sets are built by Python's insertion
    (`dictPut` / `setPut`: equal keys / members merge). -/
def ShapedF : Val → Val → Prop
  | .list xs, r => ∃ ys, r = .list ys ∧ ShapedFL xs ys
  | .tuple xs, r => ∃ ys, r = .tuple ys ∧ ShapedFL xs ys
  | .set xs, r => ∃ ys, r = .set (ys.foldl setPut []) ∧ ShapedFL xs ys
  | .dict kvs, r => ∃ kvs', r = .dict (kvs'.foldl (fun a kv => dictPut a kv.1 kv.2) []) ∧ ShapedFP kvs kvs'
  | .str _, _ => True
  | .sic _, _ => True
  | .py _, _ => True
  | .jsonify _, _ => True
  | .none, r => r = .none
  | .bool b, r => r = .bool b
  | .int i, r => r = .int i
  | .flt n k, r => r = .flt n k
  | .bytes s, r => r = .bytes s
  | .obj i, r => r = .obj i
def ShapedFL : List Val → List Val → Prop
  | [], ys => ys = []
  | x :: xs, ys => ∃ y ys', ys = y :: ys' ∧ ShapedF x y ∧ ShapedFL xs ys'
def ShapedFP : List (Val × Val) → List (Val × Val) → Prop
  | [], ys => ys = []
  | (k, v) :: xs, ys => ∃ k' v' ys', ys = (k', v') :: ys' ∧ ShapedF k k' ∧ ShapedF v v' ∧ ShapedFP xs ys'
end

theorem shapedFL_of_all {f : Val → Except Exc Val} (hf : ∀ x y, f x = .ok y → ShapedF x y) :
    ∀ {xs ys : List Val}, All₂ (fun x y => f x = .ok y) xs ys → ShapedFL xs ys
  | _, _, .nil => by simp [ShapedFL]
  | _, _, .cons h t => by
    simp only [ShapedFL]
    exact ⟨_, _, rfl, hf _ _ h, shapedFL_of_all hf t⟩

theorem shapedFP_of_all {f : Val → Except Exc Val} (hf : ∀ x y, f x = .ok y → ShapedF x y) :
    ∀ {xs ys : List (Val × Val)}, All₂ (fun (kv kv' : Val × Val) => f kv.1 = .ok kv'.1 ∧ f kv.2 = .ok kv'.2) xs ys →
      ShapedFP xs ys
  | _, _, .nil => by simp [ShapedFP]
  | _, _, .cons (x := kv) (y := kv') h t => by
    obtain ⟨k, v⟩ := kv
    obtain ⟨k', v'⟩ := kv'
    simp only [ShapedFP]
    exact ⟨k', v', _, rfl, hf _ _ h.1, hf _ _ h.2, shapedFP_of_all hf t⟩

theorem mapE_ok_all₂ {α β} {f : α → Except Exc β} {xs : List α} {ys : List β} (h : mapE f xs = .ok ys) :
    All₂ (fun x y => f x = .ok y) xs ys := mapE_ok_forall₂ h

/-! ### the theorems -/

/-- **Kind preservation on the faithful model.** -/
theorem faithful_shaped : ∀ (fuel : Nat) (ctx : Ctx) (b : Bool) (v r : Val),
    Format.fmtIter fuel ctx b v = .ok r → ShapedF v r := by
  intro fuel
  induction fuel with
  | zero => intro ctx b v r h; simp [Format.fmtIter] at h
  | succ n ih =>
    intro ctx b v r h
    have hf : ∀ x y, Format.fmtIter n ctx b x = .ok y → ShapedF x y := fun x y => ih ctx b x y
    cases v with
    | list xs =>
      simp only [Format.fmtIter] at h
      cases hm : mapE (Format.fmtIter n ctx b) xs with
      | error e => rw [hm] at h; cases h
      | ok ys => rw [hm] at h; cases h; exact ⟨ys, rfl, shapedFL_of_all hf (mapE_ok_all₂ hm)⟩
    | tuple xs =>
      simp only [Format.fmtIter] at h
      cases hm : mapE (Format.fmtIter n ctx b) xs with
      | error e => rw [hm] at h; cases h
      | ok ys => rw [hm] at h; cases h; exact ⟨ys, rfl, shapedFL_of_all hf (mapE_ok_all₂ hm)⟩
    | set xs =>
      simp only [Format.fmtIter] at h
      cases hm : foldSet (Format.fmtIter n ctx b) xs [] with
      | error e => rw [hm] at h; cases h
      | ok out =>
        rw [hm] at h; cases h
        obtain ⟨ys, hall, rfl⟩ := foldSet_ok xs [] out hm
        exact ⟨ys, rfl, shapedFL_of_all hf (All₂.imp_mem' (fun _ _ _ hxy => hxy.1) hall)⟩
    | dict kvs =>
      simp only [Format.fmtIter] at h
      cases hm : foldPairs (Format.fmtIter n ctx b) kvs [] with
      | error e => rw [hm] at h; cases h
      | ok out =>
        rw [hm] at h; cases h
        obtain ⟨kvs', hall, rfl⟩ := foldPairs_ok kvs [] out hm
        exact ⟨kvs', rfl, shapedFP_of_all hf (All₂.imp_mem' (fun _ _ _ hxy => ⟨hxy.1, hxy.2.1⟩) hall)⟩
    | str s => simp [ShapedF]
    | sic s => simp [ShapedF]
    | py e => simp [ShapedF]
    | jsonify w => simp [ShapedF]
    | none => simp only [Format.fmtIter] at h; cases h; simp [ShapedF]
    | bool x => simp only [Format.fmtIter] at h; cases h; simp [ShapedF]
    | int i => simp only [Format.fmtIter] at h; cases h; simp [ShapedF]
    | flt x y => simp only [Format.fmtIter] at h; cases h; simp [ShapedF]
    | bytes s => simp only [Format.fmtIter] at h; cases h; simp [ShapedF]
    | obj i => simp only [Format.fmtIter] at h; cases h; simp [ShapedF]

/-- **Non-string leaves come through equal** on the faithful model. -/
theorem faithful_leaf_id (fuel : Nat) (ctx : Ctx) (b : Bool) (v : Val) (h : isLeafVal v = true) :
    Format.fmtIter (fuel + 1) ctx b v = .ok v := by
  cases v <;> simp [isLeafVal] at h <;> simp [Format.fmtIter]

theorem all₂_eq_self {α} {R : α → α → Prop} (hR : ∀ x y, R x y → y = x) :
    ∀ {xs ys : List α}, All₂ R xs ys → ys = xs
  | _, _, .nil => rfl
  | _, _, .cons h t => by rw [hR _ _ h, all₂_eq_self hR t]

/-- **Brace-free values are returned equal to the input** on the faithful model (whatever is returned). -/
theorem faithful_bracefree_id : ∀ (fuel : Nat) (ctx : Ctx) (b : Bool) (v r : Val),
    braceFree v = true → WfPy v → Format.fmtIter fuel ctx b v = .ok r → r = v := by
  intro fuel
  induction fuel with
  | zero => intro ctx b v r _ _ h; simp [Format.fmtIter] at h
  | succ n ih =>
    intro ctx b v r hb hw h
    cases v with
    | list xs =>
      simp only [braceFree] at hb; simp only [WfPy] at hw
      simp only [Format.fmtIter] at h
      cases hm : mapE (Format.fmtIter n ctx b) xs with
      | error e => rw [hm] at h; cases h
      | ok ys =>
        rw [hm] at h; cases h
        have := mapE_ok_eq_self (fun x hx y hy =>
          ih ctx b x y ((braceFreeL_iff xs).mp hb x hx) ((WfPyL_iff xs).mp hw x hx) hy) hm
        simp [this]
    | tuple xs =>
      simp only [braceFree] at hb; simp only [WfPy] at hw
      simp only [Format.fmtIter] at h
      cases hm : mapE (Format.fmtIter n ctx b) xs with
      | error e => rw [hm] at h; cases h
      | ok ys =>
        rw [hm] at h; cases h
        have := mapE_ok_eq_self (fun x hx y hy =>
          ih ctx b x y ((braceFreeL_iff xs).mp hb x hx) ((WfPyL_iff xs).mp hw x hx) hy) hm
        simp [this]
    | set xs =>
      simp only [braceFree] at hb; simp only [WfPy] at hw
      simp only [Format.fmtIter] at h
      cases hm : foldSet (Format.fmtIter n ctx b) xs [] with
      | error e => rw [hm] at h; cases h
      | ok out =>
        rw [hm] at h; cases h
        obtain ⟨ys, hall, rfl⟩ := foldSet_ok xs [] out hm
        have hself : ys = xs := by
          refine all₂_eq_self (R := fun x y => x ∈ xs ∧ Format.fmtIter n ctx b x = .ok y) ?_ ?_
          · intro x y hxy
            exact ih ctx b x y ((braceFreeL_iff xs).mp hb x hxy.1) ((WfPyL_iff xs).mp hw.2 x hxy.1) hxy.2
          · exact All₂.imp_mem' (fun x hx y hxy => ⟨hx, hxy.1⟩) hall
        subst hself
        rw [foldl_setPut_distinct ys [] (by simpa using hw.1)]
        simp
    | dict kvs =>
      simp only [braceFree] at hb; simp only [WfPy] at hw
      simp only [Format.fmtIter] at h
      cases hm : foldPairs (Format.fmtIter n ctx b) kvs [] with
      | error e => rw [hm] at h; cases h
      | ok out =>
        rw [hm] at h; cases h
        obtain ⟨kvs', hall, rfl⟩ := foldPairs_ok kvs [] out hm
        have hself : kvs' = kvs := by
          refine all₂_eq_self (R := fun kv kv' => kv ∈ kvs ∧ Format.fmtIter n ctx b kv.1 = .ok kv'.1 ∧
            Format.fmtIter n ctx b kv.2 = .ok kv'.2) ?_ ?_
          · intro kv kv' hxy
            have hbk := (braceFreeP_iff kvs).mp hb kv hxy.1
            have hwk := (WfPyP_iff kvs).mp hw.2 kv hxy.1
            have e1 := ih ctx b kv.1 kv'.1 hbk.1 hwk.1 hxy.2.1
            have e2 := ih ctx b kv.2 kv'.2 hbk.2 hwk.2 hxy.2.2
            exact Prod.ext e1 e2
          · exact All₂.imp_mem' (fun x hx y hxy => ⟨hx, hxy.1, hxy.2.1⟩) hall
        subst hself
        rw [foldl_dictPut_distinct kvs' [] (by simpa [keysOf_eq_map] using hw.1)]
        simp
    | str s =>
      simp only [braceFree] at hb
      simp only [Format.fmtIter] at h
      cases n with
      | zero => simp [Format.fmtKeepType] at h
      | succ m => rw [fmtKeepType_braceFree m ctx b s hb] at h; cases h; rfl
    | sic s => simp [braceFree] at hb
    | py e => simp [braceFree] at hb
    | jsonify w => simp [braceFree] at hb
    | none => simp only [Format.fmtIter] at h; cases h; rfl
    | bool x => simp only [Format.fmtIter] at h; cases h; rfl
    | int i => simp only [Format.fmtIter] at h; cases h; rfl
    | flt x y => simp only [Format.fmtIter] at h; cases h; rfl
    | bytes s => simp only [Format.fmtIter] at h; cases h; rfl
    | obj i => simp only [Format.fmtIter] at h; cases h; rfl

mutual
/-- every dict key and set member in `v` is hashable in the sense of the faithful model -/
def KeysHashF : Val → Prop
  | .list xs => KeysHashFL xs
  | .tuple xs => KeysHashFL xs
  | .set xs => (∀ x ∈ xs, Format.unhashable x = none) ∧ KeysHashFL xs
  | .dict kvs => (∀ k ∈ keysOf kvs, Format.unhashable k = none) ∧ KeysHashFP kvs
  | _ => True
def KeysHashFL : List Val → Prop
  | [] => True
  | x :: xs => KeysHashF x ∧ KeysHashFL xs
def KeysHashFP : List (Val × Val) → Prop
  | [] => True
  | (k, v) :: rest => KeysHashF k ∧ KeysHashF v ∧ KeysHashFP rest
end

theorem KeysHashFL_iff : ∀ (xs : List Val), KeysHashFL xs ↔ ∀ x ∈ xs, KeysHashF x
  | [] => by simp [KeysHashFL]
  | x :: xs => by simp [KeysHashFL, KeysHashFL_iff xs]

theorem KeysHashFP_iff : ∀ (kvs : List (Val × Val)), KeysHashFP kvs ↔ ∀ kv ∈ kvs, KeysHashF kv.1 ∧ KeysHashF kv.2
  | [] => by simp [KeysHashFP]
  | (k, v) :: rest => by simp [KeysHashFP, KeysHashFP_iff rest, and_assoc]

theorem all₂_self {α} {R : α → α → Prop} : ∀ (xs : List α), (∀ x ∈ xs, R x x) → All₂ R xs xs
  | [], _ => .nil
  | x :: xs, h => .cons (h x List.mem_cons_self) (all₂_self xs (fun y hy => h y (List.mem_cons_of_mem _ hy)))

/-- **Brace-free values are returned equal to the input** (total form) on the faithful model: with fuel at
    least the nesting depth and every key / member hashable, formatting succeeds and returns `v` itself. -/
theorem faithful_bracefree_total : ∀ (fuel : Nat) (ctx : Ctx) (b : Bool) (v : Val),
    braceFree v = true → WfPy v → KeysHashF v → need v ≤ fuel → Format.fmtIter fuel ctx b v = .ok v := by
  intro fuel
  induction fuel with
  | zero =>
    intro ctx b v _ _ _ hn
    cases v <;> simp [need] at hn
  | succ n ih =>
    intro ctx b v hb hw hh hn
    cases v with
    | list xs =>
      simp only [braceFree] at hb; simp only [WfPy] at hw; simp only [KeysHashF] at hh; simp only [need] at hn
      have : mapE (Format.fmtIter n ctx b) xs = .ok xs := mapE_id (fun x hx =>
        ih ctx b x ((braceFreeL_iff xs).mp hb x hx) ((WfPyL_iff xs).mp hw x hx) ((KeysHashFL_iff xs).mp hh x hx)
          (by have := need_le_of_mem hx; omega))
      simp [Format.fmtIter, this, Except.map]
    | tuple xs =>
      simp only [braceFree] at hb; simp only [WfPy] at hw; simp only [KeysHashF] at hh; simp only [need] at hn
      have : mapE (Format.fmtIter n ctx b) xs = .ok xs := mapE_id (fun x hx =>
        ih ctx b x ((braceFreeL_iff xs).mp hb x hx) ((WfPyL_iff xs).mp hw x hx) ((KeysHashFL_iff xs).mp hh x hx)
          (by have := need_le_of_mem hx; omega))
      simp [Format.fmtIter, this, Except.map]
    | set xs =>
      simp only [braceFree] at hb; simp only [WfPy] at hw; simp only [KeysHashF] at hh; simp only [need] at hn
      have hall : All₂ (fun x y => Format.fmtIter n ctx b x = .ok y ∧ Format.unhashable y = none) xs xs :=
        all₂_self xs (fun x hx => ⟨ih ctx b x ((braceFreeL_iff xs).mp hb x hx) ((WfPyL_iff xs).mp hw.2 x hx)
          ((KeysHashFL_iff xs).mp hh.2 x hx) (by have := need_le_of_mem hx; omega), hh.1 x hx⟩)
      simp only [Format.fmtIter, foldSet_of_all xs xs [] hall, Except.map]
      rw [foldl_setPut_distinct xs [] (by simpa using hw.1)]
      simp
    | dict kvs =>
      simp only [braceFree] at hb; simp only [WfPy] at hw; simp only [KeysHashF] at hh; simp only [need] at hn
      have hall : All₂ (fun kv kv' => Format.fmtIter n ctx b kv.1 = .ok kv'.1 ∧
          Format.fmtIter n ctx b kv.2 = .ok kv'.2 ∧ Format.unhashable kv'.1 = none) kvs kvs :=
        all₂_self kvs (fun kv hkv => by
          have hbk := (braceFreeP_iff kvs).mp hb kv hkv
          have hwk := (WfPyP_iff kvs).mp hw.2 kv hkv
          have hhk := (KeysHashFP_iff kvs).mp hh.2 kv hkv
          have hnk := need_le_of_memP hkv
          refine ⟨ih ctx b kv.1 hbk.1 hwk.1 hhk.1 (by omega), ih ctx b kv.2 hbk.2 hwk.2 hhk.2 (by omega), ?_⟩
          apply hh.1
          rw [keysOf_eq_map]
          exact List.mem_map_of_mem (f := fun (q : Val × Val) => q.1) hkv)
      simp only [Format.fmtIter, foldPairs_of_all kvs kvs [] hall, Except.map]
      rw [foldl_dictPut_distinct kvs [] (by simpa [keysOf_eq_map] using hw.1)]
      simp
    | str s =>
      simp only [braceFree] at hb; simp only [need] at hn
      cases n with
      | zero => omega
      | succ m => simp only [Format.fmtIter]; exact fmtKeepType_braceFree m ctx b s hb
    | sic s => simp [braceFree] at hb
    | py e => simp [braceFree] at hb
    | jsonify w => simp [braceFree] at hb
    | none => simp [Format.fmtIter]
    | bool x => simp [Format.fmtIter]
    | int i => simp [Format.fmtIter]
    | flt x y => simp [Format.fmtIter]
    | bytes s => simp [Format.fmtIter]
    | obj i => simp [Format.fmtIter]


theorem All₂.out_mem {α β} {R : α → β → Prop} {S : β → Prop} : ∀ {xs : List α} {ys : List β},
    (∀ x ∈ xs, ∀ y, R x y → S y) → All₂ R xs ys → ∀ y ∈ ys, S y
  | _, _, _, .nil, y, hy => by simp at hy
  | _, _, hRS, .cons h t, y, hy => by
    rcases List.mem_cons.mp hy with rfl | hy'
    · exact hRS _ List.mem_cons_self _ h
    · exact All₂.out_mem (fun x hx y hxy => hRS x (List.mem_cons_of_mem _ hx) y hxy) t y hy'

/-! ### the faithful formatter preserves the representation invariant -/

theorem wfPy_dictFind {kvs : List (Val × Val)} {k v : Val} (hx : WfPyP kvs) (h : dictFind kvs k = some v) : WfPy v := by
  induction kvs with
  | nil => simp [dictFind] at h
  | cons p rest ih =>
    obtain ⟨k', v'⟩ := p
    simp only [WfPyP] at hx
    simp only [dictFind] at h
    split at h
    · cases h; exact hx.2.1
    · exact ih hx.2.2 h

theorem wfPy_getItem {obj : Val} {k : Key} {v : Val} (ho : WfPy obj) (h : getItem obj k = .ok v) : WfPy v := by
  unfold getItem at h
  split at h
  · simp only [WfPy] at ho
    split at h
    · rename_i w hw; cases h; exact wfPy_dictFind ho.2 hw
    · cases h
  · simp only [WfPy] at ho
    split at h
    · unfold seqIndex at h
      split at h
      · rename_i w hw; cases h; exact (WfPyL_iff _).mp ho _ (List.mem_of_getElem? hw)
      · cases h
    · cases h
  · simp only [WfPy] at ho
    split at h
    · unfold seqIndex at h
      split at h
      · rename_i w hw; cases h; exact (WfPyL_iff _).mp ho _ (List.mem_of_getElem? hw)
      · cases h
    · cases h
  · split at h
    · split at h
      · cases h; simp [WfPy]
      · cases h
    · cases h
  · split at h
    · split at h
      · cases h; simp [WfPy]
      · cases h
    · cases h
  · cases h

theorem wfPy_getAttr {obj : Val} {n : List Char} {v : Val} (ho : WfPy obj) (h : getAttr obj n = .ok v) : WfPy v := by
  unfold getAttr at h
  simp only [] at h
  split at h
  · split at h
    · cases h; simp [WfPy]
    · cases h; simp [WfPy]
    · split at h
      · cases h; simpa [WfPy] using ho
      · cases h; simp [WfPy]
    · cases h
  · split at h
    · cases h
    · split at h
      · split at h
        · cases h; simp [WfPy]
        · cases h
      · cases h

theorem wfPy_walk : ∀ (accs : List Accessor) (obj : Val) (err : Option Exc) (v : Val), WfPy obj →
    walk obj accs err = .ok v → WfPy v
  | [], obj, none, v, ho, h => by simp only [walk] at h; cases h; exact ho
  | [], obj, some e, v, _, h => by simp only [walk] at h; cases h
  | .attr n :: rest, obj, err, v, ho, h => by
    simp only [walk] at h
    split at h
    · cases h
    · rename_i o hget; exact wfPy_walk rest o err v (wfPy_getAttr ho hget) h
  | .item k :: rest, obj, err, v, ho, h => by
    simp only [walk] at h
    split at h
    · cases h
    · rename_i o hget; exact wfPy_walk rest o err v (wfPy_getItem ho hget) h

theorem wfPy_getField {ctx : Ctx} (hc : CtxWfPy ctx) {name : List Char} {v : Val} (h : getField ctx name = .ok v) :
    WfPy v := by
  unfold getField at h
  split at h
  · cases h
  · split at h
    · cases h
    · rename_i first accs err _
      split at h
      · cases h
      · rename_i obj hval
        have ho : WfPy obj := by
          unfold getValue at hval
          split at hval
          · cases hval
          · split at hval
            · rename_i w hw; cases hval; exact hc _ _ hw
            · cases hval
        exact wfPy_walk accs obj err v ho h

theorem wfPy_convert {v o : Val} {c : Option Char} (hv : WfPy v) (h : convertField v c = .ok o) : WfPy o := by
  unfold convertField at h
  split at h
  · cases h; exact hv
  · split at h
    · split at h <;> cases h; simp [WfPy]
    · split at h
      · split at h <;> cases h; simp [WfPy]
      · split at h
        · split at h <;> cases h; simp [WfPy]
        · cases h

def EntryW : Entry → Prop
  | .lit _ => True
  | .fld obj _ => WfPy obj

theorem ktField_W {fi : Bool → Val → Except Exc Val} {ctx : Ctx} (hc : CtxWfPy ctx)
    (hfi : ∀ r x y, WfPy x → fi r x = .ok y → WfPy y) {b : Bool} {f : FieldT} {auto : Option Nat}
    {res : Entry × Option Nat} (h : ktField fi ctx b f auto = .ok res) : EntryW res.1 := by
  unfold ktField at h
  split at h
  · cases h
  · split at h
    · cases h
    · rename_i obj hobj
      have ho := wfPy_getField hc hobj
      split at h
      · cases h
      · simp only [] at h
        split at h
        · cases h
        · rename_i obj1 rs1 hrec
          have ho1 : WfPy obj1 := by
            split at hrec
            · split at hrec
              · cases hrec
              · rename_i o hfo; cases hrec; exact hfi _ _ _ ho hfo
            · cases hrec; exact ho
          split at h
          · split at h
            · cases h
            · rename_i obj2 hcv
              cases h
              exact wfPy_convert ho1 hcv
          · cases h; exact ho1

theorem ktLoop_W {fi : Bool → Val → Except Exc Val} {ctx : Ctx} (hc : CtxWfPy ctx)
    (hfi : ∀ r x y, WfPy x → fi r x = .ok y → WfPy y) {b : Bool} :
    ∀ (ts : List Tup) (perr : Option Exc) (auto : Option Nat) (result es : List Entry),
      (∀ e ∈ result, EntryW e) → ktLoop fi ctx b ts perr auto result = .ok es → ∀ e ∈ es, EntryW e
  | [], none, _, result, es, hr, h => by simp only [ktLoop] at h; cases h; exact hr
  | [], some e, _, _, _, _, h => by simp only [ktLoop] at h; cases h
  | t :: ts, perr, auto, result, es, hr, h => by
    simp only [ktLoop] at h
    have hr1 : ∀ e ∈ (if t.lit = [] then result else result ++ [Entry.lit t.lit]), EntryW e := by
      intro e he
      split at he
      · exact hr e he
      · rcases List.mem_append.mp he with h' | h'
        · exact hr e h'
        · simp at h'; subst h'; trivial
    split at h
    · exact ktLoop_W hc hfi ts perr auto _ es hr1 h
    · rename_i f hf
      split at h
      · cases h
      · rename_i entry auto1 hkf
        refine ktLoop_W hc hfi ts perr auto1 _ es ?_ h
        intro e he
        rcases List.mem_append.mp he with h' | h'
        · exact hr1 e h'
        · simp at h'; subst h'; exact ktField_W hc hfi hkf

theorem ktFinish_W {fi : Bool → Val → Except Exc Val} (hfi : ∀ r x y, WfPy x → fi r x = .ok y → WfPy y)
    {es : List Entry} (hes : ∀ e ∈ es, EntryW e) {v : Val} (h : ktFinish fi es = .ok v) : WfPy v := by
  unfold ktFinish at h
  split at h
  · cases h; simp [WfPy]
  · rename_i obj rs
    have ho : WfPy obj := hes (.fld obj rs) (by simp)
    simp only [] at h
    split at h
    · cases h
    · rename_i o hform
      have hwo : WfPy o := by
        split at hform
        · split at hform
          · cases hform
          · rename_i o1 hfo
            exact wfPy_convert (hfi _ _ _ ho hfo) hform
        · cases hform; exact ho
      split at h
      · split at h
        · cases h
        · cases h; simp [WfPy]
      · cases h; exact hwo
  · split at h
    · cases h
    · cases h; simp [WfPy]

/-- **`faithful_wf`.** -/
theorem faithful_wf_all : ∀ n : Nat,
    (∀ ctx b v r, CtxWfPy ctx → WfPy v → Format.fmtIter n ctx b v = .ok r → WfPy r) ∧
    (∀ ctx b s r, CtxWfPy ctx → Format.fmtKeepType n ctx b s = .ok r → WfPy r) := by
  intro n
  induction n with
  | zero =>
    exact ⟨by intro ctx b v r _ _ h; simp [Format.fmtIter] at h, by intro ctx b s r _ h; simp [Format.fmtKeepType] at h⟩
  | succ n ih =>
    obtain ⟨ihI, ihK⟩ := ih
    refine ⟨?_, ?_⟩
    · intro ctx b v r hc hv h
      cases v with
      | sic s => simp only [Format.fmtIter] at h; cases h; simp [WfPy]
      | py e => simp only [Format.fmtIter] at h; exact evalPy_closed wfPy_closed hc e r h
      | jsonify x =>
        rw [Format.fmtIter] at h
        split at h
        · cases h
        · split at h
          · cases h; simp [WfPy]
          · cases h
      | str s => rw [Format.fmtIter] at h; exact ihK ctx b _ r hc h
      | dict kvs =>
        simp only [WfPy] at hv
        simp only [Format.fmtIter] at h
        cases hm : foldPairs (Format.fmtIter n ctx b) kvs [] with
        | error e => rw [hm] at h; cases h
        | ok out =>
          rw [hm] at h; cases h
          obtain ⟨kvs', hall, rfl⟩ := foldPairs_ok kvs [] out hm
          have hin := (WfPyP_iff kvs).mp hv.2
          have hel : ∀ p ∈ kvs', WfPy p.1 ∧ WfPy p.2 :=
            All₂.out_mem (S := fun (p : Val × Val) => WfPy p.1 ∧ WfPy p.2)
              (fun kv hkv kv' hxy => ⟨ihI ctx b _ _ hc (hin kv hkv).1 hxy.1, ihI ctx b _ _ hc (hin kv hkv).2 hxy.2.1⟩) hall
          have := foldl_dictPut_wf WfPy kvs' [] hel (by intro p hp; simp at hp) (by simp [DistinctPy])
          simp only [WfPy]
          exact ⟨by rw [keysOf_eq_map]; exact this.2, (WfPyP_iff _).mpr this.1⟩
      | list xs =>
        simp only [WfPy] at hv
        simp only [Format.fmtIter] at h
        cases hm : mapE (Format.fmtIter n ctx b) xs with
        | error e => rw [hm] at h; cases h
        | ok ys =>
          rw [hm] at h; cases h
          simp only [WfPy]
          rw [WfPyL_iff]
          have hin := (WfPyL_iff xs).mp hv
          exact All₂.out_mem (S := fun y => WfPy y) (fun x hx y hxy => ihI ctx b x y hc (hin x hx) hxy) (mapE_ok_forall₂ hm)
      | tuple xs =>
        simp only [WfPy] at hv
        simp only [Format.fmtIter] at h
        cases hm : mapE (Format.fmtIter n ctx b) xs with
        | error e => rw [hm] at h; cases h
        | ok ys =>
          rw [hm] at h; cases h
          simp only [WfPy]
          rw [WfPyL_iff]
          have hin := (WfPyL_iff xs).mp hv
          exact All₂.out_mem (S := fun y => WfPy y) (fun x hx y hxy => ihI ctx b x y hc (hin x hx) hxy) (mapE_ok_forall₂ hm)
      | set xs =>
        simp only [WfPy] at hv
        simp only [Format.fmtIter] at h
        cases hm : foldSet (Format.fmtIter n ctx b) xs [] with
        | error e => rw [hm] at h; cases h
        | ok out =>
          rw [hm] at h; cases h
          obtain ⟨ys, hall, rfl⟩ := foldSet_ok xs [] out hm
          have hin := (WfPyL_iff xs).mp hv.2
          have hel : ∀ y ∈ ys, WfPy y :=
            All₂.out_mem (S := fun y => WfPy y) (fun x hx y hxy => ihI ctx b x y hc (hin x hx) hxy.1) hall
          have := foldl_setPut_wf WfPy ys [] hel (by intro p hp; simp at hp) (by simp [DistinctPy])
          simp only [WfPy]
          exact ⟨this.2, (WfPyL_iff _).mpr this.1⟩
      | none => simp only [Format.fmtIter] at h; cases h; simp [WfPy]
      | bool x => simp only [Format.fmtIter] at h; cases h; simp [WfPy]
      | int x => simp only [Format.fmtIter] at h; cases h; simp [WfPy]
      | flt x y => simp only [Format.fmtIter] at h; cases h; simp [WfPy]
      | bytes x => simp only [Format.fmtIter] at h; cases h; simp [WfPy]
      | obj x => simp only [Format.fmtIter] at h; cases h; simp [WfPy]
    · intro ctx b s r hc h
      unfold Format.fmtKeepType keepType at h
      simp only [] at h
      have hfi : ∀ r x y, WfPy x → Format.fmtIter n ctx r x = .ok y → WfPy y :=
        fun r x y hx hxy => ihI ctx r x y hc hx hxy
      split at h
      · cases h
      · rename_i es hes
        exact ktFinish_W hfi (ktLoop_W hc hfi _ _ _ [] es (by intro e he; simp at he) hes) h

end Pypyr.C09F
