/-
  C09 — the two tree-level models on the SIMPLE grammar.

  `Pypyr.fmtIter` (`PypyrModel/Fmt.lean`) parses with `parsePieces` (eager, literal text merged across `{{` /
  `}}`), `Format.fmtIter` (`PypyrModel/Format.lean`) with CPython's lazy tuple parser `parseTuples`. This file
  relates them on the grammar both accept: chunks of brace-free text, `{{`, `}}` and `{name}` / `{name:rf}` /
  `{name:ff}` with a simple name (`SimpleChunk`).

  Part 1: `parsePieces (render cs) = piecesFrom cs` — the basic parser on a rendered chunk list.
  Part 2: `keepType_basic` — what the faithful `_format_keep_type` returns for such a string, the basic one
          returns too (given that the recursive formatter it is handed does).
  Part 3: `basic_of_faithful` — on the fragment `Frag` (every string simple, dict keys and set members plain:
          brace-free strings, None, ints, bytes, objects) `Format.fmtIter f … = ok w` implies
          `Pypyr.fmtIter (2 * f) … = ok w`.
-/
import PypyrModel.Fmt
import PypyrModel.Format
import PypyrModel.FmtHeap
import Props.Lemmas.C08_Parse
import Props.Lemmas.C08_Nested
import Props.Lemmas.C08_Model
import Props.Lemmas.C08_Aux
import Props.Lemmas.C09_Tree
import Props.Lemmas.C09_Sim
import Props.Lemmas.C09_Faithful

set_option linter.unusedSimpArgs false

namespace Pypyr.C09B
open Pypyr Pypyr.Format Pypyr.FmtHeap

/-- a context key as the simple grammar writes it: non-empty, none of `. [ ] ! { } :`, not all digits -/
structure SimpleName (n : List Char) : Prop where
  nonempty : n ≠ []
  chars : ∀ c ∈ n, badNameChar c = false ∧ c ≠ ':'
  notDigits : n.all Char.isDigit = false

structure SimpleField (f : FieldT) : Prop where
  name : SimpleName f.name
  conv : f.conv = none
  spec : f.spec = [] ∨ f.spec = ['r', 'f'] ∨ f.spec = ['f', 'f']

def SimpleChunk : Chunk → Prop
  | .text cs => NoBrace cs ∧ cs ≠ []
  | .expr f => SimpleField f
  | _ => True

def litPiece (acc : List Char) : List Piece := if acc = [] then [] else [.lit (String.ofList acc)]

/-- the pieces `parsePieces` yields for a chunk list, given the pending literal text -/
def piecesFrom : List Chunk → List Char → List Piece
  | [], acc => litPiece acc
  | .text cs :: rest, acc => piecesFrom rest (acc ++ cs)
  | .lbrace :: rest, acc => piecesFrom rest (acc ++ ['{'])
  | .rbrace :: rest, acc => piecesFrom rest (acc ++ ['}'])
  | .expr f :: rest, acc =>
    litPiece acc ++ Piece.field (String.ofList f.name) (String.ofList f.spec) :: piecesFrom rest []

theorem flushLit_rev (lit : List Char) (acc : List Piece) :
    (flushLit lit acc).reverse = acc.reverse ++ litPiece lit.reverse := by
  unfold flushLit litPiece
  by_cases h : lit = []
  · subst h; simp
  · have : lit.reverse ≠ [] := by simpa using h
    have h' : lit.isEmpty = false := by cases lit <;> simp_all
    simp [h', this]

/-- brace-free characters go to the pending literal -/
theorem aux_text : ∀ (t : List Char) (fuel : Nat) (r lit : List Char) (acc : List Piece),
    NoBrace t → t.length < fuel →
    parsePiecesAux fuel (t ++ r) lit acc = parsePiecesAux (fuel - t.length) r (t.reverse ++ lit) acc
  | [], fuel, r, lit, acc, _, _ => by simp
  | c :: t, fuel, r, lit, acc, hb, hf => by
    cases fuel with
    | zero => cases hf
    | succ f =>
      have hc := hb c List.mem_cons_self
      have h1 : (c == '{') = false := by simp [hc.1]
      have h2 : (c == '}') = false := by simp [hc.2]
      have ih := aux_text t f r (c :: lit) acc (fun d hd => hb d (List.mem_cons_of_mem _ hd))
        (by simp at hf; omega)
      simp only [List.cons_append, parsePiecesAux, h1, h2, Bool.false_eq_true, ↓reduceIte, ih]
      simp

/-- `readField` over text without braces up to the closing `}` -/
theorem readField_plain : ∀ (t r acc : List Char), NoBrace t →
    readField 0 (t ++ '}' :: r) acc = some (acc.reverse ++ t, r)
  | [], r, acc, _ => by simp [readField]
  | c :: t, r, acc, hb => by
    have hc := hb c List.mem_cons_self
    have h1 : (c == '{') = false := by simp [hc.1]
    have h2 : (c == '}') = false := by simp [hc.2]
    simp only [List.cons_append, readField, h1, h2, Bool.false_eq_true, ↓reduceIte]
    rw [readField_plain t r (c :: acc) (fun d hd => hb d (List.mem_cons_of_mem _ hd))]
    simp

theorem takeWhile_no_colon : ∀ (n rest : List Char), (∀ c ∈ n, c ≠ ':') →
    (n ++ ':' :: rest).takeWhile (· != ':') = n ∧ (n ++ ':' :: rest).dropWhile (· != ':') = ':' :: rest
  | [], rest, _ => by simp
  | c :: n, rest, h => by
    have hc : (c != ':') = true := by simpa using h c List.mem_cons_self
    have ih := takeWhile_no_colon n rest (fun d hd => h d (List.mem_cons_of_mem _ hd))
    simp [hc, ih.1, ih.2]

theorem takeWhile_no_colon_end : ∀ (n : List Char), (∀ c ∈ n, c ≠ ':') →
    n.takeWhile (· != ':') = n ∧ n.dropWhile (· != ':') = []
  | [], _ => by simp
  | c :: n, h => by
    have hc : (c != ':') = true := by simpa using h c List.mem_cons_self
    have ih := takeWhile_no_colon_end n (fun d hd => h d (List.mem_cons_of_mem _ hd))
    simp [List.takeWhile, List.dropWhile, hc, ih.1, ih.2]

/-- the text between the braces of a simple field -/
def fieldBody (f : FieldT) : List Char := f.name ++ (if f.spec = [] then [] else ':' :: f.spec)

theorem mkField_simple (f : FieldT) (h : SimpleField f) :
    mkField (fieldBody f) = .ok (.field (String.ofList f.name) (String.ofList f.spec)) := by
  have hcol : ∀ c ∈ f.name, c ≠ ':' := fun c hc => (h.name.chars c hc).2
  have hne : f.name.isEmpty = false := by
    cases hn : f.name with
    | nil => exact absurd hn h.name.nonempty
    | cons _ _ => rfl
  have hbad : f.name.any badNameChar = false := by
    rw [List.any_eq_false]
    intro c hc
    simp [(h.name.chars c hc).1]
  unfold mkField fieldBody
  rcases h.spec with hs | hs | hs
  · simp only [hs, if_true, List.append_nil]
    obtain ⟨t1, t2⟩ := takeWhile_no_colon_end f.name hcol
    simp only [t1, t2, hne, h.name.notDigits, hbad, Bool.or_self, Bool.false_eq_true, if_false]
    simp
  · simp only [hs]
    obtain ⟨t1, t2⟩ := takeWhile_no_colon f.name ['r', 'f'] hcol
    simp only [show ((['r', 'f'] : List Char) = []) = False by simp, if_false, t1, t2, hne, h.name.notDigits, hbad,
      Bool.or_self, Bool.false_eq_true]
    simp
  · simp only [hs]
    obtain ⟨t1, t2⟩ := takeWhile_no_colon f.name ['f', 'f'] hcol
    simp only [show ((['f', 'f'] : List Char) = []) = False by simp, if_false, t1, t2, hne, h.name.notDigits, hbad,
      Bool.or_self, Bool.false_eq_true]
    simp

theorem fieldText_eq (f : FieldT) (h : SimpleField f) : f.text = '{' :: (fieldBody f ++ ['}']) := by
  unfold FieldT.text FieldT.tail fieldBody
  simp [h.conv, List.append_assoc]

theorem noBrace_fieldBody (f : FieldT) (h : SimpleField f) : NoBrace (fieldBody f) := by
  intro c hc
  unfold fieldBody at hc
  rcases List.mem_append.mp hc with hn | hs
  · have := (h.name.chars c hn).1
    unfold badNameChar at this
    simp only [Bool.or_eq_false_iff, beq_eq_false_iff_ne, ne_eq] at this
    exact ⟨this.1.2, this.2⟩
  · rcases h.spec with e | e | e <;> simp [e] at hs
    · rcases hs with rfl | rfl | rfl <;> decide
    · rcases hs with rfl | rfl <;> decide

theorem fieldBody_head (f : FieldT) (h : SimpleField f) : ∃ c t, fieldBody f = c :: t ∧ c ≠ '{' := by
  unfold fieldBody
  cases hn : f.name with
  | nil => exact absurd hn h.name.nonempty
  | cons c t =>
    refine ⟨c, _, rfl, ?_⟩
    have := (h.name.chars c (by rw [hn]; exact List.mem_cons_self)).1
    unfold badNameChar at this
    simp only [Bool.or_eq_false_iff, beq_eq_false_iff_ne, ne_eq] at this
    exact this.1.2

/-- **The basic parser on a rendered chunk list.** -/
theorem aux_render : ∀ (cs : List Chunk) (fuel : Nat) (lit : List Char) (acc : List Piece),
    (∀ c ∈ cs, SimpleChunk c) → (render cs).length < fuel →
    parsePiecesAux fuel (render cs) lit acc = .ok (acc.reverse ++ piecesFrom cs lit.reverse)
  | [], fuel, lit, acc, _, hf => by
    cases fuel with
    | zero => simp [render] at hf
    | succ f => simp [render, parsePiecesAux, piecesFrom, flushLit_rev]
  | .text t :: rest, fuel, lit, acc, hs, hf => by
    have ht : NoBrace t := (hs (.text t) List.mem_cons_self).1
    simp only [render, Chunk.render, List.length_append] at hf ⊢
    rw [aux_text t fuel (render rest) lit acc ht (by omega)]
    rw [aux_render rest _ _ acc (fun c hc => hs c (List.mem_cons_of_mem _ hc)) (by omega)]
    simp [piecesFrom]
  | .lbrace :: rest, fuel, lit, acc, hs, hf => by
    simp only [render, Chunk.render, List.length_append, List.length_cons, List.length_nil] at hf
    cases fuel with
    | zero => omega
    | succ f =>
      simp only [render, Chunk.render, List.cons_append, List.nil_append, parsePiecesAux, beq_self_eq_true, if_true]
      rw [aux_render rest f _ acc (fun c hc => hs c (List.mem_cons_of_mem _ hc)) (by omega)]
      simp [piecesFrom]
  | .rbrace :: rest, fuel, lit, acc, hs, hf => by
    simp only [render, Chunk.render, List.length_append, List.length_cons, List.length_nil] at hf
    cases fuel with
    | zero => omega
    | succ f =>
      have h1 : (('}' : Char) == '{') = false := by decide
      simp only [render, Chunk.render, List.cons_append, List.nil_append, parsePiecesAux, h1, Bool.false_eq_true,
        if_false, beq_self_eq_true, if_true]
      rw [aux_render rest f _ acc (fun c hc => hs c (List.mem_cons_of_mem _ hc)) (by omega)]
      simp [piecesFrom]
  | .expr fl :: rest, fuel, lit, acc, hs, hf => by
    have hfl : SimpleField fl := hs (.expr fl) List.mem_cons_self
    simp only [render, Chunk.render, List.length_append] at hf
    rw [fieldText_eq fl hfl] at hf
    simp only [List.length_cons, List.length_append, List.length_nil] at hf
    cases fuel with
    | zero => omega
    | succ f =>
      obtain ⟨c0, t0, hb0, hc0⟩ := fieldBody_head fl hfl
      have hrf := readField_plain (fieldBody fl) (render rest) [] (noBrace_fieldBody fl hfl)
      simp only [render, Chunk.render, fieldText_eq fl hfl, List.cons_append, List.append_assoc, List.nil_append,
        parsePiecesAux, beq_self_eq_true, if_true]
      rw [hb0] at hrf ⊢
      simp only [List.cons_append] at hrf ⊢
      have hne : (c0 == '{') = false := by simp [hc0]
      -- the `match rest with` of the parser: the first character of the name is not `{`
      split
      · rename_i heq; cases heq
      · rename_i rest' heq
        cases heq
        exact absurd rfl hc0
      · simp only [List.reverse_nil, List.nil_append] at hrf
        rw [hrf]
        simp only []
        rw [← hb0, mkField_simple fl hfl]
        simp only []
        rw [aux_render rest f [] _ (fun c hc => hs c (List.mem_cons_of_mem _ hc)) (by omega)]
        simp [piecesFrom, flushLit_rev, List.append_assoc]

theorem length_ofList (l : List Char) : (String.ofList l).length = l.length := by
  simp [String.length]

/-- **`parsePieces` on a rendered chunk list.** -/
theorem parsePieces_render (cs : List Chunk) (hs : ∀ c ∈ cs, SimpleChunk c) :
    parsePieces (String.ofList (render cs)) = .ok (piecesFrom cs []) := by
  unfold parsePieces
  rw [String.toList_ofList, length_ofList]
  have := aux_render cs ((render cs).length + 1) [] [] hs (by omega)
  simpa using this


/-! ## Part 2: the faithful `_format_keep_type` on a simple string -/

theorem isAsciiDigit_eq (c : Char) : isAsciiDigit c = c.isDigit := by
  simp only [isAsciiDigit, Char.isDigit, Char.le_def]

theorem simple_named {n : List Char} (h : SimpleName n) : Named n := by
  refine ⟨h.nonempty, ?_⟩
  unfold isDigitStr
  have : n.all isAsciiDigit = false := by
    have := h.notDigits
    rw [List.all_eq_false] at this ⊢
    obtain ⟨c, hc, hd⟩ := this
    exact ⟨c, hc, by rw [isAsciiDigit_eq]; exact hd⟩
  simp [this]

theorem simple_chars {n : List Char} (h : SimpleName n) (c : Char) (hc : c ∈ n) :
    c ≠ '.' ∧ c ≠ '[' ∧ c ≠ ']' ∧ c ≠ '!' ∧ c ≠ '{' ∧ c ≠ '}' ∧ c ≠ ':' := by
  have := (h.chars c hc).1
  unfold badNameChar at this
  simp only [Bool.or_eq_false_iff, beq_eq_false_iff_ne, ne_eq] at this
  exact ⟨this.1.1.1.1.1, this.1.1.1.1.2, this.1.1.1.2, this.1.1.2, this.1.2, this.2, (h.chars c hc).2⟩

theorem isFieldName_simple : ∀ (n : List Char), (∀ c ∈ n, c ≠ '[' ∧ c ≠ '!' ∧ c ≠ '{' ∧ c ≠ '}' ∧ c ≠ ':') →
    isFieldName false n = true
  | [], _ => rfl
  | c :: n, h => by
    have hc := h c List.mem_cons_self
    simp only [isFieldName, Bool.and_eq_true, decide_eq_true_eq]
    refine ⟨⟨⟨⟨hc.2.2.1, hc.2.2.2.1⟩, hc.2.2.2.2⟩, hc.2.1⟩, ?_⟩
    have : decide (c = '[') = false := by simp [hc.1]
    rw [this]
    exact isFieldName_simple n (fun d hd => h d (List.mem_cons_of_mem _ hd))

theorem getIntegerGo_some_digits : ∀ (cs : List Char) (acc n : Nat), getIntegerGo cs acc = .ok (some n) →
    cs.all isAsciiDigit = true
  | [], _, _, _ => rfl
  | c :: cs, acc, n, h => by
    unfold getIntegerGo at h
    split at h
    · rename_i hd
      simp only [] at h
      split at h
      · cases h
      · simp only [List.all_cons, hd, Bool.true_and]
        exact getIntegerGo_some_digits cs _ n h
    · cases h

/-- `get_field` on a simple name: the context value of that key. -/
theorem getField_simple {ctx : Ctx} {n : List Char} {v : Val} (hn : SimpleName n) (h : getField ctx n = .ok v) :
    Ctx.get? ctx (String.ofList n) = some v := by
  unfold getField at h
  split at h
  · cases h
  · have hsep : ∀ c ∈ n, c ≠ '[' ∧ c ≠ '.' := fun c hc => ⟨(simple_chars hn c hc).2.1, (simple_chars hn c hc).1⟩
    have hraw : splitRaw n = (n, [], none) := by
      unfold splitRaw
      rw [foldl_sstep_first [] n hsep]
      simp [sfinish]
    have hkey : ∀ k, keyOf n = .ok k → k = .str n := by
      intro k hk
      unfold keyOf getInteger at hk
      simp only [hn.nonempty, if_false] at hk
      split at hk
      · cases hk
      · rename_i m hm
        have := getIntegerGo_some_digits n 0 m hm
        have hnd := (simple_named hn).2
        unfold isDigitStr at hnd
        simp [this, hn.nonempty] at hnd
      · cases hk; rfl
    unfold splitField at h
    simp only [hraw] at h
    split at h
    · cases h
    · rename_i first accs err heq
      have hfa : first = .str n ∧ accs = [] ∧ err = none := by
        split at heq
        · cases heq
        · rename_i k hk
          cases heq
          exact ⟨hkey _ hk, rfl, rfl⟩
      obtain ⟨rfl, rfl, rfl⟩ := hfa
      simp only [getValue] at h
      cases hg : Ctx.get? ctx (String.ofList n) with
      | none => rw [hg] at h; simp at h
      | some w => rw [hg] at h; simp only [walk] at h; cases h; rfl

theorem simple_wf {c : Chunk} (h : SimpleChunk c) : c.WellFormed := by
  cases c with
  | text cs => exact h.1
  | lbrace => trivial
  | rbrace => trivial
  | expr f =>
    have hf : SimpleField f := h
    refine ⟨isFieldName_simple f.name (fun c hc => ?_), ?_⟩
    · have := simple_chars hf.name c hc
      exact ⟨this.2.1, this.2.2.2.1, this.2.2.2.2.1, this.2.2.2.2.2.1, this.2.2.2.2.2.2⟩
    · rcases hf.spec with e | e | e <;> rw [e] <;> decide

theorem noBrace_simple_spec {f : FieldT} (h : SimpleField f) : NoBrace f.spec := by
  rcases h.spec with e | e | e <;> rw [e] <;> decide

/-- the parts of the tuples of a chunk list, given the pending literal -/
def partsFrom : List Chunk → List Char → List Part
  | [], acc => if acc = [] then [] else [.lit acc]
  | .text cs :: rest, acc => partsFrom rest (acc ++ cs)
  | .lbrace :: rest, acc => .lit (acc ++ ['{']) :: partsFrom rest []
  | .rbrace :: rest, acc => .lit (acc ++ ['}']) :: partsFrom rest []
  | .expr f :: rest, acc => (if acc = [] then [] else [.lit acc]) ++ .fld f :: partsFrom rest []

theorem parts_tuplesFrom : ∀ (cs : List Chunk) (out : List Tup) (acc : List Char),
    parts (tuplesFrom cs out acc) = parts out ++ partsFrom cs acc
  | [], out, acc => by
    simp only [tuplesFrom, partsFrom]
    by_cases h : acc = []
    · simp [h]
    · simp [h, parts_append, parts, Tup.parts]
  | .text t :: rest, out, acc => by simp only [tuplesFrom, partsFrom]; exact parts_tuplesFrom rest out _
  | .lbrace :: rest, out, acc => by
    simp only [tuplesFrom, partsFrom]
    rw [parts_tuplesFrom rest _ [], parts_append]
    simp [parts, Tup.parts]
  | .rbrace :: rest, out, acc => by
    simp only [tuplesFrom, partsFrom]
    rw [parts_tuplesFrom rest _ [], parts_append]
    simp [parts, Tup.parts]
  | .expr f :: rest, out, acc => by
    simp only [tuplesFrom, partsFrom]
    rw [parts_tuplesFrom rest _ [], parts_append]
    by_cases h : acc = []
    · simp [h, parts, Tup.parts]
    · simp [h, parts, Tup.parts]

theorem simple_namedTups : ∀ (cs : List Chunk) (out : List Tup) (acc : List Char),
    (∀ c ∈ cs, SimpleChunk c) → NamedTups out → NamedTups (tuplesFrom cs out acc)
  | [], out, acc, _, ho => by
    simp only [tuplesFrom]
    split
    · exact ho
    · intro t ht f hf
      rcases List.mem_append.mp ht with h | h
      · exact ho t h f hf
      · simp at h; subst h; simp at hf
  | .text t :: rest, out, acc, hs, ho => by
    simp only [tuplesFrom]
    exact simple_namedTups rest out _ (fun c hc => hs c (List.mem_cons_of_mem _ hc)) ho
  | .lbrace :: rest, out, acc, hs, ho => by
    simp only [tuplesFrom]
    refine simple_namedTups rest _ _ (fun c hc => hs c (List.mem_cons_of_mem _ hc)) ?_
    intro t ht f hf
    rcases List.mem_append.mp ht with h | h
    · exact ho t h f hf
    · simp at h; subst h; simp at hf
  | .rbrace :: rest, out, acc, hs, ho => by
    simp only [tuplesFrom]
    refine simple_namedTups rest _ _ (fun c hc => hs c (List.mem_cons_of_mem _ hc)) ?_
    intro t ht f hf
    rcases List.mem_append.mp ht with h | h
    · exact ho t h f hf
    · simp at h; subst h; simp at hf
  | .expr fl :: rest, out, acc, hs, ho => by
    simp only [tuplesFrom]
    refine simple_namedTups rest _ _ (fun c hc => hs c (List.mem_cons_of_mem _ hc)) ?_
    intro t ht f hf
    rcases List.mem_append.mp ht with h | h
    · exact ho t h f hf
    · simp at h; subst h
      simp at hf; subst hf
      have : SimpleField fl := hs (.expr fl) List.mem_cons_self
      exact simple_named this.name

/-- what a simple expression stands for: the context value, formatted recursively when `rf` (or inside a
    recursive format, unless `ff`) -/
def FieldOk (deep : Bool → Val → Except Exc Val) (ctx : Ctx) (b : Bool) (f : FieldT) (obj : Val) (rc : Bool) : Prop :=
  ∃ v, Ctx.get? ctx (String.ofList f.name) = some v ∧
    ((Spec.isRf f.spec || (b && !Spec.isFf f.spec)) = true ∧ deep true v = .ok obj ∧ rc = true ∨
     (Spec.isRf f.spec || (b && !Spec.isFf f.spec)) = false ∧ obj = v ∧ rc = false)

/-- the text of a chunk list, every expression resolved and `format(obj, '')`-ed -/
def FlatC (deep : Bool → Val → Except Exc Val) (ctx : Ctx) (b : Bool) : List Chunk → List Char → Prop
  | [], t => t = []
  | .text cs :: rest, t => ∃ r, t = cs ++ r ∧ FlatC deep ctx b rest r
  | .lbrace :: rest, t => ∃ r, t = '{' :: r ∧ FlatC deep ctx b rest r
  | .rbrace :: rest, t => ∃ r, t = '}' :: r ∧ FlatC deep ctx b rest r
  | .expr f :: rest, t => ∃ obj rc txt r, FieldOk deep ctx b f obj rc ∧ formatField obj [] = .ok txt ∧
      t = txt ++ r ∧ FlatC deep ctx b rest r

theorem specBody_simple {f : FieldT} (h : SimpleField f) : Spec.specBody f.spec = [] := by
  rcases h.spec with e | e | e <;> rw [e] <;> decide

/-- `Spec.fieldObj` of a simple expression that resolves -/
theorem fieldObj_simple {deep : Bool → Val → Except Exc Val} {ctx : Ctx} {b : Bool} {f : FieldT}
    (hf : SimpleField f) {obj : Val} {pending : Option Char} {spec : List Char}
    (h : Spec.fieldObj deep ctx b f = .ok (obj, pending, spec)) :
    pending = none ∧ spec = f.spec ∧ ∃ rc, FieldOk deep ctx b f obj rc := by
  rw [fieldObj_eq, expandSpec_plain ctx f.spec (noBrace_simple_spec hf)] at h
  split at h
  · cases h
  · rename_i v hv
    have hget := getField_simple hf.name hv
    simp only [hf.conv] at h
    by_cases hc : (Spec.isRf f.spec || (b && !Spec.isFf f.spec)) = true
    · rw [mode_rec _ _ _ _ _ hc] at h
      split at h
      · cases h
      · rename_i o ho
        simp only [convertField] at h
        cases h
        exact ⟨rfl, rfl, true, v, hget, Or.inl ⟨hc, ho, rfl⟩⟩
    · have hc' : (Spec.isRf f.spec || (b && !Spec.isFf f.spec)) = false := by simpa using hc
      by_cases hff : Spec.isFf f.spec = true
      · rw [mode_ff _ _ _ _ _ hff] at h
        simp only [convertField] at h
        cases h
        exact ⟨rfl, rfl, false, _, hget, Or.inr ⟨hc', rfl, rfl⟩⟩
      · have hff' : Spec.isFf f.spec = false := by simpa using hff
        rw [mode_plain _ _ _ _ _ hc' hff'] at h
        cases h
        exact ⟨rfl, rfl, false, _, hget, Or.inr ⟨hc', rfl, rfl⟩⟩

/-- resolving and rendering the parts of a simple chunk list: the pending literal, then the chunks' text -/
theorem flat_partsFrom {deep : Bool → Val → Except Exc Val} {ctx : Ctx} {b : Bool} :
    ∀ (cs : List Chunk) (acc : List Char) rs (t : List Char), (∀ c ∈ cs, SimpleChunk c) →
      Spec.resolve deep ctx b (partsFrom cs acc) = .ok rs → Spec.render rs = .ok t →
      ∃ r, t = acc ++ r ∧ FlatC deep ctx b cs r
  | [], acc, rs, t, _, hr, ht => by
    simp only [partsFrom] at hr
    by_cases h : acc = []
    · simp only [h, if_true, Spec.resolve, pure, Except.pure] at hr
      cases hr
      simp only [Spec.render, pure, Except.pure] at ht
      cases ht
      exact ⟨[], by simp [h], rfl⟩
    · simp only [h, if_false, Spec.resolve, pure, Except.pure, bind, Except.bind] at hr
      cases hr
      simp only [Spec.render, pure, Except.pure, bind, Except.bind] at ht
      cases ht
      exact ⟨[], by simp, rfl⟩
  | .text cs :: rest, acc, rs, t, hs, hr, ht => by
    simp only [partsFrom] at hr
    obtain ⟨r, hr1, hr2⟩ := flat_partsFrom rest (acc ++ cs) rs t (fun c hc => hs c (List.mem_cons_of_mem _ hc)) hr ht
    exact ⟨cs ++ r, by simp [hr1, List.append_assoc], r, rfl, hr2⟩
  | .lbrace :: rest, acc, rs, t, hs, hr, ht => by
    simp only [partsFrom, Spec.resolve, bind, Except.bind, pure, Except.pure] at hr
    split at hr
    · cases hr
    · rename_i rs' hrs'
      cases hr
      simp only [Spec.render, bind, Except.bind, pure, Except.pure] at ht
      split at ht
      · cases ht
      · rename_i t' ht'
        cases ht
        obtain ⟨r, hr1, hr2⟩ := flat_partsFrom rest [] rs' t' (fun c hc => hs c (List.mem_cons_of_mem _ hc)) hrs' ht'
        exact ⟨'{' :: r, by simp [hr1], r, rfl, hr2⟩
  | .rbrace :: rest, acc, rs, t, hs, hr, ht => by
    simp only [partsFrom, Spec.resolve, bind, Except.bind, pure, Except.pure] at hr
    split at hr
    · cases hr
    · rename_i rs' hrs'
      cases hr
      simp only [Spec.render, bind, Except.bind, pure, Except.pure] at ht
      split at ht
      · cases ht
      · rename_i t' ht'
        cases ht
        obtain ⟨r, hr1, hr2⟩ := flat_partsFrom rest [] rs' t' (fun c hc => hs c (List.mem_cons_of_mem _ hc)) hrs' ht'
        exact ⟨'}' :: r, by simp [hr1], r, rfl, hr2⟩
  | .expr f :: rest, acc, rs, t, hs, hr, ht => by
    have hf : SimpleField f := hs (.expr f) List.mem_cons_self
    have key : ∀ rs1 t1, Spec.resolve deep ctx b (Part.fld f :: partsFrom rest []) = .ok rs1 → Spec.render rs1 = .ok t1 →
        FlatC deep ctx b (.expr f :: rest) t1 := by
      intro rs1 t1 hr1 ht1
      simp only [Spec.resolve, bind, Except.bind, pure, Except.pure] at hr1
      split at hr1
      · cases hr1
      · rename_i res hres
        obtain ⟨obj, pending, spec⟩ := res
        simp only [] at hr1
        split at hr1
        · cases hr1
        · rename_i rs' hrs'
          cases hr1
          obtain ⟨hp, hsp, rc, hfo⟩ := fieldObj_simple hf hres
          subst hp; subst hsp
          simp only [Spec.render, bind, Except.bind, pure, Except.pure, convertField, specBody_simple hf] at ht1
          split at ht1
          · cases ht1
          · rename_i txt htxt
            split at ht1
            · cases ht1
            · rename_i t' ht'
              cases ht1
              obtain ⟨r, hr1', hr2⟩ := flat_partsFrom rest [] rs' t' (fun c hc => hs c (List.mem_cons_of_mem _ hc)) hrs' ht'
              simp only [List.nil_append] at hr1'
              subst hr1'
              exact ⟨obj, rc, txt, t', hfo, htxt, rfl, hr2⟩
    simp only [partsFrom] at hr
    by_cases h : acc = []
    · simp only [h, if_true, List.nil_append] at hr
      exact ⟨t, by simp [h], key rs t hr ht⟩
    · simp only [h, if_false, List.cons_append, List.nil_append, Spec.resolve, bind, Except.bind, pure, Except.pure] at hr
      split at hr
      · cases hr
      · rename_i rs1 hrs1
        cases hr
        simp only [Spec.render, bind, Except.bind, pure, Except.pure] at ht
        split at ht
        · cases ht
        · rename_i t1 ht1
          cases ht
          have hrs1' : Spec.resolve deep ctx b (Part.fld f :: partsFrom rest []) = .ok rs1 := by
            simp only [Spec.resolve, bind, Except.bind, pure, Except.pure]
            exact hrs1
          exact ⟨t1, rfl, key rs1 t1 hrs1' ht1⟩


/-! ### from the chunk-level text to the basic model -/

theorem formatField_nil {v : Val} {txt : List Char} (h : formatField v [] = .ok txt) : txt = (pyStr v).toList := by
  unfold formatField at h
  cases v with
  | str s => simp only [if_true] at h; cases h; rfl
  | int i => simp only [if_true] at h; cases h; rfl
  | bool b => simp only [if_true] at h; cases h; rfl
  | flt n k => simp only [if_true] at h; cases h; rfl
  | none => simp only [if_true] at h; split at h <;> cases h; rfl
  | bytes b => simp only [if_true] at h; split at h <;> cases h; rfl
  | list xs => simp only [if_true] at h; split at h <;> cases h; rfl
  | tuple xs => simp only [if_true] at h; split at h <;> cases h; rfl
  | dict kvs => simp only [if_true] at h; split at h <;> cases h; rfl
  | set xs => simp only [if_true] at h; split at h <;> cases h; rfl
  | sic s => simp only [if_true] at h; split at h <;> cases h; rfl
  | py e => simp only [if_true] at h; split at h <;> cases h; rfl
  | jsonify w => simp only [if_true] at h; split at h <;> cases h; rfl
  | obj i => simp only [if_true] at h; split at h <;> cases h; rfl

theorem join_toList (l : List String) : (String.join l).toList = l.flatMap String.toList := by
  have : ∀ (acc : String), (l.foldl (fun r s => r ++ s) acc).toList = acc.toList ++ l.flatMap String.toList := by
    induction l with
    | nil => intro acc; simp
    | cons x xs ih => intro acc; simp [ih, List.append_assoc]
  simpa [String.join] using this ""

theorem spec_str_eq {f : FieldT} (h : SimpleField f) :
    (String.ofList f.spec == "rf") = Spec.isRf f.spec ∧ (String.ofList f.spec != "ff") = !Spec.isFf f.spec ∧
    (String.ofList f.spec == "ff") = Spec.isFf f.spec := by
  rcases h.spec with e | e | e <;> rw [e] <;> decide

/-- a simple expression that resolves at chunk level resolves in the basic model -/
theorem fmtField_of_fieldOk {deep : Bool → Val → Except Exc Val} {ctx : Ctx} {b : Bool} {N : Nat}
    (hdeep : ∀ r k obj w, Ctx.get? ctx k = some obj → deep r obj = .ok w → fmtIter N ctx r obj = .ok w)
    {f : FieldT} (hf : SimpleField f) {obj : Val} {rc : Bool} (h : FieldOk deep ctx b f obj rc) :
    fmtField (N + 1) ctx b (String.ofList f.name) (String.ofList f.spec) = .ok (obj, rc) := by
  obtain ⟨v, hv, hcase⟩ := h
  obtain ⟨e1, e2, _⟩ := spec_str_eq hf
  rw [fmtField]
  simp only [hv, e1, e2]
  rcases hcase with ⟨hc, hd, rfl⟩ | ⟨hc, rfl, rfl⟩
  · simp [hc, hdeep _ _ _ _ hv hd]
  · simp [hc]

theorem pieces_of_flatC {deep : Bool → Val → Except Exc Val} {ctx : Ctx} {b : Bool} {N : Nat}
    (hdeep : ∀ r k obj w, Ctx.get? ctx k = some obj → deep r obj = .ok w → fmtIter N ctx r obj = .ok w) :
    ∀ (cs : List Chunk) (acc r : List Char), (∀ c ∈ cs, SimpleChunk c) → FlatC deep ctx b cs r →
      ∃ strs, mapE (C09.fmtPiece (N + 1) ctx b) (piecesFrom cs acc) = .ok strs ∧
        strs.flatMap String.toList = acc ++ r
  | [], acc, r, _, hfl => by
    simp only [FlatC] at hfl
    subst hfl
    simp only [piecesFrom, litPiece]
    by_cases h : acc = []
    · simp [h, mapE]
    · simp [h, mapE, C09.fmtPiece]
  | .text t :: rest, acc, r, hs, hfl => by
    simp only [FlatC] at hfl
    obtain ⟨r', rfl, hr'⟩ := hfl
    obtain ⟨strs, h1, h2⟩ := pieces_of_flatC hdeep rest (acc ++ t) r' (fun c hc => hs c (List.mem_cons_of_mem _ hc)) hr'
    exact ⟨strs, by simpa [piecesFrom] using h1, by simpa [List.append_assoc] using h2⟩
  | .lbrace :: rest, acc, r, hs, hfl => by
    simp only [FlatC] at hfl
    obtain ⟨r', rfl, hr'⟩ := hfl
    obtain ⟨strs, h1, h2⟩ := pieces_of_flatC hdeep rest (acc ++ ['{']) r' (fun c hc => hs c (List.mem_cons_of_mem _ hc)) hr'
    exact ⟨strs, by simpa [piecesFrom] using h1, by simpa [List.append_assoc] using h2⟩
  | .rbrace :: rest, acc, r, hs, hfl => by
    simp only [FlatC] at hfl
    obtain ⟨r', rfl, hr'⟩ := hfl
    obtain ⟨strs, h1, h2⟩ := pieces_of_flatC hdeep rest (acc ++ ['}']) r' (fun c hc => hs c (List.mem_cons_of_mem _ hc)) hr'
    exact ⟨strs, by simpa [piecesFrom] using h1, by simpa [List.append_assoc] using h2⟩
  | .expr f :: rest, acc, r, hs, hfl => by
    have hf : SimpleField f := hs (.expr f) List.mem_cons_self
    simp only [FlatC] at hfl
    obtain ⟨obj, rc, txt, r', hfo, htxt, rfl, hr'⟩ := hfl
    obtain ⟨strs, h1, h2⟩ := pieces_of_flatC hdeep rest [] r' (fun c hc => hs c (List.mem_cons_of_mem _ hc)) hr'
    have hfld := fmtField_of_fieldOk hdeep hf hfo
    have htxt' := formatField_nil htxt
    have hpiece : C09.fmtPiece (N + 1) ctx b (Piece.field (String.ofList f.name) (String.ofList f.spec)) = .ok (pyStr obj) := by
      simp [C09.fmtPiece, hfld]
    simp only [List.nil_append] at h2
    simp only [piecesFrom, litPiece]
    by_cases h : acc = []
    · refine ⟨pyStr obj :: strs, ?_, ?_⟩
      · simp only [h, if_true, List.nil_append]
        exact C09.mapE_cons_ok hpiece h1
      · simp [h, h2, htxt']
    · refine ⟨String.ofList acc :: pyStr obj :: strs, ?_, ?_⟩
      · simp only [h, if_false, List.cons_append, List.nil_append]
        exact C09.mapE_cons_ok (by simp [C09.fmtPiece]) (C09.mapE_cons_ok hpiece h1)
      · simp [h2, htxt']

/-! ### single expression or not -/

theorem partsFrom_acc {acc : List Char} (h : acc ≠ []) : ∀ (cs : List Chunk), ∃ t ps, partsFrom cs acc = .lit t :: ps
  | [] => ⟨acc, [], by simp [partsFrom, h]⟩
  | .text t :: rest => by
    simp only [partsFrom]
    exact partsFrom_acc (by simp [h]) rest
  | .lbrace :: rest => ⟨acc ++ ['{'], partsFrom rest [], rfl⟩
  | .rbrace :: rest => ⟨acc ++ ['}'], partsFrom rest [], rfl⟩
  | .expr f :: rest => ⟨acc, .fld f :: partsFrom rest [], by simp [partsFrom, h]⟩

theorem piecesFrom_acc {acc : List Char} (h : acc ≠ []) : ∀ (cs : List Chunk), ∃ t ps, piecesFrom cs acc = .lit t :: ps
  | [] => ⟨String.ofList acc, [], by simp [piecesFrom, litPiece, h]⟩
  | .text t :: rest => by
    simp only [piecesFrom]
    exact piecesFrom_acc (by simp [h]) rest
  | .lbrace :: rest => by
    simp only [piecesFrom]
    exact piecesFrom_acc (by simp) rest
  | .rbrace :: rest => by
    simp only [piecesFrom]
    exact piecesFrom_acc (by simp) rest
  | .expr f :: rest => ⟨String.ofList acc, .field (String.ofList f.name) (String.ofList f.spec) :: piecesFrom rest [],
      by simp [piecesFrom, litPiece, h]⟩

theorem partsFrom_ne_nil : ∀ (cs : List Chunk), (∀ c ∈ cs, SimpleChunk c) → cs ≠ [] → partsFrom cs [] ≠ []
  | [], _, h => absurd rfl h
  | .text t :: rest, hs, _ => by
    have ht : t ≠ [] := (hs (.text t) List.mem_cons_self).2
    obtain ⟨t', ps, e⟩ := partsFrom_acc (acc := [] ++ t) (by simpa using ht) rest
    simp only [partsFrom, e]; simp
  | .lbrace :: rest, _, _ => by simp [partsFrom]
  | .rbrace :: rest, _, _ => by simp [partsFrom]
  | .expr f :: rest, _, _ => by simp [partsFrom]

theorem piecesFrom_ne_nil : ∀ (cs : List Chunk), (∀ c ∈ cs, SimpleChunk c) → cs ≠ [] → piecesFrom cs [] ≠ []
  | [], _, h => absurd rfl h
  | .text t :: rest, hs, _ => by
    have ht : t ≠ [] := (hs (.text t) List.mem_cons_self).2
    obtain ⟨t', ps, e⟩ := piecesFrom_acc (acc := [] ++ t) (by simpa using ht) rest
    simp only [piecesFrom, e]; simp
  | .lbrace :: rest, _, _ => by
    obtain ⟨t', ps, e⟩ := piecesFrom_acc (acc := [] ++ ['{']) (by simp) rest
    simp only [piecesFrom, e]; simp
  | .rbrace :: rest, _, _ => by
    obtain ⟨t', ps, e⟩ := piecesFrom_acc (acc := [] ++ ['}']) (by simp) rest
    simp only [piecesFrom, e]; simp
  | .expr f :: rest, _, _ => by simp [piecesFrom, litPiece]

/-- a simple chunk list is a single expression, or neither parser sees a single expression -/
theorem single_or_not (cs : List Chunk) (hs : ∀ c ∈ cs, SimpleChunk c) :
    (∃ f, cs = [.expr f]) ∨ ((∀ f, partsFrom cs [] ≠ [.fld f]) ∧ (∀ n s, piecesFrom cs [] ≠ [.field n s])) := by
  cases cs with
  | nil => right; simp [partsFrom, piecesFrom, litPiece]
  | cons c rest =>
    cases c with
    | text t =>
      right
      have ht : t ≠ [] := (hs (.text t) List.mem_cons_self).2
      obtain ⟨t1, ps1, e1⟩ := partsFrom_acc (acc := [] ++ t) (by simpa using ht) rest
      obtain ⟨t2, ps2, e2⟩ := piecesFrom_acc (acc := [] ++ t) (by simpa using ht) rest
      constructor
      · intro f h; simp only [partsFrom] at h; rw [e1] at h; cases h
      · intro n s h; simp only [piecesFrom] at h; rw [e2] at h; cases h
    | lbrace =>
      right
      obtain ⟨t2, ps2, e2⟩ := piecesFrom_acc (acc := [] ++ ['{']) (by simp) rest
      constructor
      · intro f h; simp only [partsFrom] at h; cases h
      · intro n s h; simp only [piecesFrom] at h; rw [e2] at h; cases h
    | rbrace =>
      right
      obtain ⟨t2, ps2, e2⟩ := piecesFrom_acc (acc := [] ++ ['}']) (by simp) rest
      constructor
      · intro f h; simp only [partsFrom] at h; cases h
      · intro n s h; simp only [piecesFrom] at h; rw [e2] at h; cases h
    | expr f =>
      by_cases hr : rest = []
      · left; exact ⟨f, by rw [hr]⟩
      · right
        have h1 := partsFrom_ne_nil rest (fun c hc => hs c (List.mem_cons_of_mem _ hc)) hr
        have h2 := piecesFrom_ne_nil rest (fun c hc => hs c (List.mem_cons_of_mem _ hc)) hr
        simp only [partsFrom, piecesFrom, litPiece, if_true, List.nil_append]
        constructor
        · intro f' h; injection h with _ h'; exact h1 h'
        · intro n s h; injection h with _ h'; exact h2 h'

theorem format_flat_of_not_single (deep : Bool → Val → Except Exc Val) (ctx : Ctx) (b : Bool) (ps : List Part)
    (h : ∀ f, ps ≠ [.fld f]) : Spec.format deep ctx b ps = Spec.formatFlat deep ctx b ps := by
  match ps, h with
  | [], _ => rfl
  | [.lit t], _ =>
    simp [Spec.format, Spec.formatFlat, Spec.resolve, Spec.render, bind, Except.bind, pure, Except.pure]
  | [.fld f], h => exact absurd rfl (h f)
  | p :: q :: rest, _ => cases p <;> rfl

/-- **The faithful `_format_keep_type` against the basic one** on a simple string: whatever the faithful
    one returns, given a recursive formatter `deep`, the basic one returns with fuel `N + 2`, provided the
    basic recursive formatter with fuel `N` returns whatever `deep` returns. -/
theorem keepType_basic {deep : Bool → Val → Except Exc Val} {ctx : Ctx} {b : Bool} {N : Nat}
    (hdeep : ∀ r k obj w, Ctx.get? ctx k = some obj → deep r obj = .ok w → fmtIter N ctx r obj = .ok w)
    (cs : List Chunk) (hs : ∀ c ∈ cs, SimpleChunk c) (w : Val)
    (h : keepType deep ctx b (render cs) = .ok w) :
    Pypyr.fmtKeepType (N + 2) ctx b (String.ofList (render cs)) = .ok w := by
  have hp := parse_render cs (fun c hc => simple_wf (hs c hc))
  have hnamed : NamedTups (tuplesOf cs) := simple_namedTups cs [] [] hs (by intro t ht; simp at ht)
  rw [keepType_refines_spec deep ctx b _ _ hp hnamed] at h
  have hparts : parts (tuplesOf cs) = partsFrom cs [] := by
    have := parts_tuplesFrom cs [] []
    simpa [tuplesOf, parts] using this
  rw [hparts] at h
  have hpieces := parsePieces_render cs hs
  rw [Pypyr.fmtKeepType, hpieces]
  simp only []
  rcases single_or_not cs hs with ⟨f, rfl⟩ | ⟨hn1, hn2⟩
  · -- a single expression
    have hf : SimpleField f := hs (.expr f) List.mem_cons_self
    simp only [partsFrom, if_true, List.nil_append, Spec.format] at h
    rw [formatSingle_eq, expandSpec_plain ctx f.spec (noBrace_simple_spec hf)] at h
    split at h
    · cases h
    · rename_i v hv
      have hget := getField_simple hf.name hv
      simp only [Spec.singleObj, hf.conv, convertField, specBody_simple hf, bind, Except.bind, pure, Except.pure,
        if_true] at h
      obtain ⟨e1, e2, e3⟩ := spec_str_eq hf
      simp only [piecesFrom, litPiece, if_true, List.nil_append]
      rw [fmtField]
      simp only [hget, e1, e2, e3]
      by_cases hff : Spec.isFf f.spec = true
      · have hrf : Spec.isRf f.spec = false := by
          cases h' : Spec.isRf f.spec
          · rfl
          · have := isRf_isFf_excl _ h'; rw [hff] at this; cases this
        simp only [hff, if_true] at h
        cases h
        simp [hff, hrf]
      · have hff' : Spec.isFf f.spec = false := by simpa using hff
        simp only [hff', Bool.false_eq_true, if_false] at h
        split at h
        · cases h
        · rename_i o ho
          cases h
          by_cases hc : (Spec.isRf f.spec || b) = true
          · have hd := hdeep _ _ _ _ hget ho
            rw [hc] at hd
            simp [hff', hc, hd]
          · have hc' : (Spec.isRf f.spec || b) = false := by simpa using hc
            have hrf : Spec.isRf f.spec = false := by cases h1 : Spec.isRf f.spec <;> simp_all
            have hb : b = false := by cases b <;> simp_all
            have hd := hdeep _ _ _ _ hget ho
            rw [hc'] at hd
            simp [hff', hrf, hb, C09.fmtIter_mono (Nat.le_succ N) hd]
  · -- text and expressions mixed (or literal text only, or nothing)
    rw [format_flat_of_not_single deep ctx b _ hn1] at h
    simp only [Spec.formatFlat, bind, Except.bind, pure, Except.pure] at h
    split at h
    · cases h
    · rename_i rs hrs
      split at h
      · cases h
      · rename_i t ht
        cases h
        obtain ⟨r, hr1, hr2⟩ := flat_partsFrom cs [] rs t hs hrs ht
        simp only [List.nil_append] at hr1
        subst hr1
        obtain ⟨strs, hm, hj⟩ := pieces_of_flatC hdeep cs [] t hs hr2
        simp only [List.nil_append] at hj
        have hjoin : String.join strs = String.ofList t := by
          have := join_toList strs
          rw [hj] at this
          rw [← this, String.ofList_toList]
        -- the four shapes of the piece list
        split
        · rename_i heq
          rw [heq] at hm
          simp only [mapE] at hm
          cases hm
          simp [← hjoin, String.join]
        · rename_i t1 heq
          rw [heq] at hm
          simp only [mapE, C09.fmtPiece] at hm
          cases hm
          simp [← hjoin, String.join]
        · rename_i n s heq
          exact absurd heq (hn2 n s)
        · split
          · rename_i e he
            have : Except.error e = Except.ok strs := he.symm.trans hm
            cases this
          · rename_i strs2 hm2
            have : Except.ok strs2 = Except.ok strs := hm2.symm.trans hm
            cases this
            rw [hjoin]


/-! ## Part 3: the fragment and the relation -/

/-- a dict key / set member that formatting leaves alone and that Python compares structurally -/
def PlainKey : Val → Prop
  | .str s => strBraceFree s = true
  | .none | .int _ | .bytes _ | .obj _ => True
  | _ => False

mutual
/-- The fragment on which the two tree-level models are related: every string is a string of the simple
    grammar, dict keys and set members are plain (expressions only in VALUES). -/
def Frag : Val → Prop
  | .str s => ∃ cs, (∀ c ∈ cs, SimpleChunk c) ∧ s = String.ofList (render cs)
  | .list xs => FragL xs
  | .tuple xs => FragL xs
  | .set xs => ∀ x ∈ xs, PlainKey x
  | .dict kvs => (∀ k ∈ keysOf kvs, PlainKey k) ∧ FragP kvs
  | .jsonify v => Frag v
  | _ => True
def FragL : List Val → Prop
  | [] => True
  | x :: xs => Frag x ∧ FragL xs
def FragP : List (Val × Val) → Prop
  | [] => True
  | (_, v) :: rest => Frag v ∧ FragP rest
end

def FragCtx (ctx : Ctx) : Prop := ∀ k v, Ctx.get? ctx k = some v → Frag v

theorem FragL_iff : ∀ (xs : List Val), FragL xs ↔ ∀ x ∈ xs, Frag x
  | [] => by simp [FragL]
  | x :: xs => by simp [FragL, FragL_iff xs]

theorem FragP_iff : ∀ (kvs : List (Val × Val)), FragP kvs ↔ ∀ kv ∈ kvs, Frag kv.2
  | [] => by simp [FragP]
  | (k, v) :: rest => by simp [FragP, FragP_iff rest]

theorem noBrace_of_braceFree (s : String) (h : strBraceFree s = true) : NoBrace s.toList := by
  intro c hc
  have := List.all_eq_true.mp h c hc
  simpa using this

theorem frag_of_plain {k : Val} (h : PlainKey k) : Frag k := by
  cases k with
  | str s =>
    simp only [PlainKey] at h
    simp only [Frag]
    by_cases he : s.toList = []
    · refine ⟨[], by simp, ?_⟩
      have := congrArg String.ofList he
      simpa [render, String.ofList_toList] using this
    · exact ⟨[.text s.toList], by
        intro c hc; simp at hc; subst hc; exact ⟨noBrace_of_braceFree s h, he⟩,
        by simp [render, Chunk.render, String.ofList_toList]⟩
  | none => simp [Frag]
  | int i => simp [Frag]
  | bytes x => simp [Frag]
  | obj i => simp [Frag]
  | bool x => simp [PlainKey] at h
  | flt x y => simp [PlainKey] at h
  | list xs => simp [PlainKey] at h
  | tuple xs => simp [PlainKey] at h
  | dict kvs => simp [PlainKey] at h
  | set xs => simp [PlainKey] at h
  | sic x => simp [PlainKey] at h
  | py e => simp [PlainKey] at h
  | jsonify x => simp [PlainKey] at h

theorem plain_braceFree {k : Val} (h : PlainKey k) : braceFree k = true ∧ C09F.WfPy k := by
  cases k <;> simp [PlainKey] at h <;> simp [braceFree, C09F.WfPy, h]

theorem int_cmp_eq (a b : Int) : (compare a b == Ordering.eq) = decide (a = b) := by
  by_cases h : a = b
  · subst h
    simp [compare, compareOfLessAndEq]
  · simp only [compare, compareOfLessAndEq, h]
    split <;> simp

theorem pyEq_plain {a b : Val} (ha : PlainKey a) (hb : PlainKey b) : pyEq a b = decide (a = b) := by
  by_cases hab : a = b
  · subst hab
    cases a <;> simp [PlainKey] at ha <;> simp [pyEq, Val.num?, Num.cmp, int_cmp_eq]
  · have hne : (a == b) = false := by simp [hab]
    cases a <;> simp [PlainKey] at ha <;> cases b <;> simp [PlainKey] at hb <;>
      simp_all [pyEq, Val.num?, Num.cmp, int_cmp_eq]

theorem dictPut_eq_dictSet : ∀ (acc : List (Val × Val)) (k v : Val), (∀ p ∈ acc, PlainKey p.1) → PlainKey k →
    dictPut acc k v = dictSet acc k v
  | [], _, _, _, _ => rfl
  | (k', v') :: rest, k, v, hacc, hk => by
    have h1 := hacc (k', v') List.mem_cons_self
    simp only [dictPut, dictSet, pyEq_plain h1 hk, decide_eq_true_eq]
    split
    · rfl
    · rw [dictPut_eq_dictSet rest k v (fun p hp => hacc p (List.mem_cons_of_mem _ hp)) hk]

theorem dictSet_keys_plain {acc : List (Val × Val)} {k v : Val} (hacc : ∀ p ∈ acc, PlainKey p.1) (hk : PlainKey k) :
    ∀ p ∈ dictSet acc k v, PlainKey p.1 := by
  induction acc with
  | nil => intro p hp; simp [dictSet] at hp; subst hp; exact hk
  | cons a rest ih =>
    obtain ⟨a1, a2⟩ := a
    intro p hp
    simp only [dictSet] at hp
    split at hp
    · rcases List.mem_cons.mp hp with rfl | h
      · exact hacc (a1, a2) List.mem_cons_self
      · exact hacc p (List.mem_cons_of_mem _ h)
    · rcases List.mem_cons.mp hp with rfl | h
      · exact hacc _ List.mem_cons_self
      · exact ih (fun q hq => hacc q (List.mem_cons_of_mem _ hq)) p h

theorem foldl_dictPut_eq : ∀ (kvs acc : List (Val × Val)), (∀ p ∈ acc, PlainKey p.1) → (∀ p ∈ kvs, PlainKey p.1) →
    kvs.foldl (fun a kv => dictPut a kv.1 kv.2) acc = kvs.foldl (fun a kv => dictSet a kv.1 kv.2) acc
  | [], _, _, _ => rfl
  | kv :: rest, acc, hacc, hk => by
    simp only [List.foldl_cons]
    rw [dictPut_eq_dictSet acc kv.1 kv.2 hacc (hk kv List.mem_cons_self)]
    exact foldl_dictPut_eq rest _ (dictSet_keys_plain hacc (hk kv List.mem_cons_self))
      (fun p hp => hk p (List.mem_cons_of_mem _ hp))

theorem setPut_eq_setInsert (acc : List Val) (v : Val) (hacc : ∀ x ∈ acc, PlainKey x) (hv : PlainKey v) :
    setPut acc v = setInsert acc v := by
  unfold setPut setInsert
  have : acc.any (fun x => pyEq x v) = acc.contains v := by
    induction acc with
    | nil => rfl
    | cons a rest ih =>
      have h1 := pyEq_plain (hacc a List.mem_cons_self) hv
      simp only [List.any_cons, List.contains_cons, h1, ih (fun x hx => hacc x (List.mem_cons_of_mem _ hx))]
      by_cases h : a = v
      · subst h; simp
      · have : (v == a) = false := by simp [Ne.symm h]
        simp [h, this]
  rw [this]

theorem foldl_setPut_eq : ∀ (xs acc : List Val), (∀ x ∈ acc, PlainKey x) → (∀ x ∈ xs, PlainKey x) →
    xs.foldl setPut acc = xs.foldl setInsert acc
  | [], _, _, _ => rfl
  | x :: rest, acc, hacc, hx => by
    simp only [List.foldl_cons]
    rw [setPut_eq_setInsert acc x hacc (hx x List.mem_cons_self)]
    refine foldl_setPut_eq rest _ ?_ (fun y hy => hx y (List.mem_cons_of_mem _ hy))
    intro y hy
    unfold setInsert at hy
    split at hy
    · exact hacc y hy
    · rcases List.mem_append.mp hy with h | h
      · exact hacc y h
      · simp at h; subst h; exact hx y List.mem_cons_self

theorem all₂_mapE {α β} {f : α → Except Exc β} : ∀ {xs : List α} {ys : List β},
    C09.All₂ (fun x y => f x = .ok y) xs ys → mapE f xs = .ok ys
  | _, _, .nil => rfl
  | _, _, .cons h t => by simp [mapE, h, all₂_mapE t]

theorem all₂_keys_plain : ∀ {kvs kvs' : List (Val × Val)},
    C09.All₂ (fun (kv kv' : Val × Val) => kv'.1 = kv.1) kvs kvs' → (∀ kv ∈ kvs, PlainKey kv.1) →
    ∀ p ∈ kvs', PlainKey p.1
  | _, _, .nil, _, p, hp => by simp at hp
  | _, _, .cons (x := kv) (y := kv') h t, hk, p, hp => by
    rcases List.mem_cons.mp hp with rfl | hp'
    · rw [h]; exact hk kv List.mem_cons_self
    · exact all₂_keys_plain t (fun q hq => hk q (List.mem_cons_of_mem _ hq)) p hp'

/-- **`basic_of_faithful`.** On the fragment, whatever the faithful tree-level model returns with fuel `f`
    the basic one returns with fuel `2 * f`. -/
theorem basic_of_faithful : ∀ (f : Nat) (ctx : Ctx) (b : Bool) (v w : Val), FragCtx ctx → Frag v →
    Format.fmtIter f ctx b v = .ok w → Pypyr.fmtIter (2 * f) ctx b v = .ok w := by
  intro f
  induction f using Nat.strongRecOn with
  | _ f ih =>
    intro ctx b v w hctx hv h
    cases f with
    | zero => simp [Format.fmtIter] at h
    | succ n =>
      have e2 : 2 * (n + 1) = (2 * n + 1) + 1 := by omega
      rw [e2]
      have ihn : ∀ b x y, Frag x → Format.fmtIter n ctx b x = .ok y → Pypyr.fmtIter (2 * n + 1) ctx b x = .ok y :=
        fun b x y hx hxy => C09.fmtIter_mono (Nat.le_succ _) (ih n (Nat.lt_succ_self n) ctx b x y hctx hx hxy)
      cases v with
      | sic s => simp only [Format.fmtIter] at h; cases h; simp [Pypyr.fmtIter]
      | py e => simp only [Format.fmtIter] at h; simpa [Pypyr.fmtIter] using h
      | jsonify x =>
        rw [Format.fmtIter] at h
        rw [Pypyr.fmtIter]
        split at h
        · cases h
        · rename_i fw hfw
          have hx : Frag x := by simpa [Frag] using hv
          rw [ihn false x fw hx hfw]
          simp only []
          split at h
          · cases h; rename_i s hs; simp [hs]
          · cases h
      | str s =>
        rw [Format.fmtIter] at h
        rw [Pypyr.fmtIter]
        obtain ⟨cs, hcs, rfl⟩ : ∃ cs, (∀ c ∈ cs, SimpleChunk c) ∧ s = String.ofList (render cs) := by
          simpa [Frag] using hv
        cases n with
        | zero => simp [Format.fmtKeepType] at h
        | succ m =>
          unfold Format.fmtKeepType at h
          rw [String.toList_ofList] at h
          have hdeep : ∀ r k obj w, Ctx.get? ctx k = some obj → Format.fmtIter m ctx r obj = .ok w →
              Pypyr.fmtIter (2 * m) ctx r obj = .ok w :=
            fun r k obj w hk hw => ih m (by omega) ctx r obj w hctx (hctx k obj hk) hw
          have := keepType_basic (deep := fun r v => Format.fmtIter m ctx r v) hdeep cs hcs w h
          exact C09.fmtKeepType_mono (by omega) this
      | list xs =>
        simp only [Format.fmtIter] at h
        have hx : ∀ x ∈ xs, Frag x := (FragL_iff xs).mp (by simpa [Frag] using hv)
        cases hm : mapE (Format.fmtIter n ctx b) xs with
        | error e => rw [hm] at h; cases h
        | ok ys =>
          rw [hm] at h; cases h
          have := all₂_mapE (C09F.All₂.imp_mem' (fun x hxm y hxy => ihn b x y (hx x hxm) hxy) (C09.mapE_ok_forall₂ hm))
          rw [Pypyr.fmtIter, this]; rfl
      | tuple xs =>
        simp only [Format.fmtIter] at h
        have hx : ∀ x ∈ xs, Frag x := (FragL_iff xs).mp (by simpa [Frag] using hv)
        cases hm : mapE (Format.fmtIter n ctx b) xs with
        | error e => rw [hm] at h; cases h
        | ok ys =>
          rw [hm] at h; cases h
          have := all₂_mapE (C09F.All₂.imp_mem' (fun x hxm y hxy => ihn b x y (hx x hxm) hxy) (C09.mapE_ok_forall₂ hm))
          rw [Pypyr.fmtIter, this]; rfl
      | set xs =>
        simp only [Format.fmtIter] at h
        have hx : ∀ x ∈ xs, PlainKey x := by simpa [Frag] using hv
        cases hm : foldSet (Format.fmtIter n ctx b) xs [] with
        | error e => rw [hm] at h; cases h
        | ok out =>
          rw [hm] at h; cases h
          obtain ⟨ys, hall, rfl⟩ := C09F.foldSet_ok xs [] out hm
          have hself : ys = xs := by
            refine C09F.all₂_eq_self (R := fun x y => x ∈ xs ∧ Format.fmtIter n ctx b x = .ok y) ?_ ?_
            · intro x y hxy
              have := plain_braceFree (hx x hxy.1)
              exact C09F.faithful_bracefree_id n ctx b x y this.1 this.2 hxy.2
            · exact C09F.All₂.imp_mem' (fun x hxm y hxy => ⟨hxm, hxy.1⟩) hall
          subst hself
          have hall' : C09.All₂ (fun x y => Pypyr.fmtIter (2 * n + 1) ctx b x = .ok y) ys ys :=
            C09F.All₂.imp_mem' (fun x hxm y hxy => ihn b x y (frag_of_plain (hx x hxm)) hxy.1) hall
          rw [Pypyr.fmtIter, all₂_mapE hall']
          simp only [Except.map, setOfList]
          rw [foldl_setPut_eq ys [] (by simp) hx]
      | dict kvs =>
        simp only [Format.fmtIter] at h
        have hk : ∀ k ∈ keysOf kvs, PlainKey k := by
          have : (∀ k ∈ keysOf kvs, PlainKey k) ∧ FragP kvs := by simpa [Frag] using hv
          exact this.1
        have hvals : ∀ kv ∈ kvs, Frag kv.2 := by
          have : (∀ k ∈ keysOf kvs, PlainKey k) ∧ FragP kvs := by simpa [Frag] using hv
          exact (FragP_iff kvs).mp this.2
        cases hm : foldPairs (Format.fmtIter n ctx b) kvs [] with
        | error e => rw [hm] at h; cases h
        | ok out =>
          rw [hm] at h; cases h
          obtain ⟨kvs', hall, rfl⟩ := C09F.foldPairs_ok kvs [] out hm
          have hkey_mem : ∀ kv ∈ kvs, PlainKey kv.1 := by
            intro kv hkv
            apply hk
            rw [C09.keysOf_eq_map]
            exact List.mem_map_of_mem (f := fun (q : Val × Val) => q.1) hkv
          -- the formatted keys are the keys
          have hkeys : C09.All₂ (fun (kv kv' : Val × Val) => kv'.1 = kv.1) kvs kvs' :=
            C09F.All₂.imp_mem' (fun kv hkv kv' hxy => by
              have := plain_braceFree (hkey_mem kv hkv)
              exact C09F.faithful_bracefree_id n ctx b kv.1 kv'.1 this.1 this.2 hxy.1) hall
          have hplain' : ∀ p ∈ kvs', PlainKey p.1 := all₂_keys_plain hkeys hkey_mem
          have hpair : C09.All₂ (fun (kv kv' : Val × Val) => C09.fmtPair (2 * n + 1) ctx b kv = .ok kv') kvs kvs' :=
            C09F.All₂.imp_mem' (fun kv hkv kv' hxy => by
              have h1 := ihn b kv.1 kv'.1 (frag_of_plain (hkey_mem kv hkv)) hxy.1
              have h2 := ihn b kv.2 kv'.2 (hvals kv hkv) hxy.2.1
              simp [C09.fmtPair, h1, h2]) hall
          have hmE := all₂_mapE hpair
          rw [Pypyr.fmtIter]
          split
          · rename_i e he
            have : Except.error e = Except.ok kvs' := he.symm.trans hmE
            cases this
          · rename_i kvs2 hm2
            have : Except.ok kvs2 = Except.ok kvs' := hm2.symm.trans hmE
            cases this
            simp only [rebuildDict]
            rw [foldl_dictPut_eq kvs' [] (by simp) hplain']
      | none => simp only [Format.fmtIter] at h; cases h; simp [Pypyr.fmtIter]
      | bool x => simp only [Format.fmtIter] at h; cases h; simp [Pypyr.fmtIter]
      | int x => simp only [Format.fmtIter] at h; cases h; simp [Pypyr.fmtIter]
      | flt x y => simp only [Format.fmtIter] at h; cases h; simp [Pypyr.fmtIter]
      | bytes x => simp only [Format.fmtIter] at h; cases h; simp [Pypyr.fmtIter]
      | obj x => simp only [Format.fmtIter] at h; cases h; simp [Pypyr.fmtIter]

end Pypyr.C09B
