/- Helper lemmas for C18: `Pipeline.new_pipe_and_args` under `config.shortcuts`. -/
import PypyrModel.Cli

namespace Pypyr.Cli

/-- `Except` has no `DecidableEq` in core; the examples about `applyShortcut` are decided with it. -/
instance instDecidableEqExcept {ε α : Type} [DecidableEq ε] [DecidableEq α] : DecidableEq (Except ε α)
  | .ok a, .ok b => if h : a = b then isTrue (by rw [h]) else isFalse (fun e => h (Except.ok.inj e))
  | .error a, .error b => if h : a = b then isTrue (by rw [h]) else isFalse (fun e => h (Except.error.inj e))
  | .ok _, .error _ => isFalse (fun e => by cases e)
  | .error _, .ok _ => isFalse (fun e => by cases e)

/-- A successful rewrite by a shortcut, taken apart: every component was inside the domain and the
    result is assembled from them. -/
theorem resolveWith_ok (n : String) (sc : List (Val × Val)) (c : ApiCall) (r : Resolved)
    (h : resolveWith n sc c = some (.ok r)) :
    ∃ name ca pi di g s f l d,
      getStrOr sc "pipeline_name" none = some (some name) ∧ name ≠ "" ∧
      scContextArgs n sc c.contextArgs = some (.ok ca) ∧ scParseIn sc = some pi ∧
      scDictIn sc c.dictIn = some di ∧ scGroups sc c.groups = some g ∧
      getStrOr sc "success" c.success = some s ∧ getStrOr sc "failure" c.failure = some f ∧
      getStrOr sc "loader" c.loader = some l ∧ scPyDir sc c.pyDir = some d ∧
      r = { name := name, contextArgs := ca, parseInput := getParseInput pi ca di.isSome, dictIn := di,
            loader := l, groups := g, success := s, failure := f, pyDir := d } := by
  unfold resolveWith at h
  split at h
  · exact absurd h (by simp)
  · exact absurd h (by simp)
  · rename_i name hname
    split at h
    · exact absurd h (by simp)
    · rename_i hne
      split at h
      · exact absurd h (by simp)
      · exact absurd h (by simp)
      · rename_i ca hca
        split at h
        · rename_i pi di g s f l d hpi hdi hg hs hf hl hd
          simp only [Option.some.injEq, Except.ok.injEq] at h
          exact ⟨name, ca, pi, di, g, s, f, l, d, hname, hne, hca, hpi, hdi, hg, hs, hf, hl, hd, h.symm⟩
        · exact absurd h (by simp)

/-- The caller's `parse_input` plays no part once a shortcut applies. -/
theorem resolveWith_ignores_parse_input (n : String) (sc : List (Val × Val)) (c : ApiCall) (pi : Option Bool) :
    resolveWith n sc { c with parseInput := pi } = resolveWith n sc c := rfl

theorem getStrOr_absent (sc : List (Val × Val)) (key : String) (d : Option String)
    (h : dictGet? sc (.str key) = none) : getStrOr sc key d = some d := by
  simp [getStrOr, h]

theorem scGroups_absent (sc : List (Val × Val)) (g : Option (List String))
    (h : dictGet? sc (.str "groups") = none) : scGroups sc g = some g := by
  simp [scGroups, h]

theorem scPyDir_absent (sc : List (Val × Val)) (d : Option String)
    (h : dictGet? sc (.str "py_dir") = none) : scPyDir sc d = some (.caller d) := by
  simp [scPyDir, getStrOr, h]

theorem scContextArgs_absent (n : String) (sc : List (Val × Val)) (a : Option (List String))
    (h : dictGet? sc (.str "parser_args") = none) : scContextArgs n sc a = some (.ok a) := by
  simp [scContextArgs, h]

theorem scDictIn_absent (sc : List (Val × Val)) (d : Option Ctx)
    (h : dictGet? sc (.str "args") = none) : scDictIn sc d = some d := by
  simp [scDictIn, h]

/-- A non-empty `parser_args` list goes before whatever the caller passed. -/
theorem scContextArgs_list (n : String) (sc : List (Val × Val)) (a : Option (List String)) (xs : List Val)
    (pa : List String) (h : dictGet? sc (.str "parser_args") = some (.list xs)) (hs : strsOfVals xs = some pa)
    (hne : pa ≠ []) : scContextArgs n sc a = some (.ok (some (pa ++ a.getD []))) := by
  have he : pa.isEmpty = false := by cases pa <;> simp_all
  simp only [scContextArgs, h, hs, he, Bool.false_eq_true, if_false]
  cases a with
  | none => simp [argsTruthy]
  | some l => cases l <;> simp [argsTruthy]

/-- `Ctx.update` with nothing is the identity. -/
theorem update_nil (a : Ctx) : Ctx.update a [] = a := rfl

/-- A non-empty `args` dict is the base and the caller's dict is `update`d over it. -/
theorem scDictIn_dict (sc : List (Val × Val)) (d : Option Ctx) (kvs : List (Val × Val)) (scd : Ctx)
    (h : dictGet? sc (.str "args") = some (.dict kvs)) (hs : ctxOfDict kvs = some scd) (hne : scd ≠ []) :
    scDictIn sc d = some (some (Ctx.update scd (d.getD []))) := by
  have he : scd.isEmpty = false := by cases scd <;> simp_all
  simp only [scDictIn, h, hs, he, Bool.false_eq_true, if_false]
  cases d with
  | none => rfl
  | some l => cases l <;> simp [update_nil]

/-- After `update`, a key of the later dict has the later dict's (last) value; any other key keeps
    what it had. -/
theorem get_update (a b : Ctx) (k : String) :
    Ctx.get? (Ctx.update a b) k =
      match b.reverse.find? (fun kv => kv.1 = k) with
      | some kv => some kv.2
      | none => Ctx.get? a k := by
  have hset_same : ∀ (c : Ctx) (v : Val), Ctx.get? (Ctx.set c k v) k = some v := by
    intro c v
    induction c with
    | nil => simp [Ctx.set, Ctx.get?]
    | cons x xs ih =>
      obtain ⟨k', v'⟩ := x
      by_cases hk : k' = k <;> simp [Ctx.set, Ctx.get?, hk, ih]
  have hset_other : ∀ (c : Ctx) (k2 : String) (v : Val), k2 ≠ k → Ctx.get? (Ctx.set c k2 v) k = Ctx.get? c k := by
    intro c k2 v hne
    induction c with
    | nil => simp [Ctx.set, Ctx.get?, hne]
    | cons x xs ih =>
      obtain ⟨k', v'⟩ := x
      by_cases hk : k' = k2
      · subst hk; simp [Ctx.set, Ctx.get?, hne]
      · by_cases hk2 : k' = k
        · subst hk2; simp [Ctx.set, Ctx.get?, hk]
        · simp [Ctx.set, Ctx.get?, hk, hk2, ih]
  induction b generalizing a with
  | nil => rfl
  | cons x xs ih =>
    obtain ⟨k2, v2⟩ := x
    simp only [Ctx.update, List.foldl_cons] at ih ⊢
    rw [ih]
    simp only [List.reverse_cons, List.find?_append]
    cases hr : xs.reverse.find? (fun kv => kv.1 = k) with
    | some kv => simp
    | none =>
      by_cases hk : k2 = k
      · subst hk; simp [hset_same]
      · simp [hk, hset_other _ _ _ hk]

end Pypyr.Cli
