/-
  Lemmas for C01 about `run_step_groups`, `run_failure_step_group`, `_run_pipeline`, `Pipeline.run`:
  the defaulting rule, the result classes of the failure handler, where an error result comes from.
-/
import Props.Lemmas.C01_Seq

namespace Pypyr.Flow

/-! ### the defaulting rule of `_run_pipeline` -/

/-- `bool(groups)`: a non-empty list was given -/
def groupsGiven (pi : PipeInst) : Bool :=
  match pi.groups with | some (_ :: _) => true | _ => false

/-- `bool(name)`: a non-empty handler name was given -/
def nameGiven (o : Option String) : Bool :=
  match o with | some s => s != "" | none => false

/-- closed form of the defaulting rule (`groupsBad = false`: `groups` is a list of names or absent) -/
theorem effectiveGroups_eq (pi : PipeInst) (hgb : pi.groupsBad = false) :
    effectiveGroups pi =
      if groupsGiven pi then (pi.groups.getD [], pi.success, pi.failure)
      else if !nameGiven pi.success && !nameGiven pi.failure then (["steps"], some "on_success", some "on_failure")
      else (["steps"], pi.success, pi.failure) := by
  obtain ⟨name, groups, success, failure, pin, ca, gb⟩ := pi
  simp only at hgb
  subst hgb
  unfold effectiveGroups groupsGiven nameGiven
  rcases groups with _ | ⟨_ | ⟨g, gs⟩⟩ <;> first | rfl | (simp; done)

/-- `groups` truthy but no list of names (`groups: 5`): nothing is defaulted. -/
theorem effectiveGroups_bad (pi : PipeInst) (hgb : pi.groupsBad = true) :
    effectiveGroups pi = ([], pi.success, pi.failure) := by
  unfold effectiveGroups; simp [hgb]

theorem effectiveGroups_given (pi : PipeInst) (hgb : pi.groupsBad = false) (g : String) (gs : List String)
    (h : pi.groups = some (g :: gs)) :
    effectiveGroups pi = (g :: gs, pi.success, pi.failure) := by
  rw [effectiveGroups_eq pi hgb]; simp [groupsGiven, h]

theorem effectiveGroups_default_all (pi : PipeInst) (hgb : pi.groupsBad = false) (hg : groupsGiven pi = false)
    (hs : nameGiven pi.success = false) (hf : nameGiven pi.failure = false) :
    effectiveGroups pi = (["steps"], some "on_success", some "on_failure") := by
  rw [effectiveGroups_eq pi hgb]; simp [hg, hs, hf]

theorem effectiveGroups_default_groups_only (pi : PipeInst) (hgb : pi.groupsBad = false) (hg : groupsGiven pi = false)
    (hsf : nameGiven pi.success = true ∨ nameGiven pi.failure = true) :
    effectiveGroups pi = (["steps"], pi.success, pi.failure) := by
  rw [effectiveGroups_eq pi hgb]
  rcases hsf with h | h <;> simp [hg, h]

theorem effectiveGroups_nonempty (pi : PipeInst) (hgb : pi.groupsBad = false) : (effectiveGroups pi).1 ≠ [] := by
  rw [effectiveGroups_eq pi hgb]
  by_cases hg : groupsGiven pi = true
  · rw [if_pos hg]
    unfold groupsGiven at hg
    rcases hgr : pi.groups with _ | ⟨_ | ⟨g, gs⟩⟩ <;> simp [hgr] at hg ⊢
  · rw [if_neg hg]; split <;> simp

/-! ### the failure handler -/

/-- `run_failure_step_group` only ever ends normally, with a Stop-family instruction, or out of fuel. -/
theorem runFailureGroup_result (fuel : Nat) (prog : Program) (pipe : String) (g : Option String) (s : St) :
    (runFailureGroup fuel prog pipe g s).2 = .ok ∨ (runFailureGroup fuel prog pipe g s).2 = .stop ∨
    (runFailureGroup fuel prog pipe g s).2 = .stopPipeline ∨ (runFailureGroup fuel prog pipe g s).2 = .stopGroup ∨
    (runFailureGroup fuel prog pipe g s).2 = .outOfFuel := by
  cases fuel with
  | zero => unfold runFailureGroup; simp
  | succ n =>
    unfold runFailureGroup
    repeat' split
    all_goals simp

/-- what `run_step_groups` makes of the failure handler's result (`do_raise`) -/
def handlerOutcome (e : ExcV) (h : Bool) : St × Res → St × Res
  | (s2, .stopGroup) => (s2, .ok)
  | (s2, .ok) => (s2, .err e h)
  | other => other

theorem runGroups_char_eq (fuel : Nat) (prog : Program) (pipe : String) (g : String) (gs : List String)
    (success failure : Option String) (s : St) :
    runGroups (fuel + 1) prog pipe (g :: gs) success failure s =
      (match mainPhase fuel prog pipe (g :: gs) success s with
       | (s1, .err e h) =>
         if hasFailureGroup failure then handlerOutcome e h (runFailureGroup fuel prog pipe failure s1)
         else (s1, .err e h)
       | other => other) := by
  rw [runGroups_eq]
  generalize mainPhase fuel prog pipe (g :: gs) success s = p
  obtain ⟨s1, r⟩ := p
  cases r <;> simp only []
  split
  · generalize runFailureGroup fuel prog pipe failure s1 = q
    obtain ⟨s2, r2⟩ := q
    cases r2 <;> rfl
  · rfl

theorem runGroups_empty (fuel : Nat) (prog : Program) (pipe : String) (success failure : Option String) (s : St) :
    runGroups (fuel + 1) prog pipe [] success failure s =
      raiseNew s "ValueError" "you must specify which step-groups you want to run. groups is None." := by
  unfold runGroups; rfl

/-- an error result of `run_step_groups` is the error of its main phase (same exception object, same
    `handled` flag): nothing the failure group raises ever comes out. -/
theorem runGroups_err_origin (fuel : Nat) (prog : Program) (pipe : String) (g : String) (gs : List String)
    (success failure : Option String) (s s' : St) (e : ExcV) (h : Bool)
    (hr : runGroups (fuel + 1) prog pipe (g :: gs) success failure s = (s', .err e h)) :
    ∃ s1, mainPhase fuel prog pipe (g :: gs) success s = (s1, .err e h) ∧
      ((hasFailureGroup failure = false ∧ s' = s1) ∨
       (hasFailureGroup failure = true ∧ runFailureGroup fuel prog pipe failure s1 = (s', .ok))) := by
  rw [runGroups_char_eq] at hr
  generalize hm : mainPhase fuel prog pipe (g :: gs) success s = p at hr ⊢
  obtain ⟨s1, r⟩ := p
  cases r with
  | err e1 h1 =>
    simp only [] at hr
    by_cases hf : hasFailureGroup failure = true
    · rw [if_pos hf] at hr
      have hcls := runFailureGroup_result fuel prog pipe failure s1
      generalize hq : runFailureGroup fuel prog pipe failure s1 = q at hr hcls
      obtain ⟨s2, r2⟩ := q
      cases r2 <;> simp [handlerOutcome] at hr hcls
      obtain ⟨h1', h2', h3'⟩ := hr
      subst h1' h2' h3'
      exact ⟨s1, rfl, .inr ⟨hf, hq⟩⟩
    · rw [if_neg hf] at hr
      injection hr with h1' h2'
      injection h2' with h3' h4'
      subst h1' h3' h4'
      exact ⟨s1, rfl, .inl ⟨by simpa using hf, rfl⟩⟩
  | _ => simp at hr

/-! ### where an error of the main phase comes from -/

theorem mainPhase_eq (fuel : Nat) (prog : Program) (pipe : String) (groups : List String) (success : Option String)
    (s : St) :
    mainPhase fuel prog pipe groups success s =
      (match runGroupList fuel prog pipe groups s with
       | (s1, .ok) => if nameGiven success then runStepGroup fuel prog pipe (success.getD "") false s1 else (s1, .ok)
       | other => other) := by
  unfold mainPhase nameGiven
  generalize runGroupList fuel prog pipe groups s = p
  obtain ⟨s1, r⟩ := p
  cases r <;> simp only []
  cases success with
  | none => simp
  | some sg => by_cases h : sg = "" <;> simp [h]

/-! ### `_run_pipeline` and `Pipeline.run` -/

theorem runRoot_ok_iff (fuel : Nat) (prog : Program) (pi : PipeInst) (s s' : St) :
    runRoot fuel prog pi s = (s', .ok) ↔
      ∃ r, runPipeline fuel prog pi s = (s', r) ∧ (r = .ok ∨ r.isStopFamily = true) := by
  rw [runRoot_eq]
  generalize runPipeline fuel prog pi s = p
  obtain ⟨s1, r⟩ := p
  constructor
  · intro h
    cases r <;> simp at h <;> subst h <;> first
      | exact ⟨_, rfl, .inl rfl⟩
      | exact ⟨_, rfl, .inr rfl⟩
  · rintro ⟨r', h, hr⟩
    injection h with h1 h2
    subst h1 h2
    rcases hr with hr | hr
    · subst hr; rfl
    · cases r <;> simp [Res.isStopFamily] at hr <;> rfl

theorem runRoot_err_iff (fuel : Nat) (prog : Program) (pi : PipeInst) (s s' : St) (e : ExcV) (h : Bool) :
    runRoot fuel prog pi s = (s', .err e h) ↔ runPipeline fuel prog pi s = (s', .err e h) := by
  rw [runRoot_eq]
  generalize runPipeline fuel prog pi s = p
  obtain ⟨s1, r⟩ := p
  cases r <;> simp

/-- an error leaving `_run_pipeline` is the error of the context parser or the error of
    `run_step_groups` — the same exception object — and the stack entry is popped. -/
theorem runPipeline_err_origin (fuel : Nat) (prog : Program) (pi : PipeInst) (pd : PipeDef) (s s' : St)
    (e : ExcV) (h : Bool) (hp : prog.find? pi.name = some pd) (hgb : pi.groupsBad = false)
    (hr : runPipeline (fuel + 1) prog pi s = (s', .err e h)) :
    (∃ s1 s2, prepareContext pd pi { s with stack := pi.name :: s.stack } = (s1, .err e h) ∧
        (runFailureGroup fuel prog pi.name (effectiveGroups pi).2.2 s1 = (s2, .ok) ∨
         runFailureGroup fuel prog pi.name (effectiveGroups pi).2.2 s1 = (s2, .stopGroup)) ∧
        s' = { s2 with stack := s2.stack.drop 1 }) ∨
    (∃ s1 s2, prepareContext pd pi { s with stack := pi.name :: s.stack } = (s1, .ok) ∧
        runGroups fuel prog pi.name (effectiveGroups pi).1 (effectiveGroups pi).2.1 (effectiveGroups pi).2.2 s1
          = (s2, .err e h) ∧
        s' = { s2 with stack := s2.stack.drop 1 }) := by
  rw [runPipeline_eq fuel prog pi pd s hp hgb] at hr
  simp only [] at hr
  generalize hprep : prepareContext pd pi { s with stack := pi.name :: s.stack } = p at hr
  obtain ⟨s1, r⟩ := p
  cases r with
  | err e1 h1 =>
    simp only [] at hr
    have hcls := runFailureGroup_result fuel prog pi.name (effectiveGroups pi).2.2 s1
    generalize hq : runFailureGroup fuel prog pi.name (effectiveGroups pi).2.2 s1 = q at hr hcls
    obtain ⟨s2, r2⟩ := q
    cases r2 <;> simp [-List.drop_one] at hr hcls
    · obtain ⟨h1', h2', h3'⟩ := hr
      subst h2' h3'
      exact .inl ⟨s1, s2, rfl, .inl hq, h1'.symm⟩
    · obtain ⟨h1', h2', h3'⟩ := hr
      subst h2' h3'
      exact .inl ⟨s1, s2, rfl, .inr hq, h1'.symm⟩
  | ok =>
    simp only [] at hr
    generalize hq : runGroups fuel prog pi.name (effectiveGroups pi).1 (effectiveGroups pi).2.1
      (effectiveGroups pi).2.2 s1 = q at hr
    obtain ⟨s2, r2⟩ := q
    cases r2 <;> simp [-List.drop_one] at hr
    obtain ⟨h1', h2', h3'⟩ := hr
    subst h2' h3'
    exact .inr ⟨s1, s2, rfl, hq, h1'.symm⟩
  | _ => simp at hr

/-! ### the two loops, in runner vocabulary -/

/-- the leading steps `pre` of `run_pipeline_steps` (called with `fuel`) all ended normally and took the
    state from `s` to `s'`, each step starting in the state its predecessor left -/
abbrev StepsChain (prog : Program) (pipe : String) : Nat → List StepDef → St → St → Prop :=
  SeqChain (fun k d => runStep k prog pipe d)

/-- the same for the leading groups of the `for step_group in groups` loop -/
abbrev GroupsChain (prog : Program) (pipe : String) : Nat → List String → St → St → Prop :=
  SeqChain (fun k g => runStepGroup k prog pipe g false)

end Pypyr.Flow
