/- Helper lemmas for C17 (serial steps): closed forms of `runProcs` / `runCommands`. -/
import PypyrModel.Cmd

namespace Pypyr.Cmd

theorem halts_false_iff (dec : Bool) (p : Proc) :
    p.halts dec = false ↔ p.code = 0 ∧ (dec && p.decodeFails) = false := by
  simp [Proc.halts]

theorem stops_false_iff (dec : Bool) (p : Proc) :
    p.stops dec = false ↔ p.spawn = none ∧ p.code = 0 ∧ (dec && p.decodeFails) = false := by
  cases h : p.spawn <;> simp [Proc.stops, Proc.halts, h]

theorem stops_true_iff (dec : Bool) (p : Proc) :
    p.stops dec = true ↔ p.spawn ≠ none ∨ p.code ≠ 0 ∨ (dec && p.decodeFails) = true := by
  cases h : p.spawn <;> simp [Proc.stops, Proc.halts, h]

theorem ran_iff (p : Proc) : p.ran = true ↔ p.spawn = none := by
  cases h : p.spawn <;> simp [Proc.ran, h]

theorem ran_of_not_stops {dec : Bool} {p : Proc} (h : p.stops dec = false) : p.ran = true :=
  (ran_iff p).mpr ((stops_false_iff dec p).mp h).1

theorem Decl.stops_false_iff (d : Decl) :
    d.stops = false ↔ d.proc.spawn = none ∧ d.proc.code = 0 ∧ d.undec = false :=
  Pypyr.Cmd.stops_false_iff d.dec d.proc

theorem Decl.stops_true_iff (d : Decl) :
    d.stops = true ↔ d.proc.spawn ≠ none ∨ d.proc.code ≠ 0 ∨ d.undec = true :=
  Pypyr.Cmd.stops_true_iff d.dec d.proc

def declsOfCmd (c : SCommand) : List Decl := c.run.map (fun p => ⟨p, c.save, c.text, c.enc⟩)

theorem declsOf_cons (c : SCommand) (cs : List SCommand) :
    declsOf (c :: cs) = declsOfCmd c ++ declsOf cs := rfl

/-- Error of the first declaration that `stops`. -/
def firstFailD : List Decl → Option CmdErr
  | [] => none
  | d :: ds => if d.stops then some d.error else firstFailD ds

/-- One result per declaration with `save` whose process existed and whose output could be decoded. -/
def resultsOfD (ds : List Decl) : List Result :=
  (ds.filter (fun d => d.save && d.proc.ran && !d.undec)).map (fun d => mkResultSync d.text d.enc d.proc)

theorem resultsOfD_append (a b : List Decl) : resultsOfD (a ++ b) = resultsOfD a ++ resultsOfD b := by
  simp [resultsOfD]

/-- Closed form of the inner loop, on the declarations of one command. -/
theorem runProcs_closed (save text enc : Bool) (ps : List Proc) :
    let ds := ps.map (fun p => (⟨p, save, text, enc⟩ : Decl))
    runProcs save text enc ps =
      { started := (ranD ds).map (·.proc.id),
        results := resultsOfD (takeThroughD ds),
        err := firstFailD ds } := by
  induction ps with
  | nil => simp [runProcs, ranD, takeThroughD, resultsOfD, firstFailD]
  | cons p ps ih =>
    simp only [List.map_cons]
    unfold runProcs
    simp only [ranD, takeThroughD, firstFailD]
    cases hsp : p.spawn with
    | some k => simp [Decl.stops, Decl.error, Proc.stops, Proc.ran, Proc.error, hsp, resultsOfD]
    | none =>
      by_cases hu : (syncDec save text enc && p.decodeFails) = true
      · have hu2 := hu
        simp only [Bool.and_eq_true] at hu2
        simp [Decl.stops, Decl.error, Decl.undec, Decl.dec, Proc.stops, Proc.halts, Proc.ran, Proc.error,
          hsp, hu2.1, hu2.2, resultsOfD]
      · have hu' : (syncDec save text enc && p.decodeFails) = false := by simpa using hu
        have hu3 : (!syncDec save text enc || !p.decodeFails) = true := by
          cases hs : syncDec save text enc <;> cases hd : p.decodeFails <;> simp [hs, hd] at hu' ⊢
        by_cases h : p.code ≠ 0
        · cases save <;>
            simp [Decl.stops, Decl.error, Decl.undec, Decl.dec, Proc.stops, Proc.halts, Proc.ran,
              Proc.error, hsp, hu', hu3, h, resultsOfD]
        · have hz : p.code = 0 := by omega
          simp only [ranD] at ih
          simp only [hu', h, if_false, Bool.false_eq_true]
          rw [ih]
          cases save <;>
            simp [Decl.stops, Decl.undec, Decl.dec, Proc.stops, Proc.halts, Proc.ran, hsp, hu', hu3, hz,
              resultsOfD]

theorem takeThroughD_append (a b : List Decl) :
    takeThroughD (a ++ b) = match firstFailD a with
      | some _ => takeThroughD a
      | none => a ++ takeThroughD b := by
  induction a with
  | nil => simp [firstFailD]
  | cons d ds ih =>
    simp only [List.cons_append, takeThroughD, firstFailD]
    by_cases h : d.stops = true
    · simp [h]
    · simp only [h, ih]
      cases firstFailD ds <;> simp

theorem firstFailD_append (a b : List Decl) :
    firstFailD (a ++ b) = match firstFailD a with
      | some e => some e
      | none => firstFailD b := by
  induction a with
  | nil => simp [firstFailD]
  | cons d ds ih =>
    simp only [List.cons_append, firstFailD]
    by_cases h : d.stops = true
    · simp [h]
    · simp [h, ih]

theorem takeThroughD_of_none {a : List Decl} (h : firstFailD a = none) : takeThroughD a = a := by
  induction a with
  | nil => rfl
  | cons d ds ih =>
    simp only [firstFailD] at h
    by_cases hc : d.stops = true
    · simp [hc] at h
    · simp only [hc] at h
      simp [takeThroughD, hc, ih h]

theorem firstFailD_none_iff (ds : List Decl) :
    firstFailD ds = none ↔ ∀ d ∈ ds, d.stops = false := by
  induction ds with
  | nil => simp [firstFailD]
  | cons d ds ih =>
    simp only [firstFailD]
    by_cases hc : d.stops = true
    · simp [hc]
    · have hz : d.stops = false := by simpa using hc
      simp [ih, hz]

theorem all_ran_of_none {a : List Decl} (h : firstFailD a = none) : a.filter (·.proc.ran) = a := by
  apply List.filter_eq_self.mpr
  intro d hd
  exact ran_of_not_stops ((firstFailD_none_iff a).mp h d hd)

/-- Closed form of the whole step loop, when every command's output handles can be opened. -/
theorem runCommands_closed (cs : List SCommand) (ho : ∀ c ∈ cs, c.redir.openError = none) :
    runCommands cs =
      { started := (ranD (declsOf cs)).map (·.proc.id),
        results := resultsOfD (takeThroughD (declsOf cs)),
        err := firstFailD (declsOf cs) } := by
  induction cs with
  | nil => simp [runCommands, declsOf, ranD, takeThroughD, resultsOfD, firstFailD]
  | cons c cs ih =>
    unfold runCommands
    have hc := runProcs_closed c.save c.text c.enc c.run
    simp only [ranD] at hc
    simp only [SCommand.exec, ho c (by simp), declsOf_cons, declsOfCmd, ranD]
    rw [hc, takeThroughD_append, firstFailD_append]
    cases hf : firstFailD (c.run.map fun p => (⟨p, c.save, c.text, c.enc⟩ : Decl)) with
    | some e => simp
    | none =>
      simp only [ih (fun c' hc' => ho c' (by simp [hc']))]
      rw [takeThroughD_of_none hf]
      simp [resultsOfD_append, ranD, all_ran_of_none hf]

theorem runCommands_cons (c : SCommand) (cs : List SCommand) :
    runCommands (c :: cs) = match c.exec.err with
      | some _ => c.exec
      | none => { started := c.exec.started ++ (runCommands cs).started,
                  results := c.exec.results ++ (runCommands cs).results, err := (runCommands cs).err } := rfl

/-- The loop over a concatenation: the second part is reached only when the first had no error. -/
theorem runCommands_append (a b : List SCommand) :
    runCommands (a ++ b) = match (runCommands a).err with
      | some _ => runCommands a
      | none => { started := (runCommands a).started ++ (runCommands b).started,
                  results := (runCommands a).results ++ (runCommands b).results,
                  err := (runCommands b).err } := by
  induction a with
  | nil => simp [runCommands]
  | cons c cs ih =>
    simp only [List.cons_append, runCommands_cons]
    cases hc : c.exec.err with
    | some e => simp [hc]
    | none =>
      simp only [ih]
      cases hr : (runCommands cs).err <;> simp [hc, hr]

/-- `splitAtOpenFail`: the commands before the first one whose handles cannot be opened all can. -/
theorem splitAtOpenFail_spec (cs : List SCommand) :
    (∀ c ∈ (splitAtOpenFail cs).1, c.redir.openError = none) ∧
    match (splitAtOpenFail cs).2 with
    | none => cs = (splitAtOpenFail cs).1
    | some (e, rest) => ∃ c, c.redir.openError = some e ∧ cs = (splitAtOpenFail cs).1 ++ c :: rest := by
  induction cs with
  | nil => simp [splitAtOpenFail]
  | cons c cs ih =>
    unfold splitAtOpenFail
    cases hc : c.redir.openError with
    | some e => exact ⟨by simp, c, hc, by simp⟩
    | none =>
      simp only []
      refine ⟨?_, ?_⟩
      · intro c' hc'
        simp only [List.mem_cons] at hc'
        cases hc' with
        | inl h => rw [h]; exact hc
        | inr h => exact ih.1 c' h
      · cases hs : (splitAtOpenFail cs).2 with
        | none =>
          have := ih.2
          rw [hs] at this
          simp only []
          rw [← this]
        | some er =>
          obtain ⟨e, rest⟩ := er
          have := ih.2
          rw [hs] at this
          obtain ⟨c', h1, h2⟩ := this
          exact ⟨c', h1, by simp only [List.cons_append]; rw [← h2]⟩

/-- `takeThroughD` really is "prefix up to and including the first one that stops". -/
theorem takeThroughD_split (ds : List Decl) :
    ∃ rest, ds = takeThroughD ds ++ rest ∧
      match firstFailD ds with
      | none => rest = [] ∧ ∀ d ∈ takeThroughD ds, d.stops = false
      | some e => ∃ init d, takeThroughD ds = init ++ [d] ∧ (∀ x ∈ init, x.stops = false) ∧
          d.stops = true ∧ e = d.error := by
  induction ds with
  | nil => exact ⟨[], rfl, by simp [firstFailD, takeThroughD]⟩
  | cons d ds ih =>
    obtain ⟨rest, hsplit, hrest⟩ := ih
    by_cases hc : d.stops = true
    · refine ⟨ds, by simp [takeThroughD, hc], ?_⟩
      simp only [firstFailD, takeThroughD, if_pos hc]
      exact ⟨[], d, rfl, by simp, hc, rfl⟩
    · have hz : d.stops = false := by simpa using hc
      refine ⟨rest, ?_, ?_⟩
      · simp only [takeThroughD, if_neg hc, List.cons_append]
        rw [← hsplit]
      · simp only [firstFailD, if_neg hc, takeThroughD]
        cases hf : firstFailD ds with
        | none =>
          rw [hf] at hrest
          exact ⟨hrest.1, by
            intro x hx
            cases hx with
            | head => exact hz
            | tail _ hx => exact hrest.2 x hx⟩
        | some e =>
          rw [hf] at hrest
          obtain ⟨init, d', h1, h2, h3, h4⟩ := hrest
          refine ⟨d :: init, d', by simp [h1], ?_, h3, h4⟩
          intro x hx
          cases hx with
          | head => exact hz
          | tail _ hx => exact h2 x hx

theorem filter_ran_of_not_stops {init : List Decl} (h : ∀ x ∈ init, x.stops = false) :
    init.filter (·.proc.ran) = init :=
  List.filter_eq_self.mpr (fun x hx => ran_of_not_stops (h x hx))

/-- The commands actually run, in the vocabulary of the property: a declaration prefix `pre` all of
    whose processes existed; then exactly one of: nothing is left and all exited 0 with decodable
    output; the last of `pre` exited non-zero (positive or negative), its output decodable, and is the
    error; the last of `pre` *ran* but its captured output cannot be decoded, and the error is that
    (whatever its exit status); all of `pre` exited 0 and the *next* declaration could not be started and
    is the error. -/
theorem ranD_split (ds : List Decl) :
    ∃ rest, ds = ranD ds ++ rest ∧ (∀ d ∈ ranD ds, d.proc.spawn = none) ∧
      match firstFailD ds with
      | none => rest = [] ∧ ∀ d ∈ ranD ds, d.proc.code = 0 ∧ d.undec = false
      | some (.exit i c) => ∃ init d, ranD ds = init ++ [d] ∧
          (∀ x ∈ init, x.proc.code = 0 ∧ x.undec = false) ∧
          d.proc.code ≠ 0 ∧ d.undec = false ∧ i = d.proc.id ∧ c = d.proc.code
      | some (.decode i) => ∃ init d, ranD ds = init ++ [d] ∧
          (∀ x ∈ init, x.proc.code = 0 ∧ x.undec = false) ∧ d.undec = true ∧ i = d.proc.id
      | some (.spawn i k) => (∀ d ∈ ranD ds, d.proc.code = 0 ∧ d.undec = false) ∧
          ∃ d rest', rest = d :: rest' ∧ d.proc.spawn = some k ∧ i = d.proc.id
      | some (.openOut _ _) => False := by
  obtain ⟨rest, h1, h2⟩ := takeThroughD_split ds
  have hran : ∀ d ∈ ranD ds, d.proc.spawn = none := by
    intro d hd
    simp only [ranD, List.mem_filter] at hd
    exact (ran_iff _).mp hd.2
  cases hf : firstFailD ds with
  | none =>
    rw [hf] at h2
    have h2' : rest = [] ∧ ∀ d ∈ takeThroughD ds, d.stops = false := h2
    have hr : ranD ds = takeThroughD ds := filter_ran_of_not_stops h2'.2
    refine ⟨rest, by rw [hr]; exact h1, hran, h2'.1, ?_⟩
    intro d hd
    rw [hr] at hd
    exact ((Decl.stops_false_iff _).mp (h2'.2 d hd)).2
  | some e =>
    rw [hf] at h2
    obtain ⟨init, d, h3, h4, h5, h6⟩ := h2
    have hinit : init.filter (·.proc.ran) = init := filter_ran_of_not_stops h4
    have hin : ∀ x ∈ init, x.proc.code = 0 ∧ x.undec = false :=
      fun x hx => ((Decl.stops_false_iff _).mp (h4 x hx)).2
    cases hsp : d.proc.spawn with
    | some k =>
      have hr : ranD ds = init := by
        unfold ranD
        rw [h3, List.filter_append, hinit]
        simp [Proc.ran, hsp]
      have he : e = .spawn d.proc.id k := by simp [h6, Decl.error, Proc.error, hsp]
      subst he
      refine ⟨d :: rest, ?_, hran, ?_, d, rest, rfl, hsp, rfl⟩
      · rw [hr]; rw [h1, h3]; simp
      · intro x hx
        rw [hr] at hx
        exact hin x hx
    | none =>
      have hr : ranD ds = init ++ [d] := by
        unfold ranD
        rw [h3, List.filter_append, hinit]
        simp [Proc.ran, hsp]
      have hsplit : ds = ranD ds ++ rest := by rw [hr, ← h3]; exact h1
      by_cases hu : d.undec = true
      · have he : e = .decode d.proc.id := by
          have : (d.dec && d.proc.decodeFails) = true := hu
          simp [h6, Decl.error, Proc.error, hsp, this]
        subst he
        exact ⟨rest, hsplit, hran, init, d, hr, hin, hu, rfl⟩
      · have hu' : d.undec = false := by simpa using hu
        have he : e = .exit d.proc.id d.proc.code := by
          have : (d.dec && d.proc.decodeFails) = false := hu'
          simp [h6, Decl.error, Proc.error, hsp, this]
        subst he
        refine ⟨rest, hsplit, hran, init, d, hr, hin, ?_, hu', rfl, rfl⟩
        have := (Decl.stops_true_iff _).mp h5
        simpa [hsp, hu'] using this

end Pypyr.Cmd
