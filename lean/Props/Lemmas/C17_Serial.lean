/- Helper lemmas for C17 (serial steps): closed forms of `runProcs` / `runCommands`. -/
import PypyrModel.Cmd

namespace Pypyr.Cmd

theorem stops_false_iff (p : Proc) : p.stops = false ↔ p.spawn = none ∧ p.code = 0 := by
  cases h : p.spawn <;> simp [Proc.stops, h]

theorem stops_true_iff (p : Proc) : p.stops = true ↔ p.spawn ≠ none ∨ p.code ≠ 0 := by
  cases h : p.spawn <;> simp [Proc.stops, h]

theorem ran_iff (p : Proc) : p.ran = true ↔ p.spawn = none := by
  cases h : p.spawn <;> simp [Proc.ran, h]

theorem ran_of_not_stops {p : Proc} (h : p.stops = false) : p.ran = true :=
  (ran_iff p).mpr ((stops_false_iff p).mp h).1

def declsOfCmd (c : SCommand) : List Decl := c.run.map (fun p => ⟨p, c.save, c.text⟩)

theorem declsOf_cons (c : SCommand) (cs : List SCommand) :
    declsOf (c :: cs) = declsOfCmd c ++ declsOf cs := rfl

/-- Error of the first declaration that `stops`. -/
def firstFailD : List Decl → Option CmdErr
  | [] => none
  | d :: ds => if d.proc.stops then some d.proc.error else firstFailD ds

/-- One result per declaration with `save` whose process existed. -/
def resultsOfD (ds : List Decl) : List Result :=
  (ds.filter (fun d => d.save && d.proc.ran)).map (fun d => mkResultSync d.text d.proc)

theorem resultsOfD_append (a b : List Decl) : resultsOfD (a ++ b) = resultsOfD a ++ resultsOfD b := by
  simp [resultsOfD]

/-- Closed form of the inner loop, on the declarations of one command. -/
theorem runProcs_closed (save text : Bool) (ps : List Proc) :
    let ds := ps.map (fun p => (⟨p, save, text⟩ : Decl))
    runProcs save text ps =
      { started := (ranD ds).map (·.proc.id),
        results := resultsOfD (takeThroughD ds),
        err := firstFailD ds } := by
  induction ps with
  | nil => simp [runProcs, ranD, takeThroughD, resultsOfD, firstFailD]
  | cons p ps ih =>
    simp only [List.map_cons]
    unfold runProcs
    simp only [ranD, takeThroughD, firstFailD]
    cases hsp : p.spawn with
    | some k => simp [Proc.stops, Proc.ran, Proc.error, hsp, resultsOfD]
    | none =>
      by_cases h : p.code ≠ 0
      · cases save <;> simp [Proc.stops, Proc.ran, Proc.error, hsp, h, resultsOfD]
      · have hz : p.code = 0 := by omega
        simp only [ranD] at ih
        simp only [h, if_false]
        rw [ih]
        cases save <;> simp [Proc.stops, Proc.ran, hsp, hz, resultsOfD]

theorem takeThroughD_append (a b : List Decl) :
    takeThroughD (a ++ b) = match firstFailD a with
      | some _ => takeThroughD a
      | none => a ++ takeThroughD b := by
  induction a with
  | nil => simp [firstFailD]
  | cons d ds ih =>
    simp only [List.cons_append, takeThroughD, firstFailD]
    by_cases h : d.proc.stops = true
    · simp [h]
    · simp only [h, ih]
      cases firstFailD ds <;> simp

theorem firstFailD_append (a b : List Decl) :
    firstFailD (a ++ b) = match firstFailD a with
      | some e => some e
      | none => firstFailD b := by
  induction a with
  | nil => simp [firstFailD]
  | cons d ds ih =>
    simp only [List.cons_append, firstFailD]
    by_cases h : d.proc.stops = true
    · simp [h]
    · simp [h, ih]

theorem takeThroughD_of_none {a : List Decl} (h : firstFailD a = none) : takeThroughD a = a := by
  induction a with
  | nil => rfl
  | cons d ds ih =>
    simp only [firstFailD] at h
    by_cases hc : d.proc.stops = true
    · simp [hc] at h
    · simp only [hc] at h
      simp [takeThroughD, hc, ih h]

theorem firstFailD_none_iff (ds : List Decl) :
    firstFailD ds = none ↔ ∀ d ∈ ds, d.proc.stops = false := by
  induction ds with
  | nil => simp [firstFailD]
  | cons d ds ih =>
    simp only [firstFailD]
    by_cases hc : d.proc.stops = true
    · simp [hc]
    · have hz : d.proc.stops = false := by simpa using hc
      simp [ih, hz]

theorem all_ran_of_none {a : List Decl} (h : firstFailD a = none) : a.filter (·.proc.ran) = a := by
  apply List.filter_eq_self.mpr
  intro d hd
  exact ran_of_not_stops ((firstFailD_none_iff a).mp h d hd)

/-- Closed form of the whole step loop. -/
theorem runCommands_closed (cs : List SCommand) :
    runCommands cs =
      { started := (ranD (declsOf cs)).map (·.proc.id),
        results := resultsOfD (takeThroughD (declsOf cs)),
        err := firstFailD (declsOf cs) } := by
  induction cs with
  | nil => simp [runCommands, declsOf, ranD, takeThroughD, resultsOfD, firstFailD]
  | cons c cs ih =>
    unfold runCommands
    have hc := runProcs_closed c.save c.text c.run
    simp only [ranD] at hc
    simp only [SCommand.exec, declsOf_cons, declsOfCmd, ranD]
    rw [hc, takeThroughD_append, firstFailD_append]
    cases hf : firstFailD (c.run.map fun p => (⟨p, c.save, c.text⟩ : Decl)) with
    | some e => simp
    | none =>
      simp only [ih]
      rw [takeThroughD_of_none hf]
      simp [resultsOfD_append, ranD, all_ran_of_none hf]

/-- `takeThroughD` really is "prefix up to and including the first one that stops". -/
theorem takeThroughD_split (ds : List Decl) :
    ∃ rest, ds = takeThroughD ds ++ rest ∧
      match firstFailD ds with
      | none => rest = [] ∧ ∀ d ∈ takeThroughD ds, d.proc.stops = false
      | some e => ∃ init d, takeThroughD ds = init ++ [d] ∧ (∀ x ∈ init, x.proc.stops = false) ∧
          d.proc.stops = true ∧ e = d.proc.error := by
  induction ds with
  | nil => exact ⟨[], rfl, by simp [firstFailD, takeThroughD]⟩
  | cons d ds ih =>
    obtain ⟨rest, hsplit, hrest⟩ := ih
    by_cases hc : d.proc.stops = true
    · refine ⟨ds, by simp [takeThroughD, hc], ?_⟩
      simp only [firstFailD, takeThroughD, if_pos hc]
      exact ⟨[], d, rfl, by simp, hc, rfl⟩
    · have hz : d.proc.stops = false := by simpa using hc
      refine ⟨rest, ?_, ?_⟩
      · simp only [takeThroughD, if_neg hc, List.cons_append]
        rw [← hsplit]
      · simp only [firstFailD, if_neg hc, takeThroughD]
        cases hf : firstFailD ds with
        | none =>
          rw [hf] at hrest
          exact ⟨hrest.1, by
            intro x hx
            cases hx with
            | head => exact hz
            | tail _ hx => exact hrest.2 x hx⟩
        | some e =>
          rw [hf] at hrest
          obtain ⟨init, d', h1, h2, h3, h4⟩ := hrest
          refine ⟨d :: init, d', by simp [h1], ?_, h3, h4⟩
          intro x hx
          cases hx with
          | head => exact hz
          | tail _ hx => exact h2 x hx

theorem filter_ran_of_not_stops {init : List Decl} (h : ∀ x ∈ init, x.proc.stops = false) :
    init.filter (·.proc.ran) = init :=
  List.filter_eq_self.mpr (fun x hx => ran_of_not_stops (h x hx))

/-- The commands actually run, in the vocabulary of the property: a declaration prefix `pre` all of
    whose processes existed; then either nothing is left and all exited 0, or the last of `pre` exited
    non-zero (positive or negative) and is the error, or all of `pre` exited 0 and the *next*
    declaration could not be started and is the error. -/
theorem ranD_split (ds : List Decl) :
    ∃ rest, ds = ranD ds ++ rest ∧ (∀ d ∈ ranD ds, d.proc.spawn = none) ∧
      match firstFailD ds with
      | none => rest = [] ∧ ∀ d ∈ ranD ds, d.proc.code = 0
      | some (.exit i c) => ∃ init d, ranD ds = init ++ [d] ∧ (∀ x ∈ init, x.proc.code = 0) ∧
          d.proc.code ≠ 0 ∧ i = d.proc.id ∧ c = d.proc.code
      | some (.spawn i k) => (∀ d ∈ ranD ds, d.proc.code = 0) ∧
          ∃ d rest', rest = d :: rest' ∧ d.proc.spawn = some k ∧ i = d.proc.id := by
  obtain ⟨rest, h1, h2⟩ := takeThroughD_split ds
  have hran : ∀ d ∈ ranD ds, d.proc.spawn = none := by
    intro d hd
    simp only [ranD, List.mem_filter] at hd
    exact (ran_iff _).mp hd.2
  cases hf : firstFailD ds with
  | none =>
    rw [hf] at h2
    have h2' : rest = [] ∧ ∀ d ∈ takeThroughD ds, d.proc.stops = false := h2
    have hr : ranD ds = takeThroughD ds := filter_ran_of_not_stops h2'.2
    refine ⟨rest, by rw [hr]; exact h1, hran, h2'.1, ?_⟩
    intro d hd
    rw [hr] at hd
    exact ((stops_false_iff _).mp (h2'.2 d hd)).2
  | some e =>
    rw [hf] at h2
    obtain ⟨init, d, h3, h4, h5, h6⟩ := h2
    have hinit : init.filter (·.proc.ran) = init := filter_ran_of_not_stops h4
    cases hsp : d.proc.spawn with
    | some k =>
      have hr : ranD ds = init := by
        unfold ranD
        rw [h3, List.filter_append, hinit]
        simp [Proc.ran, hsp]
      have he : e = .spawn d.proc.id k := by simp [h6, Proc.error, hsp]
      subst he
      refine ⟨d :: rest, ?_, hran, ?_, d, rest, rfl, hsp, rfl⟩
      · rw [hr]; rw [h1, h3]; simp
      · intro x hx
        rw [hr] at hx
        exact ((stops_false_iff _).mp (h4 x hx)).2
    | none =>
      have hr : ranD ds = init ++ [d] := by
        unfold ranD
        rw [h3, List.filter_append, hinit]
        simp [Proc.ran, hsp]
      have he : e = .exit d.proc.id d.proc.code := by simp [h6, Proc.error, hsp]
      subst he
      refine ⟨rest, by rw [hr, ← h3]; exact h1, hran, init, d, hr, ?_, ?_, rfl, rfl⟩
      · intro x hx
        exact ((stops_false_iff _).mp (h4 x hx)).2
      · have := (stops_true_iff _).mp h5
        simpa [hsp] using this

end Pypyr.Cmd
