/- Helper lemmas for C17 (serial steps): closed forms of `runProcs` / `runCommands`. -/
import PypyrModel.Cmd

namespace Pypyr.Cmd

def declsOfCmd (c : SCommand) : List Decl := c.run.map (fun p => ⟨p, c.save, c.text⟩)

theorem declsOf_cons (c : SCommand) (cs : List SCommand) :
    declsOf (c :: cs) = declsOfCmd c ++ declsOf cs := rfl

/-- First failing declaration. -/
def firstFailD : List Decl → Option CmdErr
  | [] => none
  | d :: ds => if d.proc.code ≠ 0 then some ⟨d.proc.id, d.proc.code⟩ else firstFailD ds

def resultsOfD (ds : List Decl) : List Result :=
  (ds.filter (·.save)).map (fun d => mkResultSync d.text d.proc)

theorem resultsOfD_append (a b : List Decl) : resultsOfD (a ++ b) = resultsOfD a ++ resultsOfD b := by
  simp [resultsOfD]

/-- Closed form of the inner loop, on the declarations of one command. -/
theorem runProcs_closed (save text : Bool) (ps : List Proc) :
    let ds := ps.map (fun p => (⟨p, save, text⟩ : Decl))
    runProcs save text ps =
      { started := (takeThroughD ds).map (·.proc.id),
        results := resultsOfD (takeThroughD ds),
        err := firstFailD ds } := by
  induction ps with
  | nil => simp [runProcs, takeThroughD, resultsOfD, firstFailD]
  | cons p ps ih =>
    simp only [List.map_cons]
    unfold runProcs
    simp only [takeThroughD, firstFailD]
    by_cases h : p.code ≠ 0
    · cases save <;> simp [h, resultsOfD]
    · simp only [h, if_false]
      simp only [] at ih
      rw [ih]
      cases save <;> simp [resultsOfD]

theorem takeThroughD_append (a b : List Decl) :
    takeThroughD (a ++ b) = match firstFailD a with
      | some _ => takeThroughD a
      | none => a ++ takeThroughD b := by
  induction a with
  | nil => simp [firstFailD]
  | cons d ds ih =>
    simp only [List.cons_append, takeThroughD, firstFailD]
    by_cases h : d.proc.code ≠ 0
    · simp [h]
    · simp only [h, if_false, ih]
      cases firstFailD ds <;> simp

theorem firstFailD_append (a b : List Decl) :
    firstFailD (a ++ b) = match firstFailD a with
      | some e => some e
      | none => firstFailD b := by
  induction a with
  | nil => simp [firstFailD]
  | cons d ds ih =>
    simp only [List.cons_append, firstFailD]
    by_cases h : d.proc.code ≠ 0
    · simp [h]
    · simp only [h, if_false, ih]

theorem takeThroughD_of_none {a : List Decl} (h : firstFailD a = none) : takeThroughD a = a := by
  induction a with
  | nil => rfl
  | cons d ds ih =>
    simp only [firstFailD] at h
    by_cases hc : d.proc.code ≠ 0
    · simp [hc] at h
    · simp only [hc, if_false] at h
      simp [takeThroughD, hc, ih h]

/-- Closed form of the whole step loop. -/
theorem runCommands_closed (cs : List SCommand) :
    runCommands cs =
      { started := (takeThroughD (declsOf cs)).map (·.proc.id),
        results := resultsOfD (takeThroughD (declsOf cs)),
        err := firstFailD (declsOf cs) } := by
  induction cs with
  | nil => simp [runCommands, declsOf, takeThroughD, resultsOfD, firstFailD]
  | cons c cs ih =>
    unfold runCommands
    have hc := runProcs_closed c.save c.text c.run
    simp only [] at hc
    simp only [SCommand.exec, declsOf_cons, declsOfCmd]
    rw [hc, takeThroughD_append, firstFailD_append]
    cases hf : firstFailD (c.run.map fun p => (⟨p, c.save, c.text⟩ : Decl)) with
    | some e => simp
    | none =>
      simp only [ih]
      rw [takeThroughD_of_none hf]
      simp [resultsOfD_append]

/-- `takeThroughD` really is "prefix up to and including the first non-zero exit". -/
theorem takeThroughD_split (ds : List Decl) :
    ∃ rest, ds = takeThroughD ds ++ rest ∧
      match firstFailD ds with
      | none => rest = [] ∧ ∀ d ∈ takeThroughD ds, d.proc.code = 0
      | some e => ∃ init d, takeThroughD ds = init ++ [d] ∧ (∀ x ∈ init, x.proc.code = 0) ∧
          d.proc.code ≠ 0 ∧ e = ⟨d.proc.id, d.proc.code⟩ := by
  induction ds with
  | nil => exact ⟨[], rfl, by simp [firstFailD, takeThroughD]⟩
  | cons d ds ih =>
    obtain ⟨rest, hsplit, hrest⟩ := ih
    by_cases hc : d.proc.code ≠ 0
    · refine ⟨ds, by simp [takeThroughD, hc], ?_⟩
      simp only [firstFailD, takeThroughD, if_pos hc]
      exact ⟨[], d, rfl, by simp, hc, rfl⟩
    · have hz : d.proc.code = 0 := by omega
      refine ⟨rest, ?_, ?_⟩
      · simp only [takeThroughD, if_neg hc, List.cons_append]
        rw [← hsplit]
      · simp only [firstFailD, if_neg hc, takeThroughD]
        cases hf : firstFailD ds with
        | none =>
          rw [hf] at hrest
          exact ⟨hrest.1, by
            intro x hx
            cases hx with
            | head => exact hz
            | tail _ hx => exact hrest.2 x hx⟩
        | some e =>
          rw [hf] at hrest
          obtain ⟨init, d', h1, h2, h3, h4⟩ := hrest
          refine ⟨d :: init, d', by simp [h1], ?_, h3, h4⟩
          intro x hx
          cases hx with
          | head => exact hz
          | tail _ hx => exact h2 x hx

theorem firstFailD_none_iff (ds : List Decl) :
    firstFailD ds = none ↔ ∀ d ∈ ds, d.proc.code = 0 := by
  induction ds with
  | nil => simp [firstFailD]
  | cons d ds ih =>
    simp only [firstFailD]
    by_cases hc : d.proc.code ≠ 0
    · simp [hc]
    · have hz : d.proc.code = 0 := by omega
      simp [ih, hz]

end Pypyr.Cmd
