/- Inductive invariant of `add_sys_path` at the granularity of the single set operations (`CacheTS.fStep`):
   `_known_dirs` / `_missing_dirs` are read and written outside `_sys_path_lock`, one operation at a time. -/
import PypyrModel.CacheTS

namespace Pypyr.CacheTS

def FPc.inCS : FPc → Bool
  | .fLocked _ | .fAppend _ | .fRelease _ => true
  | _ => false

/-- the path this thread has established to be on `sys.path` -/
def FPc.added : FPc → Option Nat
  | .fRelease p | .fKnown p | .fDiscard p => some p
  | _ => none

/-- the path this thread has seen to exist -/
def FPc.existing : FPc → Option Nat
  | .fDiscard p | .fWant p | .fLocked p | .fAppend p | .fRelease p | .fKnown p => some p
  | _ => none

/-- the path this thread has seen NOT to exist -/
def FPc.absent : FPc → Option Nat
  | .fAddK p | .fAddM p => some p
  | _ => none

@[simp] theorem f_setThread_threads (st : FState) (t : Tid) (th : FThread) (u : Tid) :
    (st.setThread t th).threads u = if u = t then th else st.threads u := rfl
@[simp] theorem f_setThread_lock (st : FState) (t : Tid) (th : FThread) : (st.setThread t th).lock = st.lock := rfl
@[simp] theorem f_setThread_sysPath (st : FState) (t : Tid) (th : FThread) : (st.setThread t th).sysPath = st.sysPath := rfl
@[simp] theorem f_setThread_known (st : FState) (t : Tid) (th : FThread) : (st.setThread t th).known = st.known := rfl
@[simp] theorem f_setThread_missing (st : FState) (t : Tid) (th : FThread) : (st.setThread t th).missing = st.missing := rfl

/-- the inductive invariant. It does not mention the file system: it is kept by a step under ANY exists() oracle
    (`fInv_step`), so it holds along runs during which directories appear and disappear (`fInv_runW`). -/
structure FInv (base : List Nat) (st : FState) : Prop where
  mutex : ∀ t, (st.threads t).pc.inCS = true ↔ st.lock = some t
  fresh : ∀ t p, (st.threads t).pc = .fAppend p → p ∉ st.sysPath
  nodup : st.sysPath.Nodup
  added : ∀ t p, (st.threads t).pc.added = some p → p ∈ st.sysPath
  /-- what the unlocked early return relies on: "known and not missing" is true only of paths on `sys.path` — at
      every moment, also between two set operations of another thread (a directory that was missing at an earlier
      call and exists now is known AND missing) -/
  known : ∀ p ∈ st.known, p ∉ st.missing → p ∈ st.sysPath
  /-- a thread about to do `_known_dirs.add` in the not-exists branch has done `_missing_dirs.add`; if the mark
      is gone, a thread that appended has discarded it -/
  addk : ∀ t p, (st.threads t).pc = .fAddK p → p ∈ st.missing ∨ p ∈ st.sysPath
  /-- a thread that has seen `path in _known_dirs` (nothing ever leaves `_known_dirs`) -/
  chk : ∀ t p, (st.threads t).pc = .fChkM p → p ∈ st.known
  keeps : base <+: st.sysPath

theorem f_mutex_step (ex : Nat → Bool) (st : FState) (t : Tid)
    (h : ∀ t, (st.threads t).pc.inCS = true ↔ st.lock = some t) :
    ∀ u, ((fStep ex st t).threads u).pc.inCS = true ↔ (fStep ex st t).lock = some u := by
  intro u
  have hu := h u
  have ht := h t
  have hsym : (t = u) = (u = t) := propext eq_comm
  cases hpc : (st.threads t).pc <;> simp only [fStep, hpc]
  all_goals (try split)
  all_goals (try split)
  all_goals (by_cases hut : u = t <;> simp_all [FPc.inCS])

theorem f_fresh_step (ex : Nat → Bool) (st : FState) (t : Tid)
    (hm : ∀ t, (st.threads t).pc.inCS = true ↔ st.lock = some t)
    (h : ∀ t p, (st.threads t).pc = .fAppend p → p ∉ st.sysPath) :
    ∀ u p, ((fStep ex st t).threads u).pc = .fAppend p → p ∉ (fStep ex st t).sysPath := by
  intro u p
  have hu := h u p
  have hmt := hm t
  have hcu : (st.threads u).pc = .fAppend p → st.lock = some u :=
    fun e => (hm u).1 (by rw [e]; rfl)
  have hsym : (t = u) = (u = t) := propext eq_comm
  cases hpc : (st.threads t).pc <;> simp only [fStep, hpc]
  all_goals (try split)
  all_goals (try split)
  all_goals (by_cases hut : u = t <;> simp_all [FPc.inCS])
  all_goals (try (intro e; simp_all; done))

theorem f_nodup_step (ex : Nat → Bool) (st : FState) (t : Tid)
    (h : ∀ p, (st.threads t).pc = .fAppend p → p ∉ st.sysPath) (hn : st.sysPath.Nodup) :
    (fStep ex st t).sysPath.Nodup := by
  cases hpc : (st.threads t).pc <;> simp only [fStep, hpc]
  all_goals (try split)
  all_goals (try split)
  all_goals (simp_all [List.nodup_append])
  all_goals (try (intro a ha e; subst e; exact h ha))

theorem f_added_step (ex : Nat → Bool) (st : FState) (t : Tid)
    (h : ∀ t p, (st.threads t).pc.added = some p → p ∈ st.sysPath) :
    ∀ u p, ((fStep ex st t).threads u).pc.added = some p → p ∈ (fStep ex st t).sysPath := by
  intro u p
  have hu := h u p
  have ht := h t p
  cases hpc : (st.threads t).pc <;> simp only [fStep, hpc]
  all_goals (try split)
  all_goals (try split)
  all_goals (by_cases hut : u = t <;> simp_all [FPc.added])
  all_goals (try (intro e; simp_all; done))
  all_goals (try (intro e; exact .inl (hu e)))

theorem f_absent_step (ex : Nat → Bool) (st : FState) (t : Tid)
    (h : ∀ t p, (st.threads t).pc.absent = some p → ex p = false) :
    ∀ u p, ((fStep ex st t).threads u).pc.absent = some p → ex p = false := by
  intro u p
  have hu := h u p
  have ht := h t p
  cases hpc : (st.threads t).pc <;> simp only [fStep, hpc]
  all_goals (try split)
  all_goals (try split)
  all_goals (by_cases hut : u = t <;> simp_all [FPc.absent])
  all_goals (try (intro e; simp_all; done))

theorem f_known_step (ex : Nat → Bool) (st : FState) (t : Tid)
    (ha : ∀ p, (st.threads t).pc.added = some p → p ∈ st.sysPath)
    (hb : ∀ p, (st.threads t).pc = .fAddK p → p ∈ st.missing ∨ p ∈ st.sysPath)
    (h : ∀ p ∈ st.known, p ∉ st.missing → p ∈ st.sysPath) :
    ∀ p ∈ (fStep ex st t).known, p ∉ (fStep ex st t).missing → p ∈ (fStep ex st t).sysPath := by
  intro p
  have hp := h p
  have hap := ha p
  have hbp := hb p
  cases hpc : (st.threads t).pc <;> simp only [fStep, hpc]
  all_goals (try split)
  all_goals (try split)
  all_goals (simp_all [FPc.added])
  all_goals (try (rintro (e | e) <;> simp_all; done))
  all_goals (try (intro e1 e2; exact .inl (hp e1 e2)))
  all_goals (try (rintro (e | e) e2 <;> simp_all; done))
  all_goals (try (intro e1 e2
                  by_cases hq : p ∈ st.missing
                  · exact hap (e2 hq).symm
                  · exact h p e1 hq))

theorem f_addk_step (ex : Nat → Bool) (st : FState) (t : Tid)
    (ha : ∀ p, (st.threads t).pc.added = some p → p ∈ st.sysPath)
    (h : ∀ t p, (st.threads t).pc = .fAddK p → p ∈ st.missing ∨ p ∈ st.sysPath) :
    ∀ u p, ((fStep ex st t).threads u).pc = .fAddK p →
      p ∈ (fStep ex st t).missing ∨ p ∈ (fStep ex st t).sysPath := by
  intro u p
  have hu := h u p
  have hap := ha p
  cases hpc : (st.threads t).pc <;> simp only [fStep, hpc]
  all_goals (try split)
  all_goals (try split)
  all_goals (by_cases hut : u = t <;> simp_all [FPc.added])
  all_goals (try (intro e; rcases hu e with h1 | h1 <;> simp_all; done))
  all_goals (try (intro e
                  rcases hu e with h1 | h1
                  · rename_i q
                    by_cases hq : p = q
                    · subst hq; exact .inr ha
                    · exact .inl ⟨h1, hq⟩
                  · exact .inr h1))

theorem f_chk_step (ex : Nat → Bool) (st : FState) (t : Tid)
    (h : ∀ t p, (st.threads t).pc = .fChkM p → p ∈ st.known) :
    ∀ u p, ((fStep ex st t).threads u).pc = .fChkM p → p ∈ (fStep ex st t).known := by
  intro u p
  have hu := h u p
  have ht := h t p
  cases hpc : (st.threads t).pc <;> simp only [fStep, hpc]
  all_goals (try split)
  all_goals (try split)
  all_goals (by_cases hut : u = t <;> simp_all)
  all_goals (try (intro e; simp_all; done))
  all_goals (try (intro e; exact .inr (hu e)))

theorem f_existing_step (ex : Nat → Bool) (st : FState) (t : Tid)
    (h : ∀ t p, (st.threads t).pc.existing = some p → ex p = true) :
    ∀ u p, ((fStep ex st t).threads u).pc.existing = some p → ex p = true := by
  intro u p
  have hu := h u p
  have ht := h t p
  cases hpc : (st.threads t).pc <;> simp only [fStep, hpc]
  all_goals (try split)
  all_goals (try split)
  all_goals (by_cases hut : u = t <;> simp_all [FPc.existing])
  all_goals (try (intro e; simp_all; done))

theorem f_keeps_step (ex : Nat → Bool) (base : List Nat) (st : FState) (t : Tid)
    (h : base <+: st.sysPath) : base <+: (fStep ex st t).sysPath := by
  cases hpc : (st.threads t).pc <;> simp only [fStep, hpc]
  all_goals (try split)
  all_goals (try split)
  all_goals (first | exact h | exact List.IsPrefix.trans h (List.prefix_append _ _))

theorem fInv_step (ex : Nat → Bool) (base : List Nat) (st : FState) (t : Tid) (h : FInv base st) :
    FInv base (fStep ex st t) :=
  ⟨f_mutex_step ex st t h.mutex, f_fresh_step ex st t h.mutex h.fresh,
   f_nodup_step ex st t (h.fresh t) h.nodup, f_added_step ex st t h.added,
   f_known_step ex st t (h.added t) (h.addk t) h.known, f_addk_step ex st t (h.added t) h.addk,
   f_chk_step ex st t h.chk, f_keeps_step ex base st t h.keeps⟩

theorem fInv_init (base : List Nat) (prog : Tid → List Nat) (hn : base.Nodup) :
    FInv base (fInit base prog) := by
  refine ⟨?_, ?_, hn, ?_, ?_, ?_, ?_, ?_⟩ <;> simp [fInit, FPc.inCS, FPc.added]

/-- a process with a history (`fInitH`): all that is asked of `_known_dirs` / `_missing_dirs` as earlier calls left
    them is what those calls guarantee — a known directory that is not marked missing is on `sys.path`.
    A directory that was missing then and exists now (known AND missing, not on `sys.path`) is inside. -/
theorem fInv_initH (base known missing : List Nat) (prog : Tid → List Nat) (hn : base.Nodup)
    (hk : ∀ p ∈ known, p ∉ missing → p ∈ base) :
    FInv base (fInitH base known missing prog) := by
  refine ⟨?_, ?_, hn, ?_, hk, ?_, ?_, ?_⟩ <;> simp [fInitH, FPc.inCS, FPc.added]

/-- `_missing_dirs` holds only directories that do not exist — true of a process WITHOUT a history while the file
    system stands still (not of `fInitH` in general) -/
theorem f_missing_step (ex : Nat → Bool) (st : FState) (t : Tid)
    (hb : ∀ p, (st.threads t).pc.absent = some p → ex p = false)
    (h : ∀ p ∈ st.missing, ex p = false) : ∀ p ∈ (fStep ex st t).missing, ex p = false := by
  intro p
  have hp := h p
  have hbp := hb p
  cases hpc : (st.threads t).pc <;> simp only [fStep, hpc]
  all_goals (try split)
  all_goals (try split)
  all_goals (simp_all [FPc.absent])
  all_goals (try (rintro (e | e) <;> simp_all; done))
  all_goals (try (intro e1 e2; exact hp e1))

/-- while the file system stands still: a thread in the not-exists branch has seen the directory missing -/
theorem f_absent_run (ex : Nat → Bool) (sched : List Tid) :
    ∀ st, (∀ t p, (st.threads t).pc.absent = some p → ex p = false) →
      ∀ t p, ((fRun ex st sched).threads t).pc.absent = some p → ex p = false := by
  induction sched with
  | nil => intro st h; exact h
  | cons t ts ih => intro st h; exact ih _ (f_absent_step ex st t h)

theorem f_missing_run (ex : Nat → Bool) (sched : List Tid) :
    ∀ st, (∀ t p, (st.threads t).pc.absent = some p → ex p = false) → (∀ p ∈ st.missing, ex p = false) →
      ∀ p ∈ (fRun ex st sched).missing, ex p = false := by
  induction sched with
  | nil => intro st _ h; exact h
  | cons t ts ih => intro st hb h; exact ih _ (f_absent_step ex st t hb) (f_missing_step ex st t (hb t) h)

/-- THE RETURN GUARANTEE, one step, whatever the file system does: the step by which thread `t` RETURNS from
    `add_sys_path(p)` (its pc goes from inside the call to idle) by the unlocked early return or after the locked
    append — i.e. not from the not-exists branch, where its own exists() test said no — : `p` is on `sys.path`. -/
theorem f_return_step (ex : Nat → Bool) (base : List Nat) (st : FState) (t : Tid) (h : FInv base st) (p : Nat)
    (hin : (st.threads t).pc.path = some p) (hnot : (st.threads t).pc.absent = none)
    (hret : ((fStep ex st t).threads t).pc = .fIdle) : p ∈ (fStep ex st t).sysPath := by
  have hk := h.known p
  have hc := h.chk t p
  have ha := h.added t p
  revert hret
  cases hpc : (st.threads t).pc <;> simp only [fStep, hpc]
  all_goals (try split)
  all_goals (try split)
  all_goals (simp_all [FPc.path, FPc.added, FPc.absent])

theorem fInv_run (ex : Nat → Bool) (base : List Nat) (sched : List Tid) :
    ∀ st, FInv base st → FInv base (fRun ex st sched) := by
  induction sched with
  | nil => intro st h; exact h
  | cons t ts ih => intro st h; exact ih _ (fInv_step ex base st t h)

theorem fInv_runW (base : List Nat) (sched : List ((Nat → Bool) × Tid)) :
    ∀ st, FInv base st → FInv base (fRunW st sched) := by
  induction sched with
  | nil => intro st h; exact h
  | cons x ts ih => intro st h; exact ih _ (fInv_step x.1 base st x.2 h)

end Pypyr.CacheTS
