/- Inductive invariant of `add_sys_path` at the granularity of the single set operations (`CacheTS.fStep`):
   `_known_dirs` / `_missing_dirs` are read and written outside `_sys_path_lock`, one operation at a time. -/
import PypyrModel.CacheTS

namespace Pypyr.CacheTS

def FPc.inCS : FPc → Bool
  | .fLocked _ | .fAppend _ | .fRelease _ => true
  | _ => false

/-- the path this thread has established to be on `sys.path` -/
def FPc.added : FPc → Option Nat
  | .fRelease p | .fKnown p => some p
  | _ => none

/-- the path this thread has seen to exist -/
def FPc.existing : FPc → Option Nat
  | .fDiscard p | .fWant p | .fLocked p | .fAppend p | .fRelease p | .fKnown p => some p
  | _ => none

/-- the path this thread has seen NOT to exist -/
def FPc.absent : FPc → Option Nat
  | .fAddK p | .fAddM p => some p
  | _ => none

@[simp] theorem f_setThread_threads (st : FState) (t : Tid) (th : FThread) (u : Tid) :
    (st.setThread t th).threads u = if u = t then th else st.threads u := rfl
@[simp] theorem f_setThread_lock (st : FState) (t : Tid) (th : FThread) : (st.setThread t th).lock = st.lock := rfl
@[simp] theorem f_setThread_sysPath (st : FState) (t : Tid) (th : FThread) : (st.setThread t th).sysPath = st.sysPath := rfl
@[simp] theorem f_setThread_known (st : FState) (t : Tid) (th : FThread) : (st.setThread t th).known = st.known := rfl
@[simp] theorem f_setThread_missing (st : FState) (t : Tid) (th : FThread) : (st.setThread t th).missing = st.missing := rfl

structure FInv (ex : Nat → Bool) (base : List Nat) (st : FState) : Prop where
  mutex : ∀ t, (st.threads t).pc.inCS = true ↔ st.lock = some t
  fresh : ∀ t p, (st.threads t).pc = .fAppend p → p ∉ st.sysPath
  nodup : st.sysPath.Nodup
  added : ∀ t p, (st.threads t).pc.added = some p → p ∈ st.sysPath
  absent : ∀ t p, (st.threads t).pc.absent = some p → ex p = false
  known : ∀ p ∈ st.known, ex p = true → p ∈ st.sysPath
  existing : ∀ t p, (st.threads t).pc.existing = some p → ex p = true
  keeps : base <+: st.sysPath

theorem f_mutex_step (ex : Nat → Bool) (st : FState) (t : Tid)
    (h : ∀ t, (st.threads t).pc.inCS = true ↔ st.lock = some t) :
    ∀ u, ((fStep ex st t).threads u).pc.inCS = true ↔ (fStep ex st t).lock = some u := by
  intro u
  have hu := h u
  have ht := h t
  have hsym : (t = u) = (u = t) := propext eq_comm
  cases hpc : (st.threads t).pc <;> simp only [fStep, hpc]
  all_goals (try split)
  all_goals (try split)
  all_goals (by_cases hut : u = t <;> simp_all [FPc.inCS])

theorem f_fresh_step (ex : Nat → Bool) (st : FState) (t : Tid)
    (hm : ∀ t, (st.threads t).pc.inCS = true ↔ st.lock = some t)
    (h : ∀ t p, (st.threads t).pc = .fAppend p → p ∉ st.sysPath) :
    ∀ u p, ((fStep ex st t).threads u).pc = .fAppend p → p ∉ (fStep ex st t).sysPath := by
  intro u p
  have hu := h u p
  have hmt := hm t
  have hcu : (st.threads u).pc = .fAppend p → st.lock = some u :=
    fun e => (hm u).1 (by rw [e]; rfl)
  have hsym : (t = u) = (u = t) := propext eq_comm
  cases hpc : (st.threads t).pc <;> simp only [fStep, hpc]
  all_goals (try split)
  all_goals (try split)
  all_goals (by_cases hut : u = t <;> simp_all [FPc.inCS])
  all_goals (try (intro e; simp_all; done))

theorem f_nodup_step (ex : Nat → Bool) (st : FState) (t : Tid)
    (h : ∀ p, (st.threads t).pc = .fAppend p → p ∉ st.sysPath) (hn : st.sysPath.Nodup) :
    (fStep ex st t).sysPath.Nodup := by
  cases hpc : (st.threads t).pc <;> simp only [fStep, hpc]
  all_goals (try split)
  all_goals (try split)
  all_goals (simp_all [List.nodup_append])
  all_goals (try (intro a ha e; subst e; exact h ha))

theorem f_added_step (ex : Nat → Bool) (st : FState) (t : Tid)
    (h : ∀ t p, (st.threads t).pc.added = some p → p ∈ st.sysPath) :
    ∀ u p, ((fStep ex st t).threads u).pc.added = some p → p ∈ (fStep ex st t).sysPath := by
  intro u p
  have hu := h u p
  have ht := h t p
  cases hpc : (st.threads t).pc <;> simp only [fStep, hpc]
  all_goals (try split)
  all_goals (try split)
  all_goals (by_cases hut : u = t <;> simp_all [FPc.added])
  all_goals (try (intro e; simp_all; done))
  all_goals (try (intro e; exact .inl (hu e)))

theorem f_absent_step (ex : Nat → Bool) (st : FState) (t : Tid)
    (h : ∀ t p, (st.threads t).pc.absent = some p → ex p = false) :
    ∀ u p, ((fStep ex st t).threads u).pc.absent = some p → ex p = false := by
  intro u p
  have hu := h u p
  have ht := h t p
  cases hpc : (st.threads t).pc <;> simp only [fStep, hpc]
  all_goals (try split)
  all_goals (try split)
  all_goals (by_cases hut : u = t <;> simp_all [FPc.absent])
  all_goals (try (intro e; simp_all; done))

theorem f_known_step (ex : Nat → Bool) (st : FState) (t : Tid)
    (ha : ∀ p, (st.threads t).pc.added = some p → p ∈ st.sysPath)
    (hb : ∀ p, (st.threads t).pc.absent = some p → ex p = false)
    (h : ∀ p ∈ st.known, ex p = true → p ∈ st.sysPath) :
    ∀ p ∈ (fStep ex st t).known, ex p = true → p ∈ (fStep ex st t).sysPath := by
  intro p
  have hp := h p
  have hap := ha p
  have hbp := hb p
  cases hpc : (st.threads t).pc <;> simp only [fStep, hpc]
  all_goals (try split)
  all_goals (try split)
  all_goals (simp_all [FPc.added, FPc.absent])
  all_goals (try (rintro (e | e) <;> simp_all; done))
  all_goals (try (intro e1 e2; exact .inl (hp e1 e2)))

theorem f_existing_step (ex : Nat → Bool) (st : FState) (t : Tid)
    (h : ∀ t p, (st.threads t).pc.existing = some p → ex p = true) :
    ∀ u p, ((fStep ex st t).threads u).pc.existing = some p → ex p = true := by
  intro u p
  have hu := h u p
  have ht := h t p
  cases hpc : (st.threads t).pc <;> simp only [fStep, hpc]
  all_goals (try split)
  all_goals (try split)
  all_goals (by_cases hut : u = t <;> simp_all [FPc.existing])
  all_goals (try (intro e; simp_all; done))

theorem f_keeps_step (ex : Nat → Bool) (base : List Nat) (st : FState) (t : Tid)
    (h : base <+: st.sysPath) : base <+: (fStep ex st t).sysPath := by
  cases hpc : (st.threads t).pc <;> simp only [fStep, hpc]
  all_goals (try split)
  all_goals (try split)
  all_goals (first | exact h | exact List.IsPrefix.trans h (List.prefix_append _ _))

theorem fInv_step (ex : Nat → Bool) (base : List Nat) (st : FState) (t : Tid) (h : FInv ex base st) :
    FInv ex base (fStep ex st t) :=
  ⟨f_mutex_step ex st t h.mutex, f_fresh_step ex st t h.mutex h.fresh,
   f_nodup_step ex st t (h.fresh t) h.nodup, f_added_step ex st t h.added, f_absent_step ex st t h.absent,
   f_known_step ex st t (h.added t) (h.absent t) h.known, f_existing_step ex st t h.existing,
   f_keeps_step ex base st t h.keeps⟩

theorem fInv_init (ex : Nat → Bool) (base : List Nat) (prog : Tid → List Nat) (hn : base.Nodup) :
    FInv ex base (fInit base prog) := by
  refine ⟨?_, ?_, hn, ?_, ?_, ?_, ?_, ?_⟩ <;> simp [fInit, FPc.inCS, FPc.added, FPc.existing, FPc.absent]

theorem fInv_run (ex : Nat → Bool) (base : List Nat) (sched : List Tid) :
    ∀ st, FInv ex base st → FInv ex base (fRun ex st sched) := by
  induction sched with
  | nil => intro st h; exact h
  | cons t ts ih => intro st h; exact ih _ (fInv_step ex base st t h)

end Pypyr.CacheTS
