/-
  Fuel monotonicity (adequacy) of the flow interpreter.

  `Res.outOfFuel` is the model's own "did not finish within the budget"; it is never swallowed by any
  layer (strictness), and it is the ONLY way in which the budget shows: a computation that ends with
  anything else ends with exactly the same state and result under every larger budget.

  `Le a b` ("`a` is `b`, or `a` ran out of fuel") is the information order on outcomes; `Ext b b'` lifts
  it to bodies. Every decorator layer of `Layers.lean` is monotone for it (in the inner bodies and in
  its own loop budget), every run-function of `Runner.lean` at fuel `n` is below the same function at
  fuel `n + 1` (mutual induction), hence at every `m ≥ n` (`*_fuel_mono`).

  Consequence: statements proved at different fuels are statements about one and the same run
  (`runRoot_fuel_mono`, `runRoot_agree`).
-/
import Props.Lemmas.C04_Cond
import Props.Lemmas.C01_Runner

namespace Pypyr.Flow

/-- `a` ran out of fuel, or is `b`. -/
def Le (a b : St × Res) : Prop := a.2 = .outOfFuel ∨ a = b

/-- `b'` ends like `b` wherever `b` does not run out of fuel. -/
def Ext (b b' : Body) : Prop := ∀ s, Le (b s) (b' s)

theorem Le.refl (a : St × Res) : Le a a := .inr rfl

theorem Le.oof (s : St) (b : St × Res) : Le (s, .outOfFuel) b := .inl rfl

theorem Le.trans {a b c : St × Res} (h1 : Le a b) (h2 : Le b c) : Le a c := by
  rcases h1 with h | h
  · exact .inl h
  · subst h; exact h2

theorem Ext.refl (b : Body) : Ext b b := fun s => Le.refl _

theorem Ext.trans {a b c : Body} (h1 : Ext a b) (h2 : Ext b c) : Ext a c := fun s => (h1 s).trans (h2 s)

/-- the reading the callers use: a finished computation is reproduced. -/
theorem Le.eq_of_ne {a b : St × Res} (h : Le a b) (hn : a.2 ≠ .outOfFuel) : b = a := by
  rcases h with h | h
  · exact absurd h hn
  · exact h.symm

theorem Ext.apply {b b' : Body} (h : Ext b b') {s s' : St} {r : Res} (hb : b s = (s', r)) (hr : r ≠ .outOfFuel) :
    b' s = (s', r) := by
  have := (h s).eq_of_ne (by rw [hb]; exact hr)
  rw [this, hb]

/-! ### invoke_step -/

theorem invokeStep_ext (fr : Frame) (body body' : Body) (callee callee' : CofCfg → Body)
    (hb : Ext body body') (hc : ∀ c, Ext (callee c) (callee' c)) :
    Ext (invokeStep fr body callee) (invokeStep fr body' callee') := by
  intro s
  unfold invokeStep
  have hx := hb s
  generalize body s = x at hx ⊢
  generalize body' s = x' at hx ⊢
  rcases hx with hx | hx
  · left; obtain ⟨s1, r⟩ := x; simp only [] at hx; subst hx; rfl
  · subst hx
    obtain ⟨s1, r⟩ := x
    cases r with
    | call c =>
      simp only []
      have hy := hc c s1
      generalize callee c s1 = y at hy ⊢
      generalize callee' c s1 = y' at hy ⊢
      rcases hy with hy | hy
      · left; obtain ⟨s2, r2⟩ := y; simp only [] at hy; subst hy
        by_cases ht : c.original.truthy = true <;> simp [ht]
      · subst hy; exact Le.refl _
    | _ => exact Le.refl _

/-! ### retry -/

theorem retryIter_ext (cfg : RetryCfg) (fr : Frame) (inner inner' : Frame → Body) (max : Option Int)
    (hi : ∀ fr, Ext (inner fr) (inner' fr)) :
    ∀ (fuel fuel' k : Nat) (bo : BackoffState), fuel ≤ fuel' →
      Ext (retryIter cfg fr inner max fuel k bo) (retryIter cfg fr inner' max fuel' k bo) := by
  intro fuel
  induction fuel with
  | zero => intro fuel' k bo _ s; left; unfold retryIter; rfl
  | succ n ih =>
    intro fuel' k bo hle s
    obtain ⟨m, rfl⟩ : ∃ m, fuel' = m + 1 := ⟨fuel' - 1, by omega⟩
    unfold retryIter
    simp only []
    have hx := hi { fr with retryC := some k } { s with ctx := Ctx.set s.ctx "retryCounter" (.int k) }
    generalize inner { fr with retryC := some k } { s with ctx := Ctx.set s.ctx "retryCounter" (.int k) } = x at hx ⊢
    generalize inner' { fr with retryC := some k } { s with ctx := Ctx.set s.ctx "retryCounter" (.int k) } = x' at hx ⊢
    rcases hx with hx | hx
    · left; obtain ⟨s1, r⟩ := x; simp only [] at hx; subst hx; rfl
    · subst hx
      obtain ⟨s1, r⟩ := x
      cases r with
      | err e handled =>
        simp only []
        repeat' split
        all_goals first
          | exact Le.refl _
          | exact ih m _ _ (by omega) _
      | _ => exact Le.refl _

theorem retryFaulty_ext (cfg : RetryCfg) (fr : Frame) (inner inner' : Frame → Body) (max : Option Int) (y : Bool)
    (hi : ∀ fr, Ext (inner fr) (inner' fr)) :
    Ext (retryFaulty cfg fr inner max y) (retryFaulty cfg fr inner' max y) := by
  intro s
  unfold retryFaulty
  simp only []
  have hx := hi { fr with retryC := some 1 } { s with ctx := Ctx.set s.ctx "retryCounter" (.int 1) }
  generalize inner { fr with retryC := some 1 } { s with ctx := Ctx.set s.ctx "retryCounter" (.int 1) } = x at hx ⊢
  generalize inner' { fr with retryC := some 1 } { s with ctx := Ctx.set s.ctx "retryCounter" (.int 1) } = x' at hx ⊢
  rcases hx with hx | hx
  · left; obtain ⟨s1, r⟩ := x; simp only [] at hx; subst hx; rfl
  · subst hx; exact Le.refl _

theorem retryLoop_ext (cfg : RetryCfg) (fr : Frame) (inner inner' : Frame → Body) (fuel fuel' : Nat)
    (hle : fuel ≤ fuel') (hi : ∀ fr, Ext (inner fr) (inner' fr)) :
    Ext (retryLoop cfg fr inner fuel) (retryLoop cfg fr inner' fuel') := by
  intro s
  unfold retryLoop
  simp only []
  repeat' split
  all_goals first
    | exact Le.refl _
    | exact retryIter_ext cfg fr inner inner' _ hi fuel fuel' _ _ hle _
    | exact retryFaulty_ext cfg fr inner inner' _ _ hi _

/-! ### run / skip / swallow -/

theorem runConditional_ext (d : StepDef) (inner inner' : Body) (hi : Ext inner inner') :
    Ext (runConditional d inner) (runConditional d inner') := by
  intro s
  unfold runConditional
  split
  · exact Le.refl _
  · exact Le.refl _
  · split
    · exact Le.refl _
    · exact Le.refl _
    · simp only []
      have hx := hi s
      generalize inner s = x at hx ⊢
      generalize inner' s = x' at hx ⊢
      rcases hx with hx | hx
      · left; obtain ⟨s1, r⟩ := x; simp only [] at hx; subst hx; rfl
      · subst hx; exact Le.refl _

/-! ### foreach -/

theorem foreachItems_ext (fr : Frame) (inner inner' : Frame → Body) (hi : ∀ fr, Ext (inner fr) (inner' fr)) :
    ∀ items : List Val, Ext (foreachItems fr inner items) (foreachItems fr inner' items) := by
  intro items
  induction items with
  | nil => intro s; exact Le.refl _
  | cons x rest ih =>
    intro s
    unfold foreachItems
    simp only []
    have hx := hi { fr with forI := some x } { s with ctx := Ctx.set s.ctx "i" x }
    generalize inner { fr with forI := some x } { s with ctx := Ctx.set s.ctx "i" x } = p at hx ⊢
    generalize inner' { fr with forI := some x } { s with ctx := Ctx.set s.ctx "i" x } = p' at hx ⊢
    rcases hx with hx | hx
    · left; obtain ⟨s1, r⟩ := p; simp only [] at hx; subst hx; rfl
    · subst hx
      obtain ⟨s1, r⟩ := p
      cases r with
      | ok => exact ih s1
      | _ => exact Le.refl _

theorem foreachLoop_ext (raw : Val) (fr : Frame) (inner inner' : Frame → Body)
    (hi : ∀ fr, Ext (inner fr) (inner' fr)) : Ext (foreachLoop raw fr inner) (foreachLoop raw fr inner') := by
  intro s
  unfold foreachLoop
  repeat' split
  all_goals first
    | exact Le.refl _
    | exact foreachItems_ext fr inner inner' hi _ _

theorem foreachOrConditional_ext (d : StepDef) (fr : Frame) (inner inner' : Frame → Body)
    (hi : ∀ fr, Ext (inner fr) (inner' fr)) :
    Ext (foreachOrConditional d fr inner) (foreachOrConditional d fr inner') := by
  unfold foreachOrConditional
  split
  · split
    · exact foreachLoop_ext _ fr inner inner' hi
    · exact hi fr
  · exact hi fr

/-! ### while -/

theorem whileIter_ext (cfg : WhileCfg) (fr : Frame) (inner inner' : Frame → Body) (max : Option Nat)
    (sleep : Num) (eom : Bool) (hi : ∀ fr, Ext (inner fr) (inner' fr)) :
    ∀ (fuel fuel' k : Nat), fuel ≤ fuel' →
      Ext (whileIter cfg fr inner max sleep eom fuel k) (whileIter cfg fr inner' max sleep eom fuel' k) := by
  intro fuel
  induction fuel with
  | zero => intro fuel' k _ s; left; unfold whileIter; rfl
  | succ n ih =>
    intro fuel' k hle s
    obtain ⟨m, rfl⟩ : ∃ m, fuel' = m + 1 := ⟨fuel' - 1, by omega⟩
    unfold whileIter
    simp only []
    have hx := hi { fr with whileC := some k } { s with ctx := Ctx.set s.ctx "whileCounter" (.int k) }
    generalize inner { fr with whileC := some k } { s with ctx := Ctx.set s.ctx "whileCounter" (.int k) } = x at hx ⊢
    generalize inner' { fr with whileC := some k } { s with ctx := Ctx.set s.ctx "whileCounter" (.int k) } = x' at hx ⊢
    rcases hx with hx | hx
    · left; obtain ⟨s1, r⟩ := x; simp only [] at hx; subst hx; rfl
    · subst hx
      obtain ⟨s1, r⟩ := x
      cases r with
      | ok =>
        simp only []
        repeat' split
        all_goals first
          | exact Le.refl _
          | exact ih m _ (by omega) _
      | _ => exact Le.refl _

theorem whileLoop_ext (cfg : WhileCfg) (fr : Frame) (inner inner' : Frame → Body) (fuel fuel' : Nat)
    (hle : fuel ≤ fuel') (hi : ∀ fr, Ext (inner fr) (inner' fr)) :
    Ext (whileLoop cfg fr inner fuel) (whileLoop cfg fr inner' fuel') := by
  intro s
  unfold whileLoop
  simp only []
  repeat' split
  all_goals first
    | exact Le.refl _
    | exact whileIter_ext cfg fr inner inner' _ _ _ hi fuel fuel' _ hle _

/-! ### the whole decorated step -/

theorem stepCore_ext (d : StepDef) (body body' : Body) (callee callee' : CofCfg → Body) (fuel fuel' : Nat)
    (hle : fuel ≤ fuel') (hb : Ext body body') (hc : ∀ c, Ext (callee c) (callee' c)) :
    Ext (C04.stepCore d body callee fuel) (C04.stepCore d body' callee' fuel') := by
  have hinv : ∀ fr, Ext (fun s => invokeStep fr body callee s) (fun s => invokeStep fr body' callee' s) :=
    fun fr => invokeStep_ext fr body body' callee callee' hb hc
  have hret : ∀ fr, Ext (C04.retriedLayer d body callee fuel fr) (C04.retriedLayer d body' callee' fuel' fr) := by
    intro fr
    unfold C04.retriedLayer
    split
    · exact retryLoop_ext _ _ _ _ fuel fuel' hle hinv
    · exact hinv fr
  have hcond : ∀ fr, Ext (C04.conditionalLayer d body callee fuel fr) (C04.conditionalLayer d body' callee' fuel' fr) :=
    fun fr => runConditional_ext d _ _ (hret fr)
  have hloop : ∀ fr, Ext (C04.foreachLayer d body callee fuel fr) (C04.foreachLayer d body' callee' fuel' fr) :=
    fun fr => foreachOrConditional_ext d fr _ _ hcond
  unfold C04.stepCore
  split
  · exact whileLoop_ext _ _ _ _ fuel fuel' hle hloop
  · exact hloop {}

theorem runStepWith_ext (d : StepDef) (body body' : Body) (callee callee' : CofCfg → Body) (fuel fuel' : Nat)
    (hle : fuel ≤ fuel') (hb : Ext body body') (hc : ∀ c, Ext (callee c) (callee' c)) :
    Ext (runStepWith d body callee fuel) (runStepWith d body' callee' fuel') := by
  intro s
  rw [C04.runStepWith_eq, C04.runStepWith_eq]
  have hx := stepCore_ext d body body' callee callee' fuel fuel' hle hb hc (setIn d s)
  generalize C04.stepCore d body callee fuel (setIn d s) = x at hx ⊢
  generalize C04.stepCore d body' callee' fuel' (setIn d s) = x' at hx ⊢
  rcases hx with hx | hx
  · left; obtain ⟨s1, r⟩ := x; simp only [] at hx; subst hx; rfl
  · subst hx; exact Le.refl _

theorem runStepDescribed_ext (d : StepDef) (body body' : Body) (callee callee' : CofCfg → Body) (fuel fuel' : Nat)
    (hle : fuel ≤ fuel') (hb : Ext body body') (hc : ∀ c, Ext (callee c) (callee' c)) :
    Ext (runStepDescribed d body callee fuel) (runStepDescribed d body' callee' fuel') := by
  intro s
  unfold runStepDescribed
  split
  · exact Le.refl _
  · split
    · exact Le.refl _
    · exact runStepWith_ext d body body' callee callee' fuel fuel' hle hb hc s

end Pypyr.Flow

namespace Pypyr.Flow

/-! ### the runner: one more unit of fuel -/

/-- the eight run-functions at fuel `n` are below the same functions at fuel `n + 1` -/
def AllExt (n : Nat) (prog : Program) : Prop :=
  (∀ pipe d, Ext (runStep n prog pipe d) (runStep (n + 1) prog pipe d)) ∧
  (∀ pipe ds, Ext (runSteps n prog pipe ds) (runSteps (n + 1) prog pipe ds)) ∧
  (∀ pipe g rs, Ext (runStepGroup n prog pipe g rs) (runStepGroup (n + 1) prog pipe g rs)) ∧
  (∀ pipe gs, Ext (runGroupList n prog pipe gs) (runGroupList (n + 1) prog pipe gs)) ∧
  (∀ pipe g, Ext (runFailureGroup n prog pipe g) (runFailureGroup (n + 1) prog pipe g)) ∧
  (∀ pipe gs su fa, Ext (runGroups n prog pipe gs su fa) (runGroups (n + 1) prog pipe gs su fa)) ∧
  (∀ pi, Ext (runPipeline n prog pi) (runPipeline (n + 1) prog pi)) ∧
  Ext (pypeBody n prog) (pypeBody (n + 1) prog)

theorem allExt_zero (prog : Program) : AllExt 0 prog := by
  refine ⟨?_, ?_, ?_, ?_, ?_, ?_, ?_, ?_⟩
  · intro pipe d s; left; unfold runStep; rfl
  · intro pipe ds s; left; unfold runSteps; rfl
  · intro pipe g rs s; left; unfold runStepGroup; rfl
  · intro pipe gs s; left; unfold runGroupList; rfl
  · intro pipe g s; left; unfold runFailureGroup; rfl
  · intro pipe gs su fa s; left; unfold runGroups; rfl
  · intro pi s; left; unfold runPipeline; rfl
  · intro s; left; unfold pypeBody; rfl

/-- closes a goal `Le (F x) (F x')` from `hx : Le x x'` when `F` hands an out-of-fuel `x` on: either `x`
    ran out of fuel (then so does `F x`), or `x' = x`. -/
macro "le_strict " hx:ident : tactic =>
  `(tactic| (rcases $hx:ident with hx | hx
             · (left; rename_i x _; obtain ⟨s1, r⟩ := x; simp only [] at hx; subst hx; rfl)
             · (subst hx; exact Le.refl _)))

theorem allExt_succ (prog : Program) (n : Nat) (ih : AllExt n prog) : AllExt (n + 1) prog := by
  obtain ⟨hStep, hSteps, hGroup, hList, hFail, hGroups, hPipe, hPype⟩ := ih
  refine ⟨?_, ?_, ?_, ?_, ?_, ?_, ?_, ?_⟩
  · -- runStep
    intro pipe d s
    conv => lhs; unfold runStep
    conv => rhs; unfold runStep
    simp only []
    split
    · exact Le.refl _
    · rename_i kind _
      apply runStepDescribed_ext d _ _ _ _ n (n + 1) (by omega)
      · cases kind <;> first | exact Ext.refl _ | exact hPype
      · intro c s'; exact hGroups _ _ _ _ s'
  · -- runSteps
    intro pipe ds s
    cases ds with
    | nil => unfold runSteps; exact Le.refl _
    | cons d rest =>
      rw [runSteps_cons, runSteps_cons]
      have hx := hStep pipe d s
      generalize runStep n prog pipe d s = x at hx ⊢
      generalize runStep (n + 1) prog pipe d s = x' at hx ⊢
      rcases hx with hx | hx
      · left; obtain ⟨s1, r⟩ := x; simp only [] at hx; subst hx; rfl
      · subst hx
        obtain ⟨s1, r⟩ := x
        cases r <;> first | exact Le.refl _ | exact hSteps pipe rest s1
  · -- runStepGroup
    intro pipe g rs s
    rw [runStepGroup_eq, runStepGroup_eq]
    split
    · exact Le.refl _
    · split
      · exact Le.refl _
      · have hx := hSteps pipe (groupSteps prog pipe g) s
        generalize runSteps n prog pipe (groupSteps prog pipe g) s = x at hx ⊢
        generalize runSteps (n + 1) prog pipe (groupSteps prog pipe g) s = x' at hx ⊢
        rcases hx with hx | hx
        · left; obtain ⟨s1, r⟩ := x; simp only [] at hx; subst hx; rfl
        · subst hx
          obtain ⟨s1, r⟩ := x
          cases r <;> first | exact Le.refl _ | exact hGroups _ _ _ _ s1
  · -- runGroupList
    intro pipe gs s
    cases gs with
    | nil => unfold runGroupList; exact Le.refl _
    | cons g rest =>
      rw [runGroupList_cons, runGroupList_cons]
      have hx := hGroup pipe g false s
      generalize runStepGroup n prog pipe g false s = x at hx ⊢
      generalize runStepGroup (n + 1) prog pipe g false s = x' at hx ⊢
      rcases hx with hx | hx
      · left; obtain ⟨s1, r⟩ := x; simp only [] at hx; subst hx; rfl
      · subst hx
        obtain ⟨s1, r⟩ := x
        cases r <;> first | exact Le.refl _ | exact hList pipe rest s1
  · -- runFailureGroup
    intro pipe g s
    cases g with
    | none => unfold runFailureGroup; exact Le.refl _
    | some name =>
      by_cases hn : name = ""
      · subst hn; unfold runFailureGroup; exact Le.refl _
      · rw [runFailureGroup_eq n prog pipe name s hn, runFailureGroup_eq (n + 1) prog pipe name s hn]
        have hx := hGroup pipe name true s
        generalize runStepGroup n prog pipe name true s = x at hx ⊢
        generalize runStepGroup (n + 1) prog pipe name true s = x' at hx ⊢
        rcases hx with hx | hx
        · left; obtain ⟨s1, r⟩ := x; simp only [] at hx; subst hx; rfl
        · subst hx; exact Le.refl _
  · -- runGroups
    intro pipe gs su fa s
    cases gs with
    | nil => unfold runGroups; exact Le.refl _
    | cons g rest =>
      rw [runGroups_eq, runGroups_eq]
      have hmain : Le (mainPhase n prog pipe (g :: rest) su s) (mainPhase (n + 1) prog pipe (g :: rest) su s) := by
        unfold mainPhase
        have hx := hList pipe (g :: rest) s
        generalize runGroupList n prog pipe (g :: rest) s = x at hx ⊢
        generalize runGroupList (n + 1) prog pipe (g :: rest) s = x' at hx ⊢
        rcases hx with hx | hx
        · left; obtain ⟨s1, r⟩ := x; simp only [] at hx; subst hx; rfl
        · subst hx
          obtain ⟨s1, r⟩ := x
          cases r with
          | ok =>
            simp only []
            split
            · split
              · exact Le.refl _
              · exact hGroup pipe _ false s1
            · exact Le.refl _
          | _ => exact Le.refl _
      generalize mainPhase n prog pipe (g :: rest) su s = x at hmain ⊢
      generalize mainPhase (n + 1) prog pipe (g :: rest) su s = x' at hmain ⊢
      rcases hmain with hx | hx
      · left; obtain ⟨s1, r⟩ := x; simp only [] at hx; subst hx; rfl
      · subst hx
        obtain ⟨s1, r⟩ := x
        cases r with
        | err e h =>
          simp only []
          split
          · have hy := hFail pipe fa s1
            generalize runFailureGroup n prog pipe fa s1 = y at hy ⊢
            generalize runFailureGroup (n + 1) prog pipe fa s1 = y' at hy ⊢
            rcases hy with hy | hy
            · left; obtain ⟨s2, r2⟩ := y; simp only [] at hy; subst hy; rfl
            · subst hy; exact Le.refl _
          · exact Le.refl _
        | _ => exact Le.refl _
  · -- runPipeline
    intro pi s
    cases hp : prog.find? pi.name with
    | none => rw [runPipeline_notFound n prog pi s hp, runPipeline_notFound (n + 1) prog pi s hp]; exact Le.refl _
    | some pd =>
      by_cases hgb : pi.groupsBad = true
      · rw [runPipeline_groupsBad n prog pi pd s hp hgb, runPipeline_groupsBad (n + 1) prog pi pd s hp hgb]
        simp only []
        generalize prepareContext pd pi { s with stack := pi.name :: s.stack } = p
        obtain ⟨s1, r⟩ := p
        cases r with
        | err e h =>
          simp only []
          have hy := hFail pi.name pi.failure s1
          generalize runFailureGroup n prog pi.name pi.failure s1 = y at hy ⊢
          generalize runFailureGroup (n + 1) prog pi.name pi.failure s1 = y' at hy ⊢
          rcases hy with hy | hy
          · left; obtain ⟨s2, r2⟩ := y; simp only [] at hy; subst hy; rfl
          · subst hy; exact Le.refl _
        | ok =>
          simp only []
          by_cases hf0 : hasFailureGroup pi.failure = true
          · simp only [hf0, if_true]
            have hy := hFail pi.name pi.failure (raiseNew s1 "TypeError" "~object is not iterable").1
            generalize runFailureGroup n prog pi.name pi.failure
              (raiseNew s1 "TypeError" "~object is not iterable").1 = y at hy ⊢
            generalize runFailureGroup (n + 1) prog pi.name pi.failure
              (raiseNew s1 "TypeError" "~object is not iterable").1 = y' at hy ⊢
            rcases hy with hy | hy
            · left; obtain ⟨s2, r2⟩ := y; simp only [] at hy; subst hy; rfl
            · subst hy; exact Le.refl _
          · simp only [hf0]; exact Le.refl _
        | _ => exact Le.refl _
      · have hgb : pi.groupsBad = false := by simpa using hgb
        rw [runPipeline_eq n prog pi pd s hp hgb, runPipeline_eq (n + 1) prog pi pd s hp hgb]
        simp only []
        generalize prepareContext pd pi { s with stack := pi.name :: s.stack } = p
        obtain ⟨s1, r⟩ := p
        cases r with
        | err e h =>
          simp only []
          have hy := hFail pi.name (effectiveGroups pi).2.2 s1
          generalize runFailureGroup n prog pi.name (effectiveGroups pi).2.2 s1 = y at hy ⊢
          generalize runFailureGroup (n + 1) prog pi.name (effectiveGroups pi).2.2 s1 = y' at hy ⊢
          rcases hy with hy | hy
          · left; obtain ⟨s2, r2⟩ := y; simp only [] at hy; subst hy; rfl
          · subst hy; exact Le.refl _
        | ok =>
          simp only []
          have hy := hGroups pi.name (effectiveGroups pi).1 (effectiveGroups pi).2.1 (effectiveGroups pi).2.2 s1
          generalize runGroups n prog pi.name (effectiveGroups pi).1 (effectiveGroups pi).2.1
            (effectiveGroups pi).2.2 s1 = y at hy ⊢
          generalize runGroups (n + 1) prog pi.name (effectiveGroups pi).1 (effectiveGroups pi).2.1
            (effectiveGroups pi).2.2 s1 = y' at hy ⊢
          rcases hy with hy | hy
          · left; obtain ⟨s2, r2⟩ := y; simp only [] at hy; subst hy; rfl
          · subst hy; exact Le.refl _
        | _ => exact Le.refl _
  · -- pypeBody
    intro s
    conv => lhs; unfold pypeBody
    conv => rhs; unfold pypeBody
    simp only []
    cases getPypeArgs s with
    | error e => exact Le.refl _
    | ok a =>
      simp only []
      by_cases hu : a.useParent = true
      · -- shared context
        simp only [hu, if_true]
        have hy := hPipe { name := a.name, groups := a.groups, success := a.success, failure := a.failure,
                           parseInput := !a.skipParse, contextArgs := a.pipeArg, groupsBad := a.groupsBad }
          (match a.args with
           | some kvs => if kvs.isEmpty then s else { s with ctx := Ctx.update s.ctx kvs }
           | none => s)
        generalize runPipeline n prog _ _ = y at hy ⊢
        generalize runPipeline (n + 1) prog _ _ = y' at hy ⊢
        rcases hy with hy | hy
        · left; obtain ⟨s2, r2⟩ := y; simp only [] at hy; subst hy; rfl
        · subst hy; exact Le.refl _
      · -- own context
        simp only [hu]
        have hy := hPipe { name := a.name, groups := a.groups, success := a.success, failure := a.failure,
                           parseInput := !a.skipParse, contextArgs := a.pipeArg, groupsBad := a.groupsBad }
          { s with ctx := a.args.getD [], stack := [] }
        generalize runPipeline n prog _ _ = y at hy ⊢
        generalize runPipeline (n + 1) prog _ _ = y' at hy ⊢
        rcases hy with hy | hy
        · left; obtain ⟨s2, r2⟩ := y; simp only [] at hy; subst hy; rfl
        · subst hy; exact Le.refl _

/-- **One more unit of fuel never changes a finished computation**: for every program and every `n`. -/
theorem allExt (prog : Program) : ∀ n, AllExt n prog := by
  intro n
  induction n with
  | zero => exact allExt_zero prog
  | succ n ih => exact allExt_succ prog n ih

end Pypyr.Flow

namespace Pypyr.Flow

/-! ### any larger budget -/

/-- the eight run-functions at fuel `n` are below the same functions at every fuel `n + k`. -/
theorem allExt_add (prog : Program) (n : Nat) : ∀ k,
    (∀ pipe d, Ext (runStep n prog pipe d) (runStep (n + k) prog pipe d)) ∧
    (∀ pipe ds, Ext (runSteps n prog pipe ds) (runSteps (n + k) prog pipe ds)) ∧
    (∀ pipe g rs, Ext (runStepGroup n prog pipe g rs) (runStepGroup (n + k) prog pipe g rs)) ∧
    (∀ pipe gs, Ext (runGroupList n prog pipe gs) (runGroupList (n + k) prog pipe gs)) ∧
    (∀ pipe g, Ext (runFailureGroup n prog pipe g) (runFailureGroup (n + k) prog pipe g)) ∧
    (∀ pipe gs su fa, Ext (runGroups n prog pipe gs su fa) (runGroups (n + k) prog pipe gs su fa)) ∧
    (∀ pi, Ext (runPipeline n prog pi) (runPipeline (n + k) prog pi)) ∧
    Ext (pypeBody n prog) (pypeBody (n + k) prog) := by
  intro k
  induction k with
  | zero => exact ⟨fun _ _ => Ext.refl _, fun _ _ => Ext.refl _, fun _ _ _ => Ext.refl _, fun _ _ => Ext.refl _,
      fun _ _ => Ext.refl _, fun _ _ _ _ => Ext.refl _, fun _ => Ext.refl _, Ext.refl _⟩
  | succ k ih =>
    obtain ⟨h1, h2, h3, h4, h5, h6, h7, h8⟩ := ih
    obtain ⟨g1, g2, g3, g4, g5, g6, g7, g8⟩ := allExt prog (n + k)
    exact ⟨fun a b => (h1 a b).trans (g1 a b), fun a b => (h2 a b).trans (g2 a b),
      fun a b c => (h3 a b c).trans (g3 a b c), fun a b => (h4 a b).trans (g4 a b),
      fun a b => (h5 a b).trans (g5 a b), fun a b c d => (h6 a b c d).trans (g6 a b c d),
      fun a => (h7 a).trans (g7 a), h8.trans g8⟩

private theorem le_add_sub {n m : Nat} (h : n ≤ m) : m = n + (m - n) := by omega

theorem runStep_fuel_ext (prog : Program) (pipe : String) (d : StepDef) {n m : Nat} (h : n ≤ m) :
    Ext (runStep n prog pipe d) (runStep m prog pipe d) := by
  rw [le_add_sub h]; exact (allExt_add prog n (m - n)).1 pipe d

theorem runSteps_fuel_ext (prog : Program) (pipe : String) (ds : List StepDef) {n m : Nat} (h : n ≤ m) :
    Ext (runSteps n prog pipe ds) (runSteps m prog pipe ds) := by
  rw [le_add_sub h]; exact (allExt_add prog n (m - n)).2.1 pipe ds

theorem runStepGroup_fuel_ext (prog : Program) (pipe g : String) (rs : Bool) {n m : Nat} (h : n ≤ m) :
    Ext (runStepGroup n prog pipe g rs) (runStepGroup m prog pipe g rs) := by
  rw [le_add_sub h]; exact (allExt_add prog n (m - n)).2.2.1 pipe g rs

theorem runGroupList_fuel_ext (prog : Program) (pipe : String) (gs : List String) {n m : Nat} (h : n ≤ m) :
    Ext (runGroupList n prog pipe gs) (runGroupList m prog pipe gs) := by
  rw [le_add_sub h]; exact (allExt_add prog n (m - n)).2.2.2.1 pipe gs

theorem runFailureGroup_fuel_ext (prog : Program) (pipe : String) (g : Option String) {n m : Nat} (h : n ≤ m) :
    Ext (runFailureGroup n prog pipe g) (runFailureGroup m prog pipe g) := by
  rw [le_add_sub h]; exact (allExt_add prog n (m - n)).2.2.2.2.1 pipe g

theorem runGroups_fuel_ext (prog : Program) (pipe : String) (gs : List String) (su fa : Option String)
    {n m : Nat} (h : n ≤ m) : Ext (runGroups n prog pipe gs su fa) (runGroups m prog pipe gs su fa) := by
  rw [le_add_sub h]; exact (allExt_add prog n (m - n)).2.2.2.2.2.1 pipe gs su fa

theorem runPipeline_fuel_ext (prog : Program) (pi : PipeInst) {n m : Nat} (h : n ≤ m) :
    Ext (runPipeline n prog pi) (runPipeline m prog pi) := by
  rw [le_add_sub h]; exact (allExt_add prog n (m - n)).2.2.2.2.2.2.1 pi

theorem pypeBody_fuel_ext (prog : Program) {n m : Nat} (h : n ≤ m) : Ext (pypeBody n prog) (pypeBody m prog) := by
  rw [le_add_sub h]; exact (allExt_add prog n (m - n)).2.2.2.2.2.2.2

theorem runRoot_fuel_ext (prog : Program) (pi : PipeInst) {n m : Nat} (h : n ≤ m) :
    Ext (runRoot n prog pi) (runRoot m prog pi) := by
  intro s
  rw [runRoot_eq, runRoot_eq]
  have hx := runPipeline_fuel_ext prog pi h s
  generalize runPipeline n prog pi s = x at hx ⊢
  generalize runPipeline m prog pi s = x' at hx ⊢
  rcases hx with hx | hx
  · left; obtain ⟨s1, r⟩ := x; simp only [] at hx; subst hx; rfl
  · subst hx; exact Le.refl _

/-- **Fuel monotonicity of a whole run** (`Pipeline.run`): a run that ends - normally or with an error -
    within the budget `n` ends in exactly the same state with exactly the same outcome under every budget
    `m ≥ n`. So `outOfFuel` is the only trace of the budget, and statements proved at different fuels are
    statements about one and the same run. -/
theorem runRoot_fuel_mono (prog : Program) (pi : PipeInst) (n : Nat) (s s' : St) (r : Res)
    (h : runRoot n prog pi s = (s', r)) (hr : r ≠ .outOfFuel) :
    ∀ m, n ≤ m → runRoot m prog pi s = (s', r) :=
  fun _ hm => (runRoot_fuel_ext prog pi hm).apply h hr

/-- the same for every run-function of the mutual recursion. -/
theorem run_fuel_mono (prog : Program) (n : Nat) :
    (∀ pipe d s s' r, runStep n prog pipe d s = (s', r) → r ≠ .outOfFuel →
        ∀ m, n ≤ m → runStep m prog pipe d s = (s', r)) ∧
    (∀ pipe ds s s' r, runSteps n prog pipe ds s = (s', r) → r ≠ .outOfFuel →
        ∀ m, n ≤ m → runSteps m prog pipe ds s = (s', r)) ∧
    (∀ pipe g rs s s' r, runStepGroup n prog pipe g rs s = (s', r) → r ≠ .outOfFuel →
        ∀ m, n ≤ m → runStepGroup m prog pipe g rs s = (s', r)) ∧
    (∀ pipe gs s s' r, runGroupList n prog pipe gs s = (s', r) → r ≠ .outOfFuel →
        ∀ m, n ≤ m → runGroupList m prog pipe gs s = (s', r)) ∧
    (∀ pipe g s s' r, runFailureGroup n prog pipe g s = (s', r) → r ≠ .outOfFuel →
        ∀ m, n ≤ m → runFailureGroup m prog pipe g s = (s', r)) ∧
    (∀ pipe gs su fa s s' r, runGroups n prog pipe gs su fa s = (s', r) → r ≠ .outOfFuel →
        ∀ m, n ≤ m → runGroups m prog pipe gs su fa s = (s', r)) ∧
    (∀ pi s s' r, runPipeline n prog pi s = (s', r) → r ≠ .outOfFuel →
        ∀ m, n ≤ m → runPipeline m prog pi s = (s', r)) ∧
    (∀ s s' r, pypeBody n prog s = (s', r) → r ≠ .outOfFuel → ∀ m, n ≤ m → pypeBody m prog s = (s', r)) :=
  ⟨fun pipe d _ _ _ h hr _ hm => (runStep_fuel_ext prog pipe d hm).apply h hr,
   fun pipe ds _ _ _ h hr _ hm => (runSteps_fuel_ext prog pipe ds hm).apply h hr,
   fun pipe g rs _ _ _ h hr _ hm => (runStepGroup_fuel_ext prog pipe g rs hm).apply h hr,
   fun pipe gs _ _ _ h hr _ hm => (runGroupList_fuel_ext prog pipe gs hm).apply h hr,
   fun pipe g _ _ _ h hr _ hm => (runFailureGroup_fuel_ext prog pipe g hm).apply h hr,
   fun pipe gs su fa _ _ _ h hr _ hm => (runGroups_fuel_ext prog pipe gs su fa hm).apply h hr,
   fun pi _ _ _ h hr _ hm => (runPipeline_fuel_ext prog pi hm).apply h hr,
   fun _ _ _ h hr _ hm => (pypeBody_fuel_ext prog hm).apply h hr⟩

/-- two budgets under which a run ends give the same end (determinacy across fuels). -/
theorem runRoot_agree (prog : Program) (pi : PipeInst) (n m : Nat) (s : St)
    (hn : (runRoot n prog pi s).2 ≠ .outOfFuel) (hm : (runRoot m prog pi s).2 ≠ .outOfFuel) :
    runRoot n prog pi s = runRoot m prog pi s := by
  rcases Nat.le_total n m with h | h
  · exact ((runRoot_fuel_ext prog pi h s).eq_of_ne hn).symm
  · exact (runRoot_fuel_ext prog pi h s).eq_of_ne hm

/-! ### chains at ONE fuel -/

/-- the elements of `xs` ran one after the other, each from the state its predecessor left, each ending
    normally WHEN RUN WITH THE SAME FUEL `F` - no per-element fuel arithmetic. -/
def ChainAt {α : Type} (f : Nat → α → Body) (F : Nat) : List α → St → St → Prop
  | [], s, s' => s' = s
  | x :: rest, s, s' => ∃ s1, f F x s = (s1, .ok) ∧ ChainAt f F rest s1 s'

/-- for an element runner that is monotone in its fuel, a chain at one fuel `F` is a chain of the
    fuel-decreasing loop at every `N ≥ F + length`. -/
theorem seqChain_of_chainAt {α : Type} (f : Nat → α → Body)
    (hmono : ∀ x n m, n ≤ m → Ext (f n x) (f m x)) (F : Nat) :
    ∀ (xs : List α) (s s' : St) (N : Nat), ChainAt f F xs s s' → F + xs.length ≤ N → SeqChain f N xs s s' := by
  intro xs
  induction xs with
  | nil => intro s s' N h _; exact (SeqChain_nil f N s s').2 h
  | cons x rest ih =>
    intro s s' N h hN
    obtain ⟨s1, h1, h2⟩ := h
    obtain ⟨M, rfl⟩ : ∃ M, N = M + 1 := ⟨N - 1, by simp only [List.length_cons] at hN; omega⟩
    simp only [List.length_cons] at hN
    refine (SeqChain_cons f M x rest s s').2 ⟨s1, ?_, ih s1 s' M h2 (by omega)⟩
    exact (hmono x F M (by omega)).apply h1 (by simp)

/-- **fail fast, at one fuel**: the elements `pre` end normally at fuel `F` (in order, state threaded), the
    next element ends at fuel `F` with `r` - neither `ok` nor out of fuel: then for EVERY budget
    `N ≥ F + pre.length + 1` the whole loop over `pre ++ x :: post` ends with exactly `(s1, r)`. -/
theorem seqRun_first_nonok_at {α : Type} (f : Nat → α → Body)
    (hmono : ∀ x n m, n ≤ m → Ext (f n x) (f m x)) (F : Nat) (pre post : List α) (x : α)
    (s s0 s1 : St) (r : Res) (hpre : ChainAt f F pre s s0) (hx : f F x s0 = (s1, r))
    (hr : r ≠ .ok) (hf : r ≠ .outOfFuel) (N : Nat) (hN : F + pre.length + 1 ≤ N) :
    seqRun f N (pre ++ x :: post) s = (s1, r) := by
  have hc := seqChain_of_chainAt f hmono F pre s s0 N hpre (by omega)
  exact seqRun_first_nonok f pre post x N s s0 s1 r hc (by omega)
    ((hmono x F (N - pre.length - 1) (by omega)).apply hx hf) hr

/-- all elements end normally at fuel `F` ⇒ the loop ends normally, in the chain's final state, for every
    budget `N > F + length`. -/
theorem seqRun_ok_at {α : Type} (f : Nat → α → Body)
    (hmono : ∀ x n m, n ≤ m → Ext (f n x) (f m x)) (F : Nat) (xs : List α) (s s' : St)
    (h : ChainAt f F xs s s') (N : Nat) (hN : F + xs.length < N) : seqRun f N xs s = (s', .ok) :=
  (seqRun_ok_iff f xs N s s').2 ⟨by omega, seqChain_of_chainAt f hmono F xs s s' N h (by omega)⟩

/-- `Step`s of a step list, each run with the same fuel `F`. -/
abbrev StepsChainAt (prog : Program) (pipe : String) (F : Nat) : List StepDef → St → St → Prop :=
  ChainAt (fun k d => runStep k prog pipe d) F

/-- groups of a group list, each run with the same fuel `F`. -/
abbrev GroupsChainAt (prog : Program) (pipe : String) (F : Nat) : List String → St → St → Prop :=
  ChainAt (fun k g => runStepGroup k prog pipe g false) F

end Pypyr.Flow
