/- C17: histories of (import | set configuration | run step) in one process — which encoding decodes a
   command's saved output. -/
import PypyrModel.Cmd

namespace Pypyr.Cmd

theorem cfgAfter_append (cfg : EncCfg) (a b : List HOp) :
    cfgAfter cfg (a ++ b) = cfgAfter (cfgAfter cfg a) b := by
  simp [cfgAfter, List.foldl_append]

theorem runHist_cons_run (cfg : EncCfg) (own : List (Option String)) (ops : List HOp) :
    runHist cfg (.run own :: ops) = own.map (encInForce cfg) :: runHist cfg ops := by
  simp [runHist]

theorem runHist_cons_other (cfg : EncCfg) (op : HOp) (ops : List HOp) (h : ∀ own, op ≠ .run own) :
    runHist cfg (op :: ops) = runHist (op.apply cfg) ops := by
  cases op with
  | run own => exact absurd rfl (h own)
  | imp m => simp [runHist]
  | setCmdEnc v => simp [runHist]
  | setFileEnc v => simp [runHist]

theorem apply_run (cfg : EncCfg) (own : List (Option String)) : (HOp.run own).apply cfg = cfg := rfl

theorem runHist_append (cfg : EncCfg) (a b : List HOp) :
    runHist cfg (a ++ b) = runHist cfg a ++ runHist (cfgAfter cfg a) b := by
  induction a generalizing cfg with
  | nil => simp [runHist, cfgAfter]
  | cons op a ih =>
    cases op with
    | run own => simp [runHist, ih, cfgAfter, HOp.apply]
    | imp m => simp [runHist, ih, cfgAfter, HOp.apply]
    | setCmdEnc v => simp [runHist, ih, cfgAfter, HOp.apply]
    | setFileEnc v => simp [runHist, ih, cfgAfter, HOp.apply]

/-- After `… setCmdEnc v …` with no later assignment of that setting, it holds `v` — whatever was there
    before, whatever was imported or run in between. -/
theorem cfgAfter_last_set (cfg : EncCfg) (pre mid : List HOp) (v : Option String)
    (hmid : ∀ o ∈ mid, o.setsCmdEnc = false) :
    (cfgAfter cfg (pre ++ .setCmdEnc v :: mid)).cmdEnc = v := by
  rw [cfgAfter_append]
  generalize cfgAfter cfg pre = c
  show (cfgAfter ((HOp.setCmdEnc v).apply c) mid).cmdEnc = v
  have : ∀ (c' : EncCfg), c'.cmdEnc = v → (cfgAfter c' mid).cmdEnc = v := by
    induction mid with
    | nil => intro c' h; simpa [cfgAfter] using h
    | cons o mid ih =>
      intro c' h
      have ho := hmid o (by simp)
      have : (cfgAfter c' (o :: mid)) = cfgAfter (o.apply c') mid := by simp [cfgAfter]
      rw [this]
      apply ih (fun o' h' => hmid o' (by simp [h']))
      cases o <;> simp_all [HOp.apply, HOp.setsCmdEnc]
  exact this _ rfl

/-- Imports never matter: removing (or adding) them anywhere leaves every run's encodings unchanged. -/
theorem runHist_imports_irrelevant (cfg : EncCfg) (ops : List HOp) :
    runHist cfg (ops.filter (fun o => !o.isImp)) = runHist cfg ops := by
  induction ops generalizing cfg with
  | nil => rfl
  | cons op ops ih =>
    cases op with
    | run own =>
      rw [List.filter_cons_of_pos (by rfl)]
      simp only [runHist, ih]
    | imp m =>
      rw [List.filter_cons_of_neg (by simp [HOp.isImp])]
      simp only [runHist, HOp.apply, ih]
    | setCmdEnc v =>
      rw [List.filter_cons_of_pos (by rfl)]
      simp only [runHist, ih]
    | setFileEnc v =>
      rw [List.filter_cons_of_pos (by rfl)]
      simp only [runHist, ih]

/-- The file-encoding setting never matters for command output. -/
theorem runHist_fileEnc_irrelevant (cfg : EncCfg) (f : Option String) (ops : List HOp) :
    runHist { cfg with fileEnc := f } ops = runHist cfg ops := by
  induction ops generalizing cfg f with
  | nil => rfl
  | cons op ops ih =>
    cases op with
    | run own =>
      simp [runHist, ih, encInForce]
    | imp m => simpa [runHist, HOp.apply] using ih cfg f
    | setCmdEnc v => simpa [runHist, HOp.apply] using ih { cfg with cmdEnc := v } f
    | setFileEnc v =>
      simp only [runHist, HOp.apply]

end Pypyr.Cmd
