/-
  C06 helper lemmas, strategies: the stateful deque of `fixed` / `jitter` (the last entry repeats),
  `linear`, `exponential`, which strategies draw a random number, and the closed form of the
  whole schedule (`OpBackoff.schedule`, the function the correspondence harness runs against
  the real classes of `pypyr.retries`) for the strategies without jitter.
-/
import Props.Lemmas.C06_Num
import Driver.OpBackoff

namespace Pypyr
open Pypyr.OpBackoff (schedule rndAfter stateAfter)

/-! ### the deque of `fixed` -/

theorem lastOf_eq_getD (x : Num) (xs : List Num) (d : Num) : lastOf x xs = (x :: xs).getD xs.length d := by
  induction xs generalizing x with
  | nil => rfl
  | cons y ys ih => rw [lastOf, ih y]; rfl

/-- the entry the `fixed` strategy uses for its `(i+1)`-th call: the last one repeats. -/
def listEntry (l : List Num) (i : Nat) : Num := l.getD (min i (l.length - 1)) numZero

theorem listEntry_lt (l : List Num) (i : Nat) (h : i < l.length) : listEntry l i = l[i] := by
  unfold listEntry
  have : min i (l.length - 1) = i := by omega
  rw [this, List.getD_eq_getElem?_getD, List.getElem?_eq_getElem h]; rfl

theorem listEntry_ge (x : Num) (xs : List Num) (i : Nat) (h : (x :: xs).length ≤ i) :
    listEntry (x :: xs) i = lastOf x xs := by
  unfold listEntry
  have : min i ((x :: xs).length - 1) = xs.length := by simp only [List.length_cons] at *; omega
  rw [this, lastOf_eq_getD x xs numZero]

/-- One call of `fixed.__call__` when `i` entries of the list `l` have been popped already. -/
theorem fixedCall_drop (b : BackoffState) (x : Num) (xs : List Num) (i : Nat)
    (hq : b.queue = (x :: xs).drop i) (hf : b.fixedSleep = capSleep b.maxSleep (lastOf x xs)) :
    fixedCall b = (capSleep b.maxSleep (listEntry (x :: xs) i), { b with queue := (x :: xs).drop (i + 1) }) := by
  unfold fixedCall
  by_cases h : i < (x :: xs).length
  · rw [List.drop_eq_getElem_cons h] at hq
    rw [hq, listEntry_lt _ _ h]
  · have hle : (x :: xs).length ≤ i := Nat.le_of_not_lt h
    rw [List.drop_eq_nil_of_le hle] at hq
    have : (x :: xs).drop (i + 1) = [] := List.drop_eq_nil_of_le (by omega)
    rw [hq, listEntry_ge x xs i hle, this]
    obtain ⟨kind, sl, q, fs, ms, j, ba⟩ := b
    simp only at hq hf ⊢
    subst hq hf
    rfl

/-- The callable's state after `baseInterval` was called for `n = 1, …, i`. -/
def afterCalls (b : BackoffState) : Nat → BackoffState
  | 0 => b
  | i + 1 => (baseInterval (afterCalls b i) (i + 1)).2

theorem baseInterval_fixed (b : BackoffState) (n : Nat) (hk : b.kind = .fixed ∨ b.kind = .jitter) :
    baseInterval b n = fixedCall b := by
  unfold baseInterval; rcases hk with h | h <;> rw [h]

theorem mkBackoff_list (kind : BackoffKind) (s : Num) (x : Num) (xs : List Num) (ms : Option Num) (jrc base : Num)
    (hk : kind = .fixed ∨ kind = .jitter) :
    mkBackoff kind s (some (x :: xs)) ms jrc base =
      { kind := kind, sleep := s, queue := x :: xs, fixedSleep := capSleep ms (lastOf x xs),
        maxSleep := ms, jrc := jrc, base := base } := by
  rcases hk with h | h <;> subst h <;> rfl

theorem mkBackoff_scalar (kind : BackoffKind) (s : Num) (ms : Option Num) (jrc base : Num) :
    mkBackoff kind s none ms jrc base =
      { kind := kind, sleep := s, queue := [], fixedSleep := capSleep ms s,
        maxSleep := ms, jrc := jrc, base := base } := by
  cases kind <;> rfl

theorem afterCalls_list (kind : BackoffKind) (s : Num) (x : Num) (xs : List Num) (ms : Option Num) (jrc base : Num)
    (hk : kind = .fixed ∨ kind = .jitter) (i : Nat) :
    afterCalls (mkBackoff kind s (some (x :: xs)) ms jrc base) i =
      { mkBackoff kind s (some (x :: xs)) ms jrc base with queue := (x :: xs).drop i } := by
  induction i with
  | zero => rw [mkBackoff_list _ _ _ _ _ _ _ hk]; rfl
  | succ i ih =>
    rw [afterCalls, ih, baseInterval_fixed _ _ (by rw [mkBackoff_list _ _ _ _ _ _ _ hk]; exact hk)]
    rw [fixedCall_drop _ x xs i (by rfl) (by rw [mkBackoff_list _ _ _ _ _ _ _ hk])]

theorem afterCalls_scalar (kind : BackoffKind) (s : Num) (ms : Option Num) (jrc base : Num) (i : Nat) :
    afterCalls (mkBackoff kind s none ms jrc base) i = mkBackoff kind s none ms jrc base := by
  induction i with
  | zero => rfl
  | succ i ih =>
    rw [afterCalls, ih, mkBackoff_scalar]
    cases kind <;> rfl

/-- `fixed` with a list: the `(i+1)`-th call returns the capped `l[min i (len-1)]`. -/
theorem fixed_list_nth (kind : BackoffKind) (s : Num) (x : Num) (xs : List Num) (ms : Option Num) (jrc base : Num)
    (hk : kind = .fixed ∨ kind = .jitter) (i : Nat) :
    (baseInterval (afterCalls (mkBackoff kind s (some (x :: xs)) ms jrc base) i) (i + 1)).1 =
      capSleep ms (listEntry (x :: xs) i) := by
  rw [afterCalls_list _ _ _ _ _ _ _ hk, baseInterval_fixed _ _ (by rw [mkBackoff_list _ _ _ _ _ _ _ hk]; exact hk)]
  rw [fixedCall_drop _ x xs i (by rfl) (by rw [mkBackoff_list _ _ _ _ _ _ _ hk])]
  rw [mkBackoff_list _ _ _ _ _ _ _ hk]

/-- `fixed` with a number: every call returns the capped number. -/
theorem fixed_scalar_nth (kind : BackoffKind) (s : Num) (ms : Option Num) (jrc base : Num)
    (hk : kind = .fixed ∨ kind = .jitter) (i n : Nat) :
    (baseInterval (afterCalls (mkBackoff kind s none ms jrc base) i) n).1 = capSleep ms s := by
  rw [afterCalls_scalar, mkBackoff_scalar]
  rcases hk with h | h <;> subst h <;> rfl

/-! ### linear, exponential -/

theorem baseInterval_linear (b : BackoffState) (n : Nat) (hk : b.kind = .linear ∨ b.kind = .linearjitter) :
    baseInterval b n = (capSleep b.maxSleep ((Num.ofNat n).mul b.sleep), b) := by
  unfold baseInterval; rcases hk with h | h <;> rw [h]

theorem baseInterval_exponential (b : BackoffState) (n : Nat)
    (hk : b.kind = .exponential ∨ b.kind = .exponentialjitter) :
    baseInterval b n = (capSleep b.maxSleep ((b.base.pow n).mul b.sleep), b) := by
  unfold baseInterval; rcases hk with h | h <;> rw [h]

theorem baseInterval_kind (b : BackoffState) (n : Nat) : (baseInterval b n).2.kind = b.kind := by
  unfold baseInterval fixedCall
  cases hk : b.kind <;> simp only [] <;> first | exact hk | (split <;> simp_all)

theorem afterCalls_kind (b : BackoffState) (i : Nat) : (afterCalls b i).kind = b.kind := by
  induction i with
  | zero => rfl
  | succ i ih => rw [afterCalls, baseInterval_kind, ih]

theorem baseInterval_state_nonlist (b : BackoffState) (n : Nat)
    (hk : ¬ (b.kind = .fixed ∨ b.kind = .jitter)) : (baseInterval b n).2 = b := by
  unfold baseInterval
  cases h : b.kind <;> simp_all

theorem afterCalls_nonlist (b : BackoffState) (i : Nat) (hk : ¬ (b.kind = .fixed ∨ b.kind = .jitter)) :
    afterCalls b i = b := by
  induction i with
  | zero => rfl
  | succ i ih => rw [afterCalls, ih, baseInterval_state_nonlist _ _ hk]

/-! ### `interval`: jitter on the capped duration, one random number per jitter call -/

theorem interval_nonjitter (b : BackoffState) (n : Nat) (rs : List Num) (hj : b.kind.isJitter = false) :
    interval b n rs = ((baseInterval b n).1, (baseInterval b n).2, rs) := by
  unfold interval; simp [hj]

theorem interval_jitter (b : BackoffState) (n : Nat) (r : Num) (rs : List Num) (hj : b.kind.isJitter = true) :
    interval b n (r :: rs) = (randomize b.jrc (baseInterval b n).1 r, (baseInterval b n).2, rs) := by
  unfold interval; simp [hj]

theorem interval_state (b : BackoffState) (n : Nat) (rs : List Num) :
    (interval b n rs).2.1 = (baseInterval b n).2 := by
  unfold interval
  simp only []
  split
  · split <;> rfl
  · rfl

theorem interval_rnd (b : BackoffState) (n : Nat) (rs : List Num) :
    (interval b n rs).2.2 = if b.kind.isJitter then rs.drop 1 else rs := by
  unfold interval
  simp only []
  split
  · split <;> rfl
  · rfl

/-! ### the whole schedule -/

theorem schedule_snoc (b : BackoffState) (rs : List Num) (k n : Nat) :
    schedule b rs k (n + 1) =
      schedule b rs k n ++ [(interval (stateAfter b rs k n) (k + n) (rndAfter b rs k n)).1] := by
  induction n generalizing b rs k with
  | zero => simp [schedule, stateAfter, rndAfter]
  | succ n ih =>
    rw [schedule, ih]
    simp only [schedule, stateAfter, rndAfter, List.cons_append]
    have : k + 1 + n = k + (n + 1) := by omega
    rw [this]

theorem stateAfter_snoc (b : BackoffState) (rs : List Num) (k n : Nat) :
    stateAfter b rs k (n + 1) = (interval (stateAfter b rs k n) (k + n) (rndAfter b rs k n)).2.1 := by
  induction n generalizing b rs k with
  | zero => simp [stateAfter, rndAfter]
  | succ n ih =>
    rw [stateAfter, ih]
    simp only [stateAfter, rndAfter]
    have : k + 1 + n = k + (n + 1) := by omega
    rw [this]

theorem rndAfter_snoc (b : BackoffState) (rs : List Num) (k n : Nat) :
    rndAfter b rs k (n + 1) = (interval (stateAfter b rs k n) (k + n) (rndAfter b rs k n)).2.2 := by
  induction n generalizing b rs k with
  | zero => simp [stateAfter, rndAfter]
  | succ n ih =>
    rw [rndAfter, ih]
    simp only [stateAfter, rndAfter]
    have : k + 1 + n = k + (n + 1) := by omega
    rw [this]

theorem schedule_length (b : BackoffState) (rs : List Num) (k n : Nat) : (schedule b rs k n).length = n := by
  induction n generalizing b rs k with
  | zero => rfl
  | succ n ih => simp [schedule, ih]

/-- the callable's own state does not depend on the random numbers. -/
theorem stateAfter_eq_afterCalls (b : BackoffState) (rs : List Num) (n : Nat) :
    stateAfter b rs 1 n = afterCalls b n := by
  induction n with
  | zero => rfl
  | succ n ih => rw [stateAfter_snoc, interval_state, ih, afterCalls, Nat.add_comm 1 n]

/-- a jitter strategy has used exactly `n` random numbers after `n` calls, any other strategy none. -/
theorem rndAfter_eq (b : BackoffState) (rs : List Num) (n : Nat) :
    rndAfter b rs 1 n = if b.kind.isJitter then rs.drop n else rs := by
  induction n with
  | zero => simp [rndAfter]
  | succ n ih =>
    rw [rndAfter_snoc, interval_rnd, stateAfter_eq_afterCalls, afterCalls_kind, ih]
    split
    · rw [List.drop_drop]
    · rfl

/-- Closed form of the schedule: call `i+1` is made on the state left by the calls before it
    and, for a jitter strategy, with the `(i+1)`-th random number. -/
theorem schedule_eq_map (b : BackoffState) (rs : List Num) (n : Nat) :
    schedule b rs 1 n =
      (List.range n).map fun i =>
        (interval (afterCalls b i) (i + 1) (if b.kind.isJitter then rs.drop i else rs)).1 := by
  induction n with
  | zero => rfl
  | succ n ih =>
    rw [schedule_snoc, ih, List.range_succ, List.map_append, stateAfter_eq_afterCalls, rndAfter_eq,
      Nat.add_comm 1 n]
    rfl

theorem schedule_nonjitter (b : BackoffState) (rs : List Num) (n : Nat) (hj : b.kind.isJitter = false) :
    schedule b rs 1 n = (List.range n).map fun i => (baseInterval (afterCalls b i) (i + 1)).1 := by
  rw [schedule_eq_map]
  apply List.map_congr_left
  intro i _
  rw [interval_nonjitter _ _ _ (by rw [afterCalls_kind]; exact hj)]

/-! ### no interval of the schedule is negative (what `time.sleep` requires) -/

theorem baseInterval_jrc (b : BackoffState) (n : Nat) : (baseInterval b n).2.jrc = b.jrc := by
  unfold baseInterval fixedCall
  cases b.kind <;> simp only [] <;> first | rfl | (split <;> rfl)

theorem afterCalls_jrc (b : BackoffState) (i : Nat) : (afterCalls b i).jrc = b.jrc := by
  induction i with
  | zero => rfl
  | succ i ih => rw [afterCalls, baseInterval_jrc, ih]

theorem lastOf_mem (x : Num) (xs : List Num) : lastOf x xs ∈ x :: xs := by
  induction xs generalizing x with
  | nil => exact List.mem_cons_self ..
  | cons y ys ih => rw [lastOf]; exact List.mem_cons_of_mem _ (ih y)

theorem listEntry_mem (x : Num) (xs : List Num) (i : Nat) : listEntry (x :: xs) i ∈ x :: xs := by
  by_cases h : i < (x :: xs).length
  · rw [listEntry_lt _ _ h]; exact List.getElem_mem h
  · rw [listEntry_ge x xs i (Nat.le_of_not_lt h)]; exact lastOf_mem x xs

/-- one call: a non-negative un-jittered duration stays non-negative under jitter with `0 ≤ jrc` and a
    fraction in `[0, 1]` (an exhausted script gives the fraction 0). -/
theorem interval_n_nonneg (b : BackoffState) (n : Nat) (rs : List Num)
    (hd : 0 ≤ (baseInterval b n).1.n)
    (hj : b.kind.isJitter = true → 0 ≤ b.jrc.n ∧ ∀ r ∈ rs, 0 ≤ r.toRat ∧ r.toRat ≤ 1) :
    0 ≤ (interval b n rs).1.n := by
  by_cases hk : b.kind.isJitter = true
  · obtain ⟨hj0, hr⟩ := hj hk
    cases rs with
    | nil =>
      have : interval b n [] = (randomize b.jrc (baseInterval b n).1 numZero, (baseInterval b n).2, []) := by
        unfold interval; simp [hk]
      rw [this]
      exact randomize_n_nonneg _ _ _ hj0 hd (by rw [Num.toRat_zero]) (by rw [Num.toRat_zero]; exact zero_le_one)
    | cons r rest =>
      rw [interval_jitter b n r rest hk]
      obtain ⟨h0, h1⟩ := hr r (List.mem_cons_self ..)
      exact randomize_n_nonneg _ _ _ hj0 hd h0 h1
  · rw [interval_nonjitter b n rs (by simpa using hk)]; exact hd

/-- the whole schedule: if every un-jittered (capped) duration is non-negative, and - for a jitter
    strategy - `0 ≤ jrc` and every scripted fraction is in `[0, 1]`, then every interval is non-negative. -/
theorem schedule_n_nonneg_of_base (bo : BackoffState) (rs : List Num)
    (hbase : ∀ i, 0 ≤ (baseInterval (afterCalls bo i) (i + 1)).1.n)
    (hj : bo.kind.isJitter = true → 0 ≤ bo.jrc.n ∧ ∀ r ∈ rs, 0 ≤ r.toRat ∧ r.toRat ≤ 1) :
    ∀ i, 0 ≤ (interval (stateAfter bo rs 1 i) (i + 1) (rndAfter bo rs 1 i)).1.n := by
  intro i
  rw [stateAfter_eq_afterCalls, rndAfter_eq]
  apply interval_n_nonneg _ _ _ (hbase i)
  rw [afterCalls_kind, afterCalls_jrc]
  intro hk
  obtain ⟨hj0, hr⟩ := hj hk
  refine ⟨hj0, ?_⟩
  rw [if_pos hk]
  intro r hr'
  exact hr r (List.mem_of_mem_drop hr')

theorem mkBackoff_kind (kind : BackoffKind) (s : Num) (sl : Option (List Num)) (ms : Option Num) (jrc base : Num) :
    (mkBackoff kind s sl ms jrc base).kind = kind ∧ (mkBackoff kind s sl ms jrc base).jrc = jrc := by
  unfold mkBackoff; split <;> exact ⟨rfl, rfl⟩

/-- **fixed / jitter with a number**: `0 ≤ sleep`, `0 ≤ sleepMax` (if given), and for jitter `0 ≤ jrc` and
    fractions in `[0, 1]` ⇒ no interval is negative. -/
theorem schedule_n_nonneg_fixed_scalar (kind : BackoffKind) (s : Num) (ms : Option Num) (jrc base : Num)
    (rs : List Num) (hk : kind = .fixed ∨ kind = .jitter)
    (hs : 0 ≤ s.n) (hm : ∀ m, ms = some m → 0 ≤ m.n)
    (hj : kind = .jitter → 0 ≤ jrc.n ∧ ∀ r ∈ rs, 0 ≤ r.toRat ∧ r.toRat ≤ 1) :
    ∀ i, 0 ≤ (interval (stateAfter (mkBackoff kind s none ms jrc base) rs 1 i) (i + 1)
      (rndAfter (mkBackoff kind s none ms jrc base) rs 1 i)).1.n := by
  apply schedule_n_nonneg_of_base
  · intro i
    rw [fixed_scalar_nth kind s ms jrc base hk i (i + 1)]
    exact capSleep_n_nonneg ms s hs hm
  · rw [(mkBackoff_kind kind s none ms jrc base).1, (mkBackoff_kind kind s none ms jrc base).2]
    intro hjk
    apply hj
    rcases hk with h | h <;> subst h
    · cases hjk
    · rfl

/-- **fixed / jitter with a list**: every entry `≥ 0`, … ⇒ no interval is negative. -/
theorem schedule_n_nonneg_fixed_list (kind : BackoffKind) (s x : Num) (xs : List Num) (ms : Option Num)
    (jrc base : Num) (rs : List Num) (hk : kind = .fixed ∨ kind = .jitter)
    (hl : ∀ y ∈ x :: xs, 0 ≤ y.n) (hm : ∀ m, ms = some m → 0 ≤ m.n)
    (hj : kind = .jitter → 0 ≤ jrc.n ∧ ∀ r ∈ rs, 0 ≤ r.toRat ∧ r.toRat ≤ 1) :
    ∀ i, 0 ≤ (interval (stateAfter (mkBackoff kind s (some (x :: xs)) ms jrc base) rs 1 i) (i + 1)
      (rndAfter (mkBackoff kind s (some (x :: xs)) ms jrc base) rs 1 i)).1.n := by
  apply schedule_n_nonneg_of_base
  · intro i
    rw [fixed_list_nth kind s x xs ms jrc base hk i]
    exact capSleep_n_nonneg ms _ (hl _ (listEntry_mem x xs i)) hm
  · rw [(mkBackoff_kind kind s _ ms jrc base).1, (mkBackoff_kind kind s _ ms jrc base).2]
    intro hjk
    apply hj
    rcases hk with h | h <;> subst h
    · cases hjk
    · rfl

/-- **linear / linearjitter**: `0 ≤ sleep`, … ⇒ no interval is negative. -/
theorem schedule_n_nonneg_linear (kind : BackoffKind) (s : Num) (ms : Option Num) (jrc base : Num)
    (rs : List Num) (hk : kind = .linear ∨ kind = .linearjitter)
    (hs : 0 ≤ s.n) (hm : ∀ m, ms = some m → 0 ≤ m.n)
    (hj : kind = .linearjitter → 0 ≤ jrc.n ∧ ∀ r ∈ rs, 0 ≤ r.toRat ∧ r.toRat ≤ 1) :
    ∀ i, 0 ≤ (interval (stateAfter (mkBackoff kind s none ms jrc base) rs 1 i) (i + 1)
      (rndAfter (mkBackoff kind s none ms jrc base) rs 1 i)).1.n := by
  apply schedule_n_nonneg_of_base
  · intro i
    rw [afterCalls_scalar, baseInterval_linear _ _ (by rw [mkBackoff_scalar]; exact hk), mkBackoff_scalar]
    exact capSleep_n_nonneg ms _ (Num.mul_n_nonneg _ _ (Num.ofNat_n_nonneg _) hs) hm
  · rw [(mkBackoff_kind kind s none ms jrc base).1, (mkBackoff_kind kind s none ms jrc base).2]
    intro hjk
    apply hj
    rcases hk with h | h <;> subst h
    · cases hjk
    · rfl

/-- **exponential / exponentialjitter**: `0 ≤ sleep`, `0 ≤ base`, … ⇒ no interval is negative. -/
theorem schedule_n_nonneg_exponential (kind : BackoffKind) (s : Num) (ms : Option Num) (jrc base : Num)
    (rs : List Num) (hk : kind = .exponential ∨ kind = .exponentialjitter)
    (hs : 0 ≤ s.n) (hb : 0 ≤ base.n) (hm : ∀ m, ms = some m → 0 ≤ m.n)
    (hj : kind = .exponentialjitter → 0 ≤ jrc.n ∧ ∀ r ∈ rs, 0 ≤ r.toRat ∧ r.toRat ≤ 1) :
    ∀ i, 0 ≤ (interval (stateAfter (mkBackoff kind s none ms jrc base) rs 1 i) (i + 1)
      (rndAfter (mkBackoff kind s none ms jrc base) rs 1 i)).1.n := by
  apply schedule_n_nonneg_of_base
  · intro i
    rw [afterCalls_scalar, baseInterval_exponential _ _ (by rw [mkBackoff_scalar]; exact hk), mkBackoff_scalar]
    exact capSleep_n_nonneg ms _ (Num.mul_n_nonneg _ _ (Num.pow_n_nonneg _ hb _) hs) hm
  · rw [(mkBackoff_kind kind s none ms jrc base).1, (mkBackoff_kind kind s none ms jrc base).2]
    intro hjk
    apply hj
    rcases hk with h | h <;> subst h
    · cases hjk
    · rfl

end Pypyr
