/-
  C14 helper: the two instances of the invariant principle (what the `!py` arrangement as it is now and
  the `pypyr.steps.py` arrangement cannot touch) and unfolding lemmas for `load`.
-/
import Props.Lemmas.C14_Stmt

namespace Pypyr.PyNs

/-! ### the table of namespace objects -/

theorem nsGet_nsSet_same (t : NsTab) (k : Nat) (r : NsRec) : nsGet (nsSet t k r) k = some r := by
  induction t with
  | nil => simp [nsSet, nsGet]
  | cons p rest ih =>
    obtain ⟨k', r'⟩ := p
    simp only [nsSet]
    split
    · simp [nsGet]
    · rename_i h; simp [nsGet, h, ih]

theorem nsGet_nsSet_other (t : NsTab) (k j : Nat) (r : NsRec) (h : k ≠ j) : nsGet (nsSet t k r) j = nsGet t j := by
  induction t with
  | nil => simp [nsSet, nsGet, h]
  | cons p rest ih =>
    obtain ⟨k', r'⟩ := p
    simp only [nsSet]
    split
    · rename_i h2; subst h2; simp [nsGet, h]
    · rename_i h2; simp only [nsGet, ih]

@[simp] theorem St.own_setOwn (st : St) (e : Env) : (st.setOwn e).own = e := by
  simp only [St.own, St.setOwn, nsGet_nsSet_same]
  split <;> rfl

@[simp] theorem St.own_enter (st : St) (a : Arr) (o : Env) : (st.enter a o).own = o := by
  simp only [St.own, St.enter, nsGet_nsSet_same]

@[simp] theorem St.setOwn_ctx (st : St) (e : Env) : (st.setOwn e).ctx = st.ctx := rfl
@[simp] theorem St.setOwn_imps (st : St) (e : Env) : (st.setOwn e).imps = st.imps := rfl
@[simp] theorem St.setOwn_bi (st : St) (e : Env) : (st.setOwn e).bi = st.bi := rfl
@[simp] theorem St.setOwn_heap (st : St) (e : Env) : (st.setOwn e).heap = st.heap := rfl
@[simp] theorem St.setOwn_cur (st : St) (e : Env) : (st.setOwn e).cur = st.cur := rfl

@[simp] theorem St.enter_ctx (st : St) (a : Arr) (o : Env) : (st.enter a o).ctx = st.ctx := rfl
@[simp] theorem St.enter_imps (st : St) (a : Arr) (o : Env) : (st.enter a o).imps = st.imps := rfl
@[simp] theorem St.enter_bi (st : St) (a : Arr) (o : Env) : (st.enter a o).bi = st.bi := rfl
@[simp] theorem St.enter_heap (st : St) (a : Arr) (o : Env) : (st.enter a o).heap = st.heap := rfl
@[simp] theorem St.enter_hidden (st : St) (a : Arr) (o : Env) : (st.enter a o).hidden = st.hidden := rfl
@[simp] theorem St.enter_saved (st : St) (a : Arr) (o : Env) : (st.enter a o).saved = st.saved := rfl
@[simp] theorem St.enter_cur (st : St) (a : Arr) (o : Env) : (st.enter a o).cur = st.next := rfl
@[simp] theorem St.retire_ctx (st : St) (k c : Nat) : (st.retire k c).ctx = st.ctx := rfl
@[simp] theorem St.retire_imps (st : St) (k c : Nat) : (st.retire k c).imps = st.imps := rfl
@[simp] theorem St.retire_bi (st : St) (k c : Nat) : (st.retire k c).bi = st.bi := rfl
@[simp] theorem St.retire_heap (st : St) (k c : Nat) : (st.retire k c).heap = st.heap := rfl
@[simp] theorem St.retire_hidden (st : St) (k c : Nat) : (st.retire k c).hidden = st.hidden := rfl
@[simp] theorem St.retire_saved (st : St) (k c : Nat) : (st.retire k c).saved = st.saved := rfl
@[simp] theorem St.retire_cur (st : St) (k c : Nat) : (st.retire k c).cur = c := rfl
@[simp] theorem St.setCur_ctx (st : St) (k : Nat) : (st.setCur k).ctx = st.ctx := rfl
@[simp] theorem St.setCur_imps (st : St) (k : Nat) : (st.setCur k).imps = st.imps := rfl
@[simp] theorem St.setCur_bi (st : St) (k : Nat) : (st.setCur k).bi = st.bi := rfl
@[simp] theorem St.setCur_heap (st : St) (k : Nat) : (st.setCur k).heap = st.heap := rfl
@[simp] theorem St.setCur_cur (st : St) (k : Nat) : (st.setCur k).cur = k := rfl
@[simp] theorem St.setCur_nss (st : St) (k : Nat) : (st.setCur k).nss = st.nss := rfl

/-- The own dict of the running code after a switch to namespace object `j`. -/
theorem St.own_setCur (st : St) (j : Nat) (r : NsRec) (h : nsGet st.nss j = some r) :
    (st.setCur j).own = r.own := by
  simp only [St.own, St.setCur, h]

/-- Namespace objects other than the running code's are not touched by its own-dict writes. -/
theorem St.nsGet_setOwn_other (st : St) (e : Env) (j : Nat) (h : st.cur ≠ j) :
    nsGet (st.setOwn e).nss j = nsGet st.nss j := by
  simp only [St.setOwn]; exact nsGet_nsSet_other _ _ _ _ h

/-! ### `!py` (arrangement NOW) and py steps: only namespace objects' own dicts, `cur` and the heap
    can change (a py step's `save` aside) -/

/-- Everything of the state that is not a namespace object, the current-namespace pointer or the
    heap. -/
def St.evalRest (st : St) : Env × Env × Env × Env × Env :=
  (st.ctx, st.imps, st.hidden, st.bi, st.saved)

theorem inv_evalFixed (t : Env × Env × Env × Env × Env) :
    Inv (fun st => st.evalRest = t) where
  heap := fun _ _ hp => hp
  cur := fun _ _ hp => hp
  own := fun _ _ hp => hp

/-- Any expression, in any scope, from any state, with any fuel, under either live arrangement
    (also: whatever function / generator objects of earlier runs it calls or pulls): context,
    imports, the per-Context namespace object's raw slot, builtins and the save log are untouched. -/
theorem evalExpr_live_rest {a : Arr} (ha : a.live) (fuel : Nat) (sc : Scope) (e : Expr) (st : St) :
    (evalExpr a fuel sc e st).2.evalRest = st.evalRest :=
  (eval_inv (inv_evalFixed st.evalRest) fuel).1 a ha sc e st rfl

theorem evalExpr_evalFixed_rest (fuel : Nat) (sc : Scope) (e : Expr) (st : St) :
    (evalExpr .evalFixed fuel sc e st).2.evalRest = st.evalRest :=
  evalExpr_live_rest Arr.live_evalFixed fuel sc e st

theorem pullGen_live_rest {a : Arr} (ha : a.live) (fuel : Nat) (r : Nat) (st : St) :
    (pullGen a fuel r st).2.evalRest = st.evalRest :=
  (eval_inv (inv_evalFixed st.evalRest) fuel).2.2.2.2.2.2.2.1 a ha r st rfl

/-- A state is determined by its fields. -/
theorem St.ext' (s t : St) (h1 : s.evalRest = t.evalRest) (h2 : s.nss = t.nss)
    (h3 : s.heap = t.heap) (h4 : s.cur = t.cur) (h5 : s.next = t.next) : s = t := by
  cases s; cases t
  simp only [St.evalRest, Prod.mk.injEq] at h1
  simp only [] at h2 h3 h4 h5
  obtain ⟨a, b, c, d, e⟩ := h1
  subst a b c d e h2 h3 h4 h5
  rfl

/-- Under the arrangement NOW the module-level lookup (LOAD_NAME) and the nested-scope lookup
    (LOAD_GLOBAL) are the same function: own dict, context, imports, builtins. -/
theorem loadName_evalFixed (st : St) (x : String) :
    loadName .evalFixed st x = loadGlobal .evalFixed st x := by
  simp only [loadName, loadGlobal, localsGetItem, globalsGetItem, globalsRaw]
  cases st.own.get? x <;> cases st.ctx.get? x <;> cases st.imps.get? x <;> rfl

theorem loadGlobal_evalFixed (st : St) (x : String) :
    loadGlobal .evalFixed st x =
      orElse (st.own.get? x) (orElse (st.ctx.get? x) (orElse (st.imps.get? x) (st.bi.get? x))) := by
  simp only [loadGlobal, globalsGetItem]
  cases st.own.get? x <;> cases st.ctx.get? x <;> cases st.imps.get? x <;> rfl

theorem ownInit_get? (x : String) :
    ownInit.get? x = if "__builtins__" = x then some builtinsTok else Option.none := by
  simp only [ownInit, Env.get?]

theorem ownInit_get?_of_ne (x : String) (h : x ≠ "__builtins__") : ownInit.get? x = Option.none := by
  rw [ownInit_get?, if_neg (Ne.symm h)]

/-! ### py step: only `ns`, the heap, and — through `save` — `ctx`/`saved` can change -/

/-- `st` differs from `st0` outside `ns`/heap only by `save` calls: the ghost log grew by `log`, the
    context is the old one `dict.update`d with `log`, and every logged key is one of `K`. -/
def SavedSince (K : List String) (st0 st : St) : Prop :=
  ∃ log : Env, st.saved = st0.saved ++ log ∧ st.ctx = st0.ctx.update log ∧
    (∀ k ∈ Env.keys log, k ∈ K) ∧
    st.imps = st0.imps ∧ st.hidden = st0.hidden ∧ st.bi = st0.bi

theorem SavedSince.refl (K : List String) (st : St) : SavedSince K st st :=
  ⟨[], by simp, rfl, by simp [Env.keys], rfl, rfl, rfl⟩

theorem invS_exec (K : List String) (st0 : St) : InvS K (SavedSince K st0) where
  base := {
    heap := fun _ _ hp => hp
    cur := fun _ _ hp => hp
    own := fun _ _ hp => hp }
  save := by
    intro st d hd hp
    obtain ⟨log, h1, h2, h3, h4, h5, h7⟩ := hp
    refine ⟨log ++ d, ?_, ?_, ?_, h4, h5, h7⟩
    · simp only [doSave, h1, List.append_assoc]
    · simp only [doSave, h2, Env.update_append]
    · intro k hk
      rw [Env.keys_append, List.mem_append] at hk
      rcases hk with hk | hk
      · exact h3 k hk
      · exact hd k hk

/-- Any block, any fuel, any scope, any state: under `exec(src, d)` the state outside `d` and the
    heap changes only by the block's `save(...)` calls. -/
theorem execBlock_exec_saved (fuel : Nat) (sc : Scope) (b : List Stmt) (st : St) :
    SavedSince (blockSaveKeys b) st (execBlock .exec fuel sc b st).2 :=
  (invS_exec (blockSaveKeys b) st).execBlock' Arr.live_exec fuel sc b st (fun _ hk => hk) (SavedSince.refl _ st)

/-- Expressions alone never `save`. -/
theorem evalExpr_exec_saved (fuel : Nat) (sc : Scope) (e : Expr) (st : St) :
    SavedSince [] st (evalExpr .exec fuel sc e st).2 :=
  (eval_inv (invS_exec [] st).base fuel).1 .exec Arr.live_exec sc e st (SavedSince.refl _ st)

theorem SavedSince.nil {st0 st : St} (h : SavedSince [] st0 st) :
    st.ctx = st0.ctx ∧ st.saved = st0.saved ∧ st.imps = st0.imps ∧ st.bi = st0.bi := by
  obtain ⟨log, h1, h2, h3, h4, _, h7⟩ := h
  have : log = [] := by
    cases log with
    | nil => rfl
    | cons p rest => exact absurd (h3 p.1 (by simp [Env.keys])) (by simp)
  subst this
  exact ⟨h2, by simpa using h1, h4, h7⟩

/-! ### name reads -/

theorem optRes_some (v : V) : optRes (some v) = .ok v := rfl

/-- The dict the py step builds: a context key other than the two injected names reads as in the
    context. -/
theorem pyStepNs_get? (ctx : Env) (x : String) (h1 : x ≠ "__builtins__") (h2 : x ≠ "save") :
    (pyStepNs ctx).get? x = ctx.get? x := by
  unfold pyStepNs
  rw [Env.get?_set_other _ _ _ _ (Ne.symm h2), Env.get?_set_other _ _ _ _ (Ne.symm h1)]

theorem pyStepNs_save (ctx : Env) : (pyStepNs ctx).get? "save" = some saveTok := by
  unfold pyStepNs; rw [Env.get?_set_same]

theorem pyStepNs_builtins (ctx : Env) : (pyStepNs ctx).get? "__builtins__" = some builtinsTok := by
  unfold pyStepNs
  rw [Env.get?_set_other _ _ _ _ (by decide), Env.get?_set_same]

/-- A read that the lexical frames do not decide goes to the module-level / global lookup of the
    scope kind. -/
theorem load_of_miss_module (a : Arr) (sc : Scope) (st : St) (x : String)
    (h : chainLoad st.heap x sc.chain = .miss) (hk : sc.kind = .module) :
    load a sc st x = if sc.explicit.contains x then optRes (loadGlobal a st x) else optRes (loadName a st x) := by
  simp only [load, h, hk]

theorem load_of_miss_func (a : Arr) (sc : Scope) (st : St) (x : String)
    (h : chainLoad st.heap x sc.chain = .miss) (hk : sc.kind = .func) :
    load a sc st x = optRes (loadGlobal a st x) := by
  simp only [load, h, hk]

theorem load_of_miss_cls (a : Arr) (sc : Scope) (st : St) (x : String) (r : Nat)
    (h : chainLoad st.heap x sc.chain = .miss) (hk : sc.kind = .cls r) :
    load a sc st x = optRes (orElse (clsGet st.heap r x) (orElse (globalsRaw a st x) (st.bi.get? x))) := by
  simp only [load, h, hk]

theorem load_of_declGlobal (a : Arr) (sc : Scope) (st : St) (x : String)
    (h : chainLoad st.heap x sc.chain = .declGlobal) : load a sc st x = optRes (loadGlobal a st x) := by
  simp only [load, h]

/-- Reading a name at the top level of a `!py` expression is LOAD_NAME on the new namespace
    object (own dict `{__builtins__}`; before 62901c4 on the per-Context object). -/
theorem runEval_name (old : Bool) (fuel : Nat) (st : St) (x : String) :
    (runEval old (fuel + 1) st (.name x)).1 =
      optRes (loadName (if old then .evalOld else .evalFixed)
        (st.enter (if old then .evalOld else .evalFixed) (if old then [] else ownInit)) x) := by
  simp [runEval, evalExpr, load, chainLoad, Expr.compWalrus]

/-- The lookups of a state look at the own dict of the CURRENT namespace object, the context, the
    imports, the per-Context raw slot and the builtins — not at the heap. -/
theorem loadGlobal_heap (a : Arr) (st : St) (h : List Cell) (x : String) :
    loadGlobal a { st with heap := h } x = loadGlobal a st x := rfl

/-- `(lambda: x)()` written where no enclosing function/comprehension scope exists (the top level
    of a `!py` expression or of a py block), any state: the read inside the lambda is LOAD_GLOBAL on
    the namespace object of the running code. -/
theorem lambda_reads_global (a : Arr) (fuel : Nat) (sc : Scope) (st : St) (x : String)
    (hc : sc.chain = []) :
    (evalExpr a (fuel + 3) sc (.call (.lam [] (.name x)) []) st).1 = optRes (loadGlobal a st x) := by
  simp [evalExpr, evalList, callFn, runBody, callee, target, St.alloc, St.setCur, load, chainLoad, fnDeclared,
    bodyAssigned, Expr.assigned, hc]
  rfl

end Pypyr.PyNs
