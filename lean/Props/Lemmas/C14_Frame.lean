/-
  C14 helper: the two instances of the invariant principle (what the repaired `!py` arrangement and
  the `pypyr.steps.py` arrangement cannot touch) and unfolding lemmas for `load`.
-/
import Props.Lemmas.C14_Stmt

namespace Pypyr.PyNs

/-! ### `!py` (repaired arrangement): only `scratch`, `hidden` and the heap can change -/

/-- Everything of the state that is not the throw-away child map, the raw dict slot of the
    namespace object or the heap. -/
def St.evalRest (st : St) : Env × Env × Env × Env × Env := (st.ctx, st.imps, st.ns, st.bi, st.saved)

theorem inv_evalFixed (t : Env × Env × Env × Env × Env) : Inv .evalFixed (fun st => st.evalRest = t) where
  heap := fun _ _ hp => hp
  sName := fun _ _ _ hp => hp
  sGlobal := fun _ _ _ hp => hp

/-- Any expression, in any scope, from any state, with any fuel: under `eval(src, ns, ns.new_child())`
    context, imports, builtins (and the py-step fields) are untouched. -/
theorem evalExpr_evalFixed_rest (fuel : Nat) (sc : Scope) (e : Expr) (st : St) :
    (evalExpr .evalFixed fuel sc e st).2.evalRest = st.evalRest :=
  (eval_inv (inv_evalFixed st.evalRest) fuel).1 sc e st rfl

/-! ### py step: only `ns`, the heap, and — through `save` — `ctx`/`saved` can change -/

/-- `st` differs from `st0` outside `ns`/heap only by `save` calls: the ghost log grew by `log`, the
    context is the old one `dict.update`d with `log`, and every logged key is one of `K`. -/
def SavedSince (K : List String) (st0 st : St) : Prop :=
  ∃ log : Env, st.saved = st0.saved ++ log ∧ st.ctx = st0.ctx.update log ∧
    (∀ k ∈ Env.keys log, k ∈ K) ∧
    st.imps = st0.imps ∧ st.hidden = st0.hidden ∧ st.scratch = st0.scratch ∧ st.bi = st0.bi

theorem SavedSince.refl (K : List String) (st : St) : SavedSince K st st :=
  ⟨[], by simp, rfl, by simp [Env.keys], rfl, rfl, rfl, rfl⟩

theorem invS_exec (K : List String) (st0 : St) : InvS .exec K (SavedSince K st0) where
  base := {
    heap := fun _ _ hp => hp
    sName := fun _ _ _ hp => hp
    sGlobal := fun _ _ _ hp => hp }
  del := by
    intro st x st1 h hp
    simp only [delName] at h
    split at h
    · cases h; exact hp
    · cases h
  save := by
    intro st d hd hp
    obtain ⟨log, h1, h2, h3, h4, h5, h6, h7⟩ := hp
    refine ⟨log ++ d, ?_, ?_, ?_, h4, h5, h6, h7⟩
    · simp only [doSave, h1, List.append_assoc]
    · simp only [doSave, h2, Env.update_append]
    · intro k hk
      rw [Env.keys_append, List.mem_append] at hk
      rcases hk with hk | hk
      · exact h3 k hk
      · exact hd k hk

/-- Any block, any fuel, any scope, any state: under `exec(src, d)` the state outside `d` and the
    heap changes only by the block's `save(...)` calls. -/
theorem execBlock_exec_saved (fuel : Nat) (sc : Scope) (b : List Stmt) (st : St) :
    SavedSince (blockSaveKeys b) st (execBlock .exec fuel sc b st).2 :=
  (invS_exec (blockSaveKeys b) st).execBlock' fuel sc b st (fun _ hk => hk) (SavedSince.refl _ st)

/-- Expressions alone never `save`. -/
theorem evalExpr_exec_saved (fuel : Nat) (sc : Scope) (e : Expr) (st : St) :
    SavedSince [] st (evalExpr .exec fuel sc e st).2 :=
  (eval_inv (invS_exec [] st).base fuel).1 sc e st (SavedSince.refl _ st)

theorem SavedSince.nil {st0 st : St} (h : SavedSince [] st0 st) :
    st.ctx = st0.ctx ∧ st.saved = st0.saved ∧ st.imps = st0.imps ∧ st.bi = st0.bi := by
  obtain ⟨log, h1, h2, h3, h4, _, _, h7⟩ := h
  have : log = [] := by
    cases log with
    | nil => rfl
    | cons p rest => exact absurd (h3 p.1 (by simp [Env.keys])) (by simp)
  subst this
  exact ⟨h2, by simpa using h1, h4, h7⟩

/-! ### name reads -/

theorem optRes_some (v : V) : optRes (some v) = .ok v := rfl

/-- The dict the py step builds: a context key other than the two injected names reads as in the
    context. -/
theorem pyStepNs_get? (ctx : Env) (x : String) (h1 : x ≠ "__builtins__") (h2 : x ≠ "save") :
    (pyStepNs ctx).get? x = ctx.get? x := by
  unfold pyStepNs
  rw [Env.get?_set_other _ _ _ _ (Ne.symm h2), Env.get?_set_other _ _ _ _ (Ne.symm h1)]

theorem pyStepNs_save (ctx : Env) : (pyStepNs ctx).get? "save" = some saveTok := by
  unfold pyStepNs; rw [Env.get?_set_same]

theorem pyStepNs_builtins (ctx : Env) : (pyStepNs ctx).get? "__builtins__" = some builtinsTok := by
  unfold pyStepNs
  rw [Env.get?_set_other _ _ _ _ (by decide), Env.get?_set_same]

/-- A read that the lexical frames do not decide goes to the module-level / global lookup of the
    scope kind. -/
theorem load_of_miss_module (a : Arr) (sc : Scope) (st : St) (x : String)
    (h : chainLoad st.heap x sc.chain = .miss) (hk : sc.kind = .module) :
    load a sc st x = if sc.explicit.contains x then optRes (loadGlobal a st x) else optRes (loadName a st x) := by
  simp only [load, h, hk]

theorem load_of_miss_func (a : Arr) (sc : Scope) (st : St) (x : String)
    (h : chainLoad st.heap x sc.chain = .miss) (hk : sc.kind = .func) :
    load a sc st x = optRes (loadGlobal a st x) := by
  simp only [load, h, hk]

theorem load_of_miss_cls (a : Arr) (sc : Scope) (st : St) (x : String) (r : Nat)
    (h : chainLoad st.heap x sc.chain = .miss) (hk : sc.kind = .cls r) :
    load a sc st x = optRes (orElse (clsGet st.heap r x) (orElse (globalsRaw a st x) (st.bi.get? x))) := by
  simp only [load, h, hk]

theorem load_of_declGlobal (a : Arr) (sc : Scope) (st : St) (x : String)
    (h : chainLoad st.heap x sc.chain = .declGlobal) : load a sc st x = optRes (loadGlobal a st x) := by
  simp only [load, h]

/-- Reading a name at the top level of a `!py` expression is LOAD_NAME on the fresh child map. -/
theorem runEval_name (old : Bool) (fuel : Nat) (st : St) (x : String) :
    (runEval old (fuel + 1) st (.name x)).1 =
      optRes (loadName (if old then .evalOld else .evalFixed) { st with scratch := [] } x) := by
  simp [runEval, evalExpr, load, chainLoad, Expr.compWalrus]

/-- `(lambda: x)()` written where no enclosing function/comprehension scope exists (the top level
    of a `!py` expression or of a py block), any state: the read inside the lambda is LOAD_GLOBAL. -/
theorem lambda_reads_global (a : Arr) (fuel : Nat) (sc : Scope) (st : St) (x : String)
    (hc : sc.chain = []) :
    (evalExpr a (fuel + 3) sc (.call (.lam [] (.name x)) []) st).1 = optRes (loadGlobal a st x) := by
  simp [evalExpr, evalList, callFn, runBody, callee, St.alloc, load, chainLoad, fnDeclared,
    bodyAssigned, Expr.assigned, loadGlobal, globalsGetItem, hc]

end Pypyr.PyNs
