/- `CacheTS.Nest`: two locks, the outer cache's creator looks up the inner cache.
   Safety: lock coherence per lock, "a running creator's key is absent", per-layer refinement to the
   script-free atomic specification. Progress: termination measure, stuck ⇒ done (under `NoRe`: no
   creator re-enters its own cache), bounded schedulers end in the quiescent state. -/
import Props.Lemmas.C13_SpecU

namespace Pypyr.CacheTS.Nest

@[simp] theorem setThread_threads (st : NState) (t : Tid) (th : NThread) (u : Tid) :
    (st.setThread t th).threads u = if u = t then th else st.threads u := rfl
@[simp] theorem setThread_lockO (st : NState) (t : Tid) (th : NThread) : (st.setThread t th).lockO = st.lockO := rfl
@[simp] theorem setThread_lockI (st : NState) (t : Tid) (th : NThread) : (st.setThread t th).lockI = st.lockI := rfl
@[simp] theorem setThread_cacheO (st : NState) (t : Tid) (th : NThread) : (st.setThread t th).cacheO = st.cacheO := rfl
@[simp] theorem setThread_cacheI (st : NState) (t : Tid) (th : NThread) : (st.setThread t th).cacheI = st.cacheI := rfl
@[simp] theorem setThread_callsO (st : NState) (t : Tid) (th : NThread) : (st.setThread t th).callsO = st.callsO := rfl
@[simp] theorem setThread_callsI (st : NState) (t : Tid) (th : NThread) : (st.setThread t th).callsI = st.callsI := rfl
@[simp] theorem setThread_histO (st : NState) (t : Tid) (th : NThread) : (st.setThread t th).histO = st.histO := rfl
@[simp] theorem setThread_histI (st : NState) (t : Tid) (th : NThread) : (st.setThread t th).histI = st.histI := rfl

/-- between acquire and release of the INNER lock -/
def NPc.inCSI : NPc → Bool
  | .lockedI _ _ | .inCrI _ _ _ | .exitI _ _ _ | .createdI _ _ _ | .relI _ _ => true
  | _ => false

/-- between acquire and release of the OUTER lock (the nested inner look-up included) -/
def NPc.inCSO : NPc → Bool
  | .lockedO _ | .inCrO _ _ _ | .reWant _ _ _ | .exitO _ _ _ | .createdO _ _ | .relO _ => true
  | .wantI fr _ | .lockedI fr _ | .inCrI fr _ _ | .exitI fr _ _ | .createdI fr _ _ | .relI fr _ | .doneI fr _ => fr.isSome
  | _ => false

def MutexO (st : NState) : Prop := ∀ t, (st.threads t).pc.inCSO = true ↔ st.lockO = some t
def MutexI (st : NState) : Prop := ∀ t, (st.threads t).pc.inCSI = true ↔ st.lockI = some t

theorem mutexO_step (cfg : NCfg) (st : NState) (t : Tid) (h : MutexO st) : MutexO (nstep cfg st t) := by
  intro u
  have hu := h u
  have ht := h t
  cases hpc : (st.threads t).pc <;> simp only [nstep, hpc]
  all_goals (try split)
  all_goals (try split)
  all_goals (try split)
  all_goals (by_cases hut : u = t <;> simp_all [NPc.inCSO])
  all_goals (try (exact fun e => hut e.symm))

theorem mutexI_step (cfg : NCfg) (st : NState) (t : Tid) (h : MutexI st) : MutexI (nstep cfg st t) := by
  intro u
  have hu := h u
  have ht := h t
  cases hpc : (st.threads t).pc <;> simp only [nstep, hpc]
  all_goals (try split)
  all_goals (try split)
  all_goals (try split)
  all_goals (by_cases hut : u = t <;> simp_all [NPc.inCSI])
  all_goals (try (exact fun e => hut e.symm))

/-- the outer key whose creator this thread is running / whose object it is about to store -/
def NPc.creatingO : NPc → Option Key
  | .inCrO ko _ _ | .reWant ko _ _ | .exitO ko _ _ | .createdO ko _ => some ko
  | .wantI fr _ | .lockedI fr _ | .inCrI fr _ _ | .exitI fr _ _ | .createdI fr _ _ | .relI fr _ | .doneI fr _ =>
    fr.map (·.1)
  | _ => none

def NPc.creatingI : NPc → Option Key
  | .inCrI _ ki _ | .exitI _ ki _ | .createdI _ ki _ => some ki
  | _ => none

theorem creatingO_inCSO {pc : NPc} {k : Key} (h : pc.creatingO = some k) : pc.inCSO = true := by
  cases pc <;> simp_all [NPc.creatingO, NPc.inCSO]
  all_goals (obtain ⟨x, rfl⟩ := h; rfl)

theorem creatingI_inCSI {pc : NPc} {k : Key} (h : pc.creatingI = some k) : pc.inCSI = true := by
  cases pc <;> simp_all [NPc.creatingI, NPc.inCSI]

def MissO (st : NState) : Prop := ∀ t k, (st.threads t).pc.creatingO = some k → st.cacheO k = none
def MissI (st : NState) : Prop := ∀ t k, (st.threads t).pc.creatingI = some k → st.cacheI k = none

theorem missO_step (cfg : NCfg) (st : NState) (t : Tid) (hm : MutexO st) (h : MissO st) : MissO (nstep cfg st t) := by
  intro u k
  have hu := h u k
  have ht := h t
  have hmt := hm t
  have hcu : (st.threads u).pc.creatingO = some k → st.lockO = some u :=
    fun e => (hm u).1 (creatingO_inCSO e)
  cases hpc : (st.threads t).pc <;> simp only [nstep, hpc]
  all_goals (try split)
  all_goals (try split)
  all_goals (try split)
  all_goals (by_cases hut : u = t <;> simp_all [NPc.inCSO, setKey, emptyTab])
  all_goals (try (simp_all [NPc.creatingO]; done))
  all_goals (try (intro e; simp_all [NPc.creatingO]; done))

theorem missI_step (cfg : NCfg) (st : NState) (t : Tid) (hm : MutexI st) (h : MissI st) : MissI (nstep cfg st t) := by
  intro u k
  have hu := h u k
  have ht := h t
  have hmt := hm t
  have hcu : (st.threads u).pc.creatingI = some k → st.lockI = some u :=
    fun e => (hm u).1 (creatingI_inCSI e)
  cases hpc : (st.threads t).pc <;> simp only [nstep, hpc]
  all_goals (try split)
  all_goals (try split)
  all_goals (try split)
  all_goals (by_cases hut : u = t <;> simp_all [NPc.inCSI, setKey, emptyTab])
  all_goals (try (simp_all [NPc.creatingI]; done))
  all_goals (try (intro e; simp_all [NPc.creatingI]; done))

def NPc.pendingO : NPc → Option (Key × Obj)
  | .createdO k c => some (k, c)
  | _ => none

def NPc.pendingI : NPc → Option (Key × Obj)
  | .createdI _ k c => some (k, c)
  | _ => none

/-- the outer table as the atomic specification sees it -/
def effO (st : NState) : Key → Option Obj :=
  match st.lockO with
  | none => st.cacheO
  | some t => match (st.threads t).pc.pendingO with
    | some (k, c) => setKey st.cacheO k c
    | none => st.cacheO

def effI (st : NState) : Key → Option Obj :=
  match st.lockI with
  | none => st.cacheI
  | some t => match (st.threads t).pc.pendingI with
    | some (k, c) => setKey st.cacheI k c
    | none => st.cacheI

def RefinesO (st : NState) : Prop := specRunU emptyTab st.histO = some (effO st)
def RefinesI (st : NState) : Prop := specRunU emptyTab st.histI = some (effI st)

set_option linter.unusedSimpArgs false in
theorem refinesO_step (cfg : NCfg) (st : NState) (t : Tid) (hm : MutexO st) (hmiss : MissO st)
    (h : RefinesO st) : RefinesO (nstep cfg st t) := by
  have hmt := hm t
  have hmst := hmiss t
  unfold RefinesO effO at h ⊢
  cases hl : st.lockO with
  | none =>
    cases hpc : (st.threads t).pc <;> simp only [nstep, hpc]
    all_goals (try split)
    all_goals (try split)
    all_goals (try split)
    all_goals (simp_all [NPc.inCSO, NPc.creatingO, NPc.pendingO, specRunU, specStepU])
  | some w =>
    by_cases hw : w = t
    · subst hw
      cases hpc : (st.threads w).pc <;> simp only [nstep, hpc]
      all_goals (try split)
      all_goals (try split)
      all_goals (try split)
      all_goals (simp_all [NPc.inCSO, NPc.creatingO, NPc.pendingO, specRunU, specStepU])
    · have hmw := hm w
      cases hpc : (st.threads t).pc <;> simp only [nstep, hpc]
      all_goals (try split)
      all_goals (try split)
      all_goals (try split)
      all_goals (simp_all [NPc.inCSO, NPc.creatingO, NPc.pendingO, specRunU, specStepU])

theorem refinesI_step (cfg : NCfg) (st : NState) (t : Tid) (hm : MutexI st) (hmiss : MissI st)
    (h : RefinesI st) : RefinesI (nstep cfg st t) := by
  have hmt := hm t
  have hmst := hmiss t
  unfold RefinesI effI at h ⊢
  cases hpc : (st.threads t).pc <;> simp only [nstep, hpc]
  all_goals (try split)
  all_goals (try split)
  all_goals (try split)
  all_goals (cases hl : st.lockI <;>
    simp_all [NPc.inCSI, NPc.creatingI, NPc.pendingI, specRunU, specStepU])
  all_goals (try (rename_i w; by_cases hw : w = t <;>
    simp_all [NPc.inCSI, NPc.creatingI, NPc.pendingI, specRunU, specStepU]))

/-- the inductive invariant of the two-lock system -/
structure NInv (st : NState) : Prop where
  mutexO : MutexO st
  mutexI : MutexI st
  missO : MissO st
  missI : MissI st
  refinesO : RefinesO st
  refinesI : RefinesI st

theorem ninv_init (prog : Tid → List NOp) : NInv (ninit prog) := by
  refine ⟨?_, ?_, ?_, ?_, ?_, ?_⟩ <;>
    simp [ninit, MutexO, MutexI, MissO, MissI, RefinesO, RefinesI, NPc.inCSO, NPc.inCSI, NPc.creatingO,
      NPc.creatingI, effO, effI, specRunU]

theorem ninv_step (cfg : NCfg) (st : NState) (t : Tid) (h : NInv st) : NInv (nstep cfg st t) :=
  ⟨mutexO_step cfg st t h.mutexO, mutexI_step cfg st t h.mutexI,
   missO_step cfg st t h.mutexO h.missO, missI_step cfg st t h.mutexI h.missI,
   refinesO_step cfg st t h.mutexO h.missO h.refinesO, refinesI_step cfg st t h.mutexI h.missI h.refinesI⟩

theorem ninv_run (cfg : NCfg) : ∀ (sched : List Tid) st, NInv st → NInv (nrun cfg st sched) := by
  intro sched
  induction sched with
  | nil => intro st h; exact h
  | cons t ts ih => intro st h; exact ih _ (ninv_step cfg st t h)

theorem nrun_append (cfg : NCfg) : ∀ (a b : List Tid) st, nrun cfg st (a ++ b) = nrun cfg (nrun cfg st a) b := by
  intro a
  induction a with
  | nil => intro b st; rfl
  | cons t a ih => intro b st; simp [nrun, ih]

/-! #### no creator re-enters its own cache -/

def OOp.noRe : OOp → Bool
  | .re _ _ => false
  | _ => true

def NOp.noRe : NOp → Bool
  | .getRe _ _ => false
  | _ => true

def NPc.noRe : NPc → Bool
  | .wantO op | .lockedO op => op.noRe
  | .reWant _ _ _ => false
  | _ => true

/-- no thread runs, or will run, an outer look-up whose creator looks up the same cache -/
def NoRe (st : NState) : Prop :=
  ∀ t, (st.threads t).pc.noRe = true ∧ ∀ op ∈ (st.threads t).ops, op.noRe = true

theorem noRe_step (cfg : NCfg) (st : NState) (t : Tid) (h : NoRe st) : NoRe (nstep cfg st t) := by
  intro u
  have hu := h u
  have ht := h t
  cases hpc : (st.threads t).pc <;> simp only [nstep, hpc]
  all_goals (try split)
  all_goals (try split)
  all_goals (try split)
  all_goals (by_cases hut : u = t <;> simp_all [NPc.noRe, OOp.noRe, NOp.noRe])

theorem noRe_run (cfg : NCfg) : ∀ (sched : List Tid) st, NoRe st → NoRe (nrun cfg st sched) := by
  intro sched
  induction sched with
  | nil => intro st h; exact h
  | cons t ts ih => intro st h; exact ih _ (noRe_step cfg st t h)

theorem noRe_init (prog : Tid → List NOp) (h : ∀ t, ∀ op ∈ prog t, op.noRe = true) : NoRe (ninit prog) :=
  fun t => ⟨rfl, h t⟩

/-! #### progress -/

/-- micro-steps the operation in progress still has to make (upper bound) -/
def NPc.weight : NPc → Nat
  | .idle => 0
  | .wantO _ => 14
  | .lockedO _ => 13
  | .inCrO _ _ _ => 12
  | .reWant _ _ _ => 12
  | .wantI _ _ => 11
  | .lockedI _ _ => 10
  | .inCrI _ _ _ => 9
  | .exitI _ _ _ => 8
  | .createdI _ _ _ => 7
  | .relI _ _ => 6
  | .doneI _ _ => 5
  | .exitO _ _ _ => 4
  | .createdO _ _ => 3
  | .relO _ => 2
  | .doneO _ => 1

def NThread.work (th : NThread) : Nat := th.pc.weight + 15 * th.ops.length

def nwork (st : NState) : Nat → Nat
  | 0 => 0
  | n + 1 => nwork st n + (st.threads n).work

def NQuiescent (st : NState) : Prop :=
  st.lockO = none ∧ st.lockI = none ∧ ∀ t, (st.threads t).pc = .idle ∧ (st.threads t).ops = []

def NOutside (n : Nat) (st : NState) : Prop := ∀ t, n ≤ t → (st.threads t).pc = .idle ∧ (st.threads t).ops = []

theorem nstep_other (cfg : NCfg) (st : NState) (t u : Tid) (h : u ≠ t) :
    (nstep cfg st t).threads u = st.threads u := by
  cases hpc : (st.threads t).pc <;> simp only [nstep, hpc]
  all_goals (try split)
  all_goals (try split)
  all_goals (try split)
  all_goals (simp [h])

theorem nstep_disabled (cfg : NCfg) (st : NState) (t : Tid) (h : nenabled st t = false) : nstep cfg st t = st := by
  cases hpc : (st.threads t).pc <;> simp only [nenabled, hpc] at h <;> simp only [nstep, hpc]
  all_goals (try (cases h; done))
  · cases hops : (st.threads t).ops <;> simp_all
  · cases hl : st.lockO <;> simp_all
  · cases hl : st.lockI <;> simp_all

theorem nstep_work_lt (cfg : NCfg) (st : NState) (t : Tid) (h : nenabled st t = true) :
    ((nstep cfg st t).threads t).work < (st.threads t).work := by
  cases hpc : (st.threads t).pc <;> simp only [nenabled, hpc] at h <;> simp only [nstep, hpc]
  all_goals (try split)
  all_goals (try split)
  all_goals (try split)
  all_goals (simp_all [NThread.work, NPc.weight])
  all_goals (try omega)

theorem nstep_work_le (cfg : NCfg) (st : NState) (t u : Tid) :
    ((nstep cfg st t).threads u).work ≤ (st.threads u).work := by
  by_cases hut : u = t
  · subst hut
    cases he : nenabled st u
    · rw [nstep_disabled cfg st u he]; exact Nat.le_refl _
    · exact Nat.le_of_lt (nstep_work_lt cfg st u he)
  · rw [nstep_other cfg st t u hut]; exact Nat.le_refl _

theorem nwork_step_le (cfg : NCfg) (st : NState) (t : Tid) : ∀ n, nwork (nstep cfg st t) n ≤ nwork st n := by
  intro n
  induction n with
  | zero => exact Nat.le_refl _
  | succ n ih => simp only [nwork]; exact Nat.add_le_add ih (nstep_work_le cfg st t n)

theorem nwork_step_lt (cfg : NCfg) (st : NState) (t : Tid) (h : nenabled st t = true) :
    ∀ n, t < n → nwork (nstep cfg st t) n < nwork st n := by
  intro n
  induction n with
  | zero => intro h; cases h
  | succ n ih =>
    intro htn
    simp only [nwork]
    by_cases hlt : t < n
    · exact Nat.add_lt_add_of_lt_of_le (ih hlt) (nstep_work_le cfg st t n)
    · have : t = n := Nat.eq_of_lt_succ_of_not_lt htn hlt
      subst this
      exact Nat.add_lt_add_of_le_of_lt (nwork_step_le cfg st t t) (nstep_work_lt cfg st t h)

theorem nwork_run_le (cfg : NCfg) (n : Nat) : ∀ (sched : List Tid) st, nwork (nrun cfg st sched) n ≤ nwork st n := by
  intro sched
  induction sched with
  | nil => intro st; exact Nat.le_refl _
  | cons t ts ih => intro st; exact Nat.le_trans (ih _) (nwork_step_le cfg st t n)

theorem noutside_step (cfg : NCfg) (n : Nat) (st : NState) (t : Tid) (h : NOutside n st) : NOutside n (nstep cfg st t) := by
  intro u hu
  by_cases hut : u = t
  · subst hut
    have he : nenabled st u = false := by simp [nenabled, (h u hu).1, (h u hu).2]
    rw [nstep_disabled cfg st u he]; exact h u hu
  · rw [nstep_other cfg st t u hut]; exact h u hu

theorem noutside_run (cfg : NCfg) (n : Nat) : ∀ (sched : List Tid) st, NOutside n st → NOutside n (nrun cfg st sched) := by
  intro sched
  induction sched with
  | nil => intro st h; exact h
  | cons t ts ih => intro st h; exact ih _ (noutside_step cfg n st t h)

theorem inCSI_enabled (st : NState) (t : Tid) (h : (st.threads t).pc.inCSI = true) : nenabled st t = true := by
  cases hpc : (st.threads t).pc <;> simp_all [NPc.inCSI, nenabled]

/-- the holder of the outer lock can move, unless it waits for the inner lock or has re-entered -/
theorem inCSO_enabled (st : NState) (t : Tid) (h : (st.threads t).pc.inCSO = true)
    (hre : (st.threads t).pc.noRe = true) (hI : st.lockI = none) : nenabled st t = true := by
  cases hpc : (st.threads t).pc <;> simp_all [NPc.inCSO, NPc.noRe, nenabled]

/-- `nstuck_is_done`: deadlock freedom of the lock order outer → inner. In a lock-coherent state in which no
    creator has re-entered its own cache and none of the threads can move, every thread has finished and both
    locks are free. -/
theorem nstuck_is_done (n : Nat) (st : NState) (hO : MutexO st) (hI : MutexI st) (hre : NoRe st) (ho : NOutside n st)
    (hstuck : ∀ t, t < n → nenabled st t = false) : NQuiescent st := by
  have hlockI : st.lockI = none := by
    cases hl : st.lockI with
    | none => rfl
    | some u =>
      have hcs := (hI u).2 hl
      have hen := inCSI_enabled st u hcs
      by_cases hu : u < n
      · rw [hstuck u hu] at hen; cases hen
      · have := (ho u (Nat.le_of_not_lt hu)).1
        rw [this] at hcs; cases hcs
  have hlockO : st.lockO = none := by
    cases hl : st.lockO with
    | none => rfl
    | some u =>
      have hcs := (hO u).2 hl
      have hen := inCSO_enabled st u hcs (hre u).1 hlockI
      by_cases hu : u < n
      · rw [hstuck u hu] at hen; cases hen
      · have := (ho u (Nat.le_of_not_lt hu)).1
        rw [this] at hcs; cases hcs
  refine ⟨hlockO, hlockI, fun t => ?_⟩
  by_cases ht : t < n
  · have hd := hstuck t ht
    have hr := (hre t).1
    cases hpc : (st.threads t).pc <;> simp only [nenabled, hpc] at hd
    all_goals (try (cases hd; done))
    · exact ⟨rfl, by cases hops : (st.threads t).ops <;> simp_all⟩
    · simp [hlockO] at hd
    · rw [hpc] at hr; cases hr
    · simp [hlockI] at hd
  · exact ho t (Nat.le_of_not_lt ht)

def NIsMove (cfg : NCfg) (mv : NState → Tid → NState) : Prop :=
  ∀ st t, ∃ s, mv st t = nrun cfg st (t :: s)

theorem nsettle_is_run (cfg : NCfg) (t : Tid) : ∀ n st, ∃ sched, nsettle cfg n st t = nrun cfg st sched := by
  intro n
  induction n with
  | zero => intro st; exact ⟨[], rfl⟩
  | succ n ih =>
    intro st
    simp only [nsettle]
    split
    · exact ⟨[], rfl⟩
    · obtain ⟨s, hs⟩ := ih (nstep cfg st t); exact ⟨t :: s, by simpa [nrun] using hs⟩

theorem nstep_isMove (cfg : NCfg) : NIsMove cfg (nstep cfg) := fun _ _ => ⟨[], rfl⟩

theorem nturn_isMove (cfg : NCfg) : NIsMove cfg (nturn cfg) := by
  intro st t
  obtain ⟨s, hs⟩ := nsettle_is_run cfg t 5 (nstep cfg st t)
  exact ⟨s, hs⟩

def ndrain (mv : NState → Tid → NState) (pick : NState → Option Tid) : Nat → NState → NState
  | 0, st => st
  | fuel + 1, st =>
    match pick st with
    | none => st
    | some t => ndrain mv pick fuel (mv st t)

def NNeverIdles (n : Nat) (pick : NState → Option Tid) : Prop :=
  ∀ st, (pick st = none → ∀ t, t < n → nenabled st t = false) ∧
        (∀ t, pick st = some t → t < n ∧ nenabled st t = true)

theorem nlowestEnabled_neverIdles (n : Nat) : NNeverIdles n (fun st => (List.range n).find? (nenabled st)) := by
  intro st
  refine ⟨fun h t ht => ?_, fun t h => ?_⟩
  · have := List.find?_eq_none.mp h t (List.mem_range.mpr ht)
    simpa using this
  · exact ⟨List.mem_range.mp (List.mem_of_find?_eq_some h), List.find?_some h⟩

theorem nfinish_eq_drain (cfg : NCfg) (n : Nat) : ∀ fuel st,
    nfinish cfg n fuel st = ndrain (nturn cfg) (fun st => (List.range n).find? (nenabled st)) fuel st := by
  intro fuel
  induction fuel with
  | zero => intro st; rfl
  | succ fuel ih =>
    intro st
    simp only [nfinish, ndrain]
    cases h : (List.range n).find? (nenabled st) with
    | none => rfl
    | some t => exact ih _

theorem ndrain_is_run (cfg : NCfg) (mv : NState → Tid → NState) (hmv : NIsMove cfg mv) (pick : NState → Option Tid) :
    ∀ fuel st, ∃ s, ndrain mv pick fuel st = nrun cfg st s := by
  intro fuel
  induction fuel with
  | zero => intro st; exact ⟨[], rfl⟩
  | succ fuel ih =>
    intro st
    simp only [ndrain]
    cases pick st with
    | none => exact ⟨[], rfl⟩
    | some t =>
      obtain ⟨s1, h1⟩ := hmv st t
      obtain ⟨s2, h2⟩ := ih (mv st t)
      refine ⟨(t :: s1) ++ s2, ?_⟩
      simp only []
      rw [h2, h1, nrun_append]

/-- `ndrain_quiescent`: ANY scheduler that never idles while somebody can move reaches, within `nwork st n`
    moves, the state where every thread has finished and both locks are free. -/
theorem ndrain_quiescent (cfg : NCfg) (n : Nat) (mv : NState → Tid → NState) (hmv : NIsMove cfg mv)
    (pick : NState → Option Tid) (hp : NNeverIdles n pick) :
    ∀ fuel st, NInv st → NoRe st → NOutside n st → nwork st n ≤ fuel → NQuiescent (ndrain mv pick fuel st) := by
  intro fuel
  induction fuel with
  | zero =>
    intro st hi hre ho hw
    apply nstuck_is_done n st hi.mutexO hi.mutexI hre ho
    intro t ht
    cases he : nenabled st t with
    | false => rfl
    | true =>
      have := nwork_step_lt cfg st t he n ht
      omega
  | succ fuel ih =>
    intro st hi hre ho hw
    simp only [ndrain]
    cases hpk : pick st with
    | none => exact nstuck_is_done n st hi.mutexO hi.mutexI hre ho ((hp st).1 hpk)
    | some t =>
      obtain ⟨htn, hen⟩ := (hp st).2 t hpk
      obtain ⟨s, hs⟩ := hmv st t
      simp only []
      rw [hs]
      apply ih
      · exact ninv_run cfg (t :: s) st hi
      · exact noRe_run cfg (t :: s) st hre
      · exact noutside_run cfg n (t :: s) st ho
      · have h1 : nwork (nrun cfg st (t :: s)) n ≤ nwork (nstep cfg st t) n := nwork_run_le cfg n s _
        have h2 := nwork_step_lt cfg st t hen n htn
        omega

def ntotalOps (prog : Tid → List NOp) : Nat → Nat
  | 0 => 0
  | n + 1 => ntotalOps prog n + (prog n).length

theorem nwork_init (prog : Tid → List NOp) : ∀ n, nwork (ninit prog) n = 15 * ntotalOps prog n := by
  intro n
  induction n with
  | zero => rfl
  | succ n ih => simp only [nwork, ntotalOps, ih]; simp [ninit, NThread.work, NPc.weight]; omega

theorem noutside_init (prog : Tid → List NOp) (n : Nat) (h : ∀ t, n ≤ t → prog t = []) :
    NOutside n (ninit prog) := fun t ht => ⟨rfl, h t ht⟩

end Pypyr.CacheTS.Nest
