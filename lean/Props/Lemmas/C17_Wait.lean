/- Helper lemmas for C17 (concurrent steps): the step returns only after every process it started has
   finished — each started process has its `fin` event in the trace, for every schedule. -/
import PypyrModel.Cmd
import Props.Lemmas.C17_Async

namespace Pypyr.Cmd

/-- The processes of a lane that existed and have finished. -/
def finsOf (l : Lane) : List Nat := (l.done.filter Proc.ran).map (·.id)

theorem laneStarted_eq (l : Lane) :
    laneStarted l = finsOf l ++ (match l.cur with | some p => [p.id] | none => []) := rfl

theorem finsOf_start (dec : Bool) (ps : List Proc) : finsOf (Lane.start dec ps) = [] := by
  cases ps with
  | nil => simp [Lane.start, launch, finsOf]
  | cons p ps => cases hp : p.spawn <;> simp [Lane.start, launch, hp, finsOf, Proc.ran]

/-- Draining a lane: every process of the end state existed before as finished, or its exit is among
    the drain events. -/
theorem drainFrom_fins (dec : Bool) (done : List Proc) (cur : Option Proc) (todo : List Proc) (i : Nat)
    (hi : i ∈ laneStarted (drainFrom dec done cur todo)) :
    i ∈ (done.filter Proc.ran).map (·.id) ∨ Event.fin i ∈ drainEventsFrom dec cur todo := by
  induction todo generalizing done cur with
  | nil =>
    cases cur with
    | none => exact .inl (by simpa [drainFrom, laneStarted] using hi)
    | some p =>
      simp only [drainFrom, laneStarted, List.filter_append, List.map_append, List.append_nil,
        List.mem_append] at hi
      cases hi with
      | inl h => exact .inl h
      | inr h =>
        right
        by_cases hr : p.ran = true
        · simp [hr] at h; simp [drainEventsFrom, h]
        · simp [hr] at h
  | cons q qs ih =>
    cases cur with
    | none => exact .inl (by simpa [drainFrom, laneStarted] using hi)
    | some p =>
      have hp : ∀ j, j ∈ ((done ++ [p]).filter Proc.ran).map (·.id) →
          j ∈ (done.filter Proc.ran).map (·.id) ∨ j = p.id := by
        intro j hj
        simp only [List.filter_append, List.map_append, List.mem_append] at hj
        cases hj with
        | inl h => exact .inl h
        | inr h =>
          right
          by_cases hr : p.ran = true
          · simpa [hr] using h
          · simp [hr] at h
      unfold drainFrom at hi
      unfold drainEventsFrom
      by_cases hc : p.halts dec = true
      · simp only [if_pos hc] at hi ⊢
        simp only [laneStarted, List.append_nil] at hi
        cases hp i hi with
        | inl h => exact .inl h
        | inr h => right; simp [h]
      · simp only [if_neg hc] at hi ⊢
        cases hq : q.spawn with
        | some k =>
          simp only [hq] at hi ⊢
          simp only [laneStarted, List.append_nil, List.filter_append, List.map_append,
            List.mem_append] at hi
          have hqr : q.ran = false := by simp [Proc.ran, hq]
          cases hi with
          | inl h =>
            cases hp i (by simpa [List.filter_append] using h) with
            | inl h => exact .inl h
            | inr h => right; simp [h]
          | inr h => simp [hqr] at h
        | none =>
          simp only [hq] at hi ⊢
          cases ih (done ++ [p]) (some q) hi with
          | inl h =>
            cases hp i h with
            | inl h => exact .inl h
            | inr h => right; simp [h]
          | inr h => right; simp [h]

theorem drain_fins (l : Lane) (i : Nat) (hi : i ∈ laneStarted l.drain) :
    i ∈ finsOf l ∨ Event.fin i ∈ l.drainEvents :=
  drainFrom_fins l.dec l.done l.cur l.todo i hi

/-- One exit: what has finished afterwards had finished before, or is the exit just recorded. -/
theorem complete_fins (l : Lane) (i : Nat) (hi : i ∈ finsOf l.complete) :
    i ∈ finsOf l ∨ Event.fin i ∈ l.completeEvents := by
  obtain ⟨done, cur, todo, dec⟩ := l
  cases cur with
  | none => exact .inl (by simpa [Lane.complete] using hi)
  | some p =>
    have key : ∀ d : List Proc, i ∈ ((d ++ [p]).filter Proc.ran).map (·.id) →
        i ∈ (d.filter Proc.ran).map (·.id) ∨ i = p.id := by
      intro d hj
      simp only [List.filter_append, List.map_append, List.mem_append] at hj
      cases hj with
      | inl h => exact .inl h
      | inr h =>
        right
        by_cases hr : p.ran = true
        · simpa [hr] using h
        · simp [hr] at h
    simp only [Lane.complete, Lane.completeEvents, finsOf] at hi ⊢
    by_cases hc : p.halts dec = true
    · simp only [if_pos hc] at hi ⊢
      cases key done hi with
      | inl h => exact .inl h
      | inr h => right; simp [h]
    · simp only [if_neg hc] at hi ⊢
      cases todo with
      | nil =>
        simp only [launch] at hi
        cases key done hi with
        | inl h => exact .inl h
        | inr h => right; simp [h]
      | cons q qs =>
        simp only [launch] at hi
        cases hq : q.spawn with
        | some k =>
          simp only [hq] at hi
          have hqr : q.ran = false := by simp [Proc.ran, hq]
          simp only [List.filter_append, List.map_append, List.mem_append] at hi
          cases hi with
          | inl h =>
            cases key done (by simpa [List.filter_append] using h) with
            | inl h => exact .inl h
            | inr h => right; simp [h]
          | inr h => simp [hqr] at h
        | none =>
          simp only [hq] at hi
          cases key done hi with
          | inl h => exact .inl h
          | inr h => right; simp [h]

theorem modifyAt_fins (ls : List Lane) (k i : Nat)
    (hi : i ∈ (modifyAt Lane.complete ls k).flatMap finsOf) :
    i ∈ ls.flatMap finsOf ∨ Event.fin i ∈ eventsAt ls k := by
  induction ls generalizing k with
  | nil => simp [modifyAt] at hi
  | cons l ls ih =>
    cases k with
    | zero =>
      simp only [modifyAt, List.flatMap_cons, List.mem_append] at hi
      cases hi with
      | inl h =>
        cases complete_fins l i h with
        | inl h => exact .inl (by simp [h])
        | inr h => exact .inr (by simpa [eventsAt] using h)
      | inr h => exact .inl (by simp [h])
    | succ k =>
      simp only [modifyAt, List.flatMap_cons, List.mem_append] at hi
      cases hi with
      | inl h => exact .inl (by simp [h])
      | inr h =>
        cases ih k h with
        | inl h => exact .inl (by simp [h])
        | inr h => exact .inr (by simpa [eventsAt] using h)

/-- Following a schedule: everything that has finished afterwards had finished before or has its exit
    among the events of the schedule. -/
theorem runSched_fins (ls : List Lane) (sched : List Nat) (i : Nat)
    (hi : i ∈ (runSched ls sched).1.flatMap finsOf) :
    i ∈ ls.flatMap finsOf ∨ Event.fin i ∈ (runSched ls sched).2 := by
  induction sched generalizing ls with
  | nil => exact .inl (by simpa [runSched] using hi)
  | cons k rest ih =>
    simp only [runSched] at hi ⊢
    cases ih _ hi with
    | inl h =>
      cases modifyAt_fins ls k i h with
      | inl h => exact .inl h
      | inr h => exact .inr (by simp [h])
    | inr h => exact .inr (by simp [h])

theorem drainAll_fins (ls : List Lane) (i : Nat) (hi : i ∈ ((drainAll ls).map laneStarted).flatten) :
    i ∈ ls.flatMap finsOf ∨ Event.fin i ∈ drainAllEvents ls := by
  induction ls with
  | nil => simp [drainAll] at hi
  | cons l ls ih =>
    simp only [drainAll, List.map_cons, List.flatten_cons, List.mem_append] at hi
    cases hi with
    | inl h =>
      cases drain_fins l i h with
      | inl h => exact .inl (by simp [h])
      | inr h => exact .inr (by simp [drainAllEvents, h])
    | inr h =>
      cases ih (by simpa [drainAll] using h) with
      | inl h => exact .inl (by simp [h])
      | inr h => exact .inr (by simp [drainAllEvents, h])

theorem flatMap_finsOf_start (ls : List ALane) :
    (ls.map (fun l => Lane.start l.dec l.procs)).flatMap finsOf = [] := by
  induction ls with
  | nil => rfl
  | cons ps ls ih => simp [finsOf_start, ih]

end Pypyr.Cmd
