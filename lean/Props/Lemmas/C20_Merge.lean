/-
  C20 helper lemmas: the declarative reading of a file list ("highest-precedence file that
  sets it"), and what one `handle_path` / a sequence of them does to a scalar and to a dict
  entry. Core Lean only.
-/
import PypyrModel.Config

namespace Pypyr.C20
open Pypyr Pypyr.Config

/-! ## Declarative side: what the files say -/

/-- What payload `p` says about top-level setting `k` (only a mapping says anything). -/
def settingOf : Payload → String → Option Val
  | .mapping kvs, k => Ctx.get? kvs k
  | _, _ => none

/-- The value of setting `k` in the LAST (= highest-precedence) payload of the list that sets it. -/
def highest (k : String) : List Payload → Option Val
  | [] => none
  | p :: ps => match highest k ps with
    | some v => some v
    | none => settingOf p k

/-- `dict(pairs)[key]`: the last binding of `key` (for a key-unique list: the only one). -/
def dictLast? : Dict → Val → Option Val
  | [], _ => none
  | (a, b) :: m, k => match dictLast? m k with
    | some v => some v
    | none => if a = k then some b else none

/-- the pairs an update sequence denotes — `none` when `dict.update` rejects one of its elements -/
def seqPairs : List Val → Option Dict
  | [] => some []
  | x :: xs =>
    match seqPair x, seqPairs xs with
    | .ok kv, some m => some (kv :: m)
    | _, _ => none

/-- the pairs the value of a dict setting denotes (`dict.update(value)` sets them in this order) —
    `none` when `dict.update` rejects the value -/
def pairsOf : Val → Option Dict
  | .dict m => some m
  | .list xs => seqPairs xs
  | .tuple xs => seqPairs xs
  | .str s => if s.isEmpty then some [] else none
  | _ => none

/-- What payload `p` says about entry `key` of dict setting `d`. -/
def dictSettingOf (p : Payload) (d : String) (key : Val) : Option Val :=
  match (settingOf p d).bind pairsOf with
  | some m => dictLast? m key
  | none => none

/-- The value of `d[key]` in the last (highest-precedence) payload of the list that has it. -/
def highestDict (d : String) (key : Val) : List Payload → Option Val
  | [] => none
  | p :: ps => match highestDict d key ps with
    | some v => some v
    | none => dictSettingOf p d key

/-- Payloads are well-formed Python data: every dict-valued setting has unique keys. -/
def DictsNodup (p : Payload) : Prop :=
  ∀ d v m, settingOf p d = some v → pairsOf v = some m → (m.map (·.1)).Nodup

/-- Same reading with `dictGet?` (first binding) — equal on key-unique dicts. -/
def dictSettingOf' (p : Payload) (d : String) (key : Val) : Option Val :=
  match (settingOf p d).bind pairsOf with
  | some m => dictGet? m key
  | none => none

def highestDict' (d : String) (key : Val) : List Payload → Option Val
  | [] => none
  | p :: ps => match highestDict' d key ps with
    | some v => some v
    | none => dictSettingOf' p d key

/-! ## Association-list facts -/

theorem dictGet?_dictSet (d : Dict) (a b k : Val) :
    dictGet? (dictSet d a b) k = if a = k then some b else dictGet? d k := by
  induction d with
  | nil => simp [dictSet, dictGet?]
  | cons p rest ih =>
    obtain ⟨a', b'⟩ := p
    simp only [dictSet]
    by_cases h : a' = a
    · subst h
      simp only [if_true, dictGet?]
      by_cases h2 : a' = k <;> simp [h2]
    · simp only [if_neg h, dictGet?, ih]
      by_cases h2 : a' = k
      · subst h2; simp [Ne.symm h]
      · simp [h2]

theorem dictGet?_dictUpdate (m d : Dict) (k : Val) :
    dictGet? (dictUpdate d m) k = (dictLast? m k).or (dictGet? d k) := by
  induction m generalizing d with
  | nil => simp [dictUpdate, dictLast?]
  | cons p rest ih =>
    obtain ⟨a, b⟩ := p
    have : dictUpdate d ((a, b) :: rest) = dictUpdate (dictSet d a b) rest := by
      simp [dictUpdate]
    rw [this, ih, dictGet?_dictSet]
    simp only [dictLast?]
    cases dictLast? rest k with
    | some v => simp
    | none =>
      by_cases h : a = k <;> simp [h]

theorem dictLast?_none_of_not_mem (m : Dict) (k : Val) (h : k ∉ m.map (·.1)) : dictLast? m k = none := by
  induction m with
  | nil => rfl
  | cons p rest ih =>
    obtain ⟨a, b⟩ := p
    simp only [List.map_cons, List.mem_cons, not_or] at h
    simp only [dictLast?, ih h.2]
    simp [Ne.symm h.1]

theorem dictLast?_eq_dictGet? (m : Dict) (k : Val) (h : (m.map (·.1)).Nodup) : dictLast? m k = dictGet? m k := by
  induction m with
  | nil => rfl
  | cons p rest ih =>
    obtain ⟨a, b⟩ := p
    simp only [List.map_cons, List.nodup_cons] at h
    simp only [dictLast?, dictGet?]
    by_cases hk : a = k
    · subst hk
      simp [dictLast?_none_of_not_mem rest a h.1]
    · simp only [if_neg hk, ih h.2]
      cases dictGet? rest k <;> rfl

theorem get?_overwriteScalars (sc kvs : Ctx) (k : String) :
    Ctx.get? (overwriteScalars sc kvs) k = (Ctx.get? sc k).map (fun old => (Ctx.get? kvs k).getD old) := by
  induction sc with
  | nil => rfl
  | cons p rest ih =>
    obtain ⟨k', v⟩ := p
    simp only [overwriteScalars, List.map_cons, Ctx.get?] at ih ⊢
    by_cases h : k' = k
    · subst h; simp
    · simp only [if_neg h]; exact ih

/-! ## One `Config.update` -/

/-- `old.update(...)` with what the file says for that dict prop (when `dict.update` accepts it). -/
def overlayDict (old : Dict) (v : Option Val) : Dict :=
  match v.bind pairsOf with
  | some m => dictUpdate old m
  | none => old

theorem dictUpdate_cons (d : Dict) (k v : Val) (m : Dict) :
    dictUpdate d ((k, v) :: m) = dictUpdate (dictSet d k v) m := by
  simp [dictUpdate]

theorem updateSeq_ok (xs : List Val) : ∀ (d d' : Dict), updateSeq d xs = (d', none) →
    ∃ m, seqPairs xs = some m ∧ d' = dictUpdate d m := by
  induction xs with
  | nil =>
    intro d d' h
    simp only [updateSeq, Prod.mk.injEq, and_true] at h
    exact ⟨[], rfl, by subst h; rfl⟩
  | cons x xs ih =>
    intro d d' h
    unfold updateSeq at h
    cases hx : seqPair x with
    | error exc => simp [hx] at h
    | ok kv =>
      obtain ⟨k, v⟩ := kv
      simp only [hx] at h
      obtain ⟨m, hm, hd⟩ := ih _ _ h
      refine ⟨(k, v) :: m, by simp [seqPairs, hx, hm], ?_⟩
      rw [dictUpdate_cons]; exact hd

theorem updateSeq_err (xs : List Val) : ∀ (d d' : Dict) (exc : String), updateSeq d xs = (d', some exc) →
    seqPairs xs = none := by
  induction xs with
  | nil => intro d d' exc h; simp [updateSeq] at h
  | cons x xs ih =>
    intro d d' exc h
    unfold updateSeq at h
    cases hx : seqPair x with
    | error e => simp [seqPairs, hx]
    | ok kv =>
      obtain ⟨k, v⟩ := kv
      simp only [hx] at h
      simp [seqPairs, hx, ih _ _ _ h]

/-- `dict.update(v)` succeeds exactly on the values that denote pairs, and then sets those pairs -/
theorem dictUpdateVal_ok (d d' : Dict) (v : Val) (h : dictUpdateVal d v = (d', none)) :
    ∃ m, pairsOf v = some m ∧ d' = dictUpdate d m := by
  cases v <;> simp only [dictUpdateVal, Prod.mk.injEq, reduceCtorEq, and_false] at h
  case dict m => exact ⟨m, rfl, by simp at h; exact h.symm⟩
  case list xs => exact updateSeq_ok xs d d' h
  case tuple xs => exact updateSeq_ok xs d d' h
  case str s =>
    by_cases hs : s.isEmpty = true
    · simp only [hs, if_true, Prod.mk.injEq, and_true] at h
      exact ⟨[], by simp [pairsOf, hs], by subst h; rfl⟩
    · simp [hs] at h

theorem dictUpdateVal_err (d d' : Dict) (v : Val) (exc : String) (h : dictUpdateVal d v = (d', some exc)) :
    pairsOf v = none := by
  cases v <;> simp only [dictUpdateVal, Prod.mk.injEq, reduceCtorEq, and_false] at h <;> try rfl
  case list xs => exact updateSeq_err xs d d' exc h
  case tuple xs => exact updateSeq_err xs d d' exc h
  case str s =>
    by_cases hs : s.isEmpty = true
    · simp [hs] at h
    · simp [pairsOf, hs]

theorem updateDicts_ok {ds ds' : List (String × Dict)} {kvs : Ctx}
    (h : updateDicts ds kvs = (ds', none)) (name : String) :
    dictsGet? ds' name = (dictsGet? ds name).map (fun old => overlayDict old (Ctx.get? kvs name)) := by
  induction ds generalizing ds' with
  | nil => simp [updateDicts] at h; subst h; rfl
  | cons p rest ih =>
    obtain ⟨n, d⟩ := p
    unfold updateDicts at h
    cases hget : Ctx.get? kvs n with
    | none =>
      simp only [hget, Prod.mk.injEq] at h
      obtain ⟨h1, h2⟩ := h
      have hr : updateDicts rest kvs = ((updateDicts rest kvs).1, none) := by rw [← h2]
      have := ih hr
      subst h1
      simp only [dictsGet?]
      by_cases hn : n = name
      · subst hn; simp [hget, overlayDict]
      · simp [hn, this]
    | some v =>
      simp only [hget] at h
      cases hu : dictUpdateVal d v with
      | mk d1 e1 =>
        cases e1 with
        | some exc => simp [hu] at h
        | none =>
          simp only [hu, Prod.mk.injEq] at h
          obtain ⟨h1, h2⟩ := h
          have hr : updateDicts rest kvs = ((updateDicts rest kvs).1, none) := by rw [← h2]
          have := ih hr
          obtain ⟨m, hm, hd1⟩ := dictUpdateVal_ok d d1 v hu
          subst h1
          simp only [dictsGet?]
          by_cases hn : n = name
          · subst hn; simp [hget, overlayDict, hm, hd1]
          · simp [hn, this]

theorem update_ok_scalar {st st' : ConfigState} {kvs : Ctx} (h : update st kvs = (st', none)) (k : String) :
    st'.scalar? k = (st.scalar? k).map (fun old => (Ctx.get? kvs k).getD old) := by
  unfold update updateOrd updateDictsOrd at h
  simp only [Bool.false_eq_true, if_false] at h
  split at h
  · simp at h
  · split at h
    · simp at h
    · simp only [Prod.mk.injEq, and_true] at h
      subst h
      simp [ConfigState.scalar?, get?_overwriteScalars]

theorem update_ok_dict {st st' : ConfigState} {kvs : Ctx} (h : update st kvs = (st', none)) (name : String) :
    st'.dict? name = (st.dict? name).map (fun old => overlayDict old (Ctx.get? kvs name)) := by
  unfold update updateOrd updateDictsOrd at h
  simp only [Bool.false_eq_true, if_false] at h
  split at h
  · simp at h
  · split at h
    · simp at h
    · rename_i ds hd
      simp only [Prod.mk.injEq, and_true] at h
      subst h
      simp only [ConfigState.dict?]
      exact updateDicts_ok hd name

/-! ## One `handle_path` -/

theorem applyFileSt_mapping (st : ConfigState) (path : String) (kvs : Ctx) :
    applyFileSt st path (.mapping kvs) =
      if kvs.isEmpty then (st, none)
      else match update st kvs with
        | (st', some e) => (st', some e)
        | (st', none) => ({ st' with loaded := st'.loaded ++ [path] }, none) := rfl

theorem applyFileSt_ok_scalar {st st' : ConfigState} {path : String} {p : Payload}
    (h : applyFileSt st path p = (st', none)) (k : String) :
    st'.scalar? k = (st.scalar? k).map (fun old => (settingOf p k).getD old) := by
  cases p with
  | nonMapping t => simp [applyFileSt, applyFileStOrd] at h
  | parseError exc => simp [applyFileSt, applyFileStOrd] at h
  | toolNotTable => simp [applyFileSt, applyFileStOrd] at h
  | none =>
    simp only [applyFileSt, applyFileStOrd, Prod.mk.injEq, and_true] at h; subst h; simp [settingOf]
  | unreadable kd =>
    simp only [applyFileSt, applyFileStOrd, Prod.mk.injEq, and_true] at h; subst h; simp [settingOf]
  | mapping kvs =>
    rw [applyFileSt_mapping] at h
    split at h
    · rename_i hempty
      simp only [Prod.mk.injEq, and_true] at h; subst h
      have : kvs = [] := by simpa using hempty
      subst this
      simp [settingOf, Ctx.get?]
    · split at h
      · simp at h
      · rename_i st1 hu
        simp only [Prod.mk.injEq, and_true] at h; subst h
        have := update_ok_scalar hu k
        simpa [ConfigState.scalar?, settingOf] using this

theorem applyFileSt_ok_dict {st st' : ConfigState} {path : String} {p : Payload}
    (h : applyFileSt st path p = (st', none)) (name : String) :
    st'.dict? name = (st.dict? name).map (fun old => overlayDict old (settingOf p name)) := by
  cases p with
  | nonMapping t => simp [applyFileSt, applyFileStOrd] at h
  | parseError exc => simp [applyFileSt, applyFileStOrd] at h
  | toolNotTable => simp [applyFileSt, applyFileStOrd] at h
  | none =>
    simp only [applyFileSt, applyFileStOrd, Prod.mk.injEq, and_true] at h; subst h
    simp [settingOf, overlayDict]
  | unreadable kd =>
    simp only [applyFileSt, applyFileStOrd, Prod.mk.injEq, and_true] at h; subst h
    simp [settingOf, overlayDict]
  | mapping kvs =>
    rw [applyFileSt_mapping] at h
    split at h
    · rename_i hempty
      simp only [Prod.mk.injEq, and_true] at h; subst h
      have : kvs = [] := by simpa using hempty
      subst this
      simp [settingOf, Ctx.get?, overlayDict]
    · split at h
      · simp at h
      · rename_i st1 hu
        simp only [Prod.mk.injEq, and_true] at h; subst h
        have := update_ok_dict hu name
        simpa [ConfigState.dict?, settingOf] using this

theorem dictGet?_overlayDict (old : Dict) (p : Payload) (name : String) (key : Val) :
    dictGet? (overlayDict old (settingOf p name)) key = (dictSettingOf p name key).or (dictGet? old key) := by
  unfold dictSettingOf overlayDict
  cases (settingOf p name).bind pairsOf with
  | none => simp
  | some m => simp [dictGet?_dictUpdate]

/-! ## A sequence of `handle_path` calls -/

theorem applyAll_cons_ok {st st' : ConfigState} {path : String} {p : Payload} {rest : List (String × Payload)}
    (h : applyAll st ((path, p) :: rest) = (st', none)) :
    ∃ st1, applyFileSt st path p = (st1, none) ∧ applyAll st1 rest = (st', none) := by
  unfold applyAll at h
  split at h
  · simp at h
  · rename_i st1 h1
    exact ⟨st1, h1, h⟩

theorem applyAll_ok_scalar {st st' : ConfigState} {ps : List (String × Payload)}
    (h : applyAll st ps = (st', none)) (k : String) :
    st'.scalar? k = (st.scalar? k).map (fun old => (highest k (ps.map (·.2))).getD old) := by
  induction ps generalizing st with
  | nil =>
    simp only [applyAll, Prod.mk.injEq, and_true] at h; subst h
    simp [highest]
  | cons hd rest ih =>
    obtain ⟨path, p⟩ := hd
    obtain ⟨st1, h1, h2⟩ := applyAll_cons_ok h
    rw [ih h2, applyFileSt_ok_scalar h1 k]
    simp only [List.map_cons, highest, Option.map_map]
    congr 1
    funext old
    simp only [Function.comp]
    cases highest k (List.map (·.2) rest) <;> simp

theorem applyAll_ok_dict {st st' : ConfigState} {ps : List (String × Payload)}
    (h : applyAll st ps = (st', none)) (name : String) (d0 : Dict) (h0 : st.dict? name = some d0) :
    ∃ d', st'.dict? name = some d' ∧
      ∀ key, dictGet? d' key = (highestDict name key (ps.map (·.2))).or (dictGet? d0 key) := by
  induction ps generalizing st d0 with
  | nil =>
    simp only [applyAll, Prod.mk.injEq, and_true] at h; subst h
    exact ⟨d0, h0, by simp [highestDict]⟩
  | cons hd rest ih =>
    obtain ⟨path, p⟩ := hd
    obtain ⟨st1, h1, h2⟩ := applyAll_cons_ok h
    have hd1 := applyFileSt_ok_dict h1 name
    rw [h0] at hd1
    simp only [Option.map_some] at hd1
    obtain ⟨d', hd', hkeys⟩ := ih h2 _ hd1
    refine ⟨d', hd', fun key => ?_⟩
    rw [hkeys key, dictGet?_overlayDict]
    simp only [List.map_cons, highestDict]
    cases highestDict name key (List.map (·.2) rest) <;> simp

theorem applyAll_ok_dict_none {st st' : ConfigState} {ps : List (String × Payload)}
    (h : applyAll st ps = (st', none)) (name : String) (h0 : st.dict? name = none) : st'.dict? name = none := by
  induction ps generalizing st with
  | nil => simp only [applyAll, Prod.mk.injEq, and_true] at h; subst h; exact h0
  | cons hd rest ih =>
    obtain ⟨path, p⟩ := hd
    obtain ⟨st1, h1, h2⟩ := applyAll_cons_ok h
    have hd1 := applyFileSt_ok_dict h1 name
    rw [h0] at hd1
    exact ih h2 (by simpa using hd1)

theorem highestDict_eq' (name : String) (key : Val) (ps : List Payload) (h : ∀ p ∈ ps, DictsNodup p) :
    highestDict name key ps = highestDict' name key ps := by
  induction ps with
  | nil => rfl
  | cons p rest ih =>
    have hr := ih (fun q hq => h q (List.mem_cons_of_mem _ hq))
    simp only [highestDict, highestDict', hr]
    have : dictSettingOf p name key = dictSettingOf' p name key := by
      unfold dictSettingOf dictSettingOf'
      cases hs : settingOf p name with
      | none => rfl
      | some v =>
        simp only [Option.bind_some]
        cases hp : pairsOf v with
        | none => rfl
        | some m => exact dictLast?_eq_dictGet? m key (h p List.mem_cons_self name v m hs hp)
    rw [this]

/-- A rejected file ends the sequence with the state the earlier files produced. -/
theorem applyAll_append_reject {st st1 st2 : ConfigState} {ps rest : List (String × Payload)}
    {path : String} {p : Payload} {err : CfgErr}
    (h1 : applyAll st ps = (st1, none)) (h2 : applyFileSt st1 path p = (st2, some err)) :
    applyAll st (ps ++ (path, p) :: rest) = (st2, some err) := by
  induction ps generalizing st with
  | nil =>
    simp only [applyAll, Prod.mk.injEq, and_true] at h1; subst h1
    simp [applyAll, h2]
  | cons hd tl ih =>
    obtain ⟨path', p'⟩ := hd
    obtain ⟨sta, ha, hb⟩ := applyAll_cons_ok h1
    simp only [List.cons_append, applyAll, ha]
    exact ih hb

theorem applyAll_skip_none (st : ConfigState) (ps₁ ps₂ : List (String × Payload)) (path : String) :
    applyAll st (ps₁ ++ (path, .none) :: ps₂) = applyAll st (ps₁ ++ ps₂) := by
  induction ps₁ generalizing st with
  | nil => simp [applyAll, applyFileSt, applyFileStOrd]
  | cons hd tl ih =>
    obtain ⟨path', p'⟩ := hd
    simp only [List.cons_append, applyAll]
    split
    · rfl
    · exact ih _

/-! ## `init` as a fold over the look-up order -/

/-- What each look-up yields: the file's payload, `Payload.none` for a file that is not there. -/
def payloadsOf (fs : Files) (looks : List Look) : List (String × Payload) :=
  looks.map fun l => (l.path, (fs.get? l.path).getD .none)

theorem handlePath_eq_applyFileSt (fs : Files) (st : ConfigState) (l : Look)
    (hl : l.mustExist = true → fs.opens l.path = true) :
    handlePath fs st l = applyFileSt st l.path ((fs.get? l.path).getD .none) := by
  unfold handlePath load
  cases hg : fs.get? l.path with
  | none =>
    cases hm : l.mustExist with
    | true => simp [Files.opens, hg, hm] at hl
    | false => simp [applyFileSt, applyFileStOrd]
  | some p =>
    cases p with
    | unreadable kd =>
      cases hm : l.mustExist with
      | true => simp [Files.opens, hg, hm] at hl
      | false => simp [applyFileSt, applyFileStOrd]
    | none => simp
    | mapping kvs => simp
    | nonMapping t => simp
    | parseError exc => simp
    | toolNotTable => simp

theorem runLooks_eq_applyAll (fs : Files) (st : ConfigState) (looks : List Look)
    (hex : ∀ l ∈ looks, l.mustExist = true → fs.opens l.path = true) :
    runLooks fs st looks = applyAll st (payloadsOf fs looks) := by
  induction looks generalizing st with
  | nil => rfl
  | cons l ls ih =>
    have hl := hex l List.mem_cons_self
    have hls := fun st' => ih st' (fun q hq => hex q (List.mem_cons_of_mem _ hq))
    simp only [runLooks, payloadsOf, List.map_cons, applyAll]
    rw [handlePath_eq_applyFileSt fs st l hl]
    split
    · rfl
    · rename_i st' _
      exact hls st'

theorem runLooks_missing (fs : Files) (st : ConfigState) (l : Look) (ls : List Look)
    (hm : l.mustExist = true) (hg : fs.opens l.path = false) :
    runLooks fs st (l :: ls) = (st, some (.notFound l.path)) := by
  have hh : handlePath fs st l = (st, some (.notFound l.path)) := by
    unfold handlePath load
    cases hget : fs.get? l.path with
    | none => simp [hm]
    | some p =>
      cases p <;> simp [Files.opens, hget] at hg
      simp [hm]
  simp [runLooks, hh]

theorem consulted_prefix (fs : Files) (st : ConfigState) (looks : List Look) :
    consulted fs st looks <+: looks.map (·.path) := by
  induction looks generalizing st with
  | nil => simp [consulted]
  | cons l ls ih =>
    simp only [consulted, List.map_cons]
    split
    · exact ⟨ls.map (·.path), by simp⟩
    · rename_i st' _
      obtain ⟨t, ht⟩ := ih st'
      exact ⟨t, by simp [ht]⟩

theorem consulted_all_of_ok (fs : Files) (st st' : ConfigState) (looks : List Look)
    (h : runLooks fs st looks = (st', none)) : consulted fs st looks = looks.map (·.path) := by
  induction looks generalizing st with
  | nil => rfl
  | cons l ls ih =>
    simp only [runLooks] at h
    simp only [consulted, List.map_cons]
    split at h
    · simp at h
    · rename_i st1 h1
      rw [ih st1 h]

theorem handlePath_ok {fs : Files} {st st1 : ConfigState} {l : Look} (h1 : handlePath fs st l = (st1, none)) :
    applyFileSt st l.path ((fs.get? l.path).getD .none) = (st1, none) := by
  unfold handlePath load at h1
  cases hg : fs.get? l.path with
  | none =>
    cases hm : l.mustExist with
    | true => simp [hg, hm] at h1
    | false => simpa [hg, hm] using h1
  | some p =>
    cases p with
    | unreadable kd =>
      cases hm : l.mustExist with
      | true => simp [hg, hm] at h1
      | false =>
        simp only [hg, hm] at h1
        simpa [applyFileSt, applyFileStOrd] using h1
    | none => simpa [hg] using h1
    | mapping kvs => simpa [hg] using h1
    | nonMapping t => simpa [hg] using h1
    | parseError exc => simpa [hg] using h1
    | toolNotTable => simpa [hg] using h1

theorem runLooks_ok_applyAll {fs : Files} {st st' : ConfigState} {looks : List Look}
    (h : runLooks fs st looks = (st', none)) : applyAll st (payloadsOf fs looks) = (st', none) := by
  induction looks generalizing st with
  | nil => exact h
  | cons l ls ih =>
    simp only [runLooks] at h
    split at h
    · simp at h
    · rename_i st1 h1
      simp only [payloadsOf, List.map_cons, applyAll, handlePath_ok h1]
      exact ih h

/-! ## `init` past its two early exits -/

theorem handlePath_missing (fs : Files) (st : ConfigState) (l : Look)
    (hm : l.mustExist = true) (hg : fs.opens l.path = false) :
    handlePath fs st l = (st, some (.notFound l.path)) := by
  unfold handlePath load
  cases hget : fs.get? l.path with
  | none => simp [hm]
  | some p =>
    cases p <;> simp [Files.opens, hget] at hg
    simp [hm]

theorem platformFails_of_global (e : Env) (g : String) (hg : e.globalPath? = some g) : e.platformFails = false := by
  simp [Env.platformFails, hg]

theorem initOn_unfold (st : ConfigState) (e : Env) (fs : Files) (hs : e.skip = false) (hp : e.platformFails = false) :
    initOn st e fs = runLooks fs st (lookOrder e) := by
  simp [initOn, hs, hp]

theorem initOrder_unfold (e : Env) (hs : e.skip = false) (hp : e.platformFails = false) :
    initOrder e = lookOrder e := by
  simp [initOrder, hs, hp]

/-- a successful `init` got past the platform look-up -/
theorem initOn_ok {st st' : ConfigState} {e : Env} {fs : Files} (hs : e.skip = false)
    (h : initOn st e fs = (st', none)) :
    e.platformFails = false ∧ runLooks fs st (lookOrder e) = (st', none) := by
  cases hp : e.platformFails with
  | true => simp [initOn, hs, hp] at h
  | false => exact ⟨rfl, by simpa [initOn, hs, hp] using h⟩

theorem initSt_eq (e : Env) (fs : Files) : initSt e fs = initOn (defaults e) e fs := rfl

/-! ## "The last one that says something" -/

def lastSome {α β : Type} (f : α → Option β) : List α → Option β
  | [] => none
  | a :: as => match lastSome f as with
    | some v => some v
    | none => f a

theorem lastSome_eq_none {α β : Type} (f : α → Option β) (xs : List α) :
    lastSome f xs = none ↔ ∀ x ∈ xs, f x = none := by
  induction xs with
  | nil => simp [lastSome]
  | cons a as ih =>
    simp only [lastSome, List.mem_cons, forall_eq_or_imp]
    cases h : lastSome f as with
    | some v =>
      simp only [reduceCtorEq, false_iff, not_and]
      intro _ hall
      rw [ih.mpr hall] at h
      cases h
    | none =>
      simp only []
      exact ⟨fun ha => ⟨ha, ih.mp h⟩, fun hh => hh.1⟩

/-- `lastSome f xs = some v` exactly when some element says `v` and nothing after it says anything. -/
theorem lastSome_eq_some {α β : Type} (f : α → Option β) (xs : List α) (v : β) :
    lastSome f xs = some v ↔
      ∃ pre x post, xs = pre ++ x :: post ∧ f x = some v ∧ ∀ y ∈ post, f y = none := by
  induction xs with
  | nil => simp [lastSome]
  | cons a as ih =>
    simp only [lastSome]
    cases h : lastSome f as with
    | some w =>
      simp only [Option.some.injEq]
      constructor
      · intro hw
        subst hw
        obtain ⟨pre, x, post, hxs, hx, hpost⟩ := (ih.mp (by rw [h]))
        exact ⟨a :: pre, x, post, by simp [hxs], hx, hpost⟩
      · rintro ⟨pre, x, post, hxs, hx, hpost⟩
        cases pre with
        | nil =>
          simp only [List.nil_append, List.cons.injEq] at hxs
          have hn := (lastSome_eq_none f as).mpr (by rw [hxs.2]; exact hpost)
          rw [hn] at h
          cases h
        | cons b pre' =>
          simp only [List.cons_append, List.cons.injEq] at hxs
          have := (ih.mpr ⟨pre', x, post, hxs.2, hx, hpost⟩)
          rw [h] at this
          exact Option.some.inj this
    | none =>
      simp only []
      have hnone := (lastSome_eq_none f as).mp h
      constructor
      · intro ha
        exact ⟨[], a, as, rfl, ha, hnone⟩
      · rintro ⟨pre, x, post, hxs, hx, hpost⟩
        cases pre with
        | nil =>
          simp only [List.nil_append, List.cons.injEq] at hxs
          obtain ⟨rfl, _⟩ := hxs
          exact hx
        | cons b pre' =>
          simp only [List.cons_append, List.cons.injEq] at hxs
          have : f x = none := hnone x (by rw [hxs.2]; simp)
          rw [this] at hx
          cases hx

theorem highest_eq_lastSome (k : String) (ps : List Payload) :
    highest k ps = lastSome (fun p => settingOf p k) ps := by
  induction ps with
  | nil => rfl
  | cons p rest ih =>
    simp only [highest, lastSome, ih]
    cases lastSome (fun p => settingOf p k) rest <;> rfl

theorem highestDict_eq_lastSome (d : String) (key : Val) (ps : List Payload) :
    highestDict d key ps = lastSome (fun p => dictSettingOf p d key) ps := by
  induction ps with
  | nil => rfl
  | cons p rest ih =>
    simp only [highestDict, lastSome, ih]
    cases lastSome (fun p => dictSettingOf p d key) rest <;> rfl

/-! ## Defaults -/

def tableGet? : List (String × DefaultSrc) → String → Option DefaultSrc
  | [], _ => none
  | (k, s) :: rest, name => if k = name then some s else tableGet? rest name

/-- The default of writable prop `k` as `Config.__init__` computes it in environment `e`. -/
def defaultOf (e : Env) (k : String) : Option Val := (tableGet? defaultsTable k).map (evalDefault e)

theorem get?_filter_map (t : List (String × DefaultSrc)) (f : String → Bool) (g : DefaultSrc → Val) (k : String) :
    Ctx.get? ((t.filter (fun p => f p.1)).map (fun p => (p.1, g p.2))) k
      = if f k then (tableGet? t k).map g else none := by
  induction t with
  | nil => simp [Ctx.get?, tableGet?]
  | cons p rest ih =>
    obtain ⟨k', s⟩ := p
    simp only [List.filter_cons]
    by_cases hf : f k' = true
    · simp only [hf, if_true, List.map_cons, Ctx.get?, tableGet?]
      by_cases hk : k' = k
      · subst hk; simp [hf]
      · simp only [if_neg hk]; exact ih
    · simp only [hf, tableGet?]
      by_cases hk : k' = k
      · subst hk
        simp only [Bool.not_eq_true] at hf
        simpa [hf] using ih
      · simp only [if_neg hk]; exact ih

theorem defaults_scalar (e : Env) (k : String) :
    (defaults e).scalar? k = if dictProps.contains k then none else defaultOf e k := by
  simp only [ConfigState.scalar?, defaults, defaultOf]
  rw [get?_filter_map defaultsTable (fun k => !dictProps.contains k) (evalDefault e) k]
  cases dictProps.contains k <;> simp

theorem scalarProps_have_default : ∀ k ∈ scalarProps,
    dictProps.contains k = false ∧ (tableGet? defaultsTable k).isSome = true := by
  decide +kernel

theorem defaults_dict (e : Env) : ∀ d ∈ dictProps, (defaults e).dict? d = some [] := by
  intro d hd
  have : d = "shortcuts" ∨ d = "vars" := by simpa [dictProps] using hd
  rcases this with h | h <;> subst h <;> rfl

end Pypyr.C20
