/- Helper lemmas for C17: the content of a command's stdout file. -/
import PypyrModel.Cmd

set_option linter.unusedSimpArgs false

namespace Pypyr.Cmd

theorem Fs.get_set_same (fs : Fs) (p s : String) : (Fs.set fs p s).get p = some s := by
  induction fs with
  | nil => simp [Fs.set, Fs.get]
  | cons kv rest ih =>
    obtain ⟨q, t⟩ := kv
    by_cases h : q = p <;> simp [Fs.set, Fs.get, h, ih]

theorem Fs.get_write_same (fs : Fs) (p s : String) :
    (Fs.write fs p s).get p = some ((fs.get p).getD "" ++ s) := by
  simp [Fs.write, Fs.get_set_same]

theorem Fs.get_openW_same (fs : Fs) (append : Bool) (p : String) :
    (Fs.openW fs append p).get p = some (if append then (fs.get p).getD "" else "") := by
  cases append
  · simp [Fs.openW, Fs.get_set_same]
  · simp only [Fs.openW, if_true]
    cases h : Fs.get fs p <;> simp [h, Fs.get_set_same]

/-- Only stdout goes to the file `p`; stderr is inherited / discarded. -/
def Redirect.onlyStdoutFile (r : Redirect) (p : String) : Prop :=
  r.stdout = .file p ∧ (r.stderr = .inherit ∨ r.stderr = .devnull) ∧ r.openErr = none

theorem writeProc_get (r : Redirect) (p : String) (h : r.onlyStdoutFile p) (q : Proc) (fs : Fs) :
    (r.writeProc q fs).get p = some ((fs.get p).getD "" ++ q.out) := by
  obtain ⟨h1, h2, _⟩ := h
  cases h2 with
  | inl h2 => simp [Redirect.writeProc, h1, h2, Fs.get_write_same]
  | inr h2 => simp [Redirect.writeProc, h1, h2, Fs.get_write_same]

/-- What some processes wrote to stdout, one after the other. -/
def catOut : List Proc → String
  | [] => ""
  | q :: qs => q.out ++ catOut qs

theorem foldl_writeProc_get (r : Redirect) (p : String) (h : r.onlyStdoutFile p) (qs : List Proc) (fs : Fs)
    (base : String) (hb : fs.get p = some base) :
    (qs.foldl (fun f q => r.writeProc q f) fs).get p = some (base ++ catOut qs) := by
  induction qs generalizing fs base with
  | nil => simp [hb, catOut]
  | cons q qs ih =>
    simp only [List.foldl_cons, List.map_cons]
    have := writeProc_get r p h q fs
    rw [hb] at this
    rw [ih _ _ (by simpa using this)]
    simp [catOut, String.append_assoc]

theorem openFs_get (r : Redirect) (p : String) (h : r.onlyStdoutFile p) (fs : Fs) :
    (r.openFs fs).get p = some (if r.append then (fs.get p).getD "" else "") := by
  obtain ⟨h1, h2, h3⟩ := h
  cases h2 with
  | inl h2 => simp [Redirect.openFs, h1, h2, h3, Fs.get_openW_same]
  | inr h2 => simp [Redirect.openFs, h1, h2, h3, Fs.get_openW_same]

end Pypyr.Cmd
