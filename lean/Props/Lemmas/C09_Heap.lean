/-
  Helper lemmas for C09 at heap level (`PypyrModel/FmtHeap.lean`): heap extension, the memo
  invariants, and the fuel induction over `fmtH` / `fmtHField` / `fmtHKeep`.
-/
import PypyrModel.FmtHeap
import Props.Lemmas.C09_Tree

namespace Pypyr.C09
open Pypyr Pypyr.FmtHeap

/-- Cells the formatter may allocate: strings and containers — never a non-string leaf, never a
    special tag. -/
def isAllocCell : Cell → Bool
  | .str _ | .list _ _ | .tuple _ _ | .dict _ _ | .set _ _ => true
  | _ => false

/-- `Ext h h'`: `h'` is `h` followed by freshly allocated string / container cells. Every cell of
    `h` is still there, unchanged, at the same address. -/
def Ext (h h' : Heap) : Prop := ∃ ext, h' = h ++ ext ∧ ∀ c ∈ ext, isAllocCell c = true

theorem Ext.refl (h : Heap) : Ext h h := ⟨[], by simp, by simp⟩

theorem Ext.trans {a b c : Heap} (h1 : Ext a b) (h2 : Ext b c) : Ext a c := by
  obtain ⟨e1, rfl, he1⟩ := h1
  obtain ⟨e2, rfl, he2⟩ := h2
  refine ⟨e1 ++ e2, by simp, ?_⟩
  intro x hx
  rcases List.mem_append.mp hx with h | h
  · exact he1 x h
  · exact he2 x h

theorem Ext.alloc (h : Heap) (c : Cell) (hc : isAllocCell c = true) : Ext h (alloc h c).1 :=
  ⟨[c], rfl, by simpa using hc⟩

theorem Ext.length_le {h h' : Heap} (e : Ext h h') : h.length ≤ h'.length := by
  obtain ⟨ext, rfl, _⟩ := e; simp

theorem Ext.get {h h' : Heap} (e : Ext h h') {i : Nat} {c : Cell} (hc : h[i]? = some c) :
    h'[i]? = some c := by
  obtain ⟨ext, rfl, _⟩ := e
  have hi : i < h.length := by
    rcases Nat.lt_or_ge i h.length with hlt | hge
    · exact hlt
    · rw [List.getElem?_eq_none hge] at hc; cases hc
  rw [List.getElem?_append_left hi]; exact hc

theorem Ext.new_isAlloc {h h' : Heap} (e : Ext h h') {i : Nat} {c : Cell} (hi : h.length ≤ i)
    (hc : h'[i]? = some c) : isAllocCell c = true := by
  obtain ⟨ext, rfl, hall⟩ := e
  rw [List.getElem?_append_right hi] at hc
  exact hall c (List.mem_of_getElem? hc)

theorem isLeafCell_not_alloc {c : Cell} (h : isAllocCell c = true) : isLeafCell c = false := by
  cases c <;> simp [isAllocCell] at h <;> rfl

theorem Ext.not_leaf {h h' : Heap} (e : Ext h h') {x : Nat}
    (hx : ∀ c, h[x]? = some c → isLeafCell c = false) : ∀ c, h'[x]? = some c → isLeafCell c = false := by
  intro c hc
  rcases Nat.lt_or_ge x h.length with hlt | hge
  · have : h[x]? = some h[x] := List.getElem?_eq_getElem hlt
    have h2 := e.get this
    rw [h2] at hc
    cases hc
    exact hx _ this
  · exact isLeafCell_not_alloc (e.new_isAlloc hge hc)

theorem Ext.isNoneCell_false {h h' : Heap} (e : Ext h h') {d : Nat}
    (hd : isNoneCell h d = false) : isNoneCell h' d = false := by
  rcases Nat.lt_or_ge d h.length with hlt | hge
  · have h1 : h[d]? = some h[d] := List.getElem?_eq_getElem hlt
    have h2 := e.get h1
    simp only [isNoneCell, h1] at hd
    simp only [isNoneCell, h2]
    exact hd
  · cases hc : h'[d]? with
    | none => simp [isNoneCell, hc]
    | some c =>
      have := e.new_isAlloc hge hc
      cases c <;> simp [isAllocCell] at this <;> simp [isNoneCell, hc]

/-! ### the memo -/

theorem memoGet_memoSet (m : Memo) (r d x : Ref) :
    memoGet (memoSet m r d) x = if x = r then some d else memoGet m x := by
  induction m with
  | nil =>
    simp only [memoSet, memoGet]
    by_cases h : x = r
    · simp [h]
    · have : ¬ r = x := fun e => h e.symm
      simp [h, this]
  | cons p rest ih =>
    obtain ⟨r', d'⟩ := p
    simp only [memoSet]
    by_cases h1 : r' = r
    · subst h1
      simp only [if_true, memoGet]
      by_cases h2 : r' = x
      · subst h2; simp
      · have : ¬ x = r' := fun e => h2 e.symm
        simp [h2, this]
    · simp only [h1, if_false, memoGet]
      by_cases h2 : r' = x
      · subst h2; simp [h1]
      · simp [h2, ih]

/-- No non-string leaf (immutable leaf or bytearray) is ever a key of the memo (`return obj` /
    `new is obj` happens before `memo[...] = new`). -/
def MemoNoLeaf (st : St) : Prop :=
  ∀ r d, memoGet st.memo r = some d → ∀ c, st.heap[r]? = some c → isLeafCell c = false

/-- What one `_get_formatted_iterable` call may do to the state: allocate, and add memo entries for
    non-leaf objects; entries that answer (`already_done is not None`) keep answering the same. -/
structure Good (st st' : St) : Prop where
  ext : Ext st.heap st'.heap
  noLeaf : MemoNoLeaf st → MemoNoLeaf st'
  stable : ∀ x d, memoHit st x = some d → memoHit st' x = some d

theorem Good.refl (st : St) : Good st st := ⟨Ext.refl _, id, fun _ _ h => h⟩

theorem Good.trans {a b c : St} (h1 : Good a b) (h2 : Good b c) : Good a c :=
  ⟨h1.ext.trans h2.ext, fun h => h2.noLeaf (h1.noLeaf h), fun x d h => h2.stable x d (h1.stable x d h)⟩

theorem memoHit_some {st : St} {x d : Ref} (h : memoHit st x = some d) :
    memoGet st.memo x = some d ∧ isNoneCell st.heap d = false := by
  simp only [memoHit] at h
  split at h
  · cases h
  · rename_i d' hd
    split at h
    · cases h
    · rename_i hn
      cases h
      exact ⟨hd, by simpa using hn⟩

theorem memoHit_of {st : St} {x d : Ref} (h1 : memoGet st.memo x = some d)
    (h2 : isNoneCell st.heap d = false) : memoHit st x = some d := by
  simp [memoHit, h1, h2]

/-- Closing step of every non-leaf branch of `fmtH`: after the children were formatted (`st1`),
    the heap was extended (`h2`) and `memo[id(obj)] = new` was (perhaps) executed. -/
theorem Good.finish {st st1 : St} {h2 : Heap} {r nr : Ref} {cell : Cell}
    (g : Good st st1) (e : Ext st1.heap h2) (hmiss : memoHit st r = none)
    (hcell : st.heap[r]? = some cell) (hnl : isLeafCell cell = false) :
    Good st { heap := h2, memo := memoIf st1.memo r nr } := by
  have eAll : Ext st.heap h2 := g.ext.trans e
  refine ⟨eAll, ?_, ?_⟩
  · intro hn x d hx c
    have hn1 := g.noLeaf hn
    simp only [memoIf] at hx
    by_cases hxr : x = r
    · subst hxr
      have := eAll.get hcell
      simp only [this]
      intro hc; cases hc; exact hnl
    · have hx1 : memoGet st1.memo x = some d := by
        split at hx
        · exact hx
        · rw [memoGet_memoSet] at hx; simpa [hxr] using hx
      exact e.not_leaf (hn1 x d hx1) c
  · intro x d hx
    have hxr : x ≠ r := by
      intro e'; subst e'; rw [hmiss] at hx; cases hx
    have ⟨hg, hnc⟩ := memoHit_some (g.stable x d hx)
    apply memoHit_of
    · simp only [memoIf]
      split
      · exact hg
      · rw [memoGet_memoSet]; simpa [hxr] using hg
    · exact e.isNoneCell_false hnc

/-! ### mapS -/

theorem mapS_inv {σ α β} {f : α → σ → Except Exc (β × σ)} (R : σ → σ → Prop)
    (hrefl : ∀ s, R s s) (htrans : ∀ a b c, R a b → R b c → R a c)
    (hstep : ∀ x s y s', f x s = .ok (y, s') → R s s') :
    ∀ (xs : List α) (s : σ) (ys : List β) (s' : σ), mapS f xs s = .ok (ys, s') → R s s'
  | [], s, ys, s', h => by simp only [mapS] at h; cases h; exact hrefl s
  | x :: xs, s, ys, s', h => by
    simp only [mapS] at h
    split at h
    · cases h
    · rename_i y s1 hy
      split at h
      · cases h
      · rename_i ys' s2 hys
        cases h
        exact htrans _ _ _ (hstep x s y s1 hy) (mapS_inv R hrefl htrans hstep xs s1 ys' _ hys)

theorem mapS_length {σ α β} {f : α → σ → Except Exc (β × σ)} :
    ∀ (xs : List α) (s : σ) (ys : List β) (s' : σ), mapS f xs s = .ok (ys, s') → ys.length = xs.length
  | [], s, ys, s', h => by simp only [mapS] at h; cases h; rfl
  | x :: xs, s, ys, s', h => by
    simp only [mapS] at h
    split at h
    · cases h
    · rename_i y s1 hy
      split at h
      · cases h
      · rename_i ys' s2 hys
        cases h
        simp [mapS_length xs s1 ys' _ hys]

/-! ### the fuel induction -/

theorem dictStep_good {n : Nat} {ctx : HCtx} {isRec : Bool}
    (ihH : ∀ ctx isRec r st r' st', fmtH n ctx isRec r st = .ok (r', st') → Good st st')
    (kv : Ref × Ref) (s : St) (y : Ref × Ref) (s' : St)
    (h : (match fmtH n ctx isRec kv.1 s with
          | .error e => Except.error e
          | .ok (k, s1) => match fmtH n ctx isRec kv.2 s1 with
            | .error e => .error e
            | .ok (v, s2) =>
              if hashableH (s2.heap.length + 1) s2.heap k then .ok ((k, v), s2)
              else .error unhashable) = .ok (y, s')) : Good s s' := by
  split at h
  · cases h
  · rename_i k s1 hk
    split at h
    · cases h
    · rename_i v s2 hv
      split at h
      · cases h; exact (ihH _ _ _ _ _ _ hk).trans (ihH _ _ _ _ _ _ hv)
      · cases h

theorem setStep_good {n : Nat} {ctx : HCtx} {isRec : Bool}
    (ihH : ∀ ctx isRec r st r' st', fmtH n ctx isRec r st = .ok (r', st') → Good st st')
    (m : Ref) (s : St) (y : Ref) (s' : St)
    (h : (match fmtH n ctx isRec m s with
          | .error e => Except.error e
          | .ok (m', s1) =>
            if hashableH (s1.heap.length + 1) s1.heap m' then .ok (m', s1)
            else .error unhashable) = .ok (y, s')) : Good s s' := by
  split at h
  · cases h
  · rename_i m' s1 hm
    split at h
    · cases h; exact ihH _ _ _ _ _ _ hm
    · cases h

theorem pieceStep_ext {n : Nat} {ctx : HCtx} {isRec : Bool}
    (ihF : ∀ ctx isRec name spec h o b h', fmtHField n ctx isRec name spec h = .ok (o, b, h') → Ext h h')
    (p : Piece) (hh : Heap) (y : String) (h' : Heap)
    (h : (match p with
          | Piece.lit t => Except.ok (t, hh)
          | Piece.field name spec =>
            match fmtHField n ctx isRec name spec hh with
            | .error e => .error e
            | .ok (o, _, h1) => match deepVal h1 o with
              | none => .error outOfFuel
              | some v => .ok (pyStr v, h1)) = .ok (y, h')) : Ext hh h' := by
  split at h
  · cases h; exact Ext.refl _
  · split at h
    · cases h
    · rename_i o b h1 hf
      split at h
      · cases h
      · cases h; exact ihF _ _ _ _ _ _ _ _ hf

/-- Every successful call of the three mutually recursive functions only allocates (and keeps the
    memo invariants). By induction on the fuel, for all arguments. -/
theorem fmtH_good_all : ∀ fuel : Nat,
    (∀ ctx isRec r st r' st', fmtH fuel ctx isRec r st = .ok (r', st') → Good st st') ∧
    (∀ ctx isRec name spec h o b h', fmtHField fuel ctx isRec name spec h = .ok (o, b, h') → Ext h h') ∧
    (∀ ctx isRec r s h r' h', fmtHKeep fuel ctx isRec r s h = .ok (r', h') → Ext h h') := by
  intro fuel
  induction fuel with
  | zero =>
    refine ⟨?_, ?_, ?_⟩
    · intro ctx isRec r st r' st' h; simp [fmtH] at h
    · intro ctx isRec name spec h o b h' hh; simp [fmtHField] at hh
    · intro ctx isRec r s h r' h' hh; simp [fmtHKeep] at hh
  | succ n ih =>
    obtain ⟨ihH, ihF, ihK⟩ := ih
    refine ⟨?_, ?_, ?_⟩
    · intro ctx isRec r st r' st' h
      unfold fmtH at h
      split at h
      · cases h; exact Good.refl st
      · rename_i hmiss
        split at h
        · cases h
        · rename_i cell hcell
          split at h
          · -- leaf
            cases h; exact Good.refl st
          · -- mbytes
            cases h; exact Good.refl st
          · -- sic
            cases h
            exact Good.finish (Good.refl st) (Ext.refl _) hmiss hcell rfl
          · -- pyName
            split at h
            · cases h
            · cases h
              exact Good.finish (Good.refl st) (Ext.refl _) hmiss hcell rfl
          · -- jsonify
            split at h
            · cases h
            · rename_i fp st1 hin
              split at h
              · cases h
              · split at h
                · cases h
                · rename_i s hs
                  simp only [alloc] at h
                  cases h
                  have e1 : Ext st.heap st1.heap := (ihH _ _ _ _ _ _ hin).ext
                  exact Good.finish (Good.refl st) (e1.trans (Ext.alloc _ (.str s) rfl)) hmiss hcell
                    rfl
          · -- str
            split at h
            · cases h
            · rename_i nr h1 hk
              cases h
              exact Good.finish (Good.refl st) (ihK _ _ _ _ _ _ _ hk) hmiss hcell rfl
          · -- dict
            split at h
            · cases h
            · rename_i kvs' st1 hm
              split at h
              · cases h
              · rename_i kvs'' hr
                simp only [alloc] at h
                cases h
                have g := mapS_inv Good Good.refl (fun _ _ _ => Good.trans) (dictStep_good ihH) _ _ _ _ hm
                exact Good.finish g (Ext.alloc _ _ rfl) hmiss hcell rfl
          · -- list
            split at h
            · cases h
            · rename_i rs' st1 hm
              simp only [alloc] at h
              cases h
              have g := mapS_inv Good Good.refl (fun _ _ _ => Good.trans) (fun x s y s' => ihH ctx isRec x s y s') _ _ _ _ hm
              exact Good.finish g (Ext.alloc _ _ rfl) hmiss hcell rfl
          · -- tuple
            split at h
            · cases h
            · rename_i rs' st1 hm
              simp only [alloc] at h
              cases h
              have g := mapS_inv Good Good.refl (fun _ _ _ => Good.trans) (fun x s y s' => ihH ctx isRec x s y s') _ _ _ _ hm
              exact Good.finish g (Ext.alloc _ _ rfl) hmiss hcell rfl
          · -- set
            split at h
            · cases h
            · rename_i rs' st1 hm
              split at h
              · cases h
              · rename_i rs'' hr
                simp only [alloc] at h
                cases h
                have g := mapS_inv Good Good.refl (fun _ _ _ => Good.trans) (setStep_good ihH) _ _ _ _ hm
                exact Good.finish g (Ext.alloc _ _ rfl) hmiss hcell rfl
    · intro ctx isRec name spec h o b h' hh
      unfold fmtHField at hh
      split at hh
      · cases hh
      · split at hh
        · split at hh
          · cases hh
          · rename_i o' st2 hin
            cases hh
            exact (ihH _ _ _ _ _ _ hin).ext
        · cases hh; exact Ext.refl _
    · intro ctx isRec r s h r' h' hh
      unfold fmtHKeep at hh
      split at hh
      · cases hh
      · split at hh
        · simp only [alloc, Prod.swap] at hh
          cases hh
          exact Ext.alloc h (.str "") rfl
        · split at hh
          · cases hh; exact Ext.refl _
          · simp only [alloc, Prod.swap] at hh
            cases hh
            exact Ext.alloc h _ rfl
        · split at hh
          · cases hh
          · rename_i o recursed h1 hf
            split at hh
            · cases hh; exact ihF _ _ _ _ _ _ _ _ hf
            · split at hh
              · cases hh
              · rename_i o' st2 hin
                cases hh
                exact (ihF _ _ _ _ _ _ _ _ hf).trans (ihH _ _ _ _ _ _ hin).ext
        · split at hh
          · cases hh
          · rename_i strs h1 hm
            simp only [alloc, Prod.swap] at hh
            cases hh
            have e := mapS_inv Ext Ext.refl (fun _ _ _ => Ext.trans) (pieceStep_ext ihF) _ _ _ _ hm
            exact e.trans (Ext.alloc _ _ rfl)

theorem fmtH_good {fuel : Nat} {ctx : HCtx} {isRec : Bool} {r r' : Ref} {st st' : St}
    (h : fmtH fuel ctx isRec r st = .ok (r', st')) : Good st st' :=
  (fmtH_good_all fuel).1 ctx isRec r st r' st' h

/-! ### reading values from an extended heap -/

theorem mapO_mono {α β} {f g : α → Option β} (hfg : ∀ x y, f x = some y → g x = some y) :
    ∀ (xs : List α) (ys : List β), mapO f xs = some ys → mapO g xs = some ys
  | [], ys, h => by simpa [mapO] using h
  | x :: xs, ys, h => by
    simp only [mapO] at h
    split at h
    · cases h
    · rename_i y hy
      split at h
      · cases h
      · rename_i ys' hys
        cases h
        simp [mapO, hfg x y hy, mapO_mono hfg xs ys' hys]

/-- The tree value read at any address of `h` is the same in every extension of `h`. -/
theorem readVal_ext {h h' : Heap} (e : Ext h h') :
    ∀ (fuel : Nat) (r : Ref) (v : Val), readVal fuel h r = some v → readVal fuel h' r = some v := by
  intro fuel
  induction fuel with
  | zero => intro r v hv; simp [readVal] at hv
  | succ n ih =>
    intro r v hv
    unfold readVal at hv
    split at hv
    · cases hv
    · rename_i hc; unfold readVal; rw [e.get hc]; exact hv
    · rename_i hc; unfold readVal; rw [e.get hc]; exact hv
    · rename_i hc; unfold readVal; rw [e.get hc]; exact hv
    · rename_i t rs hc
      unfold readVal; rw [e.get hc]
      cases hm : mapO (readVal n h) rs with
      | none => rw [hm] at hv; cases hv
      | some ys => rw [hm] at hv; simp only [mapO_mono ih rs ys hm]; exact hv
    · rename_i t rs hc
      unfold readVal; rw [e.get hc]
      cases hm : mapO (readVal n h) rs with
      | none => rw [hm] at hv; cases hv
      | some ys => rw [hm] at hv; simp only [mapO_mono ih rs ys hm]; exact hv
    · rename_i t rs hc
      unfold readVal; rw [e.get hc]
      cases hm : mapO (readVal n h) rs with
      | none => rw [hm] at hv; cases hv
      | some ys => rw [hm] at hv; simp only [mapO_mono ih rs ys hm]; exact hv
    · rename_i t kvs hc
      unfold readVal; rw [e.get hc]
      simp only [Option.map_eq_some_iff] at hv ⊢
      obtain ⟨ys, hm, rfl⟩ := hv
      refine ⟨ys, mapO_mono ?_ kvs ys hm, rfl⟩
      intro kv y hy
      split at hy
      · cases hy
      · rename_i k hk
        split at hy
        · cases hy
        · rename_i w hw
          cases hy
          simp [ih _ _ hk, ih _ _ hw]
    · rename_i p hc
      unfold readVal; rw [e.get hc]
      split at hv
      · rename_i s hs; simp only [ih _ _ hs]; exact hv
      · cases hv
    · rename_i nm hc; unfold readVal; rw [e.get hc]; exact hv
    · rename_i p hc
      unfold readVal; rw [e.get hc]
      simp only [Option.map_eq_some_iff] at hv ⊢
      obtain ⟨w, hw, rfl⟩ := hv
      exact ⟨w, ih _ _ hw, rfl⟩

/-! ### leaf identity -/

theorem memoHit_none_of_leaf {st : St} {r : Ref} {c : Cell} (hn : MemoNoLeaf st)
    (hc : st.heap[r]? = some c) (hl : isLeafCell c = true) : memoHit st r = none := by
  simp only [memoHit]
  cases hg : memoGet st.memo r with
  | none => rfl
  | some d => have := hn r d hg c hc; rw [hl] at this; cases this

/-- A non-string leaf — immutable (None, bool, number, bytes, arbitrary object) or the mutable
    `bytearray` — is returned as the same reference, and nothing at all happens to the state. -/
theorem fmtH_leaf {fuel : Nat} {ctx : HCtx} {isRec : Bool} {r r' : Ref} {st st' : St} {c : Cell}
    (hn : MemoNoLeaf st) (hc : st.heap[r]? = some c) (hl : isLeafCell c = true)
    (h : fmtH fuel ctx isRec r st = .ok (r', st')) : r' = r ∧ st' = st := by
  cases fuel with
  | zero => simp [fmtH] at h
  | succ n =>
    unfold fmtH at h
    rw [memoHit_none_of_leaf hn hc hl] at h
    simp only [hc] at h
    cases c <;> simp [isLeafCell] at hl <;> (cases h; exact ⟨rfl, rfl⟩)

theorem mapS_rel {σ α β} {f : α → σ → Except Exc (β × σ)} (Q : σ → Prop) (R : α → β → Prop)
    (hstep : ∀ x s y s', Q s → f x s = .ok (y, s') → R x y ∧ Q s') :
    ∀ (xs : List α) (s : σ) (ys : List β) (s' : σ), Q s → mapS f xs s = .ok (ys, s') →
      All₂ R xs ys ∧ Q s'
  | [], s, ys, s', hq, h => by simp only [mapS] at h; cases h; exact ⟨All₂.nil, hq⟩
  | x :: xs, s, ys, s', hq, h => by
    simp only [mapS] at h
    split at h
    · cases h
    · rename_i y s1 hy
      split at h
      · cases h
      · rename_i ys' s2 hys
        cases h
        have ⟨hr, hq1⟩ := hstep x s y s1 hq hy
        have ⟨ht, hq2⟩ := mapS_rel Q R hstep xs s1 ys' _ hq1 hys
        exact ⟨All₂.cons hr ht, hq2⟩

/-- Children of a sequence node: formatted in order, and every child that is a non-string leaf
    comes out as the same reference. Holds at any node reached with a memo that has no leaf keys
    (true of the empty memo and preserved by every call). -/
theorem mapS_fmtH_leaves {n : Nat} {ctx : HCtx} {isRec : Bool} {st st1 : St} {rs rs' : List Ref}
    (hn : MemoNoLeaf st) (hm : mapS (fmtH n ctx isRec) rs st = .ok (rs', st1)) :
    All₂ (fun x y => ∀ c, st.heap[x]? = some c → isLeafCell c = true → y = x) rs rs' ∧ Good st st1 := by
  have := mapS_rel (f := fmtH n ctx isRec) (fun s => Good st s ∧ MemoNoLeaf s)
    (fun x y => ∀ c, st.heap[x]? = some c → isLeafCell c = true → y = x)
    (by
      intro x s y s' ⟨hg, hns⟩ hxy
      have g' := fmtH_good hxy
      refine ⟨?_, hg.trans g', g'.noLeaf hns⟩
      intro c hc hl
      exact (fmtH_leaf hns (hg.ext.get hc) hl hxy).1)
    rs st rs' st1 ⟨Good.refl st, hn⟩ hm
  exact ⟨this.1, this.2.1⟩

/-! ### sharing through the memo -/

def isContainerAt (h : Heap) (x : Ref) : Bool :=
  match h[x]? with
  | some (.list _ _) | some (.tuple _ _) | some (.dict _ _) | some (.set _ _) => true
  | _ => false

theorem isContainerAt_ext {h h' : Heap} (e : Ext h h') {x : Ref} (hx : isContainerAt h x = true) :
    isContainerAt h' x = true := by
  unfold isContainerAt at hx ⊢
  split at hx <;> first | (rename_i hc; simp [e.get hc]) | cases hx

/-- `already_done is not None: return already_done`. -/
theorem fmtH_hit {n : Nat} {ctx : HCtx} {isRec : Bool} {r d : Ref} {st : St}
    (h : memoHit st r = some d) : fmtH (n + 1) ctx isRec r st = .ok (d, st) := by
  unfold fmtH; simp [h]

theorem getElem?_concat_length {α} (l : List α) (a : α) : (l ++ [a])[l.length]? = some a := by
  simp

theorem memoHit_after_alloc {st1 : St} {r : Nat} {c : Cell} (hr : r < st1.heap.length)
    (hc : isLeafCell c = false) :
    memoHit { heap := st1.heap ++ [c], memo := memoIf st1.memo r st1.heap.length } r
      = some st1.heap.length := by
  apply memoHit_of
  · have : ¬ st1.heap.length = r := Nat.ne_of_gt hr
    simp [memoIf, this, memoGet_memoSet]
  · simp only [isNoneCell, getElem?_concat_length]
    cases c <;> first | rfl | (simp [isLeafCell] at hc)

/-- After a container object was formatted, the memo answers for it with the result. -/
theorem fmtH_records {fuel : Nat} {ctx : HCtx} {isRec : Bool} {r r' : Nat} {st st' : St}
    (hc : isContainerAt st.heap r = true) (h : fmtH fuel ctx isRec r st = .ok (r', st')) :
    memoHit st' r = some r' := by
  cases fuel with
  | zero => simp [fmtH] at h
  | succ n =>
    have hlt : r < st.heap.length := by
      rcases Nat.lt_or_ge r st.heap.length with hlt | hge
      · exact hlt
      · simp [isContainerAt, List.getElem?_eq_none hge] at hc
    unfold fmtH at h
    split at h
    · rename_i d hd; cases h; exact hd
    · split at h
      · cases h
      · rename_i cell hcell
        unfold isContainerAt at hc
        rw [hcell] at hc
        split at h
        · simp at hc
        · simp at hc
        · simp at hc
        · simp at hc
        · simp at hc
        · simp at hc
        · split at h
          · cases h
          · rename_i kvs' st1 hm
            split at h
            · cases h
            · simp only [alloc] at h
              cases h
              have g := mapS_inv Good Good.refl (fun _ _ _ => Good.trans)
                (dictStep_good (fun c i r st r' st' => (fmtH_good_all n).1 c i r st r' st')) _ _ _ _ hm
              exact memoHit_after_alloc (by have := g.ext.length_le; omega) rfl
        · split at h
          · cases h
          · rename_i rs' st1 hm
            simp only [alloc] at h
            cases h
            have g := mapS_inv Good Good.refl (fun _ _ _ => Good.trans)
              (fun x s y s' => (fmtH_good_all n).1 ctx isRec x s y s') _ _ _ _ hm
            exact memoHit_after_alloc (by have := g.ext.length_le; omega) rfl
        · split at h
          · cases h
          · rename_i rs' st1 hm
            simp only [alloc] at h
            cases h
            have g := mapS_inv Good Good.refl (fun _ _ _ => Good.trans)
              (fun x s y s' => (fmtH_good_all n).1 ctx isRec x s y s') _ _ _ _ hm
            exact memoHit_after_alloc (by have := g.ext.length_le; omega) rfl
        · split at h
          · cases h
          · rename_i rs' st1 hm
            split at h
            · cases h
            · simp only [alloc] at h
              cases h
              have g := mapS_inv Good Good.refl (fun _ _ _ => Good.trans)
                (setStep_good (fun c i r st r' st' => (fmtH_good_all n).1 c i r st r' st')) _ _ _ _ hm
              exact memoHit_after_alloc (by have := g.ext.length_le; omega) rfl

/-- An object for which the memo already answers comes out as that answer at every later
    position of the same traversal. -/
theorem mapS_fmtH_hit {n : Nat} {ctx : HCtx} {isRec : Bool} :
    ∀ (xs : List Ref) (s : St) (ys : List Ref) (s' : St),
      mapS (fmtH n ctx isRec) xs s = .ok (ys, s') →
      ∀ (x d : Nat), memoHit s x = some d → ∀ (j : Nat), xs[j]? = some x → ys[j]? = some d
  | [], s, ys, s', h, x, d, _, j, hj => by simp at hj
  | x0 :: xs, s, ys, s', h, x, d, hd, j, hj => by
    simp only [mapS] at h
    split at h
    · cases h
    · rename_i y s1 hy
      split at h
      · cases h
      · rename_i ys' s2 hys
        cases h
        cases j with
        | zero =>
          simp at hj; subst hj
          cases n with
          | zero => simp [fmtH] at hy
          | succ m => rw [fmtH_hit hd] at hy; cases hy; simp
        | succ j' =>
          simp at hj
          have hd1 := (fmtH_good hy).stable x d hd
          simpa using mapS_fmtH_hit xs s1 ys' _ hys x d hd1 j' hj

/-- **Sharing.** Inside one traversal, a container object that occurs at two positions is
    formatted once: both positions of the result hold the same reference. -/
theorem mapS_fmtH_shared {n : Nat} {ctx : HCtx} {isRec : Bool} :
    ∀ (xs : List Ref) (s : St) (ys : List Ref) (s' : St),
      mapS (fmtH n ctx isRec) xs s = .ok (ys, s') →
      ∀ (i j x : Nat), i < j → xs[i]? = some x → xs[j]? = some x → isContainerAt s.heap x = true →
        ys[i]? = ys[j]?
  | [], s, ys, s', h, i, j, x, _, hi, _, _ => by simp at hi
  | x0 :: xs, s, ys, s', h, i, j, x, hij, hi, hj, hc => by
    simp only [mapS] at h
    split at h
    · cases h
    · rename_i y s1 hy
      split at h
      · cases h
      · rename_i ys' s2 hys
        cases h
        cases j with
        | zero => omega
        | succ j' =>
          simp at hj
          cases i with
          | zero =>
            simp at hi; subst hi
            have hrec := fmtH_records hc hy
            have := mapS_fmtH_hit xs s1 ys' _ hys x0 y hrec j' hj
            simp [this]
          | succ i' =>
            simp at hi
            have := mapS_fmtH_shared xs s1 ys' _ hys i' j' x (by omega) hi hj
              (isContainerAt_ext (fmtH_good hy).ext hc)
            simpa using this

end Pypyr.C09
