/- Helper lemmas for C18: the phases of `pypyr.cli.main`, its handler ladder, and what leaves it. -/
import PypyrModel.Cli

namespace Pypyr.Cli

/-! ### the ladder as data -/

/-- Does an `except` clause naming these classes catch what was raised? `KeyboardInterrupt`,
    `SystemExit` and the other non-`Exception` classes derive from `BaseException` only; everything
    else the model distinguishes is an `Exception`. -/
def catches (classes : List String) : Raised → Bool
  | .nothing => false
  | .keyboardInterrupt => classes.any fun c => c = "KeyboardInterrupt" || c = "BaseException"
  | .systemExit _ => classes.any fun c => c = "SystemExit" || c = "BaseException"
  | .baseOther _ _ => classes.any fun c => c = "BaseException"
  | _ => classes.any fun c => c = "Exception" || c = "BaseException"

/-- Value of the expression a handler returns (the two the source uses; `signal.SIGINT` is 2). -/
def evalRet (src : String) : Option Nat :=
  if src = "128 + signal.SIGINT" then some 130
  else if src = "255" then some 255
  else none

/-- First matching handler of an ordered ladder: `none` = not caught, `some none` = the handler's
    result is not one the model can evaluate. -/
def ladderRet : List (List String × String) → Raised → Option (Option Nat)
  | [], _ => none
  | (cs, ret) :: hs, r => if catches cs r then some (evalRet ret) else ladderRet hs r

/-- The model's ladder `cliMain` is the ladder `mainHandlers` read as data: caught exactly when
    `cliMain` has a result, and then with that return value. -/
theorem ladderRet_mainHandlers (x : Raised) (hx : x ≠ .nothing) :
    ladderRet mainHandlers x = (cliMain x).map (·.ret) := by
  cases x <;> first | exact absurd rfl hx | simp [ladderRet, mainHandlers, catches, evalRet, cliMain]

/-- What the `Exception` handler of the model writes is `mainStderrWrites` evaluated. -/
theorem renderWrites_main (ty msg : String) :
    renderWrites ty msg mainStderrWrites = (cliMain (.error ty msg)).map (·.stderr) := by
  have h1 : ("str(e)" = "type(e).__name__") = False := by decide +kernel
  simp [-String.reduceAppend, renderWrites, renderPieces, mainStderrWrites, cliMain, h1, String.append_assoc]

/-! ### sequencing -/

theorem seqRaises_nil (f : Faults) : seqRaises f [] = .nothing := rfl

theorem seqRaises_cons_nothing (f : Faults) (p : Phase) (ps : List Phase)
    (h : callRaises f p = .nothing) : seqRaises f (p :: ps) = seqRaises f ps := by
  simp [seqRaises, h]

theorem seqRaises_cons_raises (f : Faults) (p : Phase) (ps : List Phase)
    (h : callRaises f p ≠ .nothing) : seqRaises f (p :: ps) = callRaises f p := by
  unfold seqRaises
  split
  · rename_i h'; exact absurd h' h
  · rfl

/-- A sequence of calls raises nothing iff every call returns. -/
theorem seqRaises_nothing_iff (f : Faults) (ps : List Phase) :
    seqRaises f ps = .nothing ↔ ∀ p ∈ ps, callRaises f p = .nothing := by
  induction ps with
  | nil => simp [seqRaises]
  | cons p ps ih =>
    by_cases h : callRaises f p = .nothing
    · rw [seqRaises_cons_nothing f p ps h, ih]
      simp [h]
    · rw [seqRaises_cons_raises f p ps h]
      simp [h]

/-- What a sequence raises is what its first raising call raises. -/
theorem seqRaises_first (f : Faults) (pre post : List Phase) (p : Phase)
    (hpre : ∀ q ∈ pre, callRaises f q = .nothing) (hp : callRaises f p ≠ .nothing) :
    seqRaises f (pre ++ p :: post) = callRaises f p := by
  induction pre with
  | nil => exact seqRaises_cons_raises f p post hp
  | cons a as ih =>
    rw [List.cons_append, seqRaises_cons_nothing f a _ (hpre a (by simp))]
    exact ih (fun q hq => hpre q (by simp [hq]))

/-- What a sequence raises is nothing or what one of its calls raises. -/
theorem seqRaises_mem (f : Faults) (ps : List Phase) :
    seqRaises f ps = .nothing ∨ ∃ p ∈ ps, seqRaises f ps = callRaises f p := by
  induction ps with
  | nil => exact .inl rfl
  | cons p ps ih =>
    by_cases h : callRaises f p = .nothing
    · rw [seqRaises_cons_nothing f p ps h]
      rcases ih with ih | ⟨q, hq, ih⟩
      · exact .inl ih
      · exact .inr ⟨q, by simp [hq], ih⟩
    · rw [seqRaises_cons_raises f p ps h]
      exact .inr ⟨p, by simp, rfl⟩

/-- `Pipeline.run` lets everything but the Stop family through unchanged; in particular it neither
    produces nor absorbs a `BaseException`. -/
theorem pipelineRun_isBase (r : Raised) : (pipelineRun r).isBase = r.isBase := by
  cases r <;> rfl

theorem callRaises_isBase (f : Faults) (p : Phase) : (callRaises f p).isBase = (f p).isBase := by
  cases p <;> simp [callRaises, pipelineRun_isBase]

/-- If no call raises a `BaseException` other than `KeyboardInterrupt`, the sequence does not. -/
theorem seqRaises_not_base (f : Faults) (ps : List Phase) (h : ∀ p, (f p).isBase = false) :
    (seqRaises f ps).isBase = false := by
  rcases seqRaises_mem f ps with h' | ⟨p, _, h'⟩
  · rw [h']; rfl
  · rw [h', callRaises_isBase]; exact h p

/-- The calls of `main` split at any phase: those before it in source order, it, those after. -/
theorem inTry_split (p : Phase) :
    ∃ pre post, mainShape.inTry = pre ++ p :: post ∧ ∀ q, q ∈ pre ↔ q.idx < p.idx := by
  cases p
  · exact ⟨[], [.setRootLogger, .runPipeline], rfl, by intro q; cases q <;> simp [Phase.idx]⟩
  · exact ⟨[.configInit], [.runPipeline], rfl, by intro q; cases q <;> simp [Phase.idx]⟩
  · exact ⟨[.configInit, .setRootLogger], [], rfl, by intro q; cases q <;> simp [Phase.idx]⟩

theorem mem_inTry (p : Phase) : p ∈ mainShape.inTry := by
  cases p <;> simp [mainShape]

/-- The runner call returns exactly when the run completed or a Stop-family instruction ended it. -/
theorem run_call_returns_iff (f : Faults) :
    callRaises f .runPipeline = .nothing ↔
      (f .runPipeline = .nothing ∨ f .runPipeline = .stop ∨ f .runPipeline = .stopPipeline ∨
       f .runPipeline = .stopStepGroup) := by
  simp only [callRaises]
  cases f .runPipeline <;> simp [pipelineRun]

/-- `Pipeline.run` never lets a Stop-family signal out. -/
theorem run_call_never_stop (f : Faults) :
    callRaises f .runPipeline ≠ .stop ∧ callRaises f .runPipeline ≠ .stopPipeline ∧
    callRaises f .runPipeline ≠ .stopStepGroup := by
  simp only [callRaises]
  cases f .runPipeline <;> simp [pipelineRun]

/-! ### the ladder -/

/-- What the `try` statement does with each kind of exception. -/
theorem tryMain_spec (x : Raised) :
    (x = .nothing → tryMain x = .returned ⟨none, "", ""⟩) ∧
    (x = .keyboardInterrupt → tryMain x = .returned ⟨some 130, "\n", ""⟩) ∧
    (∀ ty msg, x = .error ty msg →
        tryMain x = .returned ⟨some 255, "", "\n" ++ "\x1b[91m" ++ ty ++ ": " ++ msg ++ "\x1b[0;0m" ++ "\n"⟩) ∧
    (x = .stop → tryMain x = .returned ⟨some 255, "", "\n" ++ "\x1b[91m" ++ "Stop" ++ ": " ++ "" ++ "\x1b[0;0m" ++ "\n"⟩) ∧
    (x = .stopPipeline →
        tryMain x = .returned ⟨some 255, "", "\n" ++ "\x1b[91m" ++ "StopPipeline" ++ ": " ++ "" ++ "\x1b[0;0m" ++ "\n"⟩) ∧
    (x = .stopStepGroup →
        tryMain x = .returned ⟨some 255, "", "\n" ++ "\x1b[91m" ++ "StopStepGroup" ++ ": " ++ "" ++ "\x1b[0;0m" ++ "\n"⟩) ∧
    (x.isBase = true → tryMain x = .escaped x) := by
  cases x <;> simp [tryMain, cliMain, Raised.isBase]

/-- The five ways a call of `main` can end, by what its `try` body raised. -/
theorem tryMain_cases (x : Raised) :
    ((tryMain x).status = some 0 ∧ x = .nothing) ∨
    ((tryMain x).status = some 130 ∧ x = .keyboardInterrupt) ∨
    ((tryMain x).status = some 255 ∧ x.isException = true) ∨
    (∃ c, x = .systemExit c ∧ tryMain x = .escaped x ∧ (tryMain x).status = some c.status) ∨
    (∃ ty msg, x = .baseOther ty msg ∧ tryMain x = .escaped x ∧ (tryMain x).status = some 1) := by
  cases x <;> simp [tryMain, cliMain, Outcome.status, sysExit, Raised.isException]

/-- Without a `BaseException` other than `KeyboardInterrupt`: three ways, and `main` returns. -/
theorem tryMain_cases_of_not_base (x : Raised) (hb : x.isBase = false) :
    (∃ m, tryMain x = .returned m) ∧
    (((tryMain x).status = some 0 ∧ x = .nothing) ∨
     ((tryMain x).status = some 130 ∧ x = .keyboardInterrupt) ∨
     ((tryMain x).status = some 255 ∧ x ≠ .nothing ∧ x ≠ .keyboardInterrupt)) := by
  cases x <;> simp_all [tryMain, cliMain, Outcome.status, sysExit, Raised.isBase]

end Pypyr.Cli
