/- Helper lemmas for C18: the phases of `pypyr.cli.main` and its handler ladder. -/
import PypyrModel.Cli

namespace Pypyr.Cli

/-! ### the ladder as data -/

/-- Does an `except` clause naming these classes catch what was raised? `KeyboardInterrupt` derives
    from `BaseException` only; everything else the model distinguishes is an `Exception`. -/
def catches (classes : List String) : Raised → Bool
  | .nothing => false
  | .keyboardInterrupt => classes.any fun c => c = "KeyboardInterrupt" || c = "BaseException"
  | _ => classes.any fun c => c = "Exception" || c = "BaseException"

/-- Value of the expression a handler returns (the two the source uses; `signal.SIGINT` is 2). -/
def evalRet (src : String) : Option Nat :=
  if src = "128 + signal.SIGINT" then some 130
  else if src = "255" then some 255
  else none

/-- First matching handler of an ordered ladder: `none` = not caught, `some none` = the handler's
    result is not one the model can evaluate. -/
def ladderRet : List (List String × String) → Raised → Option (Option Nat)
  | [], _ => none
  | (cs, ret) :: hs, r => if catches cs r then some (evalRet ret) else ladderRet hs r

/-- The model's ladder `cliMain` is the ladder `mainHandlers` read as data. -/
theorem ladderRet_mainHandlers (x : Raised) (hx : x ≠ .nothing) :
    ladderRet mainHandlers x = some (cliMain x).ret := by
  cases x <;> first | exact absurd rfl hx | simp [ladderRet, mainHandlers, catches, evalRet, cliMain]

/-- What the `Exception` handler of the model writes is `mainStderrWrites` evaluated. -/
theorem renderWrites_main (ty msg : String) :
    renderWrites ty msg mainStderrWrites = some (cliMain (.error ty msg)).stderr := by
  have h1 : ("str(e)" = "type(e).__name__") = False := by decide +kernel
  simp [-String.reduceAppend, renderWrites, renderPieces, mainStderrWrites, cliMain, h1, String.append_assoc]

/-! ### sequencing -/

theorem seqRaises_nil (f : Faults) : seqRaises f [] = .nothing := rfl

theorem seqRaises_cons_nothing (f : Faults) (p : Phase) (ps : List Phase)
    (h : callRaises f p = .nothing) : seqRaises f (p :: ps) = seqRaises f ps := by
  simp [seqRaises, h]

theorem seqRaises_cons_raises (f : Faults) (p : Phase) (ps : List Phase)
    (h : callRaises f p ≠ .nothing) : seqRaises f (p :: ps) = callRaises f p := by
  unfold seqRaises
  split
  · rename_i h'; exact absurd h' h
  · rfl

/-- A sequence of calls raises nothing iff every call returns. -/
theorem seqRaises_nothing_iff (f : Faults) (ps : List Phase) :
    seqRaises f ps = .nothing ↔ ∀ p ∈ ps, callRaises f p = .nothing := by
  induction ps with
  | nil => simp [seqRaises]
  | cons p ps ih =>
    by_cases h : callRaises f p = .nothing
    · rw [seqRaises_cons_nothing f p ps h, ih]
      simp [h]
    · rw [seqRaises_cons_raises f p ps h]
      simp [h]

/-- What a sequence raises is what its first raising call raises. -/
theorem seqRaises_first (f : Faults) (pre post : List Phase) (p : Phase)
    (hpre : ∀ q ∈ pre, callRaises f q = .nothing) (hp : callRaises f p ≠ .nothing) :
    seqRaises f (pre ++ p :: post) = callRaises f p := by
  induction pre with
  | nil => exact seqRaises_cons_raises f p post hp
  | cons a as ih =>
    rw [List.cons_append, seqRaises_cons_nothing f a _ (hpre a (by simp))]
    exact ih (fun q hq => hpre q (by simp [hq]))

/-- The calls of `main` split at any phase: those before it in source order, it, those after. -/
theorem inTry_split (p : Phase) :
    ∃ pre post, mainShape.inTry = pre ++ p :: post ∧ ∀ q, q ∈ pre ↔ q.idx < p.idx := by
  cases p
  · exact ⟨[], [.setRootLogger, .runPipeline], rfl, by intro q; cases q <;> simp [Phase.idx]⟩
  · exact ⟨[.configInit], [.runPipeline], rfl, by intro q; cases q <;> simp [Phase.idx]⟩
  · exact ⟨[.configInit, .setRootLogger], [], rfl, by intro q; cases q <;> simp [Phase.idx]⟩

theorem mem_inTry (p : Phase) : p ∈ mainShape.inTry := by
  cases p <;> simp [mainShape]

/-- The runner call returns exactly when the run completed or a Stop-family instruction ended it. -/
theorem run_call_returns_iff (f : Faults) :
    callRaises f .runPipeline = .nothing ↔
      (f .runPipeline = .nothing ∨ f .runPipeline = .stop ∨ f .runPipeline = .stopPipeline ∨
       f .runPipeline = .stopStepGroup) := by
  simp only [callRaises]
  cases f .runPipeline <;> simp [pipelineRun]

/-- `Pipeline.run` never lets a Stop-family signal out. -/
theorem run_call_never_stop (f : Faults) :
    callRaises f .runPipeline ≠ .stop ∧ callRaises f .runPipeline ≠ .stopPipeline ∧
    callRaises f .runPipeline ≠ .stopStepGroup := by
  simp only [callRaises]
  cases f .runPipeline <;> simp [pipelineRun]

/-! ### the ladder -/

theorem cliMain_status (x : Raised) :
    (x = .nothing → sysExit (cliMain x).ret = 0) ∧
    (x = .keyboardInterrupt → sysExit (cliMain x).ret = 130 ∧ (cliMain x).stdout = "\n" ∧ (cliMain x).stderr = "") ∧
    (∀ ty msg, x = .error ty msg → sysExit (cliMain x).ret = 255 ∧
        (cliMain x).stderr = "\n" ++ "\x1b[91m" ++ ty ++ ": " ++ msg ++ "\x1b[0;0m" ++ "\n") ∧
    (x = .stop → sysExit (cliMain x).ret = 255 ∧ (cliMain x).stderr = "\n" ++ "\x1b[91m" ++ "Stop" ++ ": " ++ "" ++ "\x1b[0;0m" ++ "\n") ∧
    (x = .stopPipeline → sysExit (cliMain x).ret = 255 ∧
        (cliMain x).stderr = "\n" ++ "\x1b[91m" ++ "StopPipeline" ++ ": " ++ "" ++ "\x1b[0;0m" ++ "\n") ∧
    (x = .stopStepGroup → sysExit (cliMain x).ret = 255 ∧
        (cliMain x).stderr = "\n" ++ "\x1b[91m" ++ "StopStepGroup" ++ ": " ++ "" ++ "\x1b[0;0m" ++ "\n") := by
  cases x <;> simp [cliMain, sysExit]

theorem cliMain_status_cases (x : Raised) :
    sysExit (cliMain x).ret = 0 ∧ x = .nothing ∨
    sysExit (cliMain x).ret = 130 ∧ x = .keyboardInterrupt ∨
    sysExit (cliMain x).ret = 255 ∧ x ≠ .nothing ∧ x ≠ .keyboardInterrupt := by
  cases x <;> simp [cliMain, sysExit]

end Pypyr.Cli
