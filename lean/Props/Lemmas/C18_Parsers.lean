/- Helper lemmas for C18: association-list dicts, `partition`, the key=value fold. -/
import PypyrModel.Cli

namespace Pypyr.Cli

/-! ### dict get / set -/

theorem dictGet_dictSet_same (d : List (Val × Val)) (k v : Val) :
    dictGet? (dictSet d k v) k = some v := by
  induction d with
  | nil => simp [dictSet, dictGet?]
  | cons kv rest ih =>
    obtain ⟨k', v'⟩ := kv
    by_cases h : k' = k
    · simp [dictSet, dictGet?, h]
    · simp [dictSet, dictGet?, h, ih]

theorem dictGet_dictSet_other (d : List (Val × Val)) (k k₂ v : Val) (hne : k₂ ≠ k) :
    dictGet? (dictSet d k v) k₂ = dictGet? d k₂ := by
  induction d with
  | nil =>
    have : ¬ k = k₂ := fun h => hne h.symm
    simp [dictSet, dictGet?, this]
  | cons kv rest ih =>
    obtain ⟨k', v'⟩ := kv
    by_cases h : k' = k
    · subst h
      have : ¬ k' = k₂ := fun h => hne h.symm
      simp [dictSet, dictGet?, this]
    · by_cases h2 : k' = k₂
      · subst h2
        simp [dictSet, dictGet?, h]
      · simp [dictSet, dictGet?, h, h2, ih]

/-- Keys of a dict after an assignment: an existing key keeps its place, a new key goes last. -/
theorem keys_dictSet (d : List (Val × Val)) (k v : Val) :
    (dictSet d k v).map (·.1) = if k ∈ d.map (·.1) then d.map (·.1) else d.map (·.1) ++ [k] := by
  induction d with
  | nil => simp [dictSet]
  | cons kv rest ih =>
    obtain ⟨k', v'⟩ := kv
    by_cases h : k' = k
    · simp [dictSet, h]
    · have h' : ¬ k = k' := fun e => h e.symm
      simp only [dictSet, h, if_false, List.map_cons, ih, List.mem_cons, h', false_or]
      split <;> simp

/-! ### `str.partition('=')` -/

theorem partitionEq_spec (cs : List Char) :
    '=' ∉ (partitionEq cs).1 ∧
    ((partitionEq cs).2.1 = true → cs = (partitionEq cs).1 ++ '=' :: (partitionEq cs).2.2) ∧
    ((partitionEq cs).2.1 = false → cs = (partitionEq cs).1 ∧ (partitionEq cs).2.2 = [] ∧ '=' ∉ cs) := by
  induction cs with
  | nil => simp [partitionEq]
  | cons c cs ih =>
    by_cases h : c = '='
    · simp [partitionEq, h]
    · have h' : ¬ '=' = c := fun e => h e.symm
      simp only [partitionEq, h, if_false, List.mem_cons, h', false_or, List.cons_append, List.cons.injEq,
        true_and]
      exact ⟨ih.1, ih.2.1, fun hf => ⟨(ih.2.2 hf).1, (ih.2.2 hf).2.1, (ih.2.2 hf).2.2⟩⟩

/-! ### the key=value fold -/

def kvStep (d : List (Val × Val)) (a : String) : List (Val × Val) :=
  dictSet d (.str (keyOf a)) (.str (valOf a))

theorem kvDict_eq (args : List String) : kvDict args = args.foldl kvStep [] := rfl

/-- Looking a key up after the fold: the value of the **last** argument with that key, else what
    was there before. -/
theorem foldl_kvStep_get (args : List String) (d : List (Val × Val)) (k : String) :
    dictGet? (args.foldl kvStep d) (.str k) =
      match args.reverse.find? (fun a => keyOf a = k) with
      | some a => some (.str (valOf a))
      | none => dictGet? d (.str k) := by
  induction args generalizing d with
  | nil => simp
  | cons a rest ih =>
    simp only [List.foldl_cons, List.reverse_cons, List.find?_append, ih]
    cases hr : rest.reverse.find? (fun a => keyOf a = k) with
    | some b => simp
    | none =>
      by_cases hk : keyOf a = k
      · simp [kvStep, hk, dictGet_dictSet_same]
      · have : (Val.str k) ≠ Val.str (keyOf a) := by
          intro e; injection e with e; exact hk e.symm
        simp [kvStep, hk, dictGet_dictSet_other _ _ _ _ this]

/-- Every key of the fold result is a string key of some argument or was there before. -/
theorem foldl_kvStep_keys (args : List String) (d : List (Val × Val)) :
    (args.foldl kvStep d).map (·.1) = (args.map (fun a => Val.str (keyOf a))).foldl setInsert (d.map (·.1)) := by
  induction args generalizing d with
  | nil => simp
  | cons a rest ih =>
    simp only [List.foldl_cons, List.map_cons, ih, kvStep, keys_dictSet, setInsert]
    congr 1
    by_cases h : Val.str (keyOf a) ∈ d.map (·.1)
    · simp [h]
    · simp [h]

/-! ### argskwargs loop -/

theorem argsKwargsLoop_closed (args : List String) (out : List (Val × Val)) (al : List String) :
    argsKwargsLoop args out al =
      ((args.filter hasSep).foldl kvStep out, al ++ args.filter (fun a => !hasSep a)) := by
  induction args generalizing out al with
  | nil => simp [argsKwargsLoop]
  | cons a rest ih =>
    by_cases h : hasSep a
    · simp [argsKwargsLoop, h, ih, kvStep]
    · simp [argsKwargsLoop, h, ih]

/-! ### keys parser fold -/

def keyStep (d : List (Val × Val)) (a : String) : List (Val × Val) := dictSet d (.str a) (.bool true)

theorem foldl_keyStep_get (args : List String) (d : List (Val × Val)) (k : String) :
    dictGet? (args.foldl keyStep d) (.str k) =
      if k ∈ args then some (.bool true) else dictGet? d (.str k) := by
  induction args generalizing d with
  | nil => simp
  | cons a rest ih =>
    simp only [List.foldl_cons, ih, List.mem_cons]
    by_cases hr : k ∈ rest
    · simp [hr]
    · by_cases hk : k = a
      · subst hk; simp [hr, keyStep, dictGet_dictSet_same]
      · have : (Val.str k) ≠ Val.str a := by
          intro e; injection e with e; exact hk e
        simp [hr, hk, keyStep, dictGet_dictSet_other _ _ _ _ this]

theorem foldl_keyStep_values (args : List String) (d : List (Val × Val))
    (hd : ∀ kv ∈ d, kv.2 = .bool true) : ∀ kv ∈ args.foldl keyStep d, kv.2 = .bool true := by
  induction args generalizing d with
  | nil => simpa using hd
  | cons a rest ih =>
    simp only [List.foldl_cons]
    apply ih
    intro kv hkv
    -- dictSet only writes `true`
    have : ∀ (d : List (Val × Val)), (∀ kv ∈ d, kv.2 = Val.bool true) →
        ∀ kv ∈ dictSet d (.str a) (.bool true), kv.2 = Val.bool true := by
      intro d
      induction d with
      | nil => intro _ kv h; simp [dictSet] at h; simp [h]
      | cons x xs ihx =>
        intro hall kv h
        obtain ⟨k', v'⟩ := x
        by_cases e : k' = Val.str a
        · simp only [dictSet, e, if_true, List.mem_cons] at h
          cases h with
          | inl h => simp [h]
          | inr h => exact hall kv (by simp [h])
        · simp only [dictSet, e, if_false, List.mem_cons] at h
          cases h with
          | inl h => exact hall kv (by simp [h])
          | inr h => exact ihx (fun kv hk => hall kv (by simp [hk])) kv h
    exact this d hd kv hkv

/-! ### join -/

theorem joinSp_cons_cons (a b : String) (rest : List String) :
    joinSp (a :: b :: rest) = a ++ " " ++ joinSp (b :: rest) := rfl

theorem joinSp_append (xs ys : List String) (hx : xs ≠ []) (hy : ys ≠ []) :
    joinSp (xs ++ ys) = joinSp xs ++ " " ++ joinSp ys := by
  induction xs with
  | nil => exact absurd rfl hx
  | cons a rest ih =>
    cases rest with
    | nil =>
      cases ys with
      | nil => exact absurd rfl hy
      | cons y ys => simp [joinSp]
    | cons b rest =>
      have := ih (by simp)
      simp only [List.cons_append] at this ⊢
      rw [joinSp_cons_cons, this, joinSp_cons_cons]
      simp [String.append_assoc]

end Pypyr.Cli
