/- Helper lemmas for C13, the layers above the caches (`CacheTS.Stack`): the coherence invariant
   "every table entry equals what an uncached look-up yields in the present world" and its
   preservation by every operation but a change of the world. -/
import PypyrModel.CacheTS

namespace Pypyr.CacheTS.Stack

/-- object bookkeeping: Loader objects not yet made have empty pipeline caches; cached Loader
    objects have been made and carry their own name -/
structure Wf (st : LState) : Prop where
  above : ∀ o k, st.nextObj ≤ o → st.pipes o k = none
  below : ∀ l o, st.loaders l = some o → o < st.nextObj
  owner : ∀ l o, st.loaders l = some o → st.owner o = l

/-- the world answers a request by its cache key: requests `Loader.get_pipeline` keys alike get
    the same uncached answer -/
def WorldOk (w : World) : Prop := ∀ l r r', Rq.key r = Rq.key r' → w.fresh l r = w.fresh l r'

/-- `file_cache` holds only current content -/
def CohF (w : World) (st : LState) : Prop := ∀ p v, st.files p = some v → v = w.fileVer p

/-- the pipeline cache of loader `l`'s cached Loader object holds only what an uncached look-up
    yields now -/
def CohP (w : World) (st : LState) (l : Nat) : Prop :=
  ∀ o, st.loaders l = some o → ∀ r v, st.pipes o (Rq.key r) = some v → w.fresh l r = some v

structure Inv (w : World) (st : LState) (f : Flags) : Prop where
  wf : Wf st
  files : f.files = false → CohF w st
  pipes : ∀ l, f.pipes l = false → CohP w st l

theorem wf_init : Wf LState.init := by
  refine ⟨fun _ _ _ => rfl, ?_, ?_⟩ <;> intro l o h <;> simp [LState.init] at h

theorem inv_init (w : World) (f : Flags) : Inv w LState.init f := by
  refine ⟨wf_init, ?_, ?_⟩
  · intro _ p v h; simp [LState.init] at h
  · intro l _ o h; simp [LState.init] at h

/-! #### `getLoader` -/

theorem getLoader_noCache (st : LState) (l : Nat) : (getLoader st l).2.2.noCache = st.noCache := by
  unfold getLoader; split
  · rfl
  · split <;> rfl

theorem getLoader_pipes (st : LState) (l : Nat) : (getLoader st l).2.2.pipes = st.pipes := by
  unfold getLoader; split
  · rfl
  · split <;> rfl

theorem getLoader_files (st : LState) (l : Nat) : (getLoader st l).2.2.files = st.files := by
  unfold getLoader; split
  · rfl
  · split <;> rfl

theorem getLoader_slot (st : LState) (l : Nat) : (getLoader st l).2.2.slot = st.slot := by
  unfold getLoader; split
  · rfl
  · split <;> rfl

theorem getLoader_stepCached (st : LState) (l : Nat) : (getLoader st l).2.2.stepCached = st.stepCached := by
  unfold getLoader; split
  · rfl
  · split <;> rfl

theorem getLoader_loaders_noCache (st : LState) (l : Nat) (h : st.noCache = true) :
    (getLoader st l).2.2.loaders = st.loaders ∧ (getLoader st l).1 = st.nextObj ∧ (getLoader st l).2.1 = true := by
  simp [getLoader, h]

/-- cached mode: the returned object is the one the table now holds for `l` -/
theorem getLoader_registered (st : LState) (l : Nat) (h : st.noCache = false) :
    (getLoader st l).2.2.loaders l = some (getLoader st l).1 := by
  unfold getLoader
  cases hl : st.loaders l <;> simp [h, hl]

theorem getLoader_other (st : LState) (l l' : Nat) (hne : l' ≠ l) :
    (getLoader st l).2.2.loaders l' = st.loaders l' := by
  unfold getLoader; split
  · rfl
  · split <;> simp_all

/-- a loader made now has an empty pipeline cache -/
theorem getLoader_made_empty (st : LState) (l : Nat) (hw : Wf st) (h : (getLoader st l).2.1 = true) (k : PKey) :
    st.pipes (getLoader st l).1 k = none := by
  unfold getLoader at h ⊢
  split
  · exact hw.above _ _ (Nat.le_refl _)
  · split
    · simp_all
    · exact hw.above _ _ (Nat.le_refl _)

theorem getLoader_kept (st : LState) (l : Nat) (h : (getLoader st l).2.1 = false) :
    (getLoader st l).2.2 = st ∧ st.loaders l = some (getLoader st l).1 := by
  unfold getLoader at h ⊢
  split
  · simp_all
  · split <;> simp_all

theorem getLoader_wf (st : LState) (l : Nat) (hw : Wf st) : Wf (getLoader st l).2.2 := by
  unfold getLoader
  split
  · refine ⟨fun o k ho => hw.above o k (by simp at ho; omega), fun l' o h => ?_, fun l' o h => ?_⟩
    · have := hw.below l' o h; simp; omega
    · have h1 := hw.below l' o h
      have h2 := hw.owner l' o h
      simp only
      split
      · omega
      · exact h2
  · split
    · exact hw
    · rename_i hnone
      refine ⟨fun o k ho => hw.above o k (by simp at ho; omega), fun l' o h => ?_, fun l' o h => ?_⟩
      · simp only at h ⊢
        split at h
        · cases h; omega
        · have := hw.below l' o h; omega
      · simp only at h ⊢
        split at h
        · cases h; simp_all
        · have h1 := hw.below l' o h
          have h2 := hw.owner l' o h
          split
          · omega
          · exact h2

/-- coherence of every loader's pipeline cache survives `getLoader` -/
theorem getLoader_cohP (w : World) (st : LState) (l l' : Nat) (hw : Wf st) (h : CohP w st l') :
    CohP w (getLoader st l).2.2 l' := by
  intro o ho r v hv
  rw [getLoader_pipes] at hv
  by_cases hl : l' = l
  · subst hl
    cases hm : (getLoader st l').2.1
    · have := getLoader_kept st l' hm
      rw [this.1] at ho
      exact h o ho r v hv
    · by_cases hnc : st.noCache = true
      · rw [(getLoader_loaders_noCache st l' hnc).1] at ho
        exact h o ho r v hv
      · have hreg := getLoader_registered st l' (by simpa using hnc)
        rw [hreg] at ho
        cases ho
        rw [getLoader_made_empty st l' hw hm] at hv
        cases hv
  · rw [getLoader_other st l l' hl] at ho
    exact h o ho r v hv

/-! #### `loadDef` -/

theorem loadDef_keeps (w : World) (st : LState) (l : Nat) (r : Rq) :
    (loadDef w st l r).2.2.noCache = st.noCache ∧ (loadDef w st l r).2.2.loaders = st.loaders ∧
    (loadDef w st l r).2.2.pipes = st.pipes ∧ (loadDef w st l r).2.2.nextObj = st.nextObj ∧
    (loadDef w st l r).2.2.owner = st.owner ∧ (loadDef w st l r).2.2.slot = st.slot ∧
    (loadDef w st l r).2.2.stepCached = st.stepCached := by
  unfold loadDef
  split
  · split
    · simp
    · split
      · simp
      · split <;> simp
  · simp

theorem accept_none (w : World) : w.accept none = none := rfl

theorem loadDef_noCache (w : World) (st : LState) (l : Nat) (r : Rq) (h : st.noCache = true) :
    (loadDef w st l r).1 = w.fresh l r ∧ (loadDef w st l r).2.2 = st := by
  unfold loadDef World.fresh World.raw
  split
  · split <;> simp_all [accept_none]
  · simp

theorem loadDef_custom (w : World) (st : LState) (l : Nat) (r : Rq) (h : l ≠ 0) :
    (loadDef w st l r).1 = w.fresh l r ∧ (loadDef w st l r).2.2 = st := by
  simp [loadDef, World.fresh, World.raw, h]

theorem loadDef_fresh (w : World) (st : LState) (r : Rq) (hc : CohF w st) :
    (loadDef w st 0 r).1 = w.fresh 0 r := by
  unfold loadDef World.fresh World.raw
  simp only [if_true]
  split
  · simp_all [accept_none]
  · rename_i p hp
    split
    · simp_all
    · split
      · rename_i v hv; simp [hp, hc p v hv]
      · simp [hp]

theorem loadDef_cohF (w : World) (st : LState) (l : Nat) (r : Rq) (hc : CohF w st) :
    CohF w (loadDef w st l r).2.2 := by
  unfold loadDef
  split
  · split
    · exact hc
    · split
      · exact hc
      · split
        · exact hc
        · intro p' v hv
          simp only at hv
          split at hv
          · cases hv; simp_all
          · exact hc p' v hv
  · exact hc

/-! #### `getPipeline` -/

theorem getPipeline_keeps (w : World) (st : LState) (o l : Nat) (r : Rq) :
    (getPipeline w st o l r).2.2.2.noCache = st.noCache ∧ (getPipeline w st o l r).2.2.2.loaders = st.loaders ∧
    (getPipeline w st o l r).2.2.2.nextObj = st.nextObj ∧ (getPipeline w st o l r).2.2.2.owner = st.owner ∧
    (getPipeline w st o l r).2.2.2.slot = st.slot ∧ (getPipeline w st o l r).2.2.2.stepCached = st.stepCached := by
  have hk := loadDef_keeps w st l r
  unfold getPipeline
  split
  · simp [hk]
  · split
    · simp
    · split <;> simp [hk]

theorem getPipeline_noCache (w : World) (st : LState) (o l : Nat) (r : Rq) (h : st.noCache = true) :
    (getPipeline w st o l r).1 = w.fresh l r ∧ (getPipeline w st o l r).2.2.2 = st ∧
    (getPipeline w st o l r).2.1 = true := by
  have := loadDef_noCache w st l r h
  simp [getPipeline, h, this]

/-- through clean layers `Loader.get_pipeline` yields what an uncached look-up yields now -/
theorem getPipeline_fresh (w : World) (st : LState) (o l : Nat) (r : Rq)
    (ho : st.noCache = false → st.loaders l = some o ∨ ∀ k, st.pipes o k = none)
    (hp : CohP w st l) (hf : l = 0 → CohF w st) :
    (getPipeline w st o l r).1 = w.fresh l r := by
  by_cases hnc : st.noCache = true
  · exact (getPipeline_noCache w st o l r hnc).1
  · have hld : (loadDef w st l r).1 = w.fresh l r := by
      by_cases hl : l = 0
      · subst hl; exact loadDef_fresh w st r (hf rfl)
      · exact (loadDef_custom w st l r hl).1
    have hnc' : st.noCache = false := by simpa using hnc
    unfold getPipeline
    cases hv : st.pipes o (Rq.key r) with
    | some v =>
      simp only [hnc']
      rcases ho hnc' with h | h
      · exact (hp o h r v hv).symm
      · rw [h] at hv; cases hv
    | none =>
      cases hx : (loadDef w st l r).1 <;> simp [hnc', hx, ← hld]

theorem getPipeline_files (w : World) (st : LState) (o l : Nat) (r : Rq) :
    (getPipeline w st o l r).2.2.2.files = (loadDef w st l r).2.2.files ∨
    (getPipeline w st o l r).2.2.2.files = st.files := by
  unfold getPipeline
  split
  · simp
  · split
    · simp
    · split <;> simp

theorem getPipeline_cohF (w : World) (st : LState) (o l : Nat) (r : Rq) (hc : CohF w st) :
    CohF w (getPipeline w st o l r).2.2.2 := by
  intro p v hv
  rcases getPipeline_files w st o l r with h | h <;> rw [h] at hv
  · exact loadDef_cohF w st l r hc p v hv
  · exact hc p v hv

/-- what `Loader.get_pipeline` writes: nothing, or the returned definition under the request's key
    in the pipeline cache of the object it was called on -/
theorem getPipeline_pipes (w : World) (st : LState) (o l : Nat) (r : Rq) :
    (getPipeline w st o l r).2.2.2.pipes = st.pipes ∨
    (st.noCache = false ∧ ∃ x, (getPipeline w st o l r).1 = some x ∧
      (getPipeline w st o l r).2.2.2.pipes = fun o' k => if o' = o ∧ k = Rq.key r then some x else st.pipes o' k) := by
  have hk := loadDef_keeps w st l r
  unfold getPipeline
  split
  · simp [hk]
  · rename_i hnc
    split
    · simp
    · split
      · rename_i x hx
        right
        exact ⟨by simpa using hnc, x, rfl, by simp [hk]⟩
      · simp [hk]

/-- coherence of the pipeline caches survives `Loader.get_pipeline` on loader `l`'s own object,
    provided the definition returned is fresh -/
theorem getPipeline_cohP (w : World) (st : LState) (o l l' : Nat) (r : Rq) (hwok : WorldOk w) (hw : Wf st)
    (ho : st.noCache = false → st.loaders l = some o)
    (hfresh : l' = l → (getPipeline w st o l r).1 = w.fresh l r)
    (hp : CohP w st l') : CohP w (getPipeline w st o l r).2.2.2 l' := by
  intro o' ho' r' v hv
  rw [(getPipeline_keeps w st o l r).2.1] at ho'
  rcases getPipeline_pipes w st o l r with h | ⟨hnc, x, hx, h⟩ <;> rw [h] at hv
  · exact hp o' ho' r' v hv
  · simp only at hv
    split at hv
    · rename_i hc
      cases hv
      have hol := ho hnc
      rw [← hc.1] at hol
      have hll : l' = l := by rw [← hw.owner l' o' ho', ← hw.owner l o' hol]
      subst hll
      rw [hwok l' r' r hc.2, ← hfresh rfl, hx]
    · exact hp o' ho' r' v hv

/-- a look-up that fails got a failure from its creator -/
theorem getPipeline_none (w : World) (st : LState) (o l : Nat) (r : Rq)
    (h : (getPipeline w st o l r).1 = none) : (loadDef w st l r).1 = none := by
  unfold getPipeline at h
  split at h
  · exact h
  · split at h
    · cases h
    · split at h
      · cases h
      · assumption

/-- what `loadDef` writes to `file_cache`: nothing, or the parse of the file the request resolves to -/
theorem loadDef_files_cases (w : World) (st : LState) (l : Nat) (r : Rq) :
    (loadDef w st l r).2.2.files = st.files ∨
    (l = 0 ∧ st.noCache = false ∧ ∃ p, w.resolve r = some p ∧ st.files p = none ∧
      (loadDef w st l r).1 = w.accept (some (w.fileVer p)) ∧
      (loadDef w st l r).2.2.files = fun p' => if p' = p then some (w.fileVer p) else st.files p') := by
  unfold loadDef
  split
  · rename_i hl
    split
    · left; rfl
    · rename_i p hp
      split
      · left; rfl
      · rename_i hnc
        split
        · left; rfl
        · rename_i hfp
          right
          exact ⟨hl, by simpa using hnc, p, hp, hfp, rfl, rfl⟩
  · left; rfl

/-! #### `run` -/

theorem getStep_keeps (st : LState) :
    (getStep st).2.noCache = st.noCache ∧ (getStep st).2.loaders = st.loaders ∧ (getStep st).2.pipes = st.pipes ∧
    (getStep st).2.files = st.files ∧ (getStep st).2.nextObj = st.nextObj ∧ (getStep st).2.owner = st.owner ∧
    (getStep st).2.slot = st.slot := by
  unfold getStep
  split
  · simp
  · split <;> simp

/-- the tables of the state after a run: those after `getPipeline` (only `slot` and `stepCached`
    are written afterwards) -/
theorem run_tables (w : World) (st : LState) (c l : Nat) (r : Rq) :
    let gl := getLoader st l
    let gp := getPipeline w gl.2.2 gl.1 l r
    (run w st c l r).2.noCache = gp.2.2.2.noCache ∧ (run w st c l r).2.loaders = gp.2.2.2.loaders ∧
    (run w st c l r).2.pipes = gp.2.2.2.pipes ∧ (run w st c l r).2.files = gp.2.2.2.files ∧
    (run w st c l r).2.nextObj = gp.2.2.2.nextObj ∧ (run w st c l r).2.owner = gp.2.2.2.owner ∧
    (run w st c l r).1.ran = gp.1 := by
  simp only [run]
  split
  · rename_i h; simp [h]
  · rename_i x h
    have := getStep_keeps { (getPipeline w (getLoader st l).2.2 (getLoader st l).1 l r).2.2.2 with
      slot := fun c' => if c' = c then some x else (getPipeline w (getLoader st l).2.2 (getLoader st l).1 l r).2.2.2.slot c' }
    simp [h, this]

theorem wf_of_tables {st st' : LState} (hw : Wf st) (h1 : st'.loaders = st.loaders) (h2 : st'.nextObj = st.nextObj)
    (h3 : st'.owner = st.owner) (h4 : ∀ o k, st.nextObj ≤ o → st'.pipes o k = none) : Wf st' :=
  ⟨fun o k ho => h4 o k (h2 ▸ ho), fun l o h => h2 ▸ hw.below l o (h1 ▸ h), fun l o h => h3 ▸ hw.owner l o (h1 ▸ h)⟩

theorem getPipeline_wf (w : World) (st : LState) (o l : Nat) (r : Rq) (hw : Wf st) (ho : o < st.nextObj) :
    Wf (getPipeline w st o l r).2.2.2 := by
  have hk := getPipeline_keeps w st o l r
  refine wf_of_tables hw hk.2.1 hk.2.2.1 hk.2.2.2.1 ?_
  intro o' k ho'
  rcases getPipeline_pipes w st o l r with h | ⟨_, x, _, h⟩ <;> rw [h]
  · exact hw.above o' k ho'
  · simp only
    split
    · rename_i hc; omega
    · exact hw.above o' k ho'

theorem getLoader_lt (st : LState) (l : Nat) (hw : Wf st) : (getLoader st l).1 < (getLoader st l).2.2.nextObj := by
  unfold getLoader
  split
  · simp
  · split
    · rename_i o ho; exact hw.below l o ho
    · simp

/-- a run through clean layers (or with `no_cache`) yields what an uncached look-up yields now -/
theorem run_fresh_of_inv (w : World) (st : LState) (f : Flags) (c l : Nat) (r : Rq)
    (hi : Inv w st f) (hc : f.clean l = true ∨ st.noCache = true) :
    (run w st c l r).1.ran = w.fresh l r := by
  rw [(run_tables w st c l r).2.2.2.2.2.2]
  by_cases hnc : st.noCache = true
  · exact (getPipeline_noCache w _ _ l r (by rw [getLoader_noCache]; exact hnc)).1
  · have hcl : f.clean l = true := by rcases hc with h | h <;> simp_all
    simp only [Flags.clean, Bool.and_eq_true, Bool.not_eq_true', Bool.or_eq_true, bne_iff_ne, ne_eq] at hcl
    apply getPipeline_fresh
    · intro _
      left
      exact getLoader_registered st l (by simpa using hnc)
    · exact getLoader_cohP w st l l hi.wf (hi.pipes l hcl.1)
    · intro hl
      intro p v hv
      rw [getLoader_files] at hv
      exact hi.files (by rcases hcl.2 with h | h <;> simp_all) p v hv

/-- every operation keeps the invariant, with the ghost flags stepped alongside -/
theorem inv_exec (w : World) (st : LState) (f : Flags) (op : LOp) (hwok : WorldOk w)
    (hi : Inv w st f) : Inv (exec w st op).1 (exec w st op).2.1 (f.step op) := by
  cases op with
  | world w' =>
    exact ⟨hi.wf, fun h => by simp [Flags.step] at h, fun l h => by simp [Flags.step] at h⟩
  | clearAll =>
    refine ⟨⟨hi.wf.above, ?_, ?_⟩, ?_, ?_⟩
    · intro l o h; simp [exec] at h
    · intro l o h; simp [exec] at h
    · intro _ p v h; simp [exec] at h
    · intro l _ o h; simp [exec] at h
  | clearLoaders =>
    refine ⟨⟨hi.wf.above, ?_, ?_⟩, hi.files, ?_⟩
    · intro l o h; simp [exec] at h
    · intro l o h; simp [exec] at h
    · intro l _ o h; simp [exec] at h
  | clearFiles =>
    refine ⟨⟨hi.wf.above, hi.wf.below, hi.wf.owner⟩, ?_, ?_⟩
    · intro _ p v h; simp [exec] at h
    · intro l h; exact hi.pipes l h
  | clearSteps => exact ⟨⟨hi.wf.above, hi.wf.below, hi.wf.owner⟩, hi.files, hi.pipes⟩
  | setNoCache b => exact ⟨⟨hi.wf.above, hi.wf.below, hi.wf.owner⟩, hi.files, hi.pipes⟩
  | clearPipes ol =>
    cases ol with
    | none =>
      refine ⟨⟨?_, hi.wf.below, hi.wf.owner⟩, hi.files, ?_⟩
      · intro o k ho
        simp only [exec]
        split
        · rfl
        · exact hi.wf.above o k ho
      · intro l _ o ho r v hv
        simp only [exec] at ho hv
        rw [hi.wf.owner l o ho] at hv
        simp [ho] at hv
    | some l0 =>
      simp only [exec, clearPipesOf]
      cases hl0 : st.loaders l0 with
      | none =>
        refine ⟨hi.wf, hi.files, ?_⟩
        intro l hl o ho r v hv
        simp only [Flags.step] at hl
        split at hl
        · rename_i e; subst e; simp_all
        · exact hi.pipes l hl o ho r v hv
      | some o0 =>
        refine ⟨⟨?_, hi.wf.below, hi.wf.owner⟩, hi.files, ?_⟩
        · intro o k ho
          simp only
          split
          · rfl
          · exact hi.wf.above o k ho
        · intro l hl o ho r v hv
          simp only at ho hv
          simp only [Flags.step] at hl
          split at hv
          · cases hv
          · split at hl
            · rename_i hne e; subst e; simp_all
            · exact hi.pipes l hl o ho r v hv
  | run c l r =>
    have ht := run_tables w st c l r
    simp only at ht
    obtain ⟨_, hlo, hpi, hfi, hno, how, _⟩ := ht
    have hwfL := getLoader_wf st l hi.wf
    have hwfP := getPipeline_wf w _ _ l r hwfL (getLoader_lt st l hi.wf)
    have hwf : Wf (run w st c l r).2 := by
      refine ⟨fun o k ho => ?_, fun l' o h => ?_, fun l' o h => ?_⟩
      · rw [hpi]; exact hwfP.above o k (hno ▸ ho)
      · rw [hno]; exact hwfP.below l' o (hlo ▸ h)
      · rw [how]; exact hwfP.owner l' o (hlo ▸ h)
    refine ⟨hwf, ?_, ?_⟩
    · intro hf
      have hf' : f.files = false := by
        simp only [Flags.step] at hf
        split at hf <;> simp_all
      intro p v hv
      simp only [exec] at hv
      rw [hfi] at hv
      refine getPipeline_cohF w _ _ l r ?_ p v hv
      intro p v hv
      rw [getLoader_files] at hv
      exact hi.files hf' p v hv
    · intro l' hl'
      simp only [exec]
      intro o ho r' v hv
      rw [hlo] at ho
      rw [hpi] at hv
      have hl'' : f.pipes l' = false := by
        simp only [Flags.step] at hl'
        split at hl'
        · simp only at hl'; split at hl' <;> simp_all
        · exact hl'
      refine getPipeline_cohP w _ _ l l' r hwok hwfL ?_ ?_
        (getLoader_cohP w st l l' hi.wf (hi.pipes l' hl'')) o ho r' v hv
      · intro hnc
        rw [getLoader_noCache] at hnc
        exact getLoader_registered st l hnc
      · intro e
        subst e
        by_cases hnc : st.noCache = true
        · exact (getPipeline_noCache w _ _ l' r (by rw [getLoader_noCache]; exact hnc)).1
        · apply getPipeline_fresh
          · intro _; left; exact getLoader_registered st l' (by simpa using hnc)
          · exact getLoader_cohP w st l' l' hi.wf (hi.pipes l' hl'')
          · intro e0 p v hv
            rw [getLoader_files] at hv
            have hff : f.files = false := by
              simp only [Flags.step] at hl'
              split at hl'
              · simp_all
              · rename_i hn
                cases hfv : f.files
                · rfl
                · exact absurd ⟨e0, hfv⟩ hn
            exact hi.files hff p v hv

/-! #### the client's slot is never read -/

theorem getLoader_slot_irrelevant (st : LState) (s' : Nat → Option Ver) (l : Nat) :
    getLoader { st with slot := s' } l =
      ((getLoader st l).1, (getLoader st l).2.1, { (getLoader st l).2.2 with slot := s' }) := by
  unfold getLoader
  simp only
  split
  · rfl
  · split <;> rfl

theorem loadDef_slot_irrelevant (w : World) (st : LState) (s' : Nat → Option Ver) (l : Nat) (r : Rq) :
    loadDef w { st with slot := s' } l r =
      ((loadDef w st l r).1, (loadDef w st l r).2.1, { (loadDef w st l r).2.2 with slot := s' }) := by
  unfold loadDef
  simp only
  split
  · split
    · rfl
    · split
      · rfl
      · split <;> rfl
  · rfl

theorem getPipeline_slot_irrelevant (w : World) (st : LState) (s' : Nat → Option Ver) (o l : Nat) (r : Rq) :
    getPipeline w { st with slot := s' } o l r =
      ((getPipeline w st o l r).1, (getPipeline w st o l r).2.1, (getPipeline w st o l r).2.2.1,
       { (getPipeline w st o l r).2.2.2 with slot := s' }) := by
  unfold getPipeline
  simp only [loadDef_slot_irrelevant]
  split
  · rfl
  · split
    · rfl
    · split <;> rfl

theorem getStep_slot_irrelevant (st : LState) (s' : Nat → Option Ver) :
    getStep { st with slot := s' } = ((getStep st).1, { (getStep st).2 with slot := s' }) := by
  unfold getStep
  simp only
  split
  · rfl
  · split <;> rfl

end Pypyr.CacheTS.Stack
