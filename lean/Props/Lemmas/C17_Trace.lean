/- Helper lemmas for C17 (concurrent steps): shape of the event trace — it is an interleaving of the
   per-lane sequences `start p₁, fin p₁, start p₂, fin p₂, …` of the processes that existed. -/
import PypyrModel.Cmd
import Props.Lemmas.C17_Async

set_option linter.unusedSimpArgs false

namespace Pypyr.Cmd

/-- Sequential life of some processes: each is started, then finishes, then the next is started. -/
def seqEvents (ps : List Proc) : List Event := ps.flatMap (fun p => [.start p.id, .fin p.id])

def startId : Event → Option Nat
  | .start i => some i
  | .fin _ => none

def finId : Event → Option Nat
  | .fin i => some i
  | .start _ => none

theorem seqEvents_append (a b : List Proc) : seqEvents (a ++ b) = seqEvents a ++ seqEvents b := by
  simp [seqEvents]

theorem seqEvents_starts (ps : List Proc) : (seqEvents ps).filterMap startId = ps.map (·.id) := by
  induction ps with
  | nil => rfl
  | cons p ps ih =>
    simp only [seqEvents, List.flatMap_cons] at ih ⊢
    simp [List.filterMap_cons, startId, ih]

theorem seqEvents_fins (ps : List Proc) : (seqEvents ps).filterMap finId = ps.map (·.id) := by
  induction ps with
  | nil => rfl
  | cons p ps ih =>
    simp only [seqEvents, List.flatMap_cons] at ih ⊢
    simp [List.filterMap_cons, finId, ih]

/-- The running process of a reachable lane can be started. -/
def Lane.wf (l : Lane) : Prop := ∀ p, l.cur = some p → p.spawn = none

/-- The events of a lane so far. -/
def laneSeq (l : Lane) : List Event :=
  seqEvents (l.done.filter Proc.ran) ++ (match l.cur with | some p => [.start p.id] | none => [])

theorem launch_wf (dec : Bool) (done ps : List Proc) : (launch dec done ps).wf := by
  cases ps with
  | nil => intro p h; simp [launch] at h
  | cons q qs =>
    cases hq : q.spawn with
    | some k => intro p h; simp [launch, hq] at h
    | none =>
      intro p h
      simp only [launch, hq, Option.some.injEq] at h
      rw [← h]; exact hq

theorem start_wf (dec : Bool) (ps : List Proc) : (Lane.start dec ps).wf := launch_wf dec [] ps

theorem complete_wf (l : Lane) : l.complete.wf := by
  obtain ⟨done, cur, todo, dec⟩ := l
  cases cur with
  | none => intro p h; simp [Lane.complete] at h
  | some p =>
    by_cases hc : p.halts dec = true
    · intro q h; simp [Lane.complete, hc] at h
    · simp only [Lane.complete, hc]
      exact launch_wf _ _ _

theorem filter_ran_snoc (done : List Proc) (p : Proc) (hp : p.spawn = none) :
    (done ++ [p]).filter Proc.ran = done.filter Proc.ran ++ [p] := by
  simp [List.filter_append, Proc.ran, hp]

theorem filter_ran_snoc_not (done : List Proc) (q : Proc) {k : SpawnKind} (hq : q.spawn = some k) :
    (done ++ [q]).filter Proc.ran = done.filter Proc.ran := by
  simp [List.filter_append, Proc.ran, hq]

/-- Launching the next instruction adds exactly its start event (if it can be started). -/
theorem laneSeq_launch (dec : Bool) (done todo : List Proc) :
    laneSeq (launch dec done todo) = seqEvents (done.filter Proc.ran) ++ launchEvents todo := by
  cases todo with
  | nil => simp [launch, laneSeq, launchEvents]
  | cons q qs =>
    cases hq : q.spawn with
    | some k => simp [launch, laneSeq, launchEvents, hq, filter_ran_snoc_not _ _ hq]
    | none => simp [launch, laneSeq, launchEvents, hq]

/-- One exit: the lane's own sequence grows by exactly the events of that exit. -/
theorem laneSeq_complete (l : Lane) (hw : l.wf) :
    laneSeq l.complete = laneSeq l ++ l.completeEvents := by
  obtain ⟨done, cur, todo, dec⟩ := l
  cases cur with
  | none => simp [Lane.complete, Lane.completeEvents]
  | some p =>
    have hp : p.spawn = none := hw p rfl
    by_cases hc : p.halts dec = true
    · simp [Lane.complete, Lane.completeEvents, hc, laneSeq, filter_ran_snoc _ _ hp, seqEvents_append,
        seqEvents]
    · simp only [Lane.complete, Lane.completeEvents, hc, Bool.false_eq_true, ↓reduceIte]
      rw [laneSeq_launch]
      simp [laneSeq, filter_ran_snoc _ _ hp, seqEvents_append, seqEvents]

theorem laneSeq_start (dec : Bool) (ps : List Proc) : laneSeq (Lane.start dec ps) = launchEvents ps := by
  simp [Lane.start, laneSeq_launch, seqEvents]

/-- Running a lane to its end: its sequence grows by exactly its drain events. -/
theorem laneSeq_drainFrom (dec : Bool) (done : List Proc) (p : Proc) (todo : List Proc) (hp : p.spawn = none) :
    laneSeq (drainFrom dec done (some p) todo) =
      seqEvents (done.filter Proc.ran) ++ .start p.id :: drainEventsFrom dec (some p) todo := by
  induction todo generalizing done p with
  | nil => simp [drainFrom, drainEventsFrom, laneSeq, filter_ran_snoc _ _ hp, seqEvents_append, seqEvents]
  | cons q qs ih =>
    unfold drainFrom drainEventsFrom
    by_cases hc : p.halts dec = true
    · simp [hc, laneSeq, filter_ran_snoc _ _ hp, seqEvents_append, seqEvents]
    · simp only [hc, Bool.false_eq_true, ↓reduceIte]
      cases hq : q.spawn with
      | some k =>
        simp [laneSeq, filter_ran_snoc _ _ hp, List.filter_append, Proc.ran, hq, hp, seqEvents_append, seqEvents]
      | none =>
        simp only []
        rw [ih _ _ hq]
        simp [filter_ran_snoc _ _ hp, seqEvents_append, seqEvents]

theorem laneSeq_drain (l : Lane) (hw : l.wf) : laneSeq l.drain = laneSeq l ++ l.drainEvents := by
  obtain ⟨done, cur, todo, dec⟩ := l
  cases cur with
  | none => simp [Lane.drain, Lane.drainEvents, drainFrom, drainEventsFrom, laneSeq]
  | some p =>
    have hp : p.spawn = none := hw p rfl
    simp only [Lane.drain, Lane.drainEvents]
    rw [laneSeq_drainFrom _ _ _ _ hp]
    simp [laneSeq]

/-! ### The trace is a permutation of the lanes' sequences -/

theorem modifyAt_wf (ls : List Lane) (i : Nat) (hw : ∀ l ∈ ls, l.wf) :
    ∀ l ∈ modifyAt Lane.complete ls i, l.wf := by
  induction ls generalizing i with
  | nil => simp [modifyAt]
  | cons l ls ih =>
    cases i with
    | zero =>
      intro x hx
      simp only [modifyAt, List.mem_cons] at hx
      cases hx with
      | inl h => rw [h]; exact complete_wf l
      | inr h => exact hw x (by simp [h])
    | succ i =>
      intro x hx
      simp only [modifyAt, List.mem_cons] at hx
      cases hx with
      | inl h => rw [h]; exact hw l (by simp)
      | inr h => exact ih i (fun y hy => hw y (by simp [hy])) x h

theorem modifyAt_perm (ls : List Lane) (i : Nat) (hw : ∀ l ∈ ls, l.wf) :
    ((modifyAt Lane.complete ls i).flatMap laneSeq).Perm (ls.flatMap laneSeq ++ eventsAt ls i) := by
  induction ls generalizing i with
  | nil => simp [modifyAt, eventsAt]
  | cons l ls ih =>
    cases i with
    | zero =>
      simp only [modifyAt, eventsAt, List.flatMap_cons, laneSeq_complete l (hw l (by simp))]
      rw [List.append_assoc, List.append_assoc]
      exact List.Perm.append_left _ List.perm_append_comm
    | succ i =>
      simp only [modifyAt, eventsAt, List.flatMap_cons, List.append_assoc]
      exact List.Perm.append_left _ (ih i (fun y hy => hw y (by simp [hy])))

theorem runSched_wf (ls : List Lane) (s : List Nat) (hw : ∀ l ∈ ls, l.wf) :
    ∀ l ∈ (runSched ls s).1, l.wf := by
  induction s generalizing ls with
  | nil => simpa [runSched] using hw
  | cons i rest ih =>
    simp only [runSched]
    exact ih _ (modifyAt_wf ls i hw)

theorem runSched_perm (ls : List Lane) (s : List Nat) (hw : ∀ l ∈ ls, l.wf) :
    ((runSched ls s).1.flatMap laneSeq).Perm (ls.flatMap laneSeq ++ (runSched ls s).2) := by
  induction s generalizing ls with
  | nil => simp [runSched]
  | cons i rest ih =>
    simp only [runSched]
    refine (ih _ (modifyAt_wf ls i hw)).trans ?_
    rw [← List.append_assoc]
    exact List.Perm.append_right _ (modifyAt_perm ls i hw)

theorem drainAll_perm (ls : List Lane) (hw : ∀ l ∈ ls, l.wf) :
    ((drainAll ls).flatMap laneSeq).Perm (ls.flatMap laneSeq ++ drainAllEvents ls) := by
  induction ls with
  | nil => simp [drainAll, drainAllEvents]
  | cons l ls ih =>
    have ih' := ih (fun y hy => hw y (by simp [hy]))
    simp only [drainAll, List.map_cons, List.flatMap_cons, drainAllEvents,
      laneSeq_drain l (hw l (by simp))] at ih' ⊢
    -- (a ++ d) ++ X  ~  (a ++ Y) ++ (d ++ Z)   given  X ~ Y ++ Z
    refine (List.Perm.append_left _ ih').trans ?_
    simp only [List.append_assoc]
    refine List.Perm.append_left _ ?_
    rw [← List.append_assoc, ← List.append_assoc]
    exact List.Perm.append_right _ List.perm_append_comm

theorem start_lanes_seq (ls : List ALane) :
    (ls.map (fun l => Lane.start l.dec l.procs)).flatMap laneSeq = startEvents ls := by
  induction ls with
  | nil => rfl
  | cons l ls ih => simp [startEvents, laneSeq_start, ih]

theorem start_lanes_wf (ls : List ALane) : ∀ l ∈ ls.map (fun l => Lane.start l.dec l.procs), l.wf := by
  intro l hl
  simp only [List.mem_map] at hl
  obtain ⟨a, _, rfl⟩ := hl
  exact start_wf _ _

theorem laneSeq_final (dec : Bool) (ps : List Proc) : laneSeq (finalLane dec ps) = seqEvents (ranP dec ps) := by
  simp [laneSeq, finalLane, ranP]

/-! ### Every lane's sequence is a subsequence of the trace -/

/-- Pointwise: `bᵢ = aᵢ ++ Xᵢ` with `Xᵢ` a subsequence of `E`. -/
def ExtBy (E : List Event) : List (List Event) → List (List Event) → Prop
  | [], [] => True
  | a :: as, b :: bs => (∃ X, b = a ++ X ∧ X.Sublist E) ∧ ExtBy E as bs
  | _, _ => False

theorem ExtBy_refl (E : List Event) (a : List (List Event)) : ExtBy E a a := by
  induction a with
  | nil => trivial
  | cons x xs ih => exact ⟨⟨[], by simp, List.nil_sublist _⟩, ih⟩

theorem ExtBy_mono {E E' : List Event} (h : E.Sublist E') :
    ∀ {a b : List (List Event)}, ExtBy E a b → ExtBy E' a b
  | [], [], _ => trivial
  | _ :: _, _ :: _, ⟨⟨X, hx, hs⟩, ht⟩ => ⟨⟨X, hx, hs.trans h⟩, ExtBy_mono h ht⟩
  | [], _ :: _, h' => h'.elim
  | _ :: _, [], h' => h'.elim

theorem ExtBy_trans {E1 E2 : List Event} :
    ∀ {a b c : List (List Event)}, ExtBy E1 a b → ExtBy E2 b c → ExtBy (E1 ++ E2) a c
  | [], [], [], _, _ => trivial
  | _ :: _, _ :: _, _ :: _, ⟨⟨X, hx, hs⟩, ht⟩, ⟨⟨Y, hy, hs'⟩, ht'⟩ =>
    ⟨⟨X ++ Y, by rw [hy, hx, List.append_assoc], hs.append hs'⟩, ExtBy_trans ht ht'⟩
  | [], [], _ :: _, _, h' => h'.elim
  | [], _ :: _, _, h', _ => h'.elim
  | _ :: _, [], _, h', _ => h'.elim
  | _ :: _, _ :: _, [], _, h' => h'.elim

/-- When every lane started from nothing, each one's sequence is a subsequence of all events. -/
theorem ExtBy_from_nil {E : List Event} :
    ∀ {n : List Unit} {b : List (List Event)}, ExtBy E (n.map fun _ => []) b → ∀ x ∈ b, x.Sublist E
  | [], [], _ => by simp
  | _ :: n, y :: b, ⟨⟨X, hx, hs⟩, ht⟩ => by
    intro x hx'
    simp only [List.mem_cons] at hx'
    cases hx' with
    | inl h => rw [h, hx]; simpa using hs
    | inr h => exact ExtBy_from_nil (n := n) ht x h
  | [], _ :: _, h' => h'.elim
  | _ :: _, [], h' => h'.elim

theorem modifyAt_ext (ls : List Lane) (i : Nat) (hw : ∀ l ∈ ls, l.wf) :
    ExtBy (eventsAt ls i) (ls.map laneSeq) ((modifyAt Lane.complete ls i).map laneSeq) := by
  induction ls generalizing i with
  | nil => simp [modifyAt, ExtBy]
  | cons l ls ih =>
    cases i with
    | zero =>
      simp only [modifyAt, eventsAt, List.map_cons]
      exact ⟨⟨_, laneSeq_complete l (hw l (by simp)), List.Sublist.refl _⟩, ExtBy_refl _ _⟩
    | succ i =>
      simp only [modifyAt, eventsAt, List.map_cons]
      exact ⟨⟨[], by simp, List.nil_sublist _⟩, ih i (fun y hy => hw y (by simp [hy]))⟩

theorem runSched_ext (ls : List Lane) (s : List Nat) (hw : ∀ l ∈ ls, l.wf) :
    ExtBy (runSched ls s).2 (ls.map laneSeq) ((runSched ls s).1.map laneSeq) := by
  induction s generalizing ls with
  | nil => simpa [runSched] using ExtBy_refl _ _
  | cons i rest ih =>
    simp only [runSched]
    exact ExtBy_trans (modifyAt_ext ls i hw) (ih _ (modifyAt_wf ls i hw))

theorem drainAll_ext (ls : List Lane) (hw : ∀ l ∈ ls, l.wf) :
    ExtBy (drainAllEvents ls) (ls.map laneSeq) ((drainAll ls).map laneSeq) := by
  induction ls with
  | nil => simp [drainAll, ExtBy]
  | cons l ls ih =>
    simp only [drainAll, List.map_cons, drainAllEvents]
    refine ⟨⟨_, laneSeq_drain l (hw l (by simp)), List.sublist_append_left _ _⟩, ?_⟩
    exact ExtBy_mono (List.sublist_append_right _ _) (ih (fun y hy => hw y (by simp [hy])))

theorem start_ext (ls : List ALane) :
    ExtBy (startEvents ls) ((ls.map fun _ => ()).map fun _ => [])
      ((ls.map (fun l => Lane.start l.dec l.procs)).map laneSeq) := by
  induction ls with
  | nil => simp [ExtBy]
  | cons l ls ih =>
    simp only [List.map_cons, startEvents]
    refine ⟨⟨_, by simp [laneSeq_start], List.sublist_append_left _ _⟩, ?_⟩
    exact ExtBy_mono (List.sublist_append_right _ _) ih

end Pypyr.Cmd
