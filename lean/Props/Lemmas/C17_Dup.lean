/- Helper lemmas for C17: one command / one lane per declared OCCURRENCE — the parser maps the items of the
   configuration position by position (nothing is de-duplicated), and the concurrent steps start one process
   per lane. -/
import PypyrModel.Cmd
import Props.Lemmas.C17_Parse
import Props.Lemmas.C17_Trace

set_option linter.unusedSimpArgs false

namespace Pypyr.Cmd

/-- `entries?` maps the elements of a `run` list one by one. -/
theorem entries?_lanes (async : Bool) : ∀ (xs : List Val) (es : List RawEntry),
    entries? async xs = some es → es.map RawEntry.strings = xs.map specInner
  | [], es, h => by simp [entries?] at h; simp [h]
  | .str s :: xs, es, h => by
    simp only [entries?, Option.map_eq_some_iff] at h
    obtain ⟨t, ht, rfl⟩ := h
    simp [RawEntry.strings, specInner, entries?_lanes async xs t ht]
  | .list ys :: xs, es, h => by
    cases async <;> simp only [entries?, seq?, Bool.false_eq_true, if_false, if_true] at h
    · cases h
    · cases h1 : strs? ys <;> cases h2 : entries? true xs <;> simp [h1, h2] at h
      subst h
      simp [RawEntry.strings, specInner, strs?_spec _ _ h1, entries?_lanes true xs _ h2]
  | .tuple ys :: xs, es, h => by
    cases async <;> simp only [entries?, seq?, Bool.false_eq_true, if_false, if_true] at h
    · cases h
    · cases h1 : strs? ys <;> cases h2 : entries? true xs <;> simp [h1, h2] at h
      subst h
      simp [RawEntry.strings, specInner, strs?_spec _ _ h1, entries?_lanes true xs _ h2]
  | .none :: _, _, h | .bool _ :: _, _, h | .int _ :: _, _, h | .flt _ _ :: _, _, h | .bytes _ :: _, _, h
  | .dict _ :: _, _, h | .set _ :: _, _, h | .sic _ :: _, _, h
  | .py _ :: _, _, h | .jsonify _ :: _, _, h | .obj _ :: _, _, h => by
    cases async <;> simp [entries?, seq?] at h

theorem runOf?_lanes (async : Bool) (r : Val) (run : RawRun) (h : runOf? async r = some run) :
    run.lanes = specRunLanes r := by
  cases r <;> simp [runOf?] at h
  · subst h; simp [RawRun.lanes, specRunLanes]
  · obtain ⟨es, he, rfl⟩ := h
    simpa [RawRun.lanes, specRunLanes] using entries?_lanes async _ _ he
  · obtain ⟨es, he, rfl⟩ := h
    simpa [RawRun.lanes, specRunLanes] using entries?_lanes async _ _ he

theorem createCommand_lanes (async dflt : Bool) (kvs : List (Val × Val)) (c : RawCommand)
    (h : createCommand async dflt kvs = some (.ok c)) : c.run.lanes = specItemLanes (.dict kvs) := by
  unfold createCommand at h
  cases hr : dget kvs "run" with
  | none => simp [hr] at h
  | some r =>
    simp only [hr] at h
    by_cases ht : r.truthy = true
    · simp only [ht, Bool.not_true, Bool.false_eq_true, if_false] at h
      split at h
      · simp at h
      · split at h
        · rename_i run o e cwd enc hrun _ _ _ _
          simp only [Option.some.injEq, Except.ok.injEq] at h
          subst h
          simp [specItemLanes, hr, runOf?_lanes async r run hrun]
        · simp at h
    · simp [ht] at h

theorem parseItem_lanes (async dflt : Bool) (v : Val) (c : RawCommand)
    (h : parseItem async dflt v = some (.ok c)) : c.run.lanes = specItemLanes v := by
  cases v <;> simp only [parseItem] at h
  case str s =>
    simp only [Option.some.injEq, Except.ok.injEq] at h
    subst h
    simp [RawRun.lanes, specItemLanes]
  case dict kvs => exact createCommand_lanes async dflt kvs c h
  case list xs =>
    cases async <;> simp at h
    obtain ⟨ss, hs, rfl⟩ := h
    simp [RawRun.lanes, RawEntry.strings, specItemLanes, strs?_spec _ _ hs]
  case tuple xs =>
    cases async <;> simp at h
    obtain ⟨ss, hs, rfl⟩ := h
    simp [RawRun.lanes, RawEntry.strings, specItemLanes, strs?_spec _ _ hs]
  all_goals simp [excBadItem] at h

/-- Two lists related position by position (core has no `Forall₂`). -/
inductive Pointwise {α β : Type} (R : α → β → Prop) : List α → List β → Prop
  | nil : Pointwise R [] []
  | cons {a : α} {b : β} {as : List α} {bs : List β} : R a b → Pointwise R as bs → Pointwise R (a :: as) (b :: bs)

theorem Pointwise.length_eq {α β : Type} {R : α → β → Prop} {as : List α} {bs : List β}
    (h : Pointwise R as bs) : bs.length = as.length := by
  induction h with
  | nil => rfl
  | cons _ _ ih => simp [ih]

theorem Pointwise.get {α β : Type} {R : α → β → Prop} {as : List α} {bs : List β}
    (h : Pointwise R as bs) : ∀ (i : Nat) (a : α), as[i]? = some a → ∃ b, bs[i]? = some b ∧ R a b := by
  induction h with
  | nil => intro i a h; simp at h
  | cons hr _ ih =>
    intro i a h
    cases i with
    | zero => simp only [List.getElem?_cons_zero, Option.some.injEq] at h; subst h; exact ⟨_, by simp, hr⟩
    | succ i => simp only [List.getElem?_cons_succ] at h ⊢; exact ih i a h

/-- `for cmd in cmd_config:` builds the commands position by position: the `k`-th command is the one built
    from the `k`-th item — whatever the other items are, equal ones included. -/
theorem parseItems_forall₂ (async dflt : Bool) : ∀ (vs : List Val) (cs : List RawCommand),
    parseItems async dflt vs = some (.ok cs) →
      Pointwise (fun v c => parseItem async dflt v = some (.ok c)) vs cs
  | [], cs, h => by simp [parseItems] at h; subst h; exact .nil
  | v :: vs, cs, h => by
    unfold parseItems at h
    cases hv : parseItem async dflt v with
    | none => simp [hv] at h
    | some r =>
      cases r with
      | error e => simp [hv] at h
      | ok c =>
        simp only [hv] at h
        cases hvs : parseItems async dflt vs with
        | none => simp [hvs] at h
        | some r' =>
          cases r' with
          | error e => simp [hvs] at h
          | ok cs' =>
            simp only [hvs, Option.some.injEq, Except.ok.injEq] at h
            subst h
            exact .cons hv (parseItems_forall₂ async dflt vs cs' hvs)

theorem forall₂_lanes (async dflt : Bool) {vs : List Val} {cs : List RawCommand}
    (h : Pointwise (fun v c => parseItem async dflt v = some (.ok c)) vs cs) :
    rawLanes cs = vs.flatMap specItemLanes := by
  induction h with
  | nil => rfl
  | cons hv _ ih =>
    simp only [rawLanes, List.flatMap_cons] at ih ⊢
    rw [ih, parseItem_lanes async dflt _ _ hv]

/-- The lanes the constructor builds are the ones `lanesSpec` reads off the configuration value. -/
theorem parse_lanes' (async dflt : Bool) (cfg : Val) (cs : List RawCommand)
    (h : parseCmdConfig async dflt (some cfg) = some (.ok cs)) : rawLanes cs = lanesSpec cfg := by
  cases cfg <;> simp only [parseCmdConfig] at h
  case str s =>
    simp only [Option.some.injEq, Except.ok.injEq] at h
    subst h
    simp [rawLanes, RawRun.lanes, lanesSpec, specItems, specItemLanes]
  case dict kvs =>
    cases hc : createCommand async dflt kvs with
    | none => simp [hc] at h
    | some r =>
      cases r with
      | error e => simp [hc] at h
      | ok c =>
        simp only [hc, Option.some.injEq, Except.ok.injEq] at h
        subst h
        have := createCommand_lanes async dflt kvs c hc
        simpa [rawLanes, lanesSpec, specItems] using this
  case list xs => simpa [lanesSpec, specItems] using forall₂_lanes async dflt (parseItems_forall₂ async dflt xs cs h)
  case tuple xs => simpa [lanesSpec, specItems] using forall₂_lanes async dflt (parseItems_forall₂ async dflt xs cs h)
  all_goals simp [excBadConfig, excNoValue] at h

/-! ### Resolution keeps the lanes -/

theorem toEntry_procs (w : World) (e : RawEntry) : (e.toEntry w).procs = e.strings.map w.proc := by
  cases e <;> simp [RawEntry.toEntry, Entry.procs, RawEntry.strings]

theorem toA_lanes (w : World) (c : RawCommand) (ho : (w.redirect c.set).openError = none) :
    (c.toA w).lanes.map (·.procs) = c.run.lanes.map (fun ss => ss.map w.proc) := by
  obtain ⟨run, set⟩ := c
  cases run with
  | single s => simp [RawCommand.toA, ACommand.lanes, ho, ARun.lanes, RawRun.lanes]
  | many es =>
    simp only [RawCommand.toA, ACommand.lanes, ho, ARun.lanes, RawRun.lanes, List.map_map]
    apply List.map_congr_left
    intro e _
    simp [toEntry_procs]

theorem lanesOf_toA (w : World) (cs : List RawCommand)
    (ho : ∀ c ∈ cs, (w.redirect c.set).openError = none) :
    (lanesOf (cs.map (RawCommand.toA w))).map (·.procs) = (rawLanes cs).map (fun ss => ss.map w.proc) := by
  induction cs with
  | nil => rfl
  | cons c cs ih =>
    simp only [List.map_cons, lanesOf, List.map_append, rawLanes, List.flatMap_cons]
    rw [toA_lanes w c (ho c (by simp))]
    congr 1
    exact ih (fun c' hc' => ho c' (by simp [hc']))

/-! ### One start event per lane -/

theorem startEvents_procs (ls : List ALane) : startEvents ls = (ls.map (·.procs)).flatMap launchEvents := by
  induction ls with
  | nil => rfl
  | cons l ls ih => simp [startEvents, ih]

/-- The first instruction of a lane, when it can be started. -/
def firstRunnable (ps : List Proc) : Option Nat :=
  match ps.head? with
  | some p => if p.spawn = none then some p.id else none
  | none => none

theorem launchEvents_first (ps : List Proc) : launchEvents ps = (firstRunnable ps).toList.map Event.start := by
  cases ps with
  | nil => rfl
  | cons p ps => cases hp : p.spawn <;> simp [launchEvents, firstRunnable, hp]

/-- The block of start events the trace begins with: one per lane whose first instruction can be started,
    in declaration order — a list obtained by `filterMap`: equal lanes give equal, *separate* events. -/
theorem startEvents_filterMap (ls : List ALane) :
    startEvents ls = (ls.filterMap (fun l => firstRunnable l.procs)).map Event.start := by
  induction ls with
  | nil => rfl
  | cons l ls ih =>
    simp only [startEvents, ih, launchEvents_first, List.filterMap_cons]
    cases firstRunnable l.procs <;> simp

theorem firstRunnable_resolved (w : World) (hs : ∀ s, (w.proc s).spawn = none) (ss : List String) :
    firstRunnable (ss.map w.proc) = ss.head?.map (fun s => (w.proc s).id) := by
  cases ss with
  | nil => rfl
  | cons s ss => simp [firstRunnable, hs s]

/-- With every instruction startable, the lanes `L` (as strings) give one start event per non-empty lane. -/
theorem launch_resolved (w : World) (hs : ∀ s, (w.proc s).spawn = none) (L : List (List String)) :
    (L.map (fun ss => ss.map w.proc)).flatMap launchEvents =
      (L.filterMap List.head?).map (fun s => Event.start (w.proc s).id) := by
  induction L with
  | nil => rfl
  | cons ss L ih =>
    simp only [List.map_cons, List.flatMap_cons, ih, launchEvents_first, firstRunnable_resolved w hs,
      List.filterMap_cons]
    cases ss.head? <;> simp

end Pypyr.Cmd
