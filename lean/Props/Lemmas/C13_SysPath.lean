/- Inductive invariant of the `add_sys_path` transition system. -/
import PypyrModel.CacheTS

namespace Pypyr.CacheTS

def SpPc.inCS : SpPc → Bool
  | .spLocked _ | .spAppend _ | .spRelease _ => true
  | _ => false

/-- the path this thread has established to be on `sys.path` -/
def SpPc.added : SpPc → Option Nat
  | .spRelease p | .spKnown p => some p
  | _ => none

/-- the path this thread has established to exist -/
def SpPc.existing : SpPc → Option Nat
  | .spWant p | .spLocked p | .spAppend p | .spRelease p | .spKnown p => some p
  | _ => none

@[simp] theorem sp_setThread_threads (st : SpState) (t : Tid) (th : SpThread) (u : Tid) :
    (st.setThread t th).threads u = if u = t then th else st.threads u := rfl
@[simp] theorem sp_setThread_lock (st : SpState) (t : Tid) (th : SpThread) : (st.setThread t th).lock = st.lock := rfl
@[simp] theorem sp_setThread_sysPath (st : SpState) (t : Tid) (th : SpThread) : (st.setThread t th).sysPath = st.sysPath := rfl
@[simp] theorem sp_setThread_known (st : SpState) (t : Tid) (th : SpThread) : (st.setThread t th).known = st.known := rfl
@[simp] theorem sp_setThread_missing (st : SpState) (t : Tid) (th : SpThread) : (st.setThread t th).missing = st.missing := rfl

structure SpInv (ex : Nat → Bool) (base : List Nat) (st : SpState) : Prop where
  mutex : ∀ t, (st.threads t).pc.inCS = true ↔ st.lock = some t
  fresh : ∀ t p, (st.threads t).pc = .spAppend p → p ∉ st.sysPath
  nodup : st.sysPath.Nodup
  added : ∀ t p, (st.threads t).pc.added = some p → p ∈ st.sysPath
  known : ∀ p ∈ st.known, ex p = true → p ∈ st.sysPath
  existing : ∀ t p, (st.threads t).pc.existing = some p → ex p = true
  keeps : base <+: st.sysPath

theorem sp_mutex_step (ex : Nat → Bool) (st : SpState) (t : Tid)
    (h : ∀ t, (st.threads t).pc.inCS = true ↔ st.lock = some t) :
    ∀ u, ((spStep ex st t).threads u).pc.inCS = true ↔ (spStep ex st t).lock = some u := by
  intro u
  have hu := h u
  have ht := h t
  have hsym : (t = u) = (u = t) := propext eq_comm
  cases hpc : (st.threads t).pc <;> simp only [spStep, hpc]
  all_goals (try split)
  all_goals (try split)
  all_goals (by_cases hut : u = t <;> simp_all [SpPc.inCS])

theorem sp_fresh_step (ex : Nat → Bool) (st : SpState) (t : Tid)
    (hm : ∀ t, (st.threads t).pc.inCS = true ↔ st.lock = some t)
    (h : ∀ t p, (st.threads t).pc = .spAppend p → p ∉ st.sysPath) :
    ∀ u p, ((spStep ex st t).threads u).pc = .spAppend p → p ∉ (spStep ex st t).sysPath := by
  intro u p
  have hu := h u p
  have hmt := hm t
  have hcu : (st.threads u).pc = .spAppend p → st.lock = some u :=
    fun e => (hm u).1 (by rw [e]; rfl)
  have hsym : (t = u) = (u = t) := propext eq_comm
  cases hpc : (st.threads t).pc <;> simp only [spStep, hpc]
  all_goals (try split)
  all_goals (try split)
  all_goals (by_cases hut : u = t <;> simp_all [SpPc.inCS])
  all_goals (try (intro e; simp_all; done))

theorem sp_nodup_step (ex : Nat → Bool) (st : SpState) (t : Tid)
    (h : ∀ p, (st.threads t).pc = .spAppend p → p ∉ st.sysPath) (hn : st.sysPath.Nodup) :
    (spStep ex st t).sysPath.Nodup := by
  cases hpc : (st.threads t).pc <;> simp only [spStep, hpc]
  all_goals (try split)
  all_goals (try split)
  all_goals (simp_all [List.nodup_append])
  all_goals (try (intro a ha e; subst e; exact h ha))

theorem sp_added_step (ex : Nat → Bool) (st : SpState) (t : Tid)
    (h : ∀ t p, (st.threads t).pc.added = some p → p ∈ st.sysPath) :
    ∀ u p, ((spStep ex st t).threads u).pc.added = some p → p ∈ (spStep ex st t).sysPath := by
  intro u p
  have hu := h u p
  have ht := h t p
  cases hpc : (st.threads t).pc <;> simp only [spStep, hpc]
  all_goals (try split)
  all_goals (try split)
  all_goals (by_cases hut : u = t <;> simp_all [SpPc.added])
  all_goals (try (intro e; simp_all; done))
  all_goals (try (intro e; exact .inl (hu e)))

theorem sp_known_step (ex : Nat → Bool) (st : SpState) (t : Tid)
    (ha : ∀ p, (st.threads t).pc.added = some p → p ∈ st.sysPath)
    (h : ∀ p ∈ st.known, ex p = true → p ∈ st.sysPath) :
    ∀ p ∈ (spStep ex st t).known, ex p = true → p ∈ (spStep ex st t).sysPath := by
  intro p
  have hp := h p
  have hap := ha p
  cases hpc : (st.threads t).pc <;> simp only [spStep, hpc]
  all_goals (try split)
  all_goals (try split)
  all_goals (simp_all [SpPc.added])
  all_goals (try (rintro (e | e) <;> simp_all; done))
  all_goals (try (intro e1 e2; exact .inl (hp e1 e2)))

theorem sp_existing_step (ex : Nat → Bool) (st : SpState) (t : Tid)
    (h : ∀ t p, (st.threads t).pc.existing = some p → ex p = true) :
    ∀ u p, ((spStep ex st t).threads u).pc.existing = some p → ex p = true := by
  intro u p
  have hu := h u p
  have ht := h t p
  cases hpc : (st.threads t).pc <;> simp only [spStep, hpc]
  all_goals (try split)
  all_goals (try split)
  all_goals (by_cases hut : u = t <;> simp_all [SpPc.existing])
  all_goals (try (intro e; simp_all; done))

theorem sp_keeps_step (ex : Nat → Bool) (base : List Nat) (st : SpState) (t : Tid)
    (h : base <+: st.sysPath) : base <+: (spStep ex st t).sysPath := by
  cases hpc : (st.threads t).pc <;> simp only [spStep, hpc]
  all_goals (try split)
  all_goals (try split)
  all_goals (first | exact h | exact List.IsPrefix.trans h (List.prefix_append _ _))

theorem spInv_step (ex : Nat → Bool) (base : List Nat) (st : SpState) (t : Tid) (h : SpInv ex base st) :
    SpInv ex base (spStep ex st t) :=
  ⟨sp_mutex_step ex st t h.mutex, sp_fresh_step ex st t h.mutex h.fresh,
   sp_nodup_step ex st t (h.fresh t) h.nodup, sp_added_step ex st t h.added,
   sp_known_step ex st t (h.added t) h.known, sp_existing_step ex st t h.existing,
   sp_keeps_step ex base st t h.keeps⟩

theorem spInv_init (ex : Nat → Bool) (base : List Nat) (prog : Tid → List Nat) (hn : base.Nodup) :
    SpInv ex base (spInit base prog) := by
  refine ⟨?_, ?_, hn, ?_, ?_, ?_, ?_⟩ <;> simp [spInit, SpPc.inCS, SpPc.added, SpPc.existing]

theorem spInv_run (ex : Nat → Bool) (base : List Nat) (sched : List Tid) :
    ∀ st, SpInv ex base st → SpInv ex base (spRun ex st sched) := by
  induction sched with
  | nil => intro st h; exact h
  | cons t ts ih => intro st h; exact ih _ (spInv_step ex base st t h)

end Pypyr.CacheTS
