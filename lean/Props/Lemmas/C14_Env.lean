/-
  C14 helper: facts about `Env` (the association-list dict of PyNs): `get?` after `set`, after `++`,
  after `update`; key lists only grow at the end; membership of keys.
-/
import PypyrModel.PyNs

namespace Pypyr.PyNs

theorem orElse_none_left (b : Option V) : orElse Option.none b = b := rfl
theorem orElse_some_left (v : V) (b : Option V) : orElse (some v) b = some v := rfl
theorem orElse_none_right (a : Option V) : orElse a Option.none = a := by cases a <;> rfl
theorem orElse_assoc (a b c : Option V) : orElse (orElse a b) c = orElse a (orElse b c) := by
  cases a <;> rfl

namespace Env

theorem get?_nil (k : String) : get? [] k = Option.none := rfl

theorem get?_cons (k' : String) (v : V) (rest : Env) (k : String) :
    get? ((k', v) :: rest) k = if k' = k then some v else get? rest k := rfl

theorem get?_set (c : Env) (k x : String) (v : V) :
    get? (set c k v) x = if k = x then some v else get? c x := by
  induction c with
  | nil => simp [set, get?]
  | cons p rest ih =>
    obtain ⟨k', v'⟩ := p
    simp only [set]
    by_cases h : k' = k
    · subst h
      simp only [if_true, get?_cons]
      split <;> rfl
    · simp only [h, if_false, get?_cons, ih]
      by_cases h2 : k' = x
      · subst h2; simp [Ne.symm h]
      · simp [h2]

theorem get?_set_same (c : Env) (k : String) (v : V) : get? (set c k v) k = some v := by
  simp [get?_set]

theorem get?_set_other (c : Env) (k x : String) (v : V) (h : k ≠ x) : get? (set c k v) x = get? c x := by
  simp [get?_set, h]

theorem get?_append (l1 l2 : Env) (k : String) :
    get? (l1 ++ l2) k = orElse (get? l1 k) (get? l2 k) := by
  induction l1 with
  | nil => rfl
  | cons p rest ih =>
    obtain ⟨k', v'⟩ := p
    simp only [List.cons_append, get?_cons]
    split
    · rfl
    · exact ih

theorem update_nil (c : Env) : update c [] = c := rfl

theorem update_cons (c : Env) (kv : String × V) (rest : Env) :
    update c (kv :: rest) = update (set c kv.1 kv.2) rest := rfl

theorem update_append (c l1 l2 : Env) : update c (l1 ++ l2) = update (update c l1) l2 := by
  simp [update, List.foldl_append]

/-- `dict.update`: afterwards a key reads the LAST binding the update list has for it, else what
    it read before. -/
theorem get?_update (c kvs : Env) (k : String) :
    get? (update c kvs) k = orElse (get? kvs.reverse k) (get? c k) := by
  induction kvs generalizing c with
  | nil => rfl
  | cons p rest ih =>
    obtain ⟨k', v'⟩ := p
    rw [update_cons, ih, List.reverse_cons, get?_append, orElse_assoc, get?_set]
    congr 1
    simp only [get?_cons, get?_nil]
    split <;> rfl

theorem get?_eq_none_iff (c : Env) (k : String) : get? c k = Option.none ↔ k ∉ keys c := by
  induction c with
  | nil => simp [get?, keys]
  | cons p rest ih =>
    obtain ⟨k', v'⟩ := p
    simp only [get?_cons, keys, List.map_cons, List.mem_cons, not_or]
    simp only [keys] at ih
    split
    · rename_i h; subst h; simp
    · rename_i h
      rw [ih]
      constructor
      · intro h2; exact ⟨fun h3 => h h3.symm, h2⟩
      · intro h2; exact h2.2

theorem mem_of_get? (c : Env) (k : String) (v : V) (h : get? c k = some v) : (k, v) ∈ c := by
  induction c with
  | nil => simp [get?] at h
  | cons p rest ih =>
    obtain ⟨k', v'⟩ := p
    rw [get?_cons] at h
    split at h
    · rename_i h2; subst h2; cases h; exact List.mem_cons_self
    · exact List.mem_cons_of_mem _ (ih h)

theorem keys_reverse (c : Env) : keys c.reverse = (keys c).reverse := by simp [keys]

theorem keys_append (c d : Env) : keys (c ++ d) = keys c ++ keys d := by simp [keys]

/-- `dict.__setitem__` keeps every key where it is; a new key goes last. -/
theorem keys_set (c : Env) (k : String) (v : V) :
    keys (set c k v) = if k ∈ keys c then keys c else keys c ++ [k] := by
  induction c with
  | nil => simp [set, keys]
  | cons p rest ih =>
    obtain ⟨k', v'⟩ := p
    simp only [set]
    simp only [keys] at ih
    split
    · rename_i h; subst h; simp [keys]
    · rename_i h
      simp only [keys, List.map_cons, ih, List.mem_cons]
      have : ¬ k = k' := fun h2 => h h2.symm
      simp only [this, false_or]
      split <;> simp_all

theorem keys_set_prefix (c : Env) (k : String) (v : V) : keys c <+: keys (set c k v) := by
  rw [keys_set]; split
  · exact List.prefix_refl _
  · exact List.prefix_append _ _

theorem mem_keys_set (c : Env) (k x : String) (v : V) : x ∈ keys (set c k v) ↔ x ∈ keys c ∨ x = k := by
  rw [keys_set]; split
  · rename_i h
    constructor
    · exact Or.inl
    · rintro (h2 | h2)
      · exact h2
      · subst h2; exact h
  · simp

/-- `dict.update` never removes or reorders an existing key: the old key list is a prefix. -/
theorem keys_update_prefix (c kvs : Env) : keys c <+: keys (update c kvs) := by
  induction kvs generalizing c with
  | nil => exact List.prefix_refl _
  | cons p rest ih =>
    rw [update_cons]
    exact (keys_set_prefix c p.1 p.2).trans (ih _)

theorem mem_keys_update (c kvs : Env) (x : String) : x ∈ keys (update c kvs) ↔ x ∈ keys c ∨ x ∈ keys kvs := by
  induction kvs generalizing c with
  | nil => simp [update_nil, keys]
  | cons p rest ih =>
    rw [update_cons, ih, mem_keys_set]
    simp only [keys, List.map_cons, List.mem_cons]
    constructor
    · rintro ((h | h) | h)
      · exact Or.inl h
      · exact Or.inr (Or.inl h)
      · exact Or.inr (Or.inr h)
    · rintro (h | h | h)
      · exact Or.inl (Or.inl h)
      · exact Or.inl (Or.inr h)
      · exact Or.inr h

/-- A key the update list does not mention reads as before. -/
theorem get?_update_of_not_mem (c kvs : Env) (k : String) (h : k ∉ keys kvs) :
    get? (update c kvs) k = get? c k := by
  rw [get?_update]
  have : get? kvs.reverse k = Option.none := by
    rw [get?_eq_none_iff, keys_reverse]; simpa using h
  rw [this]; rfl

/-- Every binding after an update is an old binding or one of the update list's pairs. -/
theorem get?_update_cases (c kvs : Env) (k : String) (v : V) (h : get? (update c kvs) k = some v) :
    get? c k = some v ∨ (k, v) ∈ kvs := by
  rw [get?_update] at h
  cases hr : get? kvs.reverse k with
  | none => rw [hr] at h; exact Or.inl h
  | some w =>
    rw [hr] at h; cases h
    exact Or.inr (by simpa using mem_of_get? _ _ _ hr)

end Env

end Pypyr.PyNs
