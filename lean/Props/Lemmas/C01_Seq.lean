/-
  The two "one after the other, stop at the first that does not end normally" loops of the
  steps runner — `run_pipeline_steps` (`runSteps`) and the `for step_group in groups` loop
  (`runGroupList`) — are the same fuel-indexed sequencing combinator `seqRun`. Its laws are
  proved once, for every element runner, every list length, every fuel and every state:
  decomposition at any split point, left-to-right threading of the state while everything ends
  `ok`, stopping at the first non-`ok` element, and the converse origin lemma.
-/
import Props.Lemmas.FlowRunner

namespace Pypyr.Flow

/-- run the elements left to right; element `x` is run by `f k x` where `k` is the fuel left. -/
def seqRun {α : Type} (f : Nat → α → Body) : Nat → List α → Body
  | 0, _ => fun s => (s, .outOfFuel)
  | _ + 1, [] => fun s => (s, .ok)
  | fuel + 1, x :: rest => fun s =>
    match f fuel x s with
    | (s1, .ok) => seqRun f fuel rest s1
    | other => other

/-- "`pre` ran as the leading elements of `seqRun f fuel`, each ended `ok`, and the state went
    from `s` to `s'`": the state is threaded through the elements in list order. -/
def SeqChain {α : Type} (f : Nat → α → Body) : Nat → List α → St → St → Prop
  | _, [], s, s' => s' = s
  | 0, _ :: _, _, _ => False
  | fuel + 1, x :: rest, s, s' => ∃ s1, f fuel x s = (s1, .ok) ∧ SeqChain f fuel rest s1 s'

variable {α : Type} (f : Nat → α → Body)

theorem seqRun_cons (fuel : Nat) (x : α) (rest : List α) (s : St) :
    seqRun f (fuel + 1) (x :: rest) s =
      (match f fuel x s with
       | (s1, .ok) => seqRun f fuel rest s1
       | other => other) := rfl

theorem SeqChain_nil (fuel : Nat) (s s' : St) : SeqChain f fuel [] s s' ↔ s' = s := by
  cases fuel <;> simp [SeqChain]

theorem SeqChain_cons (fuel : Nat) (x : α) (rest : List α) (s s' : St) :
    SeqChain f (fuel + 1) (x :: rest) s s' ↔ ∃ s1, f fuel x s = (s1, .ok) ∧ SeqChain f fuel rest s1 s' := by
  simp [SeqChain]

theorem SeqChain_length : ∀ (pre : List α) (fuel : Nat) (s s' : St),
    SeqChain f fuel pre s s' → pre.length ≤ fuel := by
  intro pre
  induction pre with
  | nil => intro fuel s s' _; exact Nat.zero_le _
  | cons x rest ih =>
    intro fuel s s' h
    cases fuel with
    | zero => exact h.elim
    | succ n =>
      obtain ⟨s1, _, h2⟩ := h
      have := ih n s1 s' h2
      simp only [List.length_cons]; omega

/-- decomposition: once the leading elements `pre` all ended `ok`, the run continues with the
    remaining elements from the state they left, with the fuel they left. -/
theorem seqRun_append : ∀ (pre rest : List α) (fuel : Nat) (s s0 : St),
    SeqChain f fuel pre s s0 →
    seqRun f fuel (pre ++ rest) s = seqRun f (fuel - pre.length) rest s0 := by
  intro pre
  induction pre with
  | nil => intro rest fuel s s0 h; rw [SeqChain_nil] at h; subst h; simp
  | cons x pre' ih =>
    intro rest fuel s s0 h
    cases fuel with
    | zero => exact h.elim
    | succ n =>
      obtain ⟨s1, h1, h2⟩ := h
      simp only [List.cons_append, seqRun_cons, h1, List.length_cons, Nat.add_sub_add_right]
      exact ih rest n s1 s0 h2

/-- all elements end `ok` ⇔ the state is threaded left to right through all of them (and the fuel
    sufficed). -/
theorem seqRun_ok_iff : ∀ (xs : List α) (fuel : Nat) (s s' : St),
    seqRun f fuel xs s = (s', .ok) ↔ (xs.length < fuel ∧ SeqChain f fuel xs s s') := by
  intro xs
  induction xs with
  | nil =>
    intro fuel s s'
    cases fuel with
    | zero => simp [seqRun]
    | succ n =>
      simp only [seqRun, SeqChain, List.length_nil, Nat.zero_lt_succ, true_and]
      constructor
      · intro h; injection h with h1 _; exact h1.symm
      · intro h; rw [h]
  | cons x rest ih =>
    intro fuel s s'
    cases fuel with
    | zero => simp [seqRun]
    | succ n =>
      rw [seqRun_cons]
      constructor
      · intro h
        generalize hx : f n x s = p at h
        obtain ⟨s1, r⟩ := p
        cases r with
        | ok =>
          simp only [] at h
          obtain ⟨hl, hc⟩ := (ih n s1 s').1 h
          exact ⟨by simp only [List.length_cons]; omega, s1, hx, hc⟩
        | _ => simp at h
      · rintro ⟨hl, s1, h1, hc⟩
        rw [h1]
        simp only []
        exact (ih n s1 s').2 ⟨by simp only [List.length_cons] at hl; omega, hc⟩

/-- **stop at the first element that does not end `ok`**: the result is that element's result,
    the final state is that element's final state; the elements after it (`post`) play no role. -/
theorem seqRun_first_nonok (pre post : List α) (x : α) (fuel : Nat) (s s0 s1 : St) (r : Res)
    (hpre : SeqChain f fuel pre s s0) (hlen : pre.length < fuel)
    (hx : f (fuel - pre.length - 1) x s0 = (s1, r)) (hr : r ≠ .ok) :
    seqRun f fuel (pre ++ x :: post) s = (s1, r) := by
  rw [seqRun_append f pre (x :: post) fuel s s0 hpre]
  obtain ⟨k, hk⟩ : ∃ k, fuel - pre.length = k + 1 := ⟨fuel - pre.length - 1, by omega⟩
  rw [hk, seqRun_cons]
  have : fuel - pre.length - 1 = k := by omega
  rw [this] at hx
  rw [hx]
  cases r <;> simp_all

/-- **origin**: a result other than `ok` / out-of-fuel is the result of exactly one element, reached
    after all elements before it ended `ok`; the final state is that element's final state. -/
theorem seqRun_nonok_origin : ∀ (xs : List α) (fuel : Nat) (s s' : St) (r : Res),
    seqRun f fuel xs s = (s', r) → r ≠ .ok → r ≠ .outOfFuel →
    ∃ pre x post s0, xs = pre ++ x :: post ∧ SeqChain f fuel pre s s0 ∧ pre.length < fuel ∧
      f (fuel - pre.length - 1) x s0 = (s', r) := by
  intro xs
  induction xs with
  | nil =>
    intro fuel s s' r h hr hf
    cases fuel with
    | zero => simp [seqRun] at h; exact (hf h.2.symm).elim
    | succ n => simp [seqRun] at h; exact (hr h.2.symm).elim
  | cons x rest ih =>
    intro fuel s s' r h hr hf
    cases fuel with
    | zero => simp [seqRun] at h; exact (hf h.2.symm).elim
    | succ n =>
      rw [seqRun_cons] at h
      generalize hx : f n x s = p at h
      obtain ⟨s1, r1⟩ := p
      by_cases hok : r1 = .ok
      · subst hok
        simp only [] at h
        obtain ⟨pre, y, post, s0, hxs, hc, hl, hy⟩ := ih n s1 s' r h hr hf
        refine ⟨x :: pre, y, post, s0, by rw [hxs]; rfl, ⟨s1, hx, hc⟩, by simp only [List.length_cons]; omega, ?_⟩
        simp only [List.length_cons, Nat.add_sub_add_right]
        exact hy
      · have h' : (s1, r1) = (s', r) := by cases r1 <;> simp_all
        refine ⟨[], x, rest, s, rfl, (SeqChain_nil f _ _ _).2 rfl, Nat.zero_lt_succ _, ?_⟩
        simp only [List.length_nil, Nat.sub_zero, Nat.add_sub_cancel]
        rw [hx, h']

/-! ### the two instances -/

theorem runSteps_eq_seqRun (prog : Program) (pipe : String) : ∀ (fuel : Nat) (ds : List StepDef) (s : St),
    runSteps fuel prog pipe ds s = seqRun (fun k d => runStep k prog pipe d) fuel ds s := by
  intro fuel
  induction fuel with
  | zero => intro ds s; unfold runSteps; rfl
  | succ n ih =>
    intro ds s
    cases ds with
    | nil => unfold runSteps; rfl
    | cons d rest =>
      rw [runSteps_cons, seqRun_cons]
      generalize runStep n prog pipe d s = p
      obtain ⟨s1, r⟩ := p
      cases r <;> simp only []
      exact ih rest s1

theorem runGroupList_eq_seqRun (prog : Program) (pipe : String) : ∀ (fuel : Nat) (gs : List String) (s : St),
    runGroupList fuel prog pipe gs s = seqRun (fun k g => runStepGroup k prog pipe g false) fuel gs s := by
  intro fuel
  induction fuel with
  | zero => intro gs s; unfold runGroupList; rfl
  | succ n ih =>
    intro gs s
    cases gs with
    | nil => unfold runGroupList; rfl
    | cons g rest =>
      rw [runGroupList_cons, seqRun_cons]
      generalize runStepGroup n prog pipe g false s = p
      obtain ⟨s1, r⟩ := p
      cases r <;> simp only []
      exact ih rest s1

end Pypyr.Flow
