/-
  C07: `runErrors` = the escapes, over a whole run.

  The interpreter keeps a ghost log `St.escapes` (`PypyrModel/Flow/Types.lean`, `Layers.lean`
  `logEscape`): one record per event "an error came out of a step's body (after its retries), not
  marked as already handled" - which step, which exception object, in which context. Nothing in the
  model reads the log. This file relates the observable `runErrors` list to it: for every program in
  which no step can write `runErrors` behind the interpreter's back (`progOk`, `C07_Global.lean`), every
  run-function, every fuel, from every state whose `runErrors` is absent or a list,

      runErrors after  =  runErrors before  ++  (the escapes logged meanwhile).filterMap entry?

  where `entry?` is a pure function of the logged event: the record `save_error` builds (name, message,
  step, line, col, exception object, `swallowed` = the step's `swallow` and `customError` = its `onError`,
  both formatted in the context of the event), or nothing when one of the two fails to format (the
  formatting error then propagates instead). So: every escape yields exactly one entry (at most one, and
  exactly one when `swallow` and `onError` format), in chronological order, and nothing else ever does.
-/
import Props.Lemmas.C07_GlobalRun

namespace Pypyr.C07
open Pypyr Pypyr.Flow Pypyr.C04

/-- the `runErrors` entry an escape event gives rise to; `none` when the step's `swallow` or `onError`
    does not format in the context of the event. -/
def entry? (x : Escape) : Option Val :=
  match fmtB { ctx := x.ctx } x.step.swallow, customError x.step { ctx := x.ctx } with
  | .ok sw, .ok ce => some (entry x.step x.exc sw ce)
  | _, _ => none

/-- `runErrors` is absent or a list (what `setdefault('runErrors', []).append` needs). -/
def REok (s : St) : Prop :=
  Ctx.get? s.ctx "runErrors" = none ∨ ∃ xs, Ctx.get? s.ctx "runErrors" = some (.list xs)

/-- "from `a` to `b` the `runErrors` list grew by exactly the entries of the escapes logged meanwhile"
    (given a harmless probe configuration and a well-formed `runErrors` at `a`; both hold again at `b`). -/
def Acc (a b : St) : Prop := SafeP a → REok a →
  SafeP b ∧ REok b ∧ ∃ new, b.escapes = a.escapes ++ new ∧ runErrorsOf b = runErrorsOf a ++ new.filterMap entry?

theorem REok_congr (a b : St) (h : Ctx.get? b.ctx "runErrors" = Ctx.get? a.ctx "runErrors") (ha : REok a) : REok b := by
  unfold REok at ha ⊢; rw [h]; exact ha

theorem acc : CtxRel ["runErrors", "p"] Acc where
  trans := by
    intro a b c h1 h2 ha hr
    obtain ⟨hb, hrb, n1, e1, r1⟩ := h1 ha hr
    obtain ⟨hc, hrc, n2, e2, r2⟩ := h2 hb hrb
    exact ⟨hc, hrc, n1 ++ n2, by rw [e2, e1, List.append_assoc],
      by rw [r2, r1, List.filterMap_append, List.append_assoc]⟩
  same := fun a b h he ha hr => by
    refine ⟨fun cfg hc => ha cfg (by rw [← h "p" (by simp)]; exact hc),
      REok_congr a b (h "runErrors" (by simp)) hr, [], by rw [he, List.append_nil], ?_⟩
    rw [runErrorsOf_congr a b (h "runErrors" (by simp))]; simp
  noRetry := by decide
  noI := by decide
  noWhile := by decide

/-- `Acc` from key equalities and an unchanged log. -/
theorem acc_of_keys (a b : St) (h1 : Ctx.get? b.ctx "runErrors" = Ctx.get? a.ctx "runErrors")
    (h2 : Ctx.get? b.ctx "p" = Ctx.get? a.ctx "p") (he : b.escapes = a.escapes) : Acc a b :=
  acc.same a b (fun k hk => by
    simp only [List.mem_cons, List.not_mem_nil, or_false] at hk
    rcases hk with rfl | rfl
    · exact h1
    · exact h2) he

theorem acc_sameCtx (a b : St) (h : b.ctx = a.ctx) (he : b.escapes = a.escapes) : Acc a b :=
  rel_sameCtx acc a b h he

theorem customError_ctx (d : StepDef) (s : St) : customError d { ctx := s.ctx } = customError d s := rfl
theorem fmtB_ctx (s : St) (v : Val) : fmtB { ctx := s.ctx } v = fmtB s v := rfl

/-- **recording**: the ghost log gets the event, `runErrors` its entry - or, when `onError` does not format,
    nothing (that error propagates). -/
theorem record_acc (d : StepDef) (s : St) (e : ExcV) (sw : Bool) (hsw : fmtB s d.swallow = .ok sw) :
    Acc s (saveError d (logEscape d s e false) e sw).1 := by
  intro hs hr
  have hlog : (logEscape d s e false) = { s with escapes := s.escapes ++ [⟨d, e, s.ctx⟩] } := by simp [logEscape]
  rw [hlog, saveError_eq]
  have hce : customError d { s with escapes := s.escapes ++ [⟨d, e, s.ctx⟩] } = customError d s := rfl
  rw [hce]
  cases hc : customError d s with
  | error x =>
    refine ⟨hs, hr, [⟨d, e, s.ctx⟩], rfl, ?_⟩
    have : entry? ⟨d, e, s.ctx⟩ = none := by
      unfold entry?; simp only [customError_ctx, hc]; split <;> simp_all
    simp [this, runErrorsOf, raiseExc, raiseNew]
  | ok ce =>
    have hent : entry? ⟨d, e, s.ctx⟩ = some (entry d e sw ce) := by
      unfold entry?; simp only [customError_ctx, fmtB_ctx, hc, hsw]
    simp only []
    rcases hr with hn | ⟨xs, hx⟩
    · simp only [hn]
      refine ⟨?_, .inr ⟨_, ctx_get_set_self _ _ _⟩, [⟨d, e, s.ctx⟩], rfl, ?_⟩
      · intro cfg hcfg
        apply hs cfg
        simpa [ctx_get_set_ne _ "p" "runErrors" _ (by decide)] using hcfg
      · simp [hent, runErrorsOf, hn, ctx_get_set_self, reList]
    · simp only [hx]
      refine ⟨?_, .inr ⟨_, ctx_get_set_self _ _ _⟩, [⟨d, e, s.ctx⟩], rfl, ?_⟩
      · intro cfg hcfg
        apply hs cfg
        simpa [ctx_get_set_ne _ "p" "runErrors" _ (by decide)] using hcfg
      · simp [hent, runErrorsOf, hx, ctx_get_set_self, reList]

/-- the escape is logged but `swallow` does not format: no entry. -/
theorem log_acc (d : StepDef) (s : St) (e : ExcV) (x : Exc) (hsw : fmtB s d.swallow = .error x) :
    Acc s (logEscape d s e false) := by
  intro hs hr
  have hlog : (logEscape d s e false) = { s with escapes := s.escapes ++ [⟨d, e, s.ctx⟩] } := by simp [logEscape]
  rw [hlog]
  refine ⟨hs, hr, [⟨d, e, s.ctx⟩], rfl, ?_⟩
  have : entry? ⟨d, e, s.ctx⟩ = none := by
    unfold entry?; simp only [fmtB_ctx, hsw]
  simp [this, runErrorsOf]

/-! ### the `in` arguments of an ok step, the probe, the instruction steps -/

theorem setIn_escapes (d : StepDef) (s : St) : (setIn d s).escapes = s.escapes := by
  unfold setIn; split <;> rfl
theorem unsetIn_escapes (d : StepDef) (s : St) : (unsetIn d s).escapes = s.escapes := by
  unfold unsetIn; split <;> rfl

theorem inKeys_not_runErrors (d : StepDef) (hd : stepOk d = true) : "runErrors" ∉ (d.inArgs.getD []).map (·.1) := by
  have hall : ∀ kv, kv ∈ d.inArgs.getD [] → bindingOk kv = true := by
    have := hd
    simp only [stepOk, Bool.and_eq_true, List.all_eq_true] at this
    exact this.2
  intro hm
  obtain ⟨kv, hkv, hk⟩ := List.mem_map.mp hm
  have := hall kv hkv
  simp [bindingOk, hk] at this

theorem setIn_acc (d : StepDef) (hd : stepOk d = true) (s : St) : Acc s (setIn d s) := by
  intro hs hr
  have hre : Ctx.get? (setIn d s).ctx "runErrors" = Ctx.get? s.ctx "runErrors" := by
    rw [setIn_eq]; exact ctx_get_update_notin _ _ _ (inKeys_not_runErrors d hd)
  refine ⟨(setIn_good d hd s hs).1, REok_congr _ _ hre hr, [], by rw [setIn_escapes, List.append_nil], ?_⟩
  rw [runErrorsOf_congr s _ hre]; simp

theorem unsetIn_acc (d : StepDef) (hd : stepOk d = true) (s : St) : Acc s (unsetIn d s) := by
  intro hs hr
  have hre : Ctx.get? (unsetIn d s).ctx "runErrors" = Ctx.get? s.ctx "runErrors" := by
    rw [unsetIn_eq]; exact ctx_get_eraseAll_notin _ _ _ (inKeys_not_runErrors d hd)
  refine ⟨(unsetIn_good d hd s hs).1, REok_congr _ _ hre hr, [], by rw [unsetIn_escapes, List.append_nil], ?_⟩
  rw [runErrorsOf_congr s _ hre]; simp

theorem probeStep_escapes (s : St) : (probeStep s).1.escapes = s.escapes := by
  unfold probeStep
  split
  · simp only []
    repeat' split
    all_goals rfl
  · rfl

theorem probeStep_acc : Keeps Acc probeStep := by
  intro s hs hr
  have hg := probeStep_good s hs
  -- the probe keeps `runErrors` (its configuration is harmless) and the ghost log
  have hre : Ctx.get? (probeStep s).1.ctx "runErrors" = Ctx.get? s.ctx "runErrors" := by
    cases hp : Ctx.get? s.ctx "p" with
    | none =>
      have : (probeStep s).1.ctx = s.ctx := by unfold probeStep; rw [hp]; rfl
      rw [this]
    | some v =>
      cases v with
      | dict cfg =>
        obtain ⟨n, hn⟩ := probeStep_ctx s cfg hp
        rw [hn, probeCtx_get cfg _ "runErrors" (hs cfg hp) (.inl rfl),
          ctx_get_set_ne _ _ _ _ (cntKey_ne _ "runErrors" (.inl rfl))]
      | _ =>
        have : (probeStep s).1.ctx = s.ctx := by unfold probeStep; rw [hp]; rfl
        rw [this]
  refine ⟨hg.1, REok_congr _ _ hre hr, [], by rw [probeStep_escapes, List.append_nil], ?_⟩
  rw [runErrorsOf_congr s _ hre]; simp

theorem cofStep_escapes (key : String) (isCall : Bool) (s : St) : (cofStep key isCall s).1.escapes = s.escapes := by
  unfold cofStep
  repeat' split
  all_goals rfl

theorem switchScan_escapes (s : St) (original : Val) :
    ∀ (cases : List Val) (idx : Nat), (switchScan s original cases idx).1.escapes = s.escapes := by
  intro cases
  induction cases with
  | nil => intro idx; rfl
  | cons c rest ih =>
    intro idx
    unfold switchScan
    repeat' split
    all_goals first
      | rfl
      | exact ih _

theorem switchStep_escapes (s : St) : (switchStep s).1.escapes = s.escapes := by
  unfold switchStep
  repeat' split
  all_goals first
    | rfl
    | exact switchScan_escapes _ _ _ _

/-! ### one step, then the knot -/

theorem runStep_acc (prog : Program) (fuel : Nat) (pipe : String) (d : StepDef) (hd : stepOk d = true)
    (hG : ∀ pipe gs su fa, Keeps Acc (runGroups fuel prog pipe gs su fa)) :
    Keeps Acc (runStep (fuel + 1) prog pipe d) := by
  intro s
  unfold runStep
  simp only []
  cases hinit : stepInit d with
  | error p => obtain ⟨n, m⟩ := p; exact rel_raiseNew acc _ _ _
  | ok kind =>
    simp only []
    have hk := stepOk_kind d kind hd hinit
    have hc : ∀ c : CofCfg, Keeps Acc (fun s' =>
        runGroups fuel prog (s'.stack.head?.getD pipe) c.groups c.success c.failure s') :=
      fun c s' => hG _ _ _ _ s'
    have hW : ∀ k : String, k = "call" ∨ k = "jump" ∨ k = "switch" → k ∉ ["runErrors", "p"] := by
      intro k hk; rcases hk with rfl | rfl | rfl <;> decide
    have hrec : ∀ s e sw, fmtB s d.swallow = .ok sw → Acc s (saveError d (logEscape d s e false) e sw).1 :=
      fun s e sw h => record_acc d s e sw h
    have hlog : ∀ s e x, fmtB s d.swallow = .error x → Acc s (logEscape d s e false) :=
      fun s e x h => log_acc d s e x h
    have plain : ∀ r : Res, (∀ c, r ≠ .call c) →
        Acc s (runStepDescribed d (fun s => (s, r))
          (fun (c : CofCfg) s' => runGroups fuel prog (s'.stack.head?.getD pipe) c.groups c.success c.failure s') fuel s).1 :=
      fun r hr => runStepDescribed_keeps acc d _ _ fuel hrec hlog (fun s => acc.refl s) hc
        (fun s s1 c h => by injection h with _ h2; exact absurd h2 (hr c))
        (setIn_acc d hd) (unsetIn_acc d hd) s
    cases kind with
    | probe =>
      exact runStepDescribed_keeps acc d probeStep _ fuel hrec hlog probeStep_acc hc
        (fun s s1 c h => absurd h (probeStep_not_call s s1 c)) (setIn_acc d hd) (unsetIn_acc d hd) s
    | stop => exact plain .stop (by intro c h; cases h)
    | stopPipeline => exact plain .stopPipeline (by intro c h; cases h)
    | stopGroup => exact plain .stopGroup (by intro c h; cases h)
    | call =>
      exact runStepDescribed_keeps acc d (cofStep "call" true) _ fuel hrec hlog
        (fun s => acc_sameCtx _ _ (cofStep_ctx _ _ s) (cofStep_escapes _ _ s)) hc
        (fun s s1 c h => by rw [cofStep_callKey _ _ _ _ _ h]; exact hW _ (.inl rfl))
        (setIn_acc d hd) (unsetIn_acc d hd) s
    | jump =>
      exact runStepDescribed_keeps acc d (cofStep "jump" false) _ fuel hrec hlog
        (fun s => acc_sameCtx _ _ (cofStep_ctx _ _ s) (cofStep_escapes _ _ s)) hc
        (fun s s1 c h => by rw [cofStep_callKey _ _ _ _ _ h]; exact hW _ (.inr (.inl rfl)))
        (setIn_acc d hd) (unsetIn_acc d hd) s
    | switch =>
      exact runStepDescribed_keeps acc d switchStep _ fuel hrec hlog
        (fun s => acc_sameCtx _ _ (switchStep_ctx s) (switchStep_escapes s)) hc
        (fun s s1 c h => by rw [switchStep_callKey _ _ _ h]; exact hW _ (.inr (.inr rfl)))
        (setIn_acc d hd) (unsetIn_acc d hd) s
    | set => simp [allowedKind] at hk
    | contextClear => simp [allowedKind] at hk
    | contextClearAll => simp [allowedKind] at hk
    | pype => simp [allowedKind] at hk

/-- `Acc` for every function of the mutual recursion at one fuel level. -/
def AllAcc (prog : Program) (n : Nat) : Prop :=
  (∀ pipe d, stepOk d = true → Keeps Acc (runStep n prog pipe d)) ∧
  (∀ pipe ds, (∀ d, d ∈ ds → stepOk d = true) → Keeps Acc (runSteps n prog pipe ds)) ∧
  (∀ pipe g rs, Keeps Acc (runStepGroup n prog pipe g rs)) ∧
  (∀ pipe gs, Keeps Acc (runGroupList n prog pipe gs)) ∧
  (∀ pipe g, Keeps Acc (runFailureGroup n prog pipe g)) ∧
  (∀ pipe gs su fa, Keeps Acc (runGroups n prog pipe gs su fa)) ∧
  (∀ pi, Keeps Acc (runPipeline n prog pi))

theorem allAcc_zero (prog : Program) : AllAcc prog 0 := by
  refine ⟨?_, ?_, ?_, ?_, ?_, ?_, ?_⟩
  · intro pipe d _ s; unfold runStep; exact acc.refl s
  · intro pipe ds _ s; unfold runSteps; exact acc.refl s
  · intro pipe g rs s; unfold runStepGroup; exact acc.refl s
  · intro pipe gs s; unfold runGroupList; exact acc.refl s
  · intro pipe g s; unfold runFailureGroup; exact acc.refl s
  · intro pipe gs su fa s; unfold runGroups; exact acc.refl s
  · intro pi s; unfold runPipeline; exact acc.refl s

theorem allAcc_succ (prog : Program) (hp : progOk prog = true) (n : Nat) (ih : AllAcc prog n) :
    AllAcc prog (n + 1) := by
  obtain ⟨ih1, ih2, ih3, ih4, ih5, ih6, ih7⟩ := ih
  refine ⟨?_, ?_, ?_, ?_, ?_, ?_, ?_⟩
  · intro pipe d hd
    exact runStep_acc prog n pipe d hd ih6
  · intro pipe ds hds s
    cases ds with
    | nil => unfold runSteps; exact acc.refl s
    | cons d rest =>
      rw [runSteps_cons]
      generalize hr : runStep n prog pipe d s = p
      obtain ⟨s1, r⟩ := p
      have h1 : Acc s s1 := keeps_pair (ih1 pipe d (hds d List.mem_cons_self)) hr
      cases r <;> simp only [] <;> first
        | exact h1
        | exact acc.trans h1 (ih2 pipe rest (fun d' hd' => hds d' (List.mem_cons_of_mem _ hd')) s1)
  · intro pipe g rs s
    by_cases hg0 : g = ""
    · subst hg0; rw [runStepGroup_empty_name]; exact rel_raiseNew acc _ _ _
    cases hgs : getPipelineSteps prog pipe g with
    | error e =>
      obtain ⟨en, em⟩ := e
      rw [runStepGroup_unsized n prog pipe g rs s en em hgs hg0]
      exact rel_raiseNew acc _ _ _
    | ok ss =>
      have hss : groupSteps prog pipe g = ss := by unfold groupSteps; rw [hgs]
      rw [runStepGroup_eq' n prog pipe g rs s ss hgs hg0]
      generalize hr : runSteps n prog pipe ss s = p
      obtain ⟨s1, r⟩ := p
      have h1 : Acc s s1 := keeps_pair (ih2 pipe _ (hss ▸ progOk_groupSteps prog hp pipe g)) hr
      cases r <;> simp only [] <;> first
        | exact h1
        | exact acc.trans h1 (ih6 _ _ _ _ s1)
        | (split <;> exact h1)
  · intro pipe gs s
    cases gs with
    | nil => unfold runGroupList; exact acc.refl s
    | cons g rest =>
      rw [runGroupList_cons]
      generalize hr : runStepGroup n prog pipe g false s = p
      obtain ⟨s1, r⟩ := p
      have h1 : Acc s s1 := keeps_pair (ih3 pipe g false) hr
      cases r <;> simp only [] <;> first
        | exact h1
        | exact acc.trans h1 (ih4 pipe rest s1)
  · intro pipe g s
    cases g with
    | none => unfold runFailureGroup; exact acc.refl s
    | some name =>
      by_cases hn : name = ""
      · subst hn; unfold runFailureGroup; exact acc.refl s
      · rw [runFailureGroup_eq n prog pipe name s hn]
        generalize hr : runStepGroup n prog pipe name true s = p
        obtain ⟨s1, r⟩ := p
        have h1 : Acc s s1 := keeps_pair (ih3 pipe name true) hr
        cases r <;> exact h1
  · intro pipe gs su fa s
    cases gs with
    | nil => unfold runGroups; exact rel_raiseNew acc _ _ _
    | cons g rest =>
      rw [runGroups_eq]
      have hmain : Acc s (mainPhase n prog pipe (g :: rest) su s).1 := by
        unfold mainPhase
        generalize hr : runGroupList n prog pipe (g :: rest) s = p
        obtain ⟨s1, r⟩ := p
        have h1 : Acc s s1 := keeps_pair (ih4 pipe (g :: rest)) hr
        cases r <;> simp only [] <;> try exact h1
        cases su with
        | none => exact h1
        | some sg =>
          simp only []
          split
          · exact h1
          · exact acc.trans h1 (ih3 pipe sg false s1)
      generalize hm : mainPhase n prog pipe (g :: rest) su s = p at hmain
      obtain ⟨s1, r⟩ := p
      cases r <;> simp only [] <;> try exact hmain
      split
      · generalize hf : runFailureGroup n prog pipe fa s1 = q
        obtain ⟨s2, r2⟩ := q
        have h2 : Acc s1 s2 := keeps_pair (ih5 pipe fa) hf
        cases r2 <;> exact acc.trans hmain h2
      · exact hmain
  · intro pi s
    cases hf : prog.find? pi.name with
    | none => rw [runPipeline_notFound n prog pi s hf]; exact rel_raiseNew acc _ _ _
    | some pd =>
      have h0 : Acc s { s with stack := pi.name :: s.stack } := acc_sameCtx _ _ rfl rfl
      by_cases hgb : pi.groupsBad = true
      · rw [runPipeline_groupsBad n prog pi pd s hf hgb]
        simp only [prepareContext_noParser pd pi _ (progOk_parser prog hp pi.name pd hf)]
        have h1' : Acc { s with stack := pi.name :: s.stack }
            (raiseNew { s with stack := pi.name :: s.stack } "TypeError" "~object is not iterable").1 :=
          rel_raiseNew acc _ _ _
        by_cases hf0 : hasFailureGroup pi.failure = true
        · simp only [hf0, if_true]
          generalize hq : runFailureGroup n prog pi.name pi.failure
            (raiseNew { s with stack := pi.name :: s.stack } "TypeError" "~object is not iterable").1 = q
          obtain ⟨s2, r2⟩ := q
          have h2 := keeps_pair (ih5 pi.name pi.failure) hq
          cases r2 <;> exact acc.trans h0 (acc.trans h1' (acc.trans h2 (acc_sameCtx _ _ rfl rfl)))
        · simp only [hf0]
          exact acc.trans h0 (acc.trans h1' (acc_sameCtx _ _ rfl rfl))
      have hgb : pi.groupsBad = false := by simpa using hgb
      rw [runPipeline_eq n prog pi pd s hf hgb]
      simp only [prepareContext_noParser pd pi _ (progOk_parser prog hp pi.name pd hf)]
      generalize hr : runGroups n prog pi.name (effectiveGroups pi).1 (effectiveGroups pi).2.1
        (effectiveGroups pi).2.2 { s with stack := pi.name :: s.stack } = p
      obtain ⟨s2, r⟩ := p
      have h1 : Acc { s with stack := pi.name :: s.stack } s2 := keeps_pair (ih6 _ _ _ _) hr
      cases r <;> exact acc.trans h0 (acc.trans h1 (acc_sameCtx _ _ rfl rfl))

theorem allAcc (prog : Program) (hp : progOk prog = true) : ∀ n, AllAcc prog n := by
  intro n
  induction n with
  | zero => exact allAcc_zero prog
  | succ n ih => exact allAcc_succ prog hp n ih

end Pypyr.C07
