/-
  C08 helper lemmas about the parser state machine (`PypyrModel/FmtParse.lean`):
  how `run` behaves on brace-free text, on `{{` / `}}`, on a well-formed replacement field;
  the grammar of well-formed format strings (`Chunk`) and the parse of every rendered chunk list.
-/
import PypyrModel.FmtParse
import PypyrModel.Format
import PypyrModel.FormatSpec

namespace Pypyr.Format

/-- no `{` and no `}` -/
def NoBrace (cs : List Char) : Prop := ∀ c ∈ cs, c ≠ '{' ∧ c ≠ '}'

instance (cs : List Char) : Decidable (NoBrace cs) := by unfold NoBrace; exact inferInstance

theorem run_nil (st : PSt) : run st [] = st := rfl
theorem run_cons (st : PSt) (c : Char) (cs : List Char) : run st (c :: cs) = run (step st c) cs := rfl
theorem run_append (st : PSt) (a b : List Char) : run st (a ++ b) = run (run st a) b := by
  unfold run; exact List.foldl_append

/-- brace-free text is accumulated as literal text -/
theorem run_lit_plain (out : List Tup) (acc cs : List Char) (h : NoBrace cs) :
    run (.lit out acc) cs = .lit out (acc ++ cs) := by
  induction cs generalizing acc with
  | nil => simp [run_nil]
  | cons c cs ih =>
    have hc := h c (by simp)
    have hcs : NoBrace cs := fun d hd => h d (by simp [hd])
    rw [run_cons]
    have : step (.lit out acc) c = .lit out (acc ++ [c]) := by simp [step, hc.1, hc.2]
    rw [this, ih _ hcs]; simp

/-- `{{` yields the literal so far plus one `{`, without markup -/
theorem run_lit_lbrace (out : List Tup) (acc : List Char) :
    run (.lit out acc) ['{', '{'] = .lit (out ++ [⟨acc ++ ['{'], none⟩]) [] := by
  simp [run_cons, run_nil, step]

/-- `}}` yields the literal so far plus one `}`, without markup -/
theorem run_lit_rbrace (out : List Tup) (acc : List Char) :
    run (.lit out acc) ['}', '}'] = .lit (out ++ [⟨acc ++ ['}'], none⟩]) [] := by
  simp [run_cons, run_nil, step]

/-- `cs` is consumed entirely by the field-name loop of `parse_field`: no `{ } : !` outside of
    `[`…`]` and every `[` closed. -/
def isFieldName : Bool → List Char → Bool
  | inBr, [] => !inBr
  | false, c :: cs => c ≠ '{' && c ≠ '}' && c ≠ ':' && c ≠ '!' && isFieldName (c = '[') cs
  | true, c :: cs => isFieldName (c ≠ ']') cs

theorem run_name (out : List Tup) (lit acc cs : List Char) (inBr : Bool) (h : isFieldName inBr cs = true) :
    run (.name out lit acc inBr) cs = .name out lit (acc ++ cs) false := by
  induction cs generalizing acc inBr with
  | nil => cases inBr <;> simp_all [isFieldName, run_nil]
  | cons c cs ih =>
    rw [run_cons]
    cases inBr with
    | false =>
      simp only [isFieldName, Bool.and_eq_true, decide_eq_true_eq] at h
      obtain ⟨⟨⟨⟨h1, h2⟩, h3⟩, h4⟩, h5⟩ := h
      by_cases hb : c = '['
      · have : step (.name out lit acc false) c = .name out lit (acc ++ [c]) true := by
          subst hb; simp [step, stepName]
        rw [this, ih _ _ (by simpa [hb] using h5)]; simp
      · have : step (.name out lit acc false) c = .name out lit (acc ++ [c]) false := by
          simp [step, stepName, h1, h2, h3, h4, hb]
        rw [this, ih _ _ (by simpa [hb] using h5)]; simp
    | true =>
      simp only [isFieldName] at h
      by_cases hb : c = ']'
      · have : step (.name out lit acc true) c = .name out lit (acc ++ [c]) false := by simp [step, hb]
        rw [this, ih _ _ (by simpa [hb] using h)]; simp
      · have : step (.name out lit acc true) c = .name out lit (acc ++ [c]) true := by simp [step, hb]
        rw [this, ih _ _ (by simpa [hb] using h)]; simp

/-- brace-free text inside a format spec is accumulated -/
theorem run_spec_plain (out : List Tup) (lit nm : List Char) (cv : Option Char) (n : Nat) (acc cs : List Char)
    (h : NoBrace cs) : run (.spec out lit nm cv n acc) cs = .spec out lit nm cv n (acc ++ cs) := by
  induction cs generalizing acc with
  | nil => simp [run_nil]
  | cons c cs ih =>
    have hc := h c (by simp)
    have hcs : NoBrace cs := fun d hd => h d (by simp [hd])
    rw [run_cons]
    have : step (.spec out lit nm cv n acc) c = .spec out lit nm cv n (acc ++ [c]) := by simp [step, hc.1, hc.2]
    rw [this, ih _ hcs]; simp

/-- A format spec as `parse_field` reads it to its end: every `{` in it is closed by a `}` of its own
    (`d` = braces open so far). Nested replacement fields, to any depth, are of this form. -/
def specBalanced : Nat → List Char → Bool
  | d, [] => d == 0
  | d, c :: cs =>
    if c = '{' then specBalanced (d + 1) cs
    else if c = '}' then (match d with
      | 0 => false
      | d' + 1 => specBalanced d' cs)
    else specBalanced d cs

theorem specBalanced_of_noBrace (cs : List Char) (h : NoBrace cs) : specBalanced 0 cs = true := by
  induction cs with
  | nil => rfl
  | cons c cs ih =>
    have hc := h c (by simp)
    have hcs : NoBrace cs := fun d hd => h d (by simp [hd])
    simp [specBalanced, hc.1, hc.2, ih hcs]

/-- balanced text inside a format spec is accumulated, the brace counter back where it was -/
theorem run_spec_balanced (out : List Tup) (lit nm : List Char) (cv : Option Char) (d : Nat) (acc cs : List Char)
    (h : specBalanced d cs = true) :
    run (.spec out lit nm cv (d + 1) acc) cs = .spec out lit nm cv 1 (acc ++ cs) := by
  induction cs generalizing d acc with
  | nil =>
    have : d = 0 := by simpa [specBalanced] using h
    subst this; simp [run_nil]
  | cons c cs ih =>
    rw [run_cons]
    by_cases h1 : c = '{'
    · subst h1
      have h' : specBalanced (d + 1) cs = true := by simpa [specBalanced] using h
      have : step (.spec out lit nm cv (d + 1) acc) '{' = .spec out lit nm cv (d + 1 + 1) (acc ++ ['{']) := by
        simp [step]
      rw [this, ih _ _ h']; simp
    · by_cases h2 : c = '}'
      · subst h2
        cases d with
        | zero => simp [specBalanced] at h
        | succ d' =>
          have h' : specBalanced d' cs = true := by simpa [specBalanced] using h
          have : step (.spec out lit nm cv (d' + 1 + 1) acc) '}' = .spec out lit nm cv (d' + 1) (acc ++ ['}']) := by
            simp [step]
          rw [this, ih _ _ h']; simp
      · have h' : specBalanced d cs = true := by simpa [specBalanced, h1, h2] using h
        have : step (.spec out lit nm cv (d + 1) acc) c = .spec out lit nm cv (d + 1) (acc ++ [c]) := by
          simp [step, h1, h2]
        rw [this, ih _ _ h']; simp

/-- The canonical text of a replacement field: `{name}`, `{name:spec}`, `{name!c}`, `{name!c:spec}`. -/
def FieldT.tail (f : FieldT) : List Char :=
  (match f.conv with | none => [] | some c => ['!', c]) ++ ((if f.spec = [] then [] else ':' :: f.spec) ++ ['}'])

def FieldT.text (f : FieldT) : List Char := '{' :: (f.name ++ f.tail)

/-- A field the grammar can write: a proper field name, a spec whose braces balance (so: any spec
    without braces, and any spec with nested replacement fields, to any depth). -/
structure FieldT.WellFormed (f : FieldT) : Prop where
  name : isFieldName false f.name = true
  spec : specBalanced 0 f.spec = true

/-- from the `name` state, the rest of a well-formed field closes it -/
theorem run_field_tail (out : List Tup) (lit : List Char) (f : FieldT) (hs : specBalanced 0 f.spec = true) :
    run (.name out lit f.name false) f.tail = .lit (out ++ [⟨lit, some f⟩]) [] := by
  obtain ⟨name, spec, conv⟩ := f
  simp only [FieldT.tail] at hs ⊢
  cases conv with
  | none =>
    by_cases hsp : spec = []
    · subst hsp; simp [run_cons, run_nil, step, stepName]
    · simp only [hsp, if_false, List.nil_append, List.cons_append, run_cons]
      have : step (.name out lit name false) ':' = .spec out lit name none 1 [] := by simp [step, stepName]
      rw [this, run_append, run_spec_balanced _ _ _ _ _ _ _ hs]
      simp [run_cons, run_nil, step]
  | some c =>
    by_cases hsp : spec = []
    · subst hsp; simp [run_cons, run_nil, step, stepName]
    · simp only [hsp, if_false, List.cons_append, List.nil_append, run_cons]
      have h1 : step (.name out lit name false) '!' = .bang out lit name := by simp [step, stepName]
      have h2 : step (.bang out lit name) c = .conv out lit name c := by simp [step]
      have h3 : step (.conv out lit name c) ':' = .spec out lit name (some c) 1 [] := by simp [step]
      rw [h1, h2, h3, run_append, run_spec_balanced _ _ _ _ _ _ _ hs]
      simp [run_cons, run_nil, step]

/-- the first character of a field tail is `}` `:` or `!`, on which `.opened` acts as the name loop -/
theorem run_opened_tail (out : List Tup) (acc : List Char) (f : FieldT) :
    run (.opened out acc) f.tail = run (.name out acc [] false) f.tail := by
  obtain ⟨name, spec, conv⟩ := f
  simp only [FieldT.tail]
  cases conv with
  | none =>
    by_cases hsp : spec = []
    · subst hsp; simp [run_cons, step]
    · simp [hsp, run_cons, step]
  | some c => simp [run_cons, step]

/-- a well-formed field met in literal text yields one tuple: the literal so far and the field -/
theorem run_field (out : List Tup) (acc : List Char) (f : FieldT) (h : f.WellFormed) :
    run (.lit out acc) f.text = .lit (out ++ [⟨acc, some f⟩]) [] := by
  unfold FieldT.text
  rw [run_cons]
  have h0 : step (.lit out acc) '{' = .opened out acc := by simp [step]
  rw [h0]
  cases hn : f.name with
  | nil =>
    rw [List.nil_append, run_opened_tail]
    have := run_field_tail out acc f h.spec
    rw [hn] at this; exact this
  | cons c cs =>
    have hname := h.name
    rw [hn] at hname
    have hc1 : c ≠ '{' := by
      simp only [isFieldName, Bool.and_eq_true, decide_eq_true_eq] at hname
      exact hname.1.1.1.1
    rw [List.cons_append, run_cons]
    have e1 : step (.opened out acc) c = step (.name out acc [] false) c := by simp [step, hc1]
    rw [e1, ← run_cons, ← List.cons_append, run_append]
    have := run_name out acc [] (c :: cs) false hname
    rw [List.nil_append] at this
    rw [this]
    have t := run_field_tail out acc f h.spec
    rw [hn] at t; exact t

/-! ## the grammar of well-formed format strings -/

/-- A chunk of a well-formed format string. -/
inductive Chunk where
  | text (cs : List Char)      -- literal text without braces
  | lbrace                     -- `{{`
  | rbrace                     -- `}}`
  | expr (f : FieldT)          -- `{name!conv:spec}`
  deriving Repr, DecidableEq, Inhabited

def Chunk.render : Chunk → List Char
  | .text cs => cs
  | .lbrace => ['{', '{']
  | .rbrace => ['}', '}']
  | .expr f => f.text

def Chunk.WellFormed : Chunk → Prop
  | .text cs => NoBrace cs
  | .expr f => f.WellFormed
  | _ => True

/-- the text of a chunk list -/
def render : List Chunk → List Char
  | [] => []
  | c :: cs => c.render ++ render cs

/-- the tuples CPython's parser yields for a chunk list, given the tuples and pending literal so far -/
def tuplesFrom : List Chunk → List Tup → List Char → List Tup
  | [], out, acc => if acc = [] then out else out ++ [⟨acc, none⟩]
  | .text cs :: rest, out, acc => tuplesFrom rest out (acc ++ cs)
  | .lbrace :: rest, out, acc => tuplesFrom rest (out ++ [⟨acc ++ ['{'], none⟩]) []
  | .rbrace :: rest, out, acc => tuplesFrom rest (out ++ [⟨acc ++ ['}'], none⟩]) []
  | .expr f :: rest, out, acc => tuplesFrom rest (out ++ [⟨acc, some f⟩]) []

def tuplesOf (chunks : List Chunk) : List Tup := tuplesFrom chunks [] []

theorem run_render (chunks : List Chunk) (h : ∀ c ∈ chunks, c.WellFormed) (out : List Tup) (acc : List Char) :
    finish (run (.lit out acc) (render chunks)) = (tuplesFrom chunks out acc, none) := by
  induction chunks generalizing out acc with
  | nil => simp [render, run_nil, finish, tuplesFrom]
  | cons c rest ih =>
    have hc := h c (by simp)
    have hrest : ∀ d ∈ rest, d.WellFormed := fun d hd => h d (by simp [hd])
    simp only [render, run_append]
    cases c with
    | text cs =>
      simp only [Chunk.render, tuplesFrom]
      rw [run_lit_plain _ _ _ hc]; exact ih hrest _ _
    | lbrace =>
      simp only [Chunk.render, tuplesFrom]
      rw [run_lit_lbrace]; exact ih hrest _ _
    | rbrace =>
      simp only [Chunk.render, tuplesFrom]
      rw [run_lit_rbrace]; exact ih hrest _ _
    | expr f =>
      simp only [Chunk.render, tuplesFrom]
      rw [run_field _ _ _ hc]; exact ih hrest _ _

/-- **Every well-formed format string parses, without error, to the tuples its chunks describe.** -/
theorem parse_render (chunks : List Chunk) (h : ∀ c ∈ chunks, c.WellFormed) :
    parseTuples (render chunks) = (tuplesOf chunks, none) :=
  run_render chunks h [] []

end Pypyr.Format
