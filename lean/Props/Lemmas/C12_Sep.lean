/-
  C12 helper lemmas, part 2: the separation invariant `Sep` and the footprint of one operation.

  `Sep h`: every object only references objects of its own region, and the shared regions hold plain
  data (no opaque objects: what the yaml / toml loaders produce).  Under `Sep` every operation of
  the language of the code as it is now (`Op.fixed`) has a LOCAL effect: it allocates objects that
  reference run r's region only and writes (at most) one object of run r's region (`effect_local`).
  Consequences: `Sep` is preserved, and the arenas of all other regions are untouched.

  States: an operation that has no effect raises and ends its run (`State.dead`); the heap is then
  unchanged, so every statement about heaps carries over.
-/
import Props.Lemmas.C12_Basic

namespace Pypyr.C12
open Pypyr.RunHeap

/-- Separation: every object references objects of its own region only. For `g = run r`: the
    objects of run r reference run r's objects only (no definition, config or other run's object
    is reachable from run r's context); for a shared `g`: definitions / config are closed, and they
    are plain data: no opaque objects (which formatting would hand to a run by reference). -/
structure Sep (h : Heap) : Prop where
  closed : ∀ g, ∀ c ∈ h.arena g, CellIn g c
  plain : ∀ g, g.isShared = true → ∀ c ∈ h.arena g, c.isObj = false

theorem get?_mem {h : Heap} {x : Ref} {c : Cell} (hx : h.get? x = some c) : c ∈ h.arena x.reg :=
  List.mem_of_getElem? hx

theorem Sep.get {h : Heap} (hS : Sep h) {x : Ref} {c : Cell} (hx : h.get? x = some c) :
    CellIn x.reg c := hS.closed _ _ (get?_mem hx)

/-- Following a path never leaves the region it started in (only closedness is used). -/
theorem resolve_reg_closed {h : Heap} (hC : ∀ g, ∀ c ∈ h.arena g, CellIn g c) {p : Path} {a x : Ref}
    (hr : resolve h a p = some x) : x.reg = a.reg := by
  induction p generalizing a with
  | nil => simp only [resolve, Option.some.injEq] at hr; rw [hr]
  | cons s rest ih =>
    simp only [resolve] at hr
    cases hc : h.get? a with
    | none => simp [hc] at hr
    | some c =>
      cases hb : c.follow s with
      | none => simp [hc, hb] at hr
      | some b =>
        simp only [hc, hb] at hr
        rw [ih hr]
        exact hC _ _ (get?_mem hc) b (follow_mem hb)

theorem resolve_reg {h : Heap} (hS : Sep h) {p : Path} {a x : Ref} (hr : resolve h a p = some x) :
    x.reg = a.reg := resolve_reg_closed hS.closed hr

/-- A schedule in the operation language of the code as it is now. -/
def SchedFixed (s : Sched) : Prop := ∀ e ∈ s, e.2.fixed = true

instance (s : Sched) : Decidable (SchedFixed s) :=
  inferInstanceAs (Decidable (∀ e ∈ s, e.2.fixed = true))

theorem SchedFixed.tail {e : Nat × Op} {s : Sched} (h : SchedFixed (e :: s)) : SchedFixed s :=
  fun x hx => h x (List.mem_cons_of_mem _ hx)

theorem SchedFixed.head {e : Nat × Op} {s : Sched} (h : SchedFixed (e :: s)) : e.2.fixed = true :=
  h e List.mem_cons_self

theorem SchedFixed.append {s1 s2 : Sched} (h1 : SchedFixed s1) (h2 : SchedFixed s2) : SchedFixed (s1 ++ s2) := by
  intro e he
  rcases List.mem_append.1 he with h | h
  · exact h1 e h
  · exact h2 e h

theorem schedFixed_solo {r : Nat} {ops : List Op} (h : ∀ o ∈ ops, o.fixed = true) : SchedFixed (solo r ops) := by
  intro e he
  obtain ⟨o, ho, rfl⟩ := List.mem_map.1 he
  exact h o ho

/-! ### the footprint of an effect -/

/-- The effect allocates objects referencing run r only, and writes only to run r's region an
    object referencing run r only. -/
structure Local (r : Nat) (e : Effect) : Prop where
  allocs : ∀ c ∈ e.allocs, CellIn (.run r) c
  write : ∀ x c, e.write = some (x, c) → x.reg = .run r ∧ CellIn (.run r) c

theorem shiftRef_reg {src dst : Region} {base : Nat} {x : Ref} (h : x.reg = src) :
    shiftRef src dst base x = ⟨dst, base + x.idx⟩ := by simp [shiftRef, h]

theorem shift_in {src dst : Region} {base : Nat} {c : Cell} (hc : CellIn src c) :
    CellIn dst (Cell.shift src dst base c) :=
  cellIn_mapRefs fun x hx => by rw [shiftRef_reg (hc x hx)]

theorem copyArena_in {h : Heap} (hC : ∀ c ∈ h.arena src, CellIn src c) (dst : Region) (base : Nat) :
    ∀ c ∈ copyArena h src dst base, CellIn dst c := by
  intro c hc
  simp only [copyArena, List.mem_map] at hc
  obtain ⟨c0, hc0, rfl⟩ := hc
  exact shift_in (hC c0 hc0)

theorem root_reg (r : Nat) : (root r).reg = .run r := rfl

/-- A formatter that rebuilds every object (`keep = []`) makes a deep copy. -/
theorem shiftKeep_nil (src dst : Region) (base : Nat) (x : Ref) :
    shiftKeep [] src dst base x = shiftRef src dst base x := by
  simp [shiftKeep]

theorem cell_shiftKeep_nil (src dst : Region) (base : Nat) (c : Cell) :
    Cell.shiftKeep [] src dst base c = Cell.shift src dst base c := by
  have : RunHeap.shiftKeep [] src dst base = shiftRef src dst base := funext (shiftKeep_nil src dst base)
  simp only [Cell.shiftKeep, Cell.shift, this]

theorem fmtArena_nil (h : Heap) (src dst : Region) (base : Nat) :
    fmtArena h [] src dst base = copyArena h src dst base := by
  simp [fmtArena, copyArena, cell_shiftKeep_nil]

theorem keep_nil {keep : List Nat} (h : keep.isEmpty = true) : keep = [] := List.isEmpty_iff.1 h

/-- An arena without opaque objects: the formatter as it is hands nothing back by reference. -/
theorem objIdxFrom_nil {a : Arena} (ha : ∀ c ∈ a, c.isObj = false) (i : Nat) : objIdxFrom i a = [] := by
  induction a generalizing i with
  | nil => rfl
  | cons c rest ih =>
    simp only [objIdxFrom, ha c List.mem_cons_self, Bool.false_eq_true, if_false]
    exact ih (fun c' hc' => ha c' (List.mem_cons_of_mem _ hc')) _

theorem objIdx_shared {h : Heap} (hS : Sep h) {g : Region} (hg : g.isShared = true) : objIdx h g = [] :=
  objIdxFrom_nil (hS.plain g hg) 0

theorem updateCopy_local {h : Heap} (hS : Sep h) {r : Nat} {src : Ref} {e : Effect}
    (he : updateCopy h r src = some e) : Local r e := by
  unfold updateCopy at he
  split at he
  · split at he
    · rename_i kvs skvs hroot hsrc
      simp only [Option.some.injEq] at he
      subst he
      refine ⟨copyArena_in (hS.closed _) _ _, ?_⟩
      intro x c hw
      simp only [Option.some.injEq, Prod.mk.injEq] at hw
      obtain ⟨rfl, rfl⟩ := hw
      refine ⟨rfl, cellIn_dict.2 (kvUpdate_all (P := fun x => x.reg = .run r) (cellIn_dict.1 (hS.get hroot)) ?_)⟩
      intro kv hkv
      obtain ⟨kv0, hkv0, rfl⟩ := List.mem_map.1 hkv
      show (shiftRef _ _ _ kv0.2).reg = _
      rw [shiftRef_reg (cellIn_dict.1 (hS.get hsrc) kv0 hkv0)]
    · cases he
  · cases he

theorem extendEffect_local {h : Heap} (hS : Sep h) {r : Nat} {p : Path} {vs : List Block} {e : Effect}
    (he : extendEffect h r p vs = some e) : Local r e := by
  unfold extendEffect at he
  split at he
  · cases he
  · rename_i x hx
    split at he
    · rename_i rs hc
      simp only [Option.some.injEq] at he
      subst he
      have hxr : x.reg = .run r := resolve_reg hS hx
      refine ⟨(relocAll_in _ _ _).1, ?_⟩
      intro y c hw
      simp only [Option.some.injEq, Prod.mk.injEq] at hw
      obtain ⟨rfl, rfl⟩ := hw
      refine ⟨hxr, cellIn_list.2 ?_⟩
      intro z hz
      rcases List.mem_append.1 hz with hz | hz
      · rw [← hxr]; exact hS.get hc z hz
      · exact (relocAll_in _ _ _).2 z hz
    · cases he

theorem dictSetEffect_local {h : Heap} (hS : Sep h) {r : Nat} {p : Path} {k : String} {v : Block}
    {e : Effect} (he : dictSetEffect h r p k v = some e) : Local r e := by
  unfold dictSetEffect at he
  split at he
  · cases he
  · split at he
    · cases he
    · rename_i x hx
      split at he
      · rename_i kvs hc
        simp only [Option.some.injEq] at he
        subst he
        have hxr : x.reg = .run r := resolve_reg hS hx
        refine ⟨relocate_in _ _ _, ?_⟩
        intro y c hw
        simp only [Option.some.injEq, Prod.mk.injEq] at hw
        obtain ⟨rfl, rfl⟩ := hw
        refine ⟨hxr, cellIn_dict.2 (kvSet_all (P := fun x => x.reg = .run r) ?_ rfl)⟩
        rw [← hxr]; exact cellIn_dict.1 (hS.get hc)
      · cases he

/-- Binding a formatted copy of an object of a closed region without opaque objects, all containers
    rebuilt: a deep copy into the run. -/
theorem fmtBind_local {h : Heap} (hS : Sep h) {r : Nat} {p : Path} {k : String} {g : Region} {y : Ref}
    (hno : objIdx h g = []) (hy : y.reg = g) {e : Effect} (he : fmtBind h r p k g y [] = some e) :
    Local r e := by
  unfold fmtBind at he
  simp only [hno, List.append_nil, fmtArena_nil, shiftKeep_nil] at he
  split at he
  · cases he
  · rename_i x hx
    split at he
    · rename_i kvs hc
      simp only [Option.some.injEq] at he
      subst he
      have hxr : x.reg = .run r := resolve_reg hS hx
      refine ⟨copyArena_in (hS.closed _) _ _, ?_⟩
      intro z c hw
      simp only [Option.some.injEq, Prod.mk.injEq] at hw
      obtain ⟨rfl, rfl⟩ := hw
      refine ⟨hxr, cellIn_dict.2 (kvSet_all (P := fun x => x.reg = .run r) ?_ ?_)⟩
      · rw [← hxr]; exact cellIn_dict.1 (hS.get hc)
      · rw [shiftRef_reg hy]
    · cases he

/-- Under `Sep`, every operation of the repaired code has a local effect. -/
theorem effect_local {h : Heap} (hS : Sep h) {r : Nat} {op : Op} (hf : op.fixed = true) {e : Effect}
    (he : effect h r op = some e) : Local r e := by
  cases op with
  | start b =>
    simp only [effect] at he
    split at he
    · split at he
      · simp only [Option.some.injEq] at he
        subst he
        exact ⟨relocate_in _ _ _, (fun x c hw => nomatch hw)⟩
      · cases he
    · cases he
  | inCopy key src =>
    simp only [effect] at he
    split at he
    · split at he
      · rename_i kvs hroot
        simp only [Option.some.injEq] at he
        subst he
        refine ⟨copyArena_in (hS.closed _) _ _, ?_⟩
        intro x c hw
        simp only [Option.some.injEq, Prod.mk.injEq] at hw
        obtain ⟨rfl, rfl⟩ := hw
        exact ⟨rfl, cellIn_dict.2 (kvSet_all (P := fun x => x.reg = .run r) (cellIn_dict.1 (hS.get hroot)) rfl)⟩
      · cases he
    · cases he
  | inAlias key src => cases hf
  | configvarsCopy => exact updateCopy_local hS (by simpa only [effect] using he)
  | configvarsAlias => cases hf
  | shortcutArgsCopy src => exact updateCopy_local hS (by simpa only [effect] using he)
  | unsetIn key =>
    simp only [effect] at he
    split at he
    · rename_i kvs hroot
      simp only [Option.some.injEq] at he
      subst he
      refine ⟨(fun c hc => nomatch hc), ?_⟩
      intro x c hw
      simp only [Option.some.injEq, Prod.mk.injEq] at hw
      obtain ⟨rfl, rfl⟩ := hw
      exact ⟨rfl, cellIn_dict.2 (kvErase_all (P := fun x => x.reg = .run r) (cellIn_dict.1 (hS.get hroot)))⟩
    · cases he
  | setKey key v => exact dictSetEffect_local hS (by simpa only [effect] using he)
  | dictSetAt p k v => exact dictSetEffect_local hS (by simpa only [effect] using he)
  | appendAt p v => exact extendEffect_local hS (by simpa only [effect] using he)
  | extendAt p vs => exact extendEffect_local hS (by simpa only [effect] using he)
  | addAt p v =>
    simp only [effect] at he
    split at he
    · cases he
    · rename_i x hx
      split at he
      · rename_i rs hc
        have hxr : x.reg = .run r := resolve_reg hS hx
        split at he
        · simp only [Option.some.injEq] at he
          subst he
          exact ⟨(fun c hc => nomatch hc), (fun x c hw => nomatch hw)⟩
        · simp only [Option.some.injEq] at he
          subst he
          refine ⟨(relocAll_in _ _ _).1, ?_⟩
          intro y c hw
          simp only [Option.some.injEq, Prod.mk.injEq] at hw
          obtain ⟨rfl, rfl⟩ := hw
          refine ⟨hxr, cellIn_set.2 ?_⟩
          intro z hz
          rcases List.mem_append.1 hz with hz | hz
          · rw [← hxr]; exact hS.get hc z hz
          · exact (relocAll_in _ _ _).2 z hz
      · cases he
  | attrSetAt p k v =>
    simp only [effect] at he
    split at he
    · cases he
    · split at he
      · cases he
      · rename_i x hx
        split at he
        · rename_i cls attrs hc
          simp only [Option.some.injEq] at he
          subst he
          have hxr : x.reg = .run r := resolve_reg hS hx
          refine ⟨relocate_in _ _ _, ?_⟩
          intro y c hw
          simp only [Option.some.injEq, Prod.mk.injEq] at hw
          obtain ⟨rfl, rfl⟩ := hw
          refine ⟨hxr, cellIn_obj.2 (kvSet_all (P := fun x => x.reg = .run r) ?_ rfl)⟩
          rw [← hxr]; exact cellIn_obj.1 (hS.get hc)
        · cases he
  | copyKey src dst =>
    simp only [effect] at he
    split at he
    · rename_i kvs hroot
      split at he
      · rename_i y hy
        simp only [Option.some.injEq] at he
        subst he
        refine ⟨(fun c hc => nomatch hc), ?_⟩
        intro x c hw
        simp only [Option.some.injEq, Prod.mk.injEq] at hw
        obtain ⟨rfl, rfl⟩ := hw
        have hk := cellIn_dict.1 (hS.get hroot)
        obtain ⟨kv, hkv, rfl⟩ := kvGet?_mem hy
        exact ⟨rfl, cellIn_dict.2 (kvSet_all (P := fun x => x.reg = .run r) hk (hk kv hkv))⟩
      · cases he
    · cases he
  | fmtSetAt p k src keep =>
    have hk : keep = [] := keep_nil (by simpa only [Op.fixed] using hf)
    subst hk
    simp only [effect] at he
    split at he
    · rename_i hg
      exact fmtBind_local hS (objIdx_shared hS hg) rfl he
    · cases he
  | fmtFrom src sp p k byRef => cases hf
  | fail => cases he

/-! ### applying a local effect -/

theorem apply_arena_other {h : Heap} {r : Nat} {e : Effect} (hL : Local r e) {g : Region}
    (hg : g ≠ .run r) : (apply h r e).arena g = h.arena g := by
  unfold apply
  cases hw : e.write with
  | none => simp [Heap.alloc, hg]
  | some xc =>
    obtain ⟨x, c⟩ := xc
    have hx := (hL.write x c hw).1
    simp [Heap.alloc, Heap.set, hx, hg]

/-- Run r's arena after an effect: the allocations appended, then the one write. -/
def ownAfter (a : Arena) (e : Effect) : Arena :=
  match e.write with
  | none => a ++ e.allocs
  | some (x, c) => (a ++ e.allocs).set x.idx c

theorem apply_arena_own {h : Heap} {r : Nat} {e : Effect} (hL : Local r e) :
    (apply h r e).arena (.run r) = ownAfter (h.arena (.run r)) e := by
  unfold apply ownAfter
  cases hw : e.write with
  | none => simp [Heap.alloc]
  | some xc =>
    obtain ⟨x, c⟩ := xc
    have hx := (hL.write x c hw).1
    simp [Heap.alloc, Heap.set, hx]

theorem shared_ne_run {g : Region} (hg : g.isShared = true) (r : Nat) : g ≠ .run r := by
  intro e; rw [e] at hg; simp [Region.isShared] at hg

theorem apply_sep {h : Heap} (hS : Sep h) {r : Nat} {e : Effect} (hL : Local r e) :
    Sep (apply h r e) := by
  refine ⟨?_, ?_⟩
  · intro g c hc
    by_cases hg : g = .run r
    · subst hg
      rw [apply_arena_own hL] at hc
      unfold ownAfter at hc
      have happ : ∀ c ∈ h.arena (.run r) ++ e.allocs, CellIn (.run r) c := by
        intro c hc
        rcases List.mem_append.1 hc with h1 | h1
        · exact hS.closed _ c h1
        · exact hL.allocs c h1
      cases hw : e.write with
      | none => rw [hw] at hc; exact happ c hc
      | some xc =>
        obtain ⟨x, c'⟩ := xc
        rw [hw] at hc
        rcases List.mem_or_eq_of_mem_set hc with h1 | h1
        · exact happ c h1
        · rw [h1]; exact (hL.write x c' hw).2
    · rw [apply_arena_other hL hg] at hc
      exact hS.closed g c hc
  · intro g hg c hc
    rw [apply_arena_other hL (shared_ne_run hg r)] at hc
    exact hS.plain g hg c hc

/-! ### one operation, a whole schedule -/

/-- What one operation does to a state: nothing to the heap (the run is over, or the operation
    raises), or it applies its effect. -/
theorem step_cases (st : State) (r : Nat) (op : Op) :
    (step st r op).heap = st.heap ∨
      ∃ e, effect st.heap r op = some e ∧ step st r op = ⟨apply st.heap r e, st.dead⟩ := by
  unfold step
  split
  · exact Or.inl rfl
  · cases he : effect st.heap r op with
    | none => exact Or.inl rfl
    | some e => exact Or.inr ⟨e, rfl, rfl⟩

theorem step_sep {st : State} (hS : Sep st.heap) (r : Nat) {op : Op} (hf : op.fixed = true) :
    Sep (step st r op).heap := by
  rcases step_cases st r op with h | ⟨e, he, h⟩
  · rw [h]; exact hS
  · rw [h]; exact apply_sep hS (effect_local hS hf he)

/-- An operation of run r leaves every other region's arena exactly as it was. -/
theorem step_arena_other {st : State} (hS : Sep st.heap) (r : Nat) {op : Op} (hf : op.fixed = true)
    {g : Region} (hg : g ≠ .run r) : (step st r op).heap.arena g = st.heap.arena g := by
  rcases step_cases st r op with h | ⟨e, he, h⟩
  · rw [h]
  · rw [h]; exact apply_arena_other (effect_local hS hf he) hg

/-- …and whether any OTHER run is over. -/
theorem step_dead_other (st : State) {r r' : Nat} (op : Op) (hr : r' ≠ r) :
    (step st r op).dead r' = st.dead r' := by
  unfold step
  split
  · rfl
  · cases effect st.heap r op with
    | none => simp [kill, hr]
    | some e => rfl

theorem exec_sep {s : Sched} (hs : SchedFixed s) {st : State} (hS : Sep st.heap) : Sep (exec s st).heap := by
  induction s generalizing st with
  | nil => exact hS
  | cons e rest ih => exact ih hs.tail (step_sep hS e.1 hs.head)

theorem exec_arena_shared {s : Sched} (hs : SchedFixed s) {st : State} (hS : Sep st.heap) {g : Region}
    (hg : g.isShared = true) : (exec s st).heap.arena g = st.heap.arena g := by
  induction s generalizing st with
  | nil => rfl
  | cons e rest ih =>
    simp only [exec]
    rw [ih hs.tail (step_sep hS e.1 hs.head), step_arena_other hS e.1 hs.head (shared_ne_run hg e.1)]

theorem exec_append (s1 s2 : Sched) (st : State) : exec (s1 ++ s2) st = exec s2 (exec s1 st) := by
  induction s1 generalizing st with
  | nil => rfl
  | cons e rest ih => exact ih _

/-! ### the initial heap -/

theorem isObj_relocate {b : Block} (hb : ∀ c ∈ b, c.isObj = false) (g : Region) (base : Nat) :
    ∀ c ∈ Block.relocate b g base, c.isObj = false := by
  intro c hc
  simp only [Block.relocate, List.mem_map] at hc
  obtain ⟨bc, hbc, rfl⟩ := hc
  rw [isObj_toCell]; exact hb bc hbc

/-- Plain data: a block without opaque objects (what a yaml / toml / json loader produces). -/
def PlainBlock (b : Block) : Prop := ∀ c ∈ b, c.isObj = false

instance (b : Block) : Decidable (PlainBlock b) := inferInstanceAs (Decidable (∀ c ∈ b, c.isObj = false))

theorem init_sep (defs : List Block) (cfg : Block) (hd : ∀ b ∈ defs, PlainBlock b) (hc : PlainBlock cfg) :
    Sep (Heap.init defs cfg) := by
  refine ⟨?_, ?_⟩
  · intro g c hc
    cases g with
    | defn p =>
      simp only [Heap.init] at hc
      split at hc
      · exact relocate_in _ _ _ c hc
      · cases hc
    | config => exact relocate_in _ _ _ c hc
    | run r => cases hc
  · intro g _ c hcm
    cases g with
    | defn p =>
      simp only [Heap.init] at hcm
      split at hcm
      · rename_i b hb
        exact isObj_relocate (hd b (List.mem_of_getElem? hb)) _ _ c hcm
      · cases hcm
    | config => exact isObj_relocate hc _ _ c hcm
    | run r => cases hcm

end Pypyr.C12
