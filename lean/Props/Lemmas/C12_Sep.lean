/-
  C12 helper lemmas, part 2: the separation invariant `Sep` and the footprint of one operation.

  `Sep h`: every object only references objects of its own region.  Under `Sep` every operation of
  the language of the code as it is now (`Op.fixed`) has a LOCAL effect: it allocates objects that
  reference run r's region only and writes (at most) one object of run r's region (`effect_local`).
  Consequences: `Sep` is preserved, and the arenas of all other regions are untouched.
-/
import Props.Lemmas.C12_Basic

namespace Pypyr.C12
open Pypyr.RunHeap

/-- Separation: every object references objects of its own region only. For `g = run r`: the
    objects of run r reference run r's objects only (no definition, config or other run's object
    is reachable from run r's context); for a shared `g`: definitions / config are closed. -/
def Sep (h : Heap) : Prop := ∀ g, ∀ c ∈ h.arena g, CellIn g c

theorem get?_mem {h : Heap} {x : Ref} {c : Cell} (hx : h.get? x = some c) : c ∈ h.arena x.reg :=
  List.mem_of_getElem? hx

theorem Sep.get {h : Heap} (hS : Sep h) {x : Ref} {c : Cell} (hx : h.get? x = some c) :
    CellIn x.reg c := hS _ _ (get?_mem hx)

/-- Following a path never leaves the region it started in. -/
theorem resolve_reg {h : Heap} (hS : Sep h) {p : Path} {a x : Ref} (hr : resolve h a p = some x) :
    x.reg = a.reg := by
  induction p generalizing a with
  | nil => simp only [resolve, Option.some.injEq] at hr; rw [hr]
  | cons s rest ih =>
    simp only [resolve] at hr
    cases hc : h.get? a with
    | none => simp [hc] at hr
    | some c =>
      cases hb : c.follow s with
      | none => simp [hc, hb] at hr
      | some b =>
        simp only [hc, hb] at hr
        rw [ih hr]
        exact hS.get hc b (follow_mem hb)

/-- A schedule in the operation language of the code as it is now. -/
def SchedFixed (s : Sched) : Prop := ∀ e ∈ s, e.2.fixed = true

instance (s : Sched) : Decidable (SchedFixed s) :=
  inferInstanceAs (Decidable (∀ e ∈ s, e.2.fixed = true))

theorem SchedFixed.tail {e : Nat × Op} {s : Sched} (h : SchedFixed (e :: s)) : SchedFixed s :=
  fun x hx => h x (List.mem_cons_of_mem _ hx)

theorem SchedFixed.head {e : Nat × Op} {s : Sched} (h : SchedFixed (e :: s)) : e.2.fixed = true :=
  h e List.mem_cons_self

/-! ### the footprint of an effect -/

/-- The effect allocates objects referencing run r only, and writes only to run r's region an
    object referencing run r only. -/
structure Local (r : Nat) (e : Effect) : Prop where
  allocs : ∀ c ∈ e.allocs, CellIn (.run r) c
  write : ∀ x c, e.write = some (x, c) → x.reg = .run r ∧ CellIn (.run r) c

theorem shiftRef_reg {src dst : Region} {base : Nat} {x : Ref} (h : x.reg = src) :
    shiftRef src dst base x = ⟨dst, base + x.idx⟩ := by simp [shiftRef, h]

theorem shift_in {src dst : Region} {base : Nat} {c : Cell} (hc : CellIn src c) :
    CellIn dst (Cell.shift src dst base c) := by
  cases c with
  | leaf v => exact cellIn_leaf _ _
  | list rs =>
    intro x hx
    simp only [Cell.shift, Cell.refs, List.mem_map] at hx
    obtain ⟨y, hy, rfl⟩ := hx
    rw [shiftRef_reg (hc y hy)]
  | dict kvs =>
    intro x hx
    simp only [Cell.shift, Cell.refs, List.mem_map] at hx
    obtain ⟨kv', ⟨kv, hkv, rfl⟩, rfl⟩ := hx
    rw [shiftRef_reg (hc kv.2 (List.mem_map.2 ⟨kv, hkv, rfl⟩))]

theorem copyArena_in {h : Heap} (hS : Sep h) (src dst : Region) (base : Nat) :
    ∀ c ∈ copyArena h src dst base, CellIn dst c := by
  intro c hc
  simp only [copyArena, List.mem_map] at hc
  obtain ⟨c0, hc0, rfl⟩ := hc
  exact shift_in (hS src c0 hc0)

theorem root_reg (r : Nat) : (root r).reg = .run r := rfl

/-- A formatter that rebuilds every container (`keep = []`, the code as it is) makes a deep copy. -/
theorem shiftKeep_nil (src dst : Region) (base : Nat) (x : Ref) :
    shiftKeep [] src dst base x = shiftRef src dst base x := by
  simp [shiftKeep]

theorem cell_shiftKeep_nil (src dst : Region) (base : Nat) (c : Cell) :
    Cell.shiftKeep [] src dst base c = Cell.shift src dst base c := by
  cases c with
  | leaf v => rfl
  | list rs => simp [Cell.shiftKeep, Cell.shift, shiftKeep_nil]
  | dict kvs => simp [Cell.shiftKeep, Cell.shift, shiftKeep_nil]

theorem fmtArena_nil (h : Heap) (src dst : Region) (base : Nat) :
    fmtArena h [] src dst base = copyArena h src dst base := by
  simp [fmtArena, copyArena, cell_shiftKeep_nil]

theorem keep_nil {keep : List Nat} (h : keep.isEmpty = true) : keep = [] := List.isEmpty_iff.1 h

theorem updateCopy_local {h : Heap} (hS : Sep h) {r : Nat} {src : Ref} {e : Effect}
    (he : updateCopy h r src = some e) : Local r e := by
  unfold updateCopy at he
  split at he
  · split at he
    · rename_i kvs skvs hroot hsrc
      simp only [Option.some.injEq] at he
      subst he
      refine ⟨copyArena_in hS _ _ _, ?_⟩
      intro x c hw
      simp only [Option.some.injEq, Prod.mk.injEq] at hw
      obtain ⟨rfl, rfl⟩ := hw
      refine ⟨rfl, cellIn_dict.2 (kvUpdate_all (P := fun x => x.reg = .run r) (cellIn_dict.1 (hS.get hroot)) ?_)⟩
      intro kv hkv
      obtain ⟨kv0, hkv0, rfl⟩ := List.mem_map.1 hkv
      show (shiftRef _ _ _ kv0.2).reg = _
      rw [shiftRef_reg (cellIn_dict.1 (hS.get hsrc) kv0 hkv0)]
    · cases he
  · cases he

theorem extendEffect_local {h : Heap} (hS : Sep h) {r : Nat} {p : Path} {vs : List Block} {e : Effect}
    (he : extendEffect h r p vs = some e) : Local r e := by
  unfold extendEffect at he
  split at he
  · cases he
  · rename_i x hx
    split at he
    · rename_i rs hc
      simp only [Option.some.injEq] at he
      subst he
      have hxr : x.reg = .run r := resolve_reg hS hx
      refine ⟨(relocAll_in _ _ _).1, ?_⟩
      intro y c hw
      simp only [Option.some.injEq, Prod.mk.injEq] at hw
      obtain ⟨rfl, rfl⟩ := hw
      refine ⟨hxr, cellIn_list.2 ?_⟩
      intro z hz
      rcases List.mem_append.1 hz with hz | hz
      · rw [← hxr]; exact hS.get hc z hz
      · exact (relocAll_in _ _ _).2 z hz
    · cases he

theorem dictSetEffect_local {h : Heap} (hS : Sep h) {r : Nat} {p : Path} {k : String} {v : Block}
    {e : Effect} (he : dictSetEffect h r p k v = some e) : Local r e := by
  unfold dictSetEffect at he
  split at he
  · cases he
  · split at he
    · cases he
    · rename_i x hx
      split at he
      · rename_i kvs hc
        simp only [Option.some.injEq] at he
        subst he
        have hxr : x.reg = .run r := resolve_reg hS hx
        refine ⟨relocate_in _ _ _, ?_⟩
        intro y c hw
        simp only [Option.some.injEq, Prod.mk.injEq] at hw
        obtain ⟨rfl, rfl⟩ := hw
        refine ⟨hxr, cellIn_dict.2 (kvSet_all (P := fun x => x.reg = .run r) ?_ rfl)⟩
        rw [← hxr]; exact cellIn_dict.1 (hS.get hc)
      · cases he

/-- Under `Sep`, every operation of the repaired code has a local effect. -/
theorem effect_local {h : Heap} (hS : Sep h) {r : Nat} {op : Op} (hf : op.fixed = true) {e : Effect}
    (he : effect h r op = some e) : Local r e := by
  cases op with
  | start b =>
    simp only [effect] at he
    split at he
    · split at he
      · simp only [Option.some.injEq] at he
        subst he
        exact ⟨relocate_in _ _ _, (fun x c hw => nomatch hw)⟩
      · cases he
    · cases he
  | inCopy key src =>
    simp only [effect] at he
    split at he
    · split at he
      · rename_i kvs hroot
        simp only [Option.some.injEq] at he
        subst he
        refine ⟨copyArena_in hS _ _ _, ?_⟩
        intro x c hw
        simp only [Option.some.injEq, Prod.mk.injEq] at hw
        obtain ⟨rfl, rfl⟩ := hw
        exact ⟨rfl, cellIn_dict.2 (kvSet_all (P := fun x => x.reg = .run r) (cellIn_dict.1 (hS.get hroot)) rfl)⟩
      · cases he
    · cases he
  | inAlias key src => cases hf
  | configvarsCopy => exact updateCopy_local hS (by simpa only [effect] using he)
  | configvarsAlias => cases hf
  | shortcutArgsCopy src => exact updateCopy_local hS (by simpa only [effect] using he)
  | unsetIn key =>
    simp only [effect] at he
    split at he
    · rename_i kvs hroot
      simp only [Option.some.injEq] at he
      subst he
      refine ⟨(fun c hc => nomatch hc), ?_⟩
      intro x c hw
      simp only [Option.some.injEq, Prod.mk.injEq] at hw
      obtain ⟨rfl, rfl⟩ := hw
      exact ⟨rfl, cellIn_dict.2 (kvErase_all (P := fun x => x.reg = .run r) (cellIn_dict.1 (hS.get hroot)))⟩
    · cases he
  | setKey key v => exact dictSetEffect_local hS (by simpa only [effect] using he)
  | dictSetAt p k v => exact dictSetEffect_local hS (by simpa only [effect] using he)
  | appendAt p v => exact extendEffect_local hS (by simpa only [effect] using he)
  | extendAt p vs => exact extendEffect_local hS (by simpa only [effect] using he)
  | addAt p v =>
    simp only [effect] at he
    split at he
    · cases he
    · split at he
      · split at he
        · simp only [Option.some.injEq] at he
          subst he
          exact ⟨(fun c hc => nomatch hc), (fun x c hw => nomatch hw)⟩
        · exact extendEffect_local hS he
      · cases he
  | copyKey src dst =>
    simp only [effect] at he
    split at he
    · rename_i kvs hroot
      split at he
      · rename_i y hy
        simp only [Option.some.injEq] at he
        subst he
        refine ⟨(fun c hc => nomatch hc), ?_⟩
        intro x c hw
        simp only [Option.some.injEq, Prod.mk.injEq] at hw
        obtain ⟨rfl, rfl⟩ := hw
        have hk := cellIn_dict.1 (hS.get hroot)
        obtain ⟨kv, hkv, rfl⟩ := kvGet?_mem hy
        exact ⟨rfl, cellIn_dict.2 (kvSet_all (P := fun x => x.reg = .run r) hk (hk kv hkv))⟩
      · cases he
    · cases he
  | fmtSetAt p k src keep =>
    have hk : keep = [] := keep_nil (by simpa only [Op.fixed] using hf)
    subst hk
    simp only [effect, fmtArena_nil, shiftKeep_nil] at he
    split at he
    · split at he
      · cases he
      · rename_i x hx
        split at he
        · rename_i kvs hc
          simp only [Option.some.injEq] at he
          subst he
          have hxr : x.reg = .run r := resolve_reg hS hx
          refine ⟨copyArena_in hS _ _ _, ?_⟩
          intro y c hw
          simp only [Option.some.injEq, Prod.mk.injEq] at hw
          obtain ⟨rfl, rfl⟩ := hw
          refine ⟨hxr, cellIn_dict.2 (kvSet_all (P := fun x => x.reg = .run r) ?_ ?_)⟩
          · rw [← hxr]; exact cellIn_dict.1 (hS.get hc)
          · rw [shiftRef_reg rfl]
        · cases he
    · cases he

/-! ### applying a local effect -/

theorem apply_arena_other {h : Heap} {r : Nat} {e : Effect} (hL : Local r e) {g : Region}
    (hg : g ≠ .run r) : (apply h r e).arena g = h.arena g := by
  unfold apply
  cases hw : e.write with
  | none => simp [Heap.alloc, hg]
  | some xc =>
    obtain ⟨x, c⟩ := xc
    have hx := (hL.write x c hw).1
    simp [Heap.alloc, Heap.set, hx, hg]

/-- Run r's arena after an effect: the allocations appended, then the one write. -/
def ownAfter (a : Arena) (e : Effect) : Arena :=
  match e.write with
  | none => a ++ e.allocs
  | some (x, c) => (a ++ e.allocs).set x.idx c

theorem apply_arena_own {h : Heap} {r : Nat} {e : Effect} (hL : Local r e) :
    (apply h r e).arena (.run r) = ownAfter (h.arena (.run r)) e := by
  unfold apply ownAfter
  cases hw : e.write with
  | none => simp [Heap.alloc]
  | some xc =>
    obtain ⟨x, c⟩ := xc
    have hx := (hL.write x c hw).1
    simp [Heap.alloc, Heap.set, hx]

theorem apply_sep {h : Heap} (hS : Sep h) {r : Nat} {e : Effect} (hL : Local r e) :
    Sep (apply h r e) := by
  intro g c hc
  by_cases hg : g = .run r
  · subst hg
    rw [apply_arena_own hL] at hc
    unfold ownAfter at hc
    have happ : ∀ c ∈ h.arena (.run r) ++ e.allocs, CellIn (.run r) c := by
      intro c hc
      rcases List.mem_append.1 hc with h1 | h1
      · exact hS _ c h1
      · exact hL.allocs c h1
    cases hw : e.write with
    | none => rw [hw] at hc; exact happ c hc
    | some xc =>
      obtain ⟨x, c'⟩ := xc
      rw [hw] at hc
      rcases List.mem_or_eq_of_mem_set hc with h1 | h1
      · exact happ c h1
      · rw [h1]; exact (hL.write x c' hw).2
  · rw [apply_arena_other hL hg] at hc
    exact hS g c hc

/-! ### one operation, a whole schedule -/

theorem step_sep {h : Heap} (hS : Sep h) (r : Nat) {op : Op} (hf : op.fixed = true) :
    Sep (step h r op) := by
  unfold step
  cases he : effect h r op with
  | none => exact hS
  | some e => exact apply_sep hS (effect_local hS hf he)

/-- An operation of run r leaves every other region's arena exactly as it was. -/
theorem step_arena_other {h : Heap} (hS : Sep h) (r : Nat) {op : Op} (hf : op.fixed = true)
    {g : Region} (hg : g ≠ .run r) : (step h r op).arena g = h.arena g := by
  unfold step
  cases he : effect h r op with
  | none => rfl
  | some e => exact apply_arena_other (effect_local hS hf he) hg

theorem shared_ne_run {g : Region} (hg : g.isShared = true) (r : Nat) : g ≠ .run r := by
  intro e; rw [e] at hg; simp [Region.isShared] at hg

theorem exec_sep {s : Sched} (hs : SchedFixed s) {h : Heap} (hS : Sep h) : Sep (exec s h) := by
  induction s generalizing h with
  | nil => exact hS
  | cons e rest ih => exact ih hs.tail (step_sep hS e.1 hs.head)

theorem exec_arena_shared {s : Sched} (hs : SchedFixed s) {h : Heap} (hS : Sep h) {g : Region}
    (hg : g.isShared = true) : (exec s h).arena g = h.arena g := by
  induction s generalizing h with
  | nil => rfl
  | cons e rest ih =>
    simp only [exec]
    rw [ih hs.tail (step_sep hS e.1 hs.head), step_arena_other hS e.1 hs.head (shared_ne_run hg e.1)]

/-! ### the initial heap -/

theorem init_sep (defs : List Block) (cfg : Block) : Sep (Heap.init defs cfg) := by
  intro g c hc
  cases g with
  | defn p =>
    simp only [Heap.init] at hc
    split at hc
    · exact relocate_in _ _ _ c hc
    · cases hc
  | config => exact relocate_in _ _ _ c hc
  | run r => cases hc

end Pypyr.C12
