/-
  C07 helper lemmas: `Step.save_error` in closed form — what exactly it appends to `runErrors`,
  and that it touches nothing else.
-/
import Props.Lemmas.C04_Cond

namespace Pypyr.C07
open Pypyr Pypyr.Flow Pypyr.C04

/-- the `onError` payload formatted against the state at the moment of the failure
    (`{}` when the step has no `onError` or a falsy one). -/
def customError (d : StepDef) (s : St) : Except Exc Val :=
  match d.onError with
  | some oe => if oe.truthy then fmtV s oe else .ok (.dict [])
  | none => .ok (.dict [])

def optNatVal (o : Option Nat) : Val := match o with | some n => .int n | none => .none
def optStrVal (o : Option String) : Val := match o with | some n => .str n | none => .none

/-- the failure record of `save_error`, field by field. -/
def entry (d : StepDef) (e : ExcV) (swallowed : Bool) (ce : Val) : Val :=
  .dict [
    (.str "name", .str e.name), (.str "description", .str e.msg), (.str "customError", ce),
    (.str "line", optNatVal d.line), (.str "col", optNatVal d.col), (.str "step", optStrVal d.name),
    (.str "exception", .obj e.id), (.str "swallowed", .bool swallowed)]

/-- the list a `runErrors` value denotes (absent ↦ empty). -/
def reList (o : Option Val) : List Val :=
  match o with
  | some (.list xs) => xs
  | _ => []

/-- the `runErrors` list of a state. -/
def runErrorsOf (s : St) : List Val := reList (Ctx.get? s.ctx "runErrors")

theorem saveError_eq (d : StepDef) (s : St) (e : ExcV) (sw : Bool) :
    saveError d s e sw =
      (match customError d s with
       | .error x => raiseExc s x
       | .ok ce =>
         match Ctx.get? s.ctx "runErrors" with
         | none => ({ s with ctx := Ctx.set s.ctx "runErrors" (.list [entry d e sw ce]) }, .ok)
         | some (.list xs) => ({ s with ctx := Ctx.set s.ctx "runErrors" (.list (xs ++ [entry d e sw ce])) }, .ok)
         | some _ => raiseNew s "AttributeError" "~object has no attribute 'append'") := by
  unfold saveError customError entry optNatVal optStrVal
  rfl

/-- `save_error` succeeds exactly when `onError` formats and `runErrors` is absent or a list; then
    the new state is the old one with `runErrors` := old list ++ [the one entry]. -/
theorem saveError_ok (d : StepDef) (s s' : St) (e : ExcV) (sw : Bool)
    (h : saveError d s e sw = (s', .ok)) :
    ∃ ce, customError d s = .ok ce ∧
      s' = { s with ctx := Ctx.set s.ctx "runErrors" (.list (runErrorsOf s ++ [entry d e sw ce])) } := by
  rw [saveError_eq] at h
  cases hc : customError d s with
  | error x => rw [hc] at h; simp [raiseExc, raiseNew] at h
  | ok ce =>
    rw [hc] at h
    refine ⟨ce, rfl, ?_⟩
    simp only [] at h
    unfold runErrorsOf
    cases hg : Ctx.get? s.ctx "runErrors" with
    | none => rw [hg] at h; simp only [] at h; injection h with h1 _; rw [← h1]; rfl
    | some v =>
      rw [hg] at h
      cases v with
      | list xs => simp only [] at h; injection h with h1 _; rw [← h1]; rfl
      | _ => simp [raiseNew] at h

/-- conversely: whenever `onError` formats and `runErrors` is absent or a list, it succeeds. -/
theorem saveError_succeeds (d : StepDef) (s : St) (e : ExcV) (sw : Bool) (ce : Val)
    (hc : customError d s = .ok ce)
    (hl : Ctx.get? s.ctx "runErrors" = none ∨ ∃ xs, Ctx.get? s.ctx "runErrors" = some (.list xs)) :
    saveError d s e sw =
      ({ s with ctx := Ctx.set s.ctx "runErrors" (.list (runErrorsOf s ++ [entry d e sw ce])) }, .ok) := by
  rw [saveError_eq, hc]
  unfold runErrorsOf
  rcases hl with hg | ⟨xs, hg⟩
  · rw [hg]; rfl
  · rw [hg]; rfl

/-- in every case (success or not) `save_error` changes the context at most at `runErrors`,
    and only by appending. -/
theorem saveError_ctx (d : StepDef) (s : St) (e : ExcV) (sw : Bool) :
    (saveError d s e sw).1.ctx = s.ctx ∨
    ∃ ent, (saveError d s e sw).1.ctx = Ctx.set s.ctx "runErrors" (.list (runErrorsOf s ++ [ent])) := by
  rw [saveError_eq]
  cases customError d s with
  | error x => left; rfl
  | ok ce =>
    simp only []
    unfold runErrorsOf
    cases hg : Ctx.get? s.ctx "runErrors" with
    | none => right; exact ⟨_, rfl⟩
    | some v =>
      cases v with
      | list xs => right; exact ⟨_, rfl⟩
      | _ => left; rfl

theorem runErrorsOf_set (c : Ctx) (s : St) (xs : List Val) :
    runErrorsOf { s with ctx := Ctx.set c "runErrors" (.list xs) } = xs := by
  unfold runErrorsOf; simp only [ctx_get_set_self]; rfl

theorem customError_logEscape (d d' : StepDef) (s1 : St) (e : ExcV) (h : Bool) :
    customError d (logEscape d' s1 e h) = customError d s1 := by
  unfold customError fmtV; rw [logEscape_ctx]

theorem runErrorsOf_logEscape (d : StepDef) (s1 : St) (e : ExcV) (h : Bool) :
    runErrorsOf (logEscape d s1 e h) = runErrorsOf s1 := by
  unfold runErrorsOf; rw [logEscape_ctx]

theorem runErrorsOf_congr (a b : St) (h : Ctx.get? b.ctx "runErrors" = Ctx.get? a.ctx "runErrors") :
    runErrorsOf b = runErrorsOf a := by unfold runErrorsOf; rw [h]

end Pypyr.C07
