/-
  C12 helper lemmas, part 5: objects that are shared by reference but never written.

  * `effect_write_mutable`: the one cell an operation writes to is, before the write, a `list`, `set`,
    `dict` or `obj` cell – NEVER a leaf or a tuple, whatever the operation (aliasing ones included),
    whatever the heap.  So atoms and tuples are immutable objects of the model: `frozen_cell_step`.
  * `neverWritesShared` / `exec_readonly_shared`: for ANY schedule – no separation, no restriction to
    the copying operations: contexts may hold shared objects by reference – in which no operation's
    write target lies in a shared region, every shared arena stays what it was.
-/
import Props.Lemmas.C12_Sep

namespace Pypyr.C12
open Pypyr.RunHeap

/-- the cells operations write to -/
def Cell.isMutable : Cell → Bool
  | .list _ | .set _ | .dict _ | .obj _ _ => true
  | _ => false

theorem updateCopy_write {h : Heap} {r : Nat} {src : Ref} {e : Effect} (he : updateCopy h r src = some e)
    {x : Ref} {c : Cell} (hw : e.write = some (x, c)) : ∃ c0, h.get? x = some c0 ∧ Cell.isMutable c0 = true := by
  unfold updateCopy at he
  split at he
  · split at he
    · rename_i kvs skvs hroot hsrc
      simp only [Option.some.injEq] at he; subst he
      simp only [Option.some.injEq, Prod.mk.injEq] at hw
      obtain ⟨rfl, _⟩ := hw
      exact ⟨_, hroot, rfl⟩
    · cases he
  · cases he

theorem extendEffect_write {h : Heap} {r : Nat} {p : Path} {vs : List Block} {e : Effect}
    (he : extendEffect h r p vs = some e) {x : Ref} {c : Cell} (hw : e.write = some (x, c)) :
    ∃ c0, h.get? x = some c0 ∧ Cell.isMutable c0 = true := by
  unfold extendEffect at he
  split at he
  · cases he
  · split at he
    · rename_i rs hc
      simp only [Option.some.injEq] at he; subst he
      simp only [Option.some.injEq, Prod.mk.injEq] at hw
      obtain ⟨rfl, _⟩ := hw
      exact ⟨_, hc, rfl⟩
    · cases he

theorem dictSetEffect_write {h : Heap} {r : Nat} {p : Path} {k : String} {v : Block} {e : Effect}
    (he : dictSetEffect h r p k v = some e) {x : Ref} {c : Cell} (hw : e.write = some (x, c)) :
    ∃ c0, h.get? x = some c0 ∧ Cell.isMutable c0 = true := by
  unfold dictSetEffect at he
  split at he
  · cases he
  · split at he
    · cases he
    · split at he
      · rename_i kvs hc
        simp only [Option.some.injEq] at he; subst he
        simp only [Option.some.injEq, Prod.mk.injEq] at hw
        obtain ⟨rfl, _⟩ := hw
        exact ⟨_, hc, rfl⟩
      · cases he

theorem fmtBind_write {h : Heap} {r : Nat} {p : Path} {k : String} {g : Region} {y : Ref} {keep : List Nat}
    {e : Effect} (he : fmtBind h r p k g y keep = some e) {x : Ref} {c : Cell} (hw : e.write = some (x, c)) :
    ∃ c0, h.get? x = some c0 ∧ Cell.isMutable c0 = true := by
  unfold fmtBind at he
  split at he
  · cases he
  · split at he
    · rename_i kvs hc
      simp only [Option.some.injEq] at he; subst he
      simp only [Option.some.injEq, Prod.mk.injEq] at hw
      obtain ⟨rfl, _⟩ := hw
      exact ⟨_, hc, rfl⟩
    · cases he

/-- Whatever the operation and the heap: what is written to is a list, set, dict or opaque object. -/
theorem effect_write_mutable {h : Heap} {r : Nat} {op : Op} {e : Effect} (he : effect h r op = some e)
    {x : Ref} {c : Cell} (hw : e.write = some (x, c)) : ∃ c0, h.get? x = some c0 ∧ Cell.isMutable c0 = true := by
  cases op with
  | start b =>
    simp only [effect] at he
    split at he
    · split at he
      · simp only [Option.some.injEq] at he; subst he; cases hw
      · cases he
    · cases he
  | inCopy key src =>
    simp only [effect] at he
    split at he
    · split at he
      · rename_i kvs hroot
        simp only [Option.some.injEq] at he; subst he
        simp only [Option.some.injEq, Prod.mk.injEq] at hw
        obtain ⟨rfl, _⟩ := hw
        exact ⟨_, hroot, rfl⟩
      · cases he
    · cases he
  | inAlias key src =>
    simp only [effect] at he
    split at he
    · rename_i kvs hroot
      simp only [Option.some.injEq] at he; subst he
      simp only [Option.some.injEq, Prod.mk.injEq] at hw
      obtain ⟨rfl, _⟩ := hw
      exact ⟨_, hroot, rfl⟩
    · cases he
  | configvarsCopy => exact updateCopy_write (by simpa only [effect] using he) hw
  | shortcutArgsCopy src => exact updateCopy_write (by simpa only [effect] using he) hw
  | configvarsAlias =>
    simp only [effect] at he
    split at he
    · rename_i kvs skvs hroot hsrc
      simp only [Option.some.injEq] at he; subst he
      simp only [Option.some.injEq, Prod.mk.injEq] at hw
      obtain ⟨rfl, _⟩ := hw
      exact ⟨_, hroot, rfl⟩
    · cases he
  | unsetIn key =>
    simp only [effect] at he
    split at he
    · rename_i kvs hroot
      simp only [Option.some.injEq] at he; subst he
      simp only [Option.some.injEq, Prod.mk.injEq] at hw
      obtain ⟨rfl, _⟩ := hw
      exact ⟨_, hroot, rfl⟩
    · cases he
  | setKey key v => exact dictSetEffect_write (by simpa only [effect] using he) hw
  | dictSetAt p k v => exact dictSetEffect_write (by simpa only [effect] using he) hw
  | appendAt p v => exact extendEffect_write (by simpa only [effect] using he) hw
  | extendAt p vs => exact extendEffect_write (by simpa only [effect] using he) hw
  | addAt p v =>
    simp only [effect] at he
    split at he
    · cases he
    · split at he
      · rename_i rs hc
        split at he
        · simp only [Option.some.injEq] at he; subst he; cases hw
        · simp only [Option.some.injEq] at he; subst he
          simp only [Option.some.injEq, Prod.mk.injEq] at hw
          obtain ⟨rfl, _⟩ := hw
          exact ⟨_, hc, rfl⟩
      · cases he
  | attrSetAt p k v =>
    simp only [effect] at he
    split at he
    · cases he
    · split at he
      · cases he
      · split at he
        · rename_i cls attrs hc
          simp only [Option.some.injEq] at he; subst he
          simp only [Option.some.injEq, Prod.mk.injEq] at hw
          obtain ⟨rfl, _⟩ := hw
          exact ⟨_, hc, rfl⟩
        · cases he
  | copyKey src dst =>
    simp only [effect] at he
    split at he
    · rename_i kvs hroot
      split at he
      · simp only [Option.some.injEq] at he; subst he
        simp only [Option.some.injEq, Prod.mk.injEq] at hw
        obtain ⟨rfl, _⟩ := hw
        exact ⟨_, hroot, rfl⟩
      · cases he
    · cases he
  | fmtSetAt p k src keep =>
    simp only [effect] at he
    split at he
    · exact fmtBind_write he hw
    · cases he
  | fmtFrom src sp p k byRef =>
    simp only [effect] at he
    split at he
    · cases he
    · split at he
      · cases he
      · split at he
        · split at he
          · rename_i c1 x1 hc1 hx1
            split at he
            · rename_i kvs hc
              split at he
              · simp only [Option.some.injEq] at he; subst he
                simp only [Option.some.injEq, Prod.mk.injEq] at hw
                obtain ⟨rfl, _⟩ := hw
                exact ⟨_, hc, rfl⟩
              · simp only [Option.some.injEq] at he; subst he
                simp only [Option.some.injEq, Prod.mk.injEq] at hw
                obtain ⟨rfl, _⟩ := hw
                exact ⟨_, hc, rfl⟩
            · cases he
          · cases he
        · exact fmtBind_write he hw
  | fail => cases he

/-- `frozen_cell_step`: an atom or a tuple is the same object after ANY operation of ANY run, in any
    state: tuples (and frozensets, which are tuple cells) can be shared by reference freely. -/
theorem frozen_cell_step (st : State) (r : Nat) (op : Op) {x : Ref} {c : Cell} (hx : st.heap.get? x = some c)
    (hc : Cell.isMutable c = false) : (step st r op).heap.get? x = some c := by
  rcases step_cases st r op with h | ⟨e, he, h⟩
  · rw [h]; exact hx
  · rw [h]
    have hlt : x.idx < (st.heap.arena x.reg).length := (List.getElem?_eq_some_iff.1 hx).1
    have halloc : ((st.heap.alloc (.run r) e.allocs).arena x.reg)[x.idx]? = some c := by
      simp only [Heap.alloc]
      split
      · rw [List.getElem?_append_left hlt]; exact hx
      · exact hx
    unfold apply
    cases hw : e.write with
    | none => exact halloc
    | some yc =>
      obtain ⟨y, c'⟩ := yc
      obtain ⟨c0, hy, hm⟩ := effect_write_mutable he hw
      simp only [Heap.get?, Heap.set]
      split
      · rename_i hreg
        have hne : y.idx ≠ x.idx := by
          intro hi
          have : y = x := by cases x; cases y; simp_all
          subst this
          rw [hx] at hy; cases hy; rw [hc] at hm; cases hm
        rw [List.getElem?_set_ne hne]; exact halloc
      · exact halloc

theorem frozen_cell_exec (s : Sched) {st : State} {x : Ref} {c : Cell} (hx : st.heap.get? x = some c)
    (hc : Cell.isMutable c = false) : (exec s st).heap.get? x = some c := by
  induction s generalizing st with
  | nil => exact hx
  | cons e rest ih => exact ih (frozen_cell_step st e.1 e.2 hx hc)

/-! ### shared by reference, never written -/

/-- Does the operation, in this state, write to an object of a shared region? -/
def writesShared (st : State) (r : Nat) (op : Op) : Bool :=
  !st.dead r && match effect st.heap r op with
    | some ⟨_, some (x, _)⟩ => x.reg.isShared
    | _ => false

/-- No operation of the schedule, executed from `st`, writes to a shared object. -/
def neverWritesShared : Sched → State → Bool
  | [], _ => true
  | e :: rest, st => !writesShared st e.1 e.2 && neverWritesShared rest (step st e.1 e.2)

theorem step_readonly_shared {st : State} {r : Nat} {op : Op} (hw : writesShared st r op = false) {g : Region}
    (hg : g.isShared = true) : (step st r op).heap.arena g = st.heap.arena g := by
  unfold step
  unfold writesShared at hw
  cases hd : st.dead r with
  | true => simp
  | false =>
    simp only [hd, Bool.not_false, Bool.true_and, Bool.false_eq_true, if_false] at hw ⊢
    cases he : effect st.heap r op with
    | none => rfl
    | some e =>
      obtain ⟨allocs, write⟩ := e
      have hgr : g ≠ .run r := shared_ne_run hg r
      simp only [he] at hw
      cases write with
      | none => simp [apply, Heap.alloc, hgr]
      | some xc =>
        obtain ⟨x, c⟩ := xc
        simp only at hw
        have hxg : g ≠ x.reg := by intro e; rw [← e, hg] at hw; cases hw
        simp [apply, Heap.alloc, Heap.set, hgr, hxg]

/-- `exec_readonly_shared`: ANY schedule – aliasing operations allowed, no separation assumed – that
    never writes to a shared object leaves every shared arena exactly as it was. -/
theorem exec_readonly_shared {s : Sched} {st : State} (hn : neverWritesShared s st = true) {g : Region}
    (hg : g.isShared = true) : (exec s st).heap.arena g = st.heap.arena g := by
  induction s generalizing st with
  | nil => rfl
  | cons e rest ih =>
    simp only [neverWritesShared, Bool.and_eq_true, Bool.not_eq_true'] at hn
    simp only [exec]
    rw [ih hn.2, step_readonly_shared hn.1 hg]

end Pypyr.C12
