/-
  C16 helper lemmas: the glue of filewrite* / fetch* / ObjectRewriter over an abstract codec.
-/
import Props.Lemmas.C16_Doc

namespace Pypyr.Codec

theorem Files.get?_set_self {τ} (files : Files τ) (p : String) (t : τ) :
    (files.set p t).get? p = some t := by
  induction files with
  | nil => simp [Files.set, Files.get?]
  | cons a as ih =>
    obtain ⟨k, v⟩ := a
    by_cases hk : k = p <;> simp [Files.set, Files.get?, hk, ih]

theorem Ctx.get?_set_self (c : Ctx) (k : String) (v : Val) : (Ctx.set c k v).get? k = some v := by
  induction c with
  | nil => simp [Ctx.set, Ctx.get?]
  | cons a as ih =>
    obtain ⟨k', v'⟩ := a
    by_cases hk : k' = k <;> simp [Ctx.set, Ctx.get?, hk, ih]

theorem Ctx.get?_set_other (c : Ctx) (k k2 : String) (v : Val) (h : k2 ≠ k) :
    (Ctx.set c k v).get? k2 = c.get? k2 := by
  induction c with
  | nil => simp [Ctx.set, Ctx.get?, Ne.symm h]
  | cons a as ih =>
    obtain ⟨k', v'⟩ := a
    by_cases hk : k' = k
    · subst hk
      simp [Ctx.set, Ctx.get?, Ne.symm h]
    · by_cases hk2 : k' = k2
      · subst hk2
        simp [Ctx.set, Ctx.get?, hk]
      · simp [Ctx.set, Ctx.get?, hk, hk2, ih]

/-- After `context.update(entries)` every entry whose key is not overwritten by a later entry is
    in the context; with pairwise distinct keys that is every entry. -/
theorem Ctx.get?_update (es : List (String × Val)) :
    ∀ (c : Ctx), (es.map (·.1)).Nodup → ∀ kv ∈ es, (Ctx.update c es).get? kv.1 = some kv.2 := by
  induction es with
  | nil => intro c _ kv h; simp at h
  | cons e es ih =>
    intro c hnd kv hkv
    simp only [List.map_cons, List.nodup_cons] at hnd
    simp only [Ctx.update, List.foldl_cons]
    rcases List.mem_cons.mp hkv with rfl | hkv
    · -- later entries have other keys: the value set now survives
      have hpres : ∀ (es' : List (String × Val)) (c' : Ctx), (∀ x ∈ es', x.1 ≠ kv.1) →
          (es'.foldl (fun acc x => Ctx.set acc x.1 x.2) c').get? kv.1 = c'.get? kv.1 := by
        intro es'
        induction es' with
        | nil => intro c' _; rfl
        | cons x xs ihx =>
          intro c' hx
          simp only [List.foldl_cons]
          rw [ihx _ (fun y hy => hx y (List.mem_cons_of_mem _ hy))]
          exact Ctx.get?_set_other c' x.1 kv.1 x.2 (Ne.symm (hx x List.mem_cons_self))
      rw [hpres es _ (fun x hx e => hnd.1 (List.mem_map.mpr ⟨x, hx, e⟩))]
      exact Ctx.get?_set_self c kv.1 kv.2
    · exact ih (Ctx.set c e.1 e.2) hnd.2 kv hkv

/-- The write step hands the serialiser `payload` and it lands in `path`. -/
theorem fileWrite_ok {τ} (f : Format) (c : Codec τ) (fuel : Nat) (ctx : Ctx) (files : Files τ)
    (path : String) (p' : Val) (t : τ)
    (hw : writePayload f fuel ctx = .ok (path, p')) (he : c.enc p' = some t) :
    fileWrite f c fuel ctx files = .ok (files.set path t) := by
  simp [fileWrite, hw, he]

theorem fetch_eq_store {τ} (f : Format) (c : Codec τ) (fuel : Nat) (ctx : Ctx) (files : Files τ)
    (path : String) (key : Option Val) (t : τ) (p' : Val)
    (hf : fetchArgs f fuel ctx = .ok (path, key)) (hfile : files.get? path = some t)
    (hd : c.dec t = some p') :
    fetch f c fuel ctx files = store ctx key p' := by
  simp only [fetch, fetchWith, hf, hfile, hd]
  cases hs : store ctx key p' with
  | error e => rfl
  | ok ctx' => simp

/-! ### File level: encodings, the file context parser, error classes -/

/-- Reading a stored file with encoding `e'` gives its text iff `e'` is the encoding it is stored in
    (the model's idealisation of `open(path, encoding=e').read()`). -/
theorem Stored.readAs_eq_some_iff {τ} (e e' : String) (t u : τ) :
    (Stored.mk e t).readAs e' = some u ↔ e = e' ∧ t = u := by
  by_cases h : e = e' <;> simp [Stored.readAs, h]

theorem Stored.readAs_self {τ} (e : String) (t : τ) : (Stored.mk e t).readAs e = some t := by
  simp [Stored.readAs]

theorem Stored.readAs_other {τ} (e e' : String) (t : τ) (h : e ≠ e') : (Stored.mk e t).readAs e' = none := by
  simp [Stored.readAs, h]

/-- The write step at file level: the payload lands in `path`, stored in the write encoding. -/
theorem fileWriteStored_ok {τ} (f : Format) (c : Codec τ) (fuel : Nat) (ctx : Ctx) (dflt : Option String)
    (files : Files (Stored τ)) (path we : String) (p' : Val) (t : τ)
    (hw : writePayload f fuel ctx = .ok (path, p')) (hwe : writeEncoding f fuel ctx dflt = .ok we)
    (he : c.enc p' = some t) :
    fileWriteStored f c fuel ctx dflt files = .ok (files.set path ⟨we, t⟩) := by
  simp [fileWriteStored, hw, hwe, he]

/-- The file-level write step forgets nothing but the encoding: it succeeds exactly when the
    value-level write step does, with the same error otherwise (given the encoding option is in the
    modelled domain). -/
theorem fileWriteStored_error_eq {τ} (f : Format) (c : Codec τ) (fuel : Nat) (ctx : Ctx) (dflt : Option String)
    (filesS : Files (Stored τ)) (files : Files τ) (we : String) (e : Exc)
    (hwe : writeEncoding f fuel ctx dflt = .ok we) (h : fileWrite f c fuel ctx files = .error e) :
    fileWriteStored f c fuel ctx dflt filesS = .error e := by
  simp only [fileWrite] at h
  simp only [fileWriteStored]
  cases hw : writePayload f fuel ctx with
  | error e' => simpa [hw] using h
  | ok pp =>
    obtain ⟨path, payload⟩ := pp
    simp only [hw] at h
    simp only [hwe]
    cases he : c.enc payload with
    | none => simpa [he] using h
    | some t => simp [he] at h

theorem fetchStored_eq_store {τ} (f : Format) (c : Codec τ) (fuel : Nat) (ctx : Ctx) (dflt : Option String)
    (files : Files (Stored τ)) (path fe : String) (key : Option Val) (t : τ) (p' : Val)
    (hf : fetchArgs f fuel ctx = .ok (path, key)) (hfe : fetchEncoding f fuel ctx dflt = .ok fe)
    (hfile : files.get? path = some ⟨fe, t⟩) (hd : c.dec t = some p') :
    fetchStored f c fuel ctx dflt files = store ctx key p' := by
  simp [fetchStored, hf, hfe, hfile, Stored.readAs, hd]

theorem fetchStored_other_encoding {τ} (f : Format) (c : Codec τ) (fuel : Nat) (ctx : Ctx) (dflt : Option String)
    (files : Files (Stored τ)) (path fe we : String) (key : Option Val) (t : τ)
    (hf : fetchArgs f fuel ctx = .ok (path, key)) (hfe : fetchEncoding f fuel ctx dflt = .ok fe)
    (hfile : files.get? path = some ⟨we, t⟩) (hne : we ≠ fe) :
    fetchStored f c fuel ctx dflt files = .error ⟨"UnicodeDecodeError", path⟩ := by
  simp [fetchStored, hf, hfe, hfile, Stored.readAs, hne]

/-- A parsed mapping passes every parser's top-level check. -/
theorem fileParserF_dict {τ} (f : Format) (c : Codec τ) (t : τ) (kvs : List (Val × Val))
    (hd : c.dec t = some (.dict kvs)) : fileParserF f c t = .ok (.dict kvs) := by
  cases f <;> simp [fileParserF, hd, hasLen]

/-- For json and yaml the per-format parser is the value-level `fileParser`. -/
theorem fileParserF_eq_fileParser {τ} (f : Format) (c : Codec τ) (t : τ) (hf : f ≠ .toml) :
    fileParserF f c t = fileParser c t := by
  cases f
  · simp only [fileParserF, fileParser]
    cases c.dec t with
    | none => rfl
    | some d => cases d <;> rfl
  · simp only [fileParserF, fileParser]
    cases c.dec t with
    | none => rfl
    | some d => cases d <;> rfl
  · exact absurd rfl hf

/-- With arguments the parser is `fileParserPath` on their single-space join. -/
theorem fileParserArgs_cons {τ} (f : Format) (c : Codec τ) (dflt : Option String) (args : List String)
    (files : Files (Stored τ)) (hne : args ≠ []) :
    fileParserArgs f c dflt (some args) files =
      match fileParserPath f c dflt (joinArgs args) files with
      | .error e => .error e
      | .ok v => .ok (some v) := by
  cases args with
  | nil => exact absurd rfl hne
  | cons a rest => rfl

/-- Both steps take `input.get('encoding', config.default_encoding)`: with the same `encoding` entry
    in their (formatted) inputs and the same config default they use the same encoding. -/
theorem fetchEncoding_eq_writeEncoding (f : Format) (fuel fuel2 : Nat) (ctx ctx2 : Ctx) (dflt : Option String)
    (inputW inputF : List (Val × Val))
    (hW : formattedInput fuel ctx f.writeKey = .ok (.dict inputW))
    (hF : formattedInput fuel2 ctx2 f.fetchKey = .ok (.dict inputF))
    (hsame : dictGet? inputF (.str "encoding") = dictGet? inputW (.str "encoding")) :
    fetchEncoding f fuel2 ctx2 dflt = writeEncoding f fuel ctx dflt := by
  cases f <;> simp [fetchEncoding, writeEncoding, hW, hF, encodingOpt, hsame]

end Pypyr.Codec
