/-
  C16 helper lemmas: the glue of filewrite* / fetch* / ObjectRewriter over an abstract codec.
-/
import Props.Lemmas.C16_Doc

namespace Pypyr.Codec

theorem Files.get?_set_self {τ} (files : Files τ) (p : String) (t : τ) :
    (files.set p t).get? p = some t := by
  induction files with
  | nil => simp [Files.set, Files.get?]
  | cons a as ih =>
    obtain ⟨k, v⟩ := a
    by_cases hk : k = p <;> simp [Files.set, Files.get?, hk, ih]

theorem Ctx.get?_set_self (c : Ctx) (k : String) (v : Val) : (Ctx.set c k v).get? k = some v := by
  induction c with
  | nil => simp [Ctx.set, Ctx.get?]
  | cons a as ih =>
    obtain ⟨k', v'⟩ := a
    by_cases hk : k' = k <;> simp [Ctx.set, Ctx.get?, hk, ih]

theorem Ctx.get?_set_other (c : Ctx) (k k2 : String) (v : Val) (h : k2 ≠ k) :
    (Ctx.set c k v).get? k2 = c.get? k2 := by
  induction c with
  | nil => simp [Ctx.set, Ctx.get?, Ne.symm h]
  | cons a as ih =>
    obtain ⟨k', v'⟩ := a
    by_cases hk : k' = k
    · subst hk
      simp [Ctx.set, Ctx.get?, Ne.symm h]
    · by_cases hk2 : k' = k2
      · subst hk2
        simp [Ctx.set, Ctx.get?, hk]
      · simp [Ctx.set, Ctx.get?, hk, hk2, ih]

/-- After `context.update(entries)` every entry whose key is not overwritten by a later entry is
    in the context; with pairwise distinct keys that is every entry. -/
theorem Ctx.get?_update (es : List (String × Val)) :
    ∀ (c : Ctx), (es.map (·.1)).Nodup → ∀ kv ∈ es, (Ctx.update c es).get? kv.1 = some kv.2 := by
  induction es with
  | nil => intro c _ kv h; simp at h
  | cons e es ih =>
    intro c hnd kv hkv
    simp only [List.map_cons, List.nodup_cons] at hnd
    simp only [Ctx.update, List.foldl_cons]
    rcases List.mem_cons.mp hkv with rfl | hkv
    · -- later entries have other keys: the value set now survives
      have hpres : ∀ (es' : List (String × Val)) (c' : Ctx), (∀ x ∈ es', x.1 ≠ kv.1) →
          (es'.foldl (fun acc x => Ctx.set acc x.1 x.2) c').get? kv.1 = c'.get? kv.1 := by
        intro es'
        induction es' with
        | nil => intro c' _; rfl
        | cons x xs ihx =>
          intro c' hx
          simp only [List.foldl_cons]
          rw [ihx _ (fun y hy => hx y (List.mem_cons_of_mem _ hy))]
          exact Ctx.get?_set_other c' x.1 kv.1 x.2 (Ne.symm (hx x List.mem_cons_self))
      rw [hpres es _ (fun x hx e => hnd.1 (List.mem_map.mpr ⟨x, hx, e⟩))]
      exact Ctx.get?_set_self c kv.1 kv.2
    · exact ih (Ctx.set c e.1 e.2) hnd.2 kv hkv

/-- The write step hands the serialiser `payload` and it lands in `path`. -/
theorem fileWrite_ok {τ} (f : Format) (c : Codec τ) (fuel : Nat) (ctx : Ctx) (files : Files τ)
    (path : String) (p' : Val) (t : τ)
    (hw : writePayload f fuel ctx = .ok (path, p')) (he : c.enc p' = some t) :
    fileWrite f c fuel ctx files = .ok (files.set path t) := by
  simp [fileWrite, hw, he]

theorem fetch_eq_store {τ} (f : Format) (c : Codec τ) (fuel : Nat) (ctx : Ctx) (files : Files τ)
    (path : String) (key : Option Val) (t : τ) (p' : Val)
    (hf : fetchArgs f fuel ctx = .ok (path, key)) (hfile : files.get? path = some t)
    (hd : c.dec t = some p') :
    fetch f c fuel ctx files = store ctx key p' := by
  simp only [fetch, fetchWith, hf, hfile, hd]
  cases hs : store ctx key p' with
  | error e => rfl
  | ok ctx' => simp

end Pypyr.Codec
