/-
  C15 helper lemmas: the association-list directory `Fs` (get?/set/erase/names) and how a fresh
  temp entry appended at the end behaves.
-/
import PypyrModel.FsRewrite

namespace Pypyr.FsRewrite
namespace Fs

theorem get?_append_self {fs : Fs} {t c : String} (h : get? fs t = none) :
    get? (fs ++ [(t, c)]) t = some c := by
  induction fs with
  | nil => simp [get?]
  | cons kv rest ih =>
    obtain ⟨k, v⟩ := kv
    simp only [get?] at h
    by_cases hk : k = t
    · simp [hk] at h
    · simp only [hk, if_false] at h
      simp [get?, hk, ih h]

theorem get?_append_other {fs : Fs} {t c p : String} (hp : p ≠ t) :
    get? (fs ++ [(t, c)]) p = get? fs p := by
  induction fs with
  | nil => simp [get?, Ne.symm hp]
  | cons kv rest ih =>
    obtain ⟨k, v⟩ := kv
    by_cases hk : k = p <;> simp [get?, hk, ih]

theorem set_fresh {fs : Fs} {t c : String} (h : get? fs t = none) :
    set fs t c = fs ++ [(t, c)] := by
  induction fs with
  | nil => simp [set]
  | cons kv rest ih =>
    obtain ⟨k, v⟩ := kv
    simp only [get?] at h
    by_cases hk : k = t
    · simp [hk] at h
    · simp only [hk, if_false] at h
      simp [set, hk, ih h]

theorem set_append_self {fs : Fs} {t c c' : String} (h : get? fs t = none) :
    set (fs ++ [(t, c)]) t c' = fs ++ [(t, c')] := by
  induction fs with
  | nil => simp [set]
  | cons kv rest ih =>
    obtain ⟨k, v⟩ := kv
    simp only [get?] at h
    by_cases hk : k = t
    · simp [hk] at h
    · simp only [hk, if_false] at h
      simp [set, hk, ih h]

theorem erase_append_self {fs : Fs} {t c : String} (h : get? fs t = none) :
    erase (fs ++ [(t, c)]) t = fs := by
  induction fs with
  | nil => simp [erase]
  | cons kv rest ih =>
    obtain ⟨k, v⟩ := kv
    simp only [get?] at h
    by_cases hk : k = t
    · simp [hk] at h
    · simp only [hk, if_false] at h
      simp [erase, hk, ih h]

theorem get?_set_self {fs : Fs} {p c : String} : get? (set fs p c) p = some c := by
  induction fs with
  | nil => simp [set, get?]
  | cons kv rest ih =>
    obtain ⟨k, v⟩ := kv
    by_cases hk : k = p <;> simp [set, get?, hk, ih]

theorem get?_set_other {fs : Fs} {p q c : String} (h : p ≠ q) : get? (set fs q c) p = get? fs p := by
  induction fs with
  | nil => simp [set, get?, Ne.symm h]
  | cons kv rest ih =>
    obtain ⟨k, v⟩ := kv
    by_cases hk : k = q
    · subst hk
      simp [set, get?, Ne.symm h]
    · by_cases hp : k = p
      · subst hp
        simp [set, get?, hk]
      · simp [set, get?, hk, hp, ih]

theorem names_set_of_mem {fs : Fs} {p c : String} (h : (get? fs p).isSome) :
    names (set fs p c) = names fs := by
  induction fs with
  | nil => simp [get?] at h
  | cons kv rest ih =>
    obtain ⟨k, v⟩ := kv
    by_cases hk : k = p
    · simp [set, names, hk]
    · simp only [get?, hk, if_false] at h
      have := ih h
      simp only [names] at this
      simp [set, names, hk, this]

theorem names_append (fs : Fs) (t c : String) : names (fs ++ [(t, c)]) = names fs ++ [t] := by
  simp [names]

theorem get?_eq_none_iff_not_mem {fs : Fs} {p : String} : get? fs p = none ↔ p ∉ names fs := by
  induction fs with
  | nil => simp [get?, names]
  | cons kv rest ih =>
    obtain ⟨k, v⟩ := kv
    by_cases hk : k = p
    · simp [get?, names, hk]
    · simp only [names] at ih
      simp [get?, names, hk, ih, Ne.symm hk]

theorem get?_of_mem_nodup {fs : Fs} {p c : String} (hn : (names fs).Nodup) (hm : (p, c) ∈ fs) :
    get? fs p = some c := by
  induction fs with
  | nil => simp at hm
  | cons kv rest ih =>
    obtain ⟨k, v⟩ := kv
    simp only [names, List.map_cons, List.nodup_cons] at hn
    simp only [List.mem_cons, Prod.mk.injEq] at hm
    rcases hm with ⟨h1, h2⟩ | hm
    · simp [get?, h1, h2]
    · have hk : k ≠ p := by
        intro hk
        apply hn.1
        subst hk
        exact List.mem_map.mpr ⟨(k, c), hm, rfl⟩
      simp only [get?, hk, if_false]
      exact ih hn.2 hm

theorem contains_eq_true_iff {fs : Fs} {p : String} : contains fs p = true ↔ (get? fs p).isSome := by
  simp [contains]

end Fs
end Pypyr.FsRewrite
