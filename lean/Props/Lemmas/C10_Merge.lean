/-
  Helper lemmas for C10: association-list lookups, paths into nested dicts, the frame relation
  and its composition along the fold over the incoming items.
-/
import PypyrModel.Merge

namespace Pypyr.C10
open Pypyr Pypyr.Merge

/-! ### dictGet? / dictSet -/

theorem dictGet?_dictSet_eq (kvs : Pairs) (k v : Val) : dictGet? (dictSet kvs k v) k = some v := by
  induction kvs with
  | nil => simp [dictSet, dictGet?]
  | cons p rest ih =>
    obtain ⟨k', v'⟩ := p
    simp only [dictSet]
    by_cases h : k' = k
    · simp [h, dictGet?]
    · simp [h, dictGet?, ih]

theorem dictGet?_dictSet_ne (kvs : Pairs) (k v k2 : Val) (hne : k2 ≠ k) :
    dictGet? (dictSet kvs k v) k2 = dictGet? kvs k2 := by
  induction kvs with
  | nil =>
    have : ¬ k = k2 := fun e => hne e.symm
    simp [dictSet, dictGet?, this]
  | cons p rest ih =>
    obtain ⟨k', v'⟩ := p
    simp only [dictSet]
    by_cases h : k' = k
    · subst h
      have : ¬ k' = k2 := fun e => hne e.symm
      simp [dictGet?, this]
    · simp only [h, if_false, dictGet?, ih]

/-! ### paths -/

/-- The value at a path of keys, descending through dicts only. -/
def getIn : Val → List Val → Option Val
  | v, [] => some v
  | .dict kvs, k :: rest =>
    match dictGet? kvs k with
    | some v => getIn v rest
    | none => none
  | _, _ :: _ => none

/-- The value at a non-empty path below a dict with content `cur`. -/
def getPath (cur : Pairs) (p : List Val) : Option Val := getIn (.dict cur) p

theorem getPath_cons (cur : Pairs) (k : Val) (rest : List Val) :
    getPath cur (k :: rest) = (match dictGet? cur k with
      | some v => getIn v rest
      | none => none) := by
  simp [getPath, getIn]

theorem getPath_dictSet_ne (cur : Pairs) (fk x k : Val) (rest : List Val) (h : k ≠ fk) :
    getPath (dictSet cur fk x) (k :: rest) = getPath cur (k :: rest) := by
  simp only [getPath_cons, dictGet?_dictSet_ne cur fk x k h]

theorem getPath_dictSet_eq (cur : Pairs) (fk x : Val) (rest : List Val) :
    getPath (dictSet cur fk x) (fk :: rest) = getIn x rest := by
  simp only [getPath_cons, dictGet?_dictSet_eq]

def isDict : Val → Bool
  | .dict _ => true
  | _ => false

/-! ### the trace -/

/-- `p` is not touched by the trace `t`: it is not a path of the incoming tree (not a prefix of any
    visited path, hence not a visited path itself) and does not lie at or below a written path. -/
def Untouched (t : Trace) (p : List Val) : Prop :=
  ∀ w ∈ t, ¬ p <+: w.1 ∧ (w.2 = true → ¬ w.1 <+: p)

theorem Untouched.append {t1 t2 : Trace} {p : List Val} :
    Untouched (t1 ++ t2) p ↔ Untouched t1 p ∧ Untouched t2 p := by
  simp only [Untouched, List.mem_append]
  constructor
  · intro h; exact ⟨fun w hw => h w (Or.inl hw), fun w hw => h w (Or.inr hw)⟩
  · intro ⟨h1, h2⟩ w hw
    rcases hw with hw | hw
    · exact h1 w hw
    · exact h2 w hw

theorem Untouched.under {fk : Val} {t : Trace} {rest : List Val}
    (h : Untouched (under fk t) (fk :: rest)) : Untouched t rest := by
  intro w hw
  have := h (fk :: w.1, w.2) (by simp only [Merge.under, List.mem_map]; exact ⟨w, hw, rfl⟩)
  simp only [List.cons_prefix_cons, true_and] at this
  exact this

/-- Frame relation: every non-empty path not touched by the trace reads the same before and after. -/
def Frame (cur cur' : Pairs) (t : Trace) : Prop :=
  ∀ p, p ≠ [] → Untouched t p → getPath cur' p = getPath cur p

theorem Frame.refl (cur : Pairs) : Frame cur cur [] := fun _ _ _ => rfl

theorem Frame.trans {a b c : Pairs} {t1 t2 : Trace} (h1 : Frame a b t1) (h2 : Frame b c t2) :
    Frame a c (t1 ++ t2) := by
  intro p hp hu
  have ⟨u1, u2⟩ := Untouched.append.mp hu
  rw [h2 p hp u2, h1 p hp u1]

/-- A write at `[fk]` leaves every path that does not start with `fk` alone. -/
theorem Frame.write (cur : Pairs) (fk x : Val) : Frame cur (dictSet cur fk x) [([fk], true)] := by
  intro p hp hu
  cases p with
  | nil => exact absurd rfl hp
  | cons k rest =>
    have := hu ([fk], true) (by simp)
    have hk : k ≠ fk := by
      intro e
      subst e
      exact this.2 rfl (by simp)
    exact getPath_dictSet_ne cur fk x k rest hk

/-- Descending into the dict at `fk`: the frame of the sub-merge lifts. -/
theorem Frame.descend {cur csub csub' : Pairs} {fk : Val} {t : Trace}
    (hget : dictGet? cur fk = some (.dict csub)) (hsub : Frame csub csub' t) :
    Frame cur (dictSet cur fk (.dict csub')) (([fk], false) :: under fk t) := by
  intro p hp hu
  cases p with
  | nil => exact absurd rfl hp
  | cons k rest =>
    by_cases hk : k = fk
    · subst hk
      have h0 := hu ([k], false) (by simp)
      have hrest : rest ≠ [] := by
        intro e; subst e; exact h0.1 (List.prefix_refl _)
      have hu' : Untouched t rest := by
        apply Untouched.under (fk := k)
        intro w hw
        exact hu w (List.mem_cons_of_mem _ hw)
      rw [getPath_dictSet_eq, getPath_cons, hget]
      exact hsub rest hrest hu'
    · exact getPath_dictSet_ne cur fk _ k rest hk

/-! ### the fold -/

theorem foldItems_inv {step : Pairs → Val → Val → Except Exc (Pairs × Trace)}
    (R : Pairs → Pairs → Trace → Prop) (hrefl : ∀ c, R c c [])
    (htrans : ∀ a b c t1 t2, R a b t1 → R b c t2 → R a c (t1 ++ t2))
    (hstep : ∀ cur k v cur' t, step cur k v = .ok (cur', t) → R cur cur' t) :
    ∀ (add : Pairs) (cur cur' : Pairs) (t : Trace),
      foldItems step cur add = .ok (cur', t) → R cur cur' t
  | [], cur, cur', t, h => by simp only [foldItems] at h; cases h; exact hrefl cur
  | (k, v) :: rest, cur, cur', t, h => by
    simp only [foldItems] at h
    split at h
    · cases h
    · rename_i cur1 t1 h1
      split at h
      · cases h
      · rename_i cur2 t2 h2
        cases h
        exact htrans _ _ _ _ _ (hstep cur k v cur1 t1 h1)
          (foldItems_inv R hrefl htrans hstep rest cur1 _ _ h2)

end Pypyr.C10
