/-
  Helper lemmas for C10: association-list lookups, paths into nested dicts, the frame relation
  and its composition along the fold over the incoming items.
-/
import PypyrModel.Merge

namespace Pypyr.C10
open Pypyr Pypyr.Merge

/-! ### dictGet? / dictSet -/

theorem dictGet?_dictSet_eq (kvs : Pairs) (k v : Val) : dictGet? (dictSet kvs k v) k = some v := by
  induction kvs with
  | nil => simp [dictSet, dictGet?]
  | cons p rest ih =>
    obtain ⟨k', v'⟩ := p
    simp only [dictSet]
    by_cases h : k' = k
    · simp [h, dictGet?]
    · simp [h, dictGet?, ih]

theorem dictGet?_dictSet_ne (kvs : Pairs) (k v k2 : Val) (hne : k2 ≠ k) :
    dictGet? (dictSet kvs k v) k2 = dictGet? kvs k2 := by
  induction kvs with
  | nil =>
    have : ¬ k = k2 := fun e => hne e.symm
    simp [dictSet, dictGet?, this]
  | cons p rest ih =>
    obtain ⟨k', v'⟩ := p
    simp only [dictSet]
    by_cases h : k' = k
    · subst h
      have : ¬ k' = k2 := fun e => hne e.symm
      simp [dictGet?, this]
    · simp only [h, if_false, dictGet?, ih]

/-! ### paths -/

/-- The value at a path of keys, descending through dicts only. -/
def getIn : Val → List Val → Option Val
  | v, [] => some v
  | .dict kvs, k :: rest =>
    match dictGet? kvs k with
    | some v => getIn v rest
    | none => none
  | _, _ :: _ => none

/-- The value at a non-empty path below a dict with content `cur`. -/
def getPath (cur : Pairs) (p : List Val) : Option Val := getIn (.dict cur) p

theorem getPath_cons (cur : Pairs) (k : Val) (rest : List Val) :
    getPath cur (k :: rest) = (match dictGet? cur k with
      | some v => getIn v rest
      | none => none) := by
  simp [getPath, getIn]

theorem getPath_dictSet_ne (cur : Pairs) (fk x k : Val) (rest : List Val) (h : k ≠ fk) :
    getPath (dictSet cur fk x) (k :: rest) = getPath cur (k :: rest) := by
  simp only [getPath_cons, dictGet?_dictSet_ne cur fk x k h]

theorem getPath_dictSet_eq (cur : Pairs) (fk x : Val) (rest : List Val) :
    getPath (dictSet cur fk x) (fk :: rest) = getIn x rest := by
  simp only [getPath_cons, dictGet?_dictSet_eq]

def isDict : Val → Bool
  | .dict _ => true
  | _ => false

/-! ### the trace -/

/-- `p` is not touched by the trace `t`: it is not a path of the incoming tree (not a prefix of any
    visited path, hence not a visited path itself) and does not lie at or below a written path. -/
def Untouched (t : Trace) (p : List Val) : Prop :=
  ∀ w ∈ t, ¬ p <+: w.1 ∧ (w.2 = true → ¬ w.1 <+: p)

theorem Untouched.append {t1 t2 : Trace} {p : List Val} :
    Untouched (t1 ++ t2) p ↔ Untouched t1 p ∧ Untouched t2 p := by
  simp only [Untouched, List.mem_append]
  constructor
  · intro h; exact ⟨fun w hw => h w (Or.inl hw), fun w hw => h w (Or.inr hw)⟩
  · intro ⟨h1, h2⟩ w hw
    rcases hw with hw | hw
    · exact h1 w hw
    · exact h2 w hw

theorem Untouched.under {fk : Val} {t : Trace} {rest : List Val}
    (h : Untouched (under fk t) (fk :: rest)) : Untouched t rest := by
  intro w hw
  have := h (fk :: w.1, w.2) (by simp only [Merge.under, List.mem_map]; exact ⟨w, hw, rfl⟩)
  simp only [List.cons_prefix_cons, true_and] at this
  exact this

/-- Frame relation: every non-empty path not touched by the trace reads the same before and after. -/
def Frame (cur cur' : Pairs) (t : Trace) : Prop :=
  ∀ p, p ≠ [] → Untouched t p → getPath cur' p = getPath cur p

theorem Frame.refl (cur : Pairs) : Frame cur cur [] := fun _ _ _ => rfl

theorem Frame.trans {a b c : Pairs} {t1 t2 : Trace} (h1 : Frame a b t1) (h2 : Frame b c t2) :
    Frame a c (t1 ++ t2) := by
  intro p hp hu
  have ⟨u1, u2⟩ := Untouched.append.mp hu
  rw [h2 p hp u2, h1 p hp u1]

/-- A write at `[fk]` leaves every path that does not start with `fk` alone. -/
theorem Frame.write (cur : Pairs) (fk x : Val) : Frame cur (dictSet cur fk x) [([fk], true)] := by
  intro p hp hu
  cases p with
  | nil => exact absurd rfl hp
  | cons k rest =>
    have := hu ([fk], true) (by simp)
    have hk : k ≠ fk := by
      intro e
      subst e
      exact this.2 rfl (by simp)
    exact getPath_dictSet_ne cur fk x k rest hk

/-- Descending into the dict at `fk`: the frame of the sub-merge lifts. -/
theorem Frame.descend {cur csub csub' : Pairs} {fk : Val} {t : Trace}
    (hget : dictGet? cur fk = some (.dict csub)) (hsub : Frame csub csub' t) :
    Frame cur (dictSet cur fk (.dict csub')) (([fk], false) :: under fk t) := by
  intro p hp hu
  cases p with
  | nil => exact absurd rfl hp
  | cons k rest =>
    by_cases hk : k = fk
    · subst hk
      have h0 := hu ([k], false) (by simp)
      have hrest : rest ≠ [] := by
        intro e; subst e; exact h0.1 (List.prefix_refl _)
      have hu' : Untouched t rest := by
        apply Untouched.under (fk := k)
        intro w hw
        exact hu w (List.mem_cons_of_mem _ hw)
      rw [getPath_dictSet_eq, getPath_cons, hget]
      exact hsub rest hrest hu'
    · exact getPath_dictSet_ne cur fk _ k rest hk

/-! ### the fold -/

theorem foldItems_inv {step : Pairs → Val → Val → Except Exc (Pairs × Trace)}
    (R : Pairs → Pairs → Trace → Prop) (hrefl : ∀ c, R c c [])
    (htrans : ∀ a b c t1 t2, R a b t1 → R b c t2 → R a c (t1 ++ t2))
    (hstep : ∀ cur k v cur' t, step cur k v = .ok (cur', t) → R cur cur' t) :
    ∀ (add : Pairs) (cur cur' : Pairs) (t : Trace),
      foldItems step cur add = .ok (cur', t) → R cur cur' t
  | [], cur, cur', t, h => by simp only [foldItems] at h; cases h; exact hrefl cur
  | (k, v) :: rest, cur, cur', t, h => by
    simp only [foldItems] at h
    split at h
    · cases h
    · rename_i cur1 t1 h1
      split at h
      · cases h
      · rename_i cur2 t2 h2
        cases h
        exact htrans _ _ _ _ _ (hstep cur k v cur1 t1 h1)
          (foldItems_inv R hrefl htrans hstep rest cur1 _ _ h2)

/-! ### the frame of one merge item, of `mergeRec`, of one defaults item, of `defaultsRec` -/

theorem mergeItem_frame {fmt : Fmt}
    {recur : (Pairs → Pairs) → Pairs → Pairs → Except Exc (Pairs × Trace)}
    (hrec : ∀ rb c a c' t, recur rb c a = .ok (c', t) → Frame c c' t)
    (rebuild : Pairs → Pairs) (cur : Pairs) (k v : Val) (cur' : Pairs) (t : Trace)
    (h : mergeItem fmt recur rebuild cur k v = .ok (cur', t)) : Frame cur cur' t := by
  unfold mergeItem at h
  simp only [] at h
  repeat' split at h
  all_goals first
    | (cases h; done)
    | (cases h; exact Frame.write _ _ _)
    | (cases h; exact Frame.descend ‹_› (hrec _ _ _ _ _ ‹_›))

theorem mergeRec_frame (fmt : Fmt) : ∀ (fuel : Nat) (rebuild : Pairs → Pairs) (cur add cur' : Pairs) (t : Trace),
    mergeRec fmt fuel rebuild cur add = .ok (cur', t) → Frame cur cur' t := by
  intro fuel
  induction fuel with
  | zero => intro rebuild cur add cur' t h; simp [mergeRec] at h
  | succ n ih =>
    intro rebuild cur add cur' t h
    simp only [mergeRec] at h
    exact foldItems_inv Frame Frame.refl (fun _ _ _ _ _ => Frame.trans)
      (fun c k v c' t' hs => mergeItem_frame (fun rb c a c' t h => ih rb c a c' t h) rebuild c k v c' t' hs)
      add cur cur' t h

theorem defaultsItem_frame {fmt : Fmt}
    {recur : (Pairs → Pairs) → Pairs → Pairs → Except Exc (Pairs × Trace)}
    (hrec : ∀ rb c a c' t, recur rb c a = .ok (c', t) → Frame c c' t)
    (rebuild : Pairs → Pairs) (cur : Pairs) (k v : Val) (cur' : Pairs) (t : Trace)
    (h : defaultsItem fmt recur rebuild cur k v = .ok (cur', t)) : Frame cur cur' t := by
  unfold defaultsItem at h
  simp only [] at h
  repeat' split at h
  all_goals first
    | (cases h; done)
    | (cases h; exact Frame.refl _)
    | (cases h; exact Frame.write _ _ _)
    | (cases h; exact Frame.descend ‹_› (hrec _ _ _ _ _ ‹_›))

theorem defaultsRec_frame (fmt : Fmt) : ∀ (fuel : Nat) (rebuild : Pairs → Pairs) (cur add cur' : Pairs) (t : Trace),
    defaultsRec fmt fuel rebuild cur add = .ok (cur', t) → Frame cur cur' t := by
  intro fuel
  induction fuel with
  | zero => intro rebuild cur add cur' t h; simp [defaultsRec] at h
  | succ n ih =>
    intro rebuild cur add cur' t h
    simp only [defaultsRec] at h
    exact foldItems_inv Frame Frame.refl (fun _ _ _ _ _ => Frame.trans)
      (fun c k v c' t' hs => defaultsItem_frame (fun rb c a c' t h => ih rb c a c' t h) rebuild c k v c' t' hs)
      add cur cur' t h

/-! ### defaults: existing paths keep their value; exactly the missing named paths are added -/

/-- `Keeps cur cur'`: every existing (non-empty) path still exists; if its value is not a mapping
    it is the SAME value (also when it is `none`), if it is a mapping it is still a mapping. -/
def Keeps (cur cur' : Pairs) : Prop :=
  ∀ p x, p ≠ [] → getPath cur p = some x →
    ∃ x', getPath cur' p = some x' ∧ (isDict x = false → x' = x) ∧ (isDict x = true → isDict x' = true)

theorem Keeps.refl (cur : Pairs) : Keeps cur cur := fun _ x _ h => ⟨x, h, fun _ => rfl, id⟩

theorem Keeps.trans {a b c : Pairs} (h1 : Keeps a b) (h2 : Keeps b c) : Keeps a c := by
  intro p x hp hx
  obtain ⟨x1, hx1, k1, d1⟩ := h1 p x hp hx
  obtain ⟨x2, hx2, k2, d2⟩ := h2 p x1 hp hx1
  refine ⟨x2, hx2, ?_, fun hd => d2 (d1 hd)⟩
  intro hnd
  have e1 := k1 hnd
  subst e1
  exact k2 hnd

theorem Keeps.of_eq {cur cur' : Pairs} (h : ∀ p, p ≠ [] → getPath cur p ≠ none → getPath cur' p = getPath cur p) :
    Keeps cur cur' := by
  intro p x hp hx
  exact ⟨x, by rw [h p hp (by rw [hx]; simp), hx], fun _ => rfl, id⟩

/-- Adding a key that was absent keeps everything. -/
theorem Keeps.add {cur : Pairs} {fk x : Val} (habs : dictGet? cur fk = none) :
    Keeps cur (dictSet cur fk x) := by
  apply Keeps.of_eq
  intro p hp hne
  cases p with
  | nil => exact absurd rfl hp
  | cons k rest =>
    have hk : k ≠ fk := by
      intro e; subst e
      rw [getPath_cons, habs] at hne; exact hne rfl
    exact getPath_dictSet_ne cur fk x k rest hk

theorem Keeps.descend {cur csub csub' : Pairs} {fk : Val}
    (hget : dictGet? cur fk = some (.dict csub)) (hsub : Keeps csub csub') :
    Keeps cur (dictSet cur fk (.dict csub')) := by
  intro p x hp hx
  cases p with
  | nil => exact absurd rfl hp
  | cons k rest =>
    by_cases hk : k = fk
    · subst hk
      rw [getPath_cons, hget] at hx
      rw [getPath_dictSet_eq]
      cases rest with
      | nil =>
        simp only [getIn] at hx ⊢
        cases hx
        exact ⟨_, rfl, by simp [isDict], fun _ => by simp [isDict]⟩
      | cons k2 rest2 => exact hsub (k2 :: rest2) x (by simp) hx
    · rw [getPath_dictSet_ne cur fk _ k rest hk]
      exact ⟨x, hx, fun _ => rfl, id⟩

/-- `Adds cur cur' t`: (1) whatever exists afterwards and did not exist before lies at or below a
    written path of the trace; (2) every written path of the trace did not exist before and
    exists afterwards. -/
def Adds (cur cur' : Pairs) (t : Trace) : Prop :=
  (∀ p, p ≠ [] → getPath cur p = none → getPath cur' p ≠ none → ∃ w ∈ t, w.2 = true ∧ w.1 <+: p) ∧
  (∀ w ∈ t, w.2 = true → getPath cur w.1 = none ∧ getPath cur' w.1 ≠ none)

/-- Everything the defaults bundle needs along the fold. -/
structure DefaultsOK (cur cur' : Pairs) (t : Trace) : Prop where
  keeps : Keeps cur cur'
  adds : Adds cur cur' t
  nonempty : ∀ w ∈ t, w.1 ≠ []

theorem Keeps.mono {a b : Pairs} (h : Keeps a b) {p : List Val} (hp : p ≠ [])
    (hne : getPath a p ≠ none) : getPath b p ≠ none := by
  cases hx : getPath a p with
  | none => exact absurd hx hne
  | some x =>
    obtain ⟨x', hx', _⟩ := h p x hp hx
    rw [hx']; simp

theorem DefaultsOK.refl (cur : Pairs) : DefaultsOK cur cur [] :=
  ⟨Keeps.refl cur, ⟨fun _ _ h1 h2 => absurd h1 h2, fun _ hw => by simp at hw⟩, fun _ hw => by simp at hw⟩

theorem DefaultsOK.trans {a b c : Pairs} {t1 t2 : Trace} (h1 : DefaultsOK a b t1) (h2 : DefaultsOK b c t2) :
    DefaultsOK a c (t1 ++ t2) := by
  refine ⟨h1.keeps.trans h2.keeps, ⟨?_, ?_⟩, ?_⟩
  · intro p hp ha hc
    by_cases hb : getPath b p = none
    · obtain ⟨w, hw, h⟩ := h2.adds.1 p hp hb hc
      exact ⟨w, List.mem_append.mpr (Or.inr hw), h⟩
    · obtain ⟨w, hw, h⟩ := h1.adds.1 p hp ha hb
      exact ⟨w, List.mem_append.mpr (Or.inl hw), h⟩
  · intro w hw hwt
    rcases List.mem_append.mp hw with hw | hw
    · have ⟨hn, hs⟩ := h1.adds.2 w hw hwt
      exact ⟨hn, h2.keeps.mono (h1.nonempty w hw) hs⟩
    · have ⟨hn, hs⟩ := h2.adds.2 w hw hwt
      refine ⟨?_, hs⟩
      cases ha : getPath a w.1 with
      | none => rfl
      | some x =>
        have := h1.keeps.mono (h2.nonempty w hw) (by rw [ha]; simp)
        exact absurd hn this
  · intro w hw
    rcases List.mem_append.mp hw with hw | hw
    · exact h1.nonempty w hw
    · exact h2.nonempty w hw

theorem DefaultsOK.add {cur : Pairs} {fk x : Val} (habs : dictGet? cur fk = none) :
    DefaultsOK cur (dictSet cur fk x) [([fk], true)] := by
  refine ⟨Keeps.add habs, ⟨?_, ?_⟩, ?_⟩
  · intro p hp ha hc
    cases p with
    | nil => exact absurd rfl hp
    | cons k rest =>
      by_cases hk : k = fk
      · subst hk; exact ⟨([k], true), by simp, rfl, by simp⟩
      · rw [getPath_dictSet_ne cur fk x k rest hk] at hc; exact absurd ha hc
  · intro w hw _
    simp only [List.mem_singleton] at hw
    subst hw
    refine ⟨by simp [getPath_cons, habs], ?_⟩
    rw [getPath_dictSet_eq]; simp [getIn]
  · intro w hw; simp only [List.mem_singleton] at hw; subst hw; simp

theorem DefaultsOK.descend {cur csub csub' : Pairs} {fk : Val} {t : Trace}
    (hget : dictGet? cur fk = some (.dict csub)) (hsub : DefaultsOK csub csub' t) :
    DefaultsOK cur (dictSet cur fk (.dict csub')) (([fk], false) :: under fk t) := by
  refine ⟨Keeps.descend hget hsub.keeps, ⟨?_, ?_⟩, ?_⟩
  · intro p hp ha hc
    cases p with
    | nil => exact absurd rfl hp
    | cons k rest =>
      by_cases hk : k = fk
      · subst hk
        rw [getPath_cons, hget] at ha
        rw [getPath_dictSet_eq] at hc
        cases rest with
        | nil => simp [getIn] at ha
        | cons k2 rest2 =>
          obtain ⟨w, hw, hwt, hpre⟩ := hsub.adds.1 (k2 :: rest2) (by simp) ha hc
          refine ⟨(k :: w.1, w.2), ?_, hwt, by simpa using hpre⟩
          apply List.mem_cons_of_mem
          simp only [Merge.under, List.mem_map]
          exact ⟨w, hw, rfl⟩
      · rw [getPath_dictSet_ne cur fk _ k rest hk] at hc; exact absurd ha hc
  · intro w hw hwt
    rcases List.mem_cons.mp hw with e | hw
    · subst e; cases hwt
    · simp only [Merge.under, List.mem_map] at hw
      obtain ⟨w', hw', rfl⟩ := hw
      have ⟨hn, hs⟩ := hsub.adds.2 w' hw' hwt
      have hne := hsub.nonempty w' hw'
      constructor
      · show getPath cur (fk :: w'.1) = none
        rw [getPath_cons, hget]
        exact hn
      · show getPath (dictSet cur fk (.dict csub')) (fk :: w'.1) ≠ none
        rw [getPath_dictSet_eq]
        exact hs
  · intro w hw
    rcases List.mem_cons.mp hw with e | hw
    · subst e; simp
    · simp only [Merge.under, List.mem_map] at hw
      obtain ⟨w', _, rfl⟩ := hw
      simp

theorem defaultsItem_ok {fmt : Fmt}
    {recur : (Pairs → Pairs) → Pairs → Pairs → Except Exc (Pairs × Trace)}
    (hrec : ∀ rb c a c' t, recur rb c a = .ok (c', t) → DefaultsOK c c' t)
    (rebuild : Pairs → Pairs) (cur : Pairs) (k v : Val) (cur' : Pairs) (t : Trace)
    (h : defaultsItem fmt recur rebuild cur k v = .ok (cur', t)) : DefaultsOK cur cur' t := by
  unfold defaultsItem at h
  simp only [] at h
  repeat' split at h
  all_goals first
    | (cases h; done)
    | (cases h; exact DefaultsOK.refl _)
    | (cases h; exact DefaultsOK.add ‹_›)
    | (cases h; exact DefaultsOK.descend ‹_› (hrec _ _ _ _ _ ‹_›))

theorem defaultsRec_ok (fmt : Fmt) : ∀ (fuel : Nat) (rebuild : Pairs → Pairs) (cur add cur' : Pairs) (t : Trace),
    defaultsRec fmt fuel rebuild cur add = .ok (cur', t) → DefaultsOK cur cur' t := by
  intro fuel
  induction fuel with
  | zero => intro rebuild cur add cur' t h; simp [defaultsRec] at h
  | succ n ih =>
    intro rebuild cur add cur' t h
    simp only [defaultsRec] at h
    exact foldItems_inv DefaultsOK DefaultsOK.refl (fun _ _ _ _ _ => DefaultsOK.trans)
      (fun c k v c' t' hs => defaultsItem_ok (fun rb c a c' t h => ih rb c a c' t h) rebuild c k v c' t' hs)
      add cur cur' t h

/-! ### trace paths are never empty -/

def TraceNE (t : Trace) : Prop := ∀ w ∈ t, w.1 ≠ []

theorem TraceNE.single (fk : Val) (b : Bool) : TraceNE [([fk], b)] := by
  intro w hw; simp only [List.mem_singleton] at hw; subst hw; simp

theorem TraceNE.descend (fk : Val) (t : Trace) : TraceNE (([fk], false) :: under fk t) := by
  intro w hw
  rcases List.mem_cons.mp hw with e | hw
  · subst e; simp
  · simp only [Merge.under, List.mem_map] at hw
    obtain ⟨w', _, rfl⟩ := hw
    simp

theorem TraceNE.append {t1 t2 : Trace} (h1 : TraceNE t1) (h2 : TraceNE t2) : TraceNE (t1 ++ t2) := by
  intro w hw
  rcases List.mem_append.mp hw with h | h
  · exact h1 w h
  · exact h2 w h

theorem mergeItem_trace_ne {fmt : Fmt}
    {recur : (Pairs → Pairs) → Pairs → Pairs → Except Exc (Pairs × Trace)}
    (rebuild : Pairs → Pairs) (cur : Pairs) (k v : Val) (cur' : Pairs) (t : Trace)
    (h : mergeItem fmt recur rebuild cur k v = .ok (cur', t)) : TraceNE t := by
  unfold mergeItem at h
  simp only [] at h
  repeat' split at h
  all_goals first
    | (cases h; done)
    | (cases h; exact TraceNE.single _ _)
    | (cases h; exact TraceNE.descend _ _)

theorem mergeRec_trace_ne (fmt : Fmt) (fuel : Nat) (rebuild : Pairs → Pairs) (cur add cur' : Pairs) (t : Trace)
    (h : mergeRec fmt fuel rebuild cur add = .ok (cur', t)) : TraceNE t := by
  cases fuel with
  | zero => simp [mergeRec] at h
  | succ n =>
    simp only [mergeRec] at h
    exact foldItems_inv (fun _ _ t => TraceNE t) (fun _ => by intro w hw; simp at hw)
      (fun _ _ _ _ _ => TraceNE.append)
      (fun c k v c' t' hs => mergeItem_trace_ne rebuild c k v c' t' hs) add cur cur' t h

end Pypyr.C10
