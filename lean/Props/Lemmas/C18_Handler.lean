/-
  Lemmas for C18: the failure handler `_run_pipeline` runs when the context parser raises
  (Cli.lean §6), tied to the flow model's defaulting rule; parser results are new objects (§7).
-/
import PypyrModel.Cli
import PypyrModel.Flow.Runner

namespace Pypyr.Cli

/-- `GroupArgs` as the flow model's pipeline instance -/
def GroupArgs.toInst (g : GroupArgs) (name : String) : Pypyr.Flow.PipeInst :=
  { name := name, groups := g.groups, success := g.success, failure := g.failure }

/-- the defaulting rule of this file is the flow model's (`Flow.effectiveGroups`, C01) -/
theorem effectiveArgs_eq_flow (g : GroupArgs) (name : String) :
    effectiveArgs g = Pypyr.Flow.effectiveGroups (g.toInst name) := by
  obtain ⟨groups, success, failure⟩ := g
  unfold effectiveArgs Pypyr.Flow.effectiveGroups GroupArgs.toInst groupsTruthy strTruthy
  rcases groups with _ | ⟨_ | ⟨x, xs⟩⟩ <;> first | rfl | (simp; done) | (simp; split <;> simp_all) | (simp; congr)

theorem failureHandler_closed (g : GroupArgs) :
    failureHandler g =
      if groupsTruthy g.groups || strTruthy g.success || strTruthy g.failure then g.failure else some "on_failure" := by
  unfold failureHandler effectiveArgs
  by_cases hg : groupsTruthy g.groups = true
  · simp [hg]
  · by_cases hs : strTruthy g.success = true
    · simp [hg, hs]
    · by_cases hf : strTruthy g.failure = true
      · simp [hg, hs, hf]
      · simp [hg, hs, hf]

theorem parserFailed_status (ty msg : String) (h : HandlerEnd) :
    exitStatus (parserFailed (.error ty msg) h) =
      if h = .stop ∨ h = .stopPipeline then some 0 else some 255 := by
  cases h <;> rfl

/-! ### parser calls in one process -/

/-- with every result built anew, in-place mutations never reach a later call: the state the calls
    depend on (`shared`) stays what it was -/
theorem runPOps_fresh (loads : String → Except Exc Val) (src : Parser → List String → Src)
    (hsrc : ∀ p a, src p a = .fresh) :
    ∀ (ops : List POp) (st : ParserProc),
      runPOps loads src st ops =
        ops.filterMap (fun o => match o with
          | .call p args => some (parse loads p args)
          | .mutate _ _ => none) := by
  intro ops
  induction ops with
  | nil => intro st; simp [runPOps]
  | cons o rest ih =>
    intro st
    cases o with
    | call p args =>
      unfold runPOps
      cases hp : parse loads p args with
      | error e => simp [ih, hp]
      | ok v => simp [hsrc, ih, hp]
    | mutate i v =>
      unfold runPOps
      cases hi : st.objs[i]? with
      | none => simp [ih]
      | some o =>
        obtain ⟨s, c⟩ := o
        cases s with
        | fresh => simp [ih]
        | cell k => simp [ih]

end Pypyr.Cli
