/-
  C08 helper lemmas about replacement fields nested in a format spec: the base class `_vformat`
  (`vfmt` / `vLoop`, code-shaped: numbering state threaded, accumulator, recursion depth counted)
  computes the documentation-shaped `Spec.expandSpec` whenever the numbering state is `some 0` —
  which it is for every top-level expression with a name, and which it stays, because an empty or
  all-digit name inside a spec refers to positional arguments and formatting with a context has none.
-/
import Props.Lemmas.C08_Parse

set_option linter.unusedSimpArgs false

namespace Pypyr.Format

/-- A field name that is neither empty (auto-numbered) nor all digits (positional). -/
def Named (name : List Char) : Prop := name ≠ [] ∧ isDigitStr name = false

instance (n : List Char) : Decidable (Named n) := by unfold Named; exact inferInstance

theorem autoNumber_named (name : List Char) (auto : Option Nat) (h : Named name) :
    autoNumber name auto = .ok (name, auto) := by
  unfold autoNumber; simp [h.1, h.2]

theorem parseTuples_plain (cs : List Char) (h : NoBrace cs) :
    parseTuples cs = (if cs = [] then [] else [⟨cs, none⟩], none) := by
  unfold parseTuples
  rw [run_lit_plain _ _ _ h]; simp [finish]

/-- the base class leaves a spec without nested fields as it is -/
theorem vfmt_plain (d : Nat) (ctx : Ctx) (cs : List Char) (auto : Option Nat) (h : NoBrace cs) :
    vfmt (d + 1) ctx cs auto = .ok (cs, auto) := by
  unfold vfmt
  rw [parseTuples_plain cs h]
  by_cases hc : cs = []
  · subst hc; simp [vLoop]
  · simp [hc, vLoop]

/-! ## positional names never resolve (args is None) -/

theorem isAsciiDigit_not_sep (c : Char) (h : isAsciiDigit c = true) : c ≠ '[' ∧ c ≠ '.' := by
  constructor <;> (intro hc; subst hc; revert h; decide)

theorem foldl_sstep_first (acc cs : List Char) (h : ∀ c ∈ cs, c ≠ '[' ∧ c ≠ '.') :
    cs.foldl sstep (.first acc) = .first (acc ++ cs) := by
  induction cs generalizing acc with
  | nil => simp
  | cons c cs ih =>
    have hc := h c (by simp)
    simp only [List.foldl_cons]
    have : sstep (.first acc) c = .first (acc ++ [c]) := by simp [sstep, hc.1, hc.2]
    rw [this, ih _ (fun d hd => h d (by simp [hd]))]; simp

theorem getIntegerGo_digits (cs : List Char) (acc : Nat) (h : cs.all isAsciiDigit = true) :
    (∃ e, getIntegerGo cs acc = .error e) ∨ (∃ n, getIntegerGo cs acc = .ok (some n)) := by
  induction cs generalizing acc with
  | nil => exact .inr ⟨acc, rfl⟩
  | cons c cs ih =>
    simp only [List.all_cons, Bool.and_eq_true] at h
    unfold getIntegerGo
    simp only [h.1, if_true]
    split
    · exact .inl ⟨_, rfl⟩
    · exact ih _ h.2

/-- `get_field` on an all-digit name fails, whatever the context: the name is an index into `args`,
    and `args` is `None` (or the index overflows `Py_ssize_t`). -/
theorem getField_digits (ctx : Ctx) (name : List Char) (h : isDigitStr name = true) :
    ∃ e, getField ctx name = .error e := by
  unfold isDigitStr at h
  simp only [Bool.and_eq_true, Bool.not_eq_true', List.isEmpty_eq_false_iff] at h
  obtain ⟨hne, hall⟩ := h
  unfold getField
  split
  · exact ⟨_, rfl⟩
  · have hsep : ∀ c ∈ name, c ≠ '[' ∧ c ≠ '.' := fun c hc =>
      isAsciiDigit_not_sep c (List.all_eq_true.mp hall c hc)
    have hraw : splitRaw name = (name, [], none) := by
      unfold splitRaw
      rw [foldl_sstep_first [] name hsep]; simp [sfinish]
    unfold splitField
    simp only [hraw]
    unfold keyOf getInteger
    simp only [hne, if_false]
    rcases getIntegerGo_digits name 0 hall with ⟨e, he⟩ | ⟨n, hn⟩
    · simp only [he]; exact ⟨_, rfl⟩
    · simp only [hn, getValue]; exact ⟨_, rfl⟩

/-! ## `vLoop` / `vfmt` against `Spec.expandParts` / `Spec.expandText` -/

theorem expandParts_lit (ctx : Ctx) (inner : List Char → Except Exc (List Char)) (lit : List Char) (ps : List Part) :
    Spec.expandParts ctx inner (Tup.parts ⟨lit, none⟩ ++ ps) =
      (match Spec.expandParts ctx inner ps with
       | .error e => .error e
       | .ok r => .ok (lit ++ r)) := by
  by_cases hl : lit = []
  · subst hl
    simp only [Tup.parts, if_true, List.nil_append]
    cases Spec.expandParts ctx inner ps <;> rfl
  · simp only [Tup.parts, hl, if_false, List.append_nil, List.cons_append, List.nil_append, Spec.expandParts,
      bind, Except.bind, pure, Except.pure]
    cases Spec.expandParts ctx inner ps <;> rfl

theorem expandParts_fld (ctx : Ctx) (inner : List Char → Except Exc (List Char)) (lit : List Char) (f : FieldT)
    (ps : List Part) :
    Spec.expandParts ctx inner (Tup.parts ⟨lit, some f⟩ ++ ps) =
      (match Spec.nestedField ctx inner f with
       | .error e => .error e
       | .ok x => match Spec.expandParts ctx inner ps with
         | .error e => .error e
         | .ok r => .ok (lit ++ x ++ r)) := by
  by_cases hl : lit = []
  · subst hl
    simp only [Tup.parts, if_true, List.nil_append, List.cons_append, Spec.expandParts,
      bind, Except.bind, pure, Except.pure]
    cases Spec.nestedField ctx inner f with
    | error e => rfl
    | ok x => simp only []; cases Spec.expandParts ctx inner ps <;> rfl
  · simp only [Tup.parts, hl, if_false, List.cons_append, List.nil_append, Spec.expandParts,
      bind, Except.bind, pure, Except.pure]
    cases Spec.nestedField ctx inner f with
    | error e => rfl
    | ok x =>
      simp only []
      cases Spec.expandParts ctx inner ps with
      | error e => rfl
      | ok r => simp [List.append_assoc]

/-- **The loop of `_vformat` computes the documented expansion**, for any `recur` that computes
    `inner` and keeps the numbering state `some 0`; the state stays `some 0`. -/
theorem vLoop_expand (recur : List Char → Option Nat → Except Exc (List Char × Option Nat))
    (inner : List Char → Except Exc (List Char)) (ctx : Ctx)
    (hrec : ∀ s, recur s (some 0) =
      (match inner s with
       | .error e => .error e
       | .ok t => .ok (t, some 0)))
    (ts : List Tup) (perr : Option Exc) (acc : List Char) :
    vLoop recur ctx ts perr (some 0) acc =
      (match Spec.expandParts ctx inner (parts ts) with
       | .error e => .error e
       | .ok t => match perr with
         | some e => .error e
         | none => .ok (acc ++ t, some 0)) := by
  induction ts generalizing acc with
  | nil => cases perr <;> simp [vLoop, parts, Spec.expandParts, pure, Except.pure]
  | cons t ts ih =>
    obtain ⟨lit, fld⟩ := t
    unfold vLoop
    simp only [parts]
    cases fld with
    | none =>
      simp only []
      rw [ih, expandParts_lit]
      cases Spec.expandParts ctx inner (parts ts) with
      | error e => rfl
      | ok r => cases perr <;> simp [List.append_assoc]
    | some f =>
      simp only []
      rw [expandParts_fld]
      unfold Spec.nestedField
      simp only [bind, Except.bind, pure, Except.pure]
      by_cases hn : f.name = []
      · -- `{}`: positional argument 0
        have ha : autoNumber [] (some 0) = .ok (['0'], some 1) := by rfl
        obtain ⟨e, he⟩ := getField_digits ctx ['0'] (by decide)
        simp only [hn, ha, if_true, he]
      · by_cases hd : isDigitStr f.name = true
        · have ha : autoNumber f.name (some 0) = .ok (f.name, none) := by
            unfold autoNumber; simp [hn, hd]
          obtain ⟨e, he⟩ := getField_digits ctx f.name hd
          simp only [ha, hn, if_false, he]
        · have hnamed : Named f.name := ⟨hn, by simpa using hd⟩
          simp only [autoNumber_named _ _ hnamed, hn, if_false]
          cases getField ctx f.name with
          | error e => rfl
          | ok obj =>
            simp only []
            cases convertField obj f.conv with
            | error e => rfl
            | ok obj1 =>
              simp only [hrec]
              cases inner f.spec with
              | error e => rfl
              | ok spec =>
                simp only []
                cases formatField obj1 spec with
                | error e => rfl
                | ok txt =>
                  simp only []
                  rw [ih]
                  cases Spec.expandParts ctx inner (parts ts) with
                  | error e => rfl
                  | ok r => cases perr <;> simp [List.append_assoc]

/-- one level of `_vformat` is one level of `Spec.expandText` -/
theorem vfmt_succ_expand (d : Nat) (ctx : Ctx) (inner : List Char → Except Exc (List Char))
    (hrec : ∀ s, vfmt d ctx s (some 0) =
      (match inner s with
       | .error e => .error e
       | .ok t => .ok (t, some 0)))
    (s : List Char) :
    vfmt (d + 1) ctx s (some 0) =
      (match Spec.expandText ctx inner s with
       | .error e => .error e
       | .ok t => .ok (t, some 0)) := by
  unfold vfmt
  simp only []
  rw [vLoop_expand (vfmt d ctx) inner ctx hrec]
  unfold Spec.expandText
  simp only [bind, Except.bind, pure, Except.pure, throw, throwThe, MonadExceptOf.throw]
  cases Spec.expandParts ctx inner (parts (parseTuples s).1) with
  | error e => rfl
  | ok t => cases (parseTuples s).2 <;> simp

/-- **`_format_keep_type`'s call of the base class on a format spec** (`recursion_depth - 1 = 1`, the
    numbering state of a string whose expressions so far all had names) **is `Spec.expandSpec`**, and
    the numbering state comes back unchanged. -/
theorem vfmt2_expandSpec (ctx : Ctx) (spec : List Char) :
    vfmt 2 ctx spec (some 0) =
      (match Spec.expandSpec ctx spec with
       | .error e => .error e
       | .ok t => .ok (t, some 0)) := by
  unfold Spec.expandSpec
  apply vfmt_succ_expand
  intro s
  apply vfmt_succ_expand
  intro s'
  rfl

/-- a spec without braces is its own expansion -/
theorem expandSpec_plain (ctx : Ctx) (spec : List Char) (h : NoBrace spec) : Spec.expandSpec ctx spec = .ok spec := by
  have h1 := vfmt2_expandSpec ctx spec
  rw [vfmt_plain 1 ctx spec (some 0) h] at h1
  cases he : Spec.expandSpec ctx spec with
  | error e => rw [he] at h1; cases h1
  | ok t => rw [he] at h1; simp only [Except.ok.injEq, Prod.mk.injEq] at h1; rw [h1.1]

theorem expandText_eq (ctx : Ctx) (inner : List Char → Except Exc (List Char)) (s : List Char) :
    Spec.expandText ctx inner s =
      (match Spec.expandParts ctx inner (parts (parseTuples s).1) with
       | .error e => .error e
       | .ok t => match (parseTuples s).2 with
         | some e => .error e
         | none => .ok t) := by
  unfold Spec.expandText
  simp only [bind, Except.bind, pure, Except.pure, throw, throwThe, MonadExceptOf.throw]
  cases Spec.expandParts ctx inner (parts (parseTuples s).1) with
  | error e => rfl
  | ok t => cases (parseTuples s).2 <;> rfl

theorem noBrace_nil : NoBrace ([] : List Char) := by intro c hc; simp at hc

/-- the expansion of the spec `{w}`: `format(ctx-lookup of w, '')`, i.e. `str()` of the referenced value -/
theorem expandSpec_one_field (ctx : Ctx) (w : List Char) (hw : isFieldName false w = true)
    (hnamed : Named w) (pre post : List Char) (hpre : NoBrace pre) (hpost : NoBrace post) :
    Spec.expandSpec ctx (pre ++ '{' :: (w ++ '}' :: post)) =
      (match getField ctx w with
       | .error e => .error e
       | .ok wv => match formatField wv [] with
         | .error e => .error e
         | .ok t => .ok (pre ++ t ++ post)) := by
  have hwf : ∀ c ∈ [Chunk.text pre, Chunk.expr ⟨w, [], none⟩, Chunk.text post], c.WellFormed := by
    intro c hc
    simp only [List.mem_cons, List.not_mem_nil, or_false] at hc
    rcases hc with rfl | rfl | rfl
    · exact hpre
    · exact ⟨hw, by rfl⟩
    · exact hpost
  have hp := parse_render _ hwf
  simp only [render, Chunk.render, FieldT.text, FieldT.tail, if_true, List.nil_append, List.append_nil,
    tuplesOf, tuplesFrom] at hp
  have hs : pre ++ '{' :: (w ++ '}' :: post) = pre ++ ('{' :: (w ++ ['}']) ++ post) := by simp
  unfold Spec.expandSpec
  rw [hs, expandText_eq, hp]
  have hinner : Spec.expandText ctx (fun _ => .error errMaxRecursion) [] = .ok [] := by rfl
  have hnm : w ≠ [] := hnamed.1
  by_cases hpost0 : post = []
  · subst hpost0
    simp only [if_true, parts]
    rw [expandParts_fld]
    simp only [Spec.nestedField, hnm, if_false, convertField, hinner, bind, Except.bind, pure, Except.pure,
      Spec.expandParts, List.append_nil]
    cases getField ctx w with
    | error e => rfl
    | ok wv => simp only []; cases formatField wv [] <;> rfl
  · simp only [hpost0, if_false, List.cons_append, List.nil_append, parts]
    rw [expandParts_fld, expandParts_lit]
    simp only [Spec.nestedField, hnm, if_false, convertField, hinner, bind, Except.bind, pure, Except.pure,
      Spec.expandParts, List.append_nil]
    cases getField ctx w with
    | error e => rfl
    | ok wv => simp only []; cases formatField wv [] <;> simp

end Pypyr.Format
