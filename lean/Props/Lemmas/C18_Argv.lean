/- Helper lemmas for C18: tokenising and running rendered command lines. -/
import PypyrModel.Cli

namespace Pypyr.Cli

/-- A string argparse classifies as an argument ('A'): empty, `-`, or not starting with `-`
    (and not `--`, not one of the option strings). -/
def Plain (s : String) : Prop := classify s = .pos

/-- The values of an option are written so that argparse takes them as its arguments. -/
def Opt.Ok : Opt → Prop
  | .groups gs => ∀ g ∈ gs, Plain g
  | .success s => Plain s
  | .failure s => Plain s
  | .dir s => Plain s
  | .logpath s => Plain s
  | .log s => Plain s ∧ (parseNat? s).isSome

def Opt.isGroups : Opt → Bool
  | .groups _ => true
  | _ => false

def Opt.toks : Opt → List Tok
  | .groups gs => .opt .groups :: gs.map Tok.pos
  | .success s => [.opt .success, .pos s]
  | .failure s => [.opt .failure, .pos s]
  | .dir s => [.opt .dir, .pos s]
  | .log s => [.opt .log, .pos s]
  | .logpath s => [.opt .logpath, .pos s]

def optsToks (os : List Opt) : List Tok := (os.map Opt.toks).flatten

/-! ### tokenize -/

theorem plain_ne_dd {s : String} (h : Plain s) : s ≠ "--" := by
  intro e
  subst e
  simp [Plain, classify] at h

theorem tokenize_true (xs : List String) : tokenize true xs = some (xs.map Tok.pos) := by
  induction xs with
  | nil => rfl
  | cons s rest ih => simp [tokenize, ih]

theorem tokenize_pos (s : String) (rest : List String) (h : Plain s) :
    tokenize false (s :: rest) = (tokenize false rest).map (Tok.pos s :: ·) := by
  simp only [tokenize, show classify s = .pos from h]

theorem tokenize_plain_list (xs rest : List String) (h : ∀ s ∈ xs, Plain s) :
    tokenize false (xs ++ rest) = (tokenize false rest).map (xs.map Tok.pos ++ ·) := by
  induction xs with
  | nil => simp
  | cons s xs ih =>
    rw [List.cons_append, tokenize_pos _ _ (h s (by simp)), ih (fun x hx => h x (by simp [hx]))]
    cases tokenize false rest <;> simp

theorem tokenize_dd (rest : List String) :
    tokenize false ("--" :: rest) = some (Tok.dd :: rest.map Tok.pos) := by
  have : classify "--" = .dd := by simp [classify]
  simp only [tokenize, this, tokenize_true]
  simp

theorem classify_groups : classify "--groups" = .opt .groups := by decide +kernel
theorem classify_success : classify "--success" = .opt .success := by decide +kernel
theorem classify_failure : classify "--failure" = .opt .failure := by decide +kernel
theorem classify_dir : classify "--dir" = .opt .dir := by decide +kernel
theorem classify_log : classify "--log" = .opt .log := by decide +kernel
theorem classify_logpath : classify "--logpath" = .opt .logpath := by decide +kernel

theorem tokenize_optstr (s : String) (o : OptName) (rest : List String) (h : classify s = .opt o) :
    tokenize false (s :: rest) = (tokenize false rest).map (Tok.opt o :: ·) := by
  simp only [tokenize, h]

theorem tokenize_opt_render (o : Opt) (rest : List String) (h : o.Ok) :
    tokenize false (o.render ++ rest) = (tokenize false rest).map (o.toks ++ ·) := by
  cases o with
  | groups gs =>
    simp only [Opt.render, Opt.toks, List.cons_append]
    rw [tokenize_optstr _ _ _ classify_groups, tokenize_plain_list _ _ h]
    cases tokenize false rest <;> simp
  | success s =>
    simp only [Opt.render, Opt.toks, List.cons_append, List.nil_append]
    rw [tokenize_optstr _ _ _ classify_success, tokenize_pos _ _ h]
    cases tokenize false rest <;> simp
  | failure s =>
    simp only [Opt.render, Opt.toks, List.cons_append, List.nil_append]
    rw [tokenize_optstr _ _ _ classify_failure, tokenize_pos _ _ h]
    cases tokenize false rest <;> simp
  | dir s =>
    simp only [Opt.render, Opt.toks, List.cons_append, List.nil_append]
    rw [tokenize_optstr _ _ _ classify_dir, tokenize_pos _ _ h]
    cases tokenize false rest <;> simp
  | log s =>
    simp only [Opt.render, Opt.toks, List.cons_append, List.nil_append]
    rw [tokenize_optstr _ _ _ classify_log, tokenize_pos _ _ h.1]
    cases tokenize false rest <;> simp
  | logpath s =>
    simp only [Opt.render, Opt.toks, List.cons_append, List.nil_append]
    rw [tokenize_optstr _ _ _ classify_logpath, tokenize_pos _ _ h]
    cases tokenize false rest <;> simp

theorem tokenize_opts (os : List Opt) (rest : List String) (h : ∀ o ∈ os, o.Ok) :
    tokenize false (renderOpts os ++ rest) = (tokenize false rest).map (optsToks os ++ ·) := by
  induction os with
  | nil => simp [renderOpts, optsToks]
  | cons o os ih =>
    have e : renderOpts (o :: os) ++ rest = o.render ++ (renderOpts os ++ rest) := by
      simp [renderOpts]
    rw [e, tokenize_opt_render _ _ (h o (by simp)), ih (fun x hx => h x (by simp [hx]))]
    cases tokenize false rest <;> simp [optsToks]

/-! ### run -/

theorem run_append (st : PSt) (a b : List Tok) :
    run st (a ++ b) = (run st a).bind (fun st' => run st' b) := by
  induction a generalizing st with
  | nil => simp [run]
  | cons t ts ih =>
    simp only [List.cons_append, run]
    cases step st t with
    | none => simp
    | some st' => simpa using ih st'

/-- Modes in which an option string is handled by `stepIdle` (argparse is between actions or
    inside a greedy `*` match that the option string ends). -/
def Boundary (m : Mode) : Prop := m = .idle ∨ m = .inGroups ∨ m = .afterName ∨ m = .inCtx

theorem step_opt_of_boundary (st : PSt) (hb : Boundary st.mode) (o : OptName) :
    step st (.opt o) = stepIdle st (.opt o) := by
  rcases hb with h | h | h | h <;> simp [step, h]

theorem run_group_values (st : PSt) (hm : st.mode = .inGroups) (acc : List String)
    (hg : st.args.groups = some acc) (gs : List String) :
    run st (gs.map Tok.pos) = some { st with args := { st.args with groups := some (acc ++ gs) } } := by
  induction gs generalizing st acc with
  | nil => simp [run, ← hg]
  | cons g gs ih =>
    simp only [List.map_cons, run]
    have hs : step st (.pos g) = some { st with args := { st.args with groups := some (acc ++ [g]) } } := by
      simp [step, hm, hg]
    rw [hs]
    simp only []
    rw [ih _ (by simpa using hm) (acc ++ [g]) (by simp)]
    simp [List.append_assoc]

theorem run_one_arg (st : PSt) (hb : Boundary st.mode) (o : OptName) (ho : o ≠ .groups) (s : String)
    (a' : Args) (hs : setOpt st.args o s = some a') :
    run st [.opt o, .pos s] = some { st with mode := .idle, args := a' } := by
  have h1 : stepIdle st (.opt o) = some { st with mode := .needArg o } := by
    cases o <;> first | exact absurd rfl ho | rfl
  have h2 : step { st with mode := .needArg o } (.pos s) = some { st with mode := .idle, args := a' } := by
    simp [step, hs]
  simp only [run, step_opt_of_boundary st hb, h1, h2]

/-- Running one rendered option from a boundary mode stores it; `--groups` leaves its greedy
    match open, every other option returns to idle. -/
theorem run_opt (st : PSt) (hb : Boundary st.mode) (o : Opt) (hok : o.Ok) :
    run st o.toks =
      some { st with mode := (if o.isGroups then .inGroups else .idle), args := o.apply st.args } := by
  cases o with
  | groups gs =>
    have h1 : stepIdle st (.opt .groups) =
        some { st with mode := .inGroups, args := { st.args with groups := some [] } } := rfl
    simp only [Opt.toks, run, step_opt_of_boundary st hb, h1]
    rw [run_group_values _ rfl [] rfl gs]
    simp [Opt.isGroups, Opt.apply]
  | success s => exact run_one_arg st hb .success (by decide) s _ rfl
  | failure s => exact run_one_arg st hb .failure (by decide) s _ rfl
  | dir s => exact run_one_arg st hb .dir (by decide) s _ rfl
  | logpath s => exact run_one_arg st hb .logpath (by decide) s _ rfl
  | log s =>
    obtain ⟨n, hn⟩ := Option.isSome_iff_exists.mp hok.2
    have := run_one_arg st hb .log (by decide) s { st.args with log := some n } (by simp [setOpt, hn])
    simpa [Opt.toks, Opt.isGroups, Opt.apply, hn] using this

/-- Mode after a sequence of options, starting from mode `m`. -/
def modeAfter (m : Mode) (os : List Opt) : Mode :=
  os.foldl (fun _ o => if o.isGroups then .inGroups else .idle) m

theorem boundary_modeAfter (m : Mode) (hb : Boundary m) (os : List Opt) : Boundary (modeAfter m os) := by
  induction os generalizing m with
  | nil => exact hb
  | cons o os ih =>
    simp only [modeAfter, List.foldl_cons]
    apply ih
    cases o <;> simp [Opt.isGroups, Boundary]

theorem run_opts (st : PSt) (hb : Boundary st.mode) (os : List Opt) (hok : ∀ o ∈ os, o.Ok) :
    run st (optsToks os) = some { st with mode := modeAfter st.mode os, args := applyOpts st.args os } := by
  induction os generalizing st with
  | nil => simp [optsToks, run, modeAfter, applyOpts]
  | cons o os ih =>
    have e : optsToks (o :: os) = o.toks ++ optsToks os := by simp [optsToks]
    rw [e, run_append, run_opt st hb o (hok o (by simp))]
    simp only [Option.bind_some]
    rw [ih _ (by cases o <;> simp [Opt.isGroups, Boundary]) (fun x hx => hok x (by simp [hx]))]
    simp [modeAfter, applyOpts]

/-- Collecting context arguments. -/
theorem run_ctx (st : PSt) (hm : st.mode = .afterName ∨ st.mode = .inCtx) (cs : List String) :
    run st (cs.map Tok.pos) =
      some { st with mode := (if cs = [] then st.mode else .inCtx),
                     args := { st.args with ctx := st.args.ctx ++ cs } } := by
  induction cs generalizing st with
  | nil => simp [run]
  | cons c cs ih =>
    simp only [List.map_cons, run]
    have hs : step st (.pos c) = some { st with mode := .inCtx, args := { st.args with ctx := st.args.ctx ++ [c] } } := by
      rcases hm with h | h <;> simp [step, h]
    rw [hs]
    simp only []
    rw [ih _ (Or.inr rfl)]
    simp [List.append_assoc]

theorem applyOpts_name_ctx (a : Args) (n : String) (c : List String) (os : List Opt) :
    applyOpts { a with name := n, ctx := c } os = { applyOpts a os with name := n, ctx := c } := by
  induction os generalizing a with
  | nil => rfl
  | cons o os ih =>
    simp only [applyOpts, List.foldl_cons] at ih ⊢
    have : Opt.apply { a with name := n, ctx := c } o = { Opt.apply a o with name := n, ctx := c } := by
      cases o <;> rfl
    rw [this, ih]

theorem applyOpts_name (a : Args) (os : List Opt) : (applyOpts a os).name = a.name := by
  induction os generalizing a with
  | nil => rfl
  | cons o os ih =>
    simp only [applyOpts, List.foldl_cons] at ih ⊢
    rw [ih]
    cases o <;> rfl

theorem applyOpts_ctx (a : Args) (os : List Opt) : (applyOpts a os).ctx = a.ctx := by
  induction os generalizing a with
  | nil => rfl
  | cons o os ih =>
    simp only [applyOpts, List.foldl_cons] at ih ⊢
    rw [ih]
    cases o <;> rfl

theorem erase_dd_of_plain (cs : List String) (h : ∀ s ∈ cs, Plain s) : cs.erase "--" = cs := by
  apply List.erase_of_not_mem
  intro hm
  exact plain_ne_dd (h _ hm) rfl

theorem finish_boundary (st : PSt) (hb : Boundary st.mode) (hn : st.hasName = true) :
    finish st = some { st.args with ctx := st.args.ctx.erase "--" } := by
  rcases hb with h | h | h | h <;> simp [finish, h, hn]

theorem modeAfter_last (m : Mode) (os : List Opt) :
    modeAfter m os = match os.getLast? with
      | none => m
      | some o => if o.isGroups then .inGroups else .idle := by
  induction os generalizing m with
  | nil => rfl
  | cons o os ih =>
    simp only [modeAfter, List.foldl_cons] at ih ⊢
    rw [ih]
    cases os with
    | nil => simp
    | cons o' os' =>
      rw [List.getLast?_cons_cons]
      have : (o' :: os').getLast? = some ((o' :: os').getLast (by simp)) := List.getLast?_eq_some_getLast _
      rw [this]

/-- `pre` does not end with a `--groups` option (whose greedy `*` would swallow the pipeline name). -/
def NotEndingInGroups (os : List Opt) : Prop :=
  match os.getLast? with
  | none => True
  | some o => o.isGroups = false

theorem modeAfter_idle (os : List Opt) (h : NotEndingInGroups os) : modeAfter .idle os = .idle := by
  rw [modeAfter_last]
  unfold NotEndingInGroups at h
  cases hl : os.getLast? with
  | none => rfl
  | some o => rw [hl] at h; simp [h]

/-- Before the positionals, after any options: argparse is idle or inside `--groups`' match. -/
theorem modeAfter_idle_or_groups (os : List Opt) :
    modeAfter .idle os = .idle ∨ modeAfter .idle os = .inGroups := by
  rw [modeAfter_last]
  cases os.getLast? with
  | none => exact .inl rfl
  | some o => cases o <;> simp [Opt.isGroups]

end Pypyr.Cli
