/- Helper lemmas for C18: tokenising and running rendered command lines. -/
import PypyrModel.Cli

namespace Pypyr.Cli

/-- A string argparse classifies as an argument ('A'): empty, `-`, not starting with `-`, or
    starting with `-` but looking like a negative number / containing a blank (and matching no
    option or abbreviation). `Props/Lemmas/C18_Classify.lean` says which strings these are. -/
def Plain (s : String) : Prop := classify s = .pos

instance : DecidablePred Plain := fun s => inferInstanceAs (Decidable (classify s = .pos))

def Opt.isGroups : Opt → Bool
  | .groups _ => true
  | _ => false

/-- An option is written so that argparse reads it as meant: separately (`flag v…`) the flag is an
    option string or abbreviation of this option and every value is taken as an argument; joined
    (`flag=v`) there is exactly one value and the joined string is this option with that explicit
    argument (`classify_joined`: true whenever the flag is a long one), the value not being `--`.
    A `--log` value is text `int()` accepts. -/
def WOpt.Ok (w : WOpt) : Prop :=
  (match w.joined with
   | true => ∃ v, w.opt.values = [v] ∧ classify (w.flag ++ "=" ++ v) = .opt w.opt.name (some v) ∧ v ≠ "--"
   | false => classify w.flag = .opt w.opt.name none ∧ ∀ v ∈ w.opt.values, Plain v) ∧
  (∀ s, w.opt = .log s → ∃ n, parseInt s = .ok n)

def WOpt.toks (w : WOpt) : List Tok :=
  match w.joined, w.opt.values with
  | true, [v] => [.opt w.opt.name (some v)]
  | _, vs => .opt w.opt.name none :: vs.map Tok.pos

def optsToks (ws : List WOpt) : List Tok := (ws.map WOpt.toks).flatten

/-- Does the option leave a greedy `--groups` match open? (Not when its value is joined.) -/
def WOpt.opensGroups (w : WOpt) : Bool := w.opt.isGroups && !w.joined

/-! ### tokenize -/

theorem TokR.map_map (f g : List Tok → List Tok) (r : TokR) : (r.map f).map g = r.map (g ∘ f) := by
  cases r <;> rfl

theorem TokR.map_toks (f : List Tok → List Tok) (ts : List Tok) : (TokR.toks ts).map f = .toks (f ts) := rfl

theorem plain_ne_dd {s : String} (h : Plain s) : s ≠ "--" := by
  intro e
  subst e
  have : classify "--" = .dd := by decide +kernel
  simp [Plain, this] at h

theorem tokenize_true (xs : List String) : tokenize true xs = .toks (xs.map Tok.pos) := by
  induction xs with
  | nil => rfl
  | cons s rest ih => simp [tokenize, ih, TokR.map]

theorem tokenize_pos (s : String) (rest : List String) (h : Plain s) :
    tokenize false (s :: rest) = (tokenize false rest).map (Tok.pos s :: ·) := by
  simp only [tokenize, show classify s = .pos from h]

theorem tokenize_plain_list (xs rest : List String) (h : ∀ s ∈ xs, Plain s) :
    tokenize false (xs ++ rest) = (tokenize false rest).map (xs.map Tok.pos ++ ·) := by
  induction xs with
  | nil =>
    simp only [List.nil_append, List.map_nil]
    cases tokenize false rest <;> rfl
  | cons s xs ih =>
    rw [List.cons_append, tokenize_pos _ _ (h s (by simp)), ih (fun x hx => h x (by simp [hx]))]
    cases tokenize false rest <;> simp [TokR.map]

theorem tokenize_dd (rest : List String) :
    tokenize false ("--" :: rest) = .toks (Tok.dd :: rest.map Tok.pos) := by
  have : classify "--" = .dd := by decide +kernel
  simp only [tokenize, this, tokenize_true]
  rfl

theorem tokenize_optstr (s : String) (o : OptName) (e : Option String) (rest : List String)
    (h : classify s = .opt o e) :
    tokenize false (s :: rest) = (tokenize false rest).map (Tok.opt o e :: ·) := by
  simp only [tokenize, h]

theorem tokenize_wopt_render (w : WOpt) (rest : List String) (h : w.Ok) :
    tokenize false (w.render ++ rest) = (tokenize false rest).map (w.toks ++ ·) := by
  obtain ⟨h1, _⟩ := h
  cases hj : w.joined with
  | true =>
    rw [hj] at h1
    obtain ⟨v, hv, hc, _⟩ := h1
    simp only [WOpt.render, WOpt.toks, hj, hv, List.cons_append, List.nil_append]
    rw [tokenize_optstr _ _ _ _ hc]
  | false =>
    rw [hj] at h1
    obtain ⟨hc, hp⟩ := h1
    simp only [WOpt.render, WOpt.toks, hj, List.cons_append]
    rw [tokenize_optstr _ _ _ _ hc, tokenize_plain_list _ _ hp]
    cases tokenize false rest <;> simp [TokR.map]

theorem tokenize_opts (ws : List WOpt) (rest : List String) (h : ∀ w ∈ ws, w.Ok) :
    tokenize false (renderOpts ws ++ rest) = (tokenize false rest).map (optsToks ws ++ ·) := by
  induction ws with
  | nil =>
    simp only [renderOpts, optsToks, List.map_nil, List.flatten_nil, List.nil_append]
    cases tokenize false rest <;> rfl
  | cons w ws ih =>
    have e : renderOpts (w :: ws) ++ rest = w.render ++ (renderOpts ws ++ rest) := by
      simp [renderOpts]
    rw [e, tokenize_wopt_render _ _ (h w (by simp)), ih (fun x hx => h x (by simp [hx]))]
    cases tokenize false rest <;> simp [optsToks, TokR.map]

/-! ### run -/

def StepR.bind (r : StepR) (f : PSt → StepR) : StepR :=
  match r with
  | .stop s => .stop s
  | .next st => f st

@[simp] theorem StepR.bind_next (st : PSt) (f : PSt → StepR) : (StepR.next st).bind f = f st := rfl

theorem run_append (st : PSt) (a b : List Tok) :
    run st (a ++ b) = (run st a).bind (fun st' => run st' b) := by
  induction a generalizing st with
  | nil => simp [run]
  | cons t ts ih =>
    simp only [List.cons_append, run]
    cases step st t with
    | stop s => rfl
    | next st' => simpa using ih st'

/-- Modes in which an option string is handled by `stepIdle` (argparse is between actions or
    inside a greedy `*` match that the option string ends). -/
def Boundary (m : Mode) : Prop := m = .idle ∨ m = .inGroups ∨ m = .afterName ∨ m = .inCtx

theorem step_opt_of_boundary (st : PSt) (hb : Boundary st.mode) (o : OptName) (e : Option String) :
    step st (.opt o e) = stepOpt st o e := by
  rcases hb with h | h | h | h <;> simp [step, h, stepIdle]

theorem run_group_values (st : PSt) (hm : st.mode = .inGroups) (acc : List String)
    (hg : st.args.groups = some acc) (gs : List String) :
    run st (gs.map Tok.pos) = .next { st with args := { st.args with groups := some (acc ++ gs) } } := by
  induction gs generalizing st acc with
  | nil => simp [run, ← hg]
  | cons g gs ih =>
    simp only [List.map_cons, run]
    have hs : step st (.pos g) = .next { st with args := { st.args with groups := some (acc ++ [g]) } } := by
      simp [step, hm, hg]
    rw [hs]
    simp only []
    rw [ih _ (by simpa using hm) (acc ++ [g]) (by simp)]
    simp [List.append_assoc]

/-- One-argument option, value in the next string. -/
theorem run_one_arg (st : PSt) (hb : Boundary st.mode) (o : OptName)
    (ho : o ≠ .groups ∧ o ≠ .help ∧ o ≠ .version) (s : String)
    (a' : Args) (hs : setOpt st.args o s = .ok a') :
    run st [.opt o none, .pos s] = .next { st with mode := .idle, args := a' } := by
  have h1 : stepOpt st o none = .next { st with mode := .needArg o } := by
    cases o <;> first | exact absurd rfl ho.1 | exact absurd rfl ho.2.1 | exact absurd rfl ho.2.2 | rfl
  have h2 : step { st with mode := .needArg o } (.pos s) = .next { st with mode := .idle, args := a' } := by
    simp [step, hs]
  simp only [run, step_opt_of_boundary st hb, h1, h2]

/-- One-argument option, value joined with `=`. -/
theorem run_one_arg_joined (st : PSt) (hb : Boundary st.mode) (o : OptName)
    (ho : o ≠ .groups ∧ o ≠ .help ∧ o ≠ .version) (s : String) (hdd : s ≠ "--")
    (a' : Args) (hs : setOpt st.args o s = .ok a') :
    run st [.opt o (some s)] = .next { st with mode := .idle, args := a' } := by
  have h1 : stepOpt st o (some s) = .next { st with mode := .idle, args := a' } := by
    cases o <;>
      first | exact absurd rfl ho.1 | exact absurd rfl ho.2.1 | exact absurd rfl ho.2.2 | simp [stepOpt, hdd, hs]
  simp only [run, step_opt_of_boundary st hb, h1]

theorem setOpt_of_apply (a : Args) (o : Opt) (s : String) (hv : o.values = [s]) (hg : o.isGroups = false)
    (hlog : ∀ t, o = .log t → ∃ n, parseInt t = .ok n) :
    setOpt a o.name s = .ok (o.apply a) := by
  cases o with
  | groups gs => simp [Opt.isGroups] at hg
  | success t => simp only [Opt.values, List.cons.injEq, and_true] at hv; subst hv; rfl
  | failure t => simp only [Opt.values, List.cons.injEq, and_true] at hv; subst hv; rfl
  | dir t => simp only [Opt.values, List.cons.injEq, and_true] at hv; subst hv; rfl
  | logpath t => simp only [Opt.values, List.cons.injEq, and_true] at hv; subst hv; rfl
  | log t =>
    simp only [Opt.values, List.cons.injEq, and_true] at hv
    subst hv
    obtain ⟨n, hn⟩ := hlog t rfl
    simp [setOpt, Opt.name, Opt.apply, hn]

theorem name_not_special (o : Opt) (hg : o.isGroups = false) :
    o.name ≠ .groups ∧ o.name ≠ .help ∧ o.name ≠ .version := by
  cases o <;> simp_all [Opt.name, Opt.isGroups]

/-- Running one written option from a boundary mode stores it; an unjoined `--groups` leaves its
    greedy match open, every other form returns to idle. -/
theorem run_wopt (st : PSt) (hb : Boundary st.mode) (w : WOpt) (hok : w.Ok) :
    run st w.toks =
      .next { st with mode := (if w.opensGroups then .inGroups else .idle), args := w.opt.apply st.args } := by
  obtain ⟨h1, hlog⟩ := hok
  cases hj : w.joined with
  | true =>
    rw [hj] at h1
    obtain ⟨v, hv, _, hdd⟩ := h1
    simp only [WOpt.toks, hj, hv, WOpt.opensGroups, Bool.not_true, Bool.and_false, Bool.false_eq_true, if_false]
    cases hg : w.opt.isGroups with
    | true =>
      cases ho : w.opt with
      | groups gs =>
        rw [ho] at hv
        simp only [Opt.values] at hv
        subst hv
        simp [run, step_opt_of_boundary st hb, stepOpt, Opt.name, Opt.apply, hdd]
      | _ => rw [ho] at hg; simp [Opt.isGroups] at hg
    | false =>
      exact run_one_arg_joined st hb _ (name_not_special _ hg) v hdd _ (setOpt_of_apply _ _ _ hv hg hlog)
  | false =>
    rw [hj] at h1
    simp only [WOpt.toks, hj, WOpt.opensGroups, Bool.not_false, Bool.and_true]
    cases ho : w.opt with
    | groups gs =>
      have h1' : stepOpt st .groups none =
          .next { st with mode := .inGroups, args := { st.args with groups := some [] } } := rfl
      simp only [Opt.values, Opt.name, run, step_opt_of_boundary st hb, h1']
      rw [run_group_values _ rfl [] rfl gs]
      simp [Opt.isGroups, Opt.apply]
    | success s => exact run_one_arg st hb .success (by decide) s _ rfl
    | failure s => exact run_one_arg st hb .failure (by decide) s _ rfl
    | dir s => exact run_one_arg st hb .dir (by decide) s _ rfl
    | logpath s => exact run_one_arg st hb .logpath (by decide) s _ rfl
    | log s =>
      obtain ⟨n, hn⟩ := hlog s ho
      have := run_one_arg st hb .log (by decide) s { st.args with log := some n } (by simp [setOpt, hn])
      simpa [Opt.values, Opt.name, Opt.isGroups, Opt.apply, hn] using this

/-- Mode after a sequence of options, starting from mode `m`. -/
def modeAfter (m : Mode) (ws : List WOpt) : Mode :=
  ws.foldl (fun _ w => if w.opensGroups then .inGroups else .idle) m

theorem boundary_modeAfter (m : Mode) (hb : Boundary m) (ws : List WOpt) : Boundary (modeAfter m ws) := by
  induction ws generalizing m with
  | nil => exact hb
  | cons w ws ih =>
    simp only [modeAfter, List.foldl_cons]
    apply ih
    cases w.opensGroups <;> simp [Boundary]

theorem run_opts (st : PSt) (hb : Boundary st.mode) (ws : List WOpt) (hok : ∀ w ∈ ws, w.Ok) :
    run st (optsToks ws) =
      .next { st with mode := modeAfter st.mode ws, args := applyOpts st.args (ws.map (·.opt)) } := by
  induction ws generalizing st with
  | nil => simp [optsToks, run, modeAfter, applyOpts]
  | cons w ws ih =>
    have e : optsToks (w :: ws) = w.toks ++ optsToks ws := by simp [optsToks]
    rw [e, run_append, run_wopt st hb w (hok w (by simp))]
    simp only [StepR.bind_next]
    rw [ih _ (by cases w.opensGroups <;> simp [Boundary]) (fun x hx => hok x (by simp [hx]))]
    simp [modeAfter, applyOpts]

/-- Collecting context arguments. -/
theorem run_ctx (st : PSt) (hm : st.mode = .afterName ∨ st.mode = .inCtx) (cs : List String) :
    run st (cs.map Tok.pos) =
      .next { st with mode := (if cs = [] then st.mode else .inCtx),
                      args := { st.args with ctx := st.args.ctx ++ cs } } := by
  induction cs generalizing st with
  | nil => simp [run]
  | cons c cs ih =>
    simp only [List.map_cons, run]
    have hs : step st (.pos c) = .next { st with mode := .inCtx, args := { st.args with ctx := st.args.ctx ++ [c] } } := by
      rcases hm with h | h <;> simp [step, h]
    rw [hs]
    simp only []
    rw [ih _ (Or.inr rfl)]
    simp [List.append_assoc]

theorem applyOpts_name_ctx (a : Args) (n : String) (c : List String) (os : List Opt) :
    applyOpts { a with name := n, ctx := c } os = { applyOpts a os with name := n, ctx := c } := by
  induction os generalizing a with
  | nil => rfl
  | cons o os ih =>
    simp only [applyOpts, List.foldl_cons] at ih ⊢
    have : Opt.apply { a with name := n, ctx := c } o = { Opt.apply a o with name := n, ctx := c } := by
      cases o <;> rfl
    rw [this, ih]

theorem applyOpts_name (a : Args) (os : List Opt) : (applyOpts a os).name = a.name := by
  induction os generalizing a with
  | nil => rfl
  | cons o os ih =>
    simp only [applyOpts, List.foldl_cons] at ih ⊢
    rw [ih]
    cases o <;> rfl

theorem applyOpts_ctx (a : Args) (os : List Opt) : (applyOpts a os).ctx = a.ctx := by
  induction os generalizing a with
  | nil => rfl
  | cons o os ih =>
    simp only [applyOpts, List.foldl_cons] at ih ⊢
    rw [ih]
    cases o <;> rfl

theorem erase_dd_of_plain (cs : List String) (h : ∀ s ∈ cs, Plain s) : cs.erase "--" = cs := by
  apply List.erase_of_not_mem
  intro hm
  exact plain_ne_dd (h _ hm) rfl

theorem finish_boundary (st : PSt) (hb : Boundary st.mode) (hn : st.hasName = true) (he : st.extras = false) :
    finish st = some { st.args with ctx := st.args.ctx.erase "--" } := by
  rcases hb with h | h | h | h <;> simp [finish, h, hn, he]

theorem modeAfter_last (m : Mode) (ws : List WOpt) :
    modeAfter m ws = match ws.getLast? with
      | none => m
      | some w => if w.opensGroups then .inGroups else .idle := by
  induction ws generalizing m with
  | nil => rfl
  | cons w ws ih =>
    simp only [modeAfter, List.foldl_cons] at ih ⊢
    rw [ih]
    cases ws with
    | nil => simp
    | cons w' ws' =>
      rw [List.getLast?_cons_cons]
      have : (w' :: ws').getLast? = some ((w' :: ws').getLast (by simp)) := List.getLast?_eq_some_getLast _
      rw [this]

/-- `pre` does not end with an unjoined `--groups` option (whose greedy `*` would swallow the
    pipeline name). -/
def NotEndingInGroups (ws : List WOpt) : Prop :=
  match ws.getLast? with
  | none => True
  | some w => w.opensGroups = false

theorem modeAfter_idle (ws : List WOpt) (h : NotEndingInGroups ws) : modeAfter .idle ws = .idle := by
  rw [modeAfter_last]
  unfold NotEndingInGroups at h
  cases hl : ws.getLast? with
  | none => rfl
  | some w => rw [hl] at h; simp [h]

/-- Before the positionals, after any options: argparse is idle or inside `--groups`' match. -/
theorem modeAfter_idle_or_groups (ws : List WOpt) :
    modeAfter .idle ws = .idle ∨ modeAfter .idle ws = .inGroups := by
  rw [modeAfter_last]
  cases ws.getLast? with
  | none => exact .inl rfl
  | some w => cases w.opensGroups <;> simp

end Pypyr.Cli
