/- Helper lemmas for C18: tokenising and running rendered command lines. -/
import PypyrModel.Cli

namespace Pypyr.Cli

/-- A string argparse classifies as an argument ('A'): empty, `-`, or not starting with `-`
    (and not `--`, not one of the option strings). -/
def Plain (s : String) : Prop := classify s = .pos

/-- The values of an option are written so that argparse takes them as its arguments. -/
def Opt.Ok : Opt → Prop
  | .groups gs => ∀ g ∈ gs, Plain g
  | .success s => Plain s
  | .failure s => Plain s
  | .dir s => Plain s
  | .logpath s => Plain s
  | .log s => Plain s ∧ (parseNat? s).isSome

def Opt.isGroups : Opt → Bool
  | .groups _ => true
  | _ => false

def Opt.toks : Opt → List Tok
  | .groups gs => .opt .groups :: gs.map Tok.pos
  | .success s => [.opt .success, .pos s]
  | .failure s => [.opt .failure, .pos s]
  | .dir s => [.opt .dir, .pos s]
  | .log s => [.opt .log, .pos s]
  | .logpath s => [.opt .logpath, .pos s]

def optsToks (os : List Opt) : List Tok := (os.map Opt.toks).flatten

/-! ### tokenize -/

theorem plain_ne_dd {s : String} (h : Plain s) : s ≠ "--" := by
  intro e
  subst e
  simp [Plain, classify] at h

theorem tokenize_true (xs : List String) : tokenize true xs = some (xs.map Tok.pos) := by
  induction xs with
  | nil => rfl
  | cons s rest ih => simp [tokenize, ih]

theorem tokenize_pos (s : String) (rest : List String) (h : Plain s) :
    tokenize false (s :: rest) = (tokenize false rest).map (Tok.pos s :: ·) := by
  simp only [tokenize, show classify s = .pos from h]

theorem tokenize_plain_list (xs rest : List String) (h : ∀ s ∈ xs, Plain s) :
    tokenize false (xs ++ rest) = (tokenize false rest).map (xs.map Tok.pos ++ ·) := by
  induction xs with
  | nil => simp
  | cons s xs ih =>
    rw [List.cons_append, tokenize_pos _ _ (h s (by simp)), ih (fun x hx => h x (by simp [hx]))]
    cases tokenize false rest <;> simp

theorem tokenize_dd (rest : List String) :
    tokenize false ("--" :: rest) = some (Tok.dd :: rest.map Tok.pos) := by
  have : classify "--" = .dd := by simp [classify]
  simp only [tokenize, this, tokenize_true]
  simp

theorem classify_groups : classify "--groups" = .opt .groups := by decide +kernel
theorem classify_success : classify "--success" = .opt .success := by decide +kernel
theorem classify_failure : classify "--failure" = .opt .failure := by decide +kernel
theorem classify_dir : classify "--dir" = .opt .dir := by decide +kernel
theorem classify_log : classify "--log" = .opt .log := by decide +kernel
theorem classify_logpath : classify "--logpath" = .opt .logpath := by decide +kernel

theorem tokenize_optstr (s : String) (o : OptName) (rest : List String) (h : classify s = .opt o) :
    tokenize false (s :: rest) = (tokenize false rest).map (Tok.opt o :: ·) := by
  simp only [tokenize, h]

theorem tokenize_opt_render (o : Opt) (rest : List String) (h : o.Ok) :
    tokenize false (o.render ++ rest) = (tokenize false rest).map (o.toks ++ ·) := by
  cases o with
  | groups gs =>
    simp only [Opt.render, Opt.toks, List.cons_append]
    rw [tokenize_optstr _ _ _ classify_groups, tokenize_plain_list _ _ h]
    cases tokenize false rest <;> simp
  | success s =>
    simp only [Opt.render, Opt.toks, List.cons_append, List.nil_append]
    rw [tokenize_optstr _ _ _ classify_success, tokenize_pos _ _ h]
    cases tokenize false rest <;> simp
  | failure s =>
    simp only [Opt.render, Opt.toks, List.cons_append, List.nil_append]
    rw [tokenize_optstr _ _ _ classify_failure, tokenize_pos _ _ h]
    cases tokenize false rest <;> simp
  | dir s =>
    simp only [Opt.render, Opt.toks, List.cons_append, List.nil_append]
    rw [tokenize_optstr _ _ _ classify_dir, tokenize_pos _ _ h]
    cases tokenize false rest <;> simp
  | log s =>
    simp only [Opt.render, Opt.toks, List.cons_append, List.nil_append]
    rw [tokenize_optstr _ _ _ classify_log, tokenize_pos _ _ h.1]
    cases tokenize false rest <;> simp
  | logpath s =>
    simp only [Opt.render, Opt.toks, List.cons_append, List.nil_append]
    rw [tokenize_optstr _ _ _ classify_logpath, tokenize_pos _ _ h]
    cases tokenize false rest <;> simp

theorem tokenize_opts (os : List Opt) (rest : List String) (h : ∀ o ∈ os, o.Ok) :
    tokenize false (renderOpts os ++ rest) = (tokenize false rest).map (optsToks os ++ ·) := by
  induction os with
  | nil => simp [renderOpts, optsToks]
  | cons o os ih =>
    have e : renderOpts (o :: os) ++ rest = o.render ++ (renderOpts os ++ rest) := by
      simp [renderOpts]
    rw [e, tokenize_opt_render _ _ (h o (by simp)), ih (fun x hx => h x (by simp [hx]))]
    cases tokenize false rest <;> simp [optsToks]

/-! ### run -/

theorem run_append (st : PSt) (a b : List Tok) :
    run st (a ++ b) = (run st a).bind (fun st' => run st' b) := by
  induction a generalizing st with
  | nil => simp [run]
  | cons t ts ih =>
    simp only [List.cons_append, run]
    cases step st t with
    | none => simp
    | some st' => simpa using ih st'

/-- Modes in which an option string is handled by `stepIdle` (argparse is between actions or
    inside a greedy `*` match that the option string ends). -/
def Boundary (m : Mode) : Prop := m = .idle ∨ m = .inGroups ∨ m = .afterName ∨ m = .inCtx

theorem step_opt_of_boundary (st : PSt) (hb : Boundary st.mode) (o : OptName) :
    step st (.opt o) = stepIdle st (.opt o) := by
  rcases hb with h | h | h | h <;> simp [step, h]

theorem run_group_values (st : PSt) (hm : st.mode = .inGroups) (acc : List String)
    (hg : st.args.groups = some acc) (gs : List String) :
    run st (gs.map Tok.pos) = some { st with args := { st.args with groups := some (acc ++ gs) } } := by
  induction gs generalizing st acc with
  | nil => simp [run, ← hg]
  | cons g gs ih =>
    simp only [List.map_cons, run]
    have hs : step st (.pos g) = some { st with args := { st.args with groups := some (acc ++ [g]) } } := by
      simp [step, hm, hg]
    rw [hs]
    simp only []
    rw [ih _ (by simpa using hm) (acc ++ [g]) (by simp)]
    simp [List.append_assoc]

end Pypyr.Cli
