/-
  C06 helper lemmas, the retry loop (`retryIter` = `poll.while_until_true(interval=backoff, max_attempts=max)`
  around `RetryDecorator.exec_iteration`): the four ways one attempt can end, the chain of
  failed-and-retried attempts, and what that chain does to `sleeps` / `rnd` / the back-off state.
-/
import Props.Lemmas.FlowLayers
import Props.Lemmas.C06_Backoff

namespace Pypyr.Flow
open Pypyr
open Pypyr.OpBackoff (schedule rndAfter stateAfter)

/-- `exec_iteration(counter = k)`: the body runs with the step's `retry_counter = k`
    and `context['retryCounter'] = k`. -/
def attempt (fr : Frame) (inner : Frame → Body) (k : Nat) (s : St) : St × Res :=
  inner { fr with retryC := some k } { s with ctx := Ctx.set s.ctx "retryCounter" (.int k) }

/-- `max` is set (not `None`, not 0) and attempt `k` is the `max`-th. -/
def atMax (max : Option Int) (k : Nat) : Bool :=
  match max with
  | some m => m != 0 && (k : Int) == m
  | none => false

/-- `while_until_true` after a failed attempt `k`: it sleeps and goes on iff `max_attempts` is falsy
    (`None`, 0) or `k < max_attempts`; otherwise it breaks (and `assert is_retry_ok` fails). -/
def goesOn (max : Option Int) (k : Nat) : Bool :=
  match max with
  | some m => m == 0 || (k : Int) < m
  | none => true

/-- attempt `k` is below a real bound (or there is no bound). -/
def belowMax (max : Option Int) (k : Nat) : Prop := ∀ m, max = some m → m ≠ 0 → (k : Int) < m

theorem belowMax_atMax (max : Option Int) (k : Nat) (h : belowMax max k) : atMax max k = false := by
  cases max with
  | none => rfl
  | some m =>
    by_cases hm : m = 0
    · simp [atMax, hm]
    · have := h m rfl hm
      simp only [atMax, Bool.and_eq_false_imp, beq_eq_false_iff_ne]; intro _; omega

theorem belowMax_goesOn (max : Option Int) (k : Nat) (h : belowMax max k) : goesOn max k = true := by
  cases max with
  | none => rfl
  | some m =>
    by_cases hm : m = 0
    · simp [goesOn, hm]
    · have := h m rfl hm
      simp [goesOn, this]

/-- the one `time.sleep(backoff(k))` after failed attempt `k`: one entry appended to `sleeps`,
    the random source advanced by what the strategy drew. -/
def sleepAfter (bo : BackoffState) (k : Nat) (s1 : St) : St :=
  { s1 with rnd := (interval bo k s1.rnd).2.2, sleeps := s1.sleeps ++ [numToVal (interval bo k s1.rnd).1] }

/-! ### one attempt -/

theorem retryIter_success (cfg : RetryCfg) (fr : Frame) (inner : Frame → Body) (max : Option Int)
    (fuel k : Nat) (bo : BackoffState) (s s1 : St) (r : Res)
    (hi : attempt fr inner k s = (s1, r)) (hr : r.isErr = false) :
    retryIter cfg fr inner max (fuel + 1) k bo s = (s1, r) :=
  retryIter_nonerr cfg fr inner max fuel k bo s s1 r hi hr

theorem retryIter_last (cfg : RetryCfg) (fr : Frame) (inner : Frame → Body) (max : Option Int)
    (fuel k : Nat) (bo : BackoffState) (s s1 : St) (e : ExcV) (h : Bool)
    (hi : attempt fr inner k s = (s1, .err e h)) (hm : atMax max k = true) :
    retryIter cfg fr inner max (fuel + 1) k bo s = (s1, .err e h) := by
  unfold retryIter
  unfold attempt at hi
  cases max <;> simp only [atMax] at hm <;> simp only [hi, hm, if_true]

theorem retryIter_stop (cfg : RetryCfg) (fr : Frame) (inner : Frame → Body) (max : Option Int)
    (fuel k : Nat) (bo : BackoffState) (s s1 : St) (e : ExcV) (h : Bool)
    (hi : attempt fr inner k s = (s1, .err e h)) (hm : atMax max k = false)
    (hf : retryFilters cfg s1 e.name = .ok true) :
    retryIter cfg fr inner max (fuel + 1) k bo s = (s1, .err e h) := by
  unfold retryIter
  unfold attempt at hi
  cases max <;> simp only [atMax] at hm <;> simp only [hi, hm, hf, Bool.false_eq_true, if_false]

theorem retryIter_filter_error (cfg : RetryCfg) (fr : Frame) (inner : Frame → Body) (max : Option Int)
    (fuel k : Nat) (bo : BackoffState) (s s1 : St) (e : ExcV) (h : Bool) (x : Exc)
    (hi : attempt fr inner k s = (s1, .err e h)) (hm : atMax max k = false)
    (hf : retryFilters cfg s1 e.name = .error x) :
    retryIter cfg fr inner max (fuel + 1) k bo s = raiseExc s1 x := by
  unfold retryIter
  unfold attempt at hi
  cases max <;> simp only [atMax] at hm <;> simp only [hi, hm, hf, Bool.false_eq_true, if_false]

/-- a failed attempt that is retried: `while_until_true` goes on (`goesOn`) and `time.sleep` accepts the
    duration (it is not negative): one sleep, then attempt `k+1` with the advanced back-off callable. -/
theorem retryIter_again (cfg : RetryCfg) (fr : Frame) (inner : Frame → Body) (max : Option Int)
    (fuel k : Nat) (bo : BackoffState) (s s1 : St) (e : ExcV) (h : Bool)
    (hi : attempt fr inner k s = (s1, .err e h)) (hm : atMax max k = false)
    (hf : retryFilters cfg s1 e.name = .ok false)
    (hgo : goesOn max k = true) (hnn : 0 ≤ (interval bo k s1.rnd).1.n) :
    retryIter cfg fr inner max (fuel + 1) k bo s =
      retryIter cfg fr inner max fuel (k + 1) (interval bo k s1.rnd).2.1 (sleepAfter bo k s1) := by
  have hlt : ¬ (interval bo k s1.rnd).1.n < 0 := by omega
  conv => lhs; unfold retryIter
  unfold attempt at hi
  cases max <;> simp only [atMax] at hm <;> simp only [goesOn] at hgo <;>
    simp only [hi, hm, hf, hgo, hlt, Bool.false_eq_true, if_false, if_true] <;> rfl

/-- a failed attempt that would be retried, but the back-off strategy yields a NEGATIVE duration:
    `time.sleep` raises ValueError - nothing is slept, no further attempt; the random source is where
    the strategy left it. -/
theorem retryIter_negative_sleep (cfg : RetryCfg) (fr : Frame) (inner : Frame → Body) (max : Option Int)
    (fuel k : Nat) (bo : BackoffState) (s s1 : St) (e : ExcV) (h : Bool)
    (hi : attempt fr inner k s = (s1, .err e h)) (hm : atMax max k = false)
    (hf : retryFilters cfg s1 e.name = .ok false)
    (hgo : goesOn max k = true) (hneg : (interval bo k s1.rnd).1.n < 0) :
    retryIter cfg fr inner max (fuel + 1) k bo s =
      raiseNew { s1 with rnd := (interval bo k s1.rnd).2.2 } "ValueError" "sleep length must be non-negative" := by
  conv => lhs; unfold retryIter
  unfold attempt at hi
  cases max <;> simp only [atMax] at hm <;> simp only [goesOn] at hgo <;>
    simp only [hi, hm, hf, hgo, hneg, Bool.false_eq_true, if_false, if_true]

/-- a failed attempt after which `while_until_true` breaks with result False (`max_attempts` truthy and
    `k ≥ max_attempts`, the attempt not being the `max`-th): the back-off callable has been called (its
    state and the random source advanced), nothing is slept, and `assert is_retry_ok` raises. -/
theorem retryIter_assert (cfg : RetryCfg) (fr : Frame) (inner : Frame → Body) (max : Option Int)
    (fuel k : Nat) (bo : BackoffState) (s s1 : St) (e : ExcV) (h : Bool)
    (hi : attempt fr inner k s = (s1, .err e h)) (hm : atMax max k = false)
    (hf : retryFilters cfg s1 e.name = .ok false) (hgo : goesOn max k = false) :
    retryIter cfg fr inner max (fuel + 1) k bo s =
      raiseNew { s1 with rnd := (interval bo k s1.rnd).2.2 } "AssertionError" "" := by
  conv => lhs; unfold retryIter
  unfold attempt at hi
  cases max <;> simp only [atMax] at hm <;> simp only [goesOn] at hgo <;>
    simp only [hi, hm, hf, hgo, Bool.false_eq_true, if_false]
  · cases hgo

theorem retryIter_no_fuel (cfg : RetryCfg) (fr : Frame) (inner : Frame → Body) (max : Option Int)
    (k : Nat) (bo : BackoffState) (s : St) :
    retryIter cfg fr inner max 0 k bo s = (s, .outOfFuel) := by
  unfold retryIter; rfl

/-! ### the chain of failed-and-retried attempts -/

/-- The state and the back-off callable with which attempt `i+1` starts, when the attempts `1..i`
    all failed and were retried: each of them is followed by exactly one sleep. -/
def before (fr : Frame) (inner : Frame → Body) (bo : BackoffState) (s : St) : Nat → St × BackoffState
  | 0 => (s, bo)
  | i + 1 =>
    let p := before fr inner bo s i
    let s1 := (attempt fr inner (i + 1) p.1).1
    (sleepAfter p.2 (i + 1) s1, (interval p.2 (i + 1) s1.rnd).2.1)

/-- Attempt `i+1` (run in the state the retried attempts `1..i` left) fails with an error
    the stopOn / retryOn lists let through. -/
def Retried (cfg : RetryCfg) (fr : Frame) (inner : Frame → Body) (bo : BackoffState) (s : St) (i : Nat) : Prop :=
  ∃ e h, (attempt fr inner (i + 1) (before fr inner bo s i).1).2 = .err e h ∧
    retryFilters cfg (attempt fr inner (i + 1) (before fr inner bo s i).1).1 e.name = .ok false

/-- the duration the strategy gives for the sleep after failed attempt `i+1` of the chain -/
def chainInterval (fr : Frame) (inner : Frame → Body) (bo : BackoffState) (s : St) (i : Nat) : Num :=
  (interval (before fr inner bo s i).2 (i + 1) (attempt fr inner (i + 1) (before fr inner bo s i).1).1.rnd).1

/-- … is one `time.sleep` accepts (not negative). -/
def SleepOk (fr : Frame) (inner : Frame → Body) (bo : BackoffState) (s : St) (i : Nat) : Prop :=
  0 ≤ (chainInterval fr inner bo s i).n

/-- After `n` failed-and-retried attempts the loop stands before attempt `n+1`. -/
theorem retryIter_prefix (cfg : RetryCfg) (fr : Frame) (inner : Frame → Body) (max : Option Int)
    (bo : BackoffState) (s : St) (n : Nat)
    (hfail : ∀ i, i < n → Retried cfg fr inner bo s i) (hmax : ∀ i, i < n → belowMax max (i + 1))
    (hsl : ∀ i, i < n → SleepOk fr inner bo s i)
    (fuel : Nat) :
    retryIter cfg fr inner max (fuel + n) 1 bo s =
      retryIter cfg fr inner max fuel (n + 1) (before fr inner bo s n).2 (before fr inner bo s n).1 := by
  induction n generalizing fuel with
  | zero => rfl
  | succ n ih =>
    have h1 : fuel + (n + 1) = (fuel + 1) + n := by omega
    rw [h1, ih (fun i hi => hfail i (by omega)) (fun i hi => hmax i (by omega)) (fun i hi => hsl i (by omega))
      (fuel + 1)]
    obtain ⟨e, h, he, hf⟩ := hfail n (by omega)
    have hi : attempt fr inner (n + 1) (before fr inner bo s n).1 =
        ((attempt fr inner (n + 1) (before fr inner bo s n).1).1, .err e h) := by
      rw [← he]
    rw [retryIter_again cfg fr inner max fuel (n + 1) _ _ _ e h hi
      (belowMax_atMax _ _ (hmax n (by omega))) hf (belowMax_goesOn _ _ (hmax n (by omega))) (hsl n (by omega))]
    rfl

/-- A body that leaves the virtual clock and the random source alone. -/
def KeepsClock (inner : Frame → Body) : Prop :=
  ∀ fr s, (inner fr s).1.sleeps = s.sleeps ∧ (inner fr s).1.rnd = s.rnd

theorem attempt_keeps (fr : Frame) (inner : Frame → Body) (hk : KeepsClock inner) (k : Nat) (s : St) :
    (attempt fr inner k s).1.sleeps = s.sleeps ∧ (attempt fr inner k s).1.rnd = s.rnd := by
  unfold attempt
  exact hk _ _

/-- What `n` failed-and-retried attempts did to the clock: exactly the first `n` intervals of the
    back-off schedule were slept, in order; the random source and the back-off callable are where
    `n` calls leave them. -/
theorem before_clock (fr : Frame) (inner : Frame → Body) (hk : KeepsClock inner) (bo : BackoffState) (s : St)
    (n : Nat) :
    (before fr inner bo s n).1.sleeps = s.sleeps ++ (schedule bo s.rnd 1 n).map numToVal ∧
    (before fr inner bo s n).1.rnd = rndAfter bo s.rnd 1 n ∧
    (before fr inner bo s n).2 = stateAfter bo s.rnd 1 n := by
  induction n with
  | zero => simp [before, schedule, rndAfter, stateAfter]
  | succ n ih =>
    obtain ⟨ih1, ih2, ih3⟩ := ih
    obtain ⟨k1, k2⟩ := attempt_keeps fr inner hk (n + 1) (before fr inner bo s n).1
    have hs := schedule_snoc bo s.rnd 1 n
    have hr := rndAfter_snoc bo s.rnd 1 n
    have hb := stateAfter_snoc bo s.rnd 1 n
    simp only [before, sleepAfter]
    rw [k1, k2, ih1, ih2, ih3, hs, hr, hb, Nat.add_comm 1 n]
    simp

/-- for a body that leaves clock and random source alone, the duration slept after failed attempt `i+1`
    is the `i+1`-th interval of the back-off schedule (a function of the configuration alone). -/
theorem chainInterval_eq (fr : Frame) (inner : Frame → Body) (hk : KeepsClock inner) (bo : BackoffState) (s : St)
    (i : Nat) :
    chainInterval fr inner bo s i = (interval (stateAfter bo s.rnd 1 i) (i + 1) (rndAfter bo s.rnd 1 i)).1 := by
  obtain ⟨_, b2, b3⟩ := before_clock fr inner hk bo s i
  obtain ⟨_, k2⟩ := attempt_keeps fr inner hk (i + 1) (before fr inner bo s i).1
  unfold chainInterval
  rw [k2, b2, b3]

/-! ### every bounded run has this shape -/

/-- How the loop ends with the attempt `k` that came back as `p`, when it does end there. -/
def finishAt (cfg : RetryCfg) (max : Option Int) (k : Nat) (p : St × Res) : St × Res :=
  match p.2 with
  | .err e _ =>
    if atMax max k then p
    else match retryFilters cfg p.1 e.name with
      | .error x => raiseExc p.1 x
      | _ => p
  | _ => p

theorem atMax_lt (m k : Nat) (h : k < m) : atMax (some (m : Int)) k = false := by
  simp only [atMax, Bool.and_eq_false_imp, beq_eq_false_iff_ne]; intro _; omega

theorem belowMax_lt (m k : Nat) (h : k < m) : belowMax (some (m : Int)) k := by
  intro m' hm' _; injection hm' with hm'; omega

theorem atMax_self (m : Nat) (h : m ≠ 0) : atMax (some (m : Int)) m = true := by
  simp [atMax, h]

/-- a real bound `m ≥ 1`: every failed attempt below it is followed by a sleep (never the `assert`) -/
theorem goesOn_lt (m k : Nat) (h : k < m) : goesOn (some (m : Int)) k = true :=
  belowMax_goesOn _ _ (belowMax_lt m k h)

theorem retry_run_shape_aux (cfg : RetryCfg) (fr : Frame) (inner : Frame → Body) (m : Nat)
    (bo : BackoffState) (s : St) (fuel : Nat) (hfuel : m ≤ fuel)
    (hsl : ∀ i, i + 1 < m → SleepOk fr inner bo s i) :
    ∀ d n, n + d + 1 = m → (∀ i, i < n → Retried cfg fr inner bo s i) →
      ∃ j, n ≤ j ∧ j < m ∧ (∀ i, i < j → Retried cfg fr inner bo s i) ∧
        retryIter cfg fr inner (some (m : Int)) fuel 1 bo s =
          finishAt cfg (some (m : Int)) (j + 1) (attempt fr inner (j + 1) (before fr inner bo s j).1) := by
  intro d
  induction d with
  | zero =>
    intro n hn hfail
    refine ⟨n, Nat.le_refl _, by omega, hfail, ?_⟩
    obtain ⟨f', hf'⟩ : ∃ f', fuel = (f' + 1) + n := ⟨fuel - n - 1, by omega⟩
    rw [hf', retryIter_prefix cfg fr inner (some (m : Int)) bo s n hfail
      (fun i hi => belowMax_lt m (i + 1) (by omega)) (fun i hi => hsl i (by omega))]
    rcases hp : attempt fr inner (n + 1) (before fr inner bo s n).1 with ⟨s1, r⟩
    have hmx : atMax (some (m : Int)) (n + 1) = true := by
      have : n + 1 = m := by omega
      rw [this]; exact atMax_self m (by omega)
    cases r with
    | err e h => rw [retryIter_last cfg fr inner (some (m : Int)) f' (n + 1) _ _ s1 e h hp hmx]; simp [finishAt, hmx]
    | _ => rw [retryIter_success cfg fr inner (some (m : Int)) f' (n + 1) _ _ s1 _ hp rfl]; simp [finishAt]
  | succ d ih =>
    intro n hn hfail
    obtain ⟨f', hf'⟩ : ∃ f', fuel = (f' + 1) + n := ⟨fuel - n - 1, by omega⟩
    have hpre := retryIter_prefix cfg fr inner (some (m : Int)) bo s n hfail
      (fun i hi => belowMax_lt m (i + 1) (by omega)) (fun i hi => hsl i (by omega)) (f' + 1)
    rcases hp : attempt fr inner (n + 1) (before fr inner bo s n).1 with ⟨s1, r⟩
    have hmx : atMax (some (m : Int)) (n + 1) = false := atMax_lt m (n + 1) (by omega)
    cases r with
    | err e h =>
      rcases hflt : retryFilters cfg s1 e.name with x | b
      · refine ⟨n, Nat.le_refl _, by omega, hfail, ?_⟩
        rw [hf', hpre, retryIter_filter_error cfg fr inner (some (m : Int)) f' (n + 1) _ _ s1 e h x hp hmx hflt]
        simp [finishAt, hmx, hflt, hp]
      · cases b with
        | true =>
          refine ⟨n, Nat.le_refl _, by omega, hfail, ?_⟩
          rw [hf', hpre, retryIter_stop cfg fr inner (some (m : Int)) f' (n + 1) _ _ s1 e h hp hmx hflt]
          simp [finishAt, hmx, hflt, hp]
        | false =>
          have hret : Retried cfg fr inner bo s n := ⟨e, h, by rw [hp], by rw [hp]; exact hflt⟩
          obtain ⟨j, hj1, hj2, hj3, hj4⟩ := ih (n + 1) (by omega) (by
            intro i hi
            by_cases hin : i < n
            · exact hfail i hin
            · have : i = n := by omega
              rw [this]; exact hret)
          exact ⟨j, by omega, hj2, hj3, hj4⟩
    | _ =>
      refine ⟨n, Nat.le_refl _, by omega, hfail, ?_⟩
      rw [hf', hpre, retryIter_success cfg fr inner (some (m : Int)) f' (n + 1) _ _ s1 _ hp rfl]
      simp [finishAt, hp]

/-! ### stopOn / retryOn -/

/-- What one of the two lists says about error name `n` in state `s`: `none` = the list is not
    consulted (absent, or a falsy raw value such as `[]` / `''` / `null`), else whether the name is in
    the list *as formatted now*. -/
def listVerdict (s : St) (o : Option Val) (n : String) : Except Exc (Option Bool) :=
  match o with
  | none => .ok none
  | some v =>
    if v.truthy then
      match fmtV s v with
      | .error x => .error x
      | .ok l => (nameIn n l).map some
    else .ok none

/-- The decision table of `exec_iteration`: stopOn first; retryOn is only looked at (and formatted)
    when stopOn did not already stop. `true` = the error propagates now. -/
def filtersSpec (cfg : RetryCfg) (s : St) (n : String) : Except Exc Bool :=
  match listVerdict s cfg.stopOn n with
  | .error x => .error x
  | .ok (some true) => .ok true
  | .ok _ =>
    match listVerdict s cfg.retryOn n with
    | .error x => .error x
    | .ok (some false) => .ok true
    | .ok _ => .ok false

/-- the retryOn half of `retryFilters` (it occurs twice there). -/
def retryOnPart (s : St) (o : Option Val) (n : String) : Except Exc Bool :=
  match o.filter Val.truthy with
  | some ro =>
    match fmtV s ro with
    | .error x => .error x
    | .ok l2 => (nameIn n l2).map (!·)
  | none => .ok false

theorem retryFilters_unfold (cfg : RetryCfg) (s : St) (n : String) :
    retryFilters cfg s n =
      match cfg.stopOn.filter Val.truthy with
      | some so =>
        match fmtV s so with
        | .error x => .error x
        | .ok l => match nameIn n l with
          | .error x => .error x
          | .ok true => .ok true
          | .ok false => retryOnPart s cfg.retryOn n
      | none => retryOnPart s cfg.retryOn n := rfl

theorem retryOnPart_eq (s : St) (o : Option Val) (n : String) :
    retryOnPart s o n =
      match listVerdict s o n with
      | .error x => .error x
      | .ok (some false) => .ok true
      | .ok _ => .ok false := by
  unfold retryOnPart listVerdict
  cases o with
  | none => rfl
  | some v =>
    by_cases ht : v.truthy = true
    · rcases hf : fmtV s v with x | l
      · simp [Option.filter, ht, hf]
      · rcases hn : nameIn n l with x | b
        · simp [Option.filter, ht, hf, hn, Except.map]
        · cases b <;> simp [Option.filter, ht, hf, hn, Except.map]
    · simp [Option.filter, ht]

theorem retryFilters_eq_spec (cfg : RetryCfg) (s : St) (n : String) :
    retryFilters cfg s n = filtersSpec cfg s n := by
  rw [retryFilters_unfold]
  unfold filtersSpec
  rw [← retryOnPart_eq]
  unfold listVerdict
  cases cfg.stopOn with
  | none => rfl
  | some v =>
    by_cases ht : v.truthy = true
    · rcases hf : fmtV s v with x | l
      · simp [Option.filter, ht, hf]
      · rcases hn : nameIn n l with x | b
        · simp [Option.filter, ht, hf, hn, Except.map]
        · cases b <;> simp [Option.filter, ht, hf, hn, Except.map]
    · simp [Option.filter, ht]

/-- membership of an error name in a list of names. -/
theorem nameIn_names (n : String) (names : List String) :
    nameIn n (.list (names.map Val.str)) = .ok (names.contains n) := by
  unfold nameIn pyIn
  simp only [Except.ok.injEq]
  induction names with
  | nil => rfl
  | cons m ms ih =>
    simp only [List.map_cons, List.any_cons, List.contains_cons, ih]
    congr 1
    unfold pyEq
    simp [Val.num?]

/-- the filters look at the context only. -/
theorem retryFilters_ctx (cfg : RetryCfg) (s s' : St) (n : String) (h : s.ctx = s'.ctx) :
    retryFilters cfg s n = retryFilters cfg s' n := by
  unfold retryFilters fmtV
  rw [h]

/-! ### what `retry_loop` evaluates up front -/

/-- `context.get_formatted_value(self.backoff) if self.backoff else config.default_backoff`. -/
def decName (cfg : RetryCfg) (s : St) : Except Exc Val :=
  match cfg.backoff with
  | some b => if b.truthy then fmtV s b else .ok (.str s.defaultBackoff)
  | none => .ok (.str s.defaultBackoff)

/-- `max_sleep`: `None` unless `sleepMax` is truthy, then formatted as float. -/
def decMaxSleep (cfg : RetryCfg) (s : St) : Except Exc (Option Num) :=
  match cfg.sleepMax with
  | some m => if m.truthy then (fmtFloat s m).map some else .ok none
  | none => .ok none

def decArgs (cfg : RetryCfg) (s : St) : Except Exc Val :=
  match cfg.backoffArgs with
  | some a => fmtV s a
  | none => .ok .none

/-- `exponential.__init__`: `kwargs.get('base', 2) if kwargs else 2`. -/
def decBase (argsV : Val) : Num :=
  match argsV with
  | .dict kvs => match dictGet? kvs (.str "base") with
    | some b => (b.num?).getD ⟨2, 0, false⟩
    | none => ⟨2, 0, false⟩
  | _ => ⟨2, 0, false⟩

/-- `max`: `None` unless truthy, then formatted as int (any sign: see `retryIter`). -/
def decMax (cfg : RetryCfg) (s : St) : Except Exc (Option Int) :=
  match cfg.max with
  | some m => if m.truthy then (fmtInt s m).map some else .ok none
  | none => .ok none

/-- `retryLoop` written with the decoders above (definitionally the same function). -/
def retryLoop' (cfg : RetryCfg) (fr : Frame) (inner : Frame → Body) (fuel : Nat) : Body := fun s =>
  let s := { s with ctx := Ctx.set s.ctx "retryCounter" (.int 0) }
  match fmtV s cfg.sleep with
  | .error x => raiseExc s x
  | .ok sleepV =>
  match decName cfg s with
  | .error x => raiseExc s x
  | .ok nameV =>
  match decMaxSleep cfg s with
  | .error x => raiseExc s x
  | .ok maxSleep =>
  match fmtV s cfg.jrc with
  | .error x => raiseExc s x
  | .ok jrcV =>
  match decArgs cfg s with
  | .error x => raiseExc s x
  | .ok argsV =>
  match lookupBackoff nameV with
  | .fail n m => raiseNew s n m
  | .outside => raiseNew s "OutOfDomain" "custom back-off callable"
  | .kind kind =>
  match buildBackoff kind sleepV maxSleep jrcV argsV with
  | .fail n m => raiseNew s n m
  | .outside => raiseNew s "OutOfDomain" "retry sleep/jrc not numeric"
  | built =>
    match decMax cfg s with
    | .error x => raiseExc s x
    | .ok max =>
      match built with
      | .good bo => retryIter cfg fr inner max fuel 1 bo s
      | .faulty y => retryFaulty cfg fr inner max y s
      | _ => (s, .ok)

theorem retryLoop_eq (cfg : RetryCfg) (fr : Frame) (inner : Frame → Body) (fuel : Nat) (s : St) :
    retryLoop cfg fr inner fuel s = retryLoop' cfg fr inner fuel s := rfl

/-- Once everything `retry_loop` evaluates up front has a value, the back-off name is one of the six
    built-ins and the constructor succeeds with the callable `bo`, the loop is `retryIter` from
    attempt 1 with `context['retryCounter'] = 0` written first. -/
theorem retryLoop_decodes (cfg : RetryCfg) (fr : Frame) (inner : Frame → Body) (fuel : Nat) (s : St)
    (sleepV nameV jrcV argsV : Val) (kind : BackoffKind) (ms : Option Num) (bo : BackoffState) (max : Option Int)
    (h1 : fmtV { s with ctx := Ctx.set s.ctx "retryCounter" (.int 0) } cfg.sleep = .ok sleepV)
    (h2 : decName cfg { s with ctx := Ctx.set s.ctx "retryCounter" (.int 0) } = .ok nameV)
    (h3 : decMaxSleep cfg { s with ctx := Ctx.set s.ctx "retryCounter" (.int 0) } = .ok ms)
    (h4 : fmtV { s with ctx := Ctx.set s.ctx "retryCounter" (.int 0) } cfg.jrc = .ok jrcV)
    (h5 : decArgs cfg { s with ctx := Ctx.set s.ctx "retryCounter" (.int 0) } = .ok argsV)
    (h6 : lookupBackoff nameV = .kind kind)
    (h7 : buildBackoff kind sleepV ms jrcV argsV = .good bo)
    (h9 : decMax cfg { s with ctx := Ctx.set s.ctx "retryCounter" (.int 0) } = .ok max) :
    retryLoop cfg fr inner fuel s =
      retryIter cfg fr inner max fuel 1 bo { s with ctx := Ctx.set s.ctx "retryCounter" (.int 0) } := by
  rw [retryLoop_eq]
  unfold retryLoop'
  simp only [h1, h2, h3, h4, h5, h6, h7, h9]

/-- … when the constructor raises (`fixed` / `jitter` with `sleep: []`: IndexError; `exponential` with a
    truthy `backoffArgs` that is no mapping: AttributeError), that error leaves `retry_loop` before `max` is
    looked at and before any attempt: the body never runs. -/
theorem retryLoop_constructor_fails (cfg : RetryCfg) (fr : Frame) (inner : Frame → Body) (fuel : Nat) (s : St)
    (sleepV nameV jrcV argsV : Val) (kind : BackoffKind) (ms : Option Num) (n m : String)
    (h1 : fmtV { s with ctx := Ctx.set s.ctx "retryCounter" (.int 0) } cfg.sleep = .ok sleepV)
    (h2 : decName cfg { s with ctx := Ctx.set s.ctx "retryCounter" (.int 0) } = .ok nameV)
    (h3 : decMaxSleep cfg { s with ctx := Ctx.set s.ctx "retryCounter" (.int 0) } = .ok ms)
    (h4 : fmtV { s with ctx := Ctx.set s.ctx "retryCounter" (.int 0) } cfg.jrc = .ok jrcV)
    (h5 : decArgs cfg { s with ctx := Ctx.set s.ctx "retryCounter" (.int 0) } = .ok argsV)
    (h6 : lookupBackoff nameV = .kind kind)
    (h7 : buildBackoff kind sleepV ms jrcV argsV = .fail n m) :
    retryLoop cfg fr inner fuel s = raiseNew { s with ctx := Ctx.set s.ctx "retryCounter" (.int 0) } n m := by
  rw [retryLoop_eq]
  unfold retryLoop'
  simp only [h1, h2, h3, h4, h5, h6, h7]

/-- … a back-off name that does not resolve (an unknown bare name: ValueError; a dotted name whose module
    or attribute does not exist; a name that is no string): raised before the constructor, `max` and any attempt. -/
theorem retryLoop_unknown_backoff (cfg : RetryCfg) (fr : Frame) (inner : Frame → Body) (fuel : Nat) (s : St)
    (sleepV nameV jrcV argsV : Val) (ms : Option Num) (n m : String)
    (h1 : fmtV { s with ctx := Ctx.set s.ctx "retryCounter" (.int 0) } cfg.sleep = .ok sleepV)
    (h2 : decName cfg { s with ctx := Ctx.set s.ctx "retryCounter" (.int 0) } = .ok nameV)
    (h3 : decMaxSleep cfg { s with ctx := Ctx.set s.ctx "retryCounter" (.int 0) } = .ok ms)
    (h4 : fmtV { s with ctx := Ctx.set s.ctx "retryCounter" (.int 0) } cfg.jrc = .ok jrcV)
    (h5 : decArgs cfg { s with ctx := Ctx.set s.ctx "retryCounter" (.int 0) } = .ok argsV)
    (h6 : lookupBackoff nameV = .fail n m) :
    retryLoop cfg fr inner fuel s = raiseNew { s with ctx := Ctx.set s.ctx "retryCounter" (.int 0) } n m := by
  rw [retryLoop_eq]
  unfold retryLoop'
  simp only [h1, h2, h3, h4, h5, h6]

/-- … a callable whose every call goes wrong (a list `sleep` with linear / exponential, a `base` that is
    no number): the loop is `retryFaulty`. -/
theorem retryLoop_faulty (cfg : RetryCfg) (fr : Frame) (inner : Frame → Body) (fuel : Nat) (s : St)
    (sleepV nameV jrcV argsV : Val) (kind : BackoffKind) (ms : Option Num) (y : Bool) (max : Option Int)
    (h1 : fmtV { s with ctx := Ctx.set s.ctx "retryCounter" (.int 0) } cfg.sleep = .ok sleepV)
    (h2 : decName cfg { s with ctx := Ctx.set s.ctx "retryCounter" (.int 0) } = .ok nameV)
    (h3 : decMaxSleep cfg { s with ctx := Ctx.set s.ctx "retryCounter" (.int 0) } = .ok ms)
    (h4 : fmtV { s with ctx := Ctx.set s.ctx "retryCounter" (.int 0) } cfg.jrc = .ok jrcV)
    (h5 : decArgs cfg { s with ctx := Ctx.set s.ctx "retryCounter" (.int 0) } = .ok argsV)
    (h6 : lookupBackoff nameV = .kind kind)
    (h7 : buildBackoff kind sleepV ms jrcV argsV = .faulty y)
    (h9 : decMax cfg { s with ctx := Ctx.set s.ctx "retryCounter" (.int 0) } = .ok max) :
    retryLoop cfg fr inner fuel s =
      retryFaulty cfg fr inner max y { s with ctx := Ctx.set s.ctx "retryCounter" (.int 0) } := by
  rw [retryLoop_eq]
  unfold retryLoop'
  simp only [h1, h2, h3, h4, h5, h6, h7, h9]

/-! ### what the constructors build -/

/-- the six built-in names resolve to their strategy. -/
theorem lookupBackoff_builtin (n : String) (kind : BackoffKind) (h : BackoffKind.ofName? n = some kind) :
    lookupBackoff (.str n) = .kind kind := by
  simp [lookupBackoff, h]

/-- `fixed` / `jitter` with a number: `mkBackoff kind sl none …`; with a non-empty list of numbers: the
    deque `mkBackoff kind 0 (some (x :: xs)) …`; with `[]`: `self.queue[-1]` raises IndexError. -/
theorem buildBackoff_fixed (kind : BackoffKind) (hk : kind = .fixed ∨ kind = .jitter) (ms : Option Num)
    (jrcV argsV : Val) (jrc : Num) (hj : jrcV.num? = some jrc) :
    (∀ v sl, v.num? = some sl → (∀ xs, v ≠ .list xs) →
      buildBackoff kind v ms jrcV argsV = .good (mkBackoff kind sl none ms jrc ⟨2, 0, false⟩)) ∧
    (∀ (x : Val) (xs : List Val) (ns : List Num), (x :: xs).filterMap Val.num? = ns → ns.length = (x :: xs).length →
      buildBackoff kind (.list (x :: xs)) ms jrcV argsV = .good (mkBackoff kind numZero (some ns) ms jrc ⟨2, 0, false⟩)) ∧
    buildBackoff kind (.list []) ms jrcV argsV = .fail "IndexError" "~deque index out of range" := by
  refine ⟨?_, ?_, ?_⟩
  · intro v sl hv hnl
    rcases hk with hk | hk <;> subst hk <;>
      (unfold buildBackoff; simp only [hj]
       cases v <;> simp_all [sleepNums, Val.num?])
  · intro x xs ns hns hlen
    rcases hk with hk | hk <;> subst hk <;>
      (unfold buildBackoff; simp only [hj, sleepNums, hns, hlen, beq_self_eq_true, if_true])
  · rcases hk with hk | hk <;> subst hk <;> (unfold buildBackoff; simp only [hj])

/-- `linear` / `linearjitter`: a number is kept (`mkBackoff kind sl none …`); any list makes every call go
    wrong - the call itself for `linearjitter` or with a `sleepMax` (TypeError), else `time.sleep`. -/
theorem buildBackoff_linear (kind : BackoffKind) (hk : kind = .linear ∨ kind = .linearjitter) (ms : Option Num)
    (jrcV argsV : Val) (jrc : Num) (hj : jrcV.num? = some jrc) :
    (∀ v sl, v.num? = some sl →
      buildBackoff kind v ms jrcV argsV = .good (mkBackoff kind sl none ms jrc ⟨2, 0, false⟩)) ∧
    (∀ xs, buildBackoff kind (.list xs) ms jrcV argsV = .faulty (kind == .linear && maxSleepFalsy ms)) := by
  refine ⟨?_, ?_⟩
  · intro v sl hv
    rcases hk with hk | hk <;> subst hk <;>
      (unfold buildBackoff; simp only [hj]
       cases v <;> simp_all [Val.num?])
  · intro xs
    rcases hk with hk | hk <;> subst hk <;> (unfold buildBackoff; simp only [hj])

/-- `exponential` / `exponentialjitter` with a numeric sleep and a numeric `base` (default 2). -/
theorem buildBackoff_exponential (kind : BackoffKind) (hk : kind = .exponential ∨ kind = .exponentialjitter)
    (ms : Option Num) (v jrcV argsV : Val) (jrc sl base : Num) (hj : jrcV.num? = some jrc)
    (hv : v.num? = some sl) (hb : expBase argsV = .ok (some base)) :
    buildBackoff kind v ms jrcV argsV = .good (mkBackoff kind sl none ms jrc base) := by
  rcases hk with hk | hk <;> subst hk <;>
    (unfold buildBackoff; simp only [hj, hb]
     cases v <;> simp_all [Val.num?])

/-- `exponential.__init__`'s `kwargs.get('base', 2) if kwargs else 2` on no `backoffArgs`, on a mapping
    without `base`, on a mapping with a numeric `base`: the `decBase` of the value. -/
theorem expBase_eq_decBase :
    expBase .none = .ok (some (decBase .none)) ∧ expBase (.dict []) = .ok (some (decBase (.dict []))) ∧
    (∀ b x, b.num? = some x → expBase (.dict [(.str "base", b)]) = .ok (some (decBase (.dict [(.str "base", b)])))) := by
  refine ⟨rfl, rfl, ?_⟩
  intro b x h
  simp [expBase, decBase, dictGet?, h, Val.truthy]

theorem decBase_default : decBase .none = ⟨2, 0, false⟩ := rfl

theorem decBase_given (b : Val) (x : Num) (h : b.num? = some x) :
    decBase (.dict [(.str "base", b)]) = x := by
  simp [decBase, dictGet?, h]

/-! ### the unbounded loop (`max` = `None` or 0) -/

theorem belowMax_unbounded (max : Option Int) (hmax : max = none ∨ max = some 0) (k : Nat) : belowMax max k := by
  intro m hm h0
  rcases hmax with h | h <;> rw [h] at hm
  · cases hm
  · injection hm with hm; exact absurd hm.symm h0

/-- An attempt that is NOT failed-and-retried (no error; or the error of the `max`-th attempt; or an error
    the filters stop; or one whose filter lists fail to format) ends the loop as `finishAt` says. -/
theorem retryIter_finish (cfg : RetryCfg) (fr : Frame) (inner : Frame → Body) (max : Option Int)
    (fuel k : Nat) (bo : BackoffState) (s : St)
    (hend : ∀ e h, (attempt fr inner k s).2 = .err e h → atMax max k = false →
      retryFilters cfg (attempt fr inner k s).1 e.name ≠ .ok false) :
    retryIter cfg fr inner max (fuel + 1) k bo s = finishAt cfg max k (attempt fr inner k s) := by
  rcases hp : attempt fr inner k s with ⟨s1, r⟩
  rw [hp] at hend
  cases r with
  | err e h =>
    cases hmx : atMax max k with
    | true => rw [retryIter_last cfg fr inner max fuel k bo s s1 e h hp hmx]; simp [finishAt, hmx]
    | false =>
      have hne := hend e h rfl hmx
      rcases hflt : retryFilters cfg s1 e.name with x | b
      · rw [retryIter_filter_error cfg fr inner max fuel k bo s s1 e h x hp hmx hflt]; simp [finishAt, hmx, hflt]
      · cases b with
        | true => rw [retryIter_stop cfg fr inner max fuel k bo s s1 e h hp hmx hflt]; simp [finishAt, hmx, hflt]
        | false => exact absurd hflt hne
  | _ => rw [retryIter_success cfg fr inner max fuel k bo s s1 _ hp rfl]; simp [finishAt]

/-- with no bound, "not `Retried`" is exactly the condition of `retryIter_finish`. -/
theorem not_retried_finish (cfg : RetryCfg) (fr : Frame) (inner : Frame → Body) (bo : BackoffState) (s : St)
    (n : Nat) (hend : ¬ Retried cfg fr inner bo s n) :
    ∀ e h, (attempt fr inner (n + 1) (before fr inner bo s n).1).2 = .err e h →
      retryFilters cfg (attempt fr inner (n + 1) (before fr inner bo s n).1).1 e.name ≠ .ok false :=
  fun e h he hf => hend ⟨e, h, he, hf⟩

/-- every prefix of attempts either is all `Retried`, or has a first attempt that is not. -/
theorem retried_prefix_or_first (cfg : RetryCfg) (fr : Frame) (inner : Frame → Body) (bo : BackoffState)
    (s : St) (n : Nat) :
    (∀ i, i < n → Retried cfg fr inner bo s i) ∨
    ∃ j, j < n ∧ (∀ i, i < j → Retried cfg fr inner bo s i) ∧ ¬ Retried cfg fr inner bo s j := by
  induction n with
  | zero => exact Or.inl (fun i hi => absurd hi (Nat.not_lt_zero i))
  | succ n ih =>
    rcases ih with hall | ⟨j, hj, h1, h2⟩
    · by_cases hn : Retried cfg fr inner bo s n
      · refine Or.inl (fun i hi => ?_)
        by_cases hin : i < n
        · exact hall i hin
        · have : i = n := by omega
          rw [this]; exact hn
      · exact Or.inr ⟨n, by omega, hall, hn⟩
    · exact Or.inr ⟨j, by omega, h1, h2⟩

end Pypyr.Flow
