/-
  C05 helper definitions and lemmas: the foreach loop as a left fold over the items, the while
  loop as a sequence of numbered iterations, for arbitrary inner bodies, item lists, iteration
  counts and fuel (induction on the list / on the number of iterations).
-/
import Props.Lemmas.C04_Cond

namespace Pypyr.C05
open Pypyr Pypyr.Flow Pypyr.C04

/-! ## foreach -/

/-- `context['i'] = item` -/
def setI (x : Val) (s : St) : St := { s with ctx := Ctx.set s.ctx "i" x }

/-- the outcome of the iteration for item `x` entered in state `s`: the inner layer runs with the
    step's `for_counter` = `x` on the state in which `i` is bound to `x`. -/
def itemOut (fr : Frame) (inner : Frame → Body) (x : Val) (s : St) : St × Res :=
  inner { fr with forI := some x } (setI x s)

/-- thread the state through the items, left to right. -/
def foreachFold (fr : Frame) (inner : Frame → Body) : List Val → St → St
  | [], s => s
  | x :: rest, s => foreachFold fr inner rest (itemOut fr inner x s).1

/-- every iteration of the list (started in `s`) completes normally. -/
def ForeachAllOk (fr : Frame) (inner : Frame → Body) : List Val → St → Prop
  | [], _ => True
  | x :: rest, s => (itemOut fr inner x s).2 = .ok ∧ ForeachAllOk fr inner rest (itemOut fr inner x s).1

theorem foreachItems_nil (fr : Frame) (inner : Frame → Body) (s : St) :
    foreachItems fr inner [] s = (s, .ok) := rfl

theorem foreachItems_cons (fr : Frame) (inner : Frame → Body) (x : Val) (rest : List Val) (s : St) :
    foreachItems fr inner (x :: rest) s =
      (match itemOut fr inner x s with
       | (s1, .ok) => foreachItems fr inner rest s1
       | other => other) := by
  conv => lhs; unfold foreachItems
  rfl

theorem foreachItems_cons_of_ok (fr : Frame) (inner : Frame → Body) (x : Val) (rest : List Val) (s : St)
    (h : (itemOut fr inner x s).2 = .ok) :
    foreachItems fr inner (x :: rest) s = foreachItems fr inner rest (itemOut fr inner x s).1 := by
  rw [foreachItems_cons]
  generalize itemOut fr inner x s = p at h
  obtain ⟨s1, r⟩ := p
  simp only [] at h
  subst h
  rfl

theorem foreachItems_cons_of_nonok (fr : Frame) (inner : Frame → Body) (x : Val) (rest : List Val) (s : St)
    (h : (itemOut fr inner x s).2 ≠ .ok) :
    foreachItems fr inner (x :: rest) s = itemOut fr inner x s := by
  rw [foreachItems_cons]
  generalize itemOut fr inner x s = p at h
  obtain ⟨s1, r⟩ := p
  cases r <;> simp_all

theorem ForeachAllOk_of_forall (fr : Frame) (inner : Frame → Body)
    (h : ∀ fr' s', (inner fr' s').2 = .ok) : ∀ items s, ForeachAllOk fr inner items s := by
  intro items
  induction items with
  | nil => intro s; trivial
  | cons x rest ih => intro s; exact ⟨h _ _, ih _⟩

theorem foreachItems_allOk (fr : Frame) (inner : Frame → Body) :
    ∀ (items : List Val) (s : St), ForeachAllOk fr inner items s →
      foreachItems fr inner items s = (foreachFold fr inner items s, .ok) := by
  intro items
  induction items with
  | nil => intro s _; rfl
  | cons x rest ih =>
    intro s h
    rw [foreachItems_cons_of_ok fr inner x rest s h.1]
    exact ih _ h.2

theorem foreachItems_append (fr : Frame) (inner : Frame → Body) (post : List Val) :
    ∀ (pre : List Val) (s : St), ForeachAllOk fr inner pre s →
      foreachItems fr inner (pre ++ post) s = foreachItems fr inner post (foreachFold fr inner pre s) := by
  intro pre
  induction pre with
  | nil => intro s _; rfl
  | cons x rest ih =>
    intro s h
    rw [List.cons_append, foreachItems_cons_of_ok fr inner x _ s h.1]
    exact ih _ h.2

theorem foreachFold_append (fr : Frame) (inner : Frame → Body) (post : List Val) :
    ∀ (pre : List Val) (s : St),
      foreachFold fr inner (pre ++ post) s = foreachFold fr inner post (foreachFold fr inner pre s) := by
  intro pre
  induction pre with
  | nil => intro s; rfl
  | cons x rest ih => intro s; exact ih _

/-! ## while -/

/-- `context['whileCounter'] = k` -/
def setW (k : Nat) (s : St) : St := { s with ctx := Ctx.set s.ctx "whileCounter" (.int k) }

/-- `time.sleep(sleep)` between two iterations (the recorder appends the duration). -/
def addSleep (sleep : Num) (s : St) : St := { s with sleeps := s.sleeps ++ [numToVal sleep] }

/-- the outcome of iteration number `k` entered in state `s`. -/
def iterOut (fr : Frame) (inner : Frame → Body) (k : Nat) (s : St) : St × Res :=
  inner { fr with whileC := some k } (setW k s)

/-- the `stop` expression evaluated on a state (absent / falsy raw `stop`: never stops). -/
def stopEval (cfg : WhileCfg) (s1 : St) : Except Exc Bool :=
  match cfg.stop with
  | some st => if st.truthy then fmtB s1 st else .ok false
  | none => .ok false

/-- `max` is a real bound (`None` and 0 mean unbounded to `while_until_true`). -/
def whileBounded (max : Option Nat) : Bool :=
  match max with | some m => m != 0 | none => false

def loopExhausted (s1 : St) : St × Res :=
  raiseNew s1 "pypyr.errors.LoopMaxExhaustedError" "~while loop reached max"

/-- `time.sleep(sleep)` on the way to the next iteration: a negative duration raises ValueError
    (nothing is slept), otherwise the sleep is recorded and iteration `k+1` starts. -/
def sleepThenNext (cfg : WhileCfg) (fr : Frame) (inner : Frame → Body) (max : Option Nat) (sleep : Num)
    (eom : Bool) (fuel k : Nat) (s1 : St) : St × Res :=
  if sleep.n < 0 then raiseNew s1 "ValueError" "sleep length must be non-negative"
  else whileIter cfg fr inner max sleep eom fuel (k + 1) (addSleep sleep s1)

/-- what happens after iteration `k` completed normally in state `s1`: evaluate `stop` **on `s1`**;
    true ends the loop; false either sleeps and starts iteration `k+1`, or — at the bound — ends
    the loop, with the loop-exhausted error iff `errorOnMax`. -/
def whileAfter (cfg : WhileCfg) (fr : Frame) (inner : Frame → Body) (max : Option Nat) (sleep : Num)
    (eom : Bool) (fuel k : Nat) (s1 : St) : St × Res :=
  match stopEval cfg s1 with
  | .error x => raiseExc s1 x
  | .ok true => (s1, .ok)
  | .ok false =>
    if whileBounded max then
      if k < max.getD 0 then sleepThenNext cfg fr inner max sleep eom fuel k s1
      else if eom then loopExhausted s1 else (s1, .ok)
    else sleepThenNext cfg fr inner max sleep eom fuel k s1

theorem whileIter_succ (cfg : WhileCfg) (fr : Frame) (inner : Frame → Body) (max : Option Nat) (sleep : Num)
    (eom : Bool) (fuel k : Nat) (s : St) :
    whileIter cfg fr inner max sleep eom (fuel + 1) k s =
      (match iterOut fr inner k s with
       | (s1, .ok) => whileAfter cfg fr inner max sleep eom fuel k s1
       | other => other) := by
  conv => lhs; unfold whileIter
  rfl

theorem whileIter_succ_of_ok (cfg : WhileCfg) (fr : Frame) (inner : Frame → Body) (max : Option Nat) (sleep : Num)
    (eom : Bool) (fuel k : Nat) (s : St) (h : (iterOut fr inner k s).2 = .ok) :
    whileIter cfg fr inner max sleep eom (fuel + 1) k s =
      whileAfter cfg fr inner max sleep eom fuel k (iterOut fr inner k s).1 := by
  rw [whileIter_succ]
  generalize iterOut fr inner k s = p at h
  obtain ⟨s1, r⟩ := p
  simp only [] at h
  subst h
  rfl

theorem whileIter_succ_of_nonok (cfg : WhileCfg) (fr : Frame) (inner : Frame → Body) (max : Option Nat) (sleep : Num)
    (eom : Bool) (fuel k : Nat) (s : St) (h : (iterOut fr inner k s).2 ≠ .ok) :
    whileIter cfg fr inner max sleep eom (fuel + 1) k s = iterOut fr inner k s := by
  rw [whileIter_succ]
  generalize iterOut fr inner k s = p at h
  obtain ⟨s1, r⟩ := p
  cases r <;> simp_all

theorem whileAfter_stop_true (cfg : WhileCfg) (fr : Frame) (inner : Frame → Body) (max : Option Nat) (sleep : Num)
    (eom : Bool) (fuel k : Nat) (s1 : St) (h : stopEval cfg s1 = .ok true) :
    whileAfter cfg fr inner max sleep eom fuel k s1 = (s1, .ok) := by
  unfold whileAfter; rw [h]

theorem whileAfter_continue (cfg : WhileCfg) (fr : Frame) (inner : Frame → Body) (max : Option Nat) (sleep : Num)
    (eom : Bool) (fuel k : Nat) (s1 : St) (h : stopEval cfg s1 = .ok false)
    (hb : whileBounded max = true → k < max.getD 0) (hnn : 0 ≤ sleep.n) :
    whileAfter cfg fr inner max sleep eom fuel k s1 =
      whileIter cfg fr inner max sleep eom fuel (k + 1) (addSleep sleep s1) := by
  have hlt : ¬ sleep.n < 0 := by omega
  unfold whileAfter sleepThenNext; rw [h]
  by_cases hbb : whileBounded max = true
  · simp only [hbb, if_true, hb hbb, hlt, if_false]
  · simp only [hbb, hlt, if_false]; rfl

/-- a negative `sleep`: `time.sleep` raises ValueError where the first sleep would take place - after
    the first iteration that neither stopped the loop nor was the last one; nothing is slept. -/
theorem whileAfter_negative_sleep (cfg : WhileCfg) (fr : Frame) (inner : Frame → Body) (max : Option Nat)
    (sleep : Num) (eom : Bool) (fuel k : Nat) (s1 : St) (h : stopEval cfg s1 = .ok false)
    (hb : whileBounded max = true → k < max.getD 0) (hneg : sleep.n < 0) :
    whileAfter cfg fr inner max sleep eom fuel k s1 =
      raiseNew s1 "ValueError" "sleep length must be non-negative" := by
  unfold whileAfter sleepThenNext; rw [h]
  by_cases hbb : whileBounded max = true
  · simp only [hbb, if_true, hb hbb, hneg]
  · simp only [hbb, hneg, if_true]; rfl

theorem whileAfter_at_max (cfg : WhileCfg) (fr : Frame) (inner : Frame → Body) (max : Option Nat) (sleep : Num)
    (eom : Bool) (fuel k : Nat) (s1 : St) (h : stopEval cfg s1 = .ok false)
    (hb : whileBounded max = true) (hk : ¬ k < max.getD 0) :
    whileAfter cfg fr inner max sleep eom fuel k s1 = (if eom then loopExhausted s1 else (s1, .ok)) := by
  unfold whileAfter; rw [h]
  simp only [hb, if_true, hk, if_false]

/-- the outcome of the `i`-th iteration after iteration `k` (i.e. of iteration number `k+i`) when
    every earlier one completed normally without stopping: each is entered from the state the
    previous one left, plus one sleep. -/
def whileOut (fr : Frame) (inner : Frame → Body) (sleep : Num) : Nat → Nat → St → St × Res
  | 0, k, s => iterOut fr inner k s
  | i + 1, k, s => whileOut fr inner sleep i (k + 1) (addSleep sleep (iterOut fr inner k s).1)

/-- the state in which iteration number `k+i` is entered (before `whileCounter` is set). -/
def whilePre (fr : Frame) (inner : Frame → Body) (sleep : Num) : Nat → Nat → St → St
  | 0, _, s => s
  | i + 1, k, s => whilePre fr inner sleep i (k + 1) (addSleep sleep (iterOut fr inner k s).1)

/-- iteration `k+i` is the inner layer run with `while_counter = k+i` on a context whose
    `whileCounter` is `k+i`. -/
theorem whileOut_eq (fr : Frame) (inner : Frame → Body) (sleep : Num) :
    ∀ (i k : Nat) (s : St),
      whileOut fr inner sleep i k s = iterOut fr inner (k + i) (whilePre fr inner sleep i k s) := by
  intro i
  induction i with
  | zero => intro k s; rfl
  | succ n ih =>
    intro k s
    have e : k + (n + 1) = k + 1 + n := by omega
    rw [e]
    exact ih (k + 1) _

theorem whilePre_succ (fr : Frame) (inner : Frame → Body) (sleep : Num) :
    ∀ (i k : Nat) (s : St),
      whilePre fr inner sleep (i + 1) k s = addSleep sleep (whileOut fr inner sleep i k s).1 := by
  intro i
  induction i with
  | zero => intro k s; rfl
  | succ n ih => intro k s; exact ih (k + 1) _

theorem setW_counter (k : Nat) (s : St) : Ctx.get? (setW k s).ctx "whileCounter" = some (.int k) :=
  ctx_get_set_self _ _ _

theorem setI_i (x : Val) (s : St) : Ctx.get? (setI x s).ctx "i" = some x := ctx_get_set_self _ _ _

/-- runs to the first true `stop`. -/
theorem whileIter_first_stop (cfg : WhileCfg) (fr : Frame) (inner : Frame → Body) (max : Option Nat)
    (sleep : Num) (eom : Bool) (hnn : 0 ≤ sleep.n) :
    ∀ (n k : Nat) (s : St) (fuel : Nat), n < fuel →
      (∀ i, i ≤ n → (whileOut fr inner sleep i k s).2 = .ok) →
      (∀ i, i < n → stopEval cfg (whileOut fr inner sleep i k s).1 = .ok false) →
      stopEval cfg (whileOut fr inner sleep n k s).1 = .ok true →
      (whileBounded max = true → k + n ≤ max.getD 0) →
      whileIter cfg fr inner max sleep eom fuel k s = ((whileOut fr inner sleep n k s).1, .ok) := by
  intro n
  induction n with
  | zero =>
    intro k s fuel hf hok _ hstop _
    obtain ⟨f, rfl⟩ : ∃ f, fuel = f + 1 := ⟨fuel - 1, by omega⟩
    rw [whileIter_succ_of_ok _ _ _ _ _ _ _ _ _ (hok 0 (Nat.le_refl _))]
    exact whileAfter_stop_true cfg fr inner max sleep eom f k _ hstop
  | succ n ih =>
    intro k s fuel hf hok hns hstop hb
    obtain ⟨f, rfl⟩ : ∃ f, fuel = f + 1 := ⟨fuel - 1, by omega⟩
    rw [whileIter_succ_of_ok _ _ _ _ _ _ _ _ _ (hok 0 (Nat.zero_le _))]
    have h0 : stopEval cfg (iterOut fr inner k s).1 = .ok false := hns 0 (Nat.succ_pos _)
    rw [whileAfter_continue cfg fr inner max sleep eom f k _ h0 (fun h => by have := hb h; omega) hnn]
    exact ih (k + 1) _ f (by omega)
      (fun i hi => hok (i + 1) (by omega))
      (fun i hi => hns (i + 1) (by omega))
      hstop
      (fun h => by have := hb h; omega)

/-- `stop` never true: the bounded loop ends after iteration `max`. -/
theorem whileIter_exhausted (cfg : WhileCfg) (fr : Frame) (inner : Frame → Body) (max : Option Nat)
    (sleep : Num) (eom : Bool) (hb : whileBounded max = true) (hnn : 0 ≤ sleep.n) :
    ∀ (n k : Nat) (s : St) (fuel : Nat), n < fuel → k + n = max.getD 0 →
      (∀ i, i ≤ n → (whileOut fr inner sleep i k s).2 = .ok) →
      (∀ i, i ≤ n → stopEval cfg (whileOut fr inner sleep i k s).1 = .ok false) →
      whileIter cfg fr inner max sleep eom fuel k s =
        (if eom then loopExhausted (whileOut fr inner sleep n k s).1
         else ((whileOut fr inner sleep n k s).1, .ok)) := by
  intro n
  induction n with
  | zero =>
    intro k s fuel hf hk hok hns
    obtain ⟨f, rfl⟩ : ∃ f, fuel = f + 1 := ⟨fuel - 1, by omega⟩
    rw [whileIter_succ_of_ok _ _ _ _ _ _ _ _ _ (hok 0 (Nat.le_refl _))]
    exact whileAfter_at_max cfg fr inner max sleep eom f k _ (hns 0 (Nat.le_refl _)) hb (by omega)
  | succ n ih =>
    intro k s fuel hf hk hok hns
    obtain ⟨f, rfl⟩ : ∃ f, fuel = f + 1 := ⟨fuel - 1, by omega⟩
    rw [whileIter_succ_of_ok _ _ _ _ _ _ _ _ _ (hok 0 (Nat.zero_le _))]
    have h0 : stopEval cfg (iterOut fr inner k s).1 = .ok false := hns 0 (Nat.zero_le _)
    rw [whileAfter_continue cfg fr inner max sleep eom f k _ h0 (fun _ => by omega) hnn]
    exact ih (k + 1) _ f (by omega) (by omega)
      (fun i hi => hok (i + 1) (by omega))
      (fun i hi => hns (i + 1) (by omega))

/-- a body that never touches the sleep recorder: after `i+1` iterations exactly `i` sleeps were
    appended, all equal to the once-evaluated `sleep`. -/
theorem whileOut_sleeps (fr : Frame) (inner : Frame → Body) (sleep : Num)
    (hs : ∀ fr' s', (inner fr' s').1.sleeps = s'.sleeps) :
    ∀ (i k : Nat) (s : St),
      (whileOut fr inner sleep i k s).1.sleeps = s.sleeps ++ List.replicate i (numToVal sleep) := by
  intro i
  induction i with
  | zero => intro k s; simp [whileOut, iterOut, hs, setW]
  | succ n ih =>
    intro k s
    show (whileOut fr inner sleep n (k + 1) (addSleep sleep (iterOut fr inner k s).1)).1.sleeps = _
    rw [ih]
    simp [addSleep, iterOut, hs, setW, List.replicate_succ]

/-- a sequence of booleans up to `n` is all-false or has a first true. -/
theorem first_true_or_none (p : Nat → Bool) :
    ∀ n, (∀ i, i ≤ n → p i = false) ∨ ∃ j, j ≤ n ∧ p j = true ∧ ∀ i, i < j → p i = false := by
  intro n
  induction n with
  | zero =>
    cases h : p 0
    · left; intro i hi; have : i = 0 := by omega
      subst this; exact h
    · right; exact ⟨0, Nat.le_refl _, h, fun i hi => by omega⟩
  | succ n ih =>
    rcases ih with hall | ⟨j, hj, hpj, hlt⟩
    · cases h : p (n + 1)
      · left; intro i hi
        by_cases hi' : i ≤ n
        · exact hall i hi'
        · have : i = n + 1 := by omega
          subst this; exact h
      · right; exact ⟨n + 1, Nat.le_refl _, h, fun i hi => hall i (by omega)⟩
    · right; exact ⟨j, by omega, hpj, hlt⟩

/-- The bounded loop, all iterations completing normally and `stop` always evaluating: either it
    ends at the first iteration whose post-execution `stop` is true, or `stop` was false after all
    of iterations `k .. max` and it ends there — with the loop-exhausted error iff `errorOnMax`. -/
theorem whileIter_bounded_outcome (cfg : WhileCfg) (fr : Frame) (inner : Frame → Body) (max : Option Nat)
    (sleep : Num) (eom : Bool) (hb : whileBounded max = true) (hnn : 0 ≤ sleep.n) (n k : Nat) (s : St) (fuel : Nat)
    (hf : n < fuel) (hk : k + n = max.getD 0)
    (hok : ∀ i, i ≤ n → (whileOut fr inner sleep i k s).2 = .ok)
    (hst : ∀ i, i ≤ n → ∃ b, stopEval cfg (whileOut fr inner sleep i k s).1 = .ok b) :
    (∃ j, j ≤ n ∧ (∀ i, i < j → stopEval cfg (whileOut fr inner sleep i k s).1 = .ok false) ∧
        stopEval cfg (whileOut fr inner sleep j k s).1 = .ok true ∧
        whileIter cfg fr inner max sleep eom fuel k s = ((whileOut fr inner sleep j k s).1, .ok)) ∨
    ((∀ i, i ≤ n → stopEval cfg (whileOut fr inner sleep i k s).1 = .ok false) ∧
        whileIter cfg fr inner max sleep eom fuel k s =
          (if eom then loopExhausted (whileOut fr inner sleep n k s).1
           else ((whileOut fr inner sleep n k s).1, .ok))) := by
  let p : Nat → Bool := fun i =>
    match stopEval cfg (whileOut fr inner sleep i k s).1 with
    | .ok b => b
    | .error _ => false
  have hp : ∀ i, i ≤ n → stopEval cfg (whileOut fr inner sleep i k s).1 = .ok (p i) := by
    intro i hi
    obtain ⟨b, hb'⟩ := hst i hi
    show _ = Except.ok (match stopEval cfg (whileOut fr inner sleep i k s).1 with
      | .ok b => b
      | .error _ => false)
    rw [hb']
  rcases first_true_or_none p n with hall | ⟨j, hj, hpj, hlt⟩
  · right
    have hns : ∀ i, i ≤ n → stopEval cfg (whileOut fr inner sleep i k s).1 = .ok false := by
      intro i hi; rw [hp i hi, hall i hi]
    exact ⟨hns, whileIter_exhausted cfg fr inner max sleep eom hb hnn n k s fuel hf hk hok hns⟩
  · left
    have hns : ∀ i, i < j → stopEval cfg (whileOut fr inner sleep i k s).1 = .ok false := by
      intro i hi; rw [hp i (by omega), hlt i hi]
    have hstop : stopEval cfg (whileOut fr inner sleep j k s).1 = .ok true := by rw [hp j hj, hpj]
    exact ⟨j, hj, hns, hstop,
      whileIter_first_stop cfg fr inner max sleep eom hnn j k s fuel (by omega)
        (fun i hi => hok i (by omega)) hns hstop (fun _ => by omega)⟩

end Pypyr.C05
