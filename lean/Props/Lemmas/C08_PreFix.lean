/-
  C08 — HISTORICAL: the ordering of conversion and default recursion in `_format_keep_type` as it
  was *before* /repo commit db7f4e2 ("fix: a single expression with a conversion formats the object,
  then converts"). Nothing here models the current code; it exists so that the defect that commit
  repaired stays stated and machine-checked (`Props/C08.lean`,
  `single_conversion_formats_converted_text_pre_fix`).
-/
import Props.Lemmas.C08_Model

namespace Pypyr.Format.PreFix

/-- `ktField` before the fix: `obj = self.convert_field(obj, conversion)` ran unconditionally, right
    after the `rf` recursion. -/
def ktField (fi : Bool → Val → Except Exc Val) (ctx : Ctx) (isRec : Bool) (f : FieldT) (auto : Option Nat) :
    Except Exc (Entry × Option Nat) :=
  match autoNumber f.name auto with
  | .error e => .error e
  | .ok (name, auto1) =>
    match getField ctx name with
    | .error e => .error e
    | .ok obj =>
      match vfmt 2 ctx f.spec auto1 with
      | .error e => .error e
      | .ok (spec, auto2) =>
        let rs := RSpec.parse spec
        let recursed : Except Exc (Val × RSpec) :=
          if rs.isRecursive || (isRec && !rs.isFlat) then
            match fi true obj with
            | .error e => .error e
            | .ok o => .ok (o, { rs with hasRecursed := true })
          else .ok (obj, rs)
        match recursed with
        | .error e => .error e
        | .ok (obj1, rs1) =>
          match convertField obj1 f.conv with
          | .error e => .error e
          | .ok obj2 => .ok (.fld obj2 rs1, auto2)

def ktLoop (fi : Bool → Val → Except Exc Val) (ctx : Ctx) (isRec : Bool) :
    List Tup → Option Exc → Option Nat → List Entry → Except Exc (List Entry)
  | [], none, _, result => .ok result
  | [], some e, _, _ => .error e
  | t :: ts, perr, auto, result =>
    let result1 := if t.lit = [] then result else result ++ [.lit t.lit]
    match t.field with
    | none => ktLoop fi ctx isRec ts perr auto result1
    | some f =>
      match ktField fi ctx isRec f auto with
      | .error e => .error e
      | .ok (entry, auto1) => ktLoop fi ctx isRec ts perr auto1 (result1 ++ [entry])

/-- `_format_keep_type` before the fix (the finishing rule is the current one: entries built by the
    old `ktField` never carry a pending conversion). -/
def keepType (fi : Bool → Val → Except Exc Val) (ctx : Ctx) (isRec : Bool) (s : List Char) : Except Exc Val :=
  let p := parseTuples s
  match ktLoop fi ctx isRec p.1 p.2 (some 0) [] with
  | .error e => .error e
  | .ok result => ktFinish fi result

mutual
def fmtIter : Nat → Ctx → Bool → Val → Except Exc Val
  | 0, _, _, _ => .error outOfFuel
  | fuel + 1, ctx, isRec, v =>
    match v with
    | .sic s => .ok (.str s)
    | .py e => evalPy ctx e
    | .jsonify w =>
      match fmtIter fuel ctx false w with
      | .error e => .error e
      | .ok fw => match jsonDumps fw with
        | some s => .ok (.str s)
        | none => .error errNotJson
    | .str s => fmtKeepType fuel ctx isRec s.toList
    | .bytes _ => .ok v
    | .dict kvs => (foldPairs (fmtIter fuel ctx isRec) kvs []).map .dict
    | .list xs => (mapE (fmtIter fuel ctx isRec) xs).map .list
    | .tuple xs => (mapE (fmtIter fuel ctx isRec) xs).map .tuple
    | .set xs => (foldSet (fmtIter fuel ctx isRec) xs []).map .set
    | other => .ok other
def fmtKeepType : Nat → Ctx → Bool → List Char → Except Exc Val
  | 0, _, _, _ => .error outOfFuel
  | fuel + 1, ctx, isRec, s => keepType (fun r v => fmtIter fuel ctx r v) ctx isRec s
end

/-- `Context.get_formatted_value` before the fix. -/
def fmtVal (fuel : Nat) (ctx : Ctx) (v : Val) : Except Exc Val := fmtIter fuel ctx false v

end Pypyr.Format.PreFix
