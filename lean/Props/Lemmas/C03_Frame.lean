/-
  C03 helper lemmas: the counters the `Step` object holds (`Frame`) and the counters in the context
  agree at EVERY application of `invoke_step`, under `while`, `foreach`, `retry` and all three combined,
  for a step whose invoker gives the counters back as it found them - which `invoke_step` around a
  `call` / `switch` body does, whatever the called groups did (`invokeStep_restores`).

  "At every application" is stated extensionally: the decorator stack's result depends on the invoker
  ONLY at points `(fr, s)` with `FrameAgrees fr s` (`stepCoreOf_agreeOn`): replacing the invoker by any
  other one that coincides with it on those points changes nothing.
-/
import Props.Lemmas.C03_Restore
import Props.Lemmas.C07_Save

namespace Pypyr.C03
open Pypyr Pypyr.Flow Pypyr.C04 Pypyr.C05

/-- the context's `whileCounter` / `i` / `retryCounter` is the one the `Step` object holds (if it has one). -/
def AgW (fr : Frame) (s : St) : Prop := ∀ w, fr.whileC = some w → Ctx.get? s.ctx "whileCounter" = some (.int w)
def AgI (fr : Frame) (s : St) : Prop := ∀ x, fr.forI = some x → Ctx.get? s.ctx "i" = some x
def AgR (fr : Frame) (s : St) : Prop := ∀ r, fr.retryC = some r → Ctx.get? s.ctx "retryCounter" = some (.int r)

/-- the context holds exactly the loop counters the `Step` object holds (for each decorator the step has). -/
def FrameAgrees (fr : Frame) (s : St) : Prop := AgW fr s ∧ AgI fr s ∧ AgR fr s

/-- an invoker that leaves the counters as the frame has them whenever it is entered so. -/
def Restores (I : Frame → Body) : Prop := ∀ fr s, FrameAgrees fr s → FrameAgrees fr (I fr s).1

/-- `I'` behaves like `I` wherever frame and context agree. -/
def AgreeOn (I I' : Frame → Body) : Prop := ∀ fr s, FrameAgrees fr s → I' fr s = I fr s

theorem AgW.of_get {fr : Frame} {a b : St} (h : Ctx.get? b.ctx "whileCounter" = Ctx.get? a.ctx "whileCounter")
    (ha : AgW fr a) : AgW fr b := fun w hw => by rw [h]; exact ha w hw
theorem AgI.of_get {fr : Frame} {a b : St} (h : Ctx.get? b.ctx "i" = Ctx.get? a.ctx "i")
    (ha : AgI fr a) : AgI fr b := fun x hx => by rw [h]; exact ha x hx
theorem AgR.of_get {fr : Frame} {a b : St} (h : Ctx.get? b.ctx "retryCounter" = Ctx.get? a.ctx "retryCounter")
    (ha : AgR fr a) : AgR fr b := fun r hr => by rw [h]; exact ha r hr

theorem FrameAgrees.of_ctx {fr : Frame} {a b : St}
    (h : ∀ k, k = "whileCounter" ∨ k = "i" ∨ k = "retryCounter" → Ctx.get? b.ctx k = Ctx.get? a.ctx k)
    (ha : FrameAgrees fr a) : FrameAgrees fr b :=
  ⟨ha.1.of_get (h _ (.inl rfl)), ha.2.1.of_get (h _ (.inr (.inl rfl))), ha.2.2.of_get (h _ (.inr (.inr rfl)))⟩

theorem FrameAgrees.sameCtx {fr : Frame} {a b : St} (h : b.ctx = a.ctx) (ha : FrameAgrees fr a) : FrameAgrees fr b :=
  ha.of_ctx (fun _ _ => by rw [h])

/-- the instruction steps never touch the context themselves. -/
theorem cofStep_ctx' (key : String) (isCall : Bool) (s : St) : (cofStep key isCall s).1.ctx = s.ctx := by
  unfold cofStep
  repeat' split
  all_goals rfl

theorem switchScan_ctx' (s : St) (original : Val) :
    ∀ (cases : List Val) (idx : Nat), (switchScan s original cases idx).1.ctx = s.ctx := by
  intro cases
  induction cases with
  | nil => intro idx; rfl
  | cons c rest ih =>
    intro idx
    unfold switchScan
    repeat' split
    all_goals first
      | rfl
      | exact ih _

theorem switchStep_ctx' (s : St) : (switchStep s).1.ctx = s.ctx := by
  unfold switchStep
  repeat' split
  all_goals first
    | rfl
    | exact switchScan_ctx' _ _ _ _

/-! ### `invoke_step` gives the counters back -/

/-- **`invoke_step` around a body that raises a `Call` without touching the state** (the real
    `pypyr.steps.call` / `switch`, any instruction whose key is no counter name) **restores**: entered with
    agreeing counters, it ends with agreeing counters - whatever the called groups did, however they ended
    (normally, error, Stop, …, also when the `assert` on a falsy configuration fires: the counters are written
    back before it). (`hf`: the callee did not run out of the model's fuel.) -/
theorem invokeStep_restores (fr : Frame) (body : Body) (callee : CofCfg → Body) (s : St)
    (hb : ∀ s1 c, body s = (s1, .call c) → s1 = s ∧ c.key ≠ "whileCounter" ∧ c.key ≠ "i" ∧ c.key ≠ "retryCounter")
    (hbn : ∀ s1 r, body s = (s1, r) → (∀ c, r ≠ .call c) → s1.ctx = s.ctx)
    (hf : ∀ s1 c, body s = (s1, .call c) → (callee c s1).2 ≠ .outOfFuel)
    (ha : FrameAgrees fr s) : FrameAgrees fr (invokeStep fr body callee s).1 := by
  generalize hbs : body s = p
  obtain ⟨s1, r⟩ := p
  by_cases hcall : ∃ c, r = .call c
  · obtain ⟨c, rfl⟩ := hcall
    obtain ⟨hs1, hk1, hk2, hk3⟩ := hb s1 c hbs
    by_cases hco : c.original.truthy = true
    · rw [invokeStep_call_eq fr body callee s s1 c hbs hco]
      obtain ⟨r1, r2, r3, _⟩ := resetCounters_restores fr c (callee c s1).1
      exact ⟨fun w hw => r1 w hw hk1, fun x hx => r2 x hx hk2, fun k hk => r3 k hk hk3⟩
    · have hco' : c.original.truthy = false := by simpa using hco
      rw [invokeStep_call_assert fr body callee s s1 (callee c s1).1 c (callee c s1).2 hbs rfl hco' (hf s1 c hbs)]
      have hctx : (raiseNew (resetLoopCounters fr (callee c s1).1) "AssertionError" "").1.ctx =
          countersBack fr (callee c s1).1.ctx := rfl
      exact ⟨fun w hw => by rw [hctx]; exact countersBack_while fr _ w hw,
        fun x hx => by rw [hctx]; exact countersBack_i fr _ x hx,
        fun k hk => by rw [hctx]; exact countersBack_retry fr _ k hk⟩
  · have hne : ∀ c, r ≠ .call c := fun c h => hcall ⟨c, h⟩
    rw [invokeStep_noncall fr body callee s s1 r hbs hne]
    exact ha.sameCtx (hbn s1 r hbs hne)

/-! ### the layers apply the invoker only where frame and context agree -/

theorem saveError_counters (d : StepDef) (s : St) (e : ExcV) (sw : Bool) (k : String)
    (hk : k = "whileCounter" ∨ k = "i" ∨ k = "retryCounter") :
    Ctx.get? (saveError d s e sw).1.ctx k = Ctx.get? s.ctx k := by
  rcases C07.saveError_ctx d s e sw with h | ⟨ent, h⟩
  · rw [h]
  · rw [h]; exact ctx_get_set_ne _ _ _ _ (by rcases hk with rfl | rfl | rfl <;> decide)

/-- the decorator stack over an arbitrary invoker `I` (for `I = invoke_step` it is `C04.stepCore`). -/
def retriedOf (d : StepDef) (I : Frame → Body) (fuel : Nat) : Frame → Body := fun fr =>
  match d.retry with
  | some rc => retryLoop rc { fr with retryC := some 0 } I fuel
  | none => I fr

def conditionalOf (d : StepDef) (I : Frame → Body) (fuel : Nat) : Frame → Body :=
  fun fr => runConditional d (retriedOf d I fuel fr)

def foreachOf (d : StepDef) (I : Frame → Body) (fuel : Nat) : Frame → Body :=
  fun fr => foreachOrConditional d fr (conditionalOf d I fuel)

def stepCoreOf (d : StepDef) (I : Frame → Body) (fuel : Nat) : Body :=
  match d.while_ with
  | some wc => whileLoop wc { whileC := some 0 } (foreachOf d I fuel) fuel
  | none => foreachOf d I fuel {}

theorem stepCore_eq_of (d : StepDef) (body : Body) (callee : CofCfg → Body) (fuel : Nat) :
    stepCore d body callee fuel = stepCoreOf d (fun fr => invokeStep fr body callee) fuel := by
  unfold stepCore stepCoreOf foreachLayer foreachOf conditionalLayer conditionalOf retriedLayer retriedOf
  rfl

/-- a pair (result under `I'` = result under `I`, outer counters agree afterwards) -/
def SameAnd (P : St → Prop) (x x' : St × Res) : Prop := x' = x ∧ P x.1

/-- the retry loop: attempt `k` applies the invoker with frame `retryC = k` on a context whose `retryCounter`
    is `k` and whose other counters are the frame's. -/
theorem retryIter_frame (cfg : RetryCfg) (fr : Frame) (I I' : Frame → Body) (max : Option Int)
    (hres : Restores I) (heq : AgreeOn I I') :
    ∀ (fuel k : Nat) (bo : BackoffState) (s : St), AgW fr s → AgI fr s →
      retryIter cfg fr I' max fuel k bo s = retryIter cfg fr I max fuel k bo s ∧
      AgW fr (retryIter cfg fr I max fuel k bo s).1 ∧ AgI fr (retryIter cfg fr I max fuel k bo s).1 := by
  intro fuel
  induction fuel with
  | zero => intro k bo s hw hi; exact ⟨rfl, hw, hi⟩
  | succ n ih =>
    intro k bo s hw hi
    have ha0 : FrameAgrees { fr with retryC := some k } { s with ctx := Ctx.set s.ctx "retryCounter" (.int k) } :=
      ⟨hw.of_get (ctx_get_set_ne _ _ _ _ (by decide)), hi.of_get (ctx_get_set_ne _ _ _ _ (by decide)),
       fun r hr => by injection hr with hr; subst hr; exact ctx_get_set_self _ _ _⟩
    have e := heq _ _ ha0
    have hr := hres _ _ ha0
    unfold retryIter
    simp only [e]
    generalize I { fr with retryC := some k } { s with ctx := Ctx.set s.ctx "retryCounter" (.int k) } = p at hr
    obtain ⟨s1, r⟩ := p
    have hw1 : AgW fr s1 := hr.1
    have hi1 : AgI fr s1 := hr.2.1
    cases r with
    | err e' handled =>
      simp only []
      repeat' split
      all_goals first
        | exact ⟨rfl, hw1, hi1⟩
        | exact ⟨trivial, hw1, hi1⟩
        | exact ih _ _ _ (hw1.of_get rfl) (hi1.of_get rfl)
    | _ => first | exact ⟨rfl, hw1, hi1⟩ | exact ⟨trivial, hw1, hi1⟩

theorem retryFaulty_frame (cfg : RetryCfg) (fr : Frame) (I I' : Frame → Body) (max : Option Int) (y : Bool)
    (hres : Restores I) (heq : AgreeOn I I') (s : St) (hw : AgW fr s) (hi : AgI fr s) :
    retryFaulty cfg fr I' max y s = retryFaulty cfg fr I max y s ∧
    AgW fr (retryFaulty cfg fr I max y s).1 ∧ AgI fr (retryFaulty cfg fr I max y s).1 := by
  have ha0 : FrameAgrees { fr with retryC := some 1 } { s with ctx := Ctx.set s.ctx "retryCounter" (.int 1) } :=
    ⟨hw.of_get (ctx_get_set_ne _ _ _ _ (by decide)), hi.of_get (ctx_get_set_ne _ _ _ _ (by decide)),
     fun r hr => by injection hr with hr; subst hr; exact ctx_get_set_self _ _ _⟩
  have e := heq _ _ ha0
  have hr := hres _ _ ha0
  unfold retryFaulty
  simp only [e]
  generalize I { fr with retryC := some 1 } { s with ctx := Ctx.set s.ctx "retryCounter" (.int 1) } = p at hr
  obtain ⟨s1, r⟩ := p
  have hw1 : AgW fr s1 := hr.1
  have hi1 : AgI fr s1 := hr.2.1
  cases r with
  | err e' handled =>
    simp only []
    repeat' split
    all_goals first | exact ⟨rfl, hw1, hi1⟩ | exact ⟨trivial, hw1, hi1⟩
  | _ => first | exact ⟨rfl, hw1, hi1⟩ | exact ⟨trivial, hw1, hi1⟩

theorem retryLoop_frame (cfg : RetryCfg) (fr : Frame) (I I' : Frame → Body) (fuel : Nat)
    (hres : Restores I) (heq : AgreeOn I I') (s : St) (hw : AgW fr s) (hi : AgI fr s) :
    retryLoop cfg fr I' fuel s = retryLoop cfg fr I fuel s ∧
    AgW fr (retryLoop cfg fr I fuel s).1 ∧ AgI fr (retryLoop cfg fr I fuel s).1 := by
  have hw0 : AgW fr { s with ctx := Ctx.set s.ctx "retryCounter" (.int 0) } :=
    hw.of_get (ctx_get_set_ne _ _ _ _ (by decide))
  have hi0 : AgI fr { s with ctx := Ctx.set s.ctx "retryCounter" (.int 0) } :=
    hi.of_get (ctx_get_set_ne _ _ _ _ (by decide))
  unfold retryLoop
  simp only []
  repeat' split
  all_goals first
    | exact ⟨rfl, hw0, hi0⟩
    | exact retryIter_frame cfg fr I I' _ hres heq _ _ _ _ hw0 hi0
    | exact retryFaulty_frame cfg fr I I' _ _ hres heq _ hw0 hi0

/-- retry (if declared) around the invoker, for a frame without a retry counter of its own. -/
theorem retriedOf_frame (d : StepDef) (I I' : Frame → Body) (fuel : Nat) (hres : Restores I) (heq : AgreeOn I I')
    (fr : Frame) (hfr : fr.retryC = none) (s : St) (hw : AgW fr s) (hi : AgI fr s) :
    retriedOf d I' fuel fr s = retriedOf d I fuel fr s ∧
    AgW fr (retriedOf d I fuel fr s).1 ∧ AgI fr (retriedOf d I fuel fr s).1 := by
  unfold retriedOf
  cases d.retry with
  | some rc => exact retryLoop_frame rc _ I I' fuel hres heq s hw hi
  | none =>
    have ha : FrameAgrees fr s := ⟨hw, hi, fun r hr => by rw [hfr] at hr; cases hr⟩
    have hr := hres fr s ha
    exact ⟨heq fr s ha, hr.1, hr.2.1⟩

/-- run / skip / swallow around it: afterwards only `runErrors` may have changed. -/
theorem conditionalOf_frame (d : StepDef) (I I' : Frame → Body) (fuel : Nat) (hres : Restores I) (heq : AgreeOn I I')
    (fr : Frame) (hfr : fr.retryC = none) (s : St) (hw : AgW fr s) (hi : AgI fr s) :
    conditionalOf d I' fuel fr s = conditionalOf d I fuel fr s ∧
    AgW fr (conditionalOf d I fuel fr s).1 ∧ AgI fr (conditionalOf d I fuel fr s).1 := by
  obtain ⟨e, hw1, hi1⟩ := retriedOf_frame d I I' fuel hres heq fr hfr s hw hi
  unfold conditionalOf
  constructor
  · unfold runConditional; rw [e]
  · rw [runConditional_eq]
    split
    · exact ⟨hw, hi⟩
    · exact ⟨hw, hi⟩
    · split
      · exact ⟨hw, hi⟩
      · exact ⟨hw, hi⟩
      · generalize retriedOf d I fuel fr s = p at hw1 hi1
        obtain ⟨s1, r⟩ := p
        unfold swallowWrap
        cases r with
        | err e' handled =>
          simp only []
          have hwl : AgW fr (logEscape d s1 e' handled) := hw1.of_get (by rw [logEscape_ctx])
          have hil : AgI fr (logEscape d s1 e' handled) := hi1.of_get (by rw [logEscape_ctx])
          generalize logEscape d s1 e' handled = s1' at hwl hil
          split
          · exact ⟨hwl, hil⟩
          · rename_i sw _
            by_cases hh : handled = true
            · simp only [hh, if_true]; split <;> exact ⟨hwl, hil⟩
            · simp only [hh]
              have hs : AgW fr (saveError d s1' e' sw).1 ∧ AgI fr (saveError d s1' e' sw).1 :=
                ⟨hwl.of_get (saveError_counters d s1' e' sw _ (.inl rfl)),
                 hil.of_get (saveError_counters d s1' e' sw _ (.inr (.inl rfl)))⟩
              generalize saveError d s1' e' sw = q at hs
              obtain ⟨s2, r2⟩ := q
              cases r2 <;> simp only [Bool.false_eq_true, if_false] <;> first | exact hs | (split <;> exact hs)
        | _ => exact ⟨hw1, hi1⟩

/-- foreach: item `x` applies the inner layer with frame `forI = x` on a context whose `i` is `x`. -/
theorem foreachItems_frame (d : StepDef) (I I' : Frame → Body) (fuel : Nat) (hres : Restores I) (heq : AgreeOn I I')
    (fr : Frame) (hfr : fr.retryC = none) :
    ∀ (items : List Val) (s : St), AgW fr s →
      foreachItems fr (conditionalOf d I' fuel) items s = foreachItems fr (conditionalOf d I fuel) items s ∧
      AgW fr (foreachItems fr (conditionalOf d I fuel) items s).1 := by
  intro items
  induction items with
  | nil => intro s hw; exact ⟨rfl, hw⟩
  | cons x rest ih =>
    intro s hw
    have hw0 : AgW { fr with forI := some x } { s with ctx := Ctx.set s.ctx "i" x } :=
      hw.of_get (ctx_get_set_ne _ _ _ _ (by decide))
    have hi0 : AgI { fr with forI := some x } { s with ctx := Ctx.set s.ctx "i" x } :=
      fun y hy => by injection hy with hy; subst hy; exact ctx_get_set_self _ _ _
    obtain ⟨e, hw1, _⟩ := conditionalOf_frame d I I' fuel hres heq { fr with forI := some x } hfr _ hw0 hi0
    unfold foreachItems
    simp only [e]
    generalize conditionalOf d I fuel { fr with forI := some x } { s with ctx := Ctx.set s.ctx "i" x } = p at hw1
    obtain ⟨s1, r⟩ := p
    cases r with
    | ok => exact ih s1 hw1
    | _ => first | exact ⟨rfl, hw1⟩ | exact ⟨trivial, hw1⟩

theorem foreachOf_frame (d : StepDef) (I I' : Frame → Body) (fuel : Nat) (hres : Restores I) (heq : AgreeOn I I')
    (fr : Frame) (hfr : fr.retryC = none) (hfi : fr.forI = none) (s : St) (hw : AgW fr s) :
    foreachOf d I' fuel fr s = foreachOf d I fuel fr s ∧ AgW fr (foreachOf d I fuel fr s).1 := by
  have hi : AgI fr s := fun x hx => by rw [hfi] at hx; cases hx
  have plain := conditionalOf_frame d I I' fuel hres heq fr hfr s hw hi
  unfold foreachOf foreachOrConditional
  cases d.foreach with
  | none => exact ⟨plain.1, plain.2.1⟩
  | some raw =>
    simp only []
    by_cases ht : raw.truthy = true
    · simp only [ht, if_true]
      unfold foreachLoop
      cases fmtV s raw with
      | error x => exact ⟨rfl, hw⟩
      | ok v =>
        simp only []
        cases iterItems v with
        | error x => exact ⟨rfl, hw⟩
        | ok items => exact foreachItems_frame d I I' fuel hres heq fr hfr items s hw
    · simp only [ht]
      exact ⟨plain.1, plain.2.1⟩

/-- while: iteration `k` applies the inner layer with frame `whileC = k` on a context whose `whileCounter` is `k`. -/
theorem whileIter_frame (d : StepDef) (cfg : WhileCfg) (I I' : Frame → Body) (fuel0 : Nat)
    (hres : Restores I) (heq : AgreeOn I I') (fr : Frame) (hfr : fr.retryC = none) (hfi : fr.forI = none)
    (max : Option Nat) (sleep : Num) (eom : Bool) :
    ∀ (fuel k : Nat) (s : St),
      whileIter cfg fr (foreachOf d I' fuel0) max sleep eom fuel k s =
        whileIter cfg fr (foreachOf d I fuel0) max sleep eom fuel k s := by
  intro fuel
  induction fuel with
  | zero => intro k s; rfl
  | succ n ih =>
    intro k s
    have hw0 : AgW { fr with whileC := some k } { s with ctx := Ctx.set s.ctx "whileCounter" (.int k) } :=
      fun w hw => by injection hw with hw; subst hw; exact ctx_get_set_self _ _ _
    obtain ⟨e, _⟩ := foreachOf_frame d I I' fuel0 hres heq { fr with whileC := some k } hfr hfi _ hw0
    unfold whileIter
    simp only [e]
    generalize foreachOf d I fuel0 { fr with whileC := some k } { s with ctx := Ctx.set s.ctx "whileCounter" (.int k) } = p
    obtain ⟨s1, r⟩ := p
    cases r with
    | ok =>
      simp only []
      repeat' split
      all_goals first
        | rfl
        | exact ih _ _
    | _ => rfl

/-- **The whole decorator stack - `while`, `foreach`, `retry`, each optional, any combination - applies the
    invoker only at points where the `Step` object's counters and the context's counters agree**: for an
    invoker `I` that restores (`Restores`), replacing it by ANY `I'` that coincides with it on the agreeing
    points (`AgreeOn`) does not change the result of the step, from any entry state. -/
theorem stepCoreOf_agreeOn (d : StepDef) (I I' : Frame → Body) (fuel : Nat) (hres : Restores I) (heq : AgreeOn I I')
    (s : St) : stepCoreOf d I' fuel s = stepCoreOf d I fuel s := by
  unfold stepCoreOf
  cases d.while_ with
  | none =>
    exact (foreachOf_frame d I I' fuel hres heq {} rfl rfl s (fun w hw => by cases hw)).1
  | some wc =>
    simp only []
    unfold whileLoop
    simp only []
    repeat' split
    all_goals first
      | rfl
      | exact whileIter_frame d wc I I' fuel hres heq _ rfl rfl _ _ _ _ _ _

end Pypyr.C03
