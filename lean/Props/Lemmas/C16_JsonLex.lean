/-
  C16 helper lemmas, lexical level of the JSON round trip (`PypyrModel/Codec.lean`, `Codec.Json`):
  whitespace/indentation, string literals (`escStr` / `pStr`), integers (`prInt` / `pNumber`),
  keyword literals.
-/
import PypyrModel.Codec

namespace Pypyr.Codec.Json

/-! ### Whitespace -/

theorem skipWs_replicate (k : Nat) (X : List Char) : skipWs (List.replicate k ' ' ++ X) = skipWs X := by
  induction k with
  | zero => simp
  | succ k ih => simp [List.replicate_succ, skipWs, isWs, ih]

theorem skipWs_indentOf (l : Nat) (X : List Char) : skipWs (indentOf l ++ X) = skipWs X := by
  simp [indentOf, skipWs, isWs, skipWs_replicate]

theorem skipWs_cons_of_not_ws (c : Char) (X : List Char) (h : isWs c = false) : skipWs (c :: X) = c :: X := by
  simp [skipWs, h]

/-! ### Strings -/

theorem hexVal_hexDigit (a : Nat) (h : a < 16) : hexVal (hexDigit a) = some a := by
  have : a = 0 ∨ a = 1 ∨ a = 2 ∨ a = 3 ∨ a = 4 ∨ a = 5 ∨ a = 6 ∨ a = 7 ∨ a = 8 ∨ a = 9 ∨ a = 10 ∨
      a = 11 ∨ a = 12 ∨ a = 13 ∨ a = 14 ∨ a = 15 := by omega
  rcases this with h | h | h | h | h | h | h | h | h | h | h | h | h | h | h | h <;> subst h <;> decide

theorem pStrM_bs_u (cs acc : List Char) :
    pStrM .norm ('\\' :: 'u' :: cs) acc = pStrM (.u 0 0 none) cs acc := by
  simp [pStrM]

theorem pStrM_u_lt (k v a : Nat) (hi : Option Nat) (cs acc : List Char) (ha : a < 16) (hk : k < 3) :
    pStrM (.u k v hi) (hexDigit a :: cs) acc = pStrM (.u (k + 1) (v * 16 + a) hi) cs acc := by
  simp [pStrM, hexVal_hexDigit a ha, hk]

theorem pStrM_u_last (v a : Nat) (cs acc : List Char) (ha : a < 16) (hn : v * 16 + a < 0xD800) :
    pStrM (.u 3 v none) (hexDigit a :: cs) acc = pStrM .norm cs (Char.ofNat (v * 16 + a) :: acc) := by
  have h1 : ¬ (55296 ≤ v * 16 + a ∧ v * 16 + a ≤ 56319) := by omega
  have h2 : ¬ (56320 ≤ v * 16 + a ∧ v * 16 + a ≤ 57343) := by omega
  simp [pStrM, hexVal_hexDigit a ha, h1, h2]

/-- One escaped character is read back as that character. -/
theorem pStrM_escChar (c : Char) (X acc : List Char) :
    pStrM .norm (escChar c ++ X) acc = pStrM .norm X (c :: acc) := by
  unfold escChar
  split
  · next h => subst h; simp [pStrM, simpleEsc]
  split
  · next h => subst h; simp [pStrM, simpleEsc]
  split
  · next h => subst h; simp [pStrM, simpleEsc]
  split
  · next h => subst h; simp [pStrM, simpleEsc]
  split
  · next h => subst h; simp [pStrM, simpleEsc]
  split
  · next h => subst h; simp [pStrM, simpleEsc]
  split
  · next h => subst h; simp [pStrM, simpleEsc]
  split
  · next hq hb _ _ _ _ _ h32 =>
    have h1 : c.toNat / 16 < 16 := by omega
    have h2 : c.toNat % 16 < 16 := by omega
    have hn : ((0 * 16 + 0) * 16 + c.toNat / 16) * 16 + c.toNat % 16 = c.toNat := by omega
    show pStrM .norm ('\\' :: 'u' :: hexDigit 0 :: hexDigit 0 :: hexDigit (c.toNat / 16) ::
      hexDigit (c.toNat % 16) :: X) acc = _
    rw [pStrM_bs_u, pStrM_u_lt _ _ _ _ _ _ (by decide) (by decide),
      pStrM_u_lt _ _ _ _ _ _ (by decide) (by decide), pStrM_u_lt _ _ _ _ _ _ h1 (by decide),
      pStrM_u_last _ _ _ _ h2 (by omega), hn, Char.ofNat_toNat]
  · next hq hb _ _ _ _ _ h32 =>
    simp [pStrM, hq, hb, h32]

theorem pStrM_escStr (cs : List Char) : ∀ (X acc : List Char),
    pStrM .norm (escStr cs ++ '"' :: X) acc = .ok (acc.reverse ++ cs) X := by
  induction cs with
  | nil => intro X acc; simp [escStr, pStrM]
  | cons c cs ih =>
    intro X acc
    simp only [escStr, List.append_assoc]
    rw [pStrM_escChar, ih]
    simp

/-- `scanstring` reads back what `prStr` printed (after the opening quote). -/
theorem pStr_escStr (s : String) (X : List Char) :
    pStr (escStr s.toList ++ '"' :: X) [] = .ok s.toList X := by
  simp [pStr, pStrM_escStr]

/-! ### Integers -/

def dstep (a : Nat) (c : Char) : Nat := a * 10 + (c.toNat - 48)

theorem digit_spec (n : Nat) : (digit n).isDigit = true ∧ (digit n).toNat - 48 = n % 10 ∧
    (n % 10 ≠ 0 → digit n ≠ '0') ∧ (n % 10 = 0 → digit n = '0') := by
  unfold digit
  have : n % 10 < 10 := Nat.mod_lt _ (by decide)
  generalize n % 10 = m at *
  have : m = 0 ∨ m = 1 ∨ m = 2 ∨ m = 3 ∨ m = 4 ∨ m = 5 ∨ m = 6 ∨ m = 7 ∨ m = 8 ∨ m = 9 := by omega
  rcases this with h | h | h | h | h | h | h | h | h | h <;> subst h <;> decide

/-- The digits `digitsAux` produces: all decimal digits, value `n`, no leading zero unless `n = 0`. -/
theorem digitsAux_spec : ∀ (f n : Nat) (acc : List Char), n ≤ f →
    ∃ c ds, digitsAux f n acc = c :: ds ++ acc ∧ (∀ x ∈ c :: ds, x.isDigit = true) ∧
      (c :: ds).foldl dstep 0 = n ∧ (n = 0 → c = '0' ∧ ds = []) ∧ (n ≠ 0 → c ≠ '0') := by
  intro f
  induction f with
  | zero =>
    intro n acc h
    have : n = 0 := by omega
    subst this
    exact ⟨'0', [], by simp [digitsAux]; decide, by simp, by simp [dstep], by simp, by simp⟩
  | succ f ih =>
    intro n acc h
    obtain ⟨hd, hv, hnz, hz⟩ := digit_spec n
    unfold digitsAux
    split
    · next hlt =>
      have hm : n % 10 = n := Nat.mod_eq_of_lt hlt
      rw [hm] at hv hnz hz
      refine ⟨digit n, [], by simp, by simp [hd], by simp [dstep, hv], ?_, hnz⟩
      intro h0; exact ⟨hz h0, rfl⟩
    · next hge =>
      obtain ⟨c, ds, he, hall, hval, _, hnz'⟩ := ih (n / 10) (digit n :: acc) (by omega)
      refine ⟨c, ds ++ [digit n], by simp [he], ?_, ?_, by omega, ?_⟩
      · intro x hx
        simp only [List.mem_cons, List.mem_append, List.not_mem_nil, or_false] at hx
        rcases hx with hx | hx | hx
        · exact hall x (by simp [hx])
        · exact hall x (by simp [hx])
        · rw [hx]; exact hd
      · have : (c :: (ds ++ [digit n])) = (c :: ds) ++ [digit n] := by simp
        rw [this, List.foldl_append, hval]
        simp only [List.foldl_cons, List.foldl_nil, dstep, hv]
        omega
      · intro _; exact hnz' (by omega)

theorem readNat_digits (ds : List Char) : ∀ (a : Nat) (rest : List Char),
    (∀ x ∈ ds, x.isDigit = true) → readNat a (ds ++ rest) = readNat (ds.foldl dstep a) rest := by
  induction ds with
  | nil => intro a rest _; simp
  | cons d ds ih =>
    intro a rest h
    have hd : d.isDigit = true := h d (by simp)
    simp only [List.cons_append, readNat, hd, if_true, List.foldl_cons]
    rw [ih _ _ (fun x hx => h x (by simp [hx]))]
    rfl

/-- What may follow a printed value: nothing, or a character that neither continues a number nor
    starts a fraction/exponent. -/
def okTail : List Char → Prop
  | [] => True
  | c :: _ => c.isDigit = false ∧ c ≠ '.' ∧ c ≠ 'e' ∧ c ≠ 'E'

theorem readNat_okTail (a : Nat) (rest : List Char) (h : okTail rest) : readNat a rest = (a, rest) := by
  cases rest with
  | nil => simp [readNat]
  | cons c r => simp [okTail] at h; simp [readNat, h.1]

theorem isFloatTail_okTail (rest : List Char) (h : okTail rest) : isFloatTail rest = false := by
  unfold isFloatTail
  split <;> simp_all [okTail]

theorem pNat_natDigits (n : Nat) (rest : List Char) (h : okTail rest) :
    pNat (natDigits n ++ rest) = .ok n rest := by
  obtain ⟨c, ds, he, hall, hval, hz, hnz⟩ := digitsAux_spec n n [] (Nat.le_refl _)
  simp only [natDigits, he, List.append_nil, List.cons_append, pNat]
  by_cases h0 : n = 0
  · obtain ⟨hc, hds⟩ := hz h0
    subst hc hds h0
    simp
  · have hc : c.isDigit = true := hall c (by simp)
    have := readNat_digits (c :: ds) 0 rest hall
    simp only [List.cons_append] at this
    simp only [hnz h0, if_false, hc, if_true, this, hval, readNat_okTail _ _ h]

theorem natDigits_head (n : Nat) : ∃ c ds, natDigits n = c :: ds ∧ c.isDigit = true := by
  obtain ⟨c, ds, he, hall, _⟩ := digitsAux_spec n n [] (Nat.le_refl _)
  exact ⟨c, ds, by simpa [natDigits] using he, hall c (by simp)⟩

theorem pNumber_natDigits (neg : Bool) (n : Nat) (rest : List Char) (h : okTail rest) :
    pNumber neg (natDigits n ++ rest) = .ok (.int (if neg then -(Int.ofNat n) else Int.ofNat n)) rest := by
  simp [pNumber, pNat_natDigits n rest h, isFloatTail_okTail rest h]

end Pypyr.Codec.Json
