/-
  C16 helper lemmas, lexical level of the JSON round trip (`PypyrModel/Codec.lean`, `Codec.Json`):
  whitespace/indentation for every `indent` setting (`nl` / `sep`), string literals for both
  `ensure_ascii` settings (`escStr` / `pStr`: short escapes, `\\uXXXX`, surrogate pairs), integers
  (`prInt` / `pNumber`). Floats: `Props/Lemmas/C16_JsonFloat.lean`.
-/
import PypyrModel.Codec

namespace Pypyr.Codec.Json

/-! ### Whitespace -/

theorem skipWs_replicate (k : Nat) (X : List Char) : skipWs (List.replicate k ' ' ++ X) = skipWs X := by
  induction k with
  | zero => simp
  | succ k ih => simp [List.replicate_succ, skipWs, isWs, ih]

theorem skipWs_nl (o : Opts) (l : Nat) (X : List Char) : skipWs (nl o l ++ X) = skipWs X := by
  unfold nl
  split <;> simp [skipWs, isWs, skipWs_replicate]

theorem skipWs_sep (o : Opts) (l : Nat) (X : List Char) : skipWs (sep o l ++ X) = skipWs X := by
  unfold sep
  split <;> simp [skipWs, isWs, skipWs_replicate]

theorem skipWs_cons_of_not_ws (c : Char) (X : List Char) (h : isWs c = false) : skipWs (c :: X) = c :: X := by
  simp [skipWs, h]

/-! ### Strings -/

theorem hexVal_hexDigit (a : Nat) (h : a < 16) : hexVal (hexDigit a) = some a := by
  have : a = 0 ∨ a = 1 ∨ a = 2 ∨ a = 3 ∨ a = 4 ∨ a = 5 ∨ a = 6 ∨ a = 7 ∨ a = 8 ∨ a = 9 ∨ a = 10 ∨
      a = 11 ∨ a = 12 ∨ a = 13 ∨ a = 14 ∨ a = 15 := by omega
  rcases this with h | h | h | h | h | h | h | h | h | h | h | h | h | h | h | h <;> subst h <;> decide

theorem pStrM_bs_u (cs acc : List Char) :
    pStrM .norm ('\\' :: 'u' :: cs) acc = pStrM (.u 0 0 none) cs acc := by
  simp [pStrM]

theorem pStrM_u_lt (k v a : Nat) (hi : Option Nat) (cs acc : List Char) (ha : a < 16) (hk : k < 3) :
    pStrM (.u k v hi) (hexDigit a :: cs) acc = pStrM (.u (k + 1) (v * 16 + a) hi) cs acc := by
  simp [pStrM, hexVal_hexDigit a ha, hk]

/-- The last of four hex digits, no high surrogate pending: a character of the BMP. -/
theorem pStrM_u_last (v a : Nat) (cs acc : List Char) (ha : a < 16)
    (hn : v * 16 + a < 0xD800 ∨ 0xDFFF < v * 16 + a) :
    pStrM (.u 3 v none) (hexDigit a :: cs) acc = pStrM .norm cs (Char.ofNat (v * 16 + a) :: acc) := by
  have h1 : ¬ (55296 ≤ v * 16 + a ∧ v * 16 + a ≤ 56319) := by omega
  have h2 : ¬ (56320 ≤ v * 16 + a ∧ v * 16 + a ≤ 57343) := by omega
  simp [pStrM, hexVal_hexDigit a ha, h1, h2]

/-- … a high surrogate: the scanner waits for the low one. -/
theorem pStrM_u_last_hi (v a : Nat) (cs acc : List Char) (ha : a < 16)
    (hn : 0xD800 ≤ v * 16 + a ∧ v * 16 + a ≤ 0xDBFF) :
    pStrM (.u 3 v none) (hexDigit a :: cs) acc = pStrM (.hi1 (v * 16 + a)) cs acc := by
  simp [pStrM, hexVal_hexDigit a ha, hn]

/-- … the low surrogate after a high one: the pair is one character. -/
theorem pStrM_u_last_lo (v a h0 : Nat) (cs acc : List Char) (ha : a < 16)
    (hn : 0xDC00 ≤ v * 16 + a ∧ v * 16 + a ≤ 0xDFFF) :
    pStrM (.u 3 v (some h0)) (hexDigit a :: cs) acc =
      pStrM .norm cs (Char.ofNat (0x10000 + (h0 - 0xD800) * 1024 + (v * 16 + a - 0xDC00)) :: acc) := by
  simp [pStrM, hexVal_hexDigit a ha, hn]

theorem u4_value (n : Nat) (h : n < 0x10000) :
    n / 4096 < 16 ∧ n / 256 % 16 < 16 ∧ n / 16 % 16 < 16 ∧ n % 16 < 16 ∧
    (((0 * 16 + n / 4096) * 16 + n / 256 % 16) * 16 + n / 16 % 16) * 16 + n % 16 = n := by
  omega

/-- `\uXXXX` of a BMP code point that is not a surrogate reads back as that code point. -/
theorem pStrM_u4_bmp (n : Nat) (X acc : List Char) (h : n < 0xD800 ∨ (0xDFFF < n ∧ n < 0x10000)) :
    pStrM .norm (u4 n ++ X) acc = pStrM .norm X (Char.ofNat n :: acc) := by
  obtain ⟨h1, h2, h3, h4, hv⟩ := u4_value n (by omega)
  show pStrM .norm ('\\' :: 'u' :: hexDigit (n / 4096) :: hexDigit (n / 256 % 16) ::
    hexDigit (n / 16 % 16) :: hexDigit (n % 16) :: X) acc = _
  rw [pStrM_bs_u, pStrM_u_lt _ _ _ _ _ _ h1 (by decide), pStrM_u_lt _ _ _ _ _ _ h2 (by decide),
    pStrM_u_lt _ _ _ _ _ _ h3 (by decide), pStrM_u_last _ _ _ _ h4 (by omega), hv]

/-- `\ud8xx\udcxx` reads back as the one character the pair encodes. -/
theorem pStrM_u4_pair (hi lo : Nat) (X acc : List Char) (hh : 0xD800 ≤ hi ∧ hi ≤ 0xDBFF)
    (hl : 0xDC00 ≤ lo ∧ lo ≤ 0xDFFF) :
    pStrM .norm (u4 hi ++ (u4 lo ++ X)) acc =
      pStrM .norm X (Char.ofNat (0x10000 + (hi - 0xD800) * 1024 + (lo - 0xDC00)) :: acc) := by
  obtain ⟨h1, h2, h3, h4, hv⟩ := u4_value hi (by omega)
  obtain ⟨l1, l2, l3, l4, lv⟩ := u4_value lo (by omega)
  show pStrM .norm ('\\' :: 'u' :: hexDigit (hi / 4096) :: hexDigit (hi / 256 % 16) ::
    hexDigit (hi / 16 % 16) :: hexDigit (hi % 16) :: '\\' :: 'u' :: hexDigit (lo / 4096) ::
    hexDigit (lo / 256 % 16) :: hexDigit (lo / 16 % 16) :: hexDigit (lo % 16) :: X) acc = _
  rw [pStrM_bs_u, pStrM_u_lt _ _ _ _ _ _ h1 (by decide), pStrM_u_lt _ _ _ _ _ _ h2 (by decide),
    pStrM_u_lt _ _ _ _ _ _ h3 (by decide), pStrM_u_last_hi _ _ _ _ h4 (by omega), hv]
  have e1 : pStrM (.hi1 hi) ('\\' :: 'u' :: hexDigit (lo / 4096) :: hexDigit (lo / 256 % 16) ::
      hexDigit (lo / 16 % 16) :: hexDigit (lo % 16) :: X) acc =
      pStrM (.u 0 0 (some hi)) (hexDigit (lo / 4096) :: hexDigit (lo / 256 % 16) ::
      hexDigit (lo / 16 % 16) :: hexDigit (lo % 16) :: X) acc := by
    simp [pStrM]
  rw [e1, pStrM_u_lt _ _ _ _ _ _ l1 (by decide), pStrM_u_lt _ _ _ _ _ _ l2 (by decide),
    pStrM_u_lt _ _ _ _ _ _ l3 (by decide), pStrM_u_last_lo _ _ _ _ _ l4 (by omega), lv]

theorem char_valid (c : Char) : c.toNat < 0xD800 ∨ (0xDFFF < c.toNat ∧ c.toNat < 0x110000) := c.valid

/-- One escaped character is read back as that character — for either `ensure_ascii` setting. -/
theorem pStrM_escChar (ascii : Bool) (c : Char) (X acc : List Char) :
    pStrM .norm (escChar ascii c ++ X) acc = pStrM .norm X (c :: acc) := by
  unfold escChar
  split
  · next h => subst h; simp [pStrM, simpleEsc]
  split
  · next h => subst h; simp [pStrM, simpleEsc]
  split
  · next h => subst h; simp [pStrM, simpleEsc]
  split
  · next h => subst h; simp [pStrM, simpleEsc]
  split
  · next h => subst h; simp [pStrM, simpleEsc]
  split
  · next h => subst h; simp [pStrM, simpleEsc]
  split
  · next h => subst h; simp [pStrM, simpleEsc]
  have hval := char_valid c
  split
  · split
    · next hlt =>
      rw [pStrM_u4_bmp c.toNat X acc (by omega), Char.ofNat_toNat]
    · next hge =>
      have hv : c.toNat - 0x10000 < 0x100000 := by omega
      rw [List.append_assoc, pStrM_u4_pair _ _ X acc (by omega) (by omega)]
      have : 0x10000 + (0xD800 + (c.toNat - 0x10000) / 1024 - 0xD800) * 1024 +
          (0xDC00 + (c.toNat - 0x10000) % 1024 - 0xDC00) = c.toNat := by omega
      rw [this, Char.ofNat_toNat]
  · next hq hb _ _ _ _ _ hesc =>
    have h32 : ¬ c.toNat < 32 := by
      intro h; apply hesc; simp [h]
    simp [pStrM, hq, hb, h32]

theorem pStrM_escStr (ascii : Bool) (cs : List Char) : ∀ (X acc : List Char),
    pStrM .norm (escStr ascii cs ++ '"' :: X) acc = .ok (acc.reverse ++ cs) X := by
  induction cs with
  | nil => intro X acc; simp [escStr, pStrM]
  | cons c cs ih =>
    intro X acc
    simp only [escStr, List.append_assoc]
    rw [pStrM_escChar, ih]
    simp

/-- `scanstring` reads back what `prStr` printed (after the opening quote). -/
theorem pStr_escStr (ascii : Bool) (s : String) (X : List Char) :
    pStr (escStr ascii s.toList ++ '"' :: X) [] = .ok s.toList X := by
  simp [pStr, pStrM_escStr]

/-! ### Integers -/

def dstep (a : Nat) (c : Char) : Nat := a * 10 + (c.toNat - 48)

theorem digit_spec (n : Nat) : (digit n).isDigit = true ∧ (digit n).toNat - 48 = n % 10 ∧
    (n % 10 ≠ 0 → digit n ≠ '0') ∧ (n % 10 = 0 → digit n = '0') := by
  unfold digit
  have : n % 10 < 10 := Nat.mod_lt _ (by decide)
  generalize n % 10 = m at *
  have : m = 0 ∨ m = 1 ∨ m = 2 ∨ m = 3 ∨ m = 4 ∨ m = 5 ∨ m = 6 ∨ m = 7 ∨ m = 8 ∨ m = 9 := by omega
  rcases this with h | h | h | h | h | h | h | h | h | h <;> subst h <;> decide

/-- The digits `digitsAux` produces: all decimal digits, value `n`, no leading zero unless `n = 0`. -/
theorem digitsAux_spec : ∀ (f n : Nat) (acc : List Char), n ≤ f →
    ∃ c ds, digitsAux f n acc = c :: ds ++ acc ∧ (∀ x ∈ c :: ds, x.isDigit = true) ∧
      (c :: ds).foldl dstep 0 = n ∧ (n = 0 → c = '0' ∧ ds = []) ∧ (n ≠ 0 → c ≠ '0') := by
  intro f
  induction f with
  | zero =>
    intro n acc h
    have : n = 0 := by omega
    subst this
    exact ⟨'0', [], by simp [digitsAux]; decide, by simp, by simp [dstep], by simp, by simp⟩
  | succ f ih =>
    intro n acc h
    obtain ⟨hd, hv, hnz, hz⟩ := digit_spec n
    unfold digitsAux
    split
    · next hlt =>
      have hm : n % 10 = n := Nat.mod_eq_of_lt hlt
      rw [hm] at hv hnz hz
      refine ⟨digit n, [], by simp, by simp [hd], by simp [dstep, hv], ?_, hnz⟩
      intro h0; exact ⟨hz h0, rfl⟩
    · next hge =>
      obtain ⟨c, ds, he, hall, hval, _, hnz'⟩ := ih (n / 10) (digit n :: acc) (by omega)
      refine ⟨c, ds ++ [digit n], by simp [he], ?_, ?_, by omega, ?_⟩
      · intro x hx
        simp only [List.mem_cons, List.mem_append, List.not_mem_nil, or_false] at hx
        rcases hx with hx | hx | hx
        · exact hall x (by simp [hx])
        · exact hall x (by simp [hx])
        · rw [hx]; exact hd
      · have : (c :: (ds ++ [digit n])) = (c :: ds) ++ [digit n] := by simp
        rw [this, List.foldl_append, hval]
        simp only [List.foldl_cons, List.foldl_nil, dstep, hv]
        omega
      · intro _; exact hnz' (by omega)

theorem readNat_digits (ds : List Char) : ∀ (a : Nat) (rest : List Char),
    (∀ x ∈ ds, x.isDigit = true) → readNat a (ds ++ rest) = readNat (ds.foldl dstep a) rest := by
  induction ds with
  | nil => intro a rest _; simp
  | cons d ds ih =>
    intro a rest h
    have hd : d.isDigit = true := h d (by simp)
    simp only [List.cons_append, readNat, hd, if_true, List.foldl_cons]
    rw [ih _ _ (fun x hx => h x (by simp [hx]))]
    rfl

/-- What may follow a printed value: nothing, or a character that neither continues a number nor
    starts a fraction/exponent. -/
def okTail : List Char → Prop
  | [] => True
  | c :: _ => c.isDigit = false ∧ c ≠ '.' ∧ c ≠ 'e' ∧ c ≠ 'E'

/-- The input does not go on with a digit. -/
def ndHead : List Char → Prop
  | [] => True
  | c :: _ => c.isDigit = false

theorem okTail_ndHead (rest : List Char) (h : okTail rest) : ndHead rest := by
  cases rest with
  | nil => trivial
  | cons c r => exact h.1

theorem readNat_ndHead (a : Nat) (rest : List Char) (h : ndHead rest) : readNat a rest = (a, rest) := by
  cases rest with
  | nil => simp [readNat]
  | cons c r => simp only [ndHead] at h; simp [readNat, h]

theorem isExpTail_okTail (rest : List Char) (h : okTail rest) : isExpTail rest = false := by
  unfold isExpTail
  split <;> simp_all [okTail]

theorem pNat_natDigits' (n : Nat) (rest : List Char) (h : ndHead rest) :
    pNat (natDigits n ++ rest) = .ok n rest := by
  obtain ⟨c, ds, he, hall, hval, hz, hnz⟩ := digitsAux_spec n n [] (Nat.le_refl _)
  simp only [natDigits, he, List.append_nil, List.cons_append, pNat]
  by_cases h0 : n = 0
  · obtain ⟨hc, hds⟩ := hz h0
    subst hc hds h0
    simp
  · have hc : c.isDigit = true := hall c (by simp)
    have := readNat_digits (c :: ds) 0 rest hall
    simp only [List.cons_append] at this
    simp only [hnz h0, if_false, hc, if_true, this, hval, readNat_ndHead _ _ h]

theorem pNat_natDigits (n : Nat) (rest : List Char) (h : okTail rest) :
    pNat (natDigits n ++ rest) = .ok n rest :=
  pNat_natDigits' n rest (okTail_ndHead rest h)

theorem natDigits_isDigit (n : Nat) : ∀ x ∈ natDigits n, x.isDigit = true := by
  obtain ⟨c, ds, he, hall, _⟩ := digitsAux_spec n n [] (Nat.le_refl _)
  have e : natDigits n = c :: ds := by simpa [natDigits] using he
  rw [e]; exact hall

theorem natDigits_value (n : Nat) : (natDigits n).foldl dstep 0 = n := by
  obtain ⟨c, ds, he, _, hval, _⟩ := digitsAux_spec n n [] (Nat.le_refl _)
  have e : natDigits n = c :: ds := by simpa [natDigits] using he
  rw [e]; exact hval

theorem natDigits_head (n : Nat) : ∃ c ds, natDigits n = c :: ds ∧ c.isDigit = true := by
  obtain ⟨c, ds, he, hall, _⟩ := digitsAux_spec n n [] (Nat.le_refl _)
  exact ⟨c, ds, by simpa [natDigits] using he, hall c (by simp)⟩

theorem pNumber_natDigits (neg : Bool) (n : Nat) (rest : List Char) (h : okTail rest) :
    pNumber neg (natDigits n ++ rest) = .ok (.int (sgn neg n)) rest := by
  simp only [pNumber, pNat_natDigits n rest h]
  split
  · simp [okTail] at h
  · simp [isExpTail_okTail rest h]

end Pypyr.Codec.Json
