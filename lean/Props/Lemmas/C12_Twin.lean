/-
  C12 helper lemmas, part 3: two heaps that agree on the shared regions and in which run r2's arena
  is run r1's arena with the region renamed (`HTwin r1 r2 h h'`); two states (`Twin`): twin heaps and
  run r2 is over in the one iff run r1 is over in the other.

  `effect_twin`: an operation computes, in run r2 of h', the renamed effect it computes in run r1
  of h – it reads nothing but the run's own arena and the shared arenas.  With r1 = r2 this is
  "what run r does depends only on its own arena and the shared arenas" (the interleaving theorem);
  with r1 ≠ r2 it is "a second run does what the first did" (the re-run theorem).  In particular the
  operation RAISES in the one iff it raises in the other: the two runs end at the same operation.
-/
import Props.Lemmas.C12_Sep

namespace Pypyr.C12
open Pypyr.RunHeap

structure HTwin (r1 r2 : Nat) (h h' : Heap) : Prop where
  shared : ∀ g, g.isShared = true → h'.arena g = h.arena g
  own : h'.arena (.run r2) = (h.arena (.run r1)).map (renCell r1 r2)

structure Twin (r1 r2 : Nat) (st st' : State) : Prop where
  heap : HTwin r1 r2 st.heap st'.heap
  dead : st'.dead r2 = st.dead r1

def renEffect (r1 r2 : Nat) (e : Effect) : Effect :=
  ⟨e.allocs.map (renCell r1 r2), e.write.map fun xc => (ren r1 r2 xc.1, renCell r1 r2 xc.2)⟩

section
variable {r1 r2 : Nat} {h h' : Heap}

theorem twin_len (hT : HTwin r1 r2 h h') : (h'.arena (.run r2)).length = (h.arena (.run r1)).length := by
  rw [hT.own, List.length_map]

theorem twin_get (hT : HTwin r1 r2 h h') {x : Ref} (hx : x.reg = .run r1) :
    h'.get? (ren r1 r2 x) = (h.get? x).map (renCell r1 r2) := by
  rw [ren_run hx]
  simp only [Heap.get?, hT.own, hx, List.getElem?_map]

theorem twin_get_root (hT : HTwin r1 r2 h h') :
    h'.get? (root r2) = (h.get? (root r1)).map (renCell r1 r2) := by
  rw [← ren_root r1 r2]; exact twin_get hT rfl

theorem twin_get_shared (hT : HTwin r1 r2 h h') {x : Ref} (hx : x.reg.isShared = true) :
    h'.get? x = h.get? x := by
  simp only [Heap.get?, hT.shared _ hx]

theorem twin_resolve (hS : Sep h) (hT : HTwin r1 r2 h h') {p : Path} {a : Ref} (ha : a.reg = .run r1) :
    resolve h' (ren r1 r2 a) p = (resolve h a p).map (ren r1 r2) := by
  induction p generalizing a with
  | nil => rfl
  | cons s rest ih =>
    simp only [resolve]
    rw [twin_get hT ha]
    cases hc : h.get? a with
    | none => rfl
    | some c =>
      simp only [Option.map_some, follow_ren]
      cases hb : c.follow s with
      | none => rfl
      | some b =>
        simp only [Option.map_some]
        exact ih (by rw [← ha]; exact hS.get hc b (follow_mem hb))

theorem twin_resolve_root (hS : Sep h) (hT : HTwin r1 r2 h h') (p : Path) :
    resolve h' (root r2) p = (resolve h (root r1) p).map (ren r1 r2) := by
  rw [← ren_root r1 r2]; exact twin_resolve hS hT rfl

theorem shift_ren {g : Region} {base : Nat} {c : Cell} (hc : CellIn g c) :
    renCell r1 r2 (Cell.shift g (.run r1) base c) = Cell.shift g (.run r2) base c := by
  simp only [renCell, Cell.shift, mapRefs_mapRefs]
  apply mapRefs_congr
  intro x hx
  simp only [shiftRef_reg (hc x hx), ren_mk]

theorem twin_copyArena (hS : Sep h) (hT : HTwin r1 r2 h h') {g : Region} (hg : g.isShared = true)
    (base : Nat) :
    copyArena h' g (.run r2) base = (copyArena h g (.run r1) base).map (renCell r1 r2) := by
  simp only [copyArena, hT.shared g hg, List.map_map]
  apply List.map_congr_left
  intro c hc
  simp only [Function.comp, shift_ren (hS.closed g c hc)]

theorem twin_isPresent (hT : HTwin r1 r2 h h') {rs : List Ref} (hrs : ∀ y ∈ rs, y.reg = .run r1)
    (v : Block) : isPresent h' (rs.map (ren r1 r2)) v = isPresent h rs v := by
  unfold isPresent
  split
  · rename_i w
    induction rs with
    | nil => rfl
    | cons y rest ih =>
      simp only [List.map_cons, List.any_cons]
      rw [ih (fun z hz => hrs z (List.mem_cons_of_mem _ hz)), twin_get hT (hrs y List.mem_cons_self)]
      cases h.get? y with
      | none => rfl
      | some c => cases c <;> rfl
  · rfl

/-! ### the helpers of `effect` -/

theorem updateCopy_twin (hS : Sep h) (hT : HTwin r1 r2 h h') (src : Ref) :
    updateCopy h' r2 src = (updateCopy h r1 src).map (renEffect r1 r2) := by
  unfold updateCopy
  by_cases hg : src.reg.isShared = true
  · simp only [hg, if_true]
    rw [twin_get_root hT, twin_get_shared hT hg, twin_len hT, twin_copyArena hS hT hg]
    cases hroot : h.get? (root r1) with
    | none => rfl
    | some c =>
      cases c with
      | dict kvs =>
        cases hsrc : h.get? src with
        | none => rfl
        | some cs =>
          cases cs with
          | dict skvs =>
            simp only [Option.map_some, renCell_dict, renEffect, Option.some.injEq]
            congr 2
            simp only [Prod.mk.injEq, ren_root, true_and, CellOf.dict.injEq]
            rw [← kvUpdate_map, List.map_map]
            congr 1
            apply List.map_congr_left
            intro kv hkv
            have hk : kv.2.reg = src.reg := cellIn_dict.1 (hS.get hsrc) kv hkv
            simp only [Function.comp, shiftRef_reg hk, ren_mk]
          | _ => rfl
      | _ => rfl
  · simp only [hg]; rfl

theorem extendEffect_twin (hS : Sep h) (hT : HTwin r1 r2 h h') (p : Path) (vs : List Block) :
    extendEffect h' r2 p vs = (extendEffect h r1 p vs).map (renEffect r1 r2) := by
  unfold extendEffect
  rw [twin_resolve_root hS hT]
  cases hx : resolve h (root r1) p with
  | none => rfl
  | some x =>
    have hxr : x.reg = .run r1 := resolve_reg hS hx
    simp only [Option.map_some]
    rw [twin_get hT hxr, twin_len hT]
    cases hc : h.get? x with
    | none => rfl
    | some c =>
      cases c with
      | list rs =>
        simp only [Option.map_some, renCell_list, renEffect, (relocAll_ren r1 r2 _ vs).1,
          (relocAll_ren r1 r2 _ vs).2, List.map_append]
      | _ => rfl

theorem dictSetEffect_twin (hS : Sep h) (hT : HTwin r1 r2 h h') (p : Path) (k : String) (v : Block) :
    dictSetEffect h' r2 p k v = (dictSetEffect h r1 p k v).map (renEffect r1 r2) := by
  unfold dictSetEffect
  cases hv : v.isEmpty with
  | true => rfl
  | false =>
    simp only [Bool.false_eq_true, if_false]
    rw [twin_resolve_root hS hT]
    cases hx : resolve h (root r1) p with
    | none => rfl
    | some x =>
      have hxr : x.reg = .run r1 := resolve_reg hS hx
      simp only [Option.map_some]
      rw [twin_get hT hxr, twin_len hT]
      cases hc : h.get? x with
      | none => rfl
      | some c =>
        cases c with
        | dict kvs =>
          simp only [Option.map_some, renCell_dict, renEffect, relocate_ren, ← kvSet_map, ren_mk]
        | _ => rfl

/-- Binding a formatted copy of a shared object: the same in both runs. -/
theorem fmtBind_twin (hS : Sep h) (hT : HTwin r1 r2 h h') (p : Path) (k : String) {g : Region}
    (hg : g.isShared = true) {y : Ref} (hy : y.reg = g) :
    fmtBind h' r2 p k g y [] = (fmtBind h r1 p k g y []).map (renEffect r1 r2) := by
  have hno : objIdx h g = [] := objIdx_shared hS hg
  have hno' : objIdx h' g = [] := by unfold objIdx; rw [hT.shared g hg]; exact hno
  unfold fmtBind
  simp only [hno, hno', List.append_nil, fmtArena_nil, shiftKeep_nil]
  rw [twin_resolve_root hS hT]
  cases hx : resolve h (root r1) p with
  | none => rfl
  | some x =>
    have hxr : x.reg = .run r1 := resolve_reg hS hx
    simp only [Option.map_some]
    rw [twin_get hT hxr, twin_len hT, twin_copyArena hS hT hg]
    cases hc : h.get? x with
    | none => rfl
    | some c =>
      cases c with
      | dict kvs =>
        simp only [Option.map_some, renCell_dict, renEffect, ← kvSet_map, shiftRef_reg hy, ren_mk]
      | _ => rfl

/-- An operation does in run r2 of `h'` what it does in run r1 of `h`, renamed. -/
theorem effect_twin (hS : Sep h) (hT : HTwin r1 r2 h h') {op : Op} (hf : op.fixed = true) :
    effect h' r2 op = (effect h r1 op).map (renEffect r1 r2) := by
  cases op with
  | start b =>
    simp only [effect, List.isEmpty_iff, hT.own, List.map_eq_nil_iff]
    split
    · split
      · simp only [Option.map_some, renEffect, relocate_ren, Option.map_none]
      · rfl
    · rfl
  | inCopy key src =>
    simp only [effect]
    by_cases hg : src.reg.isShared = true
    · simp only [hg, if_true]
      rw [twin_get_root hT, twin_len hT, twin_copyArena hS hT hg]
      cases hroot : h.get? (root r1) with
      | none => rfl
      | some c =>
        cases c with
        | dict kvs =>
          simp only [Option.map_some, renCell_dict, renEffect, ← kvSet_map, ren_mk, ren_root]
        | _ => rfl
    · simp only [hg]; rfl
  | inAlias key src => cases hf
  | configvarsCopy => simp only [effect]; exact updateCopy_twin hS hT _
  | configvarsAlias => cases hf
  | shortcutArgsCopy src => simp only [effect]; exact updateCopy_twin hS hT _
  | unsetIn key =>
    simp only [effect]
    rw [twin_get_root hT]
    cases hroot : h.get? (root r1) with
    | none => rfl
    | some c =>
      cases c with
      | dict kvs =>
        simp only [Option.map_some, renCell_dict, renEffect, kvErase_map, ren_root, List.map_nil]
      | _ => rfl
  | setKey key v => simp only [effect]; exact dictSetEffect_twin hS hT _ _ _
  | dictSetAt p k v => simp only [effect]; exact dictSetEffect_twin hS hT _ _ _
  | appendAt p v => simp only [effect]; exact extendEffect_twin hS hT _ _
  | extendAt p vs => simp only [effect]; exact extendEffect_twin hS hT _ _
  | addAt p v =>
    simp only [effect]
    rw [twin_resolve_root hS hT]
    cases hx : resolve h (root r1) p with
    | none => rfl
    | some x =>
      have hxr : x.reg = .run r1 := resolve_reg hS hx
      simp only [Option.map_some]
      rw [twin_get hT hxr, twin_len hT]
      cases hc : h.get? x with
      | none => rfl
      | some c =>
        cases c with
        | set rs =>
          simp only [Option.map_some, renCell_set]
          rw [twin_isPresent hT (fun y hy => by rw [← hxr]; exact hS.get hc y hy)]
          split
          · rfl
          · simp only [Option.map_some, renCell_set, renEffect, (relocAll_ren r1 r2 _ [v]).1,
              (relocAll_ren r1 r2 _ [v]).2, List.map_append]
        | _ => rfl
  | attrSetAt p k v =>
    simp only [effect]
    cases hv : v.isEmpty with
    | true => rfl
    | false =>
      simp only [Bool.false_eq_true, if_false]
      rw [twin_resolve_root hS hT]
      cases hx : resolve h (root r1) p with
      | none => rfl
      | some x =>
        have hxr : x.reg = .run r1 := resolve_reg hS hx
        simp only [Option.map_some]
        rw [twin_get hT hxr, twin_len hT]
        cases hc : h.get? x with
        | none => rfl
        | some c =>
          cases c with
          | obj cls attrs =>
            simp only [Option.map_some, renCell_obj, renEffect, relocate_ren, ← kvSet_map, ren_mk]
          | _ => rfl
  | copyKey src dst =>
    simp only [effect]
    rw [twin_get_root hT]
    cases hroot : h.get? (root r1) with
    | none => rfl
    | some c =>
      cases c with
      | dict kvs =>
        simp only [Option.map_some, renCell_dict, kvGet?_map]
        cases hy : kvGet? kvs src with
        | none => rfl
        | some y => simp only [Option.map_some, renEffect, renCell_dict, kvSet_map, ren_root, List.map_nil]
      | _ => rfl
  | fmtSetAt p k src keep =>
    have hk : keep = [] := keep_nil (by simpa only [Op.fixed] using hf)
    subst hk
    simp only [effect]
    by_cases hg : src.reg.isShared = true
    · simp only [hg, if_true]
      exact fmtBind_twin hS hT p k hg rfl
    · simp only [hg]; rfl
  | fmtFrom src sp p k byRef => cases hf
  | fail => rfl

/-! ### applying twin effects -/

theorem renEffect_local {e : Effect} (hL : Local r1 e) : Local r2 (renEffect r1 r2 e) := by
  constructor
  · intro c hc
    simp only [renEffect, List.mem_map] at hc
    obtain ⟨c0, hc0, rfl⟩ := hc
    exact renCell_in (hL.allocs c0 hc0)
  · intro x c hw
    simp only [renEffect, Option.map_eq_some_iff] at hw
    obtain ⟨⟨x0, c0⟩, hw0, he⟩ := hw
    simp only [Prod.mk.injEq] at he
    obtain ⟨rfl, rfl⟩ := he
    obtain ⟨hx, hc⟩ := hL.write x0 c0 hw0
    exact ⟨by rw [ren_run hx], renCell_in hc⟩

theorem ownAfter_ren {a : Arena} {e : Effect} (hL : Local r1 e) :
    ownAfter (a.map (renCell r1 r2)) (renEffect r1 r2 e) = (ownAfter a e).map (renCell r1 r2) := by
  unfold ownAfter
  cases hw : e.write with
  | none => simp [renEffect, hw]
  | some xc =>
    obtain ⟨x, c⟩ := xc
    have hx := (hL.write x c hw).1
    simp [renEffect, hw, ren_run hx, List.map_set]

theorem apply_twin (hT : HTwin r1 r2 h h') {e : Effect} (hL : Local r1 e) :
    HTwin r1 r2 (apply h r1 e) (apply h' r2 (renEffect r1 r2 e)) := by
  have hL' := renEffect_local (r2 := r2) hL
  constructor
  · intro g hg
    rw [apply_arena_other hL' (shared_ne_run hg r2), apply_arena_other hL (shared_ne_run hg r1)]
    exact hT.shared g hg
  · rw [apply_arena_own hL', apply_arena_own hL, hT.own, ownAfter_ren hL]

end

/-- One operation keeps two runs twins: the same effect (renamed), or both raise and are over. -/
theorem step_twin {r1 r2 : Nat} {st st' : State} (hS : Sep st.heap) (hT : Twin r1 r2 st st') {op : Op}
    (hf : op.fixed = true) : Twin r1 r2 (step st r1 op) (step st' r2 op) := by
  unfold step
  rw [hT.dead, effect_twin hS hT.heap hf]
  cases hd : st.dead r1 with
  | true => simpa using hT
  | false =>
    simp only [Bool.false_eq_true, if_false]
    cases he : effect st.heap r1 op with
    | none => exact ⟨hT.heap, by simp [kill]⟩
    | some e => exact ⟨apply_twin hT.heap (effect_local hS hf he), hT.dead.trans hd ▸ hT.dead⟩

/-! ### schedules -/

/-- Two runs executing the same operation list stay twins. -/
theorem exec_solo_twin {r1 r2 : Nat} {ops : List Op} (hf : ∀ o ∈ ops, o.fixed = true) {st st' : State}
    (hS : Sep st.heap) (hT : Twin r1 r2 st st') :
    Twin r1 r2 (exec (solo r1 ops) st) (exec (solo r2 ops) st') := by
  induction ops generalizing st st' with
  | nil => exact hT
  | cons o rest ih =>
    have ho := hf o List.mem_cons_self
    exact ih (fun o' ho' => hf o' (List.mem_cons_of_mem _ ho')) (step_sep hS r1 ho) (step_twin hS hT ho)

/-- An operation of another run keeps run r the twin of itself elsewhere. -/
theorem twin_step_other {r r' : Nat} {st st' : State} (hS : Sep st.heap) (hT : Twin r r st st') {op : Op}
    (hop : op.fixed = true) (hr : r' ≠ r) : Twin r r (step st r' op) st' := by
  refine ⟨⟨?_, ?_⟩, ?_⟩
  · intro g hg
    rw [step_arena_other hS r' hop (shared_ne_run hg r')]
    exact hT.heap.shared g hg
  · have hne : Region.run r ≠ Region.run r' := by intro e; cases e; exact hr rfl
    rw [step_arena_other hS r' hop hne]
    exact hT.heap.own
  · rw [step_dead_other st op (Ne.symm hr)]
    exact hT.dead

/-- Run r inside any schedule stays the twin of run r executing alone. -/
theorem exec_proj_twin {r : Nat} {s : Sched} (hs : SchedFixed s) {st st' : State}
    (hS : Sep st.heap) (hT : Twin r r st st') : Twin r r (exec s st) (exec (proj r s) st') := by
  induction s generalizing st st' with
  | nil => exact hT
  | cons e rest ih =>
    obtain ⟨r', op⟩ := e
    have hop : op.fixed = true := hs.head
    have hS1 := step_sep hS r' hop
    by_cases hr : r' = r
    · subst hr
      have : proj r' ((r', op) :: rest) = (r', op) :: proj r' rest := by simp [proj]
      rw [this]
      exact ih hs.tail hS1 (step_twin hS hT hop)
    · have : proj r ((r', op) :: rest) = proj r rest := by simp [proj, hr]
      rw [this]
      exact ih hs.tail hS1 (twin_step_other hS hT hop hr)

theorem htwin_refl (r : Nat) (h : Heap) : HTwin r r h h :=
  ⟨fun _ _ => rfl, (map_renCell_self r _).symm⟩

theorem twin_refl (r : Nat) (st : State) : Twin r r st st := ⟨htwin_refl r _, rfl⟩

/-! ### deep values -/

/-- The deep value of an object is a function of its region's arena. -/
theorem deepVal_region {h h' : Heap} (hS : Sep h) {g : Region} (hg : h'.arena g = h.arena g) (n : Nat)
    {x : Ref} (hx : x.reg = g) : deepVal n h' x = deepVal n h x := by
  induction n generalizing x with
  | zero => rfl
  | succ n ih =>
    have hget : h'.get? x = h.get? x := by simp only [Heap.get?, hx, hg]
    simp only [deepVal, hget]
    cases hc : h.get? x with
    | none => rfl
    | some c =>
      have hin := hS.get hc
      cases c with
      | leaf v => rfl
      | list rs =>
        simp only [Val.list.injEq]
        apply List.map_congr_left
        intro y hy
        exact ih (by rw [← hx]; exact hin y hy)
      | tuple rs =>
        simp only [Val.tuple.injEq]
        apply List.map_congr_left
        intro y hy
        exact ih (by rw [← hx]; exact hin y hy)
      | set rs =>
        simp only [Val.set.injEq]
        apply List.map_congr_left
        intro y hy
        exact ih (by rw [← hx]; exact hin y hy)
      | dict kvs =>
        simp only [Val.dict.injEq]
        apply List.map_congr_left
        intro kv hkv
        rw [ih (by rw [← hx]; exact cellIn_dict.1 hin kv hkv)]
      | obj cls attrs =>
        simp only [Val.dict.injEq, List.cons.injEq, true_and]
        apply List.map_congr_left
        intro kv hkv
        rw [ih (by rw [← hx]; exact cellIn_obj.1 hin kv hkv)]

/-- Twins have equal deep values at corresponding addresses. -/
theorem deepVal_twin {r1 r2 : Nat} {h h' : Heap} (hS : Sep h) (hT : HTwin r1 r2 h h') (n : Nat)
    {x : Ref} (hx : x.reg = .run r1) : deepVal n h' (ren r1 r2 x) = deepVal n h x := by
  induction n generalizing x with
  | zero => rfl
  | succ n ih =>
    simp only [deepVal, twin_get hT hx]
    cases hc : h.get? x with
    | none => rfl
    | some c =>
      have hin := hS.get hc
      cases c with
      | leaf v => rfl
      | list rs =>
        simp only [Option.map_some, renCell, CellOf.mapRefs, List.map_map, Val.list.injEq]
        apply List.map_congr_left
        intro y hy
        exact ih (by rw [← hx]; exact hin y hy)
      | tuple rs =>
        simp only [Option.map_some, renCell, CellOf.mapRefs, List.map_map, Val.tuple.injEq]
        apply List.map_congr_left
        intro y hy
        exact ih (by rw [← hx]; exact hin y hy)
      | set rs =>
        simp only [Option.map_some, renCell, CellOf.mapRefs, List.map_map, Val.set.injEq]
        apply List.map_congr_left
        intro y hy
        exact ih (by rw [← hx]; exact hin y hy)
      | dict kvs =>
        simp only [Option.map_some, renCell, CellOf.mapRefs, List.map_map, Val.dict.injEq]
        apply List.map_congr_left
        intro kv hkv
        simp only [Function.comp]
        rw [ih (by rw [← hx]; exact cellIn_dict.1 hin kv hkv)]
      | obj cls attrs =>
        simp only [Option.map_some, renCell, CellOf.mapRefs, List.map_map, Val.dict.injEq, List.cons.injEq, true_and]
        apply List.map_congr_left
        intro kv hkv
        simp only [Function.comp]
        rw [ih (by rw [← hx]; exact cellIn_obj.1 hin kv hkv)]

end Pypyr.C12
