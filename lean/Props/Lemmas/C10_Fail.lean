/-
  Helper lemmas for C10, section "failed operations": the state-returning loops `foldItemsS` / `genRecS`
  (`PypyrModel/Merge.lean`) agree with the `Except` loops, and the state a failed walk leaves is the result
  of a SUCCESSFUL walk over a truncation of the incoming tree.
-/
import PypyrModel.Merge

namespace Pypyr.C10
open Pypyr Pypyr.Merge

/-- `Trunc add' add`: `add'` is `add` cut off at one entry — the entries before it unchanged, that entry either
    dropped or (a mapping) cut off itself, everything after it dropped. -/
inductive Trunc : Pairs → Pairs → Prop
  | drop (rest : Pairs) : Trunc [] rest
  | keep (kv : Val × Val) {xs ys : Pairs} : Trunc xs ys → Trunc (kv :: xs) (kv :: ys)
  | descend (k : Val) {sub' sub : Pairs} (rest : Pairs) :
      Trunc sub' sub → Trunc [(k, .dict sub')] ((k, .dict sub) :: rest)

/-- the law a loop body obeys where it descends: it is exactly the recursive call on `current[k]`, re-inserted -/
def DescendLaw (fmt : Fmt) (item : Item) : Prop :=
  ∀ (recur : Rec) (rebuild : Pairs → Pairs) (cur : Pairs) (k v fk : Val) (csub sub : Pairs),
    descends fmt rebuild cur k v = some (fk, csub, sub) →
      v = .dict sub ∧
      ∀ sub2 : Pairs, item recur rebuild cur k (.dict sub2) =
        match recur (fun s => rebuild (dictSet cur fk (.dict s))) csub sub2 with
        | .error e => .error e
        | .ok (c, t) => .ok (dictSet cur fk (.dict c), ([fk], false) :: under fk t)

theorem descends_spec {fmt : Fmt} {rebuild : Pairs → Pairs} {cur : Pairs} {k v fk : Val} {csub sub : Pairs}
    (h : descends fmt rebuild cur k v = some (fk, csub, sub)) :
    fmt (ctxOf (rebuild cur)) k = .ok fk ∧ hashable fk = true ∧ dictGet? cur fk = some (.dict csub) ∧
      v = .dict sub := by
  unfold descends at h
  split at h
  · cases h
  · rename_i fk' hk
    split at h
    · cases h
    · rename_i hh
      split at h
      · rename_i c s hg
        cases h
        refine ⟨hk, ?_, hg, rfl⟩
        simpa using hh
      · cases h

theorem descends_dict_irrelevant {fmt : Fmt} {rebuild : Pairs → Pairs} {cur : Pairs} {k fk : Val}
    {csub sub : Pairs} (sub2 : Pairs) (h : descends fmt rebuild cur k (.dict sub) = some (fk, csub, sub)) :
    descends fmt rebuild cur k (.dict sub2) = some (fk, csub, sub2) := by
  obtain ⟨hk, hh, hg, _⟩ := descends_spec h
  unfold descends
  simp [hk, hh, hg]

theorem mergeItem_descendLaw (fmt : Fmt) : DescendLaw fmt (mergeItem fmt) := by
  intro recur rebuild cur k v fk csub sub h
  obtain ⟨hk, hh, hg, hv⟩ := descends_spec h
  refine ⟨hv, ?_⟩
  intro sub2
  unfold mergeItem
  simp only [hk, isStrLike, hh, hg]
  first | rfl | (split <;> simp_all)

theorem defaultsItem_descendLaw (fmt : Fmt) : DescendLaw fmt (defaultsItem fmt) := by
  intro recur rebuild cur k v fk csub sub h
  obtain ⟨hk, hh, hg, hv⟩ := descends_spec h
  refine ⟨hv, ?_⟩
  intro sub2
  unfold defaultsItem
  simp only [hk, hh, hg]
  first | rfl | (split <;> simp_all)

/-! ### the two loops agree -/

theorem foldItemsS_agrees (fmt : Fmt) (item : Item) (recur : Rec) (recurS : RecS) (rebuild : Pairs → Pairs) :
    ∀ (add cur : Pairs),
      (∀ cur' t, foldItems (item recur rebuild) cur add = .ok (cur', t) →
        foldItemsS (itemS fmt item recur recurS rebuild) cur add = (cur', none)) ∧
      (∀ e, foldItems (item recur rebuild) cur add = .error e →
        (foldItemsS (itemS fmt item recur recurS rebuild) cur add).2 = some e) := by
  intro add
  induction add with
  | nil =>
    intro cur
    constructor
    · intro cur' t h
      simp only [foldItems] at h
      cases h
      rfl
    · intro e h
      simp [foldItems] at h
  | cons kv rest ih =>
    intro cur
    obtain ⟨k, v⟩ := kv
    constructor
    · intro cur' t h
      simp only [foldItems] at h
      split at h
      · cases h
      · rename_i cur1 t1 hstep
        split at h
        · cases h
        · rename_i cur2 t2 hrest
          cases h
          simp only [foldItemsS, itemS, hstep]
          exact (ih cur1).1 _ _ hrest
    · intro e h
      simp only [foldItems] at h
      split at h
      · rename_i e' hstep
        cases h
        simp only [foldItemsS, itemS, hstep]
        cases descends fmt rebuild cur k v with
        | none => rfl
        | some d => rfl
      · rename_i cur1 t1 hstep
        split at h
        · rename_i e' hrest
          cases h
          simp only [foldItemsS, itemS, hstep]
          exact (ih cur1).2 _ hrest
        · cases h

theorem genRecS_agrees (fmt : Fmt) (item : Item) :
    ∀ (fuel : Nat) (rebuild : Pairs → Pairs) (cur add : Pairs),
      (∀ cur' t, genRec item fuel rebuild cur add = .ok (cur', t) →
        genRecS fmt item fuel rebuild cur add = (cur', none)) ∧
      (∀ e, genRec item fuel rebuild cur add = .error e →
        (genRecS fmt item fuel rebuild cur add).2 = some e) := by
  intro fuel
  cases fuel with
  | zero =>
    intro rebuild cur add
    constructor
    · intro cur' t h
      simp [genRec] at h
    · intro e h
      simp only [genRec] at h
      cases h
      rfl
  | succ n =>
    intro rebuild cur add
    simp only [genRec, genRecS]
    exact foldItemsS_agrees fmt item (genRec item n) (genRecS fmt item n) rebuild add cur

/-! ### the state a failed walk leaves is a successful walk over a truncation -/

theorem foldItems_failed_is_trunc (fmt : Fmt) (item : Item) (law : DescendLaw fmt item) (recur : Rec) (recurS : RecS)
    (rebuild : Pairs → Pairs) (e : Exc)
    (ihRec : ∀ (rb : Pairs → Pairs) (csub sub : Pairs), recur rb csub sub = .error e →
      ∃ sub', Trunc sub' sub ∧ ∃ t, recur rb csub sub' = .ok ((recurS rb csub sub).1, t)) :
    ∀ (add cur : Pairs), foldItems (item recur rebuild) cur add = .error e →
      ∃ add', Trunc add' add ∧
        ∃ t, foldItems (item recur rebuild) cur add' =
          .ok ((foldItemsS (itemS fmt item recur recurS rebuild) cur add).1, t) := by
  intro add
  induction add with
  | nil =>
    intro cur h
    simp [foldItems] at h
  | cons kv rest ih =>
    intro cur h
    obtain ⟨k, v⟩ := kv
    simp only [foldItems] at h
    split at h
    · -- this entry fails
      rename_i e' hstep
      cases h
      simp only [foldItemsS, itemS, hstep]
      cases hd : descends fmt rebuild cur k v with
      | none =>
        exact ⟨[], Trunc.drop _, [], by simp [foldItems]⟩
      | some d =>
        obtain ⟨fk, csub, sub⟩ := d
        obtain ⟨hv, hlaw⟩ := law recur rebuild cur k v fk csub sub hd
        subst hv
        have hrec : recur (fun s => rebuild (dictSet cur fk (.dict s))) csub sub = .error e := by
          have := hlaw sub
          rw [hstep] at this
          split at this
          · rename_i e2 he2
            cases this
            exact he2
          · cases this
        obtain ⟨sub', htr, t, hok⟩ := ihRec _ csub sub hrec
        refine ⟨[(k, .dict sub')], Trunc.descend k rest htr, ([fk], false) :: under fk t ++ [], ?_⟩
        simp only [foldItems, hlaw sub', hok]
    · rename_i cur1 t1 hstep
      split at h
      · rename_i e' hrest
        cases h
        obtain ⟨add', htr, t, hok⟩ := ih cur1 hrest
        refine ⟨(k, v) :: add', Trunc.keep (k, v) htr, t1 ++ t, ?_⟩
        simp only [foldItems, foldItemsS, itemS, hstep, hok]
      · cases h

theorem genRec_failed_is_trunc (fmt : Fmt) (item : Item) (law : DescendLaw fmt item) (e : Exc) (he : e ≠ outOfFuel) :
    ∀ (fuel : Nat) (rebuild : Pairs → Pairs) (cur add : Pairs), genRec item fuel rebuild cur add = .error e →
      ∃ add', Trunc add' add ∧
        ∃ t, genRec item fuel rebuild cur add' = .ok ((genRecS fmt item fuel rebuild cur add).1, t) := by
  intro fuel
  induction fuel with
  | zero =>
    intro rebuild cur add h
    simp only [genRec] at h
    cases h
    exact absurd rfl he
  | succ n ih =>
    intro rebuild cur add h
    simp only [genRec, genRecS] at h ⊢
    exact foldItems_failed_is_trunc fmt item law (genRec item n) (genRecS fmt item n) rebuild e
      (fun rb csub sub hr => ih rb csub sub hr) add cur h

/-! ### `mergeRec` / `defaultsRec` are the generic recursion -/

theorem mergeRec_eq_genRec (fmt : Fmt) : ∀ fuel, mergeRec fmt fuel = genRec (mergeItem fmt) fuel := by
  intro fuel
  induction fuel with
  | zero => funext rb cur add; rfl
  | succ n ih => funext rb cur add; simp only [mergeRec, genRec, ih]

theorem defaultsRec_eq_genRec (fmt : Fmt) : ∀ fuel, defaultsRec fmt fuel = genRec (defaultsItem fmt) fuel := by
  intro fuel
  induction fuel with
  | zero => funext rb cur add; rfl
  | succ n ih => funext rb cur add; simp only [defaultsRec, genRec, ih]

/-- a truncation is no deeper and no longer: whatever bounds the incoming tree bounds it -/
theorem Trunc.length_le {a b : Pairs} (h : Trunc a b) : a.length ≤ b.length := by
  induction h with
  | drop rest => simp
  | keep kv _ ih => simp only [List.length_cons]; omega
  | descend k rest _ _ => simp

end Pypyr.C10
