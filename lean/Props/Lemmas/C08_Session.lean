/-
  Helper lemmas for the C08 session theorems (`PypyrModel/FormatSession.lean`): the evaluator with
  assignment expressions is a conservative extension of `evalPy`; association-list facts.
-/
import PypyrModel.FormatSession

namespace Pypyr.C08
open Pypyr.Format

theorem ctx_get_set_same (s : Ctx) (x : String) (v : Val) : Ctx.get? (Ctx.set s x v) x = some v := by
  induction s with
  | nil => simp [Ctx.set, Ctx.get?]
  | cons kv rest ih =>
    obtain ⟨k, w⟩ := kv
    by_cases h : k = x
    · simp [Ctx.set, Ctx.get?, h]
    · simp [Ctx.set, Ctx.get?, h, ih]

theorem ctx_get_set_other (s : Ctx) (x y : String) (v : Val) (h : x ≠ y) :
    Ctx.get? (Ctx.set s x v) y = Ctx.get? s y := by
  induction s with
  | nil => simp [Ctx.set, Ctx.get?, h]
  | cons kv rest ih =>
    obtain ⟨k, w⟩ := kv
    by_cases hk : k = x
    · subst hk; simp [Ctx.set, Ctx.get?, h]
    · by_cases hy : k = y
      · subst hy; simp [Ctx.set, Ctx.get?, hk]
      · simp [Ctx.set, Ctx.get?, hk, hy, ih]

/-- With nothing bound by the evaluation itself, a name is the context's. -/
theorem lookupName_nil (ctx : Ctx) (n : String) :
    lookupName ctx [] n = (match Ctx.get? ctx n with
      | some v => .ok v
      | none => .error (nameError n)) := by
  unfold lookupName
  simp only [Ctx.get?]
  cases Ctx.get? ctx n <;> rfl

/-- The embedding has no assignment expression. -/
theorem ofPy_hasWalrus (e : PyExpr) : (PyW.ofPy e).hasWalrus = false := by
  induction e with
  | name n => rfl
  | const c => rfl
  | not a ih => simpa [PyW.ofPy, PyW.hasWalrus] using ih
  | len a ih => simpa [PyW.ofPy, PyW.hasWalrus] using ih
  | binop op a b iha ihb => simp [PyW.ofPy, PyW.hasWalrus, iha, ihb]
  | idx a i iha ihi => simp [PyW.ofPy, PyW.hasWalrus, iha, ihi]

/-- An expression without assignment expressions binds nothing: the scratch comes back as it was. -/
theorem evalPyW_noWalrus_scratch (ctx : Ctx) (e : PyW) (h : e.hasWalrus = false) :
    ∀ (s : Scratch) (v : Val) (s' : Scratch), evalPyW ctx s e = .ok (v, s') → s' = s := by
  induction e with
  | name n =>
    intro s v s' hv
    simp only [evalPyW] at hv
    split at hv
    · cases hv
    · cases hv; rfl
  | const c => intro s v s' hv; simp only [evalPyW] at hv; cases hv; rfl
  | not a ih =>
    intro s v s' hv
    simp only [evalPyW] at hv
    split at hv
    · cases hv
    · rename_i w s1 ha
      cases hv
      exact ih (by simpa [PyW.hasWalrus] using h) s w _ ha
  | len a ih =>
    intro s v s' hv
    simp only [evalPyW] at hv
    split at hv
    · cases hv
    · rename_i w s1 ha
      split at hv
      · cases hv
      · cases hv
        exact ih (by simpa [PyW.hasWalrus] using h) s w _ ha
  | idx a i iha ihi =>
    intro s v s' hv
    simp only [PyW.hasWalrus, Bool.or_eq_false_iff] at h
    simp only [evalPyW] at hv
    split at hv
    · cases hv
    · rename_i w s1 ha
      have e1 := iha h.1 s w _ ha
      subst e1
      split at hv
      · cases hv
      · rename_i j s2 hi
        have e2 := ihi h.2 _ j _ hi
        subst e2
        split at hv
        · cases hv
        · cases hv; rfl
  | walrus x a _ => simp [PyW.hasWalrus] at h
  | binop op a b iha ihb =>
    intro s v s' hv
    simp only [PyW.hasWalrus, Bool.or_eq_false_iff] at h
    simp only [evalPyW] at hv
    split at hv
    · cases hv
    · rename_i w s1 ha
      have e1 := iha h.1 s w _ ha
      subst e1
      split at hv
      · split at hv
        · exact ihb h.2 _ _ _ hv
        · cases hv; rfl
      · split at hv
        · cases hv; rfl
        · exact ihb h.2 _ _ _ hv
      · split at hv
        · cases hv
        · rename_i w2 s2 hb
          have e2 := ihb h.2 _ w2 _ hb
          subst e2
          split at hv
          · cases hv
          · cases hv; rfl

/-- Conservative extension: on the embedding of a `PyExpr`, with nothing bound, `evalPyW` computes
    `evalPy` and binds nothing. -/
theorem evalPyW_ofPy (ctx : Ctx) (e : PyExpr) :
    evalPyW ctx [] (PyW.ofPy e) = (match evalPy ctx e with
      | .ok v => .ok (v, [])
      | .error x => .error x) := by
  induction e with
  | name n =>
    simp only [PyW.ofPy, evalPyW, lookupName_nil, evalPy]
    cases Ctx.get? ctx n <;> rfl
  | const c => simp [PyW.ofPy, evalPyW, evalPy]
  | not a ih =>
    simp only [PyW.ofPy, evalPyW, ih, evalPy]
    cases evalPy ctx a <;> rfl
  | len a ih =>
    simp only [PyW.ofPy, evalPyW, ih, evalPy]
    cases evalPy ctx a with
    | error x => rfl
    | ok v =>
      simp only [bind, Except.bind]
      cases pyLen v <;> rfl
  | idx a i iha ihi =>
    simp only [PyW.ofPy, evalPyW, iha, evalPy]
    cases evalPy ctx a with
    | error x => rfl
    | ok v =>
      simp only [bind, Except.bind, ihi]
      cases evalPy ctx i with
      | error x => rfl
      | ok j =>
        simp only
        cases pyIdx v j <;> rfl
  | binop op a b iha ihb =>
    simp only [PyW.ofPy, evalPyW, iha]
    cases ha : evalPy ctx a with
    | error x => cases op <;> simp [evalPy, ha, bind, Except.bind]
    | ok v =>
      cases op <;> simp only [evalPy, ha, bind, Except.bind, pure, Except.pure, ihb, applyBin]
      all_goals first
        | (by_cases ht : v.truthy = true <;> simp only [ht, ↓reduceIte] <;> cases evalPy ctx b <;> rfl)
        | (cases evalPy ctx b with
           | error x => rfl
           | ok w =>
             try simp only []
             first
               | done
               | rfl
               | (cases cmpVals v w <;> rfl)
               | (cases pyAdd v w <;> rfl)
               | (cases pyIn v w <;> rfl)
               | (cases hv : v.num? with
                  | none => rfl
                  | some x => cases hw : w.num? <;> rfl))

end Pypyr.C08
