/- Helper lemmas for section 10 of Props/C14.lean (the pyimport source language, PypyrModel/PyImportSrc.lean):
   the dict operations `Ns.set` / `Ns.get` / `Ns.setAll` and the last binding of a trace. -/
import PypyrModel.PyImportSrc

namespace Pypyr.PyImportSrc

theorem Ns.get_set_same (ns : Ns) (k : String) (v : Obj) : (ns.set k v).get k = some v := by
  induction ns with
  | nil => simp [Ns.set, Ns.get]
  | cons h t ih =>
    obtain ⟨k', v'⟩ := h
    by_cases hk : k' = k
    · simp [Ns.set, Ns.get, hk]
    · simp [Ns.set, Ns.get, hk, ih]

theorem Ns.get_set_other (ns : Ns) (k n : String) (v : Obj) (h : k ≠ n) : (ns.set k v).get n = ns.get n := by
  induction ns with
  | nil => simp [Ns.set, Ns.get, h]
  | cons hd t ih =>
    obtain ⟨k', v'⟩ := hd
    by_cases hk : k' = k
    · subst hk; simp [Ns.set, Ns.get, h]
    · by_cases hn : k' = n
      · subst hn
        have hk2 : ¬ k' = k := hk
        simp [Ns.set, Ns.get, hk2]
      · simp [Ns.set, Ns.get, hk, hn, ih]

theorem Ns.get_set (ns : Ns) (k n : String) (v : Obj) :
    (ns.set k v).get n = if k = n then some v else ns.get n := by
  by_cases h : k = n
  · subst h; simp [Ns.get_set_same]
  · simp [h, Ns.get_set_other _ _ _ _ h]

theorem Ns.setAll_nil (ns : Ns) : ns.setAll [] = ns := rfl

theorem Ns.setAll_cons (ns : Ns) (b : String × Obj) (bs : List (String × Obj)) :
    ns.setAll (b :: bs) = (ns.set b.1 b.2).setAll bs := rfl

theorem Ns.setAll_append (ns : Ns) (bs cs : List (String × Obj)) :
    ns.setAll (bs ++ cs) = (ns.setAll bs).setAll cs := by
  simp [Ns.setAll, List.foldl_append]

/-- reading a dict after a run of assignments: the LAST assignment to that key, else what was there -/
theorem Ns.get_setAll (bs : List (String × Obj)) (ns : Ns) (n : String) :
    (ns.setAll bs).get n = match lastBinding bs n with
      | some o => some o
      | none => ns.get n := by
  induction bs generalizing ns with
  | nil => simp [Ns.setAll, lastBinding]
  | cons b t ih =>
    obtain ⟨k, v⟩ := b
    rw [Ns.setAll_cons, ih]
    simp only [lastBinding]
    cases hl : lastBinding t n with
    | some o => simp
    | none =>
      by_cases hk : k = n
      · subst hk; simp [Ns.get_set_same]
      · simp [hk, Ns.get_set_other _ _ _ _ hk]

theorem lastBinding_append (bs cs : List (String × Obj)) (n : String) :
    lastBinding (bs ++ cs) n = match lastBinding cs n with
      | some o => some o
      | none => lastBinding bs n := by
  induction bs with
  | nil => cases h : lastBinding cs n <;> simp [lastBinding, h]
  | cons b t ih =>
    obtain ⟨k, v⟩ := b
    simp only [List.cons_append, lastBinding, ih]
    cases h : lastBinding cs n <;> simp

theorem lastBinding_isSome (bs : List (String × Obj)) (n : String) :
    (lastBinding bs n).isSome ↔ n ∈ bs.map (·.1) := by
  induction bs with
  | nil => simp [lastBinding]
  | cons b t ih =>
    obtain ⟨k, v⟩ := b
    simp only [lastBinding, List.map_cons, List.mem_cons]
    cases h : lastBinding t n with
    | some o =>
      have : n ∈ t.map (·.1) := ih.mp (by simp [h])
      simp [this]
    | none =>
      have hn : ¬ n ∈ t.map (·.1) := fun hm => by have := ih.mpr hm; simp [h] at this
      by_cases hk : k = n
      · simp [hk]
      · have hk' : ¬ n = k := fun e => hk e.symm
        simp only [hk, if_false, hk', false_or]
        constructor
        · intro x; simp at x
        · intro x; exact absurd x hn

theorem Ns.keys_set (ns : Ns) (k : String) (v : Obj) :
    (ns.set k v).map (·.1) = if k ∈ ns.map (·.1) then ns.map (·.1) else ns.map (·.1) ++ [k] := by
  induction ns with
  | nil => simp [Ns.set]
  | cons hd t ih =>
    obtain ⟨k', v'⟩ := hd
    by_cases hk : k' = k
    · subst hk; simp [Ns.set]
    · have hk' : ¬ k = k' := fun e => hk e.symm
      simp only [Ns.set, hk, if_false, List.map_cons, ih, List.mem_cons, hk', false_or]
      split <;> simp

/-- a dict: every key once -/
def Ns.WF (ns : Ns) : Prop := (ns.map (·.1)).Nodup

theorem Ns.set_wf (ns : Ns) (k : String) (v : Obj) (h : ns.WF) : (ns.set k v).WF := by
  unfold Ns.WF at *
  rw [Ns.keys_set]
  split
  · exact h
  · rename_i hn
    rw [List.nodup_append]
    refine ⟨h, by simp, ?_⟩
    intro a ha b hb
    simp at hb
    subst hb
    intro e
    subst e
    exact hn ha

theorem Ns.setAll_wf (bs : List (String × Obj)) (ns : Ns) (h : ns.WF) : (ns.setAll bs).WF := by
  induction bs generalizing ns with
  | nil => exact h
  | cons b t ih => rw [Ns.setAll_cons]; exact ih _ (Ns.set_wf _ _ _ h)

theorem Ns.get_none_of_not_mem (ns : Ns) (n : String) (h : n ∉ ns.map (·.1)) : ns.get n = none := by
  induction ns with
  | nil => rfl
  | cons hd t ih =>
    obtain ⟨k, v⟩ := hd
    simp only [List.map_cons, List.mem_cons, not_or] at h
    have hk : ¬ k = n := fun e => h.1 e.symm
    simp [Ns.get, hk, ih h.2]

/-- in a dict the last binding of a key is its only one -/
theorem Ns.lastBinding_of_wf (ns : Ns) (n : String) (h : ns.WF) : lastBinding ns n = ns.get n := by
  induction ns with
  | nil => rfl
  | cons hd t ih =>
    obtain ⟨k, v⟩ := hd
    unfold Ns.WF at h
    simp only [List.map_cons, List.nodup_cons] at h
    simp only [lastBinding, Ns.get, ih h.2]
    by_cases hk : k = n
    · subst hk
      simp [Ns.get_none_of_not_mem t k h.1]
    · simp only [hk, if_false]
      cases Ns.get t n <;> rfl

theorem importModule_error (w : World) (p : Path) (e : Err) (h : importModule w p = .error e) :
    e = .modNotFound := by
  simp only [importModule] at h
  split at h
  · cases h
  · cases h; rfl

end Pypyr.PyImportSrc
